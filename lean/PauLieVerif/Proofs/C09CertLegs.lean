/-
Soundness of the leg-profile checks of `Model/Cert.lean`: every accepted profile determines a number `d`
that is both the size of the commutator closure of the canonical vertices and the dimension the model of
`get_dla_dim()` computes from the legs (`Good`).
-/
import PauLieVerif.Proofs.C09CertKer
import PauLieVerif.Properties.C01Comp

namespace PauLie
namespace C09Cert
open Closure Classify C01Star C01TypeB

/-- the legs determine a closure size, and the dimension formula gives the same number -/
def Good (n : Nat) (legs : List (List PS)) : Prop :=
  ∃ d, (∀ v ∈ legs.flatten, v.bits.length = 2 * n) ∧
    (closureList (C02.bitsOf legs.flatten)).1.length = d ∧
    ∀ (deps unapp : List PS) (tags : List String) (complete : Bool),
      dlaDimOfMorphs [⟨legs, deps, unapp, tags, complete⟩] = .ok d

theorem good_of_len {n : Nat} {legs : List (List PS)} {d : Nat}
    (hlen : ∀ x ∈ C02.bitsOf legs.flatten, x.length = 2 * n)
    (hclo : (closureList (C02.bitsOf legs.flatten)).1.length = d)
    (hdim : ∀ (deps unapp : List PS) (tags : List String) (complete : Bool),
      dlaDimOfMorphs [⟨legs, deps, unapp, tags, complete⟩] = .ok d) : Good n legs :=
  ⟨d, fun v hv => hlen v.bits (List.mem_map.2 ⟨v, hv, rfl⟩), hclo, hdim⟩

/-! ### independent realisations: the family theorems -/

theorem point_sound {n : Nat} {c : PS} (h : c.bits.length = 2 * n) : Good n [[c]] := by
  refine ⟨1, ?_, ?_, fun deps unapp tags complete => C01Comp.dlaDim_point c deps unapp tags complete⟩
  · intro v hv; simp at hv; subst hv; exact h
  · simpa [C02.bitsOf] using C01Comp.card_clo_singleton h

theorem certA_sound {n : Nat} {legs : List (List PS)} {c : PS} {singles ps : List PS}
    (h : Cert.certA (2 * n) legs c singles ps = true) : Good n legs := by
  cases singles with
  | nil => simp [Cert.certA] at h
  | cons l1 ls' =>
    simp only [Cert.certA, Bool.and_eq_true, decide_eq_true_eq, bne_iff_ne, ne_eq] at h
    obtain ⟨⟨hlegs, hr⟩, hA⟩ := h
    rw [typeAB_eq] at hA
    simp only [bitsOf_eq] at hA
    have hS := typeAB_sound hA
    rw [typeALegs_eq] at hlegs
    subst hlegs
    obtain ⟨_, s2, s4⟩ := C01_typeA hS hr [] [] [] true
    refine good_of_len ?_ s4 (fun deps unapp tags complete => (C01_typeA hS hr deps unapp tags complete).2.1)
    rw [typeALegs_flatten]
    intro x hx
    apply hS.len
    simp only [C02.bitsOf, List.map_cons, List.map_append, List.cons_append, List.mem_cons, List.mem_append] at hx ⊢
    rcases hx with rfl | rfl | hx | hx
    · exact Or.inr (Or.inl rfl)
    · exact Or.inl rfl
    · exact Or.inr (Or.inr (Or.inr hx))
    · exact Or.inr (Or.inr (Or.inl hx))

theorem all_len2 {twos : List (List PS)} (h : twos.all (fun l => l.length == 2) = true) :
    ∀ leg ∈ twos, leg.length = 2 := by
  intro leg hl
  have := List.all_eq_true.1 h leg hl
  simpa using this

theorem certB1_sound {n : Nat} {legs : List (List PS)} {c : PS} {singles : List PS} {twos : List (List PS)}
    (h : Cert.certB1 (2 * n) legs c singles twos = true) : Good n legs := by
  cases singles with
  | nil => simp [Cert.certB1] at h
  | cons l1 ls' =>
    simp only [Cert.certB1, Bool.and_eq_true, decide_eq_true_eq] at h
    obtain ⟨⟨⟨hlegs, h2⟩, ht2⟩, hB⟩ := h
    rw [typeB1B_eq] at hB
    simp only [bitsOf_eq] at hB
    rw [typeB1Legs_eq] at hlegs
    subst hlegs
    have hS := typeB1B_sound hB
    obtain ⟨_, _, s4⟩ := C01_typeB1_dim (j := ls'.length) rfl rfl (all_len2 h2) ht2 hS [] [] [] true
    exact good_of_len hS.len s4 (fun deps unapp tags complete =>
      (C01_typeB1_dim (j := ls'.length) rfl rfl (all_len2 h2) ht2 hS deps unapp tags complete).2.1)

theorem certB3_sound {n : Nat} {legs : List (List PS)} {c : PS} {singles long : List PS} {twos : List (List PS)}
    (h : Cert.certB3 (2 * n) legs c singles twos long = true) : Good n legs := by
  cases singles with
  | nil => simp [Cert.certB3] at h
  | cons l1 ls' =>
    simp only [Cert.certB3, Bool.and_eq_true, decide_eq_true_eq, beq_iff_eq] at h
    obtain ⟨⟨⟨⟨hlegs, h2⟩, ht1⟩, hl⟩, hB⟩ := h
    rw [realisesB_eq, canon3_eq] at hB
    simp only [bitsOf_eq] at hB
    rw [typeBLongLegs_eq] at hlegs
    subst hlegs
    have hS := realisesB_sound hB
    obtain ⟨_, _, s4⟩ := C01_typeB3_dim (j := ls'.length) rfl rfl (all_len2 h2) ht1 hl hS [] [] [] true
    exact good_of_len hS.len s4 (fun deps unapp tags complete =>
      (C01_typeB3_dim (j := ls'.length) rfl rfl (all_len2 h2) ht1 hl hS deps unapp tags complete).2.1)

theorem certB2_sound {n : Nat} {legs : List (List PS)} {c : PS} {singles long : List PS} {twos : List (List PS)}
    (h : Cert.certB2 (2 * n) legs c singles twos long = true) : Good n legs := by
  cases singles with
  | nil => simp [Cert.certB2] at h
  | cons l1 ls' =>
    cases twos with
    | nil => simp [Cert.certB2] at h
    | cons tw twos' =>
      simp only [Cert.certB2, Bool.and_eq_true, decide_eq_true_eq, beq_iff_eq] at h
      obtain ⟨⟨⟨hlegs, h2⟩, hl⟩, hB⟩ := h
      rw [realisesB_eq, canon4_eq] at hB
      simp only [bitsOf_eq] at hB
      rw [typeBLongLegs_eq] at hlegs
      subst hlegs
      have hS := realisesB_sound hB
      obtain ⟨_, _, s4⟩ := C01_typeB2_dim (j := ls'.length) (t := twos'.length) rfl rfl (all_len2 h2) hl hS [] [] [] true
      exact good_of_len hS.len s4 (fun deps unapp tags complete =>
        (C01_typeB2_dim (j := ls'.length) (t := twos'.length) rfl rfl (all_len2 h2) hl hS deps unapp tags complete).2.1)

end C09Cert
end PauLie
