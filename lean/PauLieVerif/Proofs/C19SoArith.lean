/-
Helpers for property C19, part 8 (arithmetic): the series label the checker assigns to a block with
the numbers of so(M) - `d = M(M-1)/2` basis strings, of which `1 + (M-2)(M-3)/2` commute with a given
one - is the label of the name `so(M)` (B series for odd M ≥ 7, none otherwise), for every M ≥ 5.
-/
import Mathlib.Tactic.Ring
import Mathlib.Tactic.Linarith
import PauLieVerif.Model.Classify

namespace PauLie
namespace C19
open Classify

theorem find_range_unique (p : Nat → Bool) : ∀ (N r : Nat), r < N → p r = true →
    (∀ r', r' < N → p r' = true → r' = r) → (List.range N).find? p = some r
  | 0, _, h, _, _ => by omega
  | N + 1, r, hr, hp, hu => by
    rw [List.range_succ, List.find?_append]
    by_cases e : r = N
    · subst e
      have hn : (List.range r).find? p = none := by
        rw [List.find?_eq_none]
        intro x hx hpx
        have := hu x (by have := List.mem_range.1 hx; omega) hpx
        have := List.mem_range.1 hx
        omega
      rw [hn]
      simp [hp]
    · rw [find_range_unique p N r (by omega) hp (fun r' hr' hp' => hu r' (by omega) hp')]
      rfl

theorem tri_inj {a b : Nat} (h : a * (a + 1) = b * (b + 1)) : a = b := by
  rcases Nat.lt_trichotomy a b with h1 | h1 | h1
  · nlinarith
  · exact h1
  · nlinarith

/-- **the label of an so(M) block**, M ≥ 5 -/
theorem labelOfBlock_so (M : Nat) (hM : 5 ≤ M) :
    labelOfBlock (M * (M - 1) / 2) (1 + (M - 2) * (M - 3) / 2) = labelOfName .SO M := by
  rcases Nat.even_or_odd' M with ⟨r, rfl | rfl⟩
  · -- M = 2r, r ≥ 3: no B/C-series candidate
    have hd : 2 * r * (2 * r - 1) / 2 = r * (2 * r - 1) := by
      rw [Nat.mul_assoc]; exact Nat.mul_div_cancel_left _ (by omega)
    have hnone : (List.range (r * (2 * r - 1) + 1)).find? (fun x => decide (x ≥ 3) && x * (2 * x + 1) == r * (2 * r - 1))
        = none := by
      rw [List.find?_eq_none]
      intro x _ hx
      simp only [Bool.and_eq_true, decide_eq_true_eq, beq_iff_eq] at hx
      obtain ⟨s, rfl⟩ : ∃ s, r = s + 1 := ⟨r - 1, by omega⟩
      have h2 : (2 * x) * (2 * x + 1) = (2 * s + 1) * (2 * s + 1 + 1) := by
        have := hx.2
        simp only [show 2 * (s + 1) - 1 = 2 * s + 1 by omega] at this
        nlinarith
      have := tri_inj h2
      omega
    have hl : labelOfName .SO (2 * r) = 0 := by
      simp [labelOfName]
    rw [hd, hl]
    unfold labelOfBlock
    rw [hnone]
  · -- M = 2r+1
    obtain ⟨t, rfl⟩ : ∃ t, r = t + 2 := ⟨r - 2, by omega⟩
    cases t with
    | zero => decide
    | succ t =>
      have hd : (2 * (t + 1 + 2) + 1) * (2 * (t + 1 + 2) + 1 - 1) / 2 = (t + 3) * (2 * (t + 3) + 1) := by
        have : (2 * (t + 1 + 2) + 1) * (2 * (t + 1 + 2) + 1 - 1) = 2 * ((t + 3) * (2 * (t + 3) + 1)) := by
          simp only [show 2 * (t + 1 + 2) + 1 - 1 = 2 * (t + 3) by omega]
          ring
        rw [this]; exact Nat.mul_div_cancel_left _ (by omega)
      have hc : 1 + (2 * (t + 1 + 2) + 1 - 2) * (2 * (t + 1 + 2) + 1 - 3) / 2 = 2 * t * t + 9 * t + 11 := by
        have : (2 * (t + 1 + 2) + 1 - 2) * (2 * (t + 1 + 2) + 1 - 3) = 2 * ((2 * t + 5) * (t + 2)) := by
          simp only [show 2 * (t + 1 + 2) + 1 - 2 = 2 * t + 5 by omega, show 2 * (t + 1 + 2) + 1 - 3 = 2 * (t + 2) by omega]
          ring
        rw [this, Nat.mul_div_cancel_left _ (by omega : 0 < 2)]
        ring
      have hfind : (List.range ((t + 3) * (2 * (t + 3) + 1) + 1)).find?
          (fun x => decide (x ≥ 3) && x * (2 * x + 1) == (t + 3) * (2 * (t + 3) + 1)) = some (t + 3) := by
        apply find_range_unique
        · nlinarith
        · simp
        · intro r' _ hr'
          simp only [Bool.and_eq_true, decide_eq_true_eq, beq_iff_eq] at hr'
          have h2 : (2 * r') * (2 * r' + 1) = (2 * (t + 3)) * (2 * (t + 3) + 1) := by nlinarith [hr'.2]
          have := tri_inj h2
          omega
      have hl : labelOfName .SO (2 * (t + 1 + 2) + 1) = 1 := by
        have h1 : (2 * (t + 1 + 2) + 1) % 2 = 1 := by omega
        have h2 : 2 * (t + 1 + 2) + 1 ≥ 7 := by omega
        simp [labelOfName, h1, h2]
      rw [hd, hc, hl]
      unfold labelOfBlock
      rw [hfind]
      have e1 : ¬ (2 * t * t + 9 * t + 11 = (t + 3) * (t + 3)) := by
        intro h; nlinarith
      have e2 : 2 * t * t + 9 * t + 11 = 2 * (t + 3) * (t + 3) - 3 * (t + 3) + 2 := by
        have : 2 * (t + 3) * (t + 3) = 2 * t * t + 12 * t + 18 := by ring
        rw [this]; omega
      simp only [beq_iff_eq, e1, if_false, ← e2, if_true]

example : labelOfBlock 21 11 = 1 ∧ labelOfName .SO 7 = 1 ∧ labelOfBlock 15 7 = 0 ∧ labelOfBlock 10 4 = 0 := by decide

end C19
end PauLie
