/-
C15, part 3: consequences at the specification level (all n):
range, the commuting case, generator independence, and the symmetry in V and W
(orbit double counting with the transvections `τ_g`).  Core Lean only.
-/
import PauLieVerif.Proofs.C15Dist

namespace PauLie
namespace Otoc
open Closure

/-! ## Transvections -/

theorem tau_length {m : Nat} {g x : V} (hg : g.length = m) (hx : x.length = m) :
    (tau g x).length = m := by
  unfold tau; split
  · exact length_add_eq hx hg
  · exact hx

/-- each move is an involution -/
theorem tau_tau {g x : V} (h : x.length = g.length) : tau g (tau g x) = x := by
  unfold tau
  cases ho : omega x g with
  | true =>
    have : omega (add x g) g = true := by rw [omega_add_left x g g h, ho, omega_self]; rfl
    simp [this, add_add_cancel_right x g h]
  | false => simp [ho]

/-- each move preserves the symplectic form -/
theorem omega_tau {g x y : V} (hx : x.length = g.length) (hy : y.length = g.length) :
    omega (tau g x) (tau g y) = omega x y := by
  unfold tau
  cases hxg : omega x g <;> cases hyg : omega y g <;> simp only [if_true, if_false, Bool.false_eq_true]
  · rw [omega_add_right x y g hy, hxg]; simp
  · rw [omega_add_left x g y hx, omega_comm g y, hyg]; simp
  · rw [omega_add_left x g (add y g) hx, omega_add_right x y g hy, omega_add_right g y g hy,
      omega_comm g y, hxg, hyg, omega_self]
    cases omega x y <;> rfl

theorem orbit_tau {G : List V} {v x g : V} (hx : Orbit G v x) (hg : g ∈ G) :
    Orbit G v (tau g x) := by
  unfold tau; split
  · exact Orbit.step hx hg ‹_›
  · exact hx

/-- a move permutes every enumeration of an orbit -/
theorem map_tau_perm {n : Nat} {G : List V} (hG : Uniform n G) {v : V} (hv : v.length = 2 * n)
    {L : List V} (hnd : L.Nodup) (hL : ∀ x, x ∈ L ↔ Orbit G v x) {g : V} (hg : g ∈ G) :
    (L.map (tau g)).Perm L := by
  have hlen : ∀ x, x ∈ L → x.length = g.length := fun x hx => by
    rw [orbit_length hG hv ((hL x).1 hx), hG g hg]
  have hnd' : (L.map (tau g)).Nodup := by
    rw [List.Nodup, List.pairwise_map]
    refine List.Pairwise.imp_of_mem ?_ hnd
    intro a b ha hb hab heq
    apply hab
    rw [← tau_tau (hlen a ha), heq, tau_tau (hlen b hb)]
  rw [List.perm_ext_iff_of_nodup hnd' hnd]
  intro x
  rw [List.mem_map]
  constructor
  · rintro ⟨y, hy, rfl⟩
    exact (hL _).2 (orbit_tau ((hL y).1 hy) hg)
  · intro hx
    exact ⟨tau g x, (hL _).2 (orbit_tau ((hL x).1 hx) hg), tau_tau (hlen x hx)⟩

/-- the number of members of `Orbit G v` anticommuting with `y` does not change
when `y` is moved by a generator -/
theorem countP_tau {n : Nat} {G : List V} (hG : Uniform n G) {v : V} (hv : v.length = 2 * n)
    {L : List V} (hnd : L.Nodup) (hL : ∀ x, x ∈ L ↔ Orbit G v x) {g : V} (hg : g ∈ G)
    {y : V} (hy : y.length = 2 * n) :
    L.countP (fun x => omega (tau g y) x) = L.countP (fun x => omega y x) := by
  have hp := map_tau_perm hG hv hnd hL hg
  rw [← hp.countP_eq, List.countP_map]
  apply List.countP_congr
  intro x hx
  have hxl : x.length = g.length := by rw [orbit_length hG hv ((hL x).1 hx), hG g hg]
  have hyl : y.length = g.length := by rw [hy, hG g hg]
  simp only [Function.comp]
  rw [omega_tau hyl hxl]

/-- … hence it is the same for every `y` in the orbit of `w` -/
theorem countP_orbit {n : Nat} {G : List V} (hG : Uniform n G) {v : V} (hv : v.length = 2 * n)
    {L : List V} (hnd : L.Nodup) (hL : ∀ x, x ∈ L ↔ Orbit G v x) {w y : V}
    (hw : w.length = 2 * n) (hy : Orbit G w y) :
    L.countP (fun x => omega y x) = L.countP (fun x => omega w x) := by
  induction hy with
  | base => rfl
  | @step y g hy hg ho ih =>
    have := countP_tau hG hv hnd hL hg (orbit_length hG hw hy)
    unfold tau at this
    rw [if_pos ho] at this
    rw [this, ih]

/-! ## Double counting -/

theorem sum_map_add {α : Type} (f g : α → Nat) (m : List α) :
    (m.map (fun y => f y + g y)).sum = (m.map f).sum + (m.map g).sum := by
  induction m with
  | nil => rfl
  | cons a t ih => simp only [List.map_cons, List.sum_cons, ih]; omega

theorem sum_indicator {α : Type} (q : α → Bool) (m : List α) :
    (m.map (fun y => if q y then 1 else 0)).sum = m.countP q := by
  induction m with
  | nil => rfl
  | cons a t ih => simp only [List.map_cons, List.sum_cons, ih, List.countP_cons]; omega

theorem sum_countP_swap {α β : Type} (p : α → β → Bool) (l : List α) (m : List β) :
    (l.map (fun x => m.countP (p x))).sum = (m.map (fun y => l.countP (fun x => p x y))).sum := by
  induction l with
  | nil => induction m with
    | nil => rfl
    | cons b t ih => simpa using ih
  | cons a l ih =>
    simp only [List.map_cons, List.sum_cons, List.countP_cons, ih]
    rw [sum_map_add, sum_indicator]; omega

theorem sum_map_const_on {α : Type} (f : α → Nat) (c : Nat) (m : List α) (h : ∀ y, y ∈ m → f y = c) :
    (m.map f).sum = m.length * c := by
  induction m with
  | nil => simp
  | cons a t ih =>
    simp only [List.map_cons, List.sum_cons, List.length_cons, Nat.succ_mul]
    rw [ih (fun y hy => h y (List.mem_cons_of_mem _ hy)), h a (List.mem_cons_self ..)]; omega

/-- **symmetry**, cross-multiplied: `a(v,w)·|Orb w| = a(w,v)·|Orb v|` for any
duplicate-free enumerations of the two orbits -/
theorem symmetry_lists {n : Nat} {G : List V} (hG : Uniform n G) {v w : V}
    (hv : v.length = 2 * n) (hw : w.length = 2 * n) {Lv Lw : List V}
    (hndv : Lv.Nodup) (hLv : ∀ x, x ∈ Lv ↔ Orbit G v x)
    (hndw : Lw.Nodup) (hLw : ∀ x, x ∈ Lw ↔ Orbit G w x) :
    Lv.countP (fun x => omega w x) * Lw.length = Lw.countP (fun y => omega v y) * Lv.length := by
  have h1 : (Lw.map (fun y => Lv.countP (fun x => omega y x))).sum
      = Lw.length * Lv.countP (fun x => omega w x) :=
    sum_map_const_on _ _ _ (fun y hy => countP_orbit hG hv hndv hLv hw ((hLw y).1 hy))
  have h2 : (Lv.map (fun x => Lw.countP (fun y => omega x y))).sum
      = Lv.length * Lw.countP (fun y => omega v y) :=
    sum_map_const_on _ _ _ (fun x hx => countP_orbit hG hw hndw hLw hv ((hLv x).1 hx))
  have h3 := sum_countP_swap (fun y x => omega y x) Lw Lv
  have h4 : (Lv.map (fun x => Lw.countP (fun y => omega y x))).sum
      = (Lv.map (fun x => Lw.countP (fun y => omega x y))).sum := by
    congr 1; apply List.map_congr_left; intro x _
    apply List.countP_congr; intro y _; simp [omega_comm y x]
  rw [h1] at h3
  rw [h4, h2] at h3
  rw [Nat.mul_comm, h3, Nat.mul_comm]

/-! ## Orbit of a string commuting with all generators -/

theorem orbit_commuting {G : List V} {v : V} (h : ∀ g, g ∈ G → omega v g = false) {x : V} :
    Orbit G v x ↔ x = v := by
  constructor
  · intro hx
    induction hx with
    | base => rfl
    | step _ hg ho ih => subst ih; rw [h _ hg] at ho; cases ho
  · rintro rfl; exact Orbit.base

end Otoc
end PauLie
