/-
For EVEN `k` the branch `V ≠ I` of `compile` returns, through its first verified candidate, on every target
`V ⊗ X_j` / `V ⊗ Z_j`: `subsystem_compiler(W) = [X_1 ⊗ W]`, its left factor is `X_1`, the left search from `X_1`
reaches `V` (`even_reach`), and `[X_1 ⊗ W] ++ (walk ⊗ I…I)` passes the self-check.
-/
import PauLieVerif.Proofs.CompilerEvenWI

namespace PauLie
namespace CompilerSearch
open Compiler C07
open C14 (lanti lmul wanti wmul)

theorem wanti_ext_r (a p b : List Letter) (h : a.length = p.length) :
    wanti (a ++ ident b.length) (p ++ b) = wanti a p := by
  rw [wanti_append a p _ _ h, wanti_ident]; cases wanti a p <;> rfl

theorem wmul_ext_r (a p b : List Letter) (h : a.length = p.length) :
    wmul (a ++ ident b.length) (p ++ b) = wmul a p ++ b := by
  rw [wmul_append a p _ _ h, wmul_ident]

/-- a walk on the left block, extended by identities, acting on a string with right block `b` -/
theorem walk_nested_r (k : Nat) (b : List Letter) : ∀ (ls : List (List Letter)) (p : List Letter) (r : PS),
    Walk (aset k) (PS.ofLetters p) (ls.map PS.ofLetters) r → p.length = k → (∀ la ∈ ls, la.length = k) →
    ∃ q, r = PS.ofLetters q ∧ q.length = k ∧
      nestedLoop (PS.ofLetters (p ++ b)) (ls.map (fun la => PS.ofLetters (la ++ ident b.length)))
        = .ok (some (PS.ofLetters (q ++ b))) := by
  intro ls
  induction ls with
  | nil =>
    intro p r hw hp _
    cases hw
    exact ⟨p, rfl, hp, rfl⟩
  | cons la ls ih =>
    intro p r hw hp hls
    simp only [List.map_cons] at hw
    cases hw with
    | cons hst hrest =>
      obtain ⟨_, hc, hm⟩ := hst
      have hla : la.length = p.length := by rw [hls la (List.mem_cons_self ..), hp]
      rw [C14.multiply_ofLetters hla] at hm
      cases hm
      rw [C14.commutes_ofLetters hla] at hc
      have hwa : wanti la p = true := by
        have : (!wanti la p) = false := by simpa using hc
        simpa using this
      obtain ⟨q, hq, hql, hnest⟩ := ih (wmul la p) r hrest (by rw [C14.wmul_length la p hla, hla, hp])
        (fun x hx => hls x (List.mem_cons_of_mem _ hx))
      refine ⟨q, hq, hql, ?_⟩
      have hlen2 : (la ++ ident b.length).length = (p ++ b).length := by simp [hla]
      simp only [List.map_cons, nestedLoop, adApply, C14.commutes_ofLetters hlen2, C14.multiply_ofLetters hlen2,
        wanti_ext_r la p b hla, hwa, wmul_ext_r la p b hla, bind, Except.bind, pure, Except.pure]
      simpa using hnest

/-- **the branch `V ≠ I` returns for even `k` on single-site right blocks** (all `N`, every even `2 ≤ k < N`, every
well-formed target `V ⊗ X_j` / `V ⊗ Z_j` with `V ≠ I`): the first candidate passes the self-check -/
theorem compileTarget_even_single_returns (t : PS) (k n j : Nat) (l : Letter) (ht : t.WF) (hn : t.len = n)
    (hk : 2 ≤ k) (hkn : k < n) (heven : k % 2 = 0) (hj : j < n - k) (hl : l = Letter.X ∨ l = Letter.Z)
    (hW : t.letters.drop k = single (n - k) j l)
    (hV : (t.getSubstring 0 (k : Int)).isIdentity = false) :
    ∃ s, compileTargetB t (k : Int) = .ok (.vNeICand 0, s) := by
  rw [compileTargetB_eq t k n hn hk hkn]
  obtain ⟨hve, hwe⟩ := target_split t k n ht hn hk hkn
  rw [hW] at hwe
  rw [hwe]
  unfold compileWith
  have h1 : ((t.getSubstring 0 (k : Int)).len : Int) = (closedCtx k n).k := by
    rw [getSubstring_left_len t k n hn (by omega)]; rfl
  have h2 : ((PS.ofLetters (single (n - k) j l)).len : Int) = (closedCtx k n).nRight := by
    rw [C18.len_ofLetters, length_single, closedCtx_nRight k n hkn]
  rw [if_neg (by rw [h1, h2]; simp), if_neg (by rw [single_not_identity _ _ _ hj hl]; simp),
    if_pos (by rw [hV]; rfl)]
  unfold compileVNeI
  have hsub := subsystemCompiler_one (closedCtx k n) (n - k) (closedCtx_nRight k n hkn)
    (PS.ofLetters (single (n - k) j l)) (by rw [C18.len_ofLetters, length_single]) (single (n - k) j l)
    (by rw [C18.letters_ofLetters]; exact facT_single _ _ _ hl hj)
  have hg : PS.tensor (closedCtx k n).uTag (PS.ofLetters (single (n - k) j l))
      = PS.ofLetters (single k 0 .X ++ single (n - k) j l) := tensor_ofLetters _ _
  have hlf : leftFactor (closedCtx k n) [PS.ofLetters (single k 0 .X ++ single (n - k) j l)]
      = .ok (PS.ofLetters (single k 0 .X)) := by
    unfold leftFactor cNested
    simp only [nestedCommutatorResult, nestedLoop, liftAt, bind, Except.bind, pure, Except.pure]
    have hs := (target_split (PS.ofLetters (single k 0 .X ++ single (n - k) j l)) k n (C18.wf_ofLetters _)
      (by rw [C18.len_ofLetters, List.length_append, length_single, length_single]; omega) hk hkn).1
    rw [C18.letters_ofLetters, List.take_left' (length_single ..)] at hs
    show Except.ok (leftPart _ ((k : Nat) : Int)) = _
    unfold leftPart
    rw [hs]
  -- the left search from X_1 returns
  have hvl : (t.letters.take k).length = k := by rw [List.length_take, C04.length_letters, hn]; omega
  have hvn : hasN (t.letters.take k) = true := hasN_of_not_identity _ (by rw [← hve]; exact hV)
  obtain ⟨l0, hwalk0⟩ := even_reach k (by omega) heven _ hvl hvn
  have hX0 : (PS.ofLetters (single k 0 .X)).WF ∧ (PS.ofLetters (single k 0 .X)).len = k :=
    aset_wf (X0_mem_aset k (by omega))
  obtain ⟨seqA, hseq⟩ := ((leftMapOverA_iff (PS.ofLetters (single k 0 .X)) (t.getSubstring 0 (k : Int)) (aset k) k hX0
    (fun a ha => aset_wf ha)).1).mpr ⟨l0, _, hwalk0, by rw [hve]⟩
  obtain ⟨r, hwalk, hkey⟩ := leftMapOverA_sound _ _ _ _ hseq
  obtain ⟨ls, rfl, hls⟩ := of_mem_aset_list k seqA hwalk.mem
  obtain ⟨q, rfl, hql, hnest⟩ := walk_nested_r k (single (n - k) j l) ls (single k 0 .X) r hwalk (length_single ..)
    (fun la h => length_of_mem_leftLetters (hls la h))
  rw [length_single] at hnest
  rw [hsub, hg]
  simp only [bind, Except.bind, hlf, hseq, extendAll_letters k n hkn]
  have hchk : checkRes (closedCtx k n) (key (t.getSubstring 0 (k : Int))) (key (PS.ofLetters (single (n - k) j l)))
      ([PS.ofLetters (single k 0 .X ++ single (n - k) j l)] ++ ls.map (fun la => PS.ofLetters (la ++ ident (n - k))))
      = .ok true := by
    unfold checkRes cNested
    simp only [List.cons_append, List.nil_append, nestedCommutatorResult, hnest, liftAt, bind, Except.bind, pure,
      Except.pure]
    have e1 : (leftPart (PS.ofLetters (q ++ single (n - k) j l)) (closedCtx k n).k).letters
        = key (t.getSubstring 0 (k : Int)) := by
      show (leftPart _ ((k : Nat) : Int)).letters = _
      rw [leftPart_letters, C18.letters_ofLetters, List.take_left' hql]
      have : key (PS.ofLetters q) = key (t.getSubstring 0 (k : Int)) := hkey
      simpa [key, C18.letters_ofLetters] using this
    have e2 : (rightPart (PS.ofLetters (q ++ single (n - k) j l)) (closedCtx k n).k).letters
        = key (PS.ofLetters (single (n - k) j l)) := by
      show (rightPart _ ((k : Nat) : Int)).letters = _
      rw [rightPart_letters, C18.letters_ofLetters, List.drop_left' hql]
      simp [key, C18.letters_ofLetters]
    rw [e1, e2]
    simp
  simp only [firstOk, hchk, bind, Except.bind, pure, Except.pure]
  exact ⟨_, rfl⟩

end CompilerSearch
end PauLie
