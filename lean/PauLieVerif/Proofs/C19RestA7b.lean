/-
Helpers for property C19, part 25b: family a7 - the second half of the kernel-evaluated peeling checks (tail
anticommuting with `X…X`).
-/
import PauLieVerif.Proofs.C19RestA7a

namespace PauLie
namespace C19
open Closure Graph C01Star C03

theorem chk7b : ∀ s2 s3 s4 s5 s6 : Bool, v7 s3 s4 s5 s6 = true →
    peelChk 3 (tr7 true s2 s3 s4 s5 s6) t07 (tp7 true s2 s3 s4 s5 s6) wend7 = true := by
  decide +kernel

end C19
end PauLie
