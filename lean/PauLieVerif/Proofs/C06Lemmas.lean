/-
Helper lemmas for C06: (a) the public nested evaluation of a sequence drawn from
a generating set stays inside the commutator closure of that set — the bridge
from `PS.adjointMap` to `Closure.add` / `Closure.omega`; (b) slices of encoded
texts, for the front end of `compile_target`.
-/
import PauLieVerif.Properties.C05
import PauLieVerif.Properties.C07

namespace PauLie
namespace C06

open Compiler Closure C04 C07

/-! ### adjoint map on bit lists -/

theorem add_encode : ∀ (w v : List Letter),
    add (encode w) (encode v) = encode (List.zipWith lmul w v)
  | [], _ => by simp [encode]
  | _ :: _, [] => by simp [encode]
  | a :: w, b :: v => by
    simp only [encode, add, List.zipWith_cons_cons, add_encode w v]
    cases a <;> cases b <;> rfl

/-- parity as a Boolean -/
def par (n : ℕ) : Bool := n % 2 == 1

theorem par_succ (n : ℕ) : par (n + 1) = !par n := by
  unfold par
  rcases Nat.mod_two_eq_zero_or_one n with h | h <;> simp [Nat.add_mod, h]

theorem mod_beq_eq (a b : ℕ) : (a % 2 == b % 2) = (par a == par b) := by
  unfold par
  rcases Nat.mod_two_eq_zero_or_one a with h | h <;>
    rcases Nat.mod_two_eq_zero_or_one b with h' | h' <;> simp [h, h']

theorem cntA_cons (a b : Letter) (w v : List Letter) :
    par (cntA (a :: w) (b :: v)) = ((cx a && cz b) != par (cntA w v)) := by
  unfold cntA
  simp only [List.zipWith_cons_cons, List.count_cons]
  cases h : (cx a && cz b)
  · simp
  · simp [par_succ]

theorem omega_encode : ∀ (w v : List Letter),
    omega (encode w) (encode v) = (par (cntA w v) != par (cntA v w))
  | [], _ => by simp [encode, omega, cntA, par]
  | _ :: _, [] => by simp [encode, omega, cntA, par]
  | a :: w, b :: v => by
    simp only [encode, omega, omega_encode w v, cntA_cons]
    cases a <;> cases b <;> cases par (cntA w v) <;> cases par (cntA v w) <;> rfl

/-- a successful `adjoint_map` on well-formed strings of equal length is the
closure step on the bit lists -/
theorem adjointMap_bits {n : ℕ} {a c r : PS} (ha : a.WF) (hc : c.WF) (han : a.len = n) (hcn : c.len = n)
    (h : PS.adjointMap a c = .ok (some r)) :
    r.bits = add a.bits c.bits ∧ omega a.bits c.bits = true ∧ r.WF ∧ r.len = n := by
  have hlen : a.letters.length = c.letters.length := by
    rw [length_letters, length_letters, han, hcn]
  rw [WF_eq_ofLetters ha, WF_eq_ofLetters hc, adjoint_ofLetters hlen] at h
  by_cases hcm : (cntA a.letters c.letters % 2 == cntA c.letters a.letters % 2) = true
  · rw [if_pos hcm] at h; cases h
  · rw [if_neg hcm] at h
    have hr : PS.ofLetters (List.zipWith lmul a.letters c.letters) = r := by
      simpa using h
    subst hr
    have hab : a.bits = encode a.letters := by
      conv_lhs => rw [WF_eq_ofLetters ha]
      rfl
    have hcb : c.bits = encode c.letters := by
      conv_lhs => rw [WF_eq_ofLetters hc]
      rfl
    refine ⟨?_, ?_, WF_ofLetters _, ?_⟩
    · rw [hab, hcb, add_encode]; rfl
    · rw [hab, hcb, omega_encode]
      rw [mod_beq_eq] at hcm
      cases h1 : par (cntA a.letters c.letters) <;> cases h2 : par (cntA c.letters a.letters) <;>
        simp_all
    · rw [len_ofLetters, List.length_zipWith, ← hlen, Nat.min_self, length_letters, han]

/-- **sequences over a generating set evaluate inside its commutator closure** -/
theorem nested_in_clo (n : ℕ) (U : List PS) (hU : ∀ x ∈ U, x.WF ∧ x.len = n) :
    ∀ (s : List PS), s ≠ [] → (∀ x ∈ s, x ∈ U) → ∀ r, nestedPublic s = .ok (some r) →
      r.WF ∧ r.len = n ∧ Clo (U.map (·.bits)) r.bits
  | [], h, _, _, _ => absurd rfl h
  | [x], _, hx, r, hr => by
    have : x = r := by
      have h' : (Except.ok (some x) : Except Err (Option PS)) = .ok (some r) := hr
      simpa using h'
    subst this
    have hm := hx x (by simp)
    exact ⟨(hU x hm).1, (hU x hm).2, Clo.base (List.mem_map.mpr ⟨x, hm, rfl⟩)⟩
  | a :: b :: t, _, hx, r, hr => by
    rw [C05.nestedPublic_cons a (by simp)] at hr
    have ham := hx a (by simp)
    cases hrest : nestedPublic (b :: t) with
    | error e => rw [hrest] at hr; cases hr
    | ok o =>
      cases o with
      | none => rw [hrest] at hr; cases hr
      | some c =>
        rw [hrest] at hr
        have hstep : PS.adjointMap a c = .ok (some r) := hr
        obtain ⟨hcw, hcn, hcc⟩ := nested_in_clo n U hU (b :: t) (by simp)
          (fun x h => hx x (List.mem_cons_of_mem _ h)) c hrest
        obtain ⟨hb, ho, hrw, hrn⟩ := adjointMap_bits (hU a ham).1 hcw (hU a ham).2 hcn hstep
        refine ⟨hrw, hrn, ?_⟩
        rw [hb]
        exact Clo.step (Clo.base (List.mem_map.mpr ⟨a, ham, rfl⟩)) hcc ho

/-! ### slices of encoded texts -/

theorem take_encode : ∀ (w : List Letter) (k : ℕ), (encode w).take (2 * k) = encode (w.take k)
  | _, 0 => by simp [encode]
  | [], k + 1 => by simp [encode]
  | a :: w, k + 1 => by
    have : 2 * (k + 1) = (2 * k) + 1 + 1 := by omega
    rw [this]
    simp only [encode, List.take_succ_cons, take_encode w k]

theorem drop_encode : ∀ (w : List Letter) (k : ℕ), (encode w).drop (2 * k) = encode (w.drop k)
  | _, 0 => by simp
  | [], k + 1 => by simp [encode]
  | a :: w, k + 1 => by
    have : 2 * (k + 1) = (2 * k) + 1 + 1 := by omega
    rw [this]
    simp only [encode, List.drop_succ_cons, drop_encode w k]

end C06
end PauLie
