/-
C13, the diagonal variant: the recursive transform `coefD` of a diagonal `d` is the
normalised trace of `M(P)` against `diag(d)`; strings with an `X`/`Y` letter have trace 0.
-/
import PauLieVerif.Proofs.C13Recon

namespace PauLie
namespace Decomp

open Matrix Complex
open C04 (cx cz)

/-- the entries `g 0 … g (2^n-1)` block-recursively -/
def vecD {α : Type} : ℕ → (ℕ → α) → List α
  | 0, g => [g 0]
  | n + 1, g => vecD n g ++ vecD n (fun i => g (i + 2 ^ n))

theorem vecD_length {α : Type} : ∀ (n : ℕ) (g : ℕ → α), (vecD n g).length = 2 ^ n
  | 0, _ => rfl
  | n + 1, g => by simp only [vecD, List.length_append, vecD_length n, pow_succ]; ring

theorem vecD_congr {α : Type} : ∀ (n : ℕ) (g g' : ℕ → α), (∀ i, i < 2 ^ n → g i = g' i) →
    vecD n g = vecD n g'
  | 0, g, g', h => by simp [vecD, h 0]
  | n + 1, g, g', h => by
    rw [vecD, vecD, vecD_congr n g g' (fun i hi => h i (by rw [pow_succ]; omega)),
      vecD_congr n (fun i => g (i + 2 ^ n)) (fun i => g' (i + 2 ^ n))
        (fun i hi => h _ (by rw [pow_succ]; omega))]

/-- a list of length `2^n` is the `vecD` of its own entries -/
theorem eq_vecD : ∀ (n : ℕ) (d : List GR), d.length = 2 ^ n →
    d = vecD n (fun i => d.getD i GR.zero) := by
  intro n
  induction n with
  | zero =>
    intro d hd
    match d, hd with
    | [a], _ => rfl
  | succ n ih =>
    intro d hd
    obtain ⟨x, y, rfl, hx, hy⟩ := split2 (2 ^ n) d (by rw [hd, pow_succ]; ring)
    rw [vecD]
    congr 1
    · conv_lhs => rw [ih x hx]
      apply vecD_congr
      intro i hi
      simp [List.getD_eq_getElem?_getD, List.getElem?_append_left (by omega : i < x.length)]
    · conv_lhs => rw [ih y hy]
      apply vecD_congr
      intro i hi
      simp [List.getD_eq_getElem?_getD, List.getElem?_append_right (by omega : x.length ≤ i + 2 ^ n), hx]

/-- the complex diagonal matrix of an entry function -/
def diagF (n : ℕ) (g : ℕ → GR) : Matrix (Fin n → Fin 2) (Fin n → Fin 2) ℂ :=
  Matrix.diagonal fun r => (g (num r)).toComplex

theorem blk_diagF_same {n : ℕ} (g : ℕ → GR) (a : Fin 2) :
    blk (diagF (n + 1) g) a a = diagF n (fun i => g (i + a.val * 2 ^ n)) := by
  ext r c
  simp only [blk, diagF, Matrix.diagonal_apply, num_cons]
  by_cases h : r = c
  · simp [h]
  · have : ¬ (Fin.cons a r : Fin (n + 1) → Fin 2) = Fin.cons a c := by
      intro e; exact h ((Fin.cons_inj.mp e).2)
    simp [h, this]

theorem blk_diagF_diff {n : ℕ} (g : ℕ → GR) (a b : Fin 2) (hab : b ≠ a) :
    blk (diagF (n + 1) g) b a = 0 := by
  ext r c
  simp only [blk, diagF, Matrix.diagonal_apply]
  have : ¬ (Fin.cons b r : Fin (n + 1) → Fin 2) = Fin.cons a c := by
    intro e; exact hab ((Fin.cons_inj.mp e).1)
  simp [this]

/-- **The diagonal transform is the normalised trace** (strings over `I`, `Z`). -/
theorem coefD_trace : ∀ (n : ℕ) (g : ℕ → GR) (P : List Letter), P.length = n →
    (∀ l ∈ P, cx l = false) →
    (coefD (P.map cz) (vecD n g)).toComplex = trace (M (vecOf n P) * diagF n g) / 2 ^ n := by
  intro n
  induction n with
  | zero =>
    intro g P hP _
    have : P = [] := List.length_eq_zero_iff.mp hP
    subst this
    simp [coefD, vecD, M_zero, trace, diagF, num]
  | succ n ih =>
    intro g P hP hx
    match P, hP with
    | l :: P, hP =>
      have hP' : P.length = n := by simpa using hP
      have hx' : ∀ l ∈ P, cx l = false := fun l hl => hx l (by simp [hl])
      have hl (g : ℕ → GR) : (vecD n g).length = 2 ^ (P.map cz).length := by
        rw [vecD_length, List.length_map, hP']
      rw [vecD, List.map_cons, coefD_blocks _ _ _ _ (hl _), trace_cons]
      simp only [vecOf_cons_zero, vecOf_cons_succ, Fin.sum_univ_two]
      rw [blk_diagF_same, blk_diagF_same, blk_diagF_diff g 0 1 (by decide),
        blk_diagF_diff g 1 0 (by decide)]
      simp only [Fin.val_zero, Fin.val_one, zero_mul, one_mul, add_zero,
        Matrix.trace_zero, mul_zero, zero_add]
      have e0 := ih g P hP' hx'
      have e1 := ih (fun i => g (i + 2 ^ n)) P hP' hx'
      have h2 : (2 : ℂ) ^ n ≠ 0 := pow_ne_zero _ two_ne_zero
      have hl0 : cx l = false := hx l (by simp)
      cases l
      · simp only [C04.cz, Letter.code, combD, GR.toComplex_half, GR.toComplex_add, e0, e1]
        simp [σ]; field_simp; ring
      · simp [C04.cx, Letter.code] at hl0
      · simp [C04.cx, Letter.code] at hl0
      · simp only [C04.cz, Letter.code, combD, GR.toComplex_half, GR.toComplex_sub, e0, e1]
        simp [σ]; field_simp; ring

/-- a string with an `X` or `Y` letter has zero trace against every diagonal matrix -/
theorem trace_diag_zero (n : ℕ) (P : List Letter) (hP : P.length = n)
    (h : ¬ ∀ l ∈ P, cx l = false) (v : (Fin n → Fin 2) → ℂ) :
    trace (M (vecOf n P) * Matrix.diagonal v) = 0 := by
  simp only [trace, diag, Matrix.mul_diagonal]
  apply Finset.sum_eq_zero
  intro x _
  have : M (vecOf n P) x x = 0 := by
    simp only [not_forall] at h
    obtain ⟨l, hl, hc⟩ := h
    have hc : cx l = true := by simpa using hc
    obtain ⟨i, hi, rfl⟩ := List.mem_iff_getElem.mp hl
    rw [M_apply]
    apply Finset.prod_eq_zero (Finset.mem_univ (⟨i, hP ▸ hi⟩ : Fin n))
    have e : vecOf n P ⟨i, hP ▸ hi⟩ = P[i] := by
      simp [vecOf, List.getD_eq_getElem?_getD, List.getElem?_eq_getElem hi]
    rw [e]
    generalize P[i] = l at hc
    have : ∀ a : Fin 2, σ .X a a = 0 ∧ σ .Y a a = 0 := by
      intro a; fin_cases a <;> simp [σ]
    cases l
    · simp [C04.cx, Letter.code] at hc
    · exact (this _).1
    · exact (this _).2
    · simp [C04.cx, Letter.code] at hc
  rw [this, zero_mul]

/-! ### the flat data of `np.diag(d)` -/

theorem num_injective : ∀ {n : ℕ}, Function.Injective (num : (Fin n → Fin 2) → ℕ)
  | 0 => fun r c _ => Subsingleton.elim _ _
  | n + 1 => fun r c h => by
    simp only [num] at h
    have hr := num_lt (fun i => r i.succ)
    have hc := num_lt (fun i => c i.succ)
    have ha := (r 0).isLt
    have hb := (c 0).isLt
    have hv : (r 0).val = (c 0).val := by
      generalize (r 0).val = a at *
      generalize (c 0).val = b at *
      generalize 2 ^ n = p at *
      have : a = 0 ∨ a = 1 := by omega
      have : b = 0 ∨ b = 1 := by omega
      rcases ‹a = 0 ∨ a = 1› with rfl | rfl <;> rcases ‹b = 0 ∨ b = 1› with rfl | rfl <;>
        simp at h ⊢ <;> omega
    have h0 : r 0 = c 0 := Fin.ext hv
    have ht : num (fun i => r i.succ) = num (fun i => c i.succ) := by
      rw [hv] at h; omega
    funext i
    refine Fin.cases h0 (fun j => ?_) i
    exact congrFun (num_injective ht) j

/-- row-major data of the `2^n × 2^n` diagonal matrix `np.diag(d)` -/
def diagFlat (n : ℕ) (d : List GR) : List GR :=
  (List.range (2 ^ n * 2 ^ n)).map fun k =>
    if k / 2 ^ n = k % 2 ^ n then d.getD (k / 2 ^ n) GR.zero else GR.zero

theorem diagFlat_length (n : ℕ) (d : List GR) : (diagFlat n d).length = 2 ^ n * 2 ^ n := by
  simp [diagFlat]

theorem matF_diagFlat (n : ℕ) (d : List GR) :
    matF n (entryOf n (diagFlat n d)) = diagF n (fun i => d.getD i GR.zero) := by
  ext r c
  have hr := num_lt r
  have hc := num_lt c
  have hp : 0 < 2 ^ n := by positivity
  have hk : 2 ^ n * num r + num c < 2 ^ n * 2 ^ n := by
    have := Nat.mul_le_mul_left (2 ^ n) (Nat.succ_le_of_lt hr)
    rw [Nat.mul_succ] at this
    omega
  have h1 : (2 ^ n * num r + num c) / 2 ^ n = num r := by
    rw [Nat.mul_add_div hp, Nat.div_eq_of_lt hc, add_zero]
  have h2 : (2 ^ n * num r + num c) % 2 ^ n = num c := by
    rw [Nat.mul_add_mod, Nat.mod_eq_of_lt hc]
  simp only [matF, entryOf, diagFlat, diagF, Matrix.diagonal_apply, List.getD_eq_getElem?_getD,
    List.getElem?_map, List.getElem?_range hk, Option.map_some, Option.getD_some, h1, h2]
  by_cases h : r = c
  · simp [h]
  · have : num r ≠ num c := fun e => h (num_injective e)
    simp [h, this]

end Decomp
end PauLie
