/-
Every sequence `_case3_best_reordering(G1, G2, Aext, W)` can return (phases 1–4: fixed arrangements,
block permutations with reversals, order-preserving interleavings) is a REARRANGEMENT of
`G1 ++ G2 ++ Aext` or of `G1 ++ G2 ++ Aext ++ Aext`.
-/
import PauLieVerif.Proofs.CompilerSubClosed

namespace PauLie
namespace CompilerSearch
open Compiler C07

theorem inter3_count (chk : List PS → Except Fail Bool) (cap : Nat) :
    ∀ (fuel : Nat) (A B C pre : List PS) (count n : Nat) (s : List PS),
      inter3 chk cap fuel A B C pre count = .ok (n, some s) →
      ∀ x, s.count x = pre.count x + A.count x + B.count x + C.count x := by
  intro fuel
  induction fuel with
  | zero => intro A B C pre count n s h; simp [inter3, throw, throwThe, MonadExceptOf.throw] at h
  | succ fuel ih =>
    intro A B C pre count n s h x
    unfold inter3 at h
    split at h
    · simp [pure, Except.pure] at h
    · split at h
      · cases hc : chk pre.reverse with
        | error e => simp [hc, bind, Except.bind] at h
        | ok b =>
          cases b with
          | true =>
            simp [hc, bind, Except.bind, pure, Except.pure] at h
            rw [← h.2]; simp
          | false => simp [hc, bind, Except.bind, pure, Except.pure] at h
      · simp only [bind, Except.bind] at h
        split at h
        · cases h
        · rename_i r1 hr1
          obtain ⟨c1, o1⟩ := r1
          simp only at h
          split at h
          · simp [pure, Except.pure] at h
            obtain ⟨rfl, rfl⟩ := h
            cases A with
            | nil => simp [pure, Except.pure] at hr1
            | cons a A' =>
              have := ih _ _ _ _ _ _ _ hr1 x
              simp only [List.count_cons] at this ⊢
              omega
          · split at h
            · cases h
            · rename_i r2 hr2
              obtain ⟨c2, o2⟩ := r2
              simp only at h
              split at h
              · simp [pure, Except.pure] at h
                obtain ⟨rfl, rfl⟩ := h
                cases B with
                | nil => simp [pure, Except.pure] at hr2
                | cons b B' =>
                  have := ih _ _ _ _ _ _ _ hr2 x
                  simp only [List.count_cons] at this ⊢
                  omega
              · cases C with
                | nil => simp [pure, Except.pure] at h
                | cons y C' =>
                  have := ih _ _ _ _ _ _ _ h x
                  simp only [List.count_cons] at this ⊢
                  omega

theorem inter4_count (chk : List PS → Except Fail Bool) (cap : Nat) :
    ∀ (fuel : Nat) (A B C D pre : List PS) (count n : Nat) (s : List PS),
      inter4 chk cap fuel A B C D pre count = .ok (n, some s) →
      ∀ x, s.count x = pre.count x + A.count x + B.count x + C.count x + D.count x := by
  intro fuel
  induction fuel with
  | zero => intro A B C D pre count n s h; simp [inter4, throw, throwThe, MonadExceptOf.throw] at h
  | succ fuel ih =>
    intro A B C D pre count n s h x
    unfold inter4 at h
    split at h
    · simp [pure, Except.pure] at h
    · split at h
      · cases hc : chk pre.reverse with
        | error e => simp [hc, bind, Except.bind] at h
        | ok b =>
          cases b with
          | true =>
            simp [hc, bind, Except.bind, pure, Except.pure] at h
            rw [← h.2]; simp
          | false => simp [hc, bind, Except.bind, pure, Except.pure] at h
      · simp only [bind, Except.bind] at h
        split at h
        · cases h
        · rename_i r1 hr1
          obtain ⟨c1, o1⟩ := r1
          simp only at h
          split at h
          · simp [pure, Except.pure] at h
            obtain ⟨rfl, rfl⟩ := h
            cases A with
            | nil => simp [pure, Except.pure] at hr1
            | cons a A' =>
              have := ih _ _ _ _ _ _ _ _ hr1 x
              simp only [List.count_cons] at this ⊢
              omega
          · split at h
            · cases h
            · rename_i r2 hr2
              obtain ⟨c2, o2⟩ := r2
              simp only at h
              split at h
              · simp [pure, Except.pure] at h
                obtain ⟨rfl, rfl⟩ := h
                cases B with
                | nil => simp [pure, Except.pure] at hr2
                | cons b B' =>
                  have := ih _ _ _ _ _ _ _ _ hr2 x
                  simp only [List.count_cons] at this ⊢
                  omega
              · split at h
                · cases h
                · rename_i r3 hr3
                  obtain ⟨c3, o3⟩ := r3
                  simp only at h
                  split at h
                  · simp [pure, Except.pure] at h
                    obtain ⟨rfl, rfl⟩ := h
                    cases C with
                    | nil => simp [pure, Except.pure] at hr3
                    | cons y C' =>
                      have := ih _ _ _ _ _ _ _ _ hr3 x
                      simp only [List.count_cons] at this ⊢
                      omega
                  · cases D with
                    | nil => simp [pure, Except.pure] at h
                    | cons d D' =>
                      have := ih _ _ _ _ _ _ _ _ h x
                      simp only [List.count_cons] at this ⊢
                      omega

/-- `s` is a rearrangement of the two blocks and one or two copies of the left walk -/
def Arr (G1 G2 Aext s : List PS) : Prop :=
  (∀ x, s.count x = G1.count x + G2.count x + Aext.count x) ∨
  (∀ x, s.count x = G1.count x + G2.count x + Aext.count x + Aext.count x)

theorem count_rv (b : Bool) (l : List PS) (x : PS) : (rv b l).count x = l.count x := by
  cases b <;> simp [rv]

theorem phase2_arr (G1 G2 Aext s : List PS) (h : s ∈ phase2Seqs G1 G2 Aext) : Arr G1 G2 Aext s := by
  left
  intro x
  simp only [phase2Seqs, List.mem_flatMap, List.mem_map] at h
  obtain ⟨p, hp, r0, _, r1, _, r2, _, rfl⟩ := h
  simp only [perms3, List.mem_cons, List.mem_nil_iff, or_false] at hp
  rcases hp with rfl | rfl | rfl | rfl | rfl | rfl <;>
    simp [List.count_append, count_rv] <;> omega

theorem case3_arr (c : Ctx) (G1 G2 Aext : List PS) (w : PS) (ph : Nat) (s : List PS)
    (h : case3BestReordering c G1 G2 Aext w = .ok (some (ph, s))) : Arr G1 G2 Aext s := by
  unfold case3BestReordering at h
  simp only [bind, Except.bind] at h
  split at h
  · cases h
  · rename_i o1 h1
    split at h
    · -- phase 1
      rename_i j1 s1
      simp [pure, Except.pure] at h
      obtain ⟨_, rfl⟩ := h
      have hm := (firstOk_sound _ _ _ _ _ h1).2
      right
      intro x
      simp only [List.mem_cons, List.mem_nil_iff, or_false] at hm
      rcases hm with rfl | rfl | rfl | rfl | rfl | rfl <;>
        simp [List.count_append, List.count_reverse] <;> omega
    · split at h
      · cases h
      · rename_i o2 h2
        split at h
        · rename_i j2 s2
          simp [pure, Except.pure] at h
          obtain ⟨_, rfl⟩ := h
          exact phase2_arr _ _ _ _ (firstOk_sound _ _ _ _ _ h2).2
        · split at h
          · cases h
          · rename_i o3 h3
            split at h
            · rename_i s3
              simp [pure, Except.pure] at h
              obtain ⟨_, rfl⟩ := h
              refine firstSome_sound (fun x => Arr G1 G2 Aext x) _ ?_ _ h3
              intro f hf x hx
              simp only [List.mem_map] at hf
              obtain ⟨g, hg, rfl⟩ := hf
              split at hx
              · cases hx
              · rename_i r hr
                obtain ⟨n, o⟩ := r
                simp [pure, Except.pure] at hx
                subst hx
                have hcnt := inter3_count _ _ _ _ _ _ _ _ _ _ hr
                left
                intro y
                rw [hcnt y]
                simp only [List.mem_flatMap, List.mem_map, List.mem_cons, List.mem_nil_iff, or_false] at hg
                obtain ⟨g1, hg1, g2, hg2, a, ha, rfl⟩ := hg
                rcases hg1 with rfl | rfl <;> rcases hg2 with rfl | rfl <;> rcases ha with rfl | rfl <;>
                  simp [List.count_reverse]
            · split at h
              · cases h
              · rename_i o4 h4
                split at h
                · rename_i s4
                  simp [pure, Except.pure] at h
                  obtain ⟨_, rfl⟩ := h
                  refine firstSome_sound (fun x => Arr G1 G2 Aext x) _ ?_ _ h4
                  intro f hf x hx
                  simp only [List.mem_map] at hf
                  obtain ⟨g, hg, rfl⟩ := hf
                  obtain ⟨g1, g2, a1, a2⟩ := g
                  simp only [List.mem_flatMap, List.mem_map, List.mem_cons, List.mem_nil_iff, or_false,
                    Prod.mk.injEq] at hg
                  obtain ⟨g1', hg1, g2', hg2, a1', ha1, a2', ha2, rfl, rfl, rfl, rfl⟩ := hg
                  have e1 : ∀ y, g1'.count y = G1.count y := by
                    intro y; rcases hg1 with rfl | rfl <;> simp [List.count_reverse]
                  have e2 : ∀ y, g2'.count y = G2.count y := by
                    intro y; rcases hg2 with rfl | rfl <;> simp [List.count_reverse]
                  have e3 : ∀ y, a1'.count y = Aext.count y := by
                    intro y; rcases ha1 with rfl | rfl <;> simp [List.count_reverse]
                  have e4 : ∀ y, a2'.count y = Aext.count y := by
                    intro y; rcases ha2 with rfl | rfl <;> simp [List.count_reverse]
                  split at hx
                  · cases hx
                  · rename_i o5 h5
                    split at hx
                    · simp [pure, Except.pure] at hx
                      subst hx
                      have hm := (firstOk_sound _ _ _ _ _ h5).2
                      right
                      intro y
                      simp only [List.mem_cons, List.mem_nil_iff, or_false] at hm
                      rcases hm with rfl | rfl | rfl | rfl <;>
                        simp only [List.count_append, e1, e2, e3, e4] <;> omega
                    · split at hx
                      · cases hx
                      · rename_i r hr
                        obtain ⟨n, o⟩ := r
                        simp [pure, Except.pure] at hx
                        subst hx
                        have hcnt := inter4_count _ _ _ _ _ _ _ _ _ _ _ hr
                        right
                        intro y
                        rw [hcnt y, e1, e2, e3, e4]
                        simp
                · simp [pure, Except.pure] at h

/-- what a rearrangement keeps: the elements, and every bit parity (the copies of the left walk do not
count where their bits are clear) -/
theorem Arr.spec {G1 G2 Aext s : List PS} (h : Arr G1 G2 Aext s) :
    (∀ x ∈ s, x ∈ G1 ∨ x ∈ G2 ∨ x ∈ Aext) ∧
    (∀ q, par q Aext = false → par q s = (par q G1 != par q G2)) := by
  rcases h with h | h
  · have hp : s.Perm (G1 ++ G2 ++ Aext) := by
      rw [List.perm_iff_count]; intro x; rw [h x]; simp only [List.count_append]
    refine ⟨fun x hx => ?_, fun q hq => ?_⟩
    · have := hp.mem_iff.mp hx
      simp only [List.mem_append] at this
      tauto
    · rw [par_perm q hp, par_append, par_append, hq]
      cases par q G1 <;> cases par q G2 <;> rfl
  · have hp : s.Perm (G1 ++ G2 ++ Aext ++ Aext) := by
      rw [List.perm_iff_count]; intro x; rw [h x]; simp only [List.count_append]
    refine ⟨fun x hx => ?_, fun q hq => ?_⟩
    · have := hp.mem_iff.mp hx
      simp only [List.mem_append] at this
      tauto
    · rw [par_perm q hp, par_append, par_append, par_append, hq]
      cases par q G1 <;> cases par q G2 <;> rfl

end CompilerSearch
end PauLie
