/-
Helpers for property C19, part 2: families whose translated generators commute
pairwise (a0, b0, b1).  General lemma: for pairwise commuting generators the
commutator closure is the generator set itself.  Then the k-local expansion of
the model (`Graph.getPauliStringList`) is computed for every chain length `n`.
-/
import PauLieVerif.Proofs.C19Lemmas
import PauLieVerif.Proofs.Closure
import PauLieVerif.Proofs.C14Lemmas

namespace PauLie
namespace C19
open TwoLocal Classify Closure Graph

/-! ### A. commuting generators -/

/-- pairwise commuting generators: the closure adds nothing -/
theorem clo_of_commuting {G : List V} (h : ∀ a ∈ G, ∀ b ∈ G, omega a b = false) {x : V} :
    Clo G x ↔ x ∈ G := by
  constructor
  · intro hx
    induction hx with
    | base hg => exact hg
    | step _ _ ho ihx ihy => rw [h _ ihx _ ihy] at ho; cases ho
  · exact Clo.base

/-! ### B. strings made of `I` and `X` only commute -/

/-- no `Y`, no `Z`: every z-bit (odd position) is clear -/
def xOnly : V → Bool
  | _ :: z :: t => !z && xOnly t
  | _ => true

theorem omega_xOnly : ∀ (x y : V), xOnly x = true → xOnly y = true → omega x y = false
  | [], _, _, _ => by simp [omega]
  | [_], _, _, _ => by simp [omega]
  | _ :: _ :: _, [], _, _ => by simp [omega]
  | _ :: _ :: _, [_], _, _ => by simp [omega]
  | x1 :: z1 :: t1, x2 :: z2 :: t2, hx, hy => by
    simp only [xOnly, Bool.and_eq_true, Bool.not_eq_true'] at hx hy
    simp [omega, hx.1, hy.1, omega_xOnly t1 t2 hx.2 hy.2]

theorem xOnly_replicate (k : Nat) : xOnly (List.replicate (2 * k) false) = true := by
  induction k with
  | zero => rfl
  | succ k ih =>
    rw [show 2 * (k + 1) = 2 * k + 1 + 1 by omega, List.replicate_succ, List.replicate_succ]
    simpa [xOnly] using ih

theorem xOnly_replicate_append (k : Nat) (v : V) :
    xOnly (List.replicate (2 * k) false ++ v) = xOnly v := by
  induction k with
  | zero => simp
  | succ k ih =>
    rw [show 2 * (k + 1) = 2 * k + 1 + 1 by omega, List.replicate_succ, List.replicate_succ]
    simpa [xOnly] using ih

/-! ### C. translates of a two-letter word along a chain of `n` sites -/

/-- `I^k ⊗ g ⊗ I^(n-2-k)` on bit lists (`g` has four bits) -/
def shiftV (n k : Nat) (g : V) : V :=
  List.replicate (2 * k) false ++ (g ++ List.replicate (2 * (n - 2 - k)) false)

/-- a single `X` at site `k` of `n` -/
def siteX (n k : Nat) : V :=
  List.replicate (2 * k) false ++ (true :: false :: List.replicate (2 * (n - 1 - k)) false)

theorem length_shiftV {n k : Nat} {g : V} (hg : g.length = 4) (hk : k + 2 ≤ n) :
    (shiftV n k g).length = 2 * n := by
  simp [shiftV, hg]; omega

theorem xOnly_shiftV {n k : Nat} {a b : Bool} :
    xOnly (shiftV n k [a, false, b, false]) = true := by
  rw [shiftV, xOnly_replicate_append]
  simp [xOnly, xOnly_replicate]

/-- number of leading clear bits -/
def lead : V → Nat
  | false :: t => lead t + 1
  | _ => 0

theorem lead_replicate_true (m : Nat) (t : V) : lead (List.replicate m false ++ true :: t) = m := by
  induction m with
  | zero => rfl
  | succ m ih => rw [List.replicate_succ, List.cons_append, lead, ih]

theorem shiftV_XI (n k : Nat) (hk : k + 2 ≤ n) :
    shiftV n k [true, false, false, false] = siteX n k := by
  unfold shiftV siteX
  rw [show n - 1 - k = (n - 2 - k) + 1 by omega, show 2 * (n - 2 - k + 1) = 2 * (n - 2 - k) + 1 + 1 by omega,
    List.replicate_succ, List.replicate_succ]
  rfl

theorem shiftV_IX (n k : Nat) (hk : k + 2 ≤ n) :
    shiftV n k [false, false, true, false] = siteX n (k + 1) := by
  unfold shiftV siteX
  rw [show n - 1 - (k + 1) = n - 2 - k by omega, show 2 * (k + 1) = 2 * k + 2 by omega,
    ← List.replicate_append_replicate]
  simp [List.replicate_succ]

theorem siteX_inj {n j k : Nat} (h : siteX n j = siteX n k) : j = k := by
  have := congrArg lead h
  rw [siteX, siteX, lead_replicate_true, lead_replicate_true] at this
  omega

theorem shiftXX_inj {n j k : Nat}
    (h : shiftV n j [true, false, true, false] = shiftV n k [true, false, true, false]) : j = k := by
  have := congrArg lead h
  simp only [shiftV, List.cons_append] at this
  rw [lead_replicate_true, lead_replicate_true] at this
  omega

theorem count_siteX (n k : Nat) : (siteX n k).count true = 1 := by
  simp [siteX, List.count_append, List.count_replicate]

theorem count_shiftXX (n k : Nat) : (shiftV n k [true, false, true, false]).count true = 2 := by
  simp [shiftV, List.count_append, List.count_replicate]

/-! ### D. the k-local expansion of the model, for every `n` -/

/-- the dedup step shared by `Closure.dedup` and (through `used`) `gen_k_local` -/
def dstep (acc : List V) (x : V) : List V := if acc.contains x then acc else acc ++ [x]

theorem dedup_eq_foldl (l : List V) : dedup l = l.foldl dstep [] := rfl

/-- the inner loop of `gen_k_local` on bit lists -/
def stepV (n : Nat) (g : V) (acc : List V × List V) (k : Nat) : List V × List V :=
  if acc.2.contains (shiftV n k g) then acc else (acc.1 ++ [shiftV n k g], acc.2 ++ [shiftV n k g])

theorem foldl_stepV (n : Nat) (g : V) (ks : List Nat) (ys us : List V) :
    ∃ d, ks.foldl (stepV n g) (ys, us) = (ys ++ d, us ++ d) ∧
      us ++ d = (ks.map (fun k => shiftV n k g)).foldl dstep us := by
  induction ks generalizing ys us with
  | nil => exact ⟨[], by simp⟩
  | cons k t ih =>
    simp only [List.foldl_cons, List.map_cons]
    by_cases hc : shiftV n k g ∈ us
    · obtain ⟨d, h1, h2⟩ := ih ys us
      refine ⟨d, ?_, ?_⟩
      · rw [show stepV n g (ys, us) k = (ys, us) by simp [stepV, hc]]; exact h1
      · rw [show dstep us (shiftV n k g) = us by simp [dstep, hc]]; exact h2
    · obtain ⟨d, h1, h2⟩ := ih (ys ++ [shiftV n k g]) (us ++ [shiftV n k g])
      refine ⟨shiftV n k g :: d, ?_, ?_⟩
      · rw [show stepV n g (ys, us) k = (ys ++ [shiftV n k g], us ++ [shiftV n k g]) by simp [stepV, hc]]
        simpa using h1
      · rw [show dstep us (shiftV n k g) = us ++ [shiftV n k g] by simp [dstep, hc]]
        simpa using h2

theorem containsPS_map_ofBits (us : List V) (b : V) :
    containsPS (us.map PS.ofBits) (PS.ofBits b) = us.contains b := by
  induction us with
  | nil => rfl
  | cons a t ih =>
    simp only [List.map_cons, containsPS, List.any_cons, List.contains_cons] at ih ⊢
    rw [ih]
    simp only [PS.beq, PS.ofBits]
    rw [show (a == b) = (b == a) from BEq.comm]


theorem foldl_stepK (n : Nat) (g : V) (ks : List Nat) (ys us : List V) :
    ks.foldl (fun (acc : List PS × List PS) (k : Nat) =>
        let left := (PS.ident k).tensor ((PS.ofBits g).tensor (PS.ident (n - 2 - k)))
        if containsPS acc.2 left then acc else (acc.1 ++ [left], acc.2 ++ [left]))
      (ys.map PS.ofBits, us.map PS.ofBits)
    = ((ks.foldl (stepV n g) (ys, us)).1.map PS.ofBits, (ks.foldl (stepV n g) (ys, us)).2.map PS.ofBits) := by
  induction ks generalizing ys us with
  | nil => rfl
  | cons k t ih =>
    simp only [List.foldl_cons]
    have hleft : (PS.ident k).tensor ((PS.ofBits g).tensor (PS.ident (n - 2 - k))) = PS.ofBits (shiftV n k g) := rfl
    rw [hleft, containsPS_map_ofBits]
    by_cases hc : shiftV n k g ∈ us
    · rw [show stepV n g (ys, us) k = (ys, us) by simp [stepV, hc]]
      simp only [List.contains_iff_mem, hc, if_true]
      exact ih ys us
    · rw [show stepV n g (ys, us) k = (ys ++ [shiftV n k g], us ++ [shiftV n k g]) by simp [stepV, hc]]
      simp only [List.contains_iff_mem, hc, if_false]
      have := ih (ys ++ [shiftV n k g]) (us ++ [shiftV n k g])
      simpa using this

theorem len_ofBits (b : V) : (PS.ofBits b).len = b.length / 2 := rfl

theorem genKLocal_ofBits (n : Nat) (g : V) (us : List V) (hn : 2 ≤ n) (hg : g.length = 4) :
    genKLocal n (PS.ofBits g) (us.map PS.ofBits) =
      .ok (((List.range (n - 1)).foldl (stepV n g) ([], us)).1.map PS.ofBits,
           ((List.range (n - 1)).foldl (stepV n g) ([], us)).2.map PS.ofBits) := by
  unfold genKLocal
  have hl : (PS.ofBits g).len = 2 := by rw [len_ofBits, hg]
  rw [hl, if_neg (by omega)]
  show Except.ok (List.foldl _ _ (List.range (n - 2 + 1))) = _
  rw [show n - 2 + 1 = n - 1 by omega]
  exact congrArg Except.ok (foldl_stepK n g _ [] us)

/-- the outer loop of `gen_k_local_generators` on bit lists -/
def outerV (n : Nat) (s : List V × List V) (g : V) : List V × List V :=
  (s.1 ++ ((List.range (n - 1)).foldl (stepV n g) ([], s.2)).1,
   ((List.range (n - 1)).foldl (stepV n g) ([], s.2)).2)

theorem map_bits_ofBits (a : List V) : (a.map PS.ofBits).map PS.bits = a := by
  induction a with
  | nil => rfl
  | cons x t ih => simp only [List.map_cons, ih]; rfl

theorem foldl_outer_ofBits (n : Nat) (gs a b : List V) :
    (gs.map PS.ofBits).foldl (fun (s : List PS × List PS) (x : PS) =>
      ((s.1.map PS.bits ++ (outerV n ([], s.2.map PS.bits) x.bits).1).map PS.ofBits,
        (outerV n ([], s.2.map PS.bits) x.bits).2.map PS.ofBits)) (a.map PS.ofBits, b.map PS.ofBits)
    = ((gs.foldl (outerV n) (a, b)).1.map PS.ofBits, (gs.foldl (outerV n) (a, b)).2.map PS.ofBits) := by
  induction gs generalizing a b with
  | nil => rfl
  | cons g t ih =>
    simp only [List.map_cons, List.foldl_cons, map_bits_ofBits]
    have : outerV n (a, b) g = (a ++ (outerV n ([], b) g).1, (outerV n ([], b) g).2) := by simp [outerV]
    rw [this]
    exact ih _ _

theorem genKLocalGenerators_ofBits (n : Nat) (gs : List V) (hn : 2 ≤ n) (hne : gs ≠ [])
    (hg : ∀ g ∈ gs, g.length = 4) :
    genKLocalGenerators n (gs.map PS.ofBits) = .ok ((gs.foldl (outerV n) ([], [])).1.map PS.ofBits) := by
  unfold genKLocalGenerators
  have he : (gs.map PS.ofBits).isEmpty = false := by cases gs with | nil => exact absurd rfl hne | cons _ _ => rfl
  simp only [he]
  rw [C14.forIn_yield_inv (fun s => ∃ a b : List V, s = (a.map PS.ofBits, b.map PS.ofBits)) _ _
    (fun (p : PS) (s : List PS × List PS) =>
      ((s.1.map PS.bits ++ (outerV n ([], s.2.map PS.bits) p.bits).1).map PS.ofBits,
        (outerV n ([], s.2.map PS.bits) p.bits).2.map PS.ofBits))]
  · simp only [Bool.false_eq_true, if_false, bind, Except.bind, pure, Except.pure]
    have := foldl_outer_ofBits n gs [] []
    simp only [List.map_nil] at this
    rw [this]
  · rintro x hx s ⟨a, b, rfl⟩
    obtain ⟨g, hgm, rfl⟩ := List.mem_map.1 hx
    simp only [genKLocal_ofBits n g b hn (hg g hgm), bind, Except.bind, pure, Except.pure]
    simp only [map_bits_ofBits]
    refine ⟨?_, _, _, rfl⟩
    simp [outerV, show (PS.ofBits g).bits = g from rfl]
  · exact ⟨[], [], rfl⟩

/-- all translates of the generators, first occurrence kept -/
def klocalV (n : Nat) (gs : List V) : List V :=
  dedup (gs.flatMap (fun g => (List.range (n - 1)).map (fun k => shiftV n k g)))

theorem foldl_outerV (n : Nat) (gs : List V) (o : List V) :
    gs.foldl (outerV n) (o, o) =
      ((gs.flatMap (fun g => (List.range (n - 1)).map (fun k => shiftV n k g))).foldl dstep o,
       (gs.flatMap (fun g => (List.range (n - 1)).map (fun k => shiftV n k g))).foldl dstep o) := by
  induction gs generalizing o with
  | nil => rfl
  | cons g t ih =>
    obtain ⟨d, h1, h2⟩ := foldl_stepV n g (List.range (n - 1)) [] o
    have : outerV n (o, o) g = (o ++ d, o ++ d) := by simp [outerV, h1]
    rw [List.foldl_cons, this, ih, List.flatMap_cons, List.foldl_append, ← h2]

theorem genKLocalGenerators_eq (n : Nat) (gs : List V) (hn : 2 ≤ n) (hne : gs ≠ [])
    (hg : ∀ g ∈ gs, g.length = 4) :
    genKLocalGenerators n (gs.map PS.ofBits) = .ok ((klocalV n gs).map PS.ofBits) := by
  rw [genKLocalGenerators_ofBits n gs hn hne hg, foldl_outerV]
  rfl

theorem mem_klocalV {n : Nat} {gs : List V} {x : V} :
    x ∈ klocalV n gs ↔ ∃ g ∈ gs, ∃ k, k < n - 1 ∧ x = shiftV n k g := by
  simp only [klocalV, mem_dedup, List.mem_flatMap, List.mem_map, List.mem_range]
  constructor
  · rintro ⟨g, hg, k, hk, rfl⟩; exact ⟨g, hg, k, hk, rfl⟩
  · rintro ⟨g, hg, k, hk, rfl⟩; exact ⟨g, hg, k, hk, rfl⟩

theorem collInit_same (l : List PS) (m : Nat) (h : ∀ g ∈ l, g.len = m) : collInit l = .ok l := by
  unfold collInit
  split
  · rename_i he; rw [List.isEmpty_iff] at he; subst he; rfl
  · refine (C14.mapM_ok _ id l ?_).trans (by simp)
    intro a ha
    have hm := C14.foldl_max_spec l 0
    have : ¬ a.len < l.foldl (fun m g => max m g.len) 0 := by
      rcases hm.2.2 with h0 | ⟨g, hg, h0⟩
      · omega
      · rw [← h0, h a ha, h g hg]; omega
    simp [this]

/-- `get_pauli_string(gens, n)` for two-letter generators given by their bits -/
theorem getPauliStringList_eq (n : Nat) (gs : List V) (hn : 2 ≤ n) (hne : gs ≠ [])
    (hg : ∀ g ∈ gs, g.length = 4) :
    getPauliStringList (gs.map PS.ofBits) (some n) = .ok ((klocalV n gs).map PS.ofBits) := by
  unfold getPauliStringList
  have h1 : collInit (gs.map PS.ofBits) = .ok (gs.map PS.ofBits) := by
    apply collInit_same _ 2
    intro p hp
    obtain ⟨g, hgm, rfl⟩ := List.mem_map.1 hp
    rw [len_ofBits, hg g hgm]
  have h2 : collInit ((klocalV n gs).map PS.ofBits) = .ok ((klocalV n gs).map PS.ofBits) := by
    apply collInit_same _ n
    intro p hp
    obtain ⟨x, hx, rfl⟩ := List.mem_map.1 hp
    obtain ⟨g, hgm, k, hk, rfl⟩ := mem_klocalV.1 hx
    rw [len_ofBits, length_shiftV (hg g hgm) (by omega)]; omega
  simp only [h1, bind, Except.bind, genKLocalGenerators_eq n gs hn hne hg, h2]

/-- invariants of a pairwise commuting set: abelian, every member central -/
theorem invOfClosure_commuting (C : List V) (h : ∀ a ∈ C, ∀ b ∈ C, omega a b = false) :
    invOfClosure C = ⟨C.length, []⟩ := by
  have h1 : C.filter (fun x => C.all (fun y => !(omega x y))) = C := by
    rw [List.filter_eq_self]
    intro a ha
    simp only [List.all_eq_true, Bool.not_eq_true']
    exact fun b hb => h a ha b hb
  have h2 : C.filter (fun x => C.any (fun y => omega x y)) = [] := by
    rw [List.filter_eq_nil_iff]
    intro a ha
    simp only [List.any_eq_true, not_exists, not_and, Bool.not_eq_true]
    exact fun b hb => h a ha b hb
  unfold invOfClosure
  simp only [h1, h2]
  have h3 : invOfClosure.comps ([] : List V).length.succ [] [] = [] := by
    simp [invOfClosure.comps]
  have h4 : mergeSimples [] = [] := by simp [mergeSimples]
  simp only [Nat.succ_eq_add_one] at h3
  rw [h3, List.map_nil, h4]

/-! ### E. the three commuting families -/

def vXX : V := [true, false, true, false]
def vXI : V := [true, false, false, false]
def vIX : V := [false, false, true, false]

theorem klocalBits_eq {f : Fam} {gs : List V} (hf : f.gensPS = gs.map PS.ofBits) {n : Nat} (hn : 2 ≤ n)
    (hne : gs ≠ []) (hg : ∀ g ∈ gs, g.length = 4) : klocalBits f n = klocalV n gs := by
  unfold klocalBits klocal
  rw [hf, getPauliStringList_eq n gs hn hne hg]
  exact map_bits_ofBits _

theorem uniform_klocalV {n : Nat} {gs : List V} (hg : ∀ g ∈ gs, g.length = 4) :
    Uniform n (klocalV n gs) := by
  intro x hx
  obtain ⟨g, hgm, k, hk, rfl⟩ := mem_klocalV.1 hx
  exact length_shiftV (hg g hgm) (by omega)

theorem commuting_klocalV {n : Nat} {gs : List V}
    (hx : ∀ g ∈ gs, ∃ a b, g = [a, false, b, false]) :
    ∀ a ∈ klocalV n gs, ∀ b ∈ klocalV n gs, omega a b = false := by
  intro a ha b hb
  obtain ⟨g, hgm, k, _, rfl⟩ := mem_klocalV.1 ha
  obtain ⟨g', hgm', k', _, rfl⟩ := mem_klocalV.1 hb
  obtain ⟨a1, b1, rfl⟩ := hx g hgm
  obtain ⟨a2, b2, rfl⟩ := hx g' hgm'
  exact omega_xOnly _ _ xOnly_shiftV xOnly_shiftV

theorem length_dedup_of_equiv {L E : List V} (hE : E.Nodup) (h : ∀ x, x ∈ E ↔ x ∈ L) :
    (dedup L).length = E.length := by
  apply List.Perm.length_eq
  rw [List.perm_ext_iff_of_nodup (nodup_dedup L) hE]
  intro x; rw [mem_dedup, h x]

/-- everything the table row needs, for a family of pairwise commuting translates -/
theorem commuting_family {n : Nat} {gs : List V} (hg : ∀ g ∈ gs, g.length = 4)
    (hx : ∀ g ∈ gs, ∃ a b, g = [a, false, b, false]) :
    (∀ x, Clo (klocalV n gs) x ↔ x ∈ klocalV n gs) ∧ (klocalV n gs).Nodup ∧
    invOfClosure (closureList (klocalV n gs)).1 = ⟨(klocalV n gs).length, []⟩ := by
  have hc := commuting_klocalV (n := n) hx
  have hU := uniform_klocalV (n := n) hg
  have hclo : ∀ x, Clo (klocalV n gs) x ↔ x ∈ klocalV n gs := fun x => clo_of_commuting hc
  have hnd : (klocalV n gs).Nodup := nodup_dedup _
  refine ⟨hclo, hnd, ?_⟩
  have hmem : ∀ x, x ∈ (closureList (klocalV n gs)).1 ↔ x ∈ klocalV n gs := fun x => by
    rw [closureList_sound_complete hU, hclo]
  rw [invOfClosure_commuting _ (fun a ha b hb => hc a ((hmem a).1 ha) b ((hmem b).1 hb))]
  rw [← clo_card hU hnd (fun x => (hclo x).symm)]

theorem invOfName_u1 (k : Nat) : invOfName [u1 k] = ⟨k, []⟩ := by
  simp [invOfName, u1, mergeSimples]

theorem nodup_map_range {f : Nat → V} (hf : ∀ j k, f j = f k → j = k) (m : Nat) :
    ((List.range m).map f).Nodup := by
  rw [List.Nodup, List.pairwise_map]
  exact List.nodup_range.imp (fun hne heq => hne (hf _ _ heq))

theorem length_klocalV_a0 (n : Nat) : (klocalV n [vXX]).length = n - 1 := by
  have := length_dedup_of_equiv (L := [vXX].flatMap (fun g => (List.range (n - 1)).map (fun k => shiftV n k g)))
    (E := (List.range (n - 1)).map (fun k => shiftV n k vXX)) (nodup_map_range (fun _ _ h => shiftXX_inj h) _)
    (fun x => by simp)
  simpa [klocalV] using this

theorem mem_sites {n : Nat} (hn : 2 ≤ n) (x : V) :
    ((∃ k, k < n - 1 ∧ x = shiftV n k vXI) ∨ (∃ k, k < n - 1 ∧ x = shiftV n k vIX)) ↔
      ∃ k, k < n ∧ x = siteX n k := by
  constructor
  · rintro (⟨k, hk, rfl⟩ | ⟨k, hk, rfl⟩)
    · exact ⟨k, by omega, shiftV_XI n k (by omega)⟩
    · exact ⟨k + 1, by omega, shiftV_IX n k (by omega)⟩
  · rintro ⟨k, hk, rfl⟩
    by_cases h0 : k < n - 1
    · exact Or.inl ⟨k, h0, (shiftV_XI n k (by omega)).symm⟩
    · refine Or.inr ⟨k - 1, by omega, ?_⟩
      have := shiftV_IX n (k - 1) (by omega)
      rw [show k - 1 + 1 = k by omega] at this
      exact this.symm

theorem length_klocalV_b0 {n : Nat} (hn : 2 ≤ n) : (klocalV n [vXI, vIX]).length = n := by
  have := length_dedup_of_equiv
    (L := [vXI, vIX].flatMap (fun g => (List.range (n - 1)).map (fun k => shiftV n k g)))
    (E := (List.range n).map (siteX n)) (nodup_map_range (fun _ _ h => siteX_inj h) _)
    (fun x => by
      have := mem_sites hn x
      simp only [List.mem_map, List.mem_range, List.flatMap_cons, List.flatMap_nil, List.append_nil,
        List.mem_append]
      constructor
      · rintro ⟨k, hk, rfl⟩
        rcases this.2 ⟨k, hk, rfl⟩ with ⟨j, hj, h⟩ | ⟨j, hj, h⟩
        · exact Or.inl ⟨j, hj, h.symm⟩
        · exact Or.inr ⟨j, hj, h.symm⟩
      · rintro (⟨j, hj, rfl⟩ | ⟨j, hj, rfl⟩)
        · obtain ⟨k, hk, h⟩ := this.1 (Or.inl ⟨j, hj, rfl⟩); exact ⟨k, hk, h.symm⟩
        · obtain ⟨k, hk, h⟩ := this.1 (Or.inr ⟨j, hj, rfl⟩); exact ⟨k, hk, h.symm⟩)
  simpa [klocalV] using this

theorem length_klocalV_b1 {n : Nat} (hn : 2 ≤ n) : (klocalV n [vXX, vXI, vIX]).length = 2 * n - 1 := by
  have hE : ((List.range (n - 1)).map (fun k => shiftV n k vXX) ++ (List.range n).map (siteX n)).Nodup := by
    rw [List.nodup_append]
    refine ⟨nodup_map_range (fun _ _ h => shiftXX_inj h) _, nodup_map_range (fun _ _ h => siteX_inj h) _, ?_⟩
    intro a ha b hb hab
    obtain ⟨j, _, rfl⟩ := List.mem_map.1 ha
    obtain ⟨k, _, rfl⟩ := List.mem_map.1 hb
    have := congrArg (List.count true) hab
    rw [show shiftV n j vXX = shiftV n j [true, false, true, false] from rfl, count_shiftXX, count_siteX] at this
    omega
  have := length_dedup_of_equiv
    (L := [vXX, vXI, vIX].flatMap (fun g => (List.range (n - 1)).map (fun k => shiftV n k g))) hE
    (fun x => by
      have := mem_sites hn x
      simp only [List.mem_map, List.mem_range, List.flatMap_cons, List.flatMap_nil, List.append_nil,
        List.mem_append]
      constructor
      · rintro (h | ⟨k, hk, rfl⟩)
        · exact Or.inl h
        · rcases this.2 ⟨k, hk, rfl⟩ with ⟨j, hj, h⟩ | ⟨j, hj, h⟩
          · exact Or.inr (Or.inl ⟨j, hj, h.symm⟩)
          · exact Or.inr (Or.inr ⟨j, hj, h.symm⟩)
      · rintro (h | ⟨j, hj, rfl⟩ | ⟨j, hj, rfl⟩)
        · exact Or.inl h
        · obtain ⟨k, hk, h⟩ := this.1 (Or.inl ⟨j, hj, rfl⟩); exact Or.inr ⟨k, hk, h.symm⟩
        · obtain ⟨k, hk, h⟩ := this.1 (Or.inr ⟨j, hj, rfl⟩); exact Or.inr ⟨k, hk, h.symm⟩)
  rw [klocalV, this]
  simp; omega

end C19
end PauLie
