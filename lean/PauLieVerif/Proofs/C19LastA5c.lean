/-
Helpers for property C19, part 31c: family a5 - the kernel-evaluated peeling checks, phase 2.
-/
import PauLieVerif.Proofs.C19LastA5a

namespace PauLie
namespace C19
open Closure Graph C01Star C03

theorem chkA5_2 : chkP a5A a5B a5W 2 := by
  unfold chkP; decide +kernel

end C19
end PauLie
