/-
Helpers for property C19, part 27: transfer of a closed form along a SITE-DEPENDENT relabelling of the letters.

`siteMap f i x` relabels site `i + j` of `x` by the map `f (i + j)` of bit pairs.  If every `f k` is a symplectic
bijection of a site (`Symp2`: a permutation of `X, Y, Z`), `siteMap f 0` is a form map on strings of every
length; if for every position `k` it carries the two-site generators `gs` ONTO the generators `gs'`
(as sets, the images of a word at position `k` being computed with `f k`, `f (k+1)`), then the translates of `gs'`
are the images of the translates of `gs`, the closure of the one is the image of the closure of the other, and a
closed form `T` for `gs` gives the closed form `T ∘ siteMap f' 0` (`f'` the site-wise inverse) for `gs'`, with the
same number of members.  Used for a6 (swap `Y ↔ Z` on odd sites) and a10 (cyclic shift `τ^k` on site `k`), both
relabellings of a7.  Core Lean only.
-/
import PauLieVerif.Proofs.C19RestA7Count

namespace PauLie
namespace C19
open Closure Graph C01Star C03

/-- site `i + j` of the string (its `j`-th bit pair) is relabelled by `f (i + j)` -/
def siteMap (f : Nat → Bool → Bool → Bool × Bool) : Nat → V → V
  | i, a :: b :: t => (f i a b).1 :: (f i a b).2 :: siteMap f (i + 1) t
  | _, [] => []
  | _, [a] => [a]

def fsFrom (f : Nat → Bool → Bool → Bool × Bool) : Nat → Nat → List (Bool → Bool → Bool × Bool)
  | _, 0 => []
  | i, m + 1 => f i :: fsFrom f (i + 1) m

theorem mem_fsFrom {f : Nat → Bool → Bool → Bool × Bool} : ∀ (m i : Nat) (g : Bool → Bool → Bool × Bool),
    g ∈ fsFrom f i m → ∃ k, g = f k
  | 0, _, _, h => by simp [fsFrom] at h
  | m + 1, i, g, h => by
    simp only [fsFrom, List.mem_cons] at h
    rcases h with rfl | h
    · exact ⟨i, rfl⟩
    · exact mem_fsFrom m (i + 1) g h

theorem siteMap_eq_relabelAll (f : Nat → Bool → Bool → Bool × Bool) : ∀ (m i : Nat) (x : V), x.length = 2 * m →
    siteMap f i x = relabelAll (fsFrom f i m) x
  | 0, i, [], _ => by simp [siteMap, fsFrom, relabelAll]
  | 0, i, _ :: _, h => by simp at h
  | m + 1, i, [], h => by simp at h
  | m + 1, i, [_], h => by simp at h; omega
  | m + 1, i, a :: b :: t, h => by
    simp only [siteMap, fsFrom, relabelAll, siteMap_eq_relabelAll f m (i + 1) t (by simp at h; omega)]

theorem length_siteMap (f : Nat → Bool → Bool → Bool × Bool) : ∀ (i : Nat) (x : V), (siteMap f i x).length = x.length
  | _, [] => rfl
  | _, [_] => rfl
  | i, a :: b :: t => by simp [siteMap, length_siteMap f (i + 1) t]

theorem formMap_siteMap {f : Nat → Bool → Bool → Bool × Bool} (hf : ∀ k, Symp2 (f k)) (n i : Nat) :
    FormMap n n (siteMap f i) := by
  have h := formMap_relabelAll n (fs := fsFrom f i n) (fun g hg => by
    obtain ⟨k, rfl⟩ := mem_fsFrom n i g hg; exact hf k)
  have e := siteMap_eq_relabelAll f n i
  refine ⟨fun x hx => by rw [length_siteMap, hx], fun x y hx hy => ?_, fun x y hx hy => ?_, fun x y hx hy he => ?_⟩
  · rw [e _ (by rw [length_add_eq hx hy]), e x hx, e y hy]; exact h.add x y hx hy
  · rw [e x hx, e y hy]; exact h.om x y hx hy
  · rw [e x hx, e y hy] at he; exact h.inj x y hx hy he

theorem siteMap_append (f : Nat → Bool → Bool → Bool × Bool) : ∀ (m i : Nat) (x y : V), x.length = 2 * m →
    siteMap f i (x ++ y) = siteMap f i x ++ siteMap f (i + m) y
  | 0, i, [], y, _ => by
    cases y with
    | nil => simp [siteMap]
    | cons a t => cases t <;> simp [siteMap]
  | 0, i, _ :: _, _, h => by simp at h
  | m + 1, i, [], _, h => by simp at h
  | m + 1, i, [_], _, h => by simp at h; omega
  | m + 1, i, a :: b :: t, y, h => by
    simp only [List.cons_append, siteMap, siteMap_append f m (i + 1) t y (by simp at h; omega)]
    rw [show i + 1 + m = i + (m + 1) by omega]

theorem siteMap_replicate {f : Nat → Bool → Bool → Bool × Bool} (h0 : ∀ k, f k false false = (false, false)) :
    ∀ (m i : Nat), siteMap f i (List.replicate (2 * m) false) = List.replicate (2 * m) false
  | 0, _ => by simp [siteMap]
  | m + 1, i => by
    rw [show 2 * (m + 1) = 2 * m + 1 + 1 by omega]
    simp only [List.replicate_succ, siteMap, h0, siteMap_replicate h0 m (i + 1)]

theorem symp2_zero {g : Bool → Bool → Bool × Bool} (h : Symp2 g) : g false false = (false, false) := by
  have := h.add false false false false
  simp only [bne_self_eq_false] at this
  exact this

theorem siteMap_shiftV {f : Nat → Bool → Bool → Bool × Bool} (hf : ∀ k, Symp2 (f k)) {n k : Nat} {g : V}
    (hg : g.length = 4) : siteMap f 0 (shiftV n k g) = shiftV n k (siteMap f k g) := by
  have h0 : ∀ k, f k false false = (false, false) := fun k => symp2_zero (hf k)
  rw [shiftV, siteMap_append f k 0 _ _ (by simp), siteMap_append f 2 (0 + k) g _ hg, siteMap_replicate h0,
    siteMap_replicate h0, Nat.zero_add]
  rfl

theorem siteMap_siteMap {f f' : Nat → Bool → Bool → Bool × Bool}
    (h : ∀ k a b, f' k (f k a b).1 (f k a b).2 = (a, b)) : ∀ (i : Nat) (x : V), siteMap f' i (siteMap f i x) = x
  | _, [] => rfl
  | _, [_] => rfl
  | i, a :: b :: t => by simp only [siteMap, h, siteMap_siteMap h (i + 1) t]

/-- the translates of `gs'` are the images of the translates of `gs` -/
theorem mem_klocalV_siteMap {f : Nat → Bool → Bool → Bool × Bool} (hf : ∀ k, Symp2 (f k)) {gs gs' : List V}
    (hg : ∀ g ∈ gs, g.length = 4)
    (hperm : ∀ k g', g' ∈ gs' ↔ ∃ g ∈ gs, siteMap f k g = g') (n : Nat) (x : V) :
    x ∈ klocalV n gs' ↔ x ∈ (klocalV n gs).map (siteMap f 0) := by
  rw [List.mem_map, mem_klocalV]
  constructor
  · rintro ⟨g', hg', k, hk, rfl⟩
    obtain ⟨g, hgm, rfl⟩ := (hperm k g').1 hg'
    exact ⟨shiftV n k g, mem_klocalV.2 ⟨g, hgm, k, hk, rfl⟩, siteMap_shiftV hf (hg g hgm)⟩
  · rintro ⟨y, hy, rfl⟩
    obtain ⟨g, hgm, k, hk, rfl⟩ := mem_klocalV.1 hy
    exact ⟨siteMap f k g, (hperm k _).2 ⟨g, hgm, rfl⟩, k, hk, siteMap_shiftV hf (hg g hgm)⟩

/-- **transfer of the closed form** -/
theorem clo_transfer {f f' : Nat → Bool → Bool → Bool × Bool} (hf : ∀ k, Symp2 (f k))
    (h1 : ∀ k a b, f' k (f k a b).1 (f k a b).2 = (a, b)) (h2 : ∀ k a b, f k (f' k a b).1 (f' k a b).2 = (a, b))
    {gs gs' : List V} (hg : ∀ g ∈ gs, g.length = 4)
    (hperm : ∀ k g', g' ∈ gs' ↔ ∃ g ∈ gs, siteMap f k g = g') {T : V → Bool} {n : Nat}
    (h : ∀ x, Clo (klocalV n gs) x ↔ x.length = 2 * n ∧ T x = true) (x : V) :
    Clo (klocalV n gs') x ↔ x.length = 2 * n ∧ T (siteMap f' 0 x) = true := by
  have hm := mem_klocalV_siteMap hf hg hperm n
  have hφ := formMap_siteMap hf n 0
  have hU : Uniform n (klocalV n gs) := uniform_klocalV hg
  have e : Clo (klocalV n gs') x ↔ Clo ((klocalV n gs).map (siteMap f 0)) x :=
    ⟨clo_mono (fun g hg => (hm g).1 hg), clo_mono (fun g hg => (hm g).2 hg)⟩
  rw [e, clo_image hφ hU]
  constructor
  · rintro ⟨y, hy, rfl⟩
    obtain ⟨ly, hT⟩ := (h y).1 hy
    exact ⟨by rw [length_siteMap, ly], by rw [siteMap_siteMap h1]; exact hT⟩
  · rintro ⟨lx, hT⟩
    exact ⟨siteMap f' 0 x, (h _).2 ⟨by rw [length_siteMap, lx], hT⟩, siteMap_siteMap h2 0 x⟩

/-- **the closure has the same number of members** -/
theorem card_transfer {f : Nat → Bool → Bool → Bool × Bool} (hf : ∀ k, Symp2 (f k))
    {gs gs' : List V} (hg : ∀ g ∈ gs, g.length = 4) (hg' : ∀ g ∈ gs', g.length = 4)
    (hperm : ∀ k g', g' ∈ gs' ↔ ∃ g ∈ gs, siteMap f k g = g') (n : Nat) :
    (closureList (klocalV n gs')).1.length = (closureList (klocalV n gs)).1.length := by
  have hm := mem_klocalV_siteMap hf hg hperm n
  have hφ := formMap_siteMap hf n 0
  have hU : Uniform n (klocalV n gs) := uniform_klocalV hg
  rw [← closure_card hφ hU]
  refine (clo_card (uniform_klocalV hg') (closureList_nodup _) (fun x => ?_)).symm
  rw [closureList_sound_complete (uniform_map hφ hU)]
  exact ⟨clo_mono (fun g hg => (hm g).2 hg), clo_mono (fun g hg => (hm g).1 hg)⟩

end C19
end PauLie
