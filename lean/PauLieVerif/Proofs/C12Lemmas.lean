/-
Helper lemmas for property C12, part 1: the coefficient field, the denotation
`den n a = Σ c • M P` of a term list and the algebraic operations
(`mk`, `simplify`, `+`, scalar `*`, `.h`, `@`, `kron`, `quadratic`).
-/
import PauLieVerif.Model.Linear
import PauLieVerif.Properties.C04
import Mathlib.Data.Complex.Basic
import Mathlib.Data.Rat.Cast.CharZero
import Mathlib.LinearAlgebra.Matrix.ConjTranspose

namespace PauLie
namespace C12

open Matrix Complex C04

/-! ## A. Gaussian rationals as complex numbers -/

/-- `re + im·i` as a complex number. -/
def _root_.PauLie.GR.toC (g : GR) : ℂ := (g.re : ℂ) + (g.im : ℂ) * I

theorem toC_zero : GR.zero.toC = 0 := by simp [GR.zero, GR.toC]
theorem toC_one : GR.one.toC = 1 := by simp [GR.one, GR.toC]

theorem toC_add (a b : GR) : (a + b).toC = a.toC + b.toC := by
  show (GR.add a b).toC = _
  simp only [GR.add, GR.toC]; push_cast; ring

theorem toC_mul (a b : GR) : (a * b).toC = a.toC * b.toC := by
  show (GR.mul a b).toC = _
  simp only [GR.mul, GR.toC]; push_cast
  linear_combination ((a.im : ℂ) * (b.im : ℂ)) * Complex.I_mul_I.symm

theorem toC_neg (a : GR) : (-a).toC = -a.toC := by
  show (GR.neg a).toC = _
  simp only [GR.neg, GR.toC]; push_cast; ring

theorem toC_conj (a : GR) : a.conj.toC = (starRingEnd ℂ) a.toC := by
  simp only [GR.conj, GR.toC]
  apply Complex.ext <;> simp

theorem toC_injective : Function.Injective GR.toC := by
  intro a b h
  have hre := congrArg Complex.re h
  have him := congrArg Complex.im h
  simp [GR.toC] at hre him
  cases a; cases b; simp_all

theorem toC_eq_zero {a : GR} : a.toC = 0 ↔ a = GR.zero := by
  rw [← toC_zero]; exact toC_injective.eq_iff

theorem toC_ofGI (g : GI) : (GR.ofGI g).toC = g.toComplex := by
  simp [GR.ofGI, GR.toC, GI.toComplex]

theorem toC_ofNat (k : ℕ) : (GR.ofNat k).toC = (k : ℂ) := by
  simp [GR.ofNat, GR.toC]

theorem toC_negIPow (k : ℕ) : (GR.negIPow k).toC = (-I) ^ k := by
  rw [GR.negIPow, toC_ofGI, GI.toComplex_negIPow]

theorem toC_foldl (l : List GR) (z : GR) :
    (l.foldl (· + ·) z).toC = z.toC + (l.map GR.toC).sum := by
  induction l generalizing z with
  | nil => simp
  | cons a l ih => rw [List.foldl_cons, ih, toC_add]; simp [add_assoc]

theorem toC_sum (l : List GR) : (GR.sum l).toC = (l.map GR.toC).sum := by
  rw [GR.sum, toC_foldl, toC_zero, zero_add]

/-! ## B. Denotation -/

/-- The matrix of one term, `c • M(P)`. -/
def term (n : ℕ) (t : GR × PS) : Matrix (Fin n → Fin 2) (Fin n → Fin 2) ℂ :=
  t.1.toC • M (t.2.vec n)

/-- The matrix denoted by a term list: `Σ c • M(P)`. -/
def den (n : ℕ) (a : Lin) : Matrix (Fin n → Fin 2) (Fin n → Fin 2) ℂ :=
  (a.map (term n)).sum

/-- All strings of the combination are well formed and have `n` letters. -/
def Valid (n : ℕ) (a : Lin) : Prop := ∀ t ∈ a, t.2.WF ∧ t.2.len = n

instance (n : ℕ) (a : Lin) : Decidable (Valid n a) := by unfold Valid; exact inferInstance

@[simp] theorem den_nil (n : ℕ) : den n [] = 0 := rfl

@[simp] theorem den_cons (n : ℕ) (t : GR × PS) (a : Lin) : den n (t :: a) = term n t + den n a := by
  simp [den]

theorem den_append (n : ℕ) (a b : Lin) : den n (a ++ b) = den n a + den n b := by
  simp [den]

theorem valid_nil (n : ℕ) : Valid n [] := by intro t ht; cases ht

theorem valid_cons {n : ℕ} {t : GR × PS} {a : Lin} :
    Valid n (t :: a) ↔ (t.2.WF ∧ t.2.len = n) ∧ Valid n a := by
  simp [Valid]

theorem valid_append {n : ℕ} {a b : Lin} (ha : Valid n a) (hb : Valid n b) : Valid n (a ++ b) := by
  intro t ht
  rcases List.mem_append.mp ht with h | h
  · exact ha t h
  · exact hb t h

theorem getSize_valid {n : ℕ} {a : Lin} (ha : Valid n a) (hne : a ≠ []) : Lin.getSize a = n := by
  cases a with
  | nil => exact absurd rfl hne
  | cons t a => exact (ha t (List.mem_cons_self ..)).2

/-! ### the constructor -/

theorem vec_ofLetters (n : ℕ) (w : List Letter) : (PS.ofLetters w).vec n = vecOf n w := by
  simp [PS.vec, letters_ofLetters]

theorem term_ofLetters (n : ℕ) (c : GR) (p : PS) :
    term n (c, PS.ofLetters p.letters) = term n (c, p) := by
  simp [term, PS.vec, letters_ofLetters]

/-- Re-parsing the strings does not change the matrix. -/
theorem den_mk (n : ℕ) (a : List (GR × PS)) : den n (Lin.mk a) = den n a := by
  induction a with
  | nil => rfl
  | cons t a ih =>
    show den n ((t.1, PS.ofLetters t.2.letters) :: Lin.mk a) = _
    rw [den_cons, den_cons, ih, term_ofLetters]

theorem valid_mk {n : ℕ} {a : List (GR × PS)} (h : ∀ t ∈ a, t.2.len = n) : Valid n (Lin.mk a) := by
  intro t ht
  obtain ⟨u, hu, rfl⟩ := List.mem_map.mp ht
  exact ⟨WF_ofLetters _, by rw [len_ofLetters, length_letters]; exact h u hu⟩

theorem mk_valid {n : ℕ} {a : Lin} (h : Valid n a) : Lin.mk a = a := by
  induction a with
  | nil => rfl
  | cons t a ih =>
    have ht := (valid_cons.mp h).1
    show (t.1, PS.ofLetters t.2.letters) :: Lin.mk a = t :: a
    rw [ih (valid_cons.mp h).2, ← WF_eq_ofLetters ht.1]

theorem valid_len {n : ℕ} {a : Lin} (h : Valid n a) : ∀ t ∈ a, t.2.len = n := fun t ht => (h t ht).2

/-! ### the identity string -/

theorem decode_replicate_false (n : ℕ) :
    decode (List.replicate (2 * n) false) = List.replicate n Letter.I := by
  induction n with
  | zero => rfl
  | succ n ih =>
    rw [show 2 * (n + 1) = (2 * n + 1) + 1 by ring, List.replicate_succ, List.replicate_succ, decode, ih]
    rfl

theorem len_ident (n : ℕ) : (PS.ident n).len = n := by
  simp [PS.ident, PS.ofBits, PS.len]

/-! ## C. Collecting terms in a dictionary -/

/-- The matrix denoted by a dictionary `{string ↦ coefficient}`. -/
def dden (n : ℕ) (d : Dict) : Matrix (Fin n → Fin 2) (Fin n → Fin 2) ℂ :=
  (d.map (fun e => e.2.toC • M (vecOf n e.1))).sum

theorem dden_dictAdd (n : ℕ) (d : Dict) (k : List Letter) (c : GR) :
    dden n (Lin.dictAdd d k c) = dden n d + c.toC • M (vecOf n k) := by
  induction d with
  | nil => simp [Lin.dictAdd, dden, toC_add, toC_zero]
  | cons e d ih =>
    obtain ⟨k', v⟩ := e
    unfold Lin.dictAdd
    split
    · next h =>
      subst h
      simp only [dden, List.map_cons, List.sum_cons, toC_add, add_smul]
      abel
    · next h =>
      have : dden n ((k', v) :: Lin.dictAdd d k c)
          = v.toC • M (vecOf n k') + dden n (Lin.dictAdd d k c) := by simp [dden]
      rw [this, ih]
      simp only [dden, List.map_cons, List.sum_cons]
      abel

theorem dden_sumInto (n : ℕ) (d : Dict) (l : Lin) :
    dden n (Lin.sumInto d l) = dden n d + den n l := by
  induction l generalizing d with
  | nil => simp [Lin.sumInto]
  | cons t l ih =>
    rw [Lin.sumInto, ih, dden_dictAdd, den_cons, add_assoc]
    rfl

theorem dden_sumByKey (n : ℕ) (l : Lin) : dden n (Lin.sumByKey l) = den n l := by
  rw [Lin.sumByKey, dden_sumInto]; simp [dden]

theorem den_nonzeroTerms (n : ℕ) (d : Dict) : den n (Lin.nonzeroTerms d) = dden n d := by
  induction d with
  | nil => rfl
  | cons e d ih =>
    obtain ⟨k, v⟩ := e
    have hd : dden n ((k, v) :: d) = v.toC • M (vecOf n k) + dden n d := by simp [dden]
    by_cases hv : v = GR.zero
    · have : Lin.nonzeroTerms ((k, v) :: d) = Lin.nonzeroTerms d := by
        simp [Lin.nonzeroTerms, hv]
      rw [this, ih, hd, hv, toC_zero, zero_smul, zero_add]
    · have : Lin.nonzeroTerms ((k, v) :: d) = (v, PS.ofLetters k) :: Lin.nonzeroTerms d := by
        simp [Lin.nonzeroTerms, hv]
      rw [this, den_cons, ih, hd, term, vec_ofLetters]

/-- every key of the dictionary has `n` letters -/
def KeysLen (n : ℕ) (d : Dict) : Prop := ∀ e ∈ d, e.1.length = n

theorem keysLen_dictAdd {n : ℕ} {d : Dict} {k : List Letter} {c : GR}
    (hd : KeysLen n d) (hk : k.length = n) : KeysLen n (Lin.dictAdd d k c) := by
  induction d with
  | nil => intro e he; simp [Lin.dictAdd] at he; subst he; exact hk
  | cons e d ih =>
    obtain ⟨k', v⟩ := e
    have h1 : k'.length = n := hd (k', v) (List.mem_cons_self ..)
    have h2 : KeysLen n d := fun e he => hd e (List.mem_cons_of_mem _ he)
    unfold Lin.dictAdd
    split
    · intro e he
      rcases List.mem_cons.mp he with rfl | he
      · exact h1
      · exact h2 e he
    · intro e he
      rcases List.mem_cons.mp he with rfl | he
      · exact h1
      · exact ih h2 e he

theorem keysLen_sumInto {n : ℕ} {d : Dict} {l : Lin} (hd : KeysLen n d) (hl : Valid n l) :
    KeysLen n (Lin.sumInto d l) := by
  induction l generalizing d with
  | nil => exact hd
  | cons t l ih =>
    rw [Lin.sumInto]
    have ht := (valid_cons.mp hl).1
    exact ih (keysLen_dictAdd hd (by rw [length_letters]; exact ht.2)) (valid_cons.mp hl).2

theorem keysLen_nil (n : ℕ) : KeysLen n [] := by intro e he; cases he

theorem valid_nonzeroTerms {n : ℕ} {d : Dict} (hd : KeysLen n d) : Valid n (Lin.nonzeroTerms d) := by
  intro t ht
  simp only [Lin.nonzeroTerms, List.mem_map, List.mem_filter] at ht
  obtain ⟨e, ⟨he, _⟩, rfl⟩ := ht
  exact ⟨WF_ofLetters _, by rw [len_ofLetters]; exact hd e he⟩

/-! ## D. `simplify`, `+`, scalar `*`, `.h` -/

theorem den_simplify (n : ℕ) (a : Lin) : den n (Lin.simplify a) = den n a := by
  unfold Lin.simplify
  split
  · rfl
  · simp only
    split
    · next hs =>
      have h0 : den n (Lin.nonzeroTerms (Lin.sumByKey a)) = 0 := by
        rw [List.isEmpty_iff.mp hs]; rfl
      rw [den_nonzeroTerms, dden_sumByKey] at h0
      rw [den_mk, h0]
      simp [term, toC_zero]
    · rw [den_mk, den_nonzeroTerms, dden_sumByKey]

theorem valid_simplify {n : ℕ} {a : Lin} (ha : Valid n a) : Valid n (Lin.simplify a) := by
  unfold Lin.simplify
  split
  · exact ha
  · next hne =>
    have hne' : a ≠ [] := by intro h; simp [h] at hne
    simp only
    split
    · apply valid_mk
      intro t ht
      simp only [List.mem_singleton] at ht
      subst ht
      rw [len_ident, getSize_valid ha hne']
    · apply valid_mk
      exact valid_len (valid_nonzeroTerms (keysLen_sumInto (keysLen_nil n) ha))

theorem den_add (n : ℕ) (a b : Lin) : den n (Lin.add a b) = den n a + den n b := by
  unfold Lin.add
  simp only
  have key : den n (Lin.nonzeroTerms (Lin.sumInto (Lin.sumInto [] a) b)) = den n a + den n b := by
    rw [den_nonzeroTerms, dden_sumInto, dden_sumInto]; simp [dden]
  split
  · next hs =>
    rw [List.isEmpty_iff.mp hs] at key
    rw [← key]; rfl
  · rw [den_mk, key]

theorem valid_add {n : ℕ} {a b : Lin} (ha : Valid n a) (hb : Valid n b) : Valid n (Lin.add a b) := by
  unfold Lin.add
  simp only
  split
  · exact valid_nil n
  · apply valid_mk
    exact valid_len (valid_nonzeroTerms (keysLen_sumInto (keysLen_sumInto (keysLen_nil n) ha) hb))

theorem den_map_smul (n : ℕ) (a : Lin) (s : GR) :
    den n (a.map (fun t => (t.1 * s, t.2))) = s.toC • den n a := by
  induction a with
  | nil => simp
  | cons t a ih =>
    rw [List.map_cons, den_cons, den_cons, ih, smul_add]
    congr 1
    simp only [term, toC_mul, smul_smul, mul_comm]

theorem den_smul (n : ℕ) (a : Lin) (s : GR) : den n (Lin.smul a s) = s.toC • den n a := by
  unfold Lin.smul
  simp only
  split
  · next h =>
    have := den_map_smul n a s
    rw [List.isEmpty_iff.mp h] at this
    rw [← this]; rfl
  · rw [den_mk, den_map_smul]

theorem valid_smul {n : ℕ} {a : Lin} (ha : Valid n a) (s : GR) : Valid n (Lin.smul a s) := by
  unfold Lin.smul
  simp only
  split
  · exact valid_nil n
  · apply valid_mk
    intro t ht
    obtain ⟨u, hu, rfl⟩ := List.mem_map.mp ht
    exact (ha u hu).2

/-- Pauli matrices are Hermitian, site by site … -/
theorem σ_star (a : Letter) (i j : Fin 2) : star (σ a j i) = σ a i j := by
  cases a <;> fin_cases i <;> fin_cases j <;> simp [σ]

/-- … hence so is every Pauli-string matrix. -/
theorem M_conjTranspose {n : ℕ} (P : Fin n → Letter) : (M P)ᴴ = M P := by
  ext r c
  simp only [Matrix.conjTranspose_apply, M_apply, star_prod, σ_star]

theorem den_map_conj (n : ℕ) (a : Lin) :
    den n (a.map (fun t => (t.1.conj, t.2))) = (den n a)ᴴ := by
  induction a with
  | nil => simp
  | cons t a ih =>
    rw [List.map_cons, den_cons, den_cons, ih, Matrix.conjTranspose_add]
    congr 1
    simp only [term, Matrix.conjTranspose_smul, M_conjTranspose, toC_conj]
    rfl

theorem den_h (n : ℕ) (a : Lin) : den n (Lin.h a) = (den n a)ᴴ := by
  rw [Lin.h, den_mk, den_map_conj]

theorem valid_h {n : ℕ} {a : Lin} (ha : Valid n a) : Valid n (Lin.h a) := by
  apply valid_mk
  intro t ht
  obtain ⟨u, hu, rfl⟩ := List.mem_map.mp ht
  exact (ha u hu).2

end C12
end PauLie
