/-
C01, type B - linear independence of the canonical realisations (core Lean only).

`indep_insert`: if `p ++ q` is independent, every member gets an identity letter in front (`pad`), and
new strings `news` are inserted whose FIRST letters are independent (no non-empty selection of `news`
has the identity as first letter), the result `pad p ++ news ++ pad q` is independent.
-/
import PauLieVerif.Proofs.C01TypeBOrbit
import PauLieVerif.Proofs.C01TypeAList

namespace PauLie
namespace C01TypeB
open Closure C01Star

theorem zeroV_add2 (L : Nat) : zeroV (L + 2) = pad (zeroV L) := by
  simp [zeroV, pad, List.replicate_succ]

theorem add_pad (u v : V) : add (pad u) (pad v) = pad (add u v) := by simp [pad]

theorem msum_map_pad (L : Nat) : ∀ (b : List Bool) (l : List V),
    msum (L + 2) b (l.map pad) = pad (msum L b l)
  | [], l => by simp [zeroV_add2]
  | _ :: _, [] => by simp [zeroV_add2]
  | t :: b, v :: l => by
    have ih := msum_map_pad L b l
    cases t
    · simpa using ih
    · simp only [List.map_cons, msum_true, ih, add_pad]

theorem all_false_of_eq_noneMask {b : List Bool} {k : Nat} (h : b = noneMask k) : ∀ x ∈ b, x = false := by
  intro x hx
  rw [h, noneMask] at hx
  exact (List.mem_replicate.1 hx).2

theorem eq_noneMask_of_all_false {b : List Bool} (h : ∀ x ∈ b, x = false) : b = noneMask b.length := by
  rw [noneMask]
  exact List.eq_replicate_iff.2 ⟨rfl, h⟩

theorem pad_inj {u v : V} (h : pad u = pad v) : u = v := by simpa [pad] using h

theorem length_pad_of {L : Nat} {l : List V} (h : ∀ v ∈ l, v.length = L) : ∀ v ∈ l.map pad, v.length = L + 2 := by
  intro v hv
  obtain ⟨u, hu, rfl⟩ := List.mem_map.1 hv
  simp [pad, h u hu]

/-- **independence after padding and inserting strings with independent first letters** -/
theorem indep_insert {L : Nat} {p q news : List V} (hp : ∀ v ∈ p, v.length = L) (hq : ∀ v ∈ q, v.length = L)
    (hn : ∀ v ∈ news, v.length = L + 2) (hI : Indep L (p ++ q))
    (hN : ∀ bn : List Bool, bn.length = news.length → (∃ y, y.length = L ∧ msum (L + 2) bn news = pad y) →
      ∀ x ∈ bn, x = false) :
    Indep (L + 2) (p.map pad ++ (news ++ q.map pad)) := by
  intro b hb hz
  have hlen : b.length = p.length + (news.length + q.length) := by simpa using hb
  -- split the mask
  obtain ⟨b1, r, rfl, l1⟩ : ∃ b1 r, b = b1 ++ r ∧ b1.length = p.length :=
    ⟨b.take p.length, b.drop p.length, (List.take_append_drop _ _).symm, by simp; omega⟩
  have lr : r.length = news.length + q.length := by simp at hlen; omega
  obtain ⟨bn, b2, rfl, ln⟩ : ∃ bn b2, r = bn ++ b2 ∧ bn.length = news.length :=
    ⟨r.take news.length, r.drop news.length, (List.take_append_drop _ _).symm, by simp; omega⟩
  have l2 : b2.length = q.length := by simp at lr; omega
  have hp' := length_pad_of hp
  have hq' := length_pad_of hq
  have hnq : ∀ e ∈ news ++ q.map pad, e.length = L + 2 := by
    intro e he
    rcases List.mem_append.1 he with h | h
    · exact hn e h
    · exact hq' e h
  rw [msum_append b1 (p.map pad) (bn ++ b2) (news ++ q.map pad) (by simpa using l1) hnq,
    msum_append bn news b2 (q.map pad) ln hq', msum_map_pad, msum_map_pad] at hz
  -- the selection of `news` has an identity first letter
  have lA := length_msum (m := L) b1 p hp
  have lB := length_msum (m := L) b2 q hq
  have lN := length_msum (m := L + 2) bn news hn
  have e1 : msum (L + 2) bn news = pad (add (msum L b1 p) (msum L b2 q)) := by
    have h1 : add (pad (msum L b1 p)) (add (msum (L + 2) bn news) (pad (msum L b2 q))) =
        add (msum (L + 2) bn news) (pad (add (msum L b1 p) (msum L b2 q))) := by
      rw [← add_pad, ← add_assoc, add_comm (pad _) (msum _ _ _), add_assoc]
    rw [h1] at hz
    exact (add_eq_zero_iff lN (by simp [pad, length_add_eq lA lB])).1 hz
  have hbn := hN bn ln ⟨_, length_add_eq lA lB, e1⟩
  have ebn : msum (L + 2) bn news = zeroV (L + 2) := by
    rw [eq_noneMask_of_all_false hbn, msum_noneMask]
  rw [ebn, zeroV_add2] at e1
  have e2 : msum L (b1 ++ b2) (p ++ q) = zeroV L := by
    rw [msum_append b1 p b2 q l1 hq]
    exact (pad_inj e1).symm
  have h12 := all_false_of_eq_noneMask (hI (b1 ++ b2) (by simp [l1, l2]) e2)
  have : ∀ x ∈ b1 ++ (bn ++ b2), x = false := by
    intro x hx
    simp only [List.mem_append] at hx
    rcases hx with h | h | h
    · exact h12 x (by simp [h])
    · exact hbn x h
    · exact h12 x (by simp [h])
  rw [eq_noneMask_of_all_false this, hb]

/-- a single new string `Z ⊗ a` -/
theorem firstLetters_twin {L : Nat} (a : V) (la : a.length = L) :
    ∀ bn : List Bool, bn.length = [false :: true :: a].length →
      (∃ y, y.length = L ∧ msum (L + 2) bn [false :: true :: a] = pad y) → ∀ x ∈ bn, x = false := by
  intro bn hbn ⟨y, _, e⟩
  match bn, hbn with
  | [t], _ =>
    cases t
    · simp
    · exfalso
      rw [msum_true, msum_nil_right, add_zero_right (L + 2) _ (by simp [la])] at e
      simp [pad] at e

/-- the two new strings `Z ⊗ a`, `X ⊗ I…I` -/
theorem firstLetters_pair {L : Nat} (a : V) (la : a.length = L) :
    ∀ bn : List Bool, bn.length = [false :: true :: a, true :: false :: zeroV L].length →
      (∃ y, y.length = L ∧ msum (L + 2) bn [false :: true :: a, true :: false :: zeroV L] = pad y) →
      ∀ x ∈ bn, x = false := by
  intro bn hbn ⟨y, _, e⟩
  have lz : (true :: false :: zeroV L).length = L + 2 := by simp
  have lb : (false :: true :: a).length = L + 2 := by simp [la]
  match bn, hbn with
  | [s, t], _ =>
    cases s <;> cases t
    · simp
    · exfalso
      rw [msum_false, msum_true, msum_nil_right, add_zero_right (L + 2) _ lz] at e
      simp [pad] at e
    · exfalso
      rw [msum_true, msum_false, msum_nil_right, add_zero_right (L + 2) _ lb] at e
      simp [pad] at e
    · exfalso
      rw [msum_true, msum_true, msum_nil_right, add_zero_right (L + 2) _ lz, add_cons2] at e
      simp [pad] at e

end C01TypeB
end PauLie
