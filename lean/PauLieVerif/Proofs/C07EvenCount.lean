/-
Counting side of the universality theorem (helpers for `Properties/C07Even.lean`):
* no member of the universal set is the identity (`zero_not_mem_uBits`), hence its commutator closure
  never contains the identity (`clo_uBits_ne_zero`);
* a duplicate-free list whose members are exactly the non-identity bit lists of length `2N` has
  `4^N - 1` elements (`card_nonidentity`) — the lower bound comes from the enumeration
  `PS.genAll N` of C18 (`4^N` distinct strings of length `N`).
-/
import PauLieVerif.Proofs.C07Even
import PauLieVerif.Proofs.C07Size
import Mathlib.Data.List.Perm.Subperm

namespace PauLie
namespace C07

open Compiler Closure

theorem ident_add (k m : Nat) : ident (k + m) = ident k ++ ident m := by
  simp only [ident]
  exact List.replicate_add ..

/-- no member of the universal set is the identity text -/
theorem ne_ident_of_mem_uLetters {N k : Nat} (hk : 1 ≤ k) (hkN : k ≤ N) {t : List Letter}
    (h : t ∈ uLetters N k) : t ≠ ident N := by
  have hN : ident N = ident k ++ ident (N - k) := by rw [← ident_add]; congr 1; omega
  simp only [uLetters, List.mem_append, List.mem_map] at h
  rcases h with ⟨a, ha, rfl⟩ | ⟨b, _, rfl⟩
  · intro he
    rw [hN] at he
    have hak : a = ident k :=
      List.append_inj_left he (by rw [length_of_mem_leftLetters ha]; simp [ident])
    rcases mem_leftLetters.mp ha with ⟨i, hi, h1 | h1⟩ | h1
    · exact single_ne_ident hi (by decide) (h1 ▸ hak)
    · exact single_ne_ident hi (by decide) (h1 ▸ hak)
    · rw [h1] at hak
      obtain ⟨k', rfl⟩ : ∃ k', k = k' + 1 := ⟨k - 1, by omega⟩
      simp [ident, List.replicate_succ] at hak
  · intro he
    rw [hN] at he
    have hak : single k 0 .X = ident k := List.append_inj_left he (by simp [ident])
    exact single_ne_ident (by omega) (by decide) hak

theorem zero_not_mem_uBits {N k : Nat} (hk : 1 ≤ k) (hkN : k ≤ N) :
    List.replicate (2 * N) false ∉ uBits N k := by
  intro h
  simp only [uBits, List.map_map, List.mem_map, Function.comp] at h
  obtain ⟨t, ht, he⟩ := h
  apply ne_ident_of_mem_uLetters hk hkN ht
  have he' : encode t = encode (ident N) := by
    rw [C18.encode_replicate_I]; exact he
  have := congrArg decode he'
  rwa [C18.decode_encode, C18.decode_encode] at this

theorem uniform_uBits' (N k : Nat) (hkN : k ≤ N) : Uniform N (uBits N k) := by
  intro g hg
  simp only [uBits, List.map_map, List.mem_map, Function.comp] at hg
  obtain ⟨w, hw, rfl⟩ := hg
  simp [PS.ofLetters, PS.ofBits, C18.encode_length, length_of_mem_uLetters hkN hw]

/-- the closure of the universal set contains only non-identity strings of length `N` -/
theorem clo_uBits_ne_zero {N k : Nat} (hk : 1 ≤ k) (hkN : k ≤ N) {x : V} (hx : Clo (uBits N k) x) :
    x.length = 2 * N ∧ x ≠ List.replicate (2 * N) false :=
  ⟨clo_length (uniform_uBits' N k hkN) hx,
   clo_ne_zero (uniform_uBits' N k hkN) (zero_not_mem_uBits hk hkN) hx⟩

/-- the bit lists of the `4^N` strings enumerated by `PS.genAll N` -/
theorem genAll_bits (N : Nat) :
    ((PS.genAll N).map (·.bits)).Nodup ∧ ((PS.genAll N).map (·.bits)).length = 4 ^ N ∧
      ∀ v ∈ (PS.genAll N).map (·.bits), v.length = 2 * N := by
  refine ⟨?_, by rw [List.length_map, C18.C18_enum_length], ?_⟩
  · have h : (((PS.genAll N).map (·.bits)).map PS.bitsToNat).Nodup := by
      rw [List.map_map]
      have := (C18.C18_enum N).1
      simp only [Function.comp_def]
      rw [this]
      exact List.nodup_range
    exact List.Nodup.of_map _ h
  · intro v hv
    obtain ⟨p, hp, rfl⟩ := List.mem_map.mp hv
    obtain ⟨hw, hl⟩ := (C18.C18_enum N).2 p hp
    have := hw.2.2
    simp only [PS.len] at hl
    omega

/-- a duplicate-free list of exactly the non-identity bit lists of length `2N` has `4^N - 1` members -/
theorem card_nonidentity {N : Nat} {l : List V} (hnd : l.Nodup)
    (hmem : ∀ v, v ∈ l ↔ (v.length = 2 * N ∧ v ≠ List.replicate (2 * N) false)) :
    l.length = 4 ^ N - 1 := by
  have h4 : 2 ^ (2 * N) = 4 ^ N := by rw [Nat.pow_mul]
  have hz : List.replicate (2 * N) false ∉ l := fun h => ((hmem _).mp h).2 rfl
  have hnd' : (List.replicate (2 * N) false :: l).Nodup := List.nodup_cons.mpr ⟨hz, hnd⟩
  have hup := length_le_of_nodup_bits (2 * N) _ hnd' (by
    intro x hx
    rcases List.mem_cons.mp hx with rfl | hx
    · simp
    · exact ((hmem x).mp hx).1)
  obtain ⟨gnd, glen, gl⟩ := genAll_bits N
  have hsub : (PS.genAll N).map (·.bits) ⊆ List.replicate (2 * N) false :: l := by
    intro v hv
    by_cases hv0 : v = List.replicate (2 * N) false
    · rw [hv0]; exact List.mem_cons_self ..
    · exact List.mem_cons_of_mem _ ((hmem v).mpr ⟨gl v hv, hv0⟩)
  have hlow := (List.subperm_of_subset gnd hsub).length_le
  rw [glen] at hlow
  simp only [List.length_cons, h4] at hup hlow
  omega

end C07
end PauLie
