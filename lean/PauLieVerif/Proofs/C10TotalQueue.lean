/-
`MorphFactory.build` never raises on synchronised strings of one length.

`Morph.build gens` is `getQueue gens` (in `Except Err`) followed by the pure function
`buildLoop`, in which every exception of the reduction pipeline — the control-flow exceptions,
`MorphFactoryException`, `IndexError`, and every foreign exception `Exc.py _` coming out of
`liftErr` — is matched by one of the arms, exactly as the `except` clauses of the Python do
(the last one is `except Exception`).  So the only way for `build` to answer `.error` is an
error of the queue construction: `getMaxConnected`, `antiCommutates`, `appendToQueue`, whose only
raising primitive is `commutesWith` (ValueError on unequal lengths).  This file walks through
these loops with the invariant "every string in `queue` / `new` is a synchronised string of
length `n`".
-/
import PauLieVerif.Model.Morph
import PauLieVerif.Proofs.C14Lemmas
import PauLieVerif.Proofs.C10TotalLoops

namespace PauLie
namespace C10Total
open Morph
open C14 (Uniform)

/-! ### lists of strings of one length -/

theorem uniform_nil (n : Nat) : Uniform n [] := fun _ h => by cases h

theorem uniform_of_subset {n : Nat} {l m : List PS} (hm : Uniform n m) (h : ∀ x ∈ l, x ∈ m) :
    Uniform n l := fun x hx => hm x (h x hx)

theorem uniform_filter {n : Nat} {l : List PS} (q : PS → Bool) (hl : Uniform n l) :
    Uniform n (l.filter q) := uniform_of_subset hl (fun _ hx => (List.mem_filter.mp hx).1)

theorem uniform_append {n : Nat} {l m : List PS} (hl : Uniform n l) (hm : Uniform n m) :
    Uniform n (l ++ m) := fun x hx => by
  rcases List.mem_append.mp hx with h | h
  · exact hl x h
  · exact hm x h

theorem uniform_single {n : Nat} {p : PS} (hp : p.WF ∧ p.len = n) : Uniform n [p] := fun x hx => by
  simp at hx; subst hx; exact hp

theorem uniform_removeFirst {n : Nat} {l : List PS} (p : PS) (hl : Uniform n l) :
    Uniform n (removeFirst l p) := by
  unfold removeFirst
  split
  · exact uniform_of_subset hl (fun _ hx => List.mem_of_mem_eraseIdx hx)
  · exact hl

theorem uniform_insertAt {n : Nat} {l : List PS} {p : PS} (k : Nat) (hl : Uniform n l)
    (hp : p.WF ∧ p.len = n) : Uniform n (insertAt l k p) := by
  intro x hx
  unfold insertAt at hx
  simp only [List.mem_append, List.mem_cons] at hx
  rcases hx with hx | rfl | hx
  · exact hl x (List.mem_of_mem_take hx)
  · exact hp
  · exact hl x (List.mem_of_mem_drop hx)

theorem uniform_sortPS {n : Nat} {l : List PS} (hl : Uniform n l) : Uniform n (sortPS l) :=
  uniform_of_subset hl (fun _ hx => (List.mergeSort_perm _ _).mem_iff.mp hx)

/-! ### `_get_anti_commutates` -/

/-- Boolean reading of the filter of `_get_anti_commutates` -/
def acB (p g : PS) : Bool := if g.beq p then false else !(C14.cwB p g)

theorem antiCommutates_eq {n : Nat} {p : PS} {l : List PS} (hp : p.WF ∧ p.len = n)
    (hl : Uniform n l) : antiCommutates p l = .ok (l.filter (acB p)) := by
  unfold antiCommutates
  apply C14.filterM_ok
  intro g hg
  obtain ⟨b, hb⟩ := C14.commutesWith_ok hp.1 (hl g hg).1 (hp.2.trans (hl g hg).2.symm)
  simp only [acB, C14.cwB, hb]
  split <;> rfl

theorem antiCommutates_ok {n : Nat} {p : PS} {l : List PS} (hp : p.WF ∧ p.len = n)
    (hl : Uniform n l) : Ok (Uniform n) (antiCommutates p l) :=
  ⟨_, antiCommutates_eq hp hl, uniform_filter _ hl⟩

/-! ### `_get_max_connected` -/

theorem getMaxConnected_ok {n : Nat} {l : List PS} (hl : Uniform n l) :
    Ok (fun r => ∀ b ac, r = some (b, ac) → (b.WF ∧ b.len = n) ∧ Uniform n ac)
      (getMaxConnected l) := by
  unfold getMaxConnected
  cases l with
  | nil => exact Ok.pure (by intro b ac h; cases h)
  | cons g0 t =>
    have h0 : g0.WF ∧ g0.len = n := hl g0 (by simp)
    simp only []
    refine Ok.bind (antiCommutates_ok h0 hl) ?_
    intro bestAc hAc
    refine Ok.bind (P := fun s => (s.1.WF ∧ s.1.len = n) ∧ Uniform n s.2) ?_ ?_
    · apply Ok.forIn_list (fun s : PS × List PS => (s.1.WF ∧ s.1.len = n) ∧ Uniform n s.2)
      · intro p hp s hs
        refine Ok.bind (antiCommutates_ok (hl p hp) hl) ?_
        intro ac hac
        split
        · exact Ok.pure ⟨hl p hp, hac⟩
        · exact Ok.pure hs
      · exact ⟨h0, hAc⟩
    · intro s hs
      exact Ok.pure (by intro b ac h; cases h; exact hs)

/-! ### `_append_to_queue` -/

/-- the loop state of `appendToQueue`: (early return value, queue, new, i, fuel) -/
abbrev AQState := Option (List PS × List PS) × List PS × List PS × Nat × Nat

def AQInv (n : Nat) (s : AQState) : Prop :=
  Uniform n s.2.1 ∧ Uniform n s.2.2.1 ∧ ∀ r, s.1 = some r → Uniform n r.1 ∧ Uniform n r.2

theorem appendToQueue_ok {n : Nat} {queue new : List PS} (hq : Uniform n queue)
    (hn : Uniform n new) :
    Ok (fun r => Uniform n r.1 ∧ Uniform n r.2) (appendToQueue queue new) := by
  unfold appendToQueue
  simp only []
  refine Ok.bind (P := AQInv n) ?_ ?_
  · refine Ok.loop (AQInv n) (fun s => s.2.2.2.2) _ ?_ _ _
      (Nat.lt_succ_self _) ⟨hq, hn, by intro r h; cases h⟩
    rintro ⟨r, queue, new, i, fuel⟩ ⟨hq, hn, hr⟩
    simp only [] at hq hn hr ⊢
    have hnone : ∀ r : List PS × List PS, (none : Option (List PS × List PS)) = some r →
        Uniform n r.1 ∧ Uniform n r.2 := by intro r h; cases h
    split
    · next hc =>
      have hfuel : fuel - 1 < fuel := by
        simp only [Bool.and_eq_true, decide_eq_true_eq] at hc
        omega
      cases hp : new[i]? with
      | none => exact Ok.pure ⟨hq, hn, hnone⟩
      | some p =>
        have hP : p.WF ∧ p.len = n := hn p (List.mem_of_getElem? hp)
        simp only []
        split
        · exact Ok.pure ⟨⟨hq, uniform_removeFirst p hn, hnone⟩, hfuel⟩
        · refine Ok.bind (antiCommutates_ok hP hq) ?_
          intro ac hac
          split
          · exact Ok.pure ⟨⟨hq, hn, hnone⟩, hfuel⟩
          · split
            · refine Ok.bind (P := fun s : List PS × Nat => Uniform n s.1) ?_ ?_
              · apply Ok.forIn_list (fun s : List PS × Nat => Uniform n s.1)
                · intro a _ s hs
                  split
                  · split
                    · exact Ok.pure (uniform_insertAt _ hs hP)
                    · exact Ok.pure hs
                  · exact Ok.pure hs
                · exact hq
              · intro s hs
                refine Ok.pure ⟨hs, uniform_removeFirst p hn, ?_⟩
                intro r h; cases h; exact ⟨hs, uniform_removeFirst p hn⟩
            · have hq' : Uniform n (queue ++ [p]) := uniform_append hq (uniform_single hP)
              refine Ok.pure ⟨hq', uniform_removeFirst p hn, ?_⟩
              intro r h; cases h; exact ⟨hq', uniform_removeFirst p hn⟩
    · exact Ok.pure ⟨hq, hn, hnone⟩
  · rintro ⟨r, queue, new, i, fuel⟩ ⟨hq, hn, hr⟩
    simp only []
    cases r with
    | none => exact Ok.pure ⟨hq, hn⟩
    | some r => exact Ok.pure (hr r rfl)

/-! ### `_get_queue` -/

/-- the loop state of the `while` of `getQueue`: (early return value, new, queue, fuel) -/
abbrev GQState := Option (Option (List PS)) × List PS × List PS × Nat

def GQInv (n : Nat) (s : GQState) : Prop :=
  Uniform n s.2.1 ∧ Uniform n s.2.2.1 ∧ ∀ x, s.1 = some x → x = none

theorem getQueue_ok {n : Nat} {gens : List PS} (hg : Uniform n gens) :
    Ok (fun r => ∀ q, r = some q → Uniform n q) (getQueue gens) := by
  unfold getQueue
  simp only []
  have hs := uniform_sortPS hg
  refine Ok.bind (getMaxConnected_ok hs) ?_
  intro r hr
  cases r with
  | none => exact Ok.pure (by intro q h; cases h)
  | some r =>
    obtain ⟨ps, acs⟩ := r
    obtain ⟨hps, hacs⟩ := hr ps acs rfl
    simp only []
    refine Ok.bind (P := fun s : List PS × List PS => Uniform n s.1 ∧ Uniform n s.2) ?_ ?_
    · apply Ok.forIn_list (fun s : List PS × List PS => Uniform n s.1 ∧ Uniform n s.2)
      · intro ac hac s hs
        split
        · exact Ok.pure ⟨uniform_removeFirst ac hs.1, uniform_append hs.2 (uniform_single (hacs ac hac))⟩
        · exact Ok.pure ⟨uniform_removeFirst ac hs.1, hs.2⟩
      · exact ⟨uniform_removeFirst ps hs, uniform_single hps⟩
    · rintro ⟨new, queue⟩ ⟨hn, hq⟩
      simp only [] at hn hq ⊢
      refine Ok.bind (P := GQInv n) ?_ ?_
      · refine Ok.loop (GQInv n) (fun s => s.2.2.2) _ ?_ _ _ (Nat.lt_succ_self _)
          ⟨hn, hq, by intro x h; cases h⟩
        rintro ⟨r, new, queue, fuel⟩ ⟨hn, hq, _⟩
        simp only [] at hn hq ⊢
        have hnone : ∀ x : Option (List PS), (none : Option (Option (List PS))) = some x → x = none := by
          intro x h; cases h
        have hsome : ∀ x : Option (List PS), some (none : Option (List PS)) = some x → x = none := by
          intro x h; cases h; rfl
        split
        · split
          · exact Ok.pure ⟨hn, hq, hsome⟩
          · next hf =>
            have hfuel : fuel - 1 < fuel := by
              have : fuel ≠ 0 := by simpa using hf
              omega
            refine Ok.bind (appendToQueue_ok hq hn) ?_
            rintro ⟨q', n'⟩ ⟨hq', hn'⟩
            simp only [] at hq' hn' ⊢
            split
            · exact Ok.pure ⟨hn, hq, hsome⟩
            · exact Ok.pure ⟨⟨hn', hq', hnone⟩, hfuel⟩
        · exact Ok.pure ⟨hn, hq, hnone⟩
      · rintro ⟨r, new, queue, fuel⟩ ⟨hn, hq, hr⟩
        simp only [] at hn hq hr ⊢
        cases r with
        | none => exact Ok.pure (by intro q h; cases h; exact hq)
        | some r =>
          cases hr r rfl
          exact Ok.pure (by intro q h; cases h)

/-! ### `build` -/

/-- **`build` never raises on synchronised strings of one length** -/
theorem build_total {n : Nat} {sub : List PS} (h : Uniform n sub) : ∃ r, Morph.build sub = .ok r := by
  unfold Morph.build
  split
  · exact ⟨_, rfl⟩
  · obtain ⟨q, hq, _⟩ := getQueue_ok h
    rw [hq]
    cases q <;> exact ⟨_, rfl⟩

end C10Total
end PauLie
