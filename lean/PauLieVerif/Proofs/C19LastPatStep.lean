/-
Helpers for property C19, part 30c: closed forms with site-periodic symmetry strings - the induction step of the
peeling (last FOUR sites peeled, windows from the chain on five sites) and the resulting closure theorem `clo_pat`.

 * `goodP`: a target that does not end in a non-zero block of the span is reached by the peeling: the state of its tail
   is one of the states for which the kernel check `chkP` (one per phase) succeeded.
 * a target `x = r ++ s|_p` ending in a block of a non-zero member `s` of the span cannot be reached with a fixed tail
   (its two summands would commute with the block).  `excG`: let `i` be the first site where `x` differs from `s`, by the
   letter `d`; `y` = a letter `u` at site `i` and a block `p'` on the last four sites, chosen (`chP`, by search, checked
   for all phases by kernel evaluation: `chkCh`) so that `ω(u, d) = 1`, `y` commutes with `A`, `B`, `qW y = 1`, and `p'`
   is not a block of the span.  Then `ω(x, y) = 1`, and `y`, `x + y` are targets that do not end in a block of the span:
   `x` is their commutator (`excP`).
Core Lean only.
-/
import PauLieVerif.Proofs.C19LastPatLemmas

namespace PauLie
namespace C19
open Closure Graph C01Star C03

/-- `u` at the first site where `x` differs from `s`, the block `p'` at the last four sites -/
def excG (s : Lt) (ch : Nat → Nat → Bool → Bool → (Bool × Bool) × V) : Nat → V → V
  | i, a :: b :: t =>
    if a = (s i).1 ∧ b = (s i).2 then false :: false :: excG s ch (i + 1) t
    else (ch i (i + 1 + (t.length / 2 - 4)) (a != (s i).1) (b != (s i).2)).1.1 ::
      (ch i (i + 1 + (t.length / 2 - 4)) (a != (s i).1) (b != (s i).2)).1.2 ::
      (zeroV (t.length - 8) ++ (ch i (i + 1 + (t.length / 2 - 4)) (a != (s i).1) (b != (s i).2)).2)
  | _, t => t

theorem condP_iff {A B w : Lt} {i m : Nat} {d1 d2 : Bool} {c : (Bool × Bool) × V} (h : condP A B w i m d1 d2 c = true) :
    ((c.1.1 && d2) != (c.1.2 && d1)) = true ∧ c.2.length = 8 ∧ omP A m c.2 = omP A i [c.1.1, c.1.2] ∧
    omP B m c.2 = omP B i [c.1.1, c.1.2] ∧ (qW w m c.2 != qW w i [c.1.1, c.1.2]) = true ∧
    ∀ c1 c2, isP (spn A B c1 c2) m c.2 = false := by
  simp only [condP, Bool.and_eq_true, beq_iff_eq, Bool.not_eq_true'] at h
  obtain ⟨⟨⟨⟨⟨⟨⟨⟨h1, h2⟩, h3⟩, h4⟩, h5⟩, h6⟩, h7⟩, h8⟩, h9⟩ := h
  refine ⟨h1, h2, h3, h4, h5, ?_⟩
  intro c1 c2; cases c1 <;> cases c2 <;> assumption

theorem excG_spec (A B w : Lt) (c1 c2 : Bool) (ch : Nat → Nat → Bool → Bool → (Bool × Bool) × V)
    (hc : ∀ i m d1 d2, (d1 || d2) = true → condP A B w i m d1 d2 (ch i m d1 d2) = true) :
    ∀ (x : V) (i M : Nat), x.length = 2 * M → 5 ≤ M →
    isP (spn A B c1 c2) (i + (M - 4)) (x.drop (2 * (M - 4))) = true → isP (spn A B c1 c2) i x = false →
    (excG (spn A B c1 c2) ch i x).length = 2 * M ∧
    (∃ j d1 d2, (d1 || d2) = true ∧ (excG (spn A B c1 c2) ch i x).drop (2 * (M - 4)) = (ch j (i + (M - 4)) d1 d2).2) ∧
    omega (excG (spn A B c1 c2) ch i x) x = true ∧ omP A i (excG (spn A B c1 c2) ch i x) = false ∧
    omP B i (excG (spn A B c1 c2) ch i x) = false ∧ qW w i (excG (spn A B c1 c2) ch i x) = true
  | [], _, M, hx, hM, _, _ => by simp at hx; omega
  | [_], _, M, hx, _, _, _ => by simp at hx; omega
  | a :: b :: t, i, M, hx, hM, hd, hl => by
    have lt : t.length = 2 * (M - 1) := by simp at hx; omega
    by_cases hab : a = (spn A B c1 c2 i).1 ∧ b = (spn A B c1 c2 i).2
    · -- the first site carries the letter of `s`: recurse
      have hlt : isP (spn A B c1 c2) (i + 1) t = false := by
        simpa [isP, hab.1, hab.2] using hl
      have hd' : isP (spn A B c1 c2) (i + 1 + (M - 1 - 4)) (t.drop (2 * (M - 1 - 4))) = true := by
        rw [show 2 * (M - 4) = 2 * (M - 1 - 4) + 1 + 1 by omega] at hd
        rw [show i + 1 + (M - 1 - 4) = i + (M - 4) by omega]
        simpa using hd
      have hM' : 5 ≤ M - 1 := by
        by_cases h5 : M = 5
        · subst h5
          simp at hd'
          rw [hd'] at hlt
          cases hlt
        · omega
      obtain ⟨h1, ⟨j, d1, d2, hdd, h2⟩, h3, h4, h5, h6⟩ := excG_spec A B w c1 c2 ch hc t (i + 1) (M - 1) lt hM' hd' hlt
      simp only [excG, hab, and_self, if_true]
      refine ⟨by simp [h1]; omega, ⟨j, d1, d2, hdd, ?_⟩, ?_, ?_, ?_, ?_⟩
      · rw [show 2 * (M - 4) = 2 * (M - 1 - 4) + 1 + 1 by omega, show i + (M - 4) = i + 1 + (M - 1 - 4) by omega]
        simpa using h2
      · simp [omega, h3]
      · simp [omP, h4]
      · simp [omP, h5]
      · simp only [qW, qY, omP] at h6 ⊢
        simpa using h6
    · -- the first site differs
      have hm : i + 1 + (t.length / 2 - 4) = i + (M - 4) := by rw [lt]; omega
      have hdd : ((a != (spn A B c1 c2 i).1) || (b != (spn A B c1 c2 i).2)) = true := by
        revert hab
        cases a <;> cases b <;> cases (spn A B c1 c2 i).1 <;> cases (spn A B c1 c2 i).2 <;> simp
      obtain ⟨k1, k2, k3, k4, k5, k6⟩ := condP_iff (hc i (i + (M - 4)) _ _ hdd)
      simp only [excG, hab, if_false, hm]
      rcases hch : ch i (i + (M - 4)) (a != (spn A B c1 c2 i).1) (b != (spn A B c1 c2 i).2) with ⟨⟨u1, u2⟩, p'⟩
      rw [hch] at k1 k2 k3 k4 k5 k6
      simp only at k1 k2 k3 k4 k5 k6 ⊢
      rw [show t.length - 8 = 2 * (M - 5) by omega]
      have hz : (zeroV (2 * (M - 5))).length = 2 * (M - 5) := by simp [zeroV]
      -- the last block of `x`
      obtain ⟨t0, ht0, blk, hblk, rfl⟩ : ∃ t0 : V, t0.length = 2 * (M - 5) ∧ ∃ blk : V, blk.length = 8 ∧ t = t0 ++ blk :=
        ⟨t.take (2 * (M - 5)), by simp [lt]; omega, t.drop (2 * (M - 5)), by simp [lt]; omega,
          (List.take_append_drop _ _).symm⟩
      have hblkP : isP (spn A B c1 c2) (i + (M - 4)) blk = true := by
        rw [show 2 * (M - 4) = 2 * (M - 5) + 1 + 1 by omega] at hd
        simp only [List.drop_succ_cons] at hd
        rwa [List.drop_append_of_le_length (by omega), ← ht0, List.drop_length, List.nil_append] at hd
      refine ⟨by simp [zeroV, k2]; omega, ⟨i, _, _, hdd, ?_⟩, ?_, ?_, ?_, ?_⟩
      · rw [show 2 * (M - 4) = 2 * (M - 5) + 1 + 1 by omega, hch]
        simp only [List.drop_succ_cons]
        rw [List.drop_append_of_le_length (by rw [hz]; omega)]
        simp only [zeroV, List.drop_replicate, Nat.sub_self, List.replicate_zero, List.nil_append]
      · simp only [omega]
        rw [omega_append _ _ _ _ (by rw [hz, ht0]) (by rw [hz]; omega), omega_zero_left,
          omega_isP _ (i + (M - 4)) p' blk (by rw [k2, hblk]) hblkP, omP_sp, k3, k4]
        simp only [omP, spn] at k1 ⊢
        revert k1 hab
        simp only [spn]
        cases a <;> cases b <;> cases u1 <;> cases u2 <;> cases c1 <;> cases c2 <;> cases (A i).1 <;> cases (A i).2 <;>
          cases (B i).1 <;> cases (B i).2 <;> simp
      · simp only [omP]
        rw [omP_append A (M - 5) (i + 1) _ _ hz, zeroV, omP_replicate, show i + 1 + (M - 5) = i + (M - 4) by omega, k3]
        simp [omP]
      · simp only [omP]
        rw [omP_append B (M - 5) (i + 1) _ _ hz, zeroV, omP_replicate, show i + 1 + (M - 5) = i + (M - 4) by omega, k4]
        simp [omP]
      · have e : u1 :: u2 :: (zeroV (2 * (M - 5)) ++ p') = [u1, u2] ++ (zeroV (2 * (M - 5)) ++ p') := rfl
        rw [e, qW_append w 1 i _ _ rfl, qW_append w (M - 5) (i + 1) _ _ hz, zeroV, qW_replicate,
          show i + 1 + (M - 5) = i + (M - 4) by omega]
        revert k5
        cases qW w i [u1, u2] <;> cases qW w (i + (M - 4)) p' <;> simp

/-! ### the induction step -/

section Step
variable {A B w : Lt} {P : Nat}

theorem length_wendP : ∀ g ∈ wendP A B w, g.length = 2 * 4 := fun _ hg => mem_allV.1 (List.mem_filter.1 hg).1

/-- targets not ending in a non-zero block of the span are reached by the peeling -/
theorem goodP (hA : PerP P A) (hB : PerP P B) (hw : PerP P w) (hP : 0 < P) (hne : NoId A B)
    (hchk : ∀ ph, ph < P → chkP A B w ph) (N : Nat) (x : V) (hN : 6 ≤ N) (hx : x.length = 2 * N)
    (hT : TP A B w 0 x = true)
    (hp : ∀ c1 c2, (c1 || c2) = true → isP (spn A B c1 c2) (N - 4) (x.drop (2 * (N - 4))) = false) :
    Good 4 5 (TP A B w 0) (wendP A B w) N x := by
  have hr : (x.take (2 * (N - 4))).length = 2 * (N - 4) := by simp [hx]
  generalize hrr : x.take (2 * (N - 4)) = r at *
  have h1 : ∀ b, TP A B w 0 (r ++ b) = trP A B w ((N - 4) % P) (omP A 0 r) (omP B 0 r) (qW w 0 r)
      (isP (spn A B false false) 0 r) (isP (spn A B true false) 0 r) (isP (spn A B false true) 0 r)
      (isP (spn A B true true) 0 r) b := by
    intro b; rw [TP_append A B w (N - 4) r b hr, trP_mod hA hB hw]
  have h0 : ∀ b, TP A B w 0 (zeroV (2 * (N - 4)) ++ b) = t0P A B w ((N - 4) % P) b := by
    intro b
    rw [show N - 4 = (N - 5) + 1 by omega, TP_zero_append hne, t0P, trP_mod hA hB hw, ← t0P]
  have hv := v7_tailP hne r (by rw [hr]; omega)
  have hchk' := hchk ((N - 4) % P) (Nat.mod_lt _ hP) (omP A 0 r) (omP B 0 r) (qW w 0 r) _ _ _ _ hv
  subst hrr
  refine good_of_chkN length_wendP (by omega) hx h1 h0 hchk' ?_
  simp only [tpP, Bool.and_eq_true, Bool.not_eq_true']
  have e : ∀ c1 c2, isP (spn A B c1 c2) ((N - 4) % P) (x.drop (2 * (N - 4))) =
      isP (spn A B c1 c2) (N - 4) (x.drop (2 * (N - 4))) :=
    fun c1 c2 => (isP_congr _ (N - 4) ((N - 4) % P) ((hA.sp hB c1 c2).shift (N - 4))).symm
  refine ⟨⟨⟨?_, by rw [e]; exact hp _ _ rfl⟩, by rw [e]; exact hp _ _ rfl⟩, by rw [e]; exact hp _ _ rfl⟩
  rw [← h1, List.take_append_drop, hT]

/-- a target ending in a non-zero block of the span is the commutator of two targets that do not -/
theorem excP (hA : PerP P A) (hB : PerP P B) (hw : PerP P w) (hP : 0 < P) (hne : NoId A B)
    (hchk : ∀ ph, ph < P → chkP A B w ph)
    (ch : Nat → Nat → Bool → Bool → (Bool × Bool) × V)
    (hc : ∀ i m d1 d2, (d1 || d2) = true → condP A B w i m d1 d2 (ch i m d1 d2) = true)
    (c1 c2 : Bool) (N : Nat) (x : V) (hN : 6 ≤ N) (hx : x.length = 2 * N)
    (hT : TP A B w 0 x = true) (hp : isP (spn A B c1 c2) (N - 4) (x.drop (2 * (N - 4))) = true) :
    Gen (Good 4 5 (TP A B w 0) (wendP A B w) N) x := by
  have hT' := (TP_iff A B w 0 x).1 hT
  obtain ⟨ly, ⟨j, d1, d2, hdd, hd⟩, ho, hyA, hyB, hyQ⟩ :=
    excG_spec A B w c1 c2 ch hc x 0 N hx (by omega) (by rw [Nat.zero_add]; exact hp) (hT'.2.2.2 c1 c2)
  generalize excG (spn A B c1 c2) ch 0 x = y at *
  rw [Nat.zero_add] at hd
  obtain ⟨_, k2, _, _, _, k6⟩ := condP_iff (hc j (N - 4) d1 d2 hdd)
  have hxy : x.length = y.length := hx.trans ly.symm
  -- the last block of `y` is not a block of the span
  have hyblk : ∀ e1 e2, isP (spn A B e1 e2) (N - 4) (y.drop (2 * (N - 4))) = false := by
    intro e1 e2; rw [hd]; exact k6 e1 e2
  have hy : TP A B w 0 y = true := by
    rw [TP_iff]
    refine ⟨hyA, hyB, hyQ, ?_⟩
    intro e1 e2
    cases hz : isP (spn A B e1 e2) 0 y
    · rfl
    · have := isP_drop _ (N - 4) 0 y hz
      rw [Nat.zero_add, hyblk] at this
      cases this
  have ho' : omega x y = true := by rw [omega_comm]; exact ho
  have hxy2 : TP A B w 0 (add x y) = true := TP_closed A B w N x y hx ly hT hy ho'
  -- the last block of `x + y` is not a block of the span
  have hxyblk : ∀ e1 e2, isP (spn A B e1 e2) (N - 4) ((add x y).drop (2 * (N - 4))) = false := by
    intro e1 e2
    cases hz : isP (spn A B e1 e2) (N - 4) ((add x y).drop (2 * (N - 4)))
    · rfl
    · rw [drop_add] at hz
      have hl : (x.drop (2 * (N - 4))).length = (add (x.drop (2 * (N - 4))) (y.drop (2 * (N - 4)))).length := by
        rw [length_add_eq (m := 8) (by simp [hx]; omega) (by simp [ly]; omega)]; simp [hx]; omega
      have := isP_add _ _ (N - 4) _ _ hl hp hz
      rw [lAdd_sp, add_add_cancel_left _ _ (by simp [hx, ly])] at this
      rw [hyblk] at this
      cases this
  have e : add y (add x y) = x := by rw [add_comm x y, add_add_cancel_left y x hxy.symm]
  have ho2 : omega y (add x y) = true := by
    rw [omega_add_right y x y hxy, omega_self, ho]; rfl
  have g1 := goodP hA hB hw hP hne hchk N y hN ly hy (fun e1 e2 _ => hyblk e1 e2)
  have g2 := goodP hA hB hw hP hne hchk N (add x y) hN (by rw [length_add_eq hx ly]) hxy2 (fun e1 e2 _ => hxyblk e1 e2)
  have := Gen.step (Gen.base g1) (Gen.base g2) ho2
  rwa [e] at this

theorem stepP (hA : PerP P A) (hB : PerP P B) (hw : PerP P w) (hP : 0 < P) (hne : NoId A B)
    (hchk : ∀ ph, ph < P → chkP A B w ph)
    (ch : Nat → Nat → Bool → Bool → (Bool × Bool) × V)
    (hc : ∀ i m d1 d2, (d1 || d2) = true → condP A B w i m d1 d2 (ch i m d1 d2) = true)
    (N : Nat) (x : V) (hN : 6 ≤ N) (hx : x.length = 2 * N) (hT : TP A B w 0 x = true) :
    Gen (Good 4 5 (TP A B w 0) (wendP A B w) N) x := by
  rcases Bool.eq_false_or_eq_true (isP (spn A B true false) (N - 4) (x.drop (2 * (N - 4)))) with h1 | h1
  · exact excP hA hB hw hP hne hchk ch hc true false N x hN hx hT h1
  rcases Bool.eq_false_or_eq_true (isP (spn A B false true) (N - 4) (x.drop (2 * (N - 4)))) with h2 | h2
  · exact excP hA hB hw hP hne hchk ch hc false true N x hN hx hT h2
  rcases Bool.eq_false_or_eq_true (isP (spn A B true true) (N - 4) (x.drop (2 * (N - 4)))) with h3 | h3
  · exact excP hA hB hw hP hne hchk ch hc true true N x hN hx hT h3
  refine Gen.base (goodP hA hB hw hP hne hchk N x hN hx hT ?_)
  intro c1 c2 hcc
  revert hcc; cases c1 <;> cases c2 <;> simp [h1, h2, h3]

/-- the choice function at arbitrary positions, from the table on one period -/
theorem condP_mod (hA : PerP P A) (hB : PerP P B) (hw : PerP P w) (i m : Nat) (d1 d2 : Bool) (c : (Bool × Bool) × V) :
    condP A B w i m d1 d2 c = condP A B w (i % P) (m % P) d1 d2 c := by
  simp only [condP, qW, omP_congr c.2 m (m % P) (hA.shift m), omP_congr c.2 m (m % P) (hB.shift m),
    omP_congr c.2 m (m % P) (hw.shift m), isP_congr c.2 m (m % P) ((hA.sp hB _ _).shift m),
    omP_congr [c.1.1, c.1.2] i (i % P) (hA.shift i), omP_congr [c.1.1, c.1.2] i (i % P) (hB.shift i),
    omP_congr [c.1.1, c.1.2] i (i % P) (hw.shift i)]

theorem cond_of_chkCh (hA : PerP P A) (hB : PerP P B) (hw : PerP P w) (hP : 0 < P) (h : chkCh A B w P = true)
    (i m : Nat) (d1 d2 : Bool) (hd : (d1 || d2) = true) :
    condP A B w i m d1 d2 (chP A B w (i % P) (m % P) d1 d2) = true := by
  rw [condP_mod hA hB hw]
  simp only [chkCh, List.all_eq_true, List.mem_range, Bool.and_eq_true] at h
  have := h (i % P) (Nat.mod_lt _ hP) (m % P) (Nat.mod_lt _ hP)
  revert hd; cases d1 <;> cases d2 <;> simp [this.1.1, this.1.2, this.2]

/-- **closure of the translates = the closed form**, for all n ≥ 5 -/
theorem clo_pat {gs : List V} (hg : ∀ g ∈ gs, g.length = 4) (hA : PerP P A) (hB : PerP P B) (hw : PerP P w) (hP : 0 < P)
    (hne : NoId A B) (hchk : ∀ ph, ph < P → chkP A B w ph) (hch : chkCh A B w P = true)
    (hbase : ∀ x, x.length = 2 * 5 → TP A B w 0 x = true → Clo (klocalV 5 gs) x)
    (hgen : ∀ n, 5 ≤ n → ∀ g ∈ klocalV n gs, TP A B w 0 g = true)
    {n : Nat} (hn : 5 ≤ n) (x : V) : Clo (klocalV n gs) x ↔ x.length = 2 * n ∧ TP A B w 0 x = true := by
  refine clo_iff_of_peel hg (k := 4) (w0 := 5) (T := TP A B w 0) (Wend := wendP A B w) (by omega) (by omega) ?_ hbase
    (fun N x hN hx hT => stepP hA hB hw hP hne hchk (fun i m => chP A B w (i % P) (m % P))
      (fun i m d1 d2 hd => cond_of_chkCh hA hB hw hP hch i m d1 d2 hd) N x (by omega) hx hT) hgen (TP_closed A B w) hn x
  intro g hgm
  refine ⟨length_wendP g hgm, hbase _ (by simp [zeroV, length_wendP g hgm]) ?_⟩
  have := TP_zero_append (w := w) hne 0 g
  simp only [Nat.zero_add, Nat.mul_one] at this
  rw [show 2 * (5 - 4) = 2 by rfl, this]
  exact (List.mem_filter.1 hgm).2

end Step

end C19
end PauLie
