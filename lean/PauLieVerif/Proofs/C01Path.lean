/-
C01, second half of the classification theorem, case "path" (type A with one single leg): for ANY
realisation of the path P_m by linearly independent strings `v 0 … v (m-1)` (consecutive ones
anticommute, all others commute) the commutator closure is exactly the set of intervals
`v a + … + v (b-1)`, `a < b ≤ m`; there are m(m+1)/2 = dim so(m+1) of them.

This generalises `C19.clo_a1` (the concrete strings `I^k X Y I^(n-2-k)`) to every independent
realisation.  The family is indexed by a function `v : Nat → V`; `Proofs/C01PathList.lean` gives the
list form.  With the prefix sums `pre a = v 0 + … + v (a-1)` the intervals are `pre a + pre b`,
and `pre 1, …, pre m` anticommute pairwise (Jordan–Wigner), `pre 0 = 0`.  Core Lean only.
-/
import PauLieVerif.Proofs.C01Span
import PauLieVerif.Proofs.C19Path

namespace PauLie
namespace C01Star
open Closure

/-- `Σ_{i<k, f i} v i` -/
def fsum (L : Nat) (v : Nat → V) (f : Nat → Bool) : Nat → V
  | 0 => zeroV L
  | k + 1 => if f k then add (fsum L v f k) (v k) else fsum L v f k

/-- linear independence of `v 0 … v (m-1)` -/
def IndepF (L : Nat) (v : Nat → V) (m : Nat) : Prop :=
  ∀ f : Nat → Bool, fsum L v f m = zeroV L → ∀ i, i < m → f i = false

theorem length_fsum {L : Nat} {v : Nat → V} (f : Nat → Bool) : ∀ (k : Nat), (∀ i, i < k → (v i).length = L) →
    (fsum L v f k).length = L
  | 0, _ => by simp [fsum]
  | k + 1, h => by
    have ih := length_fsum f k (fun i hi => h i (by omega))
    simp only [fsum]
    split
    · exact length_add_eq ih (h k (by omega))
    · exact ih

theorem fsum_xor {L : Nat} {v : Nat → V} (f g : Nat → Bool) : ∀ (k : Nat), (∀ i, i < k → (v i).length = L) →
    fsum L v (fun i => f i != g i) k = add (fsum L v f k) (fsum L v g k)
  | 0, _ => by simp [fsum, add_self_of_length]
  | k + 1, h => by
    have hl : ∀ i, i < k → (v i).length = L := fun i hi => h i (by omega)
    have ih := fsum_xor f g k hl
    have lf := length_fsum (L := L) (v := v) f k hl
    have lg := length_fsum (L := L) (v := v) g k hl
    have lv := h k (by omega)
    simp only [fsum, ih]
    cases f k <;> cases g k <;> simp only [bne_self_eq_false, Bool.true_bne, Bool.false_bne, Bool.not_false,
      if_true, if_false, Bool.false_eq_true]
    · rw [add_assoc]
    · rw [add_assoc, add_assoc, add_comm (v k) (fsum L v g k)]
    · rw [add_comm (fsum L v g k) (v k), add_assoc, ← add_assoc (v k), add_self_of_length lv, add_zero_left L _ lg]

/-- the hypotheses: a path of independent strings of length `L` -/
structure PathF (L : Nat) (v : Nat → V) (m : Nat) : Prop where
  len : ∀ i, i < m → (v i).length = L
  om : ∀ i j, i < m → j < m → omega (v i) (v j) = decide (i + 1 = j ∨ j + 1 = i)
  indep : IndepF L v m

/-- prefix sums -/
def pre (L : Nat) (v : Nat → V) : Nat → V
  | 0 => zeroV L
  | a + 1 => add (pre L v a) (v a)

/-- the interval `v a + … + v (b-1)` -/
def iv (L : Nat) (v : Nat → V) (a b : Nat) : V := add (pre L v a) (pre L v b)

theorem iv_comm (L : Nat) (v : Nat → V) (a b : Nat) : iv L v a b = iv L v b a := add_comm _ _

namespace PathF
variable {L : Nat} {v : Nat → V} {m : Nat}

theorem length_pre (h : PathF L v m) : ∀ a, a ≤ m → (pre L v a).length = L
  | 0, _ => by simp [pre]
  | a + 1, ha => length_add_eq (length_pre h a (by omega)) (h.len a (by omega))

theorem length_iv (h : PathF L v m) {a b : Nat} (ha : a ≤ m) (hb : b ≤ m) : (iv L v a b).length = L :=
  length_add_eq (h.length_pre a ha) (h.length_pre b hb)

theorem omega_v_pre (h : PathF L v m) {a : Nat} (ha : a < m) : ∀ b, b ≤ m →
    omega (v a) (pre L v b) = (decide (1 ≤ a ∧ a ≤ b) != decide (a + 2 ≤ b))
  | 0, _ => by
    simp only [pre]
    rw [omega_zero_right]
    bool_omega
  | b + 1, hb => by
    have ih := omega_v_pre h ha b (by omega)
    simp only [pre]
    rw [omega_add_right _ _ _ ((h.length_pre b (by omega)).trans (h.len b (by omega)).symm), ih,
      h.om a b ha (by omega)]
    bool_omega

/-- Jordan–Wigner: the non-empty prefix sums anticommute pairwise -/
theorem omega_pre_pre (h : PathF L v m) : ∀ a, a ≤ m → ∀ b, b ≤ m →
    omega (pre L v a) (pre L v b) = decide (a ≠ b ∧ a ≠ 0 ∧ b ≠ 0)
  | 0, _, b, _ => by simp [pre, omega_zero_left]
  | a + 1, ha, b, hb => by
    have ih := omega_pre_pre h a (by omega) b hb
    simp only [pre]
    rw [omega_add_left _ _ _ ((h.length_pre a (by omega)).trans (h.len a (by omega)).symm), ih,
      h.omega_v_pre (by omega) b hb]
    bool_omega

/-- anticommutation of two intervals through their end points -/
theorem omega_iv (h : PathF L v m) {a b c d : Nat} (ha : a ≤ m) (hb : b ≤ m) (hc : c ≤ m) (hd : d ≤ m) :
    omega (iv L v a b) (iv L v c d) =
      ((decide (a ≠ c ∧ a ≠ 0 ∧ c ≠ 0) != decide (a ≠ d ∧ a ≠ 0 ∧ d ≠ 0)) !=
       (decide (b ≠ c ∧ b ≠ 0 ∧ c ≠ 0) != decide (b ≠ d ∧ b ≠ 0 ∧ d ≠ 0))) := by
  unfold iv
  have la := h.length_pre a ha
  have lb := h.length_pre b hb
  have lc := h.length_pre c hc
  have ld := h.length_pre d hd
  rw [omega_add_left _ _ _ (la.trans lb.symm), omega_add_right _ _ _ (lc.trans ld.symm),
    omega_add_right _ _ _ (lc.trans ld.symm), h.omega_pre_pre a ha c hc, h.omega_pre_pre a ha d hd,
    h.omega_pre_pre b hb c hc, h.omega_pre_pre b hb d hd]

theorem iv_share (h : PathF L v m) {p q r : Nat} (hp : p ≤ m) (hr : r ≤ m) :
    add (iv L v p q) (iv L v p r) = iv L v q r := by
  unfold iv
  rw [add_comm (pre L v p) (pre L v q), add_assoc,
    add_add_cancel_left _ _ ((h.length_pre p hp).trans (h.length_pre r hr).symm)]

/-- a generator is the interval of length one -/
theorem iv_succ (h : PathF L v m) {k : Nat} (hk : k < m) : iv L v k (k + 1) = v k := by
  unfold iv
  simp only [pre]
  rw [add_add_cancel_left _ _ ((h.length_pre k (by omega)).trans (h.len k hk).symm)]

/-- two anticommuting intervals share exactly one end point; their product is the interval on the
two other end points -/
theorem iv_step (h : PathF L v m) {a b c d : Nat} (hab : a < b) (hb : b ≤ m) (hcd : c < d) (hd : d ≤ m)
    (ho : omega (iv L v a b) (iv L v c d) = true) :
    ∃ p q, p < q ∧ q ≤ m ∧ add (iv L v a b) (iv L v c d) = iv L v p q := by
  rw [h.omega_iv (by omega) hb (by omega) hd] at ho
  bool_prop at ho
  by_cases h1 : a = c
  · subst h1
    by_cases h2 : b = d
    · subst h2
      omega
    · rcases Nat.lt_or_gt_of_ne h2 with hlt | hlt
      · exact ⟨b, d, hlt, hd, h.iv_share (by omega) hd⟩
      · exact ⟨d, b, hlt, hb, by rw [iv_comm L v d b]; exact h.iv_share (by omega) hd⟩
  · by_cases h2 : b = d
    · subst h2
      rcases Nat.lt_or_gt_of_ne h1 with hlt | hlt
      · exact ⟨a, c, hlt, by omega, by
          rw [iv_comm L v a b, iv_comm L v c b]; exact h.iv_share hb (by omega)⟩
      · exact ⟨c, a, hlt, by omega, by
          rw [iv_comm L v a b, iv_comm L v c b, iv_comm L v c a]; exact h.iv_share hb (by omega)⟩
    · by_cases h3 : a = d
      · subst h3
        exact ⟨c, b, by omega, hb, by
          rw [iv_comm L v c a, iv_comm L v c b]; exact h.iv_share (by omega) (by omega)⟩
      · by_cases h4 : b = c
        · subst h4
          exact ⟨a, d, by omega, hd, by rw [iv_comm L v a b]; exact h.iv_share hb hd⟩
        · omega

/-- extending an interval by the next generator -/
theorem iv_chain (h : PathF L v m) {a b : Nat} (hab : a < b) (hb : b < m) :
    omega (iv L v a b) (v b) = true ∧ add (iv L v a b) (v b) = iv L v a (b + 1) := by
  rw [← h.iv_succ hb]
  constructor
  · rw [h.omega_iv (by omega) (by omega) (by omega) (by omega)]
    bool_omega
  · rw [iv_comm L v a b]; exact h.iv_share (by omega) (by omega)

/-! ### the closure -/

/-- the generators as a list -/
def gensF (v : Nat → V) (m : Nat) : List V := (List.range m).map v

theorem mem_gensF {v : Nat → V} {m : Nat} {x : V} : x ∈ gensF v m ↔ ∃ k, k < m ∧ x = v k := by
  simp only [gensF, List.mem_map, List.mem_range]
  constructor
  · rintro ⟨k, hk, rfl⟩; exact ⟨k, hk, rfl⟩
  · rintro ⟨k, hk, rfl⟩; exact ⟨k, hk, rfl⟩

/-- **the closure of a path is the set of intervals** -/
theorem clo_path (h : PathF L v m) (x : V) :
    Clo (gensF v m) x ↔ ∃ a b, a < b ∧ b ≤ m ∧ x = iv L v a b := by
  constructor
  · intro hx
    induction hx with
    | base hg =>
      obtain ⟨k, hk, rfl⟩ := mem_gensF.1 hg
      exact ⟨k, k + 1, by omega, hk, (h.iv_succ hk).symm⟩
    | step _ _ ho ihx ihy =>
      obtain ⟨a, b, hab, hb, rfl⟩ := ihx
      obtain ⟨c, d, hcd, hd, rfl⟩ := ihy
      exact h.iv_step hab hb hcd hd ho
  · rintro ⟨a, b, hab, hb, rfl⟩
    obtain ⟨d, rfl⟩ : ∃ d, b = a + d + 1 := ⟨b - a - 1, by omega⟩
    clear hab
    induction d with
    | zero => rw [h.iv_succ hb]; exact Clo.base (mem_gensF.2 ⟨a, hb, rfl⟩)
    | succ d ih =>
      have hc := h.iv_chain (a := a) (b := a + d + 1) (by omega) (by omega)
      rw [show a + (d + 1) + 1 = a + d + 1 + 1 by omega, ← hc.2]
      exact Clo.step (ih (by omega)) (Clo.base (mem_gensF.2 ⟨a + d + 1, by omega, rfl⟩)) hc.1

/-! ### counting -/

theorem pre_eq_fsum (h : PathF L v m) (a : Nat) : ∀ k, fsum L v (fun i => decide (i < a)) k = pre L v (min a k)
  | 0 => by simp [fsum, pre]
  | k + 1 => by
    simp only [fsum, pre_eq_fsum h a k]
    by_cases hk : k < a
    · have e1 : min a k = k := by omega
      have e2 : min a (k + 1) = k + 1 := by omega
      simp only [hk, decide_true, if_true, e1, e2, pre]
    · have e1 : min a k = a := by omega
      have e2 : min a (k + 1) = a := by omega
      simp only [hk, decide_false, Bool.false_eq_true, if_false, e1, e2]

theorem iv_eq_fsum (h : PathF L v m) {a b : Nat} (ha : a ≤ m) (hb : b ≤ m) :
    iv L v a b = fsum L v (fun i => decide (i < a) != decide (i < b)) m := by
  rw [fsum_xor _ _ m h.len, h.pre_eq_fsum a m, h.pre_eq_fsum b m, Nat.min_eq_left ha, Nat.min_eq_left hb]
  rfl

/-- distinct end points give distinct intervals (independence) -/
theorem iv_inj (h : PathF L v m) {a b c d : Nat} (hab : a < b) (hb : b ≤ m) (hcd : c < d) (hd : d ≤ m)
    (e : iv L v a b = iv L v c d) : a = c ∧ b = d := by
  rw [h.iv_eq_fsum (by omega) hb, h.iv_eq_fsum (by omega) hd] at e
  have hz : fsum L v (fun i => (decide (i < a) != decide (i < b)) != (decide (i < c) != decide (i < d))) m
      = zeroV L := by
    rw [fsum_xor _ _ m h.len, e, add_self_of_length (length_fsum _ m h.len)]
  have key := h.indep _ hz
  have k1 := key a (by omega)
  have k2 := key c (by omega)
  bool_prop at k1
  bool_prop at k2
  have hac : a = c := by omega
  subst hac
  refine ⟨rfl, ?_⟩
  rcases Nat.lt_trichotomy b d with hlt | heq | hlt
  · have k3 := key b (by omega)
    bool_prop at k3
    omega
  · exact heq
  · have k3 := key d (by omega)
    bool_prop at k3
    omega

/-- the duplicate-free list of all intervals -/
def intervalsF (L : Nat) (v : Nat → V) (m : Nat) : List V := (C19.pairs (m + 1)).map (fun p => iv L v p.1 p.2)

theorem mem_intervalsF {x : V} : x ∈ intervalsF L v m ↔ ∃ a b, a < b ∧ b ≤ m ∧ x = iv L v a b := by
  simp only [intervalsF, List.mem_map, Prod.exists, C19.mem_pairs]
  constructor
  · rintro ⟨a, b, ⟨h1, h2⟩, rfl⟩; exact ⟨a, b, h1, by omega, rfl⟩
  · rintro ⟨a, b, h1, h2, rfl⟩; exact ⟨a, b, ⟨h1, by omega⟩, rfl⟩

theorem nodup_intervalsF (h : PathF L v m) : (intervalsF L v m).Nodup := by
  rw [intervalsF, List.Nodup, List.pairwise_map]
  refine List.Pairwise.imp_of_mem ?_ (C19.nodup_pairs (m + 1))
  intro p q hp hq hne heq
  obtain ⟨h1, h2⟩ := C19.mem_pairs.1 hp
  obtain ⟨h3, h4⟩ := C19.mem_pairs.1 hq
  obtain ⟨e1, e2⟩ := h.iv_inj h1 (by omega) h3 (by omega) heq
  exact hne (Prod.ext e1 e2)

theorem length_intervalsF : (intervalsF L v m).length = (m + 1) * m / 2 := by
  rw [intervalsF, List.length_map, C19.length_pairs]; rfl

theorem uniformF {n : Nat} (h : PathF (2 * n) v m) : Uniform n (gensF v m) := by
  intro g hg
  obtain ⟨k, hk, rfl⟩ := mem_gensF.1 hg
  exact h.len k hk

/-- **size of the closure of a path on m vertices: m(m+1)/2 = dim so(m+1)** -/
theorem card_clo {n : Nat} (h : PathF (2 * n) v m) :
    (closureList (gensF v m)).1.length = (m + 1) * m / 2 := by
  rw [← clo_card h.uniformF h.nodup_intervalsF (fun x => by rw [mem_intervalsF, h.clo_path]),
    length_intervalsF]

end PathF
end C01Star
end PauLie
