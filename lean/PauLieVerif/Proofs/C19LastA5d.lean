/-
Helpers for property C19, part 31d: family a5 - the choice for the exceptional targets, the base case of the peeling
on five sites and the chains on three and four sites (kernel evaluation).
-/
import PauLieVerif.Proofs.C19LastA5a
import PauLieVerif.Proofs.C19LastA9a

namespace PauLie
namespace C19
open Closure Graph C01Star C03

def gensA5 : List V := [vXY, vYZ]

theorem lenA5 : ∀ g ∈ gensA5, g.length = 4 := by simp [gensA5, vXY, vYZ]

theorem chA5 : chkCh a5A a5B a5W 3 = true := by decide +kernel

theorem base_a5 : ((allV 10).filter (TP a5A a5B a5W 0)).all (fun y => (closureList (klocalV 5 gensA5)).1.contains y) = true := by
  decide +kernel

theorem base_a5_3 : listChk gensA5 3 (TP a5A a5B a5W 0) = true := by decide +kernel
theorem base_a5_4 : listChk gensA5 4 (TP a5A a5B a5W 0) = true := by decide +kernel

end C19
end PauLie
