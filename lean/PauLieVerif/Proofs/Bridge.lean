/-
Bridge between the string-level operations of the model (`PS.commutesWith`, `PS.multiply`)
and the vector-level vocabulary of the closure theory (`Closure.omega`, `Closure.add` on
`PS.bits`), for synchronised (`PS.WF`) strings of equal length.
-/
import PauLieVerif.Proofs.C14Lemmas
import PauLieVerif.Spec.Clo

namespace PauLie
namespace Bridge
open C14

theorem add_eq_zipWith : ∀ (a b : List Bool), Closure.add a b = List.zipWith (fun x y => x != y) a b
  | [], _ => by simp [Closure.add]
  | _ :: _, [] => by simp [Closure.add]
  | x :: s, y :: t => by simp [Closure.add, add_eq_zipWith s t]

theorem omega_encode : ∀ (v w : List Letter), Closure.omega (encode v) (encode w) = wanti v w
  | [], _ => by simp [encode, Closure.omega, wanti]
  | _ :: _, [] => by simp [encode, Closure.omega, wanti]
  | a :: v, b :: w => by
    simp only [encode, Closure.omega, wanti, omega_encode v w, lanti]
    cases a <;> cases b <;> simp [Letter.code]

/-- on synchronised strings of equal length `commutes_with` is the negated symplectic form of the bits -/
theorem commutesWith_omega {p q : PS} (hp : p.WF) (hq : q.WF) (hl : p.len = q.len) :
    PS.commutesWith p q = .ok (!Closure.omega p.bits q.bits) := by
  obtain ⟨v, rfl, hv⟩ := exists_letters hp
  obtain ⟨w, rfl, hw⟩ := exists_letters hq
  rw [commutes_ofLetters (by rw [hv, hw, hl])]
  simp [PS.ofLetters, PS.ofBits, omega_encode]

/-- the bits of the product are the sum of the bits -/
theorem multiply_bits {p q r : PS} (h : PS.multiply p q = .ok r) :
    r.bits = Closure.add p.bits q.bits := by
  unfold PS.multiply PS.xorBits at h
  by_cases hl : p.bits.length = q.bits.length
  · simp [hl, bind, Except.bind, pure, Except.pure, PS.ofBits] at h
    rw [← h, add_eq_zipWith]
  · simp [hl, bind, Except.bind, pure, Except.pure, throw, throwThe, MonadExceptOf.throw] at h

end Bridge
end PauLie
