/-
Property C08, a certificate of NON-membership for strings inside the F2-span of the canonical vertices
(the part of the completeness half that can be certified per query): for linearly independent vertices
`v_1..v_k` (dual family `w_i`) the quadratic form `q(Σ c_i v_i) = Σ c_i + Σ_{i<j} c_i c_j ω(v_i,v_j)` has
polar form `ω` (`qform_xor`), is 1 on every vertex, hence 1 on the whole commutator closure
(`clo_mask`); the coordinates of `x` are `c_i = ω(w_i, x)` (`dual_mask`).  So `q(c(x)) = 0 ⇒ x ∉ Clo`.
-/
import PauLieVerif.Proofs.C08Member

namespace PauLie
namespace C08
open Closure Morph MorphG C02

def maskXor (c d : List Bool) : List Bool := List.zipWith (fun a b => a != b) c d

def Z (n : Nat) : List Bool := List.replicate (2 * n) false

theorem add_rep : ∀ (m : Nat) (x : V), x.length = m → add x (List.replicate m false) = x
  | 0, [], _ => by simp [add]
  | m + 1, a :: s, h => by
    rw [List.replicate_succ, add_cons, add_rep m s (by simpa using h)]; simp
  | 0, _ :: _, h => by simp at h
  | _ + 1, [], h => by simp at h

theorem omega_rep : ∀ (m : Nat) (x : V), omega x (List.replicate m false) = false
  | _, [] => by simp [omega]
  | _, [_] => by simp [omega]
  | 0, _ :: _ :: _ => by simp [omega]
  | 1, _ :: _ :: _ => by simp [omega, List.replicate_succ]
  | m + 2, a :: b :: s => by
    rw [List.replicate_succ, List.replicate_succ, omega, omega_rep m s]; simp

theorem add_Z {n : Nat} (x : V) (h : x.length = 2 * n) : add x (Z n) = x := add_rep _ x h
theorem omega_Z {n : Nat} (x : V) : omega x (Z n) = false := omega_rep _ x
theorem len_Z (n : Nat) : (Z n).length = 2 * n := by simp [Z]

theorem add4 {v A B : V} {m : Nat} (hv : v.length = m) (hA : A.length = m) (hB : B.length = m) :
    add (add v A) (add v B) = add A B := by
  rw [add_assoc, add_comm A (add v B), add_assoc, add_comm B A]
  exact add_add_cancel_left v (add A B) (by rw [hv, length_add_eq hA hB])

variable {n : Nat}

theorem comb_len (vs : List PS) (hv : ∀ v ∈ vs, v.bits.length = 2 * n) :
    ∀ (c : List Bool), (comb (Z n) c vs).length = 2 * n := by
  induction vs with
  | nil => intro c; cases c <;> simp [comb, Z]
  | cons v t ih =>
    intro c
    cases c with
    | nil => simp [comb, Z]
    | cons a cs =>
      have iht := ih (fun v hv' => hv v (List.mem_cons_of_mem _ hv')) cs
      simp only [comb]
      split
      · rw [xorB_eq_add]; exact length_add_eq (hv v (List.mem_cons_self ..)) iht
      · exact iht

theorem comb_xor (vs : List PS) (hv : ∀ v ∈ vs, v.bits.length = 2 * n) :
    ∀ (c d : List Bool), c.length = vs.length → d.length = vs.length →
      comb (Z n) (maskXor c d) vs = add (comb (Z n) c vs) (comb (Z n) d vs) := by
  induction vs with
  | nil =>
    intro c d hc hd
    have : c = [] := List.length_eq_zero_iff.1 hc
    subst this
    simp only [maskXor, List.zipWith_nil_left, comb]
    exact (add_Z (Z n) (len_Z n)).symm
  | cons v t ih =>
    intro c d hc hd
    cases c with
    | nil => simp at hc
    | cons a cs =>
      cases d with
      | nil => simp at hd
      | cons b ds =>
        have hv' : ∀ v ∈ t, v.bits.length = 2 * n := fun v h => hv v (List.mem_cons_of_mem _ h)
        have iht := ih hv' cs ds (by simpa using hc) (by simpa using hd)
        have l1 := comb_len t hv' cs
        have l2 := comb_len t hv' ds
        have lv := hv v (List.mem_cons_self ..)
        simp only [maskXor, List.zipWith_cons_cons, comb] at iht ⊢
        rw [iht]
        cases a <;> cases b <;>
          simp only [xorB_eq_add, Bool.false_eq_true, if_false, if_true, bne_self_eq_false, Bool.true_bne,
            Bool.false_bne, Bool.not_false, Bool.not_true, Bool.bne_false, Bool.bne_true]
        · rw [← add_assoc, add_comm v.bits, add_assoc]
        · rw [add_assoc]
        · exact (add4 lv l1 l2).symm

/-- polarisation: `q(c+d) = q(c) + q(d) + ω(comb c, comb d)` -/
theorem qform_xor (vs : List PS) (hv : ∀ v ∈ vs, v.bits.length = 2 * n) :
    ∀ (c d : List Bool), c.length = vs.length → d.length = vs.length →
      qform (Z n) (maskXor c d) vs =
        ((qform (Z n) c vs != qform (Z n) d vs) != omega (comb (Z n) c vs) (comb (Z n) d vs)) := by
  induction vs with
  | nil =>
    intro c d hc hd
    have : c = [] := List.length_eq_zero_iff.1 hc
    subst this
    simp [maskXor, qform, comb, omega_Z]
  | cons v t ih =>
    intro c d hc hd
    cases c with
    | nil => simp at hc
    | cons a cs =>
      cases d with
      | nil => simp at hd
      | cons b ds =>
        have hv' : ∀ v ∈ t, v.bits.length = 2 * n := fun v h => hv v (List.mem_cons_of_mem _ h)
        have hcl : cs.length = t.length := by simpa using hc
        have hdl : ds.length = t.length := by simpa using hd
        have iht := ih hv' cs ds hcl hdl
        have hx := comb_xor t hv' cs ds hcl hdl
        have l1 := comb_len t hv' cs
        have l2 := comb_len t hv' ds
        have lv := hv v (List.mem_cons_self ..)
        simp only [maskXor, List.zipWith_cons_cons, qform, comb] at iht hx ⊢
        rw [iht, hx, omega_add_right v.bits _ _ (by rw [l1, l2])]
        generalize qform (Z n) cs t = qa
        generalize qform (Z n) ds t = qb
        generalize hA : comb (Z n) cs t = A at *
        generalize hB : comb (Z n) ds t = B at *
        have oAv : omega A v.bits = omega v.bits A := omega_comm _ _
        have e1 : ∀ y, omega (add v.bits A) y = (omega v.bits y != omega A y) :=
          fun y => omega_add_left v.bits A y (by rw [lv, l1])
        have e2 : ∀ x, omega x (add v.bits B) = (omega x v.bits != omega x B) :=
          fun x => omega_add_right x v.bits B (by rw [lv, l2])
        cases a <;> cases b <;>
          simp only [xorB_eq_add, Bool.false_eq_true, if_false, if_true, Bool.false_and, Bool.true_and,
            bne_self_eq_false, Bool.true_bne, Bool.false_bne, Bool.bne_false, e1, e2, omega_self, oAv] <;>
          generalize omega v.bits A = x <;> generalize omega v.bits B = y <;> generalize omega A B = w <;>
          cases qa <;> cases qb <;> cases x <;> cases y <;> cases w <;> rfl

theorem comb_zero (t : List PS) : comb (Z n) (List.replicate t.length false) t = Z n := by
  induction t with
  | nil => rfl
  | cons v t ih => simp only [List.length_cons, List.replicate_succ, comb, Bool.false_eq_true, if_false]; exact ih

theorem qform_zero (t : List PS) : qform (Z n) (List.replicate t.length false) t = false := by
  induction t with
  | nil => rfl
  | cons v t ih => simp only [List.length_cons, List.replicate_succ, qform, ih, Bool.false_and]; rfl

/-- every member is the combination of a unit mask, with `q = 1` -/
theorem unit_mask (vs : List PS) (hv : ∀ v ∈ vs, v.bits.length = 2 * n) :
    ∀ v ∈ vs, ∃ e : List Bool, e.length = vs.length ∧ comb (Z n) e vs = v.bits ∧ qform (Z n) e vs = true := by
  induction vs with
  | nil => intro v hv'; cases hv'
  | cons u t ih =>
    intro v hvm
    rcases List.mem_cons.1 hvm with rfl | hvt
    · refine ⟨true :: List.replicate t.length false, by simp, ?_, ?_⟩
      · simp only [comb, if_true, comb_zero, xorB_eq_add]
        exact add_Z _ (hv v (List.mem_cons_self ..))
      · simp only [qform, qform_zero, comb_zero, omega_Z, Bool.true_and]; rfl
    · obtain ⟨e, he, hc, hq⟩ := ih (fun w hw => hv w (List.mem_cons_of_mem _ hw)) v hvt
      refine ⟨false :: e, by simp [he], ?_, ?_⟩
      · simp only [comb, Bool.false_eq_true, if_false]; exact hc
      · simp only [qform, Bool.false_and, hq]; rfl

/-- every element of the closure is a combination with `q = 1` -/
theorem clo_mask (vs : List PS) (hv : ∀ v ∈ vs, v.bits.length = 2 * n) {y : V}
    (hy : Clo (bitsOf vs) y) :
    ∃ c : List Bool, c.length = vs.length ∧ comb (Z n) c vs = y ∧ qform (Z n) c vs = true := by
  induction hy with
  | base hg =>
    obtain ⟨v, hvm, rfl⟩ := mem_bitsOf.1 hg
    exact unit_mask vs hv v hvm
  | @step a b _ _ ho iha ihb =>
    obtain ⟨c, hc, hca, hqa⟩ := iha
    obtain ⟨d, hd, hdb, hqb⟩ := ihb
    refine ⟨maskXor c d, by simp [maskXor, hc, hd], ?_, ?_⟩
    · rw [comb_xor vs hv c d hc hd, hca, hdb]
    · rw [qform_xor vs hv c d hc hd, hqa, hqb, hca, hdb, ho]; rfl

theorem omega_comb_zero (w : V) (vs : List PS) (hv : ∀ v ∈ vs, v.bits.length = 2 * n)
    (h : ∀ v ∈ vs, omega w v.bits = false) : ∀ (c : List Bool), omega w (comb (Z n) c vs) = false := by
  induction vs with
  | nil => intro c; cases c <;> simp [comb, omega_Z]
  | cons v t ih =>
    intro c
    have hv' : ∀ v ∈ t, v.bits.length = 2 * n := fun v h => hv v (List.mem_cons_of_mem _ h)
    cases c with
    | nil => simp [comb, omega_Z]
    | cons a cs =>
      have iht := ih hv' (fun v hv'' => h v (List.mem_cons_of_mem _ hv'')) cs
      simp only [comb]
      split
      · rw [xorB_eq_add, omega_add_right w _ _ (by rw [hv v (List.mem_cons_self ..), comb_len t hv' cs]),
          h v (List.mem_cons_self ..), iht]; rfl
      · exact iht

theorem dual_mask : ∀ (ws vs : List PS), (∀ v ∈ vs, v.bits.length = 2 * n) → dualOk ws vs = true →
    ∀ (c : List Bool), c.length = vs.length →
      ws.map (fun w => omega w.bits (comb (Z n) c vs)) = c
  | [], [], _, _, c, hc => by
    have : c = [] := List.length_eq_zero_iff.1 hc
    subst this; rfl
  | [], _ :: _, _, h, _, _ => by simp [dualOk] at h
  | _ :: _, [], _, h, _, _ => by simp [dualOk] at h
  | w :: ws, v :: vs, hv, h, c, hc => by
    cases c with
    | nil => simp at hc
    | cons a cs =>
      simp only [dualOk, Bool.and_eq_true, List.all_eq_true, Bool.not_eq_true'] at h
      obtain ⟨⟨⟨hwv, hwvs⟩, hwsv⟩, hrest⟩ := h
      have hv' : ∀ v ∈ vs, v.bits.length = 2 * n := fun v h => hv v (List.mem_cons_of_mem _ h)
      have lv := hv v (List.mem_cons_self ..)
      have lR := comb_len vs hv' cs
      have ih := dual_mask ws vs hv' hrest cs (by simpa using hc)
      have hwR : omega w.bits (comb (Z n) cs vs) = false := omega_comb_zero w.bits vs hv' hwvs cs
      simp only [List.map_cons, comb]
      congr 1
      · cases a
        · simpa using hwR
        · simp only [if_true, xorB_eq_add]
          rw [omega_add_right _ _ _ (by rw [lv, lR]), hwv, hwR]; rfl
      · refine Eq.trans ?_ ih
        apply List.map_congr_left
        intro w' hw'
        cases a
        · rfl
        · simp only [if_true, xorB_eq_add]
          rw [omega_add_right _ _ _ (by rw [lv, lR]), hwsv w' hw']; simp

theorem qCheck_sound {ws vs : List PS} {x : PS} (h : qCheck ws vs x = true) : ¬ Clo (bitsOf vs) x.bits := by
  unfold qCheck at h
  simp only [Bool.and_eq_true, List.all_eq_true, beq_iff_eq, Bool.not_eq_true'] at h
  obtain ⟨⟨⟨hd, heven⟩, hlen⟩, hq⟩ := h
  intro hc
  have hz : List.replicate x.bits.length false = Z (x.bits.length / 2) := by
    unfold Z; congr 1; omega
  have hv : ∀ v ∈ vs, v.bits.length = 2 * (x.bits.length / 2) := by
    intro v hv'; rw [hlen v hv']; omega
  obtain ⟨c, hcl, hcx, hcq⟩ := clo_mask vs hv hc
  have hm := dual_mask ws vs hv hd c hcl
  rw [hcx] at hm
  rw [hz, hm, hcq] at hq
  cases hq

theorem qCert_sound {vs : List PS} {x : PS} (h : qCert vs x = true) : ¬ Clo (bitsOf vs) x.bits :=
  qCheck_sound h

/-- the three certificates of non-membership -/
theorem nonMemberCert_sound {vs : List PS} {x : PS} (h : nonMemberCert vs x = true) :
    ¬ Clo (bitsOf vs) x.bits := by
  unfold nonMemberCert at h
  simp only [Bool.or_eq_true] at h
  rcases h with (h | h) | h
  · exact sepCert_sound h
  · exact zeroCert_sound h
  · exact qCert_sound h

end C08
end PauLie
