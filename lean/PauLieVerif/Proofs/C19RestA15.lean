/-
Helpers for property C19, part 22: the families a15 (`XX`,`XY`,`XZ`; row `su(2^(n-1)) + su(2^(n-1))`) and
b4 (`XX`,`XY`,`XZ`,`XI`,`IX`,`IY`,`IZ`; row `su(2^(n-1)) + su(2^(n-1)) + u(1)`).

Closed form: every translate commutes with `X` on the first site; the closure is the set of ALL strings
`{I,X} ⊗ R` with `R` a non-identity string on the other n−1 sites (a15), plus the string `X I … I` itself
(b4: the centre).  `tX0 c`: `c = false` for a15, `c = true` for b4.  Lower bound by the peeling induction with
the last two sites peeled; the state of the tail is (first letter, "the rest of the tail is the identity").
Count: `2·(4^(n−1) − 1)` (+ 1).
-/
import PauLieVerif.Proofs.C19RestPeel
import PauLieVerif.Proofs.C19SuK3
import PauLieVerif.Proofs.C19Single

namespace PauLie
namespace C19
open Closure Graph C01Star C03

/-- the identity string (of any length) -/
def isZ (x : V) : Bool := x.all (fun b => !b)

theorem isZ_append (x y : V) : isZ (x ++ y) = (isZ x && isZ y) := by simp [isZ, List.all_append]

theorem isZ_replicate (m : Nat) : isZ (List.replicate m false) = true := by simp [isZ]

theorem isZ_zeroV (m : Nat) : isZ (zeroV m) = true := isZ_replicate m

theorem isZ_cons (a : Bool) (x : V) : isZ (a :: x) = (!a && isZ x) := by simp [isZ]

theorem isZ_iff : ∀ (x : V), isZ x = true ↔ x = zeroV x.length
  | [] => by simp [isZ, zeroV]
  | a :: t => by
    rw [isZ_cons, Bool.and_eq_true, isZ_iff t]
    simp only [zeroV, List.length_cons, List.replicate_succ, List.cons.injEq]
    cases a <;> simp

theorem isZ_add : ∀ (x y : V), x.length = y.length → isZ (add x y) = true → x = y
  | [], [], _, _ => rfl
  | [], _ :: _, h, _ => by simp at h
  | _ :: _, [], h, _ => by simp at h
  | a :: s, b :: t, h, hz => by
    simp only [add, isZ_cons, Bool.and_eq_true] at hz
    rw [isZ_add s t (by simpa using h) hz.2]
    have : a = b := by revert hz; cases a <;> cases b <;> simp
    rw [this]

theorem length_filter_not_isZ (m : Nat) : ((allV m).filter (fun v => !isZ v)).length = 2 ^ m - 1 := by
  rw [← length_nonzeroV, nonzeroV]
  congr 1
  apply List.filter_congr
  intro v hv
  have hl := mem_allV.1 hv
  by_cases h : v = zeroV m
  · subst h; simp [isZ_zeroV]
  · have : isZ v = false := by
      cases hz : isZ v
      · rfl
      · exact absurd (by rw [(isZ_iff v).1 hz, hl]) h
    simp [this, h]

/-- `{I,X} ⊗ (non-identity)`, and with `c` also `X ⊗ identity` -/
def tX0 (c : Bool) : V → Bool
  | a :: b :: r => !b && (!isZ r || (c && a))
  | _ => false

theorem tX0_closed (c : Bool) (n : Nat) (x y : V) (hx : x.length = 2 * n) (hy : y.length = 2 * n)
    (h1 : tX0 c x = true) (h2 : tX0 c y = true) (ho : omega x y = true) : tX0 c (add x y) = true := by
  match x, y, hx, hy with
  | [], _, _, _ => simp [tX0] at h1
  | [_], _, _, _ => simp [tX0] at h1
  | _ :: _ :: _, [], _, _ => simp [tX0] at h2
  | _ :: _ :: _, [_], _, _ => simp [tX0] at h2
  | a :: b :: r, a' :: b' :: r', hx, hy =>
    simp only [tX0, Bool.and_eq_true, Bool.not_eq_true'] at h1 h2
    obtain ⟨hb, _⟩ := h1
    obtain ⟨hb', _⟩ := h2
    subst hb; subst hb'
    simp only [omega, Bool.and_false, Bool.false_and, bne_self_eq_false, Bool.false_bne] at ho
    have hz : isZ (add r r') = false := by
      cases hz : isZ (add r r')
      · rfl
      · have := isZ_add r r' (by simp at hx hy; omega) hz
        rw [this, omega_self] at ho
        cases ho
    simp [add, tX0, hz]

def wend15 : List V := nonzeroV 4

theorem length_wend15 : ∀ g ∈ wend15, g.length = 2 * 2 := fun _ hg => (mem_nonzeroV.1 hg).1

theorem chk_tX0 : ∀ c a b0 z : Bool,
    peelChk 2 (fun q => !b0 && (!(z && isZ q) || (c && a))) (fun q => !isZ q)
      (fun q => !b0 && (!(z && isZ q) || (c && a))) wend15 = true := by
  decide +kernel

theorem step_tX0 (c : Bool) (w0 N : Nat) (x : V) (hN : 4 ≤ N) (hx : x.length = 2 * N) (hT : tX0 c x = true) :
    Gen (Good 2 w0 (tX0 c) wend15 N) x := by
  obtain ⟨a, b0, r', hr⟩ : ∃ a b0 r', x.take (2 * (N - 2)) = a :: b0 :: r' := by
    have hl : (x.take (2 * (N - 2))).length = 2 * (N - 2) := by simp [hx]
    match h : x.take (2 * (N - 2)), hl with
    | [], hl => simp at hl; omega
    | [_], hl => simp at hl; omega
    | a :: b :: r, _ => exact ⟨a, b, r, rfl⟩
  refine Gen.base (good_of_chk (by omega) length_wend15 (by omega) hx
    (tr := fun q => !b0 && (!(isZ r' && isZ q) || (c && a))) (t0 := fun q => !isZ q) ?_ ?_ (chk_tX0 _ _ _ _) hT)
  · intro q; rw [hr]; simp [tX0, isZ_append]
  · intro q
    rw [show 2 * (N - 2) = 2 * (N - 3) + 1 + 1 by omega]
    simp [zeroV, List.replicate_succ, tX0, isZ_append, isZ_replicate]

theorem tX0_shiftV (c : Bool) {n k : Nat} (hk : k + 2 ≤ n) (p q s t : Bool) (hq : q = false) (hst : (s || t) = true) :
    tX0 c (shiftV n k [p, q, s, t]) = true := by
  subst hq
  cases k with
  | zero => simp [shiftV, tX0, isZ_cons]; revert hst; cases s <;> cases t <;> simp
  | succ k =>
    rw [shiftV, show 2 * (k + 1) = 2 * k + 1 + 1 by omega]
    simp only [List.replicate_succ, List.cons_append, tX0, isZ_append, isZ_cons, isZ_replicate]
    revert hst; cases s <;> cases t <;> simp

/-- the six single-site generators of b4 fit the same pattern after padding: handled separately -/
theorem tX0_shiftV' (c : Bool) {n k : Nat} (hk : k + 2 ≤ n) (g : V) (_hg : g.length = 4) (h1 : 1 ≤ k) (hz : isZ g = false) :
    tX0 c (shiftV n k g) = true := by
  obtain ⟨k, rfl⟩ : ∃ k', k = k' + 1 := ⟨k - 1, by omega⟩
  rw [shiftV, show 2 * (k + 1) = 2 * k + 1 + 1 by omega]
  simp [List.replicate_succ, tX0, isZ_append, hz]

theorem count_tX0 (c : Bool) (n : Nat) :
    ((allV (2 * (n + 1))).filter (tX0 c)).length = 2 * (4 ^ n - 1) + (if c then 1 else 0) := by
  rw [show 2 * (n + 1) = 2 * n + 2 by omega, length_filter_allV_add_two]
  have : ∀ v : V, ((if tX0 c (false :: false :: v) then 1 else 0) + (if tX0 c (true :: false :: v) then 1 else 0) +
      (if tX0 c (false :: true :: v) then 1 else 0) + (if tX0 c (true :: true :: v) then 1 else 0)) =
      (if (!isZ v) then 2 else (if c then 1 else 0)) := by
    intro v; simp only [tX0]
    rcases Bool.eq_false_or_eq_true (isZ v) with h | h <;> cases c <;> simp [h]
  simp only [this]
  rw [sum_map_ite_add, length_filter_not_isZ]
  have h1 : ((allV (2 * n)).filter (fun v => !(!isZ v))).length = 1 := by
    have := length_filter_split (fun v => !isZ v) (fun v => !(!isZ v)) (fun _ => rfl) (allV (2 * n))
    rw [length_allV, length_filter_not_isZ] at this
    have := Nat.two_pow_pos (2 * n)
    omega
  rw [h1, Nat.pow_mul]
  simp

/-! ### a15 -/

def gensA15 : List V := [vXX, vXY, vXZ]

theorem lenA15 : ∀ g ∈ gensA15, g.length = 4 := by simp [gensA15, vXX, vXY, vXZ]

theorem base_a15 : ((allV 6).filter (tX0 false)).all (fun y => (closureList (klocalV 3 gensA15)).1.contains y) = true := by
  decide +kernel

theorem clo_a15 {n : Nat} (hn : 3 ≤ n) (x : V) :
    Clo (klocalV n gensA15) x ↔ x.length = 2 * n ∧ tX0 false x = true := by
  have hb : ∀ x, x.length = 2 * 3 → tX0 false x = true → Clo (klocalV 3 gensA15) x := by
    intro x hx hq
    have := List.all_eq_true.1 base_a15 x (List.mem_filter.2 ⟨mem_allV.2 hx, hq⟩)
    exact (closureList_sound_complete (uniform_klocalV lenA15)).1 (List.contains_iff_mem.1 this)
  refine clo_iff_of_peel lenA15 (k := 2) (w0 := 3) (T := tX0 false) (Wend := wend15) (by omega) (by omega) ?_ hb
    (fun N x hN hx hT => step_tX0 false 3 N x (by omega) hx hT) ?_ (tX0_closed false) hn x
  · intro g hg
    refine ⟨length_wend15 g hg, hb _ (by simp [zeroV, length_wend15 g hg]) ?_⟩
    have hz : isZ g = false := by
      cases hz : isZ g
      · rfl
      · exact absurd (by rw [(isZ_iff g).1 hz, length_wend15 g hg]) (mem_nonzeroV.1 hg).2
    simp [zeroV, tX0, hz]
  · intro n hn g hg
    obtain ⟨g0, hg0, k, hk, rfl⟩ := mem_klocalV.1 hg
    simp only [gensA15, vXX, vXY, vXZ, List.mem_cons, List.not_mem_nil, or_false] at hg0
    rcases hg0 with rfl | rfl | rfl <;> exact tX0_shiftV _ (by omega) _ _ _ _ rfl rfl

/-! ### b4 -/

def vIZ : V := [false, false, false, true]
def gensB4 : List V := [vXX, vXY, vXZ, vXI, vIX, vIY, vIZ]

theorem lenB4 : ∀ g ∈ gensB4, g.length = 4 := by simp [gensB4, vXX, vXY, vXZ, vXI, vIX, vIY, vIZ]

theorem base_b4 : ((allV 6).filter (tX0 true)).all (fun y => (closureList (klocalV 3 gensB4)).1.contains y) = true := by
  decide +kernel

theorem tX0_XI (n : Nat) (_hn : 2 ≤ n) : tX0 true (shiftV n 0 vXI) = true := by
  simp [shiftV, vXI, tX0]

theorem clo_b4 {n : Nat} (hn : 3 ≤ n) (x : V) :
    Clo (klocalV n gensB4) x ↔ x.length = 2 * n ∧ tX0 true x = true := by
  have hb : ∀ x, x.length = 2 * 3 → tX0 true x = true → Clo (klocalV 3 gensB4) x := by
    intro x hx hq
    have := List.all_eq_true.1 base_b4 x (List.mem_filter.2 ⟨mem_allV.2 hx, hq⟩)
    exact (closureList_sound_complete (uniform_klocalV lenB4)).1 (List.contains_iff_mem.1 this)
  refine clo_iff_of_peel lenB4 (k := 2) (w0 := 3) (T := tX0 true) (Wend := wend15) (by omega) (by omega) ?_ hb
    (fun N x hN hx hT => step_tX0 true 3 N x (by omega) hx hT) ?_ (tX0_closed true) hn x
  · intro g hg
    refine ⟨length_wend15 g hg, hb _ (by simp [zeroV, length_wend15 g hg]) ?_⟩
    have hz : isZ g = false := by
      cases hz : isZ g
      · rfl
      · exact absurd (by rw [(isZ_iff g).1 hz, length_wend15 g hg]) (mem_nonzeroV.1 hg).2
    simp [zeroV, tX0, hz]
  · intro n hn g hg
    obtain ⟨g0, hg0, k, hk, rfl⟩ := mem_klocalV.1 hg
    simp only [gensB4, vXX, vXY, vXZ, vXI, vIX, vIY, vIZ, List.mem_cons, List.not_mem_nil, or_false] at hg0
    rcases hg0 with rfl | rfl | rfl | rfl | rfl | rfl | rfl
    · exact tX0_shiftV _ (by omega) _ _ _ _ rfl rfl
    · exact tX0_shiftV _ (by omega) _ _ _ _ rfl rfl
    · exact tX0_shiftV _ (by omega) _ _ _ _ rfl rfl
    · cases k with
      | zero => simp [shiftV, tX0]
      | succ k => exact tX0_shiftV' _ (by omega) _ rfl (by omega) (by decide)
    · exact tX0_shiftV _ (by omega) _ _ _ _ rfl rfl
    · exact tX0_shiftV _ (by omega) _ _ _ _ rfl rfl
    · exact tX0_shiftV _ (by omega) _ _ _ _ rfl rfl

end C19
end PauLie
