/-
Soundness of the VERIFIED returns of the model of `OptimalPauliCompiler.compile`
(`Model/CompilerSearch.lean`), for all inputs: whatever the search procedures do, a sequence that
leaves `compile` through a return guarded by `_nested_commutator_result(G) == target` evaluates to
the target; in the `W = I` branch it is a valid sequence.
-/
import PauLieVerif.Proofs.CompilerSearchBfs

namespace PauLie
namespace CompilerSearch
open Compiler C07

theorem liftAt_ok {α} {s : Site} {x : Except Err α} {a : α} : liftAt s x = .ok a ↔ x = .ok a := by
  cases x <;> simp [liftAt]

theorem checkRes_true {c : Ctx} {v w : List Letter} {G : List PS} (h : checkRes c v w G = .ok true) :
    ∃ r, nestedCommutatorResult G = .ok (some r) ∧ (leftPart r c.k).letters = v ∧ (rightPart r c.k).letters = w := by
  unfold checkRes cNested at h
  cases hn : nestedCommutatorResult G with
  | error e => simp [hn, liftAt, bind, Except.bind] at h
  | ok o =>
    cases o with
    | none => simp [hn, liftAt, bind, Except.bind, pure, Except.pure] at h
    | some r =>
      simp [hn, liftAt, bind, Except.bind, pure, Except.pure] at h
      exact ⟨r, rfl, h.1, h.2⟩

theorem firstOk_sound (chk : List PS → Except Fail Bool) :
    ∀ (l : List (List PS)) (i j : Nat) (s : List PS), firstOk chk l i = .ok (some (j, s)) → chk s = .ok true ∧ s ∈ l := by
  intro l
  induction l with
  | nil => intro i j s h; simp [firstOk, pure, Except.pure] at h
  | cons x rest ih =>
    intro i j s h
    unfold firstOk at h
    cases hc : chk x with
    | error e => simp [hc, bind, Except.bind] at h
    | ok b =>
      cases b with
      | true =>
        simp [hc, bind, Except.bind, pure, Except.pure] at h
        obtain ⟨_, rfl⟩ := h
        exact ⟨hc, List.mem_cons_self ..⟩
      | false =>
        simp [hc, bind, Except.bind] at h
        obtain ⟨h1, h2⟩ := ih _ _ _ h
        exact ⟨h1, List.mem_cons_of_mem _ h2⟩

theorem firstSome_sound {α} (P : α → Prop) :
    ∀ (l : List (Unit → Except Fail (Option α))), (∀ f ∈ l, ∀ x, f () = .ok (some x) → P x) →
      ∀ x, firstSome l = .ok (some x) → P x := by
  intro l
  induction l with
  | nil => intro _ x h; simp [firstSome, pure, Except.pure] at h
  | cons f rest ih =>
    intro hl x h
    unfold firstSome at h
    cases hf : f () with
    | error e => simp [hf, bind, Except.bind] at h
    | ok o =>
      cases o with
      | some y =>
        simp [hf, bind, Except.bind, pure, Except.pure] at h
        subst h
        exact hl f (List.mem_cons_self ..) _ hf
      | none =>
        simp [hf, bind, Except.bind] at h
        exact ih (fun g hg => hl g (List.mem_cons_of_mem _ hg)) x h

theorem inter3_sound (chk : List PS → Except Fail Bool) (cap : Nat) :
    ∀ (fuel : Nat) (A B C pre : List PS) (count n : Nat) (s : List PS),
      inter3 chk cap fuel A B C pre count = .ok (n, some s) → chk s = .ok true := by
  intro fuel
  induction fuel with
  | zero => intro A B C pre count n s h; simp [inter3, throw, throwThe, MonadExceptOf.throw] at h
  | succ fuel ih =>
    intro A B C pre count n s h
    unfold inter3 at h
    split at h
    · simp [pure, Except.pure] at h
    · split at h
      · -- all empty
        cases hc : chk pre.reverse with
        | error e => simp [hc, bind, Except.bind] at h
        | ok b =>
          cases b with
          | true =>
            simp [hc, bind, Except.bind, pure, Except.pure] at h
            rw [← h.2]; exact hc
          | false => simp [hc, bind, Except.bind, pure, Except.pure] at h
      · -- general
        simp only [bind, Except.bind] at h
        split at h
        · cases h
        · rename_i r1 hr1
          obtain ⟨c1, o1⟩ := r1
          simp only at h
          split at h
          · -- returned after A
            simp [pure, Except.pure] at h
            obtain ⟨rfl, rfl⟩ := h
            cases A with
            | nil => simp [pure, Except.pure] at hr1
            | cons a A' => exact ih _ _ _ _ _ _ _ hr1
          · split at h
            · cases h
            · rename_i r2 hr2
              obtain ⟨c2, o2⟩ := r2
              simp only at h
              split at h
              · simp [pure, Except.pure] at h
                obtain ⟨rfl, rfl⟩ := h
                cases B with
                | nil => simp [pure, Except.pure] at hr2
                | cons b B' => exact ih _ _ _ _ _ _ _ hr2
              · cases C with
                | nil => simp [pure, Except.pure] at h
                | cons x C' => exact ih _ _ _ _ _ _ _ h
theorem inter4_sound (chk : List PS → Except Fail Bool) (cap : Nat) :
    ∀ (fuel : Nat) (A B C D pre : List PS) (count n : Nat) (s : List PS),
      inter4 chk cap fuel A B C D pre count = .ok (n, some s) → chk s = .ok true := by
  intro fuel
  induction fuel with
  | zero => intro A B C D pre count n s h; simp [inter4, throw, throwThe, MonadExceptOf.throw] at h
  | succ fuel ih =>
    intro A B C D pre count n s h
    unfold inter4 at h
    split at h
    · simp [pure, Except.pure] at h
    · split at h
      · cases hc : chk pre.reverse with
        | error e => simp [hc, bind, Except.bind] at h
        | ok b =>
          cases b with
          | true =>
            simp [hc, bind, Except.bind, pure, Except.pure] at h
            rw [← h.2]; exact hc
          | false => simp [hc, bind, Except.bind, pure, Except.pure] at h
      · simp only [bind, Except.bind] at h
        split at h
        · cases h
        · rename_i r1 hr1
          obtain ⟨c1, o1⟩ := r1
          simp only at h
          split at h
          · simp [pure, Except.pure] at h
            obtain ⟨rfl, rfl⟩ := h
            cases A with
            | nil => simp [pure, Except.pure] at hr1
            | cons a A' => exact ih _ _ _ _ _ _ _ _ hr1
          · split at h
            · cases h
            · rename_i r2 hr2
              obtain ⟨c2, o2⟩ := r2
              simp only at h
              split at h
              · simp [pure, Except.pure] at h
                obtain ⟨rfl, rfl⟩ := h
                cases B with
                | nil => simp [pure, Except.pure] at hr2
                | cons b B' => exact ih _ _ _ _ _ _ _ _ hr2
              · split at h
                · cases h
                · rename_i r3 hr3
                  obtain ⟨c3, o3⟩ := r3
                  simp only at h
                  split at h
                  · simp [pure, Except.pure] at h
                    obtain ⟨rfl, rfl⟩ := h
                    cases C with
                    | nil => simp [pure, Except.pure] at hr3
                    | cons x C' => exact ih _ _ _ _ _ _ _ _ hr3
                  · cases D with
                    | nil => simp [pure, Except.pure] at h
                    | cons d D' => exact ih _ _ _ _ _ _ _ _ h

theorem case3_sound (c : Ctx) (G1 G2 Aext : List PS) (w : PS) (ph : Nat) (s : List PS)
    (h : case3BestReordering c G1 G2 Aext w = .ok (some (ph, s))) :
    checkRes c (List.replicate c.k.toNat Letter.I) (key w) s = .ok true := by
  unfold case3BestReordering at h
  simp only [bind, Except.bind] at h
  split at h
  · cases h
  · rename_i o1 h1
    split at h
    · -- phase 1
      rename_i j1 s1
      simp [pure, Except.pure] at h
      obtain ⟨_, rfl⟩ := h
      exact (firstOk_sound _ _ _ _ _ h1).1
    · split at h
      · cases h
      · rename_i o2 h2
        split at h
        · rename_i j2 s2
          simp [pure, Except.pure] at h
          obtain ⟨_, rfl⟩ := h
          exact (firstOk_sound _ _ _ _ _ h2).1
        · split at h
          · cases h
          · rename_i o3 h3
            split at h
            · rename_i s3
              simp [pure, Except.pure] at h
              obtain ⟨_, rfl⟩ := h
              refine firstSome_sound (fun x => checkRes c (List.replicate c.k.toNat Letter.I) (key w) x = .ok true) _ ?_ _ h3
              intro f hf x hx
              simp only [List.mem_map] at hf
              obtain ⟨g, _, rfl⟩ := hf
              split at hx
              · cases hx
              · rename_i r hr
                obtain ⟨n, o⟩ := r
                simp [pure, Except.pure] at hx
                subst hx
                exact inter3_sound _ _ _ _ _ _ _ _ _ _ hr
            · split at h
              · cases h
              · rename_i o4 h4
                split at h
                · rename_i s4
                  simp [pure, Except.pure] at h
                  obtain ⟨_, rfl⟩ := h
                  refine firstSome_sound (fun x => checkRes c (List.replicate c.k.toNat Letter.I) (key w) x = .ok true) _ ?_ _ h4
                  intro f hf x hx
                  simp only [List.mem_map] at hf
                  obtain ⟨g, _, rfl⟩ := hf
                  obtain ⟨g1, g2, a1, a2⟩ := g
                  split at hx
                  · cases hx
                  · rename_i o5 h5
                    split at hx
                    · simp [pure, Except.pure] at hx
                      subst hx
                      exact (firstOk_sound _ _ _ _ _ h5).1
                    · split at hx
                      · cases hx
                      · rename_i r hr
                        obtain ⟨n, o⟩ := r
                        simp [pure, Except.pure] at hx
                        subst hx
                        exact inter4_sound _ _ _ _ _ _ _ _ _ _ _ hr
                · simp [pure, Except.pure] at h


theorem compileWI_sound (c : Ctx) (v w : PS) (aset : List PS) :
    ∀ (l : List PS) (b : Branch) (s : List PS), compileWI c v w aset l = .ok (b, s) →
      b = .wI ∧ ∃ a0 seqA g0 gs, a0 ∈ l ∧ leftMapOverA a0 v aset = .ok seqA ∧ extendLeft c a0 = .ok g0 ∧
        extendAll c seqA = .ok gs ∧ s = toPublic (g0 :: gs) ∧ checkRes c (key v) (key w) (g0 :: gs) = .ok true := by
  intro l
  induction l with
  | nil => intro b s h; simp [compileWI, throw, throwThe, MonadExceptOf.throw] at h
  | cons a0 rest ih =>
    intro b s h
    unfold compileWI at h
    split at h
    · obtain ⟨hb, a, sA, g0, gs, ha, r⟩ := ih _ _ h
      exact ⟨hb, a, sA, g0, gs, List.mem_cons_of_mem _ ha, r⟩
    · cases h
    · rename_i seqA hlm
      simp only [bind, Except.bind] at h
      split at h
      · cases h
      · rename_i g0 hg0
        split at h
        · cases h
        · rename_i gs hgs
          split at h
          · cases h
          · rename_i ok hok
            cases ok with
            | true =>
              simp [pure, Except.pure] at h
              obtain ⟨rfl, rfl⟩ := h
              exact ⟨rfl, a0, seqA, g0, gs, List.mem_cons_self .., hlm, hg0, hgs, rfl, hok⟩
            | false =>
              simp at h
              obtain ⟨hb, a, sA, g0', gs', ha, r⟩ := ih _ _ h
              exact ⟨hb, a, sA, g0', gs', List.mem_cons_of_mem _ ha, r⟩

theorem compileVNeI_sound (c : Ctx) (v w : PS) (aset : List PS) (b : Branch) (s : List PS)
    (h : compileVNeI c v w aset = .ok (b, s)) (hb : b.verified = true) :
    ∃ G, s = toPublic G ∧ checkRes c (key v) (key w) G = .ok true := by
  unfold compileVNeI at h
  simp only [bind, Except.bind] at h
  split at h
  · cases h
  · split at h
    · cases h
    · split at h
      · cases h
      · split at h
        · cases h
        · split at h
          · cases h
          · rename_i o ho
            split at h
            · rename_i i G
              simp [pure, Except.pure] at h
              obtain ⟨_, rfl⟩ := h
              exact ⟨G, rfl, (firstOk_sound _ _ _ _ _ ho).1⟩
            · simp [pure, Except.pure] at h
              obtain ⟨rfl, _⟩ := h
              cases hb

theorem tryDecomps_sound (c : Ctx) (w : PS) (aset : List PS) :
    ∀ (l : List (PS × PS)) (b : Branch) (s : List PS), tryDecomps c w aset l = .ok (some (b, s)) →
      ∃ G, s = toPublic G ∧ checkRes c (List.replicate c.k.toNat Letter.I) (key w) G = .ok true := by
  intro l
  induction l with
  | nil => intro b s h; simp [tryDecomps, pure, Except.pure] at h
  | cons p rest ih =>
    intro b s h
    obtain ⟨w1, w2⟩ := p
    unfold tryDecomps at h
    simp only [bind, Except.bind] at h
    iterate 7 (split at h; (next => cases h))
    rename_i o ho
    split at h
    · rename_i ph G
      simp [pure, Except.pure] at h
      obtain ⟨_, rfl⟩ := h
      exact ⟨G, rfl, case3_sound _ _ _ _ _ _ _ ho⟩
    · exact ih _ _ h

theorem decode_take : ∀ (l : List Bool) (k : Nat), decode (l.take (2 * k)) = (decode l).take k
  | _, 0 => by simp [decode]
  | [], k + 1 => by simp [decode]
  | [a], k + 1 => by
    have : 2 * (k + 1) = (2 * k + 1) + 1 := by omega
    rw [this, List.take_succ_cons]
    simp [decode]
  | a :: b :: t, k + 1 => by
    have : 2 * (k + 1) = (2 * k + 1) + 1 := by omega
    rw [this, List.take_succ_cons, List.take_succ_cons]
    simp [decode, decode_take t k]

theorem decode_drop : ∀ (l : List Bool) (k : Nat), decode (l.drop (2 * k)) = (decode l).drop k
  | _, 0 => by simp
  | [], k + 1 => by simp [decode]
  | [a], k + 1 => by
    have : 2 * (k + 1) = (2 * k + 1) + 1 := by omega
    rw [this, List.drop_succ_cons]
    simp [decode]
  | a :: b :: t, k + 1 => by
    have : 2 * (k + 1) = (2 * k + 1) + 1 := by omega
    rw [this, List.drop_succ_cons, List.drop_succ_cons]
    simp [decode, decode_drop t k]

theorem leftPart_letters (r : PS) (k : Nat) : (leftPart r (k : Int)).letters = r.letters.take k := by
  unfold leftPart PS.getSubstring PS.pySlice PS.letters PS.ofBits
  simp only
  have a1 : ¬ ((2 : Int) * 0 < 0) := by omega
  have a2 : ¬ ((2 : Int) * 0 > (r.bits.length : Int)) := by omega
  have a3 : ¬ ((2 : Int) * 0 + 2 * (k : Int) < 0) := by omega
  simp only [a1, a2, a3, if_false]
  have a5 : ((2 : Int) * 0).toNat = 0 := by simp
  rw [a5, List.drop_zero, Nat.sub_zero]
  by_cases a4 : ((2 : Int) * 0 + 2 * (k : Int) > (r.bits.length : Int))
  · simp only [a4, if_true]
    rw [List.take_length, ← decode_take]
    rw [List.take_of_length_le (by omega)]
  · simp only [a4, if_false]
    have a6 : ((2 : Int) * 0 + 2 * (k : Int)).toNat = 2 * k := by omega
    rw [a6, decode_take]

theorem rightPart_letters (r : PS) (k : Nat) : (rightPart r (k : Int)).letters = r.letters.drop k := by
  unfold rightPart PS.getSubstring PS.pySlice PS.letters PS.ofBits PS.len
  simp only
  have hl : (2 : Int) * (k : Int) + 2 * (((r.bits.length / 2 : Nat) : Int) - (k : Int)) = ((2 * (r.bits.length / 2) : Nat) : Int) := by omega
  rw [hl]
  have a1 : ¬ ((2 : Int) * (k : Int) < 0) := by omega
  have a3 : ¬ (((2 * (r.bits.length / 2) : Nat) : Int) < 0) := by omega
  have a4 : ¬ (((2 * (r.bits.length / 2) : Nat) : Int) > (r.bits.length : Int)) := by omega
  simp only [a1, a3, a4, if_false, Int.toNat_natCast]
  have hdl : (decode r.bits).length = r.bits.length / 2 := C04.length_decode _
  by_cases a2 : ((2 : Int) * (k : Int) > (r.bits.length : Int))
  · simp only [a2, if_true]
    rw [List.drop_length]
    simp only [List.take_nil, decode]
    rw [List.drop_of_length_le (by omega)]
  · simp only [a2, if_false]
    have a6 : ((2 : Int) * (k : Int)).toNat = 2 * k := by omega
    rw [a6]
    have h2 : 2 * (r.bits.length / 2) - 2 * k = 2 * (r.bits.length / 2 - k) := by omega
    rw [h2, decode_take, decode_drop]
    rw [List.take_of_length_le (by rw [List.length_drop, hdl])]

theorem decode_replicate_false (m : Nat) :
    decode (List.replicate (2 * m) false) = List.replicate m Letter.I ∧
    decode (List.replicate (2 * m + 1) false) = List.replicate m Letter.I := by
  induction m with
  | zero => simp [decode]
  | succ m ih =>
    have e1 : 2 * (m + 1) = (2 * m + 1) + 1 := by omega
    have e2 : 2 * (m + 1) + 1 = ((2 * m + 1) + 1) + 1 := by omega
    constructor
    · rw [e1, List.replicate_succ, List.replicate_succ]
      simp only [decode, ih.1, List.replicate_succ]
      rfl
    · rw [e2, List.replicate_succ, List.replicate_succ]
      have := ih.2
      rw [List.replicate_succ] at this
      simp only [decode, this, List.replicate_succ]
      rfl

theorem isIdentity_letters (p : PS) (h : p.isIdentity = true) : p.letters = List.replicate p.len Letter.I := by
  unfold PS.isIdentity at h
  have hb : p.bits = List.replicate p.bits.length false := by simpa using h
  unfold PS.letters PS.len
  rw [hb, List.length_replicate]
  rcases Nat.even_or_odd' p.bits.length with ⟨m, hm | hm⟩
  · rw [hm, (decode_replicate_false m).1]; congr 1; omega
  · rw [hm, (decode_replicate_false m).2]; congr 1; omega

theorem compileVI_sound (c : Ctx) (w : PS) (aset : List PS) (b : Branch) (s : List PS)
    (h : compileVI c w aset = .ok (b, s)) (hb : b.verified = true) :
    ∃ G, s = toPublic G ∧ checkRes c (List.replicate c.k.toNat Letter.I) (key w) G = .ok true := by
  unfold compileVI at h
  simp only [bind, Except.bind] at h
  split at h
  · cases h
  · split at h
    · cases h
    · rename_i o ho
      split at h
      · rename_i r
        simp [pure, Except.pure] at h
        subst h
        exact tryDecomps_sound _ _ _ _ _ _ ho
      · split at h
        · cases h
        · split at h
          · simp [pure, Except.pure] at h
            obtain ⟨rfl, _⟩ := h
            cases hb
          · split at h
            · simp [throw, throwThe, MonadExceptOf.throw] at h
            · iterate 8 (split at h; (next => cases h))
              simp [pure, Except.pure] at h
              obtain ⟨rfl, _⟩ := h
              cases hb

/-- **verified returns of `compile`** (all objects, all `V`, `W`): a sequence handed out by one of
the returns guarded by `_nested_commutator_result(G) == target` is `toPublic G` for a list `G` whose
internal nested commutator is a string `r` whose left part reads `V` and right part reads `W` -/
theorem compileWith_verified (c : Ctx) (aset : List PS) (v w : PS) (b : Branch) (s : List PS)
    (h : compileWith c aset v w = .ok (b, s)) (hb : b.verified = true) :
    ∃ G r, s = toPublic G ∧ nestedCommutatorResult G = .ok (some r) ∧
      (leftPart r c.k).letters = v.letters ∧ (rightPart r c.k).letters = w.letters := by
  unfold compileWith at h
  split at h
  · simp [throw, throwThe, MonadExceptOf.throw] at h
  · rename_i hlen
    split at h
    · obtain ⟨_, a0, seqA, g0, gs, _, _, _, _, rfl, hchk⟩ := compileWI_sound _ _ _ _ _ _ _ h
      obtain ⟨r, h1, h2, h3⟩ := checkRes_true hchk
      exact ⟨_, r, rfl, h1, h2, h3⟩
    · split at h
      · obtain ⟨G, rfl, hchk⟩ := compileVNeI_sound _ _ _ _ _ _ h hb
        obtain ⟨r, h1, h2, h3⟩ := checkRes_true hchk
        exact ⟨G, r, rfl, h1, h2, h3⟩
      · rename_i hv
        obtain ⟨G, rfl, hchk⟩ := compileVI_sound _ _ _ _ _ h hb
        obtain ⟨r, h1, h2, h3⟩ := checkRes_true hchk
        refine ⟨G, r, rfl, h1, ?_, h3⟩
        have hid : v.isIdentity = true := by simpa using hv
        have hk : (v.len : Int) = c.k := by
          by_contra hne
          exact hlen (Or.inl hne)
        rw [h2, isIdentity_letters v hid, ← hk, Int.toNat_natCast]

theorem toPublic_ne_nil {G : List PS} (h : G ≠ []) : toPublic G ≠ [] := by
  cases G with
  | nil => exact absurd rfl h
  | cons g rest => simp [toPublic]

/-- **verified returns of `compile_target`** (all `N`, `2 ≤ k < N`, every target): a sequence returned
through a verified return is non-empty and its nested commutator in the documented orientation is
a string that READS as the target — never zero, never another string; it IS the target as soon as it
is well formed (which it is when the elements of the sequence are) -/
theorem verified_return (t : PS) (k n : Nat) (ht : t.WF) (hn : t.len = n) (hk : 2 ≤ k) (hkn : k < n)
    (b : Branch) (s : List PS) (h : compileTargetB t (k : Int) = .ok (b, s)) (hb : b.verified = true) :
    s ≠ [] ∧ ∃ r, nestedPublic s = .ok (some r) ∧ r.letters = t.letters ∧ (r.WF → r = t) := by
  rw [compileTargetB_eq t k n hn hk hkn] at h
  obtain ⟨G, r, rfl, hnest, hl, hr⟩ := compileWith_verified _ _ _ _ _ _ h hb
  have hG : G ≠ [] := by
    intro hG
    subst hG
    simp [nestedCommutatorResult, pure, Except.pure] at hnest
  refine ⟨toPublic_ne_nil hG, r, ?_, ?_, ?_⟩
  · rw [C05.orientation]; exact hnest
  · have hl' : r.letters.take k = t.letters.take k := by
      have := hl
      simp only [closedCtx] at this
      rw [leftPart_letters] at this
      rw [this]
      exact leftPart_letters t k
    have hr' : r.letters.drop k = t.letters.drop k := by
      have := hr
      simp only [closedCtx] at this
      rw [rightPart_letters] at this
      rw [this, ← hn]
      exact rightPart_letters t k
    rw [← List.take_append_drop k r.letters, hl', hr', List.take_append_drop]
  · intro hw
    have hl' : r.letters = t.letters := by
      have hl1 : r.letters.take k = t.letters.take k := by
        have := hl
        simp only [closedCtx] at this
        rw [leftPart_letters] at this
        rw [this]
        exact leftPart_letters t k
      have hr1 : r.letters.drop k = t.letters.drop k := by
        have := hr
        simp only [closedCtx] at this
        rw [rightPart_letters] at this
        rw [this, ← hn]
        exact rightPart_letters t k
      rw [← List.take_append_drop k r.letters, hl1, hr1, List.take_append_drop]
    rw [C04.WF_eq_ofLetters hw, C04.WF_eq_ofLetters ht, hl']


theorem extendLeft_closed (k n : Nat) (hkn : k < n) (l : List Letter) :
    extendLeft (closedCtx k n) (PS.ofLetters l) = .ok (PS.ofLetters (l ++ ident (n - k))) := by
  unfold extendLeft getIdentity
  have hnr : (closedCtx k n).nRight = ((n - k : Nat) : Int) := by simp only [closedCtx]; omega
  rw [hnr, identity_eq]
  simp only [liftAt, bind, Except.bind, pure, Except.pure, tensor_ofLetters]

theorem extendAll_mem (c : Ctx) : ∀ (l gs : List PS), extendAll c l = .ok gs →
    ∀ g ∈ gs, ∃ a ∈ l, extendLeft c a = .ok g := by
  intro l
  induction l with
  | nil => intro gs h g hg; simp [extendAll, pure, Except.pure] at h; subst h; cases hg
  | cons a rest ih =>
    intro gs h g hg
    unfold extendAll at h
    simp only [bind, Except.bind] at h
    split at h
    · cases h
    · rename_i e he
      split at h
      · cases h
      · rename_i es hes
        simp [pure, Except.pure] at h
        subst h
        rcases List.mem_cons.mp hg with rfl | hg
        · exact ⟨a, List.mem_cons_self .., he⟩
        · obtain ⟨a', ha', h'⟩ := ih _ hes g hg
          exact ⟨a', List.mem_cons_of_mem _ ha', h'⟩

theorem ext_in_uset (k n : Nat) (hkn : k < n) {a g : PS} (ha : a ∈ aset k)
    (hg : extendLeft (closedCtx k n) a = .ok g) : g ∈ (uLetters n k).map PS.ofLetters := by
  obtain ⟨l, hl, rfl⟩ := List.mem_map.mp ha
  rw [extendLeft_closed k n hkn] at hg
  cases hg
  refine List.mem_map.mpr ⟨l ++ ident (n - k), ?_, rfl⟩
  unfold uLetters
  exact List.mem_append_left _ (List.mem_map.mpr ⟨l, hl, rfl⟩)

/-- **the `W = I` branch is sound** (all `N`, `2 ≤ k < N`, every target whose right block is the
identity): whatever `compile_target` returns is a VALID sequence — non-empty, inside the universal
set, nested commutator `= c • M(target)`, `c ≠ 0` -/
theorem wI_return_valid (t : PS) (k n : Nat) (ht : t.WF) (hn : t.len = n) (hk : 2 ≤ k) (hkn : k < n)
    (hW : (t.getSubstring (k : Int) ((n : Int) - (k : Int))).isIdentity = true)
    (b : Branch) (s : List PS) (h : compileTargetB t (k : Int) = .ok (b, s)) :
    b = .wI ∧ validSeq (n : Int) (k : Int) t s = true := by
  have h0 := h
  rw [compileTargetB_eq t k n hn hk hkn] at h
  unfold compileWith at h
  split at h
  · simp [throw, throwThe, MonadExceptOf.throw] at h
  · obtain ⟨rfl, a0, seqA, g0, gs, ha0, hlm, hg0, hgs, rfl, hchk⟩ := compileWI_sound _ _ _ _ _ _ _ h
    refine ⟨rfl, ?_⟩
    obtain ⟨r', hwalk, _⟩ := leftMapOverA_sound _ _ _ _ hlm
    have hseq : ∀ x ∈ seqA, x ∈ aset k := hwalk.mem
    have hG : ∀ x ∈ g0 :: gs, x ∈ (uLetters n k).map PS.ofLetters := by
      intro x hx
      rcases List.mem_cons.mp hx with rfl | hx
      · exact ext_in_uset k n hkn ha0 hg0
      · obtain ⟨a, ha, hxa⟩ := extendAll_mem _ _ _ hgs x hx
        exact ext_in_uset k n hkn (hseq a ha) hxa
    have hS : ∀ x ∈ toPublic (g0 :: gs), x ∈ (uLetters n k).map PS.ofLetters := by
      intro x hx
      simp only [toPublic, List.mem_append, List.mem_reverse, List.mem_singleton] at hx
      rcases hx with hx | rfl
      · exact hG x (List.mem_cons_of_mem _ hx)
      · exact hG x (List.mem_cons_self ..)
    obtain ⟨hne, r, hr, _, hwf⟩ := verified_return t k n ht hn hk hkn _ _ h0 rfl
    have hrw : r.WF := by
      rcases C05.nestedPublic_matrix n _ hne (fun x hx => C05.mem_uset_wf (by omega) (hS x hx)) with
        ⟨r2, hr2, hw2, _⟩ | ⟨hr2, _⟩
      · rw [hr] at hr2; cases hr2; exact hw2
      · rw [hr] at hr2; cases hr2
    rw [hwf hrw] at hr
    exact (C05.validSeq_iff n k (by omega) hkn t _).mpr ⟨hne, hS, hr⟩

end CompilerSearch
end PauLie
