/-
The pivot bit.  If the right block `W` has at least two single-site factors, the first factor `b_0` is
never used by `subsystem_compiler`: the bit of `W` that `b_0` carries (the first set bit of `W`) is
clear in every element of the result.  Consequently no arrangement of those elements (together with
operators acting on the left block only) can evaluate to a string whose right block is `W`.
-/
import PauLieVerif.Proofs.CompilerSubLoop

namespace PauLie
namespace CompilerSearch
open Compiler C07

theorem encode_getD : ∀ (t : List Letter) (s : Nat),
    (encode t).getD (2 * s) false = (t.getD s .I).code.1 ∧ (encode t).getD (2 * s + 1) false = (t.getD s .I).code.2
  | [], s => by simp [encode, Letter.code]
  | l :: t, 0 => by simp [encode]
  | l :: t, s + 1 => by
    have := encode_getD t s
    have e1 : 2 * (s + 1) = 2 * s + 1 + 1 := by omega
    rw [e1]
    simpa [encode] using this

theorem single_getD (m s s' : Nat) (l : Letter) :
    (single m s l).getD s' .I = if s' = s ∧ s < m then l else .I := by
  simp only [single, List.getD_eq_getElem?_getD, List.getElem?_set, List.getElem?_replicate, List.length_replicate]
  by_cases h1 : s = s' <;> by_cases h2 : s < m <;> by_cases h3 : s' < m <;> simp [h1, h2, h3] <;> omega

/-- the only bits a single-site text can have -/
theorem encode_single_true (m s : Nat) (l : Letter) (p : Nat) (h : (encode (single m s l)).getD p false = true) :
    s < m ∧ ((p = 2 * s ∧ l.code.1 = true) ∨ (p = 2 * s + 1 ∧ l.code.2 = true)) := by
  rcases Nat.even_or_odd' p with ⟨s', rfl | rfl⟩
  · rw [(encode_getD _ s').1, single_getD] at h
    split at h
    · rename_i hc
      exact ⟨hc.2, Or.inl ⟨by rw [hc.1], h⟩⟩
    · simp [Letter.code] at h
  · rw [(encode_getD _ s').2, single_getD] at h
    split at h
    · rename_i hc
      exact ⟨hc.2, Or.inr ⟨by rw [hc.1], h⟩⟩
    · simp [Letter.code] at h

/-- the factors from site `j` on have no bits below `2j` -/
theorem facT_low (m : Nat) (ls : List Letter) (j : Nat) (b : List Letter) (hb : b ∈ facT m j ls) (p : Nat)
    (hp : p < 2 * j) : (encode b).getD p false = false := by
  obtain ⟨s, l, h1, _, _, rfl⟩ := facT_mem m ls j b hb
  cases hv : (encode (single m s l)).getD p false with
  | false => rfl
  | true =>
    obtain ⟨_, h | h⟩ := encode_single_true m s l p hv <;> omega

theorem getElem?_succ_mem {α} {l : List α} {i : Nat} {b : α} (h : l[i]? = some b) : b ∈ l :=
  List.mem_of_getElem? h

/-- **the pivot**: the first set bit of the letters is the bit of the first factor, and no later factor has it -/
theorem facT_pivot (m : Nat) : ∀ (ls : List Letter) (j : Nat), 1 ≤ (facT m j ls).length →
    ∃ p, 2 * j ≤ p ∧ p < 2 * (j + ls.length) ∧ (encode ls).getD (p - 2 * j) false = true ∧
      ∀ i b, 1 ≤ i → (facT m j ls)[i]? = some b → (encode b).getD p false = false := by
  intro ls
  induction ls with
  | nil => intro j h; simp [facT] at h
  | cons ch rest ih =>
    intro j hlen
    cases ch with
    | I =>
      have hf : facT m j (Letter.I :: rest) = facT m (j + 1) rest := by simp [facT, facLabels]
      rw [hf] at hlen ⊢
      obtain ⟨p, h1, h2, h3, h4⟩ := ih (j + 1) hlen
      refine ⟨p, by omega, by simp only [List.length_cons]; omega, ?_, h4⟩
      have e : p - 2 * j = (p - 2 * (j + 1)) + 1 + 1 := by omega
      rw [e]
      simpa [encode] using h3
    | X =>
      have hf : facT m j (Letter.X :: rest) = single m j .X :: facT m (j + 1) rest := by simp [facT, facLabels]
      rw [hf]
      refine ⟨2 * j, Nat.le_refl _, by simp only [List.length_cons]; omega, by simp [encode, Letter.code], ?_⟩
      intro i b hi hb
      obtain ⟨i', rfl⟩ : ∃ i', i = i' + 1 := ⟨i - 1, by omega⟩
      rw [List.getElem?_cons_succ] at hb
      exact facT_low m rest (j + 1) b (List.mem_of_getElem? hb) _ (by omega)
    | Z =>
      have hf : facT m j (Letter.Z :: rest) = single m j .Z :: facT m (j + 1) rest := by simp [facT, facLabels]
      rw [hf]
      refine ⟨2 * j + 1, by omega, by simp only [List.length_cons]; omega, ?_, ?_⟩
      · have e : 2 * j + 1 - 2 * j = 1 := by omega
        rw [e]
        simp [encode, Letter.code]
      · intro i b hi hb
        obtain ⟨i', rfl⟩ : ∃ i', i = i' + 1 := ⟨i - 1, by omega⟩
        rw [List.getElem?_cons_succ] at hb
        exact facT_low m rest (j + 1) b (List.mem_of_getElem? hb) _ (by omega)
    | Y =>
      have hf : facT m j (Letter.Y :: rest) = single m j .X :: single m j .Z :: facT m (j + 1) rest := by
        simp [facT, facLabels]
      rw [hf]
      refine ⟨2 * j, Nat.le_refl _, by simp only [List.length_cons]; omega, by simp [encode, Letter.code], ?_⟩
      intro i b hi hb
      obtain ⟨i', rfl⟩ : ∃ i', i = i' + 1 := ⟨i - 1, by omega⟩
      rw [List.getElem?_cons_succ] at hb
      cases i' with
      | zero =>
        simp at hb
        subst hb
        rw [(encode_getD _ j).1, single_getD]
        split <;> rfl
      | succ i'' =>
        rw [List.getElem?_cons_succ] at hb
        exact facT_low m rest (j + 1) b (List.mem_of_getElem? hb) _ (by omega)

/-! ### bits of the strings the compiler builds -/

theorem bitOf_tensor_right (u b : PS) (k p : Nat) (hu : u.bits.length = 2 * k) :
    bitOf (2 * k + p) (PS.tensor u b) = b.bits.getD p false := by
  simp only [bitOf, PS.tensor, PS.ofBits]
  rw [List.getD_eq_getElem?_getD, List.getElem?_append_right (by omega), List.getD_eq_getElem?_getD]
  congr 2
  omega

theorem bits_ofLetters (t : List Letter) : (PS.ofLetters t).bits = encode t := rfl

theorem bitOf_ext_right (t : List Letter) (k r p : Nat) (ht : t.length = k) :
    bitOf (2 * k + p) (PS.ofLetters (t ++ ident r)) = false := by
  simp only [bitOf, bits_ofLetters, C18.encode_append]
  rw [List.getD_eq_getElem?_getD, List.getElem?_append_right (by rw [C04.length_encode]; omega)]
  simp only [ident, C18.encode_replicate_I, List.getElem?_replicate]
  split <;> rfl

end CompilerSearch
end PauLie
