/-
Helpers for property C19, part 33: the NUMBER of strings in a closed form with site-periodic symmetry strings
(families a5 and a3).

 * `length_filter_allV_snoc`: counting over `allV` with the LAST site split off (through the reversal of strings, a
   permutation of `allV m`);
 * `cntS m s`: the number of strings on `m` sites with `(ω(x, A), ω(x, B), qW x) = s`; adding a site on the right
   shifts `s` by the contribution of the new letter (`cntS_succ`), so `8·cntS m s = 4^m + E(m mod L, s)·2^m` for a table
   `E` that satisfies the finite transfer identity (`cntS_closed`; the table and the identity are family-specific and
   checked by evaluation);
 * `stP c n`: the same triple for the restriction of the member `c` of the span to `n` sites, periodic in `n`
   (`stP_closed`);
 * `count_TP`: `|TP| + |{non-zero members of the span satisfying the three conditions}| = cntS n (0,0,1)`.
-/
import PauLieVerif.Proofs.C19LastPatLemmas
import Mathlib.Tactic.Ring
import Mathlib.Tactic.Linarith
import Mathlib.Tactic.LinearCombination

namespace PauLie
namespace C19
open Closure Graph C01Star C03

theorem allV_reverse_perm (m : Nat) : ((allV m).map List.reverse).Perm (allV m) := by
  rw [List.perm_ext_iff_of_nodup (nodup_map_on (fun x _ y _ h => List.reverse_inj.1 h) (nodup_allV m)) (nodup_allV m)]
  intro x
  simp only [List.mem_map, mem_allV]
  constructor
  · rintro ⟨y, hy, rfl⟩; simp [hy]
  · intro h; exact ⟨x.reverse, by simp [h], by simp⟩

theorem length_filter_reverse (P : V → Bool) (m : Nat) :
    ((allV m).filter (fun v => P v.reverse)).length = ((allV m).filter P).length := by
  have h := ((allV_reverse_perm m).filter P).length_eq
  rw [List.filter_map, List.length_map] at h
  exact h

theorem sum_map_add' (l : List V) (f g : V → Nat) : (l.map (fun v => f v + g v)).sum = (l.map f).sum + (l.map g).sum := by
  induction l with
  | nil => rfl
  | cons a t ih => simp only [List.map_cons, List.sum_cons, ih]; omega

theorem sum_ind (l : List V) (Q : V → Bool) : (l.map (fun v => if Q v then 1 else 0)).sum = (l.filter Q).length := by
  have := sum_map_ite_add l Q 1 0
  simpa using this

/-- counting with the last site split off -/
theorem length_filter_allV_snoc (P : V → Bool) (m : Nat) :
    ((allV (m + 2)).filter P).length =
      ((allV m).filter (fun v => P (v ++ [false, false]))).length + ((allV m).filter (fun v => P (v ++ [false, true]))).length +
      ((allV m).filter (fun v => P (v ++ [true, false]))).length + ((allV m).filter (fun v => P (v ++ [true, true]))).length := by
  rw [← length_filter_reverse P (m + 2), length_filter_allV_add_two]
  have hrev : ∀ (a b : Bool) (v : V), (a :: b :: v).reverse = v.reverse ++ [b, a] := by intro a b v; simp
  simp only [hrev]
  rw [sum_map_add' _ (fun v => (if P (v.reverse ++ [false, false]) then 1 else 0) + (if P (v.reverse ++ [false, true]) then 1 else 0) +
      (if P (v.reverse ++ [true, false]) then 1 else 0)) (fun v => if P (v.reverse ++ [true, true]) then 1 else 0),
    sum_map_add' _ (fun v => (if P (v.reverse ++ [false, false]) then 1 else 0) + (if P (v.reverse ++ [false, true]) then 1 else 0))
      (fun v => if P (v.reverse ++ [true, false]) then 1 else 0),
    sum_map_add' _ (fun v => if P (v.reverse ++ [false, false]) then 1 else 0) (fun v => if P (v.reverse ++ [false, true]) then 1 else 0)]
  rw [sum_ind _ (fun v => P (v.reverse ++ [false, false])), sum_ind _ (fun v => P (v.reverse ++ [false, true])),
    sum_ind _ (fun v => P (v.reverse ++ [true, false])), sum_ind _ (fun v => P (v.reverse ++ [true, true]))]
  rw [length_filter_reverse (fun u => P (u ++ [false, false])) m, length_filter_reverse (fun u => P (u ++ [false, true])) m,
    length_filter_reverse (fun u => P (u ++ [true, false])) m, length_filter_reverse (fun u => P (u ++ [true, true])) m]

/-! ### the distribution of `(ω(x, A), ω(x, B), qW x)` -/

section Cnt
variable (A B w : Lt)

def condS (sA sB sQ : Bool) (v : V) : Bool := (omP A 0 v == sA) && (omP B 0 v == sB) && (qW w 0 v == sQ)

def cntS (m : Nat) (sA sB sQ : Bool) : Nat := ((allV (2 * m)).filter (condS A B w sA sB sQ)).length

theorem cntS_succ (m : Nat) (sA sB sQ : Bool) : cntS A B w (m + 1) sA sB sQ =
    cntS A B w m (sA != omP A m [false, false]) (sB != omP B m [false, false]) (sQ != qW w m [false, false]) +
    cntS A B w m (sA != omP A m [false, true]) (sB != omP B m [false, true]) (sQ != qW w m [false, true]) +
    cntS A B w m (sA != omP A m [true, false]) (sB != omP B m [true, false]) (sQ != qW w m [true, false]) +
    cntS A B w m (sA != omP A m [true, true]) (sB != omP B m [true, true]) (sQ != qW w m [true, true]) := by
  have key : ∀ a b : Bool, ((allV (2 * m)).filter (fun v => condS A B w sA sB sQ (v ++ [a, b]))).length =
      cntS A B w m (sA != omP A m [a, b]) (sB != omP B m [a, b]) (sQ != qW w m [a, b]) := by
    intro a b
    unfold cntS
    congr 1
    apply List.filter_congr
    intro v hv
    have hl := mem_allV.1 hv
    simp only [condS, omP_append _ m 0 v _ hl, qW_append w m 0 v _ hl, Nat.zero_add]
    cases omP A 0 v <;> cases omP B 0 v <;> cases qW w 0 v <;> cases omP A m [a, b] <;> cases omP B m [a, b] <;>
      cases qW w m [a, b] <;> cases sA <;> cases sB <;> cases sQ <;> rfl
  unfold cntS at key ⊢
  rw [show 2 * (m + 1) = 2 * m + 2 by omega, length_filter_allV_snoc, key, key, key, key]

/-- **closed form of the distribution** from a table satisfying the transfer identity -/
theorem cntS_closed {L : Nat} (hL : 0 < L) (hA : PerP L A) (hB : PerP L B) (hw : PerP L w)
    (E : Nat → Bool → Bool → Bool → Int)
    (hbase : ∀ sA sB sQ, (8 * (cntS A B w 1 sA sB sQ : Int)) = 4 + 2 * E (1 % L) sA sB sQ)
    (hstep : ∀ r, r < L → ∀ sA sB sQ,
      E r (sA != omP A r [false, false]) (sB != omP B r [false, false]) (sQ != qW w r [false, false]) +
      E r (sA != omP A r [false, true]) (sB != omP B r [false, true]) (sQ != qW w r [false, true]) +
      E r (sA != omP A r [true, false]) (sB != omP B r [true, false]) (sQ != qW w r [true, false]) +
      E r (sA != omP A r [true, true]) (sB != omP B r [true, true]) (sQ != qW w r [true, true]) =
      2 * E ((r + 1) % L) sA sB sQ) :
    ∀ m, 1 ≤ m → ∀ sA sB sQ, (8 * (cntS A B w m sA sB sQ : Int)) = 4 ^ m + E (m % L) sA sB sQ * 2 ^ m := by
  intro m hm
  induction m, hm using Nat.le_induction with
  | base => intro sA sB sQ; rw [hbase]; ring
  | succ m _ ih =>
    intro sA sB sQ
    have e : (m + 1) % L = (m % L + 1) % L := by rw [Nat.add_mod m 1, Nat.add_mod (m % L) 1, Nat.mod_mod]
    have pA : ∀ g : V, omP A m g = omP A (m % L) g := fun g => omP_congr g m (m % L) (hA.shift m)
    have pB : ∀ g : V, omP B m g = omP B (m % L) g := fun g => omP_congr g m (m % L) (hB.shift m)
    have pw : ∀ g : V, qW w m g = qW w (m % L) g := fun g => by rw [qW, qW, omP_congr g m (m % L) (hw.shift m)]
    have h := hstep (m % L) (Nat.mod_lt _ hL) sA sB sQ
    rw [cntS_succ, e, pA, pA, pA, pA, pB, pB, pB, pB, pw, pw, pw, pw]
    push_cast
    have i1 := ih (sA != omP A (m % L) [false, false]) (sB != omP B (m % L) [false, false]) (sQ != qW w (m % L) [false, false])
    have i2 := ih (sA != omP A (m % L) [false, true]) (sB != omP B (m % L) [false, true]) (sQ != qW w (m % L) [false, true])
    have i3 := ih (sA != omP A (m % L) [true, false]) (sB != omP B (m % L) [true, false]) (sQ != qW w (m % L) [true, false])
    have i4 := ih (sA != omP A (m % L) [true, true]) (sB != omP B (m % L) [true, true]) (sQ != qW w (m % L) [true, true])
    rw [pow_succ, pow_succ]
    linear_combination i1 + i2 + i3 + i4 + (2 : Int) ^ m * h

/-! ### the members of the span -/

/-- the restriction of `l` to the sites `i, …, i + n − 1` -/
def patV (l : Lt) : Nat → Nat → V
  | _, 0 => []
  | i, n + 1 => (l i).1 :: (l i).2 :: patV l (i + 1) n

theorem length_patV (l : Lt) : ∀ (n i : Nat), (patV l i n).length = 2 * n
  | 0, _ => rfl
  | n + 1, i => by simp [patV, length_patV l n (i + 1)]; omega

theorem patV_snoc (l : Lt) : ∀ (n i : Nat), patV l i (n + 1) = patV l i n ++ [(l (i + n)).1, (l (i + n)).2]
  | 0, i => by simp [patV]
  | n + 1, i => by
    rw [patV, patV_snoc l n (i + 1), patV, show i + 1 + n = i + (n + 1) by omega]
    rfl

theorem isP_iff_patV (l : Lt) : ∀ (n i : Nat) (x : V), x.length = 2 * n → (isP l i x = true ↔ x = patV l i n)
  | 0, _, [], _ => by simp [isP, patV]
  | 0, _, _ :: _, h => by simp at h
  | n + 1, _, [], h => by simp at h
  | n + 1, _, [_], h => by simp at h; omega
  | n + 1, i, a :: b :: r, h => by
    simp only [isP, patV, Bool.and_eq_true, beq_iff_eq, List.cons.injEq, isP_iff_patV l n (i + 1) r (by simp at h; omega)]
    constructor
    · rintro ⟨⟨h1, h2⟩, h3⟩; exact ⟨h1, h2, h3⟩
    · rintro ⟨h1, h2, h3⟩; exact ⟨⟨h1, h2⟩, h3⟩

/-- `(ω(s, A), ω(s, B), qW s)` for the restriction `s` of the member `c` of the span to `n` sites -/
def stP (c1 c2 : Bool) (n : Nat) : Bool × Bool × Bool :=
  (omP A 0 (patV (spn A B c1 c2) 0 n), omP B 0 (patV (spn A B c1 c2) 0 n), qW w 0 (patV (spn A B c1 c2) 0 n))

theorem stP_succ (c1 c2 : Bool) (n : Nat) : stP A B w c1 c2 (n + 1) =
    ((stP A B w c1 c2 n).1 != omP A n [(spn A B c1 c2 n).1, (spn A B c1 c2 n).2],
     (stP A B w c1 c2 n).2.1 != omP B n [(spn A B c1 c2 n).1, (spn A B c1 c2 n).2],
     (stP A B w c1 c2 n).2.2 != qW w n [(spn A B c1 c2 n).1, (spn A B c1 c2 n).2]) := by
  simp only [stP, patV_snoc, Nat.zero_add, omP_append _ n 0 _ _ (length_patV _ n 0), qW_append w n 0 _ _ (length_patV _ n 0)]

theorem stP_closed {L : Nat} (hL : 0 < L) (hA : PerP L A) (hB : PerP L B) (hw : PerP L w) (c1 c2 : Bool)
    (G : Nat → Bool × Bool × Bool) (h0 : G 0 = (false, false, false))
    (hstep : ∀ r, r < L → G ((r + 1) % L) =
      ((G r).1 != omP A r [(spn A B c1 c2 r).1, (spn A B c1 c2 r).2],
       (G r).2.1 != omP B r [(spn A B c1 c2 r).1, (spn A B c1 c2 r).2],
       (G r).2.2 != qW w r [(spn A B c1 c2 r).1, (spn A B c1 c2 r).2])) :
    ∀ n, stP A B w c1 c2 n = G (n % L)
  | 0 => by simp [stP, patV, omP, qW, qY, h0]
  | n + 1 => by
    have e : (n + 1) % L = (n % L + 1) % L := by rw [Nat.add_mod n 1, Nat.add_mod (n % L) 1, Nat.mod_mod]
    have hs : spn A B c1 c2 n = spn A B c1 c2 (n % L) := by
      have := (hA.sp hB c1 c2).shift n 0
      simpa using this
    rw [stP_succ, stP_closed hL hA hB hw c1 c2 G h0 hstep n, e, hstep (n % L) (Nat.mod_lt _ hL), hs,
      omP_congr _ n (n % L) (hA.shift n), omP_congr _ n (n % L) (hB.shift n), qW, qW, omP_congr _ n (n % L) (hw.shift n)]

/-- the non-zero members of the span, restricted to `n` sites -/
def spanL (n : Nat) : List V := [patV (spn A B true false) 0 n, patV (spn A B false true) 0 n, patV (spn A B true true) 0 n]

theorem nodup_spanL (hne : NoId A B) (n : Nat) : (spanL A B (n + 1)).Nodup := by
  have h1 := hne 0 true false rfl
  have h2 := hne 0 false true rfl
  have h3 := hne 0 true true rfl
  simp only [spanL, patV, spn] at h1 h2 h3 ⊢
  revert h1 h2 h3
  cases (A 0).1 <;> cases (A 0).2 <;> cases (B 0).1 <;> cases (B 0).2 <;> simp

/-- **the number of strings in the closed form** -/
theorem count_TP (hne : NoId A B) (n : Nat) :
    ((allV (2 * (n + 1))).filter (TP A B w 0)).length + ((spanL A B (n + 1)).filter (condS A B w false false true)).length =
      cntS A B w (n + 1) false false true := by
  have hrem := length_filter_remove (nodup_allV (2 * (n + 1))) (condS A B w false false true)
    ((spanL A B (n + 1)).filter (condS A B w false false true)) ((nodup_spanL A B hne n).filter _) (by
      intro y hy
      obtain ⟨hy1, hy2⟩ := List.mem_filter.1 hy
      refine ⟨mem_allV.2 ?_, hy2⟩
      simp only [spanL, List.mem_cons, List.not_mem_nil, or_false] at hy1
      rcases hy1 with rfl | rfl | rfl <;> exact length_patV _ _ _)
  rw [cntS, ← hrem]
  congr 2
  apply List.filter_congr
  intro x hx
  have hl := mem_allV.1 hx
  have hc : ((spanL A B (n + 1)).filter (condS A B w false false true)).contains x =
      (condS A B w false false true x && (isP (spn A B true false) 0 x || isP (spn A B false true) 0 x || isP (spn A B true true) 0 x)) := by
    rw [Bool.eq_iff_iff]
    simp only [List.contains_iff_mem, List.mem_filter, spanL, List.mem_cons, List.not_mem_nil, or_false, Bool.and_eq_true,
      Bool.or_eq_true, isP_iff_patV _ (n + 1) 0 x hl]
    constructor
    · rintro ⟨h, hp⟩; exact ⟨hp, by rcases h with h | h | h <;> simp [h]⟩
    · rintro ⟨hp, h⟩; exact ⟨by rcases h with (h | h) | h <;> simp [h], hp⟩
  rw [hc]
  -- the zero string has `qW = 0`
  have hz : qW w 0 x = true → isP (spn A B false false) 0 x = false := by
    intro hq
    rw [isP_zero_iff A B 0 x (by omega)]
    cases hzz : isZ x
    · rfl
    · rw [(isZ_iff x).1 hzz, zeroV, qW_replicate] at hq; cases hq
  simp only [TP, trP, condS]
  cases h1 : omP A 0 x <;> cases h2 : omP B 0 x <;> cases h3 : qW w 0 x <;> simp
  have := hz h3
  rw [this]
  cases isP (spn A B true false) 0 x <;> cases isP (spn A B false true) 0 x <;> cases isP (spn A B true true) 0 x <;> rfl

/-- "the triple is `(0, 0, 1)`" -/
def indS (g : Bool × Bool × Bool) : Nat := if (!g.1 && !g.2.1 && g.2.2) then 1 else 0

theorem length_filter3 (f : V → Bool) (x y z : V) : ([x, y, z].filter f).length =
    (if f x then 1 else 0) + (if f y then 1 else 0) + (if f z then 1 else 0) := by
  cases h1 : f x <;> cases h2 : f y <;> cases h3 : f z <;> simp [List.filter, h1, h2, h3]

theorem indS_stP (c1 c2 : Bool) (n : Nat) : indS (stP A B w c1 c2 n) =
    (if condS A B w false false true (patV (spn A B c1 c2) 0 n) then 1 else 0) := by
  have bool3 : ∀ a b c : Bool, (!a && !b && c) = (a == false && b == false && c == true) := by
    intro a b c; cases a <;> cases b <;> cases c <;> rfl
  simp only [indS, stP, condS, bool3]
  rfl

/-- the number of non-zero members of the span that satisfy the three conditions -/
theorem length_exc (n : Nat) : ((spanL A B n).filter (condS A B w false false true)).length =
    indS (stP A B w true false n) + indS (stP A B w false true n) + indS (stP A B w true true n) := by
  rw [spanL, length_filter3, indS_stP, indS_stP, indS_stP]

end Cnt

/-! ### dimensions of the names that occur in the rows a3, a5 -/

open TwoLocal Classify in
theorem dimOfName_so4 (k : Nat) : dimOfName [so (2 ^ k) 4] = 4 * dimOfName [so (2 ^ k)] := by
  simp [dimOfName, Summand.dim, so]

open TwoLocal Classify in
theorem dimOfName_su2 (k : Nat) : dimOfName [su (2 ^ k) 2] + 2 = 2 * 4 ^ k := by
  have h2 : (2 ^ k) ^ 2 = 4 ^ k := by rw [← Nat.pow_mul, Nat.mul_comm, Nat.pow_mul]
  have hp : 1 ≤ 4 ^ k := Nat.pow_pos (by omega)
  simp only [dimOfName, Summand.dim, su, dimSU, h2, List.map_cons, List.map_nil, List.foldl_cons, List.foldl_nil]
  omega

open TwoLocal Classify in
theorem dimOfName_sp_pow (m : Nat) : dimOfName [TwoLocal.sp (2 ^ m)] = 2 * 4 ^ m + 2 ^ m := by
  have h4 : (4 : Nat) ^ m = 2 ^ m * 2 ^ m := by rw [show (4 : Nat) = 2 * 2 from rfl, Nat.mul_pow]
  simp only [dimOfName, Summand.dim, TwoLocal.sp, dimSP, List.map_cons, List.map_nil, List.foldl_cons, List.foldl_nil]
  rw [h4, Nat.mul_add, Nat.mul_one, ← Nat.mul_assoc, Nat.mul_comm (2 ^ m) 2, Nat.mul_assoc]
  omega

open TwoLocal Classify in
theorem dimOfName_sp_pow_u1 (m : Nat) : dimOfName [TwoLocal.sp (2 ^ m), u1] = 2 * 4 ^ m + 2 ^ m + 1 := by
  have := dimOfName_sp_pow m
  simp only [dimOfName, Summand.dim, TwoLocal.sp, u1, List.map_cons, List.map_nil, List.foldl_cons, List.foldl_nil] at this ⊢
  omega

open TwoLocal Classify in
theorem dimOfName_sp4 (k : Nat) : dimOfName [TwoLocal.sp (2 ^ k) 4] = 4 * (2 * 4 ^ k + 2 ^ k) := by
  have := dimOfName_sp_pow k
  simp only [dimOfName, Summand.dim, TwoLocal.sp, List.map_cons, List.map_nil, List.foldl_cons, List.foldl_nil] at this ⊢
  omega

end C19
end PauLie
