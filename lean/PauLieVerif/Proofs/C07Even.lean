/-
Universality of the universal set for EVEN `k`, for ALL `N` (helpers for `Properties/C07Even.lean`).

Everything is done on texts (`List Letter`); `TClo N k t` says that the text `t` lies in the commutator
closure `Closure.Clo` of the universal set `uBits N k`.  A text of length `N` is split `V ++ W` into the left
block (`k` sites) and the right block (`N - k` sites).

1. `tclo_lift` — the padded left generators `a ⊗ I…I` are members, and they act on `V ⊗ W` exactly as `a` acts on
   `V`; so a connection `Conn (LGen k) p q` of the left walk graph carries `p ⊗ W ∈ Clo` to `q ⊗ W ∈ Clo`.  For even
   `k` the left walk graph is connected on the non-identity texts (`conn_even`, from `Proofs/CompilerEven.lean`):
   **if `V₀ ⊗ W ∈ Clo` for ONE `V₀ ≠ I` then `V ⊗ W ∈ Clo` for EVERY `V ≠ I`**.
2. `tclo_nonid_left` — induction on the number of set bits of `W` (`wt`: `X`,`Z` count 1, `Y` counts 2).  `W = I`:
   `X_1 ⊗ I` is a member.  Otherwise peel one bit: `W = W'·e`, `e = X_j` or `Z_j` (`peel`); `X_1 ⊗ W'` is in the
   closure by induction, `B ⊗ e` for every `B ≠ I` by step 1 from the member `X_1 ⊗ e`; choose `B = Z_1` if `W'`,`e`
   commute and `B = X_2` if they anticommute (this is where `k ≥ 2` is used): then `X_1 ⊗ W'` and `B ⊗ e`
   anticommute and their product is `(X_1·B) ⊗ W` with `X_1·B ≠ I`; step 1 finishes.
3. `tclo_id_left` — `I ⊗ W`, `W ≠ I`: pick `e = X_j` or `Z_j` anticommuting with `W` (`anti_peel`); the member
   `X_1 ⊗ e` and `X_1 ⊗ (e·W)` (step 2) anticommute and their product is `I ⊗ W`.
-/
import PauLieVerif.Proofs.CompilerEven
import PauLieVerif.Proofs.C07Anchors
import PauLieVerif.Proofs.Bridge

namespace PauLie
namespace C07

open Compiler Closure CompilerSearch
open C14 (lanti lmul wanti wmul)

/-- the text `t` lies in the commutator closure of the universal set -/
def TClo (N k : Nat) (t : List Letter) : Prop := Clo (uBits N k) (encode t)

theorem tclo_base {N k : Nat} {t : List Letter} (h : t ∈ uLetters N k) : TClo N k t := by
  apply Clo.base
  simp only [uBits, List.map_map, List.mem_map, Function.comp]
  exact ⟨t, h, rfl⟩

/-- the closure is closed under products of anticommuting members, on texts -/
theorem tclo_step {N k : Nat} {a b : List Letter} (ha : TClo N k a) (hb : TClo N k b)
    (hw : wanti a b = true) : TClo N k (wmul a b) := by
  have h := Clo.step ha hb (by rw [Bridge.omega_encode]; exact hw)
  rwa [Bridge.add_eq_zipWith, C14.xor_encode] at h

/-! ### block structure of `wanti`, `wmul` -/

theorem wanti_append : ∀ (a c b d : List Letter), a.length = c.length →
    wanti (a ++ b) (c ++ d) = (wanti a c != wanti b d)
  | [], [], b, d, _ => by simp [wanti]
  | x :: a, y :: c, b, d, h => by
    have ih := wanti_append a c b d (by simpa using h)
    simp only [List.cons_append, wanti, ih]
    cases lanti x y <;> cases wanti a c <;> cases wanti b d <;> rfl
  | [], _ :: _, _, _, h => by simp at h
  | _ :: _, [], _, _, h => by simp at h

theorem wmul_append (a c b d : List Letter) (h : a.length = c.length) :
    wmul (a ++ b) (c ++ d) = wmul a c ++ wmul b d := by
  simp only [wmul]
  exact List.zipWith_append h

theorem wmul_ident_right (p : List Letter) : wmul p (ident p.length) = p := by
  rw [C14.wmul_comm, wmul_ident]

theorem wmul_self : ∀ (v : List Letter), wmul v v = ident v.length
  | [] => rfl
  | c :: v => by
    have ih := wmul_self v
    simp only [wmul, ident] at ih
    simp only [wmul, ident, List.zipWith_cons_cons, List.length_cons, List.replicate_succ, ih]
    cases c <;> rfl

theorem hasN_append : ∀ (a b : List Letter), hasN (a ++ b) = (hasN a || hasN b)
  | [], b => by simp [hasN]
  | c :: a, b => by simp [hasN, hasN_append a b, Bool.or_assoc]

theorem eq_ident_of_hasN_false : ∀ (w : List Letter), hasN w = false → w = ident w.length
  | [], _ => rfl
  | c :: w, h => by
    simp only [hasN, Bool.or_eq_false_iff] at h
    have ih := eq_ident_of_hasN_false w h.2
    cases c
    · simp only [ident, List.length_cons, List.replicate_succ]
      exact congrArg _ ih
    all_goals exact absurd h.1 (by decide)

theorem hasN_ident : ∀ (n : Nat), hasN (ident n) = false
  | 0 => rfl
  | n + 1 => by
    have := hasN_ident n
    simp only [ident] at this
    simp [ident, List.replicate_succ, hasN, this]

/-! ### step 1: the left walk graph acts on `V ⊗ W` -/

/-- for even `k` any two non-identity left texts are connected over `left_a_minimal(k)` -/
theorem conn_even {k : Nat} (heven : k % 2 = 0) {p q : List Letter} (hp : p.length = k) (hq : q.length = k)
    (hpn : hasN p = true) (hqn : hasN q = true) : Conn (LGen k) p q := by
  have hlp : ∀ x : List Letter, x.length = k → lenPar x = false := by
    intro x hx; rw [lenPar_eq, hx, heven]; rfl
  have c1 := conn_full p (hlp p hp) hpn
  have c2 := conn_full q (hlp q hq) hqn
  rw [hp] at c1
  rw [hq] at c2
  exact c1.trans (c2.symm_L hq)

/-- a connection of left texts lifts to the closure, for any fixed right block -/
theorem tclo_lift {N k : Nat} {p q : List Letter} (h : Conn (LGen k) p q) (hp : p.length = k)
    (W : List Letter) (hW : W.length = N - k) (hc : TClo N k (p ++ W)) : TClo N k (q ++ W) := by
  induction h with
  | refl p => exact hc
  | @step p r a ha hw _ ih =>
    have hak : a.length = k := length_of_mem_leftLetters (LGen_mem ha)
    have hal : a.length = p.length := by rw [hak, hp]
    apply ih (by rw [C14.wmul_length a p hal, hak])
    have hmem : a ++ ident (N - k) ∈ uLetters N k := by
      simp only [uLetters, List.mem_append, List.mem_map]
      exact Or.inl ⟨a, LGen_mem ha, rfl⟩
    have h1 := tclo_step (tclo_base hmem) hc (by rw [wanti_append _ _ _ _ hal, hw, wanti_ident]; rfl)
    rwa [wmul_append _ _ _ _ hal, ← hW, wmul_ident] at h1

/-- **one non-identity left factor gives all** (even `k`) -/
theorem tclo_all_left {N k : Nat} (heven : k % 2 = 0) {V0 V W : List Letter} (hV0 : V0.length = k)
    (hV : V.length = k) (hn0 : hasN V0 = true) (hn : hasN V = true) (hW : W.length = N - k)
    (hc : TClo N k (V0 ++ W)) : TClo N k (V ++ W) :=
  tclo_lift (conn_even heven hV0 hV hn0 hn) hV0 W hW hc

/-! ### concrete left texts -/

theorem x0_mem_left {k : Nat} (hk : 1 ≤ k) : single k 0 .X ∈ leftLetters k :=
  mem_leftLetters.mpr (Or.inl ⟨0, by omega, Or.inl rfl⟩)

theorem hasN_x0 {k : Nat} (hk : 1 ≤ k) : hasN (single k 0 .X) = true := by
  obtain ⟨k', rfl⟩ : ∃ k', k = k' + 1 := ⟨k - 1, by omega⟩
  rw [CompilerSearch.single_zero]; rfl

theorem x0_z0 {k : Nat} (hk : 1 ≤ k) :
    wanti (single k 0 .X) (single k 0 .Z) = true ∧ hasN (wmul (single k 0 .X) (single k 0 .Z)) = true := by
  obtain ⟨k', rfl⟩ : ∃ k', k = k' + 1 := ⟨k - 1, by omega⟩
  rw [CompilerSearch.single_zero, CompilerSearch.single_zero]
  constructor
  · simp only [wanti, wanti_ident]; rfl
  · rfl

theorem x0_x1 {k : Nat} (hk : 2 ≤ k) :
    wanti (single k 0 .X) (single k 1 .X) = false ∧ hasN (wmul (single k 0 .X) (single k 1 .X)) = true := by
  obtain ⟨k', rfl⟩ : ∃ k', k = k' + 2 := ⟨k - 2, by omega⟩
  rw [CompilerSearch.single_zero, CompilerSearch.single_succ, CompilerSearch.single_zero]
  constructor
  · simp only [ident, List.replicate_succ, wanti, wanti_ident]
    rfl
  · rfl

/-! ### step 2: induction on the number of set bits of the right block -/

/-- number of set bits of a letter -/
def lwt : Letter → Nat
  | .I => 0
  | .X => 1
  | .Z => 1
  | .Y => 2

/-- number of set bits of a text -/
def wt : List Letter → Nat
  | [] => 0
  | c :: w => lwt c + wt w

theorem eq_ident_of_wt_zero : ∀ (w : List Letter), wt w = 0 → w = ident w.length
  | [], _ => rfl
  | c :: w, h => by
    simp only [wt] at h
    have ih := eq_ident_of_wt_zero w (by omega)
    cases c
    · simp only [ident, List.length_cons, List.replicate_succ]
      exact congrArg _ ih
    all_goals simp [lwt] at h

/-- peel one bit off a text: `W = W'·e` with `e = X_j` or `Z_j` and `W'` one bit lighter -/
theorem peel : ∀ (W : List Letter) (n : Nat), wt W = n + 1 →
    ∃ j l W', j < W.length ∧ (l = Letter.X ∨ l = Letter.Z) ∧ W'.length = W.length ∧ wt W' = n ∧
      wmul W' (single W.length j l) = W
  | [], n, h => by simp [wt] at h
  | c :: W, n, h => by
    cases c with
    | I =>
      obtain ⟨j, l, W', hj, hl, hlen, hwt, hmul⟩ := peel W n (by simpa [wt, lwt] using h)
      refine ⟨j + 1, l, .I :: W', by simpa using hj, hl, by simp [hlen], by simpa [wt, lwt] using hwt, ?_⟩
      simp only [List.length_cons, CompilerSearch.single_succ]
      simp only [wmul] at hmul
      simp only [wmul, List.zipWith_cons_cons, hmul]
      rfl
    | X =>
      refine ⟨0, .X, .I :: W, by simp, Or.inl rfl, rfl, by simp [wt, lwt] at h ⊢; omega, ?_⟩
      simp only [List.length_cons, CompilerSearch.single_zero]
      have := wmul_ident_right W
      simp only [wmul] at this
      simp only [wmul, List.zipWith_cons_cons, this]
      rfl
    | Z =>
      refine ⟨0, .Z, .I :: W, by simp, Or.inr rfl, rfl, by simp [wt, lwt] at h ⊢; omega, ?_⟩
      simp only [List.length_cons, CompilerSearch.single_zero]
      have := wmul_ident_right W
      simp only [wmul] at this
      simp only [wmul, List.zipWith_cons_cons, this]
      rfl
    | Y =>
      refine ⟨0, .X, .Z :: W, by simp, Or.inl rfl, rfl, by simp [wt, lwt] at h ⊢; omega, ?_⟩
      simp only [List.length_cons, CompilerSearch.single_zero]
      have := wmul_ident_right W
      simp only [wmul] at this
      simp only [wmul, List.zipWith_cons_cons, this]
      rfl

/-- the members `X_1 ⊗ X_j`, `X_1 ⊗ Z_j` -/
theorem x0_single_mem {N k j : Nat} {l : Letter} (hj : j < N - k) (hl : l = Letter.X ∨ l = Letter.Z) :
    single k 0 .X ++ single (N - k) j l ∈ uLetters N k := by
  simp only [uLetters, List.mem_append, List.mem_map, List.mem_range]
  right
  refine ⟨single (N - k) j l, ?_, rfl⟩
  rcases hl with rfl | rfl
  · exact Or.inl ⟨j, hj, rfl⟩
  · exact Or.inr ⟨j, hj, rfl⟩

/-- **every `V ⊗ X_j`, `V ⊗ Z_j` with `V ≠ I` is in the closure** (even `k`) -/
theorem tclo_single_right {N k : Nat} (hk : 1 ≤ k) (heven : k % 2 = 0) {j : Nat} {l : Letter} (hj : j < N - k)
    (hl : l = Letter.X ∨ l = Letter.Z) {B : List Letter} (hB : B.length = k) (hn : hasN B = true) :
    TClo N k (B ++ single (N - k) j l) :=
  tclo_all_left heven (length_single ..) hB (hasN_x0 hk) hn (length_single ..) (tclo_base (x0_single_mem hj hl))

/-- **every `V ⊗ W` with `V ≠ I` is in the closure** (even `k ≥ 2`), by induction on the set bits of `W` -/
theorem tclo_nonid_left {N k : Nat} (hk : 2 ≤ k) (heven : k % 2 = 0) :
    ∀ (n : Nat) (W : List Letter), W.length = N - k → wt W = n →
      ∀ V : List Letter, V.length = k → hasN V = true → TClo N k (V ++ W) := by
  intro n
  induction n with
  | zero =>
    intro W hW hwt V hV hn
    have hWi : W = ident (N - k) := by rw [← hW]; exact eq_ident_of_wt_zero W hwt
    refine tclo_all_left heven (length_single k 0 .X) hV (hasN_x0 (by omega)) hn hW (tclo_base ?_)
    rw [hWi]
    simp only [uLetters, List.mem_append, List.mem_map]
    exact Or.inl ⟨_, x0_mem_left (by omega), rfl⟩
  | succ n ih =>
    intro W hW hwt V hV hn
    obtain ⟨j, l, W', hj, hl, hlen', hwt', hmul⟩ := peel W n hwt
    rw [hW] at hj hlen' hmul
    have hA : TClo N k (single k 0 .X ++ W') :=
      ih W' hlen' hwt' _ (length_single ..) (hasN_x0 (by omega))
    -- the second factor and the resulting left text
    have key : ∀ B : List Letter, B.length = k → hasN B = true →
        (wanti (single k 0 .X) B != wanti W' (single (N - k) j l)) = true →
        hasN (wmul (single k 0 .X) B) = true → TClo N k (V ++ W) := by
      intro B hB hBn hw hprod
      have hBc : TClo N k (B ++ single (N - k) j l) := tclo_single_right (by omega) heven hj hl hB hBn
      have hlenAB : (single k 0 .X).length = B.length := by rw [length_single, hB]
      have h1 := tclo_step hA hBc (by rw [wanti_append _ _ _ _ hlenAB]; exact hw)
      rw [wmul_append _ _ _ _ hlenAB, hmul] at h1
      exact tclo_all_left heven (by rw [C14.wmul_length _ _ hlenAB, length_single]) hV hprod hn hW h1
    cases hc : wanti W' (single (N - k) j l) with
    | false =>
      have hz : hasN (single k 0 .Z) = true := by
        obtain ⟨k', rfl⟩ : ∃ k', k = k' + 1 := ⟨k - 1, by omega⟩
        rw [CompilerSearch.single_zero]; rfl
      exact key (single k 0 .Z) (length_single ..) hz (by rw [hc, (x0_z0 (by omega)).1]; rfl)
        (x0_z0 (by omega)).2
    | true =>
      have hx : hasN (single k 1 .X) = true := by
        obtain ⟨k', rfl⟩ : ∃ k', k = k' + 2 := ⟨k - 2, by omega⟩
        rw [CompilerSearch.single_succ, CompilerSearch.single_zero]; rfl
      exact key (single k 1 .X) (length_single ..) hx (by rw [hc, (x0_x1 hk).1]; rfl) (x0_x1 hk).2

/-! ### step 3: identity left block -/

/-- a non-identity text anticommutes with some `X_j` or `Z_j` -/
theorem anti_peel : ∀ (W : List Letter), hasN W = true →
    ∃ j l, j < W.length ∧ (l = Letter.X ∨ l = Letter.Z) ∧ wanti (single W.length j l) W = true
  | [], h => by simp [hasN] at h
  | c :: W, h => by
    cases c with
    | I =>
      obtain ⟨j, l, hj, hl, hw⟩ := anti_peel W (by simpa [hasN] using h)
      refine ⟨j + 1, l, by simpa using hj, hl, ?_⟩
      simp only [List.length_cons, CompilerSearch.single_succ, wanti, hw]
      rfl
    | X =>
      refine ⟨0, .Z, by simp, Or.inr rfl, ?_⟩
      simp only [List.length_cons, CompilerSearch.single_zero, wanti, wanti_ident]
      rfl
    | Y =>
      refine ⟨0, .Z, by simp, Or.inr rfl, ?_⟩
      simp only [List.length_cons, CompilerSearch.single_zero, wanti, wanti_ident]
      rfl
    | Z =>
      refine ⟨0, .X, by simp, Or.inl rfl, ?_⟩
      simp only [List.length_cons, CompilerSearch.single_zero, wanti, wanti_ident]
      rfl

/-- **every `I ⊗ W` with `W ≠ I` is in the closure** (even `k ≥ 2`) -/
theorem tclo_id_left {N k : Nat} (hk : 2 ≤ k) (heven : k % 2 = 0) (W : List Letter) (hW : W.length = N - k)
    (hn : hasN W = true) : TClo N k (ident k ++ W) := by
  obtain ⟨j, l, hj, hl, hw⟩ := anti_peel W hn
  rw [hW] at hj hw
  have hel : (single (N - k) j l).length = W.length := by rw [length_single, hW]
  have h2 : TClo N k (single k 0 .X ++ single (N - k) j l) := tclo_base (x0_single_mem hj hl)
  have h1 : TClo N k (single k 0 .X ++ wmul (single (N - k) j l) W) :=
    tclo_nonid_left hk heven _ _ (by rw [C14.wmul_length _ _ hel, length_single]) rfl _ (length_single ..)
      (hasN_x0 (by omega))
  have h3 := tclo_step h2 h1 (by
    rw [wanti_append _ _ _ _ rfl, C14.wanti_self, C14.wanti_wmul _ _ hel, hw]; rfl)
  rwa [wmul_append _ _ _ _ rfl, wmul_self, C14.wmul_wmul _ _ hel, length_single] at h3

/-! ### all texts, all bit lists -/

/-- **every non-identity text of length `N` is in the closure** (even `2 ≤ k ≤ N`) -/
theorem tclo_all {N k : Nat} (hk : 2 ≤ k) (hkN : k ≤ N) (heven : k % 2 = 0) (t : List Letter) (ht : t.length = N)
    (hn : hasN t = true) : TClo N k t := by
  have hsplit : t = t.take k ++ t.drop k := (List.take_append_drop k t).symm
  have hl1 : (t.take k).length = k := by rw [List.length_take, ht]; omega
  have hl2 : (t.drop k).length = N - k := by rw [List.length_drop, ht]
  rw [hsplit]
  cases hV : hasN (t.take k) with
  | true => exact tclo_nonid_left hk heven _ _ hl2 rfl _ hl1 hV
  | false =>
    have hW : hasN (t.drop k) = true := by
      rw [hsplit, hasN_append, hV] at hn
      simpa using hn
    have := eq_ident_of_hasN_false _ hV
    rw [hl1] at this
    rw [this]
    exact tclo_id_left hk heven _ hl2 hW

/-- the same on bit lists -/
theorem clo_all {N k : Nat} (hk : 2 ≤ k) (hkN : k ≤ N) (heven : k % 2 = 0) (v : V) (hv : v.length = 2 * N)
    (hne : v ≠ List.replicate (2 * N) false) : Clo (uBits N k) v := by
  have henc : encode (decode v) = v := C18.encode_decode v (by omega)
  have hlen : (decode v).length = N := by
    have := C18.encode_length (decode v)
    rw [henc, hv] at this
    omega
  have hn : hasN (decode v) = true := by
    cases h : hasN (decode v) with
    | true => rfl
    | false =>
      exfalso
      apply hne
      have := eq_ident_of_hasN_false _ h
      rw [hlen] at this
      rw [← henc, this]
      exact C18.encode_replicate_I N
  have := tclo_all hk hkN heven (decode v) hlen hn
  unfold TClo at this
  rwa [henc] at this

/-! ### the converse: the closure never contains the identity -/

theorem add_self_of_eq : ∀ (x y : V), x.length = y.length → add x y = List.replicate x.length false → x = y
  | [], [], _, _ => rfl
  | a :: x, b :: y, h, he => by
    simp only [add, List.length_cons, List.replicate_succ, List.cons.injEq] at he
    have := add_self_of_eq x y (by simpa using h) he.2
    have hab : a = b := by
      have := he.1
      cases a <;> cases b <;> simp_all
    rw [hab, this]
  | [], _ :: _, h, _ => by simp at h
  | _ :: _, [], h, _ => by simp at h

/-- the commutator closure of non-identity strings of one length contains no identity -/
theorem clo_ne_zero {n : Nat} {G : List V} (hG : Uniform n G) (hz : List.replicate (2 * n) false ∉ G) {x : V}
    (hx : Clo G x) : x ≠ List.replicate (2 * n) false := by
  induction hx with
  | base hm => intro h; exact hz (h ▸ hm)
  | @step a b ha hb ho _ _ =>
    intro h
    have hla := clo_length hG ha
    have hlb := clo_length hG hb
    have := add_self_of_eq a b (by rw [hla, hlb]) (by rw [h, hla])
    rw [this, omega_self] at ho
    cases ho

end C07
end PauLie
