/-
Helpers for property C19, part 6: concrete Majorana families on a chain of `n` sites.

`maj t s n k = t^k s I^(n-1-k)` (letters as (x,z) bit pairs).  If `s`, `s'` both anticommute with
the string letter `t`, then `maj t s n a` and `maj t s' n b` anticommute unless `a = b` and
`s = s'`; so with `s1 ≠ s2` the `2n` strings `mu p = maj t (s1 | s2 by parity of p) n (p/2)` are a
Majorana family.  The translate `I^k A B I^(n-2-k)` of a two-letter word whose letters avoid `t` is
the bilinear `maj t (A+t) n k + maj t B n (k+1)` (`shiftV_maj`).  Core Lean only.
-/
import PauLieVerif.Proofs.C19Maj

namespace PauLie
namespace C19
open Closure

/-- per-site symplectic form of two letters given as (x,z) bit pairs -/
def lo (p q : Bool × Bool) : Bool := (p.1 && q.2) != (p.2 && q.1)

theorem lo_self (p : Bool × Bool) : lo p p = false := by
  obtain ⟨a, b⟩ := p; cases a <;> cases b <;> rfl

theorem lo_symm (p q : Bool × Bool) : lo p q = lo q p := by
  obtain ⟨a, b⟩ := p; obtain ⟨c, d⟩ := q
  cases a <;> cases b <;> cases c <;> cases d <;> rfl

/-- `t^k s I^(n-1-k)` -/
def maj (t s : Bool × Bool) : Nat → Nat → V
  | 0, _ => []
  | n + 1, 0 => s.1 :: s.2 :: List.replicate (2 * n) false
  | n + 1, k + 1 => t.1 :: t.2 :: maj t s n k

theorem length_maj (t s : Bool × Bool) : ∀ (n k : Nat), (maj t s n k).length = 2 * n
  | 0, _ => rfl
  | n + 1, 0 => by simp [maj]; omega
  | n + 1, k + 1 => by simp [maj, length_maj t s n k]; omega

theorem omega_zeros_right (m : Nat) (x : V) : omega x (List.replicate m false) = false := by
  rw [omega_comm]; exact omega_zeros_left m x

theorem omega_maj {t s s' : Bool × Bool} (hs : lo s t = true) (hs' : lo s' t = true) :
    ∀ (n a b : Nat), a < n → b < n →
      omega (maj t s n a) (maj t s' n b) = if a = b then lo s s' else true
  | 0, _, _, h, _ => by omega
  | n + 1, 0, 0, _, _ => by simp [maj, omega, omega_zeros_left, lo]
  | n + 1, 0, b + 1, _, _ => by
      simp only [lo] at hs
      simp [maj, omega, omega_zeros_left, hs]
  | n + 1, a + 1, 0, _, _ => by
      rw [lo_symm] at hs'
      simp only [lo] at hs'
      simp [maj, omega, omega_zeros_right, hs']
  | n + 1, a + 1, b + 1, ha, hb => by
      have := lo_self t
      simp only [lo] at this
      simp [maj, omega, omega_maj hs hs' n a b (by omega) (by omega), this]

/-- the `2n` Majoranas: even index `2k ↦ t^k s1`, odd index `2k+1 ↦ t^k s2` -/
def mu (t s1 s2 : Bool × Bool) (n p : Nat) : V := maj t (if p % 2 = 0 then s1 else s2) n (p / 2)

theorem mu_even (t s1 s2 : Bool × Bool) (n k : Nat) : mu t s1 s2 n (2 * k) = maj t s1 n k := by
  simp [mu]

theorem mu_odd (t s1 s2 : Bool × Bool) (n k : Nat) : mu t s1 s2 n (2 * k + 1) = maj t s2 n k := by
  have h1 : (2 * k + 1) % 2 = 1 := by omega
  have h2 : (2 * k + 1) / 2 = k := by omega
  simp [mu, h1, h2]

theorem maj_mu {t s1 s2 : Bool × Bool} (h1 : lo s1 t = true) (h2 : lo s2 t = true) (h12 : lo s1 s2 = true)
    (n : Nat) : Maj (2 * n) (2 * n) (mu t s1 s2 n) := by
  refine ⟨fun i _ => length_maj _ _ _ _, fun a b ha hb => ?_⟩
  unfold mu
  have h21 : lo s2 s1 = true := by rw [lo_symm]; exact h12
  by_cases pa : a % 2 = 0 <;> by_cases pb : b % 2 = 0
  · rw [if_pos pa, if_pos pb, omega_maj h1 h1 n _ _ (by omega) (by omega), lo_self]
    by_cases e : a / 2 = b / 2
    · have : a = b := by omega
      simp [this]
    · have : a ≠ b := fun e' => e (by rw [e'])
      simp [e, this]
  · rw [if_pos pa, if_neg pb, omega_maj h1 h2 n _ _ (by omega) (by omega), h12]
    have : a ≠ b := fun e' => pb (by rw [← e']; exact pa)
    simp [this]
  · rw [if_neg pa, if_pos pb, omega_maj h2 h1 n _ _ (by omega) (by omega), h21]
    have : a ≠ b := fun e' => pa (by rw [e']; exact pb)
    simp [this]
  · rw [if_neg pa, if_neg pb, omega_maj h2 h2 n _ _ (by omega) (by omega), lo_self]
    by_cases e : a / 2 = b / 2
    · have : a = b := by omega
      simp [this]
    · have : a ≠ b := fun e' => e (by rw [e'])
      simp [e, this]

/-- the translate of the two-letter word `(s+t) s'` is a Majorana bilinear -/
theorem shiftV_maj (t s s' : Bool × Bool) : ∀ (k n : Nat), k + 2 ≤ n →
    shiftV n k [s.1 != t.1, s.2 != t.2, s'.1, s'.2] = add (maj t s n k) (maj t s' n (k + 1))
  | 0, n, h => by
    obtain ⟨m, rfl⟩ : ∃ m, n = m + 2 := ⟨n - 2, by omega⟩
    simp [shiftV, maj, add, List.replicate_succ, add_zeros, show 2 * (m + 1) = 2 * m + 1 + 1 by omega]
  | k + 1, n, h => by
    obtain ⟨m, rfl⟩ : ∃ m, n = m + 1 := ⟨n - 1, by omega⟩
    rw [shiftV_succ, shiftV_maj t s s' k m (by omega)]
    simp [maj, add]

/-! ### the letters -/

def lX : Bool × Bool := (true, false)
def lY : Bool × Bool := (true, true)
def lZ : Bool × Bool := (false, true)

def vYX : V := [true, true, true, false]
def vYY : V := [true, true, true, true]
def vXZ : V := [true, false, false, true]

/-- Jordan–Wigner Majoranas with `Z` strings: `mZ n (2k) = Z^k X`, `mZ n (2k+1) = Z^k Y` -/
def mZ (n : Nat) : Nat → V := mu lZ lX lY n

/-- Majoranas with `Y` strings: `mY n (2k) = Y^k X`, `mY n (2k+1) = Y^k Z` -/
def mY (n : Nat) : Nat → V := mu lY lX lZ n

theorem maj_mZ (n : Nat) : Maj (2 * n) (2 * n) (mZ n) := maj_mu (by decide) (by decide) (by decide) n
theorem maj_mY (n : Nat) : Maj (2 * n) (2 * n) (mY n) := maj_mu (by decide) (by decide) (by decide) n

/-- `X_k Y_(k+1) = (Z^k Y)(Z^(k+1) Y)` -/
theorem shiftV_XY_mZ {k n : Nat} (h : k + 2 ≤ n) : shiftV n k vXY = bil (mZ n) (2 * k + 1) (2 * k + 3) := by
  have := shiftV_maj lZ lY lY k n h
  rw [bil, mZ, mu_odd, show 2 * k + 3 = 2 * (k + 1) + 1 by omega, mu_odd, ← this]
  rfl

/-- `Y_k X_(k+1) = (Z^k X)(Z^(k+1) X)` -/
theorem shiftV_YX_mZ {k n : Nat} (h : k + 2 ≤ n) : shiftV n k vYX = bil (mZ n) (2 * k) (2 * k + 2) := by
  have := shiftV_maj lZ lX lX k n h
  rw [bil, mZ, mu_even, show 2 * k + 2 = 2 * (k + 1) by omega, mu_even, ← this]
  rfl

/-- `X_k X_(k+1) = (Z^k Y)(Z^(k+1) X)` -/
theorem shiftV_XX_mZ {k n : Nat} (h : k + 2 ≤ n) : shiftV n k vXX = bil (mZ n) (2 * k + 1) (2 * k + 2) := by
  have := shiftV_maj lZ lY lX k n h
  rw [bil, mZ, mu_odd, show 2 * k + 2 = 2 * (k + 1) by omega, mu_even, ← this]
  rfl

/-- `Y_k Y_(k+1) = (Z^k X)(Z^(k+1) Y)` -/
theorem shiftV_YY_mZ {k n : Nat} (h : k + 2 ≤ n) : shiftV n k vYY = bil (mZ n) (2 * k) (2 * k + 3) := by
  have := shiftV_maj lZ lX lY k n h
  rw [bil, mZ, mu_even, show 2 * k + 3 = 2 * (k + 1) + 1 by omega, mu_odd, ← this]
  rfl

/-- `X_k X_(k+1) = (Y^k Z)(Y^(k+1) X)` -/
theorem shiftV_XX_mY {k n : Nat} (h : k + 2 ≤ n) : shiftV n k vXX = bil (mY n) (2 * k + 1) (2 * k + 2) := by
  have := shiftV_maj lY lZ lX k n h
  rw [bil, mY, mu_odd, show 2 * k + 2 = 2 * (k + 1) by omega, mu_even, ← this]
  rfl

/-- `X_k Z_(k+1) = (Y^k Z)(Y^(k+1) Z)` -/
theorem shiftV_XZ_mY {k n : Nat} (h : k + 2 ≤ n) : shiftV n k vXZ = bil (mY n) (2 * k + 1) (2 * k + 3) := by
  have := shiftV_maj lY lZ lZ k n h
  rw [bil, mY, mu_odd, show 2 * k + 3 = 2 * (k + 1) + 1 by omega, mu_odd, ← this]
  rfl

example : mZ 3 2 = [false, true, true, false, false, false] ∧ mZ 3 3 = [false, true, true, true, false, false]
    ∧ mY 3 3 = [true, true, false, true, false, false] := by decide

end C19
end PauLie
