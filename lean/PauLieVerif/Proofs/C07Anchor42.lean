/- Kernel evaluation of the verified closure checker on the universal set of `(N,k) = (4,2)`
(about one minute; kept in its own file so that it builds in parallel). -/
import PauLieVerif.Proofs.C07Anchors

namespace PauLie
namespace C07

open Closure

theorem scan_4_2 : scan (List.replicate 8 false) (closureList (uBits 4 2)).1 = (255, false) := by
  decide +kernel

end C07
end PauLie
