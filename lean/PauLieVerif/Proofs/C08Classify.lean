/-
Property C08 at the level of a collection: `Classify.isIn`, `Classify.selectDependents`,
`Classify.getSpace` as plain folds over (component of the query) × (morph of the classification), and
their soundness from the per-reduction statements of `Proofs/C08Member.lean` and the closure
preservation of `Proofs/C02Classify.lean`.
-/
import PauLieVerif.Proofs.C08Member
import PauLieVerif.Proofs.C02Classify
import PauLieVerif.Proofs.C19Commuting

namespace PauLie
namespace C08
open Closure Morph MorphG C02 Classify

/-! ### loops with pure bodies -/

theorem forIn_fold {β γ : Type} (g : β → γ → γ) :
    ∀ (l : List β) (init : γ),
      (forIn l init (fun a b => (pure (ForInStep.yield (g a b)) : Except Err (ForInStep γ)))) =
        pure (l.foldl (fun b a => g a b) init)
  | [], init => rfl
  | a :: t, init => by
    rw [List.forIn_cons]
    exact forIn_fold g t (g a init)

theorem forIn_any {β : Type} (p : β → Bool) :
    ∀ (l : List β),
      (forIn l false (fun a _ => if p a = true then (pure (ForInStep.done (p a)) : Except Err (ForInStep Bool))
        else pure (ForInStep.yield (p a)))) = pure (l.any p)
  | [] => rfl
  | a :: t => by
    rw [List.forIn_cons]
    by_cases h : p a = true
    · simp [h]
    · simp only [h, Bool.false_eq_true, if_false, List.any_cons, Bool.false_or]
      exact forIn_any p t

theorem forIn_allE {β : Type} (q : β → Bool) :
    ∀ (l : List β),
      (forIn l ((none : Option Bool), ()) (fun a _ =>
        if (!q a) = true then (pure (ForInStep.done (some false, ())) : Except Err (ForInStep (Option Bool × Unit)))
        else pure (ForInStep.yield (none, ())))) =
        pure (if l.all q then (none, ()) else (some false, ()))
  | [] => rfl
  | a :: t => by
    rw [List.forIn_cons]
    by_cases h : q a = true
    · simp only [h, Bool.not_true, Bool.false_eq_true, if_false, List.all_cons, Bool.true_and]
      exact forIn_allE q t
    · have h' : q a = false := by simpa using h
      simp [h']

/-- `is_in` as a formula -/
theorem isIn_eq (selfLen : Nat) (ms : List MorphR) (query : List PS) :
    Classify.isIn selfLen ms query =
      if selfLen == 0 then .ok false
      else Graph.getSubgraphs query >>= fun subs =>
        .ok (subs.all (fun sub => ms.any (fun m => Morph.isEq m.legs sub))) := by
  unfold Classify.isIn
  split
  · rfl
  · congr 1
    funext subs
    have hbody : (fun (sub : List PS) (_ : Option Bool × Unit) =>
          (do
            let __s ← forIn ms false fun m _ =>
                if Morph.isEq m.legs sub = true then
                  (pure (ForInStep.done (Morph.isEq m.legs sub)) : Except Err (ForInStep Bool))
                else pure (ForInStep.yield (Morph.isEq m.legs sub))
            if (!__s) = true then pure (ForInStep.done (some false, ()))
            else pure (ForInStep.yield (none, ())) : Except Err (ForInStep (Option Bool × Unit)))) =
        (fun sub _ => if (!(ms.any (fun m => Morph.isEq m.legs sub))) = true then
            pure (ForInStep.done (some false, ())) else pure (ForInStep.yield (none, ()))) := by
      funext sub _
      rw [forIn_any (fun m => Morph.isEq m.legs sub) ms]
      rfl
    show (forIn subs ((none : Option Bool), ()) _ >>= _) = _
    rw [hbody, forIn_allE (fun sub => ms.any (fun m => Morph.isEq m.legs sub)) subs]
    by_cases h : subs.all (fun sub => ms.any (fun m => Morph.isEq m.legs sub)) = true
    · rw [h]; rfl
    · have h' : subs.all (fun sub => ms.any (fun m => Morph.isEq m.legs sub)) = false := by simpa using h
      rw [h']; rfl

/-- `select_dependents` as a formula -/
theorem selectDependents_eq' (selfLen : Nat) (ms : List MorphR) (query : List PS) :
    Classify.selectDependents selfLen ms query =
      if selfLen == 0 then .ok none
      else Graph.getSubgraphs query >>= fun subs =>
        Graph.collInit (subs.foldl (fun deps sub =>
          ms.foldl (fun deps m => deps ++ Morph.selectDependents m.legs sub) deps) []) >>= fun d =>
        .ok (some d) := by
  unfold Classify.selectDependents
  split
  · rfl
  · congr 1
    funext subs
    have hbody : (fun (sub : List PS) (deps : List PS) =>
          (do
            let __s ← forIn ms deps fun m __s =>
                (pure (ForInStep.yield (__s ++ Morph.selectDependents m.legs sub)) : Except Err (ForInStep (List PS)))
            pure (ForInStep.yield __s) : Except Err (ForInStep (List PS)))) =
        (fun sub deps => pure (ForInStep.yield
          (ms.foldl (fun deps m => deps ++ Morph.selectDependents m.legs sub) deps))) := by
      funext sub deps
      rw [forIn_fold (fun m d => d ++ Morph.selectDependents m.legs sub) ms deps]
      rfl
    show (forIn subs [] _ >>= _) = _
    rw [hbody, forIn_fold (fun sub deps => ms.foldl (fun deps m => deps ++ Morph.selectDependents m.legs sub) deps)
      subs []]
    rfl

theorem mem_foldl_append {α β : Type} (h : α → List β) (y : β) : ∀ (l : List α) (init : List β),
    y ∈ l.foldl (fun b a => b ++ h a) init ↔ y ∈ init ∨ ∃ a ∈ l, y ∈ h a
  | [], init => by simp
  | a :: t, init => by
    rw [List.foldl_cons, mem_foldl_append h y t, List.mem_append]
    constructor
    · rintro ((h1 | h1) | ⟨b, hb, hy⟩)
      · exact Or.inl h1
      · exact Or.inr ⟨a, List.mem_cons_self .., h1⟩
      · exact Or.inr ⟨b, List.mem_cons_of_mem _ hb, hy⟩
    · rintro (h1 | ⟨b, hb, hy⟩)
      · exact Or.inl (Or.inl h1)
      · rcases List.mem_cons.1 hb with rfl | hb
        · exact Or.inl (Or.inr hy)
        · exact Or.inr ⟨b, hb, hy⟩

theorem mem_foldl2 (ms : List MorphR) (y : PS) : ∀ (subs : List (List PS)) (init : List PS),
    y ∈ subs.foldl (fun deps sub =>
        ms.foldl (fun deps m => deps ++ Morph.selectDependents m.legs sub) deps) init →
      y ∈ init ∨ ∃ sub ∈ subs, ∃ m ∈ ms, y ∈ Morph.selectDependents m.legs sub
  | [], init, h => Or.inl h
  | sub :: t, init, h => by
    rw [List.foldl_cons] at h
    rcases mem_foldl2 ms y t _ h with h1 | ⟨s, hs, m, hm, hy⟩
    · rcases (mem_foldl_append (fun m => Morph.selectDependents m.legs sub) y ms init).1 h1 with h2 | ⟨m, hm, hy⟩
      · exact Or.inl h2
      · exact Or.inr ⟨sub, List.mem_cons_self .., m, hm, hy⟩
    · exact Or.inr ⟨s, List.mem_cons_of_mem _ hs, m, hm, hy⟩

/-! ### soundness for a classified collection -/

/-- what is needed from the classification: the canonical vertices generate `Clo G` (property C02) -/
structure Classified (n : Nat) (G : List PS) (ms : List MorphR) : Prop where
  uni : C14.Uniform n G
  clo : CloEq (bitsOf (verticesOf ms)) (bitsOf G)

theorem bits_len {n : Nat} {X : List PS} (hX : C14.Uniform n X) : ∀ x ∈ X, x.bits.length = 2 * n := by
  intro x hx
  obtain ⟨hwf, hl⟩ := hX x hx
  unfold PS.len at hl
  have := hwf.2.2
  omega

theorem Classified.vlen {n : Nat} {G : List PS} {ms : List MorphR} (h : Classified n G ms)
    {m : MorphR} (hm : m ∈ ms) : ∀ b ∈ bitsOf m.legs.flatten, b.length = 2 * n := by
  intro b hb
  have hG : Closure.Uniform n (bitsOf G) := by
    intro g hg
    obtain ⟨q, hq, rfl⟩ := mem_bitsOf.1 hg
    exact bits_len h.uni q hq
  refine clo_length hG ((h.clo b).1 (Clo.base ?_))
  obtain ⟨q, hq, rfl⟩ := mem_bitsOf.1 hb
  refine mem_bitsOf.2 ⟨q, ?_, rfl⟩
  unfold verticesOf
  exact List.mem_flatten.2 ⟨m.legs.flatten, List.mem_map.2 ⟨m, hm, rfl⟩, hq⟩

theorem Classified.up {n : Nat} {G : List PS} {ms : List MorphR} (h : Classified n G ms)
    {m : MorphR} (hm : m ∈ ms) {x : V} (hx : Clo (bitsOf m.legs.flatten) x) : Clo (bitsOf G) x := by
  refine (h.clo x).1 (clo_mono ?_ hx)
  intro g hg
  obtain ⟨q, hq, rfl⟩ := mem_bitsOf.1 hg
  refine mem_bitsOf.2 ⟨q, ?_, rfl⟩
  unfold verticesOf
  exact List.mem_flatten.2 ⟨m.legs.flatten, List.mem_map.2 ⟨m, hm, rfl⟩, hq⟩

theorem isIn_sound {n : Nat} {G X : List PS} {ms : List MorphR} (h : Classified n G ms)
    (hX : C14.Uniform n X) (hin : Classify.isIn G.length ms X = .ok true)
    (hg : ∀ m ∈ ms, ∀ x ∈ X, memberGuard m.legs false x = true) :
    ∀ x ∈ X, Clo (bitsOf G) x.bits := by
  rw [isIn_eq] at hin
  split at hin
  · cases hin
  · obtain ⟨cs, hcs, hcov, hsub, _⟩ := C14.C14_subgraphs_partition hX
    rw [hcs] at hin
    have hall : cs.all (fun sub => ms.any (fun m => Morph.isEq m.legs sub)) = true := by
      have : (Except.ok (cs.all (fun sub => ms.any (fun m => Morph.isEq m.legs sub))) : Except Err Bool) = .ok true := hin
      injection this
    rw [List.all_eq_true] at hall
    intro x hx
    obtain ⟨sub, hs, hxs⟩ := hcov x hx
    have := hall sub hs
    rw [List.any_eq_true] at this
    obtain ⟨m, hm, heq⟩ := this
    have hsubX : ∀ y ∈ sub, y ∈ X := (hsub sub hs).2.2
    exact h.up hm (isEq_sound (h.vlen hm) heq (fun y hy => bits_len hX y (hsubX y hy))
      (fun y hy => hg m hm y (hsubX y hy)) x hxs)

theorem select_sound' {n : Nat} {G X : List PS} {ms : List MorphR} (h : Classified n G ms)
    (hX : C14.Uniform n X) {D : List PS} (hsel : Classify.selectDependents G.length ms X = .ok (some D))
    (hg : ∀ m ∈ ms, ∀ x ∈ X, memberGuard m.legs true x = true) :
    ∀ d ∈ D, d ∈ X ∧ Clo (bitsOf G) d.bits := by
  rw [selectDependents_eq'] at hsel
  split at hsel
  · cases hsel
  · obtain ⟨cs, hcs, _, hsub, _⟩ := C14.C14_subgraphs_partition hX
    rw [hcs] at hsel
    have key : ∀ y ∈ cs.foldl (fun deps sub =>
        ms.foldl (fun deps m => deps ++ Morph.selectDependents m.legs sub) deps) [],
        y ∈ X ∧ Clo (bitsOf G) y.bits := by
      intro y hy
      rcases mem_foldl2 ms y cs [] hy with h1 | ⟨sub, hs, m, hm, hys⟩
      · cases h1
      · have hsubX : ∀ z ∈ sub, z ∈ X := (hsub sub hs).2.2
        obtain ⟨a, b⟩ := select_sound (h.vlen hm) hys (fun z hz => bits_len hX z (hsubX z hz))
          (fun z hz => hg m hm z (hsubX z hz))
        exact ⟨hsubX y a, h.up hm b⟩
    have hsame := C19.collInit_same _ n (fun y hy => (hX y (key y hy).1).2)
    have hsel' : (Graph.collInit (cs.foldl (fun deps sub =>
        ms.foldl (fun deps m => deps ++ Morph.selectDependents m.legs sub) deps) []) >>= fun d =>
          (Except.ok (some d) : Except Err (Option (List PS)))) = .ok (some D) := hsel
    rw [hsame] at hsel'
    have : D = cs.foldl (fun deps sub =>
        ms.foldl (fun deps m => deps ++ Morph.selectDependents m.legs sub) deps) [] := by
      have : (Except.ok (some (cs.foldl (fun deps sub =>
        ms.foldl (fun deps m => deps ++ Morph.selectDependents m.legs sub) deps) [])) :
          Except Err (Option (List PS))) = .ok (some D) := hsel'
      injection this with this
      injection this with this
      exact this.symm
    rw [this]
    exact key

theorem space_sound {n : Nat} {G : List PS} {ms : List MorphR} (h : Classified n G ms)
    {S : List PS} (hsp : Classify.getSpace G ms = .ok (some S))
    (hg : ∀ m ∈ ms, ∀ x ∈ PS.genAll n, memberGuard m.legs true x = true) :
    ∀ s ∈ S, Clo (bitsOf G) s.bits := by
  unfold Classify.getSpace at hsp
  cases G with
  | nil =>
    simp only [List.length_nil] at hsp
    cases hc : Graph.collInit (PS.genAll 0) with
    | error e => rw [hc] at hsp; cases hsp
    | ok l =>
      rw [hc] at hsp
      have hsp' : Classify.selectDependents 0 ms l = .ok (some S) := hsp
      rw [selectDependents_eq'] at hsp'
      cases hsp'
  | cons g t =>
    have hn : g.len = n := (h.uni g (List.mem_cons_self ..)).2
    simp only [hn] at hsp
    have hall := C14.genAll_uniform n
    rw [C19.collInit_same _ n (fun y hy => (hall y hy).2)] at hsp
    intro s hs
    exact (select_sound' h hall hsp hg s hs).2

end C08
end PauLie
