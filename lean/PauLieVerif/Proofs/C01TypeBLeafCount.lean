/-
C01, types B3 and B2: the closures of the canonical stars as duplicate-free lists, their sizes
(`4^(t+2) − 1 = dim su(2^(t+2))`, `dim so(2^(t+4))`), connectedness and linear independence - packaged as
`BaseOK` so that `BaseOK.iter` adds further single legs.  Core Lean only.
-/
import PauLieVerif.Proofs.C01TypeBLeaf
import PauLieVerif.Proofs.C01TypeBTwinGen

namespace PauLie
namespace C01TypeB
open Closure C01Star

/-! ### B1 as a base -/

theorem baseOK_B1 (t : Nat) : BaseOK (t + 1) (cT t) (aT t) (pairsB t) (LQ t true) where
  unif := uniform_GB1 t
  oac := omega_aT_cT t
  conn := conn_GB1 t
  clo := by
    intro v
    have := canonK_clo 0 t v
    rwa [canonK_zero] at this
  nodup := nodup_LQ t true
  indep := indep_GB1 t

/-! ### B3 -/

/-- the legs of the canonical B3 star besides centre and single leg: the `t` legs of length two, then the
long leg `b - d - p` -/
def rest3 (t : Nat) : List V :=
  ((pairsB t).map pad ++ [false :: true :: aT t, true :: false :: zeroV (2 * (t + 1))]).map pad ++ [false :: true :: uT t]

theorem G3_eq (t : Nat) : G3 t = pad (pad (cT t)) :: pad (pad (aT t)) :: rest3 t := by
  simp [G3, GB1r, GB1, rest3]

def L3 (t : Nat) : List V :=
  (LQ (t + 1) true).map (fun y => false :: false :: y) ++
    ((LQ (t + 1) false).erase (zeroV (2 * (t + 2)))).map (fun y => false :: true :: y)

theorem mem_L3 (t : Nat) (v : V) : v ∈ L3 t ↔ In3 t v := by
  simp only [L3, List.mem_append, List.mem_map, (nodup_LQ (t + 1) false).mem_erase_iff, mem_LQ, In3]
  constructor
  · rintro (⟨w, ⟨lw, qw⟩, rfl⟩ | ⟨w, ⟨hne, lw, qw⟩, rfl⟩)
    · exact ⟨false, w, rfl, lw, Or.inl ⟨rfl, qw⟩⟩
    · exact ⟨true, w, rfl, lw, Or.inr ⟨rfl, qw, hne⟩⟩
  · rintro ⟨z, w, rfl, lw, ⟨rfl, qw⟩ | ⟨rfl, qw, hne⟩⟩
    · exact Or.inl ⟨w, ⟨lw, qw⟩, rfl⟩
    · exact Or.inr ⟨w, ⟨hne, lw, qw⟩, rfl⟩

theorem nodup_L3 (t : Nat) : (L3 t).Nodup := by
  rw [L3, List.nodup_append]
  refine ⟨nodup_map_cons2 _ _ (nodup_LQ _ _), nodup_map_cons2 _ _ ((nodup_LQ _ _).erase _), ?_⟩
  intro x hx y hy hxy
  obtain ⟨w, _, rfl⟩ := List.mem_map.1 hx
  obtain ⟨w', _, rfl⟩ := List.mem_map.1 hy
  simp at hxy

theorem length_L3 (t : Nat) : (L3 t).length + 1 = (2 ^ (t + 2)) ^ 2 := by
  obtain ⟨h1, h0⟩ := length_LQ (t + 1)
  have hz : zeroV (2 * (t + 2)) ∈ LQ (t + 1) false := (mem_LQ _ _ _).2 ⟨by simp, QBn_zero (t + 1)⟩
  have hpos : 0 < (LQ (t + 1) false).length := List.length_pos_of_mem hz
  simp only [L3, List.length_append, List.length_map, List.length_erase_of_mem hz, h1]
  have e : (2 ^ (t + 2)) ^ 2 = 2 * 2 ^ (2 * (t + 1) + 1) := by
    rw [← Nat.pow_mul, show (t + 2) * 2 = (2 * (t + 1) + 1) + 1 by omega, Nat.pow_succ, Nat.mul_comm]
  rw [e]
  omega

theorem baseOK_B3 (t : Nat) : BaseOK (t + 3) (pad (pad (cT t))) (pad (pad (aT t))) (rest3 t) (L3 t) := by
  have hU := uniform_G3 t
  have hpad := G3_pad t
  have hp : (false :: true :: uT t) ∈ G3 t := by simp [G3]
  have hdm : (true :: false :: zeroV (2 * (t + 1))) ∈ GB1 (t + 1) := GB1_d t
  refine ⟨by rw [← G3_eq]; exact hU, by simpa [pad, omega_cons2] using omega_aT_cT t, ?_, ?_, nodup_L3 t, ?_⟩
  · rw [← G3_eq]
    intro g hg
    have root : pad (pad (cT t)) = pad (cT (t + 1)) := rfl
    rw [root]
    rcases G3_cases hg with ⟨h, hh, rfl⟩ | rfl
    · obtain ⟨i1, i2⟩ := conn_GB1 (t + 1) h hh
      exact ⟨conn_pad hpad i1, conn_pad hpad i2⟩
    · obtain ⟨i1, i2⟩ := conn_GB1 (t + 1) _ hdm
      have o : omega (pad (true :: false :: zeroV (2 * (t + 1)))) (false :: true :: uT t) = true := by
        simp [pad, uT, omega_cons2, omega_zero_left]
      have cd : Clo (G3 t) (pad (true :: false :: zeroV (2 * (t + 1)))) := Clo.base (hpad _ hdm)
      exact ⟨(conn_pad hpad i1).trans (conn_adj hU cd (Clo.base hp) o),
        (conn_adj hU (Clo.base hp) cd (by rw [omega_comm]; exact o)).trans (conn_pad hpad i2)⟩
  · intro v
    rw [← G3_eq, mem_L3, clo_G3]
  · rw [← G3_eq]
    have hI1 : Indep (2 * (t + 1) + 2) (GB1r t) := by
      have := indep_insert (L := 2 * (t + 1)) (p := GB1 t) (q := [])
        (news := [false :: true :: aT t, true :: false :: zeroV (2 * (t + 1))])
        (uniform_GB1 t) (by simp)
        (by intro v hv
            simp only [List.mem_cons, List.not_mem_nil, or_false] at hv
            rcases hv with rfl | rfl <;> simp [length_aT])
        (by simpa using indep_GB1 t) (firstLetters_pair (aT t) (length_aT t))
      simpa [GB1r] using this
    have hlr : ∀ v ∈ GB1r t, v.length = 2 * (t + 1) + 2 := fun v hv => by
      have := uniform_GB1 (t + 1) v (mem_GB1r.1 hv); omega
    have := indep_insert (L := 2 * (t + 1) + 2) (p := GB1r t) (q := []) (news := [false :: true :: uT t])
      hlr (by simp)
      (by intro v hv
          simp only [List.mem_cons, List.not_mem_nil, or_false] at hv
          subst hv; simp [length_uT]; omega)
      (by simpa using hI1) (firstLetters_twin _ (by rw [length_uT]; omega))
    have e : 2 * (t + 3) = 2 * (t + 1) + 2 + 2 := by omega
    rw [e]
    simpa [G3] using this

/-! ### B2 -/

/-- the legs of the canonical B2 star (with `t + 1` legs of length two) besides centre and single leg -/
def rest4 (t : Nat) : List V :=
  ((pairsB (t + 1)).map pad ++ [false :: true :: aT (t + 1), true :: false :: zeroV (2 * (t + 2))]).map pad ++
    [false :: true :: uT (t + 1), true :: false :: zeroV (2 * (t + 3))]

theorem G4_eq (t : Nat) : G4 (t + 1) = pad (pad (cT (t + 1))) :: pad (pad (aT (t + 1))) :: rest4 t := by
  simp [G4, GB1r, GB1, rest4]

def L4 (t : Nat) : List V :=
  (LQ (t + 2) true).map (fun y => false :: false :: y) ++ ((LQ (t + 2) false).map (fun y => false :: true :: y) ++
    ((LQ (t + 2) false).map (fun y => true :: true :: y) ++ (LQ (t + 2) false).map (fun y => true :: false :: y)))

theorem mem_L4 (t : Nat) (v : V) : v ∈ L4 t ↔ v.length = 2 * (t + 4) ∧ Q4 (t + 1) v = true := by
  simp only [L4, List.mem_append, List.mem_map, mem_LQ]
  constructor
  · rintro (⟨w, ⟨lw, qw⟩, rfl⟩ | ⟨w, ⟨lw, qw⟩, rfl⟩ | ⟨w, ⟨lw, qw⟩, rfl⟩ | ⟨w, ⟨lw, qw⟩, rfl⟩) <;>
      exact ⟨by simp [lw]; omega, by simp [Q4, qw]⟩
  · rintro ⟨lv, qv⟩
    match v, lv with
    | x :: z :: w, lv =>
      have lw : w.length = 2 * (t + 2 + 1) := by simp at lv; omega
      simp only [Q4] at qv
      cases x <;> cases z
      · exact Or.inl ⟨w, ⟨lw, by simpa using qv⟩, rfl⟩
      · exact Or.inr (Or.inl ⟨w, ⟨lw, by simpa using qv⟩, rfl⟩)
      · exact Or.inr (Or.inr (Or.inr ⟨w, ⟨lw, by simpa using qv⟩, rfl⟩))
      · exact Or.inr (Or.inr (Or.inl ⟨w, ⟨lw, by simpa using qv⟩, rfl⟩))

theorem nodup_L4 (t : Nat) : (L4 t).Nodup := by
  have h1 := nodup_LQ (t + 2) true
  have h0 := nodup_LQ (t + 2) false
  rw [L4, List.nodup_append]
  refine ⟨nodup_map_cons2 _ _ h1, ?_, ?_⟩
  · rw [List.nodup_append]
    refine ⟨nodup_map_cons2 _ _ h0, ?_, ?_⟩
    · rw [List.nodup_append]
      refine ⟨nodup_map_cons2 _ _ h0, nodup_map_cons2 _ _ h0, ?_⟩
      intro a ha b hb hab
      obtain ⟨w, _, rfl⟩ := List.mem_map.1 ha
      obtain ⟨w', _, rfl⟩ := List.mem_map.1 hb
      simp at hab
    · intro a ha b hb hab
      obtain ⟨w, _, rfl⟩ := List.mem_map.1 ha
      simp only [List.mem_append, List.mem_map] at hb
      rcases hb with ⟨w', _, rfl⟩ | ⟨w', _, rfl⟩ <;> simp at hab
  · intro a ha b hb hab
    obtain ⟨w, _, rfl⟩ := List.mem_map.1 ha
    simp only [List.mem_append, List.mem_map] at hb
    rcases hb with ⟨w', _, rfl⟩ | ⟨w', _, rfl⟩ | ⟨w', _, rfl⟩ <;> simp at hab

theorem dimSO_pow (T : Nat) : Classify.dimSO (2 ^ (T + 2)) + 2 * 2 ^ T = 4 * 2 ^ (2 * T + 1) := by
  have e1 : 2 ^ (T + 2) = 4 * 2 ^ T := by rw [Nat.pow_add]; omega
  have e2 : 2 ^ (2 * T + 1) = 2 * (2 ^ T * 2 ^ T) := by
    rw [Nat.pow_succ, Nat.two_mul, Nat.pow_add, Nat.mul_comm]
  have hpos : 0 < 2 ^ T := Nat.pow_pos (by decide)
  rw [Classify.dimSO, e1, e2]
  generalize 2 ^ T = m at hpos
  have hm : m ≤ m * m := Nat.le_mul_of_pos_left m hpos
  rw [Nat.mul_sub, Nat.mul_one, Nat.mul_mul_mul_comm 4 m 4 m]
  generalize m * m = k at hm
  omega

theorem length_L4 (t : Nat) : (L4 t).length = Classify.dimSO (2 ^ (t + 4)) := by
  obtain ⟨h1, h0⟩ := length_LQ (t + 2)
  have := dimSO_pow (t + 2)
  simp only [L4, List.length_append, List.length_map, h1]
  rw [show t + 4 = t + 2 + 2 from rfl]
  omega

theorem baseOK_B2 (t : Nat) :
    BaseOK (t + 4) (pad (pad (cT (t + 1)))) (pad (pad (aT (t + 1)))) (rest4 t) (L4 t) := by
  have hU := uniform_G4 (t + 1)
  have hpad := G4_pad (t + 1)
  have hp : (false :: true :: uT (t + 1)) ∈ G4 (t + 1) := by simp [G4]
  have hq : (true :: false :: zeroV (2 * (t + 3))) ∈ G4 (t + 1) := by simp [G4]
  have hdm : (true :: false :: zeroV (2 * (t + 2))) ∈ GB1 (t + 2) := GB1_d (t + 1)
  refine ⟨by rw [← G4_eq]; exact hU, by simpa [pad, omega_cons2] using omega_aT_cT (t + 1), ?_, ?_, nodup_L4 t, ?_⟩
  · rw [← G4_eq]
    intro g hg
    have root : pad (pad (cT (t + 1))) = pad (cT (t + 2)) := rfl
    rw [root]
    obtain ⟨i1, i2⟩ := conn_GB1 (t + 2) _ hdm
    have o : omega (pad (true :: false :: zeroV (2 * (t + 2)))) (false :: true :: uT (t + 1)) = true := by
      simp [pad, uT, omega_cons2, omega_zero_left]
    have cd : Clo (G4 (t + 1)) (pad (true :: false :: zeroV (2 * (t + 2)))) := Clo.base (hpad _ hdm)
    have c1 : Conn (G4 (t + 1)) (pad (cT (t + 2))) (false :: true :: uT (t + 1)) :=
      (conn_pad hpad i1).trans (conn_adj hU cd (Clo.base hp) o)
    have c2 : Conn (G4 (t + 1)) (false :: true :: uT (t + 1)) (pad (cT (t + 2))) :=
      (conn_adj hU (Clo.base hp) cd (by rw [omega_comm]; exact o)).trans (conn_pad hpad i2)
    rcases G4_cases hg with h3 | rfl
    · rcases G3_cases h3 with ⟨h, hh, rfl⟩ | rfl
      · obtain ⟨j1, j2⟩ := conn_GB1 (t + 2) h hh
        exact ⟨conn_pad hpad j1, conn_pad hpad j2⟩
      · exact ⟨c1, c2⟩
    · have o2 : omega (false :: true :: uT (t + 1)) (true :: false :: zeroV (2 * (t + 3))) = true := by
        simp [omega_cons2, omega_zero_right]
      exact ⟨c1.trans (conn_adj hU (Clo.base hp) (Clo.base hq) o2),
        (conn_adj hU (Clo.base hq) (Clo.base hp) (by rw [omega_comm]; exact o2)).trans c2⟩
  · intro v
    rw [← G4_eq, mem_L4]
    constructor
    · rintro ⟨lv, qv⟩; exact (clo_G4 t v lv).2 qv
    · intro hv
      have lv : v.length = 2 * (t + 4) := by have := clo_length hU hv; omega
      exact ⟨lv, (clo_G4 t v lv).1 hv⟩
  · rw [← G4_eq]
    have hI1 : Indep (2 * (t + 2) + 2) (GB1r (t + 1)) := by
      have := indep_insert (L := 2 * (t + 2)) (p := GB1 (t + 1)) (q := [])
        (news := [false :: true :: aT (t + 1), true :: false :: zeroV (2 * (t + 2))])
        (uniform_GB1 (t + 1)) (by simp)
        (by intro v hv
            simp only [List.mem_cons, List.not_mem_nil, or_false] at hv
            rcases hv with rfl | rfl <;> simp [length_aT])
        (by simpa using indep_GB1 (t + 1)) (firstLetters_pair (aT (t + 1)) (length_aT (t + 1)))
      simpa [GB1r] using this
    have hlr : ∀ v ∈ GB1r (t + 1), v.length = 2 * (t + 2) + 2 := fun v hv => by
      have := uniform_GB1 (t + 2) v (mem_GB1r.1 hv); omega
    have lu : (uT (t + 1)).length = 2 * (t + 2) + 2 := by rw [length_uT]; omega
    have := indep_insert (L := 2 * (t + 2) + 2) (p := GB1r (t + 1)) (q := [])
      (news := [false :: true :: uT (t + 1), true :: false :: zeroV (2 * (t + 2) + 2)])
      hlr (by simp)
      (by intro v hv
          simp only [List.mem_cons, List.not_mem_nil, or_false] at hv
          rcases hv with rfl | rfl <;> simp [lu])
      (by simpa using hI1) (firstLetters_pair _ lu)
    have e : 2 * (t + 4) = 2 * (t + 2) + 2 + 2 := by omega
    have e3 : 2 * (t + 3) = 2 * (t + 2) + 2 := by omega
    rw [e]
    simpa [G4, e3] using this

end C01TypeB
end PauLie
