/-
C01, second half of the classification theorem, type A in general: a path `v 0 … v (m-1)`
(`v 0` a single leg, `v 1` the centre, `v 2 …` the long leg; m ≥ 2) and further single legs `es` at
the centre `v 1`, all strings together linearly independent.  With the central elements
`zed z = Σ_{e ∈ S} (e + v 0)` (S the selection `z` of `es`) the commutator closure is

      { I + zed z :  I an interval of the path,  z any selection of es },

each member having exactly one such form; so it has 2^|es| · m(m+1)/2 members - the dimension of
2^(k-1)·so(m+1) for k = |es|+1 single legs (`m = r+2` for a long leg of length r: so(r+3)).
Core Lean only.
-/
import PauLieVerif.Proofs.C01Path
import PauLieVerif.Proofs.C01StarCount

namespace PauLie
namespace C01Star
open Closure

instance : Std.Associative (α := V) add := ⟨add_assoc⟩
instance : Std.Commutative (α := V) add := ⟨add_comm⟩

/-- hypotheses of a type-A star in path-plus-extra-legs form -/
structure TypeA (L : Nat) (v : Nat → V) (m : Nat) (es : List V) : Prop where
  path : PathF L v m
  hm : 2 ≤ m
  el : ∀ e ∈ es, e.length = L
  ec : ∀ e ∈ es, omega (v 1) e = true
  ep : ∀ e ∈ es, ∀ i, i < m → i ≠ 1 → omega (v i) e = false
  ee : ∀ e ∈ es, ∀ e' ∈ es, omega e e' = false
  indep : ∀ (f : Nat → Bool) (b : List Bool), b.length = es.length →
    add (fsum L v f m) (msum L b es) = zeroV L → b = noneMask es.length ∧ ∀ i, i < m → f i = false

/-- the central element of the selection `z`: `Σ_{e ∈ S} (e + v 0)` -/
def zed (L : Nat) (v : Nat → V) (es : List V) (z : List Bool) : V :=
  add (msum L z es) (if par z then v 0 else zeroV L)

theorem fsum_single {L : Nat} {v : Nat → V} (p : Bool) (j : Nat) : ∀ k, (∀ i, i < k → (v i).length = L) →
    fsum L v (fun i => p && decide (i = j)) k = if (p && decide (j < k)) then v j else zeroV L
  | 0, _ => by simp [fsum]
  | k + 1, h => by
    have ih := fsum_single p j k (fun i hi => h i (by omega))
    simp only [fsum, ih]
    cases p
    · simp
    · by_cases hkj : k = j
      · subst hkj
        have : ¬ k < k := by omega
        simp [this, add_zero_left L _ (h k (by omega))]
      · by_cases hjk : j < k
        · have : j < k + 1 := by omega
          simp [hkj, hjk, this]
        · have : ¬ j < k + 1 := by omega
          simp [hkj, hjk, this]

namespace TypeA
variable {L : Nat} {v : Nat → V} {m : Nat} {es : List V}

theorem lv0 (h : TypeA L v m es) : (v 0).length = L := h.path.len 0 (by have := h.hm; omega)
theorem lv1 (h : TypeA L v m es) : (v 1).length = L := h.path.len 1 (by have := h.hm; omega)

theorem length_P (h : TypeA L v m es) (p : Bool) : (if p then v 0 else zeroV L).length = L := by
  cases p
  · simp
  · simpa using h.lv0

theorem length_zed (h : TypeA L v m es) (z : List Bool) : (zed L v es z).length = L :=
  length_add_eq (length_msum z es h.el) (h.length_P _)

theorem zed_none (_h : TypeA L v m es) : zed L v es (noneMask es.length) = zeroV L := by
  simp [zed, msum_noneMask, par_noneMask, add_zero_left]

theorem zed_mxor (h : TypeA L v m es) {a b : List Bool} (ha : a.length = es.length) (hb : b.length = es.length) :
    zed L v es (mxor a b) = add (zed L v es a) (zed L v es b) := by
  unfold zed
  rw [msum_mxor a b es h.el ha hb, par_mxor a b (ha.trans hb.symm)]
  have l0 := h.lv0
  have la := length_msum (m := L) a es h.el
  have lb := length_msum (m := L) b es h.el
  cases par a <;> cases par b <;> simp only [bne_self_eq_false, Bool.true_bne, Bool.false_bne, Bool.not_false,
    if_true, if_false, Bool.false_eq_true]
  · rw [add_zero_right L _ (length_add_eq la lb), add_zero_right L _ la, add_zero_right L _ lb]
  · rw [add_zero_right L _ la]; ac_rfl
  · rw [add_zero_right L _ lb]; ac_rfl
  · rw [add_zero_right L _ (length_add_eq la lb)]
    have : add (add (msum L a es) (v 0)) (add (msum L b es) (v 0)) =
        add (add (msum L a es) (msum L b es)) (add (v 0) (v 0)) := by ac_rfl
    rw [this, add_self_of_length l0, add_zero_right L _ (length_add_eq la lb)]

/-- `zed z` commutes with every path vertex -/
theorem omega_zed_v (h : TypeA L v m es) (z : List Bool) (hz : z.length = es.length) {i : Nat} (hi : i < m) :
    omega (zed L v es z) (v i) = false := by
  have hm := h.hm
  unfold zed
  rw [omega_add_left _ _ _ ((length_msum z es h.el).trans (h.length_P _).symm), omega_comm (msum L z es)]
  by_cases h1 : i = 1
  · subst h1
    rw [omega_msum_anti (v 1) z es h.el h.ec hz]
    cases par z
    · simp [omega_zero_left]
    · have := h.path.om 0 1 (by omega) (by omega)
      simp at this
      simp [this]
  · rw [omega_msum_comm (v i) z es h.el (fun e he => h.ep e he i hi h1)]
    cases par z
    · simp [omega_zero_left]
    · have := h.path.om 0 i (by omega) hi
      have e : ¬ (0 + 1 = i ∨ i + 1 = 0) := by omega
      simp only [e, decide_false] at this
      simp [this]

/-- `zed z` commutes with every extra leg -/
theorem omega_zed_e (h : TypeA L v m es) (z : List Bool) {e : V} (he : e ∈ es) :
    omega (zed L v es z) e = false := by
  have hm := h.hm
  unfold zed
  rw [omega_add_left _ _ _ ((length_msum z es h.el).trans (h.length_P _).symm), omega_comm (msum L z es),
    omega_msum_comm e z es h.el (fun e' he' => h.ee e he e' he')]
  cases par z
  · simp [omega_zero_left]
  · simp [h.ep e he 0 (by omega) (by omega)]

theorem omega_zed_pre (h : TypeA L v m es) (z : List Bool) (hz : z.length = es.length) :
    ∀ a, a ≤ m → omega (zed L v es z) (pre L v a) = false
  | 0, _ => by simp [pre, omega_zero_right]
  | a + 1, ha => by
    simp only [pre]
    rw [omega_add_right _ _ _ ((h.path.length_pre a (by omega)).trans (h.path.len a (by omega)).symm),
      omega_zed_pre h z hz a (by omega), h.omega_zed_v z hz (by omega)]
    rfl

theorem omega_zed_iv (h : TypeA L v m es) (z : List Bool) (hz : z.length = es.length) {a b : Nat}
    (ha : a ≤ m) (hb : b ≤ m) : omega (zed L v es z) (iv L v a b) = false := by
  unfold iv
  rw [omega_add_right _ _ _ ((h.path.length_pre a ha).trans (h.path.length_pre b hb).symm),
    h.omega_zed_pre z hz a ha, h.omega_zed_pre z hz b hb]
  rfl

theorem omega_zed_zed (h : TypeA L v m es) (z z' : List Bool) (hz : z.length = es.length) :
    omega (zed L v es z) (zed L v es z') = false := by
  have hm := h.hm
  have h0 : omega (zed L v es z) (if par z' then v 0 else zeroV L) = false := by
    cases par z'
    · simp [omega_zero_right]
    · simpa using h.omega_zed_v z hz (i := 0) (by omega)
  have : omega (zed L v es z) (msum L z' es) = false :=
    omega_msum_comm _ z' es h.el (fun e he => h.omega_zed_e z he)
  conv => lhs; rhs; unfold zed
  rw [omega_add_right _ _ _ ((length_msum z' es h.el).trans (h.length_P _).symm), this, h0]
  rfl

/-- the central elements drop out of the symplectic form -/
theorem omega_Iz (h : TypeA L v m es) {a b c d : Nat} (ha : a ≤ m) (hb : b ≤ m) (hc : c ≤ m) (hd : d ≤ m)
    {z z' : List Bool} (hz : z.length = es.length) (hz' : z'.length = es.length) :
    omega (add (iv L v a b) (zed L v es z)) (add (iv L v c d) (zed L v es z')) =
      omega (iv L v a b) (iv L v c d) := by
  have l1 := h.path.length_iv ha hb
  have l2 := h.path.length_iv hc hd
  have l3 := h.length_zed z
  have l4 := h.length_zed z'
  rw [omega_add_left _ _ _ (l1.trans l3.symm), omega_add_right _ _ _ (l2.trans l4.symm),
    omega_add_right _ _ _ (l2.trans l4.symm), h.omega_zed_iv z hz hc hd, h.omega_zed_zed z z' hz,
    omega_comm (iv L v a b) (zed L v es z'), h.omega_zed_iv z' hz' ha hb]
  simp

/-- the generator list: path vertices, then the extra legs -/
def gensA (v : Nat → V) (m : Nat) (es : List V) : List V := PathF.gensF v m ++ es

/-- membership in the closed form -/
def InT (L : Nat) (v : Nat → V) (m : Nat) (es : List V) (x : V) : Prop :=
  ∃ a b z, a < b ∧ b ≤ m ∧ List.length z = es.length ∧ x = add (iv L v a b) (zed L v es z)

theorem closed (h : TypeA L v m es) {x y : V} (hx : InT L v m es x) (hy : InT L v m es y)
    (ho : omega x y = true) : InT L v m es (add x y) := by
  obtain ⟨a, b, z, hab, hb, hz, rfl⟩ := hx
  obtain ⟨c, d, z', hcd, hd, hz', rfl⟩ := hy
  rw [h.omega_Iz (by omega) hb (by omega) hd hz hz'] at ho
  obtain ⟨p, q, hpq, hq, e⟩ := h.path.iv_step hab hb hcd hd ho
  refine ⟨p, q, mxor z z', hpq, hq, by rw [length_mxor z z' (hz.trans hz'.symm), hz], ?_⟩
  rw [h.zed_mxor hz hz', ← e]
  ac_rfl

theorem gens_in (h : TypeA L v m es) {g : V} (hg : g ∈ gensA v m es) : InT L v m es g := by
  have hm := h.hm
  rcases List.mem_append.1 hg with hg | hg
  · obtain ⟨k, hk, rfl⟩ := PathF.mem_gensF.1 hg
    refine ⟨k, k + 1, noneMask es.length, by omega, hk, by simp, ?_⟩
    rw [h.zed_none, h.path.iv_succ hk, add_zero_right L _ (h.path.len k hk)]
  · obtain ⟨u, hu, pu, eu⟩ := exists_unit_mask L es g hg h.el
    refine ⟨0, 1, u, by omega, by omega, hu, ?_⟩
    have : iv L v 0 (0 + 1) = v 0 := h.path.iv_succ (by omega)
    simp only [Nat.zero_add] at this
    rw [this]
    unfold zed
    rw [eu, pu]
    simp only [if_true]
    rw [add_comm g (v 0), add_add_cancel_left _ _ (h.lv0.trans (h.el g hg).symm)]

theorem clo_sub (h : TypeA L v m es) {x : V} (hx : Clo (gensA v m es) x) : InT L v m es x := by
  induction hx with
  | base hg => exact h.gens_in hg
  | step _ _ ho ihx ihy => exact h.closed ihx ihy ho

/-! ### every `I + zed z` is in the closure -/

theorem v_mem (_h : TypeA L v m es) {i : Nat} (hi : i < m) : v i ∈ gensA v m es :=
  List.mem_append_left _ (PathF.mem_gensF.2 ⟨i, hi, rfl⟩)

theorem clo_iv (h : TypeA L v m es) {a b : Nat} (hab : a < b) (hb : b ≤ m) : Clo (gensA v m es) (iv L v a b) :=
  clo_mono (fun _ hg => List.mem_append_left _ hg) ((h.path.clo_path _).2 ⟨a, b, hab, hb, rfl⟩)

/-- (a) the centre times any central element -/
theorem clo_c (h : TypeA L v m es) (z : List Bool) : Clo (gensA v m es) (add (v 1) (zed L v es z)) := by
  have hm := h.hm
  have key := Star.clo_add_msum (G := gensA v m es) (m := L) (v 0 :: es) (par z :: z) (v 1)
    (Clo.base (h.v_mem (by omega))) h.lv1
    (by
      intro w hw
      rcases List.mem_cons.1 hw with rfl | hw
      · refine ⟨h.v_mem (by omega), h.lv0, ?_⟩
        have := h.path.om 1 0 (by omega) (by omega)
        simpa using this
      · exact ⟨List.mem_append_right _ hw, h.el w hw, h.ec w hw⟩)
    (by
      rw [List.pairwise_cons]
      refine ⟨fun e he => h.ep e he 0 (by omega) (by omega), ?_⟩
      rw [List.pairwise_iff_forall_sublist]
      intro a b hab
      have := hab.subset
      exact h.ee a (this (by simp)) b (this (by simp)))
  have e : msum L (par z :: z) (v 0 :: es) = zed L v es z := by
    unfold zed
    cases par z
    · simp [add_zero_right L _ (length_msum z es h.el)]
    · simp [add_comm]
  rwa [e] at key

/-- (c) intervals starting at the centre -/
theorem clo_1b (h : TypeA L v m es) (z : List Bool) (hz : z.length = es.length) : ∀ d, d + 2 ≤ m →
    Clo (gensA v m es) (add (iv L v 1 (d + 2)) (zed L v es z))
  | 0, hd => by
    have : iv L v 1 (1 + 1) = v 1 := h.path.iv_succ (by omega)
    rw [show 0 + 2 = 1 + 1 by rfl, this]
    exact h.clo_c z
  | d + 1, hd => by
    have ih := clo_1b h z hz d (by omega)
    have hc := h.path.iv_chain (a := 1) (b := d + 2) (by omega) (by omega)
    have ho : omega (add (iv L v 1 (d + 2)) (zed L v es z)) (v (d + 2)) = true := by
      rw [omega_add_left _ _ _ ((h.path.length_iv (by omega) (by omega)).trans (h.length_zed z).symm),
        hc.1, h.omega_zed_v z hz (by omega)]
      rfl
    have := Clo.step ih (Clo.base (h.v_mem (i := d + 2) (by omega))) ho
    rw [show d + 1 + 2 = d + 2 + 1 by omega, ← hc.2]
    have e : add (add (iv L v 1 (d + 2)) (zed L v es z)) (v (d + 2)) =
        add (add (iv L v 1 (d + 2)) (v (d + 2))) (zed L v es z) := by ac_rfl
    rwa [e] at this

/-- (d) intervals starting at the first single leg and passing the centre -/
theorem clo_0b (h : TypeA L v m es) (z : List Bool) (hz : z.length = es.length) {b : Nat} (hb2 : 2 ≤ b)
    (hb : b ≤ m) : Clo (gensA v m es) (add (iv L v 0 b) (zed L v es z)) := by
  have hm := h.hm
  obtain ⟨d, rfl⟩ : ∃ d, b = d + 2 := ⟨b - 2, by omega⟩
  have h1 := h.clo_1b z hz d hb
  have hv0 : iv L v 0 1 = v 0 := h.path.iv_succ (k := 0) (by omega)
  have ho : omega (add (iv L v 1 (d + 2)) (zed L v es z)) (v 0) = true := by
    rw [omega_add_left _ _ _ ((h.path.length_iv (by omega) hb).trans (h.length_zed z).symm),
      h.omega_zed_v z hz (by omega), ← hv0, h.path.omega_iv (by omega) hb (by omega) (by omega)]
    bool_omega
  have := Clo.step h1 (Clo.base (h.v_mem (i := 0) (by omega))) ho
  have e : add (add (iv L v 1 (d + 2)) (zed L v es z)) (v 0) =
      add (add (iv L v 1 (d + 2)) (iv L v 1 0)) (zed L v es z) := by
    rw [iv_comm L v 1 0, hv0]; ac_rfl
  rw [e, h.path.iv_share (by omega) (by omega), iv_comm] at this
  exact this

/-- (b)/(e) the first single leg times any central element -/
theorem clo_01 (h : TypeA L v m es) (z : List Bool) (hz : z.length = es.length) :
    Clo (gensA v m es) (add (iv L v 0 1) (zed L v es z)) := by
  have hm := h.hm
  have h1 := h.clo_0b z hz (b := 2) (by omega) hm
  have hv1 : iv L v 1 2 = v 1 := h.path.iv_succ (k := 1) (by omega)
  have ho : omega (add (iv L v 0 2) (zed L v es z)) (v 1) = true := by
    rw [omega_add_left _ _ _ ((h.path.length_iv (by omega) hm).trans (h.length_zed z).symm),
      h.omega_zed_v z hz (by omega), ← hv1, h.path.omega_iv (by omega) hm (by omega) hm]
    bool_omega
  have := Clo.step h1 (Clo.base (h.v_mem (i := 1) (by omega))) ho
  have e : add (add (iv L v 0 2) (zed L v es z)) (v 1) =
      add (add (iv L v 2 0) (iv L v 2 1)) (zed L v es z) := by
    rw [iv_comm L v 2 0, iv_comm L v 2 1, hv1]; ac_rfl
  rw [e, h.path.iv_share hm (by omega)] at this
  exact this

/-- every `I + zed z` is in the closure -/
theorem clo_sup (h : TypeA L v m es) {x : V} (hx : InT L v m es x) : Clo (gensA v m es) x := by
  obtain ⟨a, b, z, hab, hb, hz, rfl⟩ := hx
  have hm := h.hm
  by_cases ha0 : a = 0
  · subst ha0
    by_cases hb1 : b = 1
    · subst hb1; exact h.clo_01 z hz
    · exact h.clo_0b z hz (by omega) hb
  · by_cases ha1 : a = 1
    · subst ha1
      obtain ⟨d, rfl⟩ : ∃ d, b = d + 2 := ⟨b - 2, by omega⟩
      exact h.clo_1b z hz d hb
    · -- a ≥ 2: [a,b) = [1,a) + [1,b)
      obtain ⟨d, rfl⟩ : ∃ d, b = d + 2 := ⟨b - 2, by omega⟩
      have h1 := h.clo_iv (a := 1) (b := a) (by omega) (by omega)
      have h2 := h.clo_1b z hz d hb
      have ho : omega (iv L v 1 a) (add (iv L v 1 (d + 2)) (zed L v es z)) = true := by
        rw [omega_add_right _ _ _ ((h.path.length_iv (by omega) hb).trans (h.length_zed z).symm),
          omega_comm _ (zed L v es z), h.omega_zed_iv z hz (by omega) (by omega),
          h.path.omega_iv (by omega) (by omega) (by omega) hb]
        bool_omega
      have := Clo.step h1 h2 ho
      have e : add (iv L v 1 a) (add (iv L v 1 (d + 2)) (zed L v es z)) =
          add (add (iv L v 1 a) (iv L v 1 (d + 2))) (zed L v es z) := by ac_rfl
      rw [e, h.path.iv_share (by omega) hb] at this
      exact this

/-- **closed form of the closure of a type-A star** -/
theorem clo_typeA (h : TypeA L v m es) (x : V) : Clo (gensA v m es) x ↔ InT L v m es x :=
  ⟨h.clo_sub, h.clo_sup⟩

end TypeA
end C01Star
end PauLie
