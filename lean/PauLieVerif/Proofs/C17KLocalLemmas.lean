/-
Helpers for property C17, k-local clause:

  "Expanding a generator list to n qubits yields exactly the distinct translates
  of each (right-padded) generator, each once, all of length n."

The model is `Graph.collInit`, `Graph.genKLocal`, `Graph.genKLocalGenerators`,
`Graph.getPauliStringList` (Model/Graph.lean), a transcription of
`gen_k_local`, `gen_k_local_generators`, `get_pauli_string`, class `Used` of
`src/paulie/common/pauli_string_factory.py`.  Here: the spec vocabulary
(`translate`, `translates`, `dedupKeepFirst`) and the simulation of the two nested
loops with the shared `Used` list for ARBITRARY generator lists and symbolic `n`
(the C19 files do the same for particular two-letter generator lists).
Core Lean only.
-/
import PauLieVerif.Proofs.C14Lemmas
import PauLieVerif.Proofs.C19Commuting

namespace PauLie
namespace C17

open PS Graph

/-! ## 1. Spec vocabulary -/

/-- the translate `I^j · g · I^(n − len g − j)`, given by its letters -/
def translate (n : Nat) (g : PS) (j : Nat) : PS :=
  PS.ofLetters (List.replicate j Letter.I ++ g.letters ++ List.replicate (n - g.len - j) Letter.I)

/-- the `n + 1 − len g` translates of `g` inside `n` qubits, offsets `j = 0 .. n − len g` in order
(none when `g` is longer than `n`) -/
def translates (n : Nat) (g : PS) : List PS :=
  (List.range (n + 1 - g.len)).map (translate n g)

/-- keep the FIRST occurrence of every string, drop all later ones, keep the order -/
def dedupKeepFirst : List PS → List PS
  | [] => []
  | x :: t => x :: (dedupKeepFirst t).filter (fun y => decide (y ≠ x))

/-! ## 2. `dedupKeepFirst` is what its name says -/

theorem mem_dedupKeepFirst {l : List PS} {x : PS} : x ∈ dedupKeepFirst l ↔ x ∈ l := by
  induction l with
  | nil => simp [dedupKeepFirst]
  | cons a t ih =>
    simp only [dedupKeepFirst, List.mem_cons, List.mem_filter, ih, decide_eq_true_eq]
    by_cases h : x = a <;> simp [h]

theorem nodup_dedupKeepFirst (l : List PS) : (dedupKeepFirst l).Nodup := by
  induction l with
  | nil => simp [dedupKeepFirst]
  | cons a t ih =>
    simp only [dedupKeepFirst, List.nodup_cons, List.mem_filter, decide_eq_true_eq]
    exact ⟨fun h => h.2 rfl, ih.sublist List.filter_sublist⟩

theorem dedupKeepFirst_sublist (l : List PS) : (dedupKeepFirst l).Sublist l := by
  induction l with
  | nil => simp [dedupKeepFirst]
  | cons a t ih =>
    simp only [dedupKeepFirst]
    exact (List.filter_sublist.trans ih).cons_cons a

/-- a duplicate-free list is left alone -/
theorem dedupKeepFirst_of_nodup {l : List PS} (h : l.Nodup) : dedupKeepFirst l = l := by
  induction l with
  | nil => rfl
  | cons a t ih =>
    rw [List.nodup_cons] at h
    simp only [dedupKeepFirst, ih h.2]
    congr 1
    rw [List.filter_eq_self]
    intro y hy
    simp only [decide_eq_true_eq]
    rintro rfl
    exact h.1 hy

theorem idxOf_cons_ne {a y : PS} (l : List PS) (h : a ≠ y) :
    (a :: l).idxOf y = l.idxOf y + 1 := by
  rw [List.idxOf_cons]
  have : (a == y) = false := by simpa using h
  rw [this]; rfl

/-- first-occurrence order: the survivors are sorted by the index of their first occurrence -/
theorem dedupKeepFirst_order (l : List PS) :
    (dedupKeepFirst l).Pairwise (fun x y => l.idxOf x < l.idxOf y) := by
  induction l with
  | nil => simp [dedupKeepFirst]
  | cons a t ih =>
    simp only [dedupKeepFirst, List.pairwise_cons, List.mem_filter, decide_eq_true_eq]
    refine ⟨?_, ?_⟩
    · intro y hy
      rw [List.idxOf_cons_self, idxOf_cons_ne _ (Ne.symm hy.2)]
      omega
    · refine List.Pairwise.imp_of_mem ?_ (ih.sublist List.filter_sublist)
      intro x y hx hy hxy
      rw [List.mem_filter, decide_eq_true_eq] at hx hy
      rw [idxOf_cons_ne _ (Ne.symm hx.2), idxOf_cons_ne _ (Ne.symm hy.2)]
      omega

/-! ## 3. The `Used` set: `containsPS`-guarded appends -/

/-- one `if used.is_used(x): continue; used.append(x)` step -/
def dstep (acc : List PS) (x : PS) : List PS := if containsPS acc x then acc else acc ++ [x]

theorem dstep_wf {acc : List PS} {x : PS} (ha : ∀ q ∈ acc, q.WF) (hx : x.WF) :
    ∀ q ∈ dstep acc x, q.WF := by
  intro q hq
  unfold dstep at hq
  split at hq
  · exact ha q hq
  · rcases List.mem_append.1 hq with h | h
    · exact ha q h
    · rw [List.mem_singleton.1 h]; exact hx

theorem foldl_dstep_wf {l acc : List PS} (ha : ∀ q ∈ acc, q.WF) (hl : ∀ q ∈ l, q.WF) :
    ∀ q ∈ l.foldl dstep acc, q.WF := by
  induction l generalizing acc with
  | nil => exact ha
  | cons x t ih =>
    exact ih (dstep_wf ha (hl x (by simp))) (fun q hq => hl q (by simp [hq]))

/-- on synchronised strings the guarded appends compute `dedupKeepFirst`, after what is there already -/
theorem foldl_dstep_eq {l acc : List PS} (ha : ∀ q ∈ acc, q.WF) (hl : ∀ q ∈ l, q.WF) :
    l.foldl dstep acc = acc ++ (dedupKeepFirst l).filter (fun y => decide (y ∉ acc)) := by
  induction l generalizing acc with
  | nil => simp [dedupKeepFirst]
  | cons x t ih =>
    have hx : x.WF := hl x (by simp)
    have ht : ∀ q ∈ t, q.WF := fun q hq => hl q (by simp [hq])
    rw [List.foldl_cons, ih (dstep_wf ha hx) ht]
    unfold dstep
    by_cases hc : x ∈ acc
    · rw [if_pos ((C14.containsPS_iff_mem ha hx).2 hc)]
      simp only [dedupKeepFirst, List.filter_cons, hc, not_true_eq_false, decide_false,
        Bool.false_eq_true, if_false, List.filter_filter]
      congr 1
      apply List.filter_congr
      intro y _
      by_cases hy : y ∈ acc
      · simp [hy]
      · have : y ≠ x := fun e => hy (e ▸ hc)
        simp [hy, this]
    · rw [if_neg (fun h => hc ((C14.containsPS_iff_mem ha hx).1 h))]
      simp only [dedupKeepFirst, List.filter_cons, hc, not_false_eq_true, decide_true, if_true,
        List.filter_filter, List.append_assoc, List.singleton_append]
      congr 2
      apply List.filter_congr
      intro y _
      by_cases hy : y ∈ acc <;> by_cases hyx : y = x <;> simp [hy, hyx]

theorem foldl_dstep_nil {l : List PS} (hl : ∀ q ∈ l, q.WF) : l.foldl dstep [] = dedupKeepFirst l := by
  rw [foldl_dstep_eq (by simp) hl]
  simp

/-! ## 4. The translates computed by `gen_k_local` -/

theorem ident_bits (k : Nat) : (PS.ident k).bits = List.replicate (2 * k) false := rfl

/-- `get_identity(k) + p + get_identity(m)` has the letters `I^k p I^m` -/
theorem tensor_ident (p : PS) (hp : p.WF) (k m : Nat) :
    (PS.ident k).tensor (p.tensor (PS.ident m))
      = PS.ofLetters (List.replicate k Letter.I ++ p.letters ++ List.replicate m Letter.I) := by
  simp only [PS.tensor, PS.ofLetters, PS.ofBits, ident_bits, PS.letters, C18.encode_append,
    C18.encode_replicate_I, C18.encode_decode p.bits hp.2.2, List.append_assoc]

theorem translate_wf (n : Nat) (g : PS) (j : Nat) : (translate n g j).WF := C18.wf_ofLetters' _

theorem translate_len {n : Nat} {g : PS} {j : Nat} (h : j + g.len ≤ n) : (translate n g j).len = n := by
  rw [translate, C18.len_ofLetters]
  simp only [PS.letters, C18.decode_length, List.length_append, List.length_replicate]
  unfold PS.len at h ⊢
  omega

theorem translate_letters (n : Nat) (g : PS) (j : Nat) :
    (translate n g j).letters
      = List.replicate j Letter.I ++ g.letters ++ List.replicate (n - g.len - j) Letter.I :=
  C18.letters_ofLetters _

theorem mem_translates {n : Nat} {g x : PS} :
    x ∈ translates n g ↔ ∃ j, j + g.len ≤ n ∧ x = translate n g j := by
  simp only [translates, List.mem_map, List.mem_range]
  constructor
  · rintro ⟨j, hj, rfl⟩; exact ⟨j, by omega, rfl⟩
  · rintro ⟨j, hj, rfl⟩; exact ⟨j, by omega, rfl⟩

theorem translates_wf {n : Nat} {g : PS} : ∀ x ∈ translates n g, x.WF := by
  intro x hx
  obtain ⟨j, _, rfl⟩ := mem_translates.1 hx
  exact translate_wf n g j

theorem translates_len {n : Nat} {g : PS} : ∀ x ∈ translates n g, x.len = n := by
  intro x hx
  obtain ⟨j, hj, rfl⟩ := mem_translates.1 hx
  exact translate_len hj

theorem translates_length (n : Nat) (g : PS) : (translates n g).length = n + 1 - g.len := by
  simp [translates]

/-- two translates of one non-identity string at different offsets differ: a string has
exactly `n + 1 − len g` DISTINCT translates unless it is an identity -/
theorem translate_inj {n : Nat} {g : PS} (hg : ∃ l ∈ g.letters, l ≠ Letter.I) {i j : Nat}
    (h : translate n g i = translate n g j) : i = j := by
  have hl := congrArg PS.letters h
  rw [translate_letters, translate_letters] at hl
  -- the position of the first non-identity letter
  have key : ∀ (a : Nat) (w r : List Letter), (∃ l ∈ w, l ≠ Letter.I) →
      (List.replicate a Letter.I ++ w ++ r).findIdx (fun l => decide (l ≠ Letter.I))
        = a + w.findIdx (fun l => decide (l ≠ Letter.I)) := by
    intro a w r hw
    induction a with
    | zero =>
      simp only [List.replicate_zero, List.nil_append, Nat.zero_add]
      have : w.findIdx (fun l => decide (l ≠ Letter.I)) < w.length := by
        rw [List.findIdx_lt_length]
        obtain ⟨l, hl, hne⟩ := hw
        exact ⟨l, hl, by simpa using hne⟩
      rw [List.findIdx_append, if_pos this]
    | succ a ih =>
      rw [List.replicate_succ, List.cons_append, List.cons_append, List.findIdx_cons, ih]
      simp
      omega
  have := congrArg (List.findIdx (fun l => decide (l ≠ Letter.I))) hl
  rw [key i _ _ hg, key j _ _ hg] at this
  omega

theorem translates_nodup {n : Nat} {g : PS} (hg : ∃ l ∈ g.letters, l ≠ Letter.I) :
    (translates n g).Nodup := by
  unfold translates
  rw [List.Nodup, List.pairwise_map]
  refine List.Pairwise.imp_of_mem ?_ List.pairwise_lt_range
  intro i j hi hj hlt h
  rw [List.mem_range] at hi hj
  have := translate_inj hg h
  omega

/-! ## 5. The inner loop: `gen_k_local(n, p, used)` -/

/-- the loop body of `gen_k_local`, for any way `f k` of building the k-th candidate -/
theorem foldl_inner (f : Nat → PS) (ks : List Nat) (ys us : List PS) :
    ∃ d, ks.foldl (fun (acc : List PS × List PS) (k : Nat) =>
          let left := f k
          if containsPS acc.2 left then acc else (acc.1 ++ [left], acc.2 ++ [left])) (ys, us)
        = (ys ++ d, us ++ d) ∧ us ++ d = (ks.map f).foldl dstep us := by
  induction ks generalizing ys us with
  | nil => exact ⟨[], by simp⟩
  | cons k t ih =>
    simp only [List.foldl_cons, List.map_cons]
    by_cases hc : containsPS us (f k) = true
    · obtain ⟨d, h1, h2⟩ := ih ys us
      refine ⟨d, ?_, ?_⟩
      · simp only [hc, if_true]; exact h1
      · rw [show dstep us (f k) = us by simp [dstep, hc]]; exact h2
    · obtain ⟨d, h1, h2⟩ := ih (ys ++ [f k]) (us ++ [f k])
      refine ⟨f k :: d, ?_, ?_⟩
      · simp only [hc]
        simpa using h1
      · rw [show dstep us (f k) = us ++ [f k] by simp [dstep, hc]]
        simpa using h2

/-- `gen_k_local(n, p, used)` with `len p ≤ n`: never raises; yields `d` and leaves `used ++ d`,
where `used ++ d` is `used` after the guarded appends of the translates of `p` in order -/
theorem genKLocal_eq {n : Nat} {p : PS} (hp : p.WF) (hn : p.len ≤ n) (used : List PS) :
    ∃ d, genKLocal n p used = .ok (d, used ++ d)
      ∧ used ++ d = (translates n p).foldl dstep used := by
  unfold genKLocal
  rw [if_neg (by omega)]
  obtain ⟨d, h1, h2⟩ := foldl_inner
    (fun k => (PS.ident k).tensor (p.tensor (PS.ident (n - p.len - k)))) (List.range (n - p.len + 1)) [] used
  refine ⟨d, ?_, ?_⟩
  · show Except.ok (List.foldl _ _ _) = _
    rw [h1]; rfl
  · rw [h2, translates, show n + 1 - p.len = n - p.len + 1 by omega]
    congr 1
    apply List.map_congr_left
    intro k _
    exact tensor_ident p hp k _

/-- `gen_k_local(n, p, used)` with `n < len p` raises ValueError -/
theorem genKLocal_short {n : Nat} {p : PS} (hn : n < p.len) (used : List PS) :
    genKLocal n p used = .error .valueError := by
  unfold genKLocal
  rw [if_pos hn]

/-! ## 6. The outer loop: `gen_k_local_generators(n, generators)` -/

theorem foldl_outer (n : Nat) (gs : List PS) (o : List PS) :
    gs.foldl (fun (s : List PS × List PS) (g : PS) =>
        ((translates n g).foldl dstep s.2, (translates n g).foldl dstep s.2)) (o, o)
      = ((gs.flatMap (translates n)).foldl dstep o, (gs.flatMap (translates n)).foldl dstep o) := by
  induction gs generalizing o with
  | nil => rfl
  | cons g t ih =>
    rw [List.foldl_cons, ih, List.flatMap_cons, List.foldl_append]

/-- `gen_k_local_generators(n, gs)` for a non-empty list of synchronised strings none longer
than `n`: never raises; the yielded strings are the translates of the members, generator by
generator, a string being skipped when the shared `Used` has it already -/
theorem genKLocalGenerators_eq {n : Nat} {gs : List PS} (hne : gs ≠ [])
    (hw : ∀ g ∈ gs, g.WF) (hn : ∀ g ∈ gs, g.len ≤ n) :
    genKLocalGenerators n gs = .ok (dedupKeepFirst (gs.flatMap (translates n))) := by
  unfold genKLocalGenerators
  have he : gs.isEmpty = false := by
    cases gs with
    | nil => exact absurd rfl hne
    | cons _ _ => rfl
  simp only [he]
  rw [C14.forIn_yield_inv (fun (s : List PS × List PS) => s.1 = s.2) _ _
    (fun (g : PS) (s : List PS × List PS) =>
      ((translates n g).foldl dstep s.2, (translates n g).foldl dstep s.2))]
  · simp only [Bool.false_eq_true, if_false, bind, Except.bind, pure, Except.pure]
    rw [foldl_outer]
    simp only
    rw [foldl_dstep_nil]
    intro q hq
    obtain ⟨g, _, hq⟩ := List.mem_flatMap.1 hq
    exact translates_wf q hq
  · rintro g hg ⟨out, used⟩ hs
    simp only at hs
    subst hs
    obtain ⟨d, h1, h2⟩ := genKLocal_eq (hw g hg) (hn g hg) out
    simp only [h1, bind, Except.bind, pure, Except.pure, h2, and_self]
  · rfl

/-- the first generator longer than `n` makes `gen_k_local_generators` raise ValueError
(here: the head of the list) -/
theorem genKLocalGenerators_short {n : Nat} {g : PS} {t : List PS} (hn : n < g.len) :
    genKLocalGenerators n (g :: t) = .error .valueError := by
  unfold genKLocalGenerators
  simp only [List.isEmpty_cons, Bool.false_eq_true, if_false, List.forIn_cons, genKLocal_short hn,
    bind, Except.bind, pure, Except.pure]

/-- `max` of an empty sequence raises ValueError -/
theorem genKLocalGenerators_nil (n : Nat) : genKLocalGenerators n [] = .error .valueError := rfl

/-! ## 7. The padded generators -/

theorem padTo_wf (L : Nat) (g : PS) : (C14.padTo L g).WF := C18.wf_ofLetters' _

theorem padTo_len {L : Nat} {g : PS} (h : g.len ≤ L) : (C14.padTo L g).len = L :=
  (C14.padTo_spec h).2

theorem padTo_letters (L : Nat) (g : PS) :
    (C14.padTo L g).letters = g.letters ++ List.replicate (L - g.len) Letter.I :=
  C18.letters_ofLetters _

theorem le_maxLen {gens : List PS} {g : PS} (h : g ∈ gens) : g.len ≤ C14.maxLen gens :=
  (C14.foldl_max_spec gens 0).2.1 g h

theorem maxLen_nil : C14.maxLen [] = 0 := rfl

end C17
end PauLie
