/-
Helpers for property C19, part 28: families a6 (`XX`,`YZ`,`ZY`) and a10 (`XY`,`YZ`,`ZX`), table row
`su(2^(n-1))` (n odd), `4·su(2^(n-2))` (n even) - the row of a7.

Both are site-wise relabellings of a7 (`XX`,`YY`,`ZZ`):
 * a6: swap `Y ↔ Z` on the odd sites (`sw6`, an involution);
 * a10: apply the cyclic shift `τ : X → Y → Z → X` `k` times on site `k` (`sh10`, inverse `sh10'`).
At every position the three two-site words of a7 are carried onto the three words of a6 / a10, so by
`clo_transfer` the closure is `{x | T7 (relabelled x)}`: the strings commuting with the two images of `X…X`, `Z…Z`
other than the identity and the three images of the uniform strings; `card_transfer` gives the same size.
-/
import PauLieVerif.Proofs.C19LastMap

namespace PauLie
namespace C19
open Closure Graph C01Star C03

/-- `Y ↔ Z` on bit pairs (`X = (1,0)`, `Y = (1,1)`, `Z = (0,1)`) -/
def swYZ (a b : Bool) : Bool × Bool := (a != b, b)
/-- `τ : X → Y → Z → X` -/
def tau (a b : Bool) : Bool × Bool := (a != b, a)
/-- `τ⁻¹ : X → Z → Y → X` -/
def tau' (a b : Bool) : Bool × Bool := (b, a != b)
def idL (a b : Bool) : Bool × Bool := (a, b)

theorem symp2_swYZ : Symp2 swYZ := by
  refine ⟨?_, ?_, ?_⟩ <;> intro a b c d <;> cases a <;> cases b <;> cases c <;> cases d <;> simp [swYZ]
theorem symp2_tau : Symp2 tau := by
  refine ⟨?_, ?_, ?_⟩ <;> intro a b c d <;> cases a <;> cases b <;> cases c <;> cases d <;> simp [tau]
theorem symp2_tau' : Symp2 tau' := by
  refine ⟨?_, ?_, ?_⟩ <;> intro a b c d <;> cases a <;> cases b <;> cases c <;> cases d <;> simp [tau']
theorem symp2_idL : Symp2 idL := by
  refine ⟨?_, ?_, ?_⟩ <;> intro a b c d <;> cases a <;> cases b <;> cases c <;> cases d <;> simp [idL]

/-- a6: `Y ↔ Z` on odd sites -/
def sw6 (k : Nat) : Bool → Bool → Bool × Bool := if k % 2 = 1 then swYZ else idL
/-- a10: `τ^k` on site `k` -/
def sh10 (k : Nat) : Bool → Bool → Bool × Bool := if k % 3 = 0 then idL else if k % 3 = 1 then tau else tau'
/-- the inverse -/
def sh10' (k : Nat) : Bool → Bool → Bool × Bool := if k % 3 = 0 then idL else if k % 3 = 1 then tau' else tau

theorem symp2_sw6 (k : Nat) : Symp2 (sw6 k) := by
  unfold sw6; split
  · exact symp2_swYZ
  · exact symp2_idL

theorem symp2_sh10 (k : Nat) : Symp2 (sh10 k) := by
  unfold sh10; split
  · exact symp2_idL
  · split
    · exact symp2_tau
    · exact symp2_tau'

theorem sw6_inv (k : Nat) (a b : Bool) : sw6 k (sw6 k a b).1 (sw6 k a b).2 = (a, b) := by
  unfold sw6; split <;> cases a <;> cases b <;> simp [swYZ, idL]

theorem sh10_inv1 (k : Nat) (a b : Bool) : sh10' k (sh10 k a b).1 (sh10 k a b).2 = (a, b) := by
  unfold sh10 sh10'
  split
  · rfl
  · split <;> cases a <;> cases b <;> simp [tau, tau']

theorem sh10_inv2 (k : Nat) (a b : Bool) : sh10 k (sh10' k a b).1 (sh10' k a b).2 = (a, b) := by
  unfold sh10 sh10'
  split
  · rfl
  · split <;> cases a <;> cases b <;> simp [tau, tau']

def gensA6 : List V := [vXX, vYZ, vZY]
def gensA10 : List V := [vXY, vYZ, vZX]

theorem lenA6 : ∀ g ∈ gensA6, g.length = 4 := by simp [gensA6, vXX, vYZ, vZY]
theorem lenA10 : ∀ g ∈ gensA10, g.length = 4 := by simp [gensA10, vXY, vYZ, vZX]

theorem siteMap_four (f : Nat → Bool → Bool → Bool × Bool) (k : Nat) (a b c d : Bool) :
    siteMap f k [a, b, c, d] = [(f k a b).1, (f k a b).2, (f (k + 1) c d).1, (f (k + 1) c d).2] := rfl

/-- at every position the words of a7 go onto the words of a6 -/
theorem perm_a6 (k : Nat) (g' : V) : g' ∈ gensA6 ↔ ∃ g ∈ gensA7, siteMap sw6 k g = g' := by
  have e : ∀ g ∈ gensA7, siteMap sw6 k g = siteMap sw6 (k % 2) g := by
    intro g hg
    simp only [gensA7, vXX, vYY, vZZ', List.mem_cons, List.not_mem_nil, or_false] at hg
    rcases hg with rfl | rfl | rfl <;> simp only [siteMap_four, sw6] <;> simp [Nat.add_mod]
  have h01 : k % 2 = 0 ∨ k % 2 = 1 := by omega
  constructor
  · intro h
    simp only [gensA6, List.mem_cons, List.not_mem_nil, or_false] at h
    rcases h01 with h0 | h0 <;> rcases h with rfl | rfl | rfl
    · exact ⟨vXX, by simp [gensA7], by rw [e _ (by simp [gensA7]), h0]; rfl⟩
    · exact ⟨vYY, by simp [gensA7], by rw [e _ (by simp [gensA7]), h0]; rfl⟩
    · exact ⟨vZZ', by simp [gensA7], by rw [e _ (by simp [gensA7]), h0]; rfl⟩
    · exact ⟨vXX, by simp [gensA7], by rw [e _ (by simp [gensA7]), h0]; rfl⟩
    · exact ⟨vZZ', by simp [gensA7], by rw [e _ (by simp [gensA7]), h0]; rfl⟩
    · exact ⟨vYY, by simp [gensA7], by rw [e _ (by simp [gensA7]), h0]; rfl⟩
  · rintro ⟨g, hg, rfl⟩
    rw [e g hg]
    simp only [gensA7, List.mem_cons, List.not_mem_nil, or_false] at hg
    rcases h01 with h0 | h0 <;> rw [h0] <;> rcases hg with rfl | rfl | rfl <;> decide

/-- at every position the words of a7 go onto the words of a10 -/
theorem perm_a10 (k : Nat) (g' : V) : g' ∈ gensA10 ↔ ∃ g ∈ gensA7, siteMap sh10 k g = g' := by
  have e : ∀ g ∈ gensA7, siteMap sh10 k g = siteMap sh10 (k % 3) g := by
    intro g hg
    simp only [gensA7, vXX, vYY, vZZ', List.mem_cons, List.not_mem_nil, or_false] at hg
    rcases hg with rfl | rfl | rfl <;> simp only [siteMap_four, sh10] <;> simp [Nat.add_mod]
  have h012 : k % 3 = 0 ∨ k % 3 = 1 ∨ k % 3 = 2 := by omega
  constructor
  · intro h
    simp only [gensA10, List.mem_cons, List.not_mem_nil, or_false] at h
    rcases h012 with h0 | h0 | h0 <;> rcases h with rfl | rfl | rfl
    · exact ⟨vXX, by simp [gensA7], by rw [e _ (by simp [gensA7]), h0]; rfl⟩
    · exact ⟨vYY, by simp [gensA7], by rw [e _ (by simp [gensA7]), h0]; rfl⟩
    · exact ⟨vZZ', by simp [gensA7], by rw [e _ (by simp [gensA7]), h0]; rfl⟩
    · exact ⟨vZZ', by simp [gensA7], by rw [e _ (by simp [gensA7]), h0]; rfl⟩
    · exact ⟨vXX, by simp [gensA7], by rw [e _ (by simp [gensA7]), h0]; rfl⟩
    · exact ⟨vYY, by simp [gensA7], by rw [e _ (by simp [gensA7]), h0]; rfl⟩
    · exact ⟨vYY, by simp [gensA7], by rw [e _ (by simp [gensA7]), h0]; rfl⟩
    · exact ⟨vZZ', by simp [gensA7], by rw [e _ (by simp [gensA7]), h0]; rfl⟩
    · exact ⟨vXX, by simp [gensA7], by rw [e _ (by simp [gensA7]), h0]; rfl⟩
  · rintro ⟨g, hg, rfl⟩
    rw [e g hg]
    simp only [gensA7, List.mem_cons, List.not_mem_nil, or_false] at hg
    rcases h012 with h0 | h0 | h0 <;> rw [h0] <;> rcases hg with rfl | rfl | rfl <;> decide

/-- closed form of a6: after swapping `Y ↔ Z` on the odd sites the string satisfies `T7`, i.e. `x` commutes with
`X X X X …` and `Z Y Z Y …` and is none of the identity, `X X X X …`, `Y Z Y Z …`, `Z Y Z Y …` -/
def T6 (x : V) : Bool := T7 (siteMap sw6 0 x)

/-- closed form of a10: after undoing `τ^k` on site `k` the string satisfies `T7`, i.e. `x` commutes with
`X Y Z X …` and `Z X Y Z …` and is none of the identity, `X Y Z X …`, `Y Z X Y …`, `Z X Y Z …` -/
def T10 (x : V) : Bool := T7 (siteMap sh10' 0 x)

theorem clo_a6 {n : Nat} (hn : 3 ≤ n) (x : V) : Clo (klocalV n gensA6) x ↔ x.length = 2 * n ∧ T6 x = true :=
  clo_transfer symp2_sw6 sw6_inv sw6_inv lenA7 perm_a6 (clo_a7 hn) x

theorem clo_a10 {n : Nat} (hn : 3 ≤ n) (x : V) : Clo (klocalV n gensA10) x ↔ x.length = 2 * n ∧ T10 x = true :=
  clo_transfer symp2_sh10 sh10_inv1 sh10_inv2 lenA7 perm_a10 (clo_a7 hn) x

theorem card_a6 (n : Nat) : (closureList (klocalV n gensA6)).1.length = (closureList (klocalV n gensA7)).1.length :=
  card_transfer symp2_sw6 lenA7 lenA6 perm_a6 n

theorem card_a10 (n : Nat) : (closureList (klocalV n gensA10)).1.length = (closureList (klocalV n gensA7)).1.length :=
  card_transfer symp2_sh10 lenA7 lenA10 perm_a10 n

end C19
end PauLie
