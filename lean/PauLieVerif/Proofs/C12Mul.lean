/-
Helper lemmas for property C12, part 2: the product `@`, the trace, the dense
matrix `get_matrix()`, and linear independence of the Pauli-string matrices
(trace orthogonality).
-/
import PauLieVerif.Proofs.C12Lemmas
import Mathlib.LinearAlgebra.Matrix.Trace

namespace PauLie
namespace C12

open Matrix Complex C04

/-! ## E. The product -/

theorem mulTerm_spec {n : ℕ} {ta tb : GR × PS}
    (ha : ta.2.WF ∧ ta.2.len = n) (hb : tb.2.WF ∧ tb.2.len = n) :
    ∃ t, Lin.mulTerm ta tb = .ok t ∧ (t.2.WF ∧ t.2.len = n) ∧ term n t = term n ta * term n tb := by
  obtain ⟨k, r, hs, hm, _, hwf, hlen, hM⟩ := C04_mul n ta.2 tb.2 ha.1 hb.1 ha.2 hb.2
  refine ⟨(ta.1 * tb.1 * GR.negIPow k, r), ?_, ⟨hwf, hlen⟩, ?_⟩
  · simp [Lin.mulTerm, hs, hm, bind, Except.bind, pure, Except.pure]
  · simp only [term, toC_mul, toC_negIPow]
    rw [Matrix.smul_mul, Matrix.mul_smul, smul_smul, hM, smul_smul]

theorem mulRow_spec {n : ℕ} {ta : GR × PS} {b : Lin}
    (ha : ta.2.WF ∧ ta.2.len = n) (hb : Valid n b) :
    ∃ r, Lin.mulRow ta b = .ok r ∧ Valid n r ∧ r.length = b.length ∧ den n r = term n ta * den n b := by
  induction b with
  | nil => exact ⟨[], rfl, valid_nil n, rfl, by simp⟩
  | cons tb b ih =>
    obtain ⟨t, ht, hvt, hdt⟩ := mulTerm_spec ha (valid_cons.mp hb).1
    obtain ⟨r, hr, hvr, hlr, hdr⟩ := ih (valid_cons.mp hb).2
    refine ⟨t :: r, ?_, valid_cons.mpr ⟨hvt, hvr⟩, by simp [hlr], ?_⟩
    · simp [Lin.mulRow, ht, hr, bind, Except.bind, pure, Except.pure]
    · rw [den_cons, den_cons, hdt, hdr, Matrix.mul_add]

theorem mulAll_spec {n : ℕ} {a b : Lin} (ha : Valid n a) (hb : Valid n b) :
    ∃ r, Lin.mulAll a b = .ok r ∧ Valid n r ∧ r.length = a.length * b.length ∧
      den n r = den n a * den n b := by
  induction a with
  | nil => exact ⟨[], rfl, valid_nil n, by simp, by simp⟩
  | cons ta a ih =>
    obtain ⟨r, hr, hvr, hlr, hdr⟩ := mulRow_spec (b := b) (valid_cons.mp ha).1 hb
    obtain ⟨s, hs, hvs, hls, hds⟩ := ih (valid_cons.mp ha).2
    refine ⟨r ++ s, ?_, valid_append hvr hvs, ?_, ?_⟩
    · simp [Lin.mulAll, hr, hs, bind, Except.bind, pure, Except.pure]
    · simp [hlr, hls, Nat.add_mul, Nat.add_comm]
    · rw [den_append, hdr, hds, den_cons, Matrix.add_mul]

theorem matmul_spec {n : ℕ} {a b : Lin} (ha : Valid n a) (hb : Valid n b) :
    ∃ r, Lin.matmul a b = .ok r ∧ den n r = den n a * den n b ∧
      ((a ≠ [] ∨ b ≠ []) → Valid n r) := by
  obtain ⟨ts, hts, hvts, hlts, hdts⟩ := mulAll_spec ha hb
  by_cases he : ts.isEmpty = true
  · have hts0 : ts = [] := List.isEmpty_iff.mp he
    refine ⟨Lin.mk [(GR.zero, PS.ident (if Lin.getSize a > 0 then Lin.getSize a else Lin.getSize b))],
      ?_, ?_, ?_⟩
    · simp [Lin.matmul, hts, he, bind, Except.bind, pure, Except.pure]
    · rw [den_mk, ← hdts, hts0]; simp [term, toC_zero]
    · intro hne
      apply valid_mk
      intro t ht
      simp only [List.mem_singleton] at ht
      subst ht
      rw [len_ident]
      rw [hts0, List.length_nil] at hlts
      rcases Nat.mul_eq_zero.mp hlts.symm with h0 | h0
      · have ha0 : a = [] := List.length_eq_zero_iff.mp h0
        have hb0 : b ≠ [] := by rcases hne with h | h; exact absurd ha0 h; exact h
        subst ha0
        have h00 : Lin.getSize ([] : Lin) = 0 := rfl
        rw [h00, getSize_valid hb hb0]
        simp
      · have hb0 : b = [] := List.length_eq_zero_iff.mp h0
        have ha0 : a ≠ [] := by rcases hne with h | h; exact h; exact absurd hb0 h
        subst hb0
        rw [getSize_valid ha ha0]
        split
        · rfl
        · next h => simp [Lin.getSize]; omega
  · refine ⟨Lin.simplify (Lin.mk ts), ?_, ?_, fun _ => ?_⟩
    · simp [Lin.matmul, hts, he, bind, Except.bind, pure, Except.pure]
    · rw [den_simplify, den_mk, hdts]
    · rw [mk_valid hvts]; exact valid_simplify hvts

/-! ## F. Traces of Pauli-string matrices -/

theorem trace_σ (a : Letter) : (σ a).trace = if a = .I then 2 else 0 := by
  cases a <;> simp [Matrix.trace, Fin.sum_univ_two, σ]; norm_num

/-- `tr M(P) = 2ⁿ` if `P` is the identity string and `0` otherwise. -/
theorem trace_M {n : ℕ} (P : Fin n → Letter) :
    (M P).trace = if P = (fun _ => Letter.I) then (2 : ℂ) ^ n else 0 := by
  have h : (M P).trace = ∏ i, (σ (P i)).trace := by
    simp only [Matrix.trace, Matrix.diag_apply, M_apply]
    rw [Finset.prod_univ_sum, Fintype.piFinset_univ]
  rw [h]
  split
  · next hP => subst hP; simp [trace_σ]
  · next hP =>
    obtain ⟨i, hi⟩ := Function.ne_iff.mp hP
    exact Finset.prod_eq_zero (Finset.mem_univ i) (by simp [trace_σ, hi])

theorem lmul_eq_I {a b : Letter} : lmul a b = .I ↔ a = b := by
  cases a <;> cases b <;> decide

/-- Trace orthogonality: `tr (M P · M Q) = 2ⁿ δ_{PQ}`. -/
theorem trace_M_mul {n : ℕ} (P Q : Fin n → Letter) :
    (M P * M Q).trace = if P = Q then (2 : ℂ) ^ n else 0 := by
  rw [M_mul, Matrix.trace_smul, trace_M]
  by_cases h : P = Q
  · subst h
    simp [ph_self, lmul_self]
  · rw [if_neg h, if_neg, smul_zero]
    intro hI
    apply h
    funext i
    exact lmul_eq_I.mp (congrFun hI i)

/-! ## G. Coefficients and linear independence -/

/-- The collected coefficient of the string `P` in a term list. -/
def coef (n : ℕ) (P : Fin n → Letter) (a : Lin) : ℂ :=
  (a.map (fun t => if t.2.vec n = P then t.1.toC else 0)).sum

@[simp] theorem coef_nil (n : ℕ) (P : Fin n → Letter) : coef n P [] = 0 := rfl

theorem coef_cons (n : ℕ) (P : Fin n → Letter) (t : GR × PS) (a : Lin) :
    coef n P (t :: a) = (if t.2.vec n = P then t.1.toC else 0) + coef n P a := by
  simp [coef]

/-- Coefficient extraction by the trace form. -/
theorem trace_M_mul_den {n : ℕ} (P : Fin n → Letter) (a : Lin) :
    (M P * den n a).trace = (2 : ℂ) ^ n * coef n P a := by
  induction a with
  | nil => simp
  | cons t a ih =>
    rw [den_cons, Matrix.mul_add, Matrix.trace_add, ih, coef_cons, term, Matrix.mul_smul,
      Matrix.trace_smul, trace_M_mul, mul_add]
    congr 1
    by_cases h : P = t.2.vec n
    · subst h; simp [mul_comm]
    · have h' : ¬ t.2.vec n = P := fun e => h e.symm
      simp [h, h']

instance : Fintype Letter := ⟨⟨[Letter.I, .X, .Y, .Z], by decide⟩, fun l => by cases l <;> decide⟩

/-- Every denoted matrix is the combination of the Pauli-string matrices with the
collected coefficients. -/
theorem den_eq_sum_coef {n : ℕ} (a : Lin) :
    den n a = ∑ P : Fin n → Letter, coef n P a • M P := by
  induction a with
  | nil => simp
  | cons t a ih =>
    rw [den_cons, ih]
    simp only [coef_cons, add_smul, Finset.sum_add_distrib]
    congr 1
    simp only [ite_smul, zero_smul]
    rw [Finset.sum_ite_eq Finset.univ (t.2.vec n) (fun P => t.1.toC • M P)]
    simp [term]

/-- **Linear independence of the Pauli-string matrices**: two term lists denote the
same matrix iff all collected coefficients agree. -/
theorem den_eq_iff_coef {n : ℕ} (a b : Lin) :
    den n a = den n b ↔ ∀ P : Fin n → Letter, coef n P a = coef n P b := by
  constructor
  · intro h P
    have h1 := trace_M_mul_den P a
    have h2 := trace_M_mul_den P b
    rw [h] at h1
    have : (2 : ℂ) ^ n * coef n P a = (2 : ℂ) ^ n * coef n P b := by rw [← h1, ← h2]
    exact mul_left_cancel₀ (pow_ne_zero n two_ne_zero) this
  · intro h
    rw [den_eq_sum_coef a, den_eq_sum_coef b]
    exact Finset.sum_congr rfl (fun P _ => by rw [h P])

theorem den_eq_zero_iff_coef {n : ℕ} (a : Lin) :
    den n a = 0 ↔ ∀ P : Fin n → Letter, coef n P a = 0 := by
  have := den_eq_iff_coef (n := n) a []
  simpa using this

/-! ## H. The model's `trace` -/

theorem encode_eq_replicate (w : List Letter) :
    encode w = List.replicate (encode w).length false ↔ w = List.replicate w.length Letter.I := by
  induction w with
  | nil => simp [encode]
  | cons l w ih =>
    simp only [encode, List.length_cons, List.replicate_succ, List.cons.injEq]
    rw [ih]
    cases l <;> simp [Letter.code]

theorem vecOf_eq_const (n : ℕ) (w : List Letter) (hw : w.length = n) :
    vecOf n w = (fun _ => Letter.I) ↔ w = List.replicate n Letter.I := by
  constructor
  · intro h
    apply List.ext_getElem (by simp [hw])
    intro i h1 h2
    have := congrFun h ⟨i, hw ▸ h1⟩
    simp only [vecOf, List.getD_eq_getElem?_getD, List.getElem?_eq_getElem h1, Option.getD_some] at this
    simp [this]
  · intro h
    funext i
    subst h
    simp [vecOf, List.getD_eq_getElem?_getD]

theorem isIdentity_iff {n : ℕ} {p : PS} (hp : p.WF) (hn : p.len = n) :
    p.isIdentity = true ↔ p.vec n = (fun _ => Letter.I) := by
  have hw : p.letters.length = n := (length_letters p).trans hn
  rw [PS.vec, vecOf_eq_const n _ hw, ← hw]
  conv_lhs => rw [WF_eq_ofLetters hp]
  rw [← encode_eq_replicate]
  simp [PS.isIdentity, PS.ofLetters, PS.ofBits]

theorem trace_den {n : ℕ} (a : Lin) :
    (den n a).trace = (2 : ℂ) ^ n * coef n (fun _ => Letter.I) a := by
  induction a with
  | nil => simp
  | cons t a ih =>
    rw [den_cons, Matrix.trace_add, ih, coef_cons, term, Matrix.trace_smul, trace_M, mul_add]
    congr 1
    by_cases h : t.2.vec n = fun _ => Letter.I
    · simp [h, mul_comm]
    · simp [h]

theorem idsum_eq_coef {n : ℕ} {a : Lin} (ha : Valid n a) :
    (GR.sum ((a.filter (fun t => t.2.isIdentity)).map (·.1))).toC = coef n (fun _ => Letter.I) a := by
  rw [toC_sum]
  induction a with
  | nil => rfl
  | cons t a ih =>
    have ht := (valid_cons.mp ha).1
    rw [coef_cons, ← ih (valid_cons.mp ha).2]
    by_cases h : t.2.isIdentity = true
    · have h' := (isIdentity_iff ht.1 ht.2).mp h
      simp [h, h']
    · have h' : ¬ t.2.vec n = fun _ => Letter.I := fun e => h ((isIdentity_iff ht.1 ht.2).mpr e)
      simp [h, h']

theorem trace_spec {n : ℕ} {a : Lin} (ha : Valid n a) :
    (Lin.trace a).toC = (den n a).trace := by
  rw [trace_den, ← idsum_eq_coef ha]
  unfold Lin.trace
  simp only
  split
  · next h => rw [h, toC_zero, mul_zero]
  · next h =>
    have hne : a ≠ [] := by
      intro h0; subst h0; exact h rfl
    rw [toC_mul, toC_ofNat, getSize_valid ha hne]
    push_cast
    ring

/-! ## I. The dense matrix -/

theorem matCheck_valid {n : ℕ} (hn : n ≠ 0) {a : Lin} (ha : Valid n a) : Lin.matCheck n a = .ok () := by
  induction a with
  | nil => rfl
  | cons t a ih =>
    have ht := (valid_cons.mp ha).1
    simp [Lin.matCheck, ht.2, hn, ih (valid_cons.mp ha).2]

theorem toC_termEntry {n : ℕ} {t : GR × PS} (ht : t.2.len = n) (r c : List Bool)
    (hr : r.length = n) (hc : c.length = n) :
    (Lin.termEntry t r c).toC = term n t (idxOf n r) (idxOf n c) := by
  rw [Lin.termEntry, toC_mul, toC_ofGI,
    entry_toComplex n t.2.letters r c ((length_letters _).trans ht) hr hc]
  simp [term, PS.vec]

theorem toC_sumEntry {n : ℕ} {a : Lin} (ha : Valid n a) (r c : List Bool)
    (hr : r.length = n) (hc : c.length = n) :
    (Lin.sumEntry a r c).toC = den n a (idxOf n r) (idxOf n c) := by
  have gen : ∀ (z : GR), (a.foldl (fun acc t => acc + Lin.termEntry t r c) z).toC
      = z.toC + den n a (idxOf n r) (idxOf n c) := by
    induction a with
    | nil => intro z; simp
    | cons t a ih =>
      intro z
      rw [List.foldl_cons, ih (valid_cons.mp ha).2, toC_add,
        toC_termEntry (valid_cons.mp ha).1.2 r c hr hc, den_cons, Matrix.add_apply, add_assoc]
  rw [Lin.sumEntry, gen, toC_zero, zero_add]

end C12
end PauLie
