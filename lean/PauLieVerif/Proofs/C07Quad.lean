/-
The quadratic form that obstructs universality for odd `k` (property C07, also
the obstruction half of C06):

  Q(P) = #{non-identity letters in the left block} + #{Y in the right block}  (mod 2)

On interleaved bit lists it is written with an explicit counter of the left
sites still to come.  Its polar form is the symplectic form `omega`:
`Q(x + y) = Q x + Q y + ω(x, y)`, so the set `{Q = 1}` is closed under products
of anticommuting members; for odd `k` every generator of the universal set has
`Q = 1`, and `X` at site `k` (0-based; the first right site) has `Q = 0`.
Core Lean only.
-/
import PauLieVerif.Proofs.C07Lemmas
import PauLieVerif.Proofs.Closure

namespace PauLie
namespace C07

open Closure

/-- `Q k v`: `k` = number of left sites among the sites of `v` still to be read -/
def Q : Nat → V → Bool
  | k + 1, x :: z :: t => ((x && z) != (x != z)) != Q k t
  | 0, x :: z :: t => (x && z) != Q 0 t
  | _, _ => false

/-- **polar identity**: `Q (x + y) = Q x + Q y + ω (x, y)` for strings of equal length -/
theorem Q_add : ∀ (k : Nat) (x y : V), x.length = y.length →
    Q k (add x y) = ((Q k x != Q k y) != omega x y)
  | k, [], [], _ => by cases k <;> simp [Q, add, omega]
  | k, [a], [b], _ => by cases k <;> simp [Q, add, omega]
  | k, x1 :: z1 :: t1, x2 :: z2 :: t2, h => by
    have ht : t1.length = t2.length := by simpa using h
    cases k with
    | zero =>
      simp only [Q, add, omega, Q_add 0 t1 t2 ht]
      cases x1 <;> cases z1 <;> cases x2 <;> cases z2 <;> cases Q 0 t1 <;> cases Q 0 t2 <;>
        cases omega t1 t2 <;> rfl
    | succ k =>
      simp only [Q, add, omega, Q_add k t1 t2 ht]
      cases x1 <;> cases z1 <;> cases x2 <;> cases z2 <;> cases Q k t1 <;> cases Q k t2 <;>
        cases omega t1 t2 <;> rfl
  | _, [], _ :: _, h => by simp at h
  | _, _ :: _, [], h => by simp at h
  | _, [_], _ :: _ :: _, h => by simp at h
  | _, _ :: _ :: _, [_], h => by simp at h

/-- the set `{Q = 1}` contains the commutator closure of any generators inside it -/
theorem Q_closure {n k : Nat} {G : List V} (hG : Uniform n G) (hQ : ∀ g ∈ G, Q k g = true)
    {x : V} (hx : Clo G x) : Q k x = true := by
  induction hx with
  | base h => exact hQ _ h
  | step hx hy ho ihx ihy =>
    rw [Q_add k _ _ ((clo_length hG hx).trans (clo_length hG hy).symm), ihx, ihy, ho]
    rfl

/-! ### the form on texts -/

/-- the same form on letters: non-identity letters while left sites remain, then `Y`s -/
def QL : Nat → List Letter → Bool
  | k + 1, l :: t => (l != Letter.I) != QL k t
  | 0, l :: t => (l == Letter.Y) != QL 0 t
  | _, [] => false

theorem Q_encode : ∀ (k : Nat) (w : List Letter), Q k (encode w) = QL k w
  | k, [] => by cases k <;> rfl
  | 0, l :: t => by
    simp only [encode, Q, QL, Q_encode 0 t]
    cases l <;> rfl
  | k + 1, l :: t => by
    simp only [encode, Q, QL, Q_encode k t]
    cases l <;> rfl

theorem QL_append : ∀ (a b : List Letter) (m : Nat),
    QL (a.length + m) (a ++ b) = (QL a.length a != QL m b)
  | [], b, m => by simp [QL]
  | l :: t, b, m => by
    have h : (l :: t).length + m = (t.length + m) + 1 := by simp; omega
    rw [h]
    simp only [List.cons_append, QL, List.length_cons, QL_append t b m]
    cases (l != Letter.I) <;> cases QL t.length t <;> cases QL m b <;> rfl

theorem QL_zero_noY : ∀ (w : List Letter), (∀ l ∈ w, l ≠ Letter.Y) → QL 0 w = false
  | [], _ => rfl
  | l :: t, h => by
    have h1 : (l == Letter.Y) = false := by
      have := h l (List.mem_cons_self ..)
      cases l <;> simp_all
    simp [QL, h1, QL_zero_noY t (fun x hx => h x (List.mem_cons_of_mem _ hx))]

theorem QL_ident : ∀ (k n : Nat), QL k (ident n) = false
  | _, 0 => by simp [ident, QL]
  | 0, n + 1 => by
    simp only [ident, List.replicate_succ, QL]
    have := QL_ident 0 n
    simp only [ident] at this
    simp [this]
  | k + 1, n + 1 => by
    simp only [ident, List.replicate_succ, QL]
    have := QL_ident k n
    simp only [ident] at this
    simp [this]

theorem single_zero (n : Nat) (l : Letter) : single (n + 1) 0 l = l :: ident n := by
  simp [single, ident, List.replicate_succ]

theorem single_succ (n i : Nat) (l : Letter) : single (n + 1) (i + 1) l = Letter.I :: single n i l := by
  simp [single, List.replicate_succ]

/-- a single non-identity letter inside the left block has `Q = 1` -/
theorem QL_single_left : ∀ (n i : Nat) (l : Letter), i < n → l ≠ Letter.I → QL n (single n i l) = true
  | 0, _, _, h, _ => by omega
  | n + 1, 0, l, _, hl => by
    rw [single_zero]
    simp only [QL, QL_ident]
    cases l <;> simp_all
  | n + 1, i + 1, l, h, hl => by
    rw [single_succ]
    simp only [QL]
    rw [QL_single_left n i l (by omega) hl]
    rfl

theorem mem_single {n i : Nat} {l x : Letter} (h : x ∈ single n i l) : x = l ∨ x = Letter.I := by
  simp only [single] at h
  rcases List.mem_or_eq_of_mem_set h with h | h
  · exact Or.inr (List.eq_of_mem_replicate h)
  · exact Or.inl h

theorem QL_zero_single (n i : Nat) (l : Letter) (hl : l ≠ Letter.Y) : QL 0 (single n i l) = false := by
  apply QL_zero_noY
  intro x hx
  rcases mem_single hx with rfl | rfl
  · exact hl
  · decide

theorem QL_replicate_Z : ∀ (k : Nat), QL k (List.replicate k Letter.Z) = decide (k % 2 = 1)
  | 0 => rfl
  | k + 1 => by
    simp only [List.replicate_succ, QL, QL_replicate_Z k]
    have h2 : k % 2 = 0 ∨ k % 2 = 1 := by omega
    rcases h2 with h | h
    · have : (k + 1) % 2 = 1 := by omega
      simp [h, this]
    · have : (k + 1) % 2 = 0 := by omega
      simp [h, this]

/-- `X` on the first right site: `Q = 0` -/
theorem QL_single_right : ∀ (k N : Nat) (l : Letter), k < N → l ≠ Letter.Y →
    QL k (single N k l) = false
  | 0, N, l, _, hl => QL_zero_single N 0 l hl
  | k + 1, 0, _, h, _ => by omega
  | k + 1, N + 1, l, h, hl => by
    rw [single_succ]
    simp only [QL]
    rw [QL_single_right k N l (by omega) hl]
    rfl

theorem QL_leftLetters {k : Nat} (hodd : k % 2 = 1) {a : List Letter} (ha : a ∈ leftLetters k) :
    QL k a = true := by
  simp only [leftLetters, List.mem_append, List.mem_flatten, List.mem_map, List.mem_range,
    List.mem_singleton] at ha
  rcases ha with ⟨l, ⟨i, hi, rfl⟩, ha⟩ | rfl
  · simp only [List.mem_cons, List.not_mem_nil, or_false] at ha
    rcases ha with rfl | rfl <;> exact QL_single_left k i _ hi (by decide)
  · rw [QL_replicate_Z]
    simp [hodd]

/-- **for odd `k` every generator of the universal set has `Q = 1`** -/
theorem QL_uLetters {N k : Nat} (hodd : k % 2 = 1) {w : List Letter}
    (hw : w ∈ uLetters N k) : QL k w = true := by
  have hk0 : 0 < k := by omega
  simp only [uLetters, List.mem_append, List.mem_map] at hw
  rcases hw with ⟨a, ha, rfl⟩ | ⟨b, hb, rfl⟩
  · have hl : a.length = k := by
      simp only [leftLetters, List.mem_append, List.mem_flatten, List.mem_map, List.mem_range,
        List.mem_singleton] at ha
      rcases ha with ⟨l, ⟨i, hi, rfl⟩, ha⟩ | rfl
      · simp only [List.mem_cons, List.not_mem_nil, or_false] at ha
        rcases ha with rfl | rfl <;> simp
      · simp
    have := QL_append a (ident (N - k)) 0
    rw [Nat.add_zero, hl] at this
    rw [this, QL_leftLetters hodd ha, QL_ident]
    rfl
  · have := QL_append (single k 0 Letter.X) b 0
    rw [Nat.add_zero, length_single] at this
    rw [this, QL_single_left k 0 _ hk0 (by decide)]
    rcases hb with ⟨j, _, rfl⟩ | ⟨j, _, rfl⟩ <;> rw [QL_zero_single _ _ _ (by decide)] <;> rfl

end C07
end PauLie
