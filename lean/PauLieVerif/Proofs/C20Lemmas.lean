/-
Lemmas for Properties/C20.lean: every collection the optimiser moves to is either the
current one or a *contraction* of it (one occurrence of a string `a` replaced by `a·b` for
a member `b` anticommuting with `a`), and contractions keep the commutator closure, the
number of strings and their common length.
-/
import PauLieVerif.Model.Optimise
import PauLieVerif.Proofs.Bridge
import PauLieVerif.Proofs.Closure
import PauLieVerif.Proofs.C10Lemmas
import PauLieVerif.Properties.C14

namespace PauLie
namespace C20
open Collection Optimise Closure

/-- synchronised strings on `n` qubits -/
def UW (n : Nat) (g : List PS) : Prop := ∀ p ∈ g, p.WF ∧ p.len = n

def bitsOf (g : List PS) : List V := g.map (·.bits)

/-- one move on the bit level -/
inductive MoveB (G G' : List V) : Prop
  | same : G' = G → MoveB G G'
  | contract (a b : V) (k : Nat) : G[k]? = some a → b ∈ G → omega a b = true →
      G' = G.set k (add a b) → MoveB G G'

theorem uniform_of_uw {n : Nat} {g : List PS} (h : UW n g) : Uniform n (bitsOf g) := by
  intro v hv
  simp only [bitsOf, List.mem_map] at hv
  obtain ⟨p, hp, rfl⟩ := hv
  have := h p hp
  have h2 := this.1.2.2
  have h3 := this.2
  unfold PS.len at h3
  omega

/-- a move keeps the closure, the number of strings and the common length -/
theorem move_spec {n : Nat} {G G' : List V} (hG : Uniform n G) (h : MoveB G G') :
    (∀ x, Clo G x ↔ Clo G' x) ∧ G'.length = G.length ∧ Uniform n G' := by
  cases h with
  | same h => subst h; exact ⟨fun _ => Iff.rfl, rfl, hG⟩
  | contract a b k hk hb ho h =>
    subst h
    have hkl : k < G.length := by
      rcases Nat.lt_or_ge k G.length with h | h
      · exact h
      · rw [List.getElem?_eq_none h] at hk; cases hk
    have ha : a ∈ G := List.mem_of_getElem? hk
    have hGk : G[k] = a := by
      have := List.getElem?_eq_getElem hkl
      rw [this] at hk; exact Option.some.inj hk
    refine ⟨fun x => ?_, by simp, ?_⟩
    · apply clo_contract hG ha hb ho
      · exact List.mem_iff_getElem.mpr ⟨k, by simpa using hkl, by simp⟩
      · intro g hg hne
        obtain ⟨j, hj, rfl⟩ := List.mem_iff_getElem.mp hg
        have hjk : j ≠ k := by
          intro h; subst h; exact hne hGk
        exact List.mem_iff_getElem.mpr ⟨j, by simpa using hj, by simp [List.getElem_set, Ne.symm hjk]⟩
      · intro g hg
        rcases List.mem_or_eq_of_mem_set hg with h | h
        · exact Or.inr h
        · exact Or.inl h
    · intro g hg
      rcases List.mem_or_eq_of_mem_set hg with h | h
      · exact hG g h
      · subst h
        exact length_add_eq (hG a ha) (hG b hb)

/-! ### the helpers on uniform collections -/

theorem foldl_max_le (f : PS → Nat) (n : Nat) : ∀ (l : List PS) (m : Nat), m ≤ n → (∀ g ∈ l, f g ≤ n) →
    l.foldl (fun m g => max m (f g)) m ≤ n
  | [], m, hm, _ => hm
  | x :: l, m, hm, h => by
    simp only [List.foldl_cons]
    exact foldl_max_le f n l _ (Nat.max_le.mpr ⟨hm, h x List.mem_cons_self⟩)
      (fun g hg => h g (List.mem_cons_of_mem _ hg))

theorem mapM_id_of {f : PS → Except Err PS} : ∀ (l : List PS), (∀ x ∈ l, f x = .ok x) → l.mapM f = .ok l
  | [], _ => rfl
  | x :: l, h => by
    rw [List.mapM_cons, h x List.mem_cons_self, mapM_id_of l (fun y hy => h y (List.mem_cons_of_mem _ hy))]
    rfl

theorem collInit_uw {n : Nat} {g : List PS} (h : UW n g) : Graph.collInit g = .ok g := by
  unfold Graph.collInit
  split
  · next he => have : g = [] := by simpa using he
               subst this; rfl
  · simp only
    apply mapM_id_of
    intro x hx
    have hL : g.foldl (fun m g => max m g.len) 0 ≤ n :=
      foldl_max_le PS.len n g 0 (Nat.zero_le _) (fun y hy => Nat.le_of_eq (h y hy).2)
    have : ¬ x.len < g.foldl (fun m g => max m g.len) 0 := by
      rw [(h x hx).2]; omega
    simp [this]

theorem longest_uw {n : Nat} {g : List PS} (h : UW n g) {x : PS} (hx : x ∈ g) : longest g = n := by
  apply Nat.le_antisymm
  · exact foldl_max_le PS.len n g 0 (Nat.zero_le _) (fun y hy => Nat.le_of_eq (h y hy).2)
  · rw [← (h x hx).2]; exact C10.le_longest hx

theorem findIdx_of_mem {g : List PS} {x : PS} (hx : x ∈ g) :
    ∃ k y, findIdx g x = some k ∧ g[k]? = some y ∧ y.bits = x.bits := by
  unfold findIdx
  cases hf : g.findIdx? (fun q => q.beq x) with
  | none =>
    rw [List.findIdx?_eq_none_iff] at hf
    have := hf x hx
    simp [PS.beq] at this
  | some k =>
    rw [List.findIdx?_eq_some_iff_getElem] at hf
    obtain ⟨hk, hp, _⟩ := hf
    exact ⟨k, g[k], rfl, by simp [hk], by simpa [PS.beq] using hp⟩

/-- `gx = generators.copy(); gx.contract(x, y)` for anticommuting members `x`, `y` -/
theorem contractCopy_spec {n : Nat} {g g' : List PS} {x y : PS} (hg : UW n g)
    (hx : x ∈ g) (hy : y ∈ g) (ho : omega x.bits y.bits = true)
    (h : contractCopy g x y = .ok g') : UW n g' ∧ MoveB (bitsOf g) (bitsOf g') := by
  unfold contractCopy at h
  rw [collInit_uw hg] at h
  simp only [bind, Except.bind] at h
  obtain ⟨hxw, hxl⟩ := hg x hx
  obtain ⟨hyw, hyl⟩ := hg y hy
  obtain ⟨r, hm, hrw, hrl⟩ := C14.multiply_ok hxw hyw (hxl.trans hyl.symm)
  obtain ⟨k, z, hf, hz, hzb⟩ := findIdx_of_mem hx
  have hcw : r.copy.WF := C18.wf_ofBits' _ hrw.2.2
  have hcl : r.copy.len = n := by
    have : r.copy.len = r.len := by simp [PS.copy, PS.ofBits, PS.len]
    rw [this, hrl, hxl]
  have hproc : processing g r.copy = .ok (g, r.copy) := by
    unfold processing
    have hne : g.isEmpty = false := by
      cases g with
      | nil => cases hx
      | cons _ _ => rfl
    simp [hne, longest_uw hg hx, hcl]
  simp only [editList, hm, hf, hproc] at h
  simp only [pure, Except.pure] at h
  cases h
  refine ⟨?_, ?_⟩
  · intro p hp
    rcases List.mem_or_eq_of_mem_set hp with h | h
    · exact hg p h
    · subst h; exact ⟨hcw, hcl⟩
  · refine MoveB.contract x.bits y.bits k ?_ (List.mem_map.mpr ⟨y, hy, rfl⟩) ho ?_
    · simp [bitsOf, hz, hzb]
    · have : r.copy.bits = add x.bits y.bits := by
        have := Bridge.multiply_bits hm
        simpa [PS.copy, PS.ofBits] using this
      simp [bitsOf, List.map_set, this]

end C20
end PauLie
