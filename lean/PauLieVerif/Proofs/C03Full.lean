/-
Property C03, full invariant: the verified checker's `invOfClosure ∘ closureList` is unchanged by
every `FormMap` (qubit permutation, per-qubit relabelling, identity padding, compositions).

Two facts, both exact equalities of LISTS (not only of sets):

  I.  the worklist closure commutes with a form map:
        `(closureList (G.map φ)).1 = (closureList G).1.map φ`
      (dedup, expand, insertNew and closeLoop only use `omega`, `add` and equality tests; the fuel
      differs when `φ` changes the length, but both runs are exhausted, and an exhausted run does not
      depend on the surplus fuel);
  II. `invOfClosure (C.map φ) = invOfClosure C` whenever `φ` preserves `omega` on `C`
      (centre, components, copies, centraliser counts are all computed through `omega` alone).

Core Lean only.
-/
import PauLieVerif.Proofs.C03Spec

namespace PauLie
namespace C03
open Closure Classify

theorem mem_of_filter {p : V → Bool} {l : List V} {x : V} (h : x ∈ l.filter p) : x ∈ l := (List.mem_filter.1 h).1

section Commute
variable {n m : Nat} {φ : V → V}

theorem contains_map (hφ : FormMap n m φ) {l : List V} (hl : ∀ y ∈ l, y.length = 2 * n) {x : V}
    (hx : x.length = 2 * n) : (l.map φ).contains (φ x) = l.contains x := by
  rw [Bool.eq_iff_iff, List.contains_iff_mem, List.contains_iff_mem, List.mem_map]
  constructor
  · rintro ⟨y, hy, e⟩
    rw [← hφ.inj y x (hl y hy) hx e]; exact hy
  · intro h; exact ⟨x, h, rfl⟩

theorem dedup_fold_map (hφ : FormMap n m φ) : ∀ (l acc : List V), (∀ y ∈ l, y.length = 2 * n) →
    (∀ y ∈ acc, y.length = 2 * n) →
    (l.map φ).foldl (fun acc x => if acc.contains x then acc else acc ++ [x]) (acc.map φ) =
      (l.foldl (fun acc x => if acc.contains x then acc else acc ++ [x]) acc).map φ
  | [], _, _, _ => rfl
  | c :: t, acc, hl, ha => by
    have hc : c.length = 2 * n := hl c (List.mem_cons_self ..)
    have ht : ∀ y ∈ t, y.length = 2 * n := fun y hy => hl y (List.mem_cons_of_mem _ hy)
    simp only [List.map_cons, List.foldl_cons]
    rw [contains_map hφ ha hc]
    by_cases h : acc.contains c = true
    · simp only [h, if_true]
      exact dedup_fold_map hφ t acc ht ha
    · simp only [h, Bool.false_eq_true, if_false]
      have := dedup_fold_map hφ t (acc ++ [c]) ht (by
        intro y hy
        rcases List.mem_append.1 hy with hy | hy
        · exact ha y hy
        · simp at hy; subst hy; exact hc)
      simpa using this

theorem dedup_map (hφ : FormMap n m φ) {G : List V} (hG : Uniform n G) :
    dedup (G.map φ) = (dedup G).map φ := by
  have := dedup_fold_map hφ G [] hG (by simp)
  simpa [dedup] using this

theorem expand_map (hφ : FormMap n m φ) {gens : List V} (hG : Uniform n gens) {x : V}
    (hx : x.length = 2 * n) : expand (gens.map φ) (φ x) = (expand gens x).map φ := by
  unfold expand
  rw [List.filter_map, List.map_map, List.map_map]
  have hf : gens.filter ((fun g => omega (φ x) g) ∘ φ) = gens.filter (fun g => omega x g) := by
    apply List.filter_congr
    intro g hg
    simp only [Function.comp, hφ.om x g hx (hG g hg)]
  rw [hf]
  apply List.map_congr_left
  intro g hg
  simp only [Function.comp]
  exact (hφ.add x g hx (hG g (mem_of_filter hg))).symm

theorem insertNew_fold_map (hφ : FormMap n m φ) : ∀ (cands : List V) (acc : List V × List V),
    (∀ y ∈ cands, y.length = 2 * n) → (∀ y ∈ acc.1, y.length = 2 * n) →
    (cands.map φ).foldl (fun (acc : List V × List V) c =>
        if acc.1.contains c then acc else (c :: acc.1, c :: acc.2)) (acc.1.map φ, acc.2.map φ) =
      (((cands.foldl (fun (acc : List V × List V) c =>
        if acc.1.contains c then acc else (c :: acc.1, c :: acc.2)) acc).1).map φ,
       ((cands.foldl (fun (acc : List V × List V) c =>
        if acc.1.contains c then acc else (c :: acc.1, c :: acc.2)) acc).2).map φ)
  | [], _, _, _ => rfl
  | c :: t, acc, hl, ha => by
    have hc : c.length = 2 * n := hl c (List.mem_cons_self ..)
    have ht : ∀ y ∈ t, y.length = 2 * n := fun y hy => hl y (List.mem_cons_of_mem _ hy)
    simp only [List.map_cons, List.foldl_cons]
    rw [contains_map hφ ha hc]
    by_cases h : acc.1.contains c = true
    · simp only [h, if_true]
      exact insertNew_fold_map hφ t acc ht ha
    · simp only [h, Bool.false_eq_true, if_false]
      have := insertNew_fold_map hφ t (c :: acc.1, c :: acc.2) ht (by
        intro y hy
        rcases List.mem_cons.1 hy with rfl | hy
        · exact hc
        · exact ha y hy)
      simpa using this

theorem insertNew_map (hφ : FormMap n m φ) {seen cands : List V} (hs : ∀ y ∈ seen, y.length = 2 * n)
    (hc : ∀ y ∈ cands, y.length = 2 * n) :
    insertNew (seen.map φ) (cands.map φ) = ((insertNew seen cands).1.map φ, (insertNew seen cands).2.map φ) := by
  have := insertNew_fold_map hφ cands (seen, []) hc hs
  simpa [insertNew] using this

theorem closeLoop_map (hφ : FormMap n m φ) {gens : List V} (hG : Uniform n gens) :
    ∀ (fuel : Nat) (seen frontier : List V), (∀ y ∈ seen, y.length = 2 * n) →
    (∀ y ∈ frontier, y.length = 2 * n) →
    closeLoop (gens.map φ) fuel (seen.map φ) (frontier.map φ) =
      ((closeLoop gens fuel seen frontier).1.map φ, (closeLoop gens fuel seen frontier).2)
  | 0, seen, frontier, _, _ => by
    simp [closeLoop_zero]
  | fuel + 1, seen, [], _, _ => by
    simp [closeLoop_nil]
  | fuel + 1, seen, x :: rest, hs, hf => by
    have hx : x.length = 2 * n := hf x (List.mem_cons_self ..)
    have he : ∀ y ∈ expand gens x, y.length = 2 * n := by
      intro y hy
      obtain ⟨g, hg, _, rfl⟩ := mem_expand.1 hy
      exact length_add_eq hx (hG g hg)
    rw [List.map_cons, closeLoop_cons, closeLoop_cons, expand_map hφ hG hx, insertNew_map hφ hs he]
    simp only
    rw [← List.map_append]
    obtain ⟨d, h1, h2, _, _⟩ := insertNew_spec seen (expand gens x)
    apply closeLoop_map hφ hG fuel
    · rw [h1]
      intro y hy
      rcases List.mem_append.1 hy with h | h
      · exact he y (h2 y h)
      · exact hs y h
    · rw [h1]
      intro y hy
      rcases List.mem_append.1 hy with h | h
      · exact hf y (List.mem_cons_of_mem _ h)
      · exact he y (h2 y h)

/-- an exhausted run does not depend on surplus fuel -/
theorem closeLoop_fuel (gens : List V) : ∀ (f k : Nat) (seen frontier : List V),
    (closeLoop gens f seen frontier).2 = true →
    closeLoop gens (f + k) seen frontier = closeLoop gens f seen frontier
  | 0, k, seen, frontier, h => by
    rw [closeLoop_zero] at h
    have : frontier = [] := by simpa using h
    subst this
    cases k with
    | zero => rfl
    | succ k => rw [Nat.zero_add, closeLoop_nil]; rfl
  | f + 1, k, seen, [], _ => by
    rw [show f + 1 + k = (f + k) + 1 by omega, closeLoop_nil, closeLoop_nil]
  | f + 1, k, seen, x :: rest, h => by
    rw [show f + 1 + k = (f + k) + 1 by omega, closeLoop_cons, closeLoop_cons]
    rw [closeLoop_cons] at h
    exact closeLoop_fuel gens f k _ _ h

/-- **I. the computed closure of the image is the image of the computed closure, as a list** -/
theorem closureList_map (hφ : FormMap n m φ) {G : List V} (hG : Uniform n G) :
    (closureList (G.map φ)).1 = (closureList G).1.map φ := by
  have hU : Uniform n (dedup G) := fun g hg => hG g (mem_dedup.1 hg)
  have e1 := closureList_exhausted hG
  have e2 := closureList_exhausted (uniform_map hφ hG)
  rw [closureList_eq] at e1 e2 ⊢
  rw [closureList_eq]
  rw [dedup_map hφ hG] at e2 ⊢
  generalize hF0 : 4 ^ (match dedup G with | [] => 0 | x :: _ => x.length / 2) + (dedup G).length + 1 = F0 at e1 ⊢
  generalize hF1 : 4 ^ (match (dedup G).map φ with | [] => 0 | x :: _ => x.length / 2) +
    ((dedup G).map φ).length + 1 = F1 at e2 ⊢
  rw [← closeLoop_fuel _ F1 F0 _ _ e2, ← closeLoop_fuel _ F0 F1 _ _ e1, Nat.add_comm F1 F0,
    closeLoop_map hφ hU (F0 + F1) _ _ hU hU]

end Commute

/-! ## II. `invOfClosure` under an `omega`-preserving map -/

/-- the per-block invariant computed by `invOfClosure` -/
def inv1 (B : List V) : Nat × Nat × Nat :=
  match B with
  | [] => (0, 0, 0)
  | x0 :: _ =>
    let sig := fun (x : V) => B.map (fun z => omega x z)
    let s0 := sig x0
    let copies := (B.filter (fun y => sig y == s0)).length
    let cent := (B.filter (fun y => !(omega x0 y))).length
    (B.length / copies, labelOfBlock (B.length / copies) (cent / copies), copies)

theorem invOfClosure_eq (C : List V) :
    invOfClosure C = ⟨(C.filter (fun x => C.all (fun y => !(omega x y)))).length,
      mergeSimples ((invOfClosure.comps ((C.filter (fun x => C.any (fun y => omega x y))).length + 1)
        (C.filter (fun x => C.any (fun y => omega x y))) []).map inv1)⟩ := rfl

/-- `φ` preserves the form on the members of `S` -/
def Pres (φ : V → V) (S : List V) : Prop := ∀ x ∈ S, ∀ y ∈ S, omega (φ x) (φ y) = omega x y

theorem filter_omega_map {φ : V → V} {S : List V} (h : Pres φ S) {x : V} (hx : x ∈ S) {l : List V}
    (hl : ∀ y ∈ l, y ∈ S) (neg : Bool) :
    (l.map φ).filter (fun y => (omega (φ x) y) != neg) = (l.filter (fun y => (omega x y) != neg)).map φ := by
  rw [List.filter_map]
  congr 1
  apply List.filter_congr
  intro y hy
  simp only [Function.comp, h x hx y (hl y hy)]

theorem partition_omega_map {φ : V → V} {S : List V} (h : Pres φ S) {x : V} (hx : x ∈ S) {l : List V}
    (hl : ∀ y ∈ l, y ∈ S) :
    (l.map φ).partition (fun y => omega (φ x) y) =
      ((l.partition (fun y => omega x y)).1.map φ, (l.partition (fun y => omega x y)).2.map φ) := by
  rw [List.partition_eq_filter_filter, List.partition_eq_filter_filter]
  have h1 := filter_omega_map h hx hl false
  have h2 := filter_omega_map h hx hl true
  simp only [Bool.bne_false, Bool.bne_true] at h1 h2
  simp only [Function.comp_def]
  rw [Prod.mk.injEq]
  exact ⟨h1, h2⟩

theorem grow_mem (fuel : Nat) : ∀ (comp frontier pool : List V),
    (∀ y ∈ (invOfClosure.grow fuel comp frontier pool).1, y ∈ comp ∨ y ∈ pool) ∧
    (∀ y ∈ (invOfClosure.grow fuel comp frontier pool).2, y ∈ pool) := by
  induction fuel with
  | zero => intro comp frontier pool; simp only [invOfClosure.grow]; exact ⟨fun y hy => Or.inl hy, fun y hy => hy⟩
  | succ fuel ih =>
    intro comp frontier pool
    cases frontier with
    | nil => simp only [invOfClosure.grow]; exact ⟨fun y hy => Or.inl hy, fun y hy => hy⟩
    | cons x fr =>
      simp only [invOfClosure.grow]
      obtain ⟨i1, i2⟩ := ih (comp ++ (pool.partition (fun y => omega x y)).1)
        (fr ++ (pool.partition (fun y => omega x y)).1) (pool.partition (fun y => omega x y)).2
      rw [List.partition_eq_filter_filter] at i1 i2 ⊢
      constructor
      · intro y hy
        rcases i1 y hy with h | h
        · rcases List.mem_append.1 h with h | h
          · exact Or.inl h
          · exact Or.inr (mem_of_filter h)
        · exact Or.inr (mem_of_filter h)
      · intro y hy
        exact mem_of_filter (i2 y hy)

theorem grow_map {φ : V → V} {S : List V} (h : Pres φ S) (fuel : Nat) :
    ∀ (comp frontier pool : List V), (∀ y ∈ frontier, y ∈ S) → (∀ y ∈ pool, y ∈ S) →
    invOfClosure.grow fuel (comp.map φ) (frontier.map φ) (pool.map φ) =
      ((invOfClosure.grow fuel comp frontier pool).1.map φ, (invOfClosure.grow fuel comp frontier pool).2.map φ) := by
  induction fuel with
  | zero => intro comp frontier pool _ _; simp [invOfClosure.grow]
  | succ fuel ih =>
    intro comp frontier pool hf hp
    cases frontier with
    | nil => simp [invOfClosure.grow]
    | cons x fr =>
      have hx : x ∈ S := hf x (List.mem_cons_self ..)
      simp only [List.map_cons, invOfClosure.grow]
      rw [partition_omega_map h hx hp]
      simp only
      rw [← List.map_append, ← List.map_append]
      apply ih
      · intro y hy
        rcases List.mem_append.1 hy with hy | hy
        · exact hf y (List.mem_cons_of_mem _ hy)
        · rw [List.partition_eq_filter_filter] at hy
          exact hp y (mem_of_filter hy)
      · intro y hy
        rw [List.partition_eq_filter_filter] at hy
        exact hp y (mem_of_filter hy)

theorem comps_map {φ : V → V} {S : List V} (h : Pres φ S) (fuel : Nat) :
    ∀ (pool : List V) (acc : List (List V)), (∀ y ∈ pool, y ∈ S) →
    invOfClosure.comps fuel (pool.map φ) (acc.map (List.map φ)) =
      (invOfClosure.comps fuel pool acc).map (List.map φ) := by
  induction fuel with
  | zero => intro pool acc _; simp [invOfClosure.comps]
  | succ fuel ih =>
    intro pool acc hp
    cases pool with
    | nil => simp [invOfClosure.comps]
    | cons x pool' =>
      have hp' : ∀ y ∈ pool', y ∈ S := fun y hy => hp y (List.mem_cons_of_mem _ hy)
      simp only [List.map_cons, invOfClosure.comps, List.length_map]
      have hg := grow_map h (pool'.length + 1) [x] [x] pool' (by
        intro y hy; simp at hy; subst hy; exact hp y (List.mem_cons_self ..)) hp'
      simp only [List.map_cons, List.map_nil] at hg
      rw [hg]
      simp only
      have := ih (invOfClosure.grow (pool'.length + 1) [x] [x] pool').2
        (acc ++ [(invOfClosure.grow (pool'.length + 1) [x] [x] pool').1])
        (fun y hy => hp' y ((grow_mem _ _ _ _).2 y hy))
      simpa using this

theorem comps_mem (fuel : Nat) : ∀ (pool : List V) (acc : List (List V)),
    ∀ c ∈ invOfClosure.comps fuel pool acc, c ∈ acc ∨ ∀ y ∈ c, y ∈ pool := by
  induction fuel with
  | zero => intro pool acc c hc; simp [invOfClosure.comps] at hc; exact Or.inl hc
  | succ fuel ih =>
    intro pool acc c hc
    cases pool with
    | nil => simp [invOfClosure.comps] at hc; exact Or.inl hc
    | cons x pool' =>
      simp only [invOfClosure.comps] at hc
      rcases ih _ _ c hc with h | h
      · rcases List.mem_append.1 h with h | h
        · exact Or.inl h
        · simp at h
          subst h
          refine Or.inr (fun y hy => ?_)
          rcases (grow_mem _ _ _ _).1 y hy with h' | h'
          · simp at h'; subst h'; exact List.mem_cons_self ..
          · exact List.mem_cons_of_mem _ h'
      · exact Or.inr (fun y hy => List.mem_cons_of_mem _ ((grow_mem _ _ _ _).2 y (h y hy)))

theorem inv1_map {φ : V → V} {B : List V} (h : Pres φ B) : inv1 (B.map φ) = inv1 B := by
  cases B with
  | nil => rfl
  | cons x0 t =>
    have hsig : ∀ y ∈ x0 :: t, ((x0 :: t).map φ).map (fun z => omega (φ y) z) = (x0 :: t).map (fun z => omega y z) := by
      intro y hy
      rw [List.map_map]
      apply List.map_congr_left
      intro z hz
      simp only [Function.comp, h y hy z hz]
    have hx0 : x0 ∈ x0 :: t := List.mem_cons_self ..
    have hcop : (((x0 :: t).map φ).filter (fun y => ((x0 :: t).map φ).map (fun z => omega y z) ==
          ((x0 :: t).map φ).map (fun z => omega (φ x0) z))).length =
        ((x0 :: t).filter (fun y => (x0 :: t).map (fun z => omega y z) == (x0 :: t).map (fun z => omega x0 z))).length := by
      rw [List.filter_map, List.length_map]
      congr 1
      apply List.filter_congr
      intro y hy
      simp only [Function.comp, hsig y hy, hsig x0 hx0]
    have hcent : (((x0 :: t).map φ).filter (fun y => !(omega (φ x0) y))).length =
        ((x0 :: t).filter (fun y => !(omega x0 y))).length := by
      rw [List.filter_map, List.length_map]
      congr 1
      apply List.filter_congr
      intro y hy
      simp only [Function.comp, h x0 hx0 y hy]
    have hlen : ((x0 :: t).map φ).length = (x0 :: t).length := List.length_map _
    show inv1 (φ x0 :: t.map φ) = inv1 (x0 :: t)
    simp only [inv1]
    rw [show φ x0 :: t.map φ = (x0 :: t).map φ from rfl, hcop, hcent, hlen]

/-- **II. the full invariant of a list is unchanged by a form-preserving map of its members** -/
theorem invOfClosure_map {φ : V → V} {C : List V} (h : Pres φ C) :
    invOfClosure (C.map φ) = invOfClosure C := by
  have hc := centreCount_map h
  unfold centreCount at hc
  have hrest : (C.map φ).filter (fun x => (C.map φ).any (fun y => omega x y)) =
      (C.filter (fun x => C.any (fun y => omega x y))).map φ := by
    rw [List.filter_map]
    congr 1
    apply List.filter_congr
    intro x hx
    simp only [Function.comp, List.any_map]
    rw [Bool.eq_iff_iff, List.any_eq_true, List.any_eq_true]
    constructor
    · rintro ⟨y, hy, ho⟩; exact ⟨y, hy, by simpa [Function.comp, h x hx y hy] using ho⟩
    · rintro ⟨y, hy, ho⟩; exact ⟨y, hy, by simpa [Function.comp, h x hx y hy] using ho⟩
  rw [invOfClosure_eq, invOfClosure_eq, hc, hrest, List.length_map]
  have hS : ∀ y ∈ C.filter (fun x => C.any (fun y => omega x y)), y ∈ C := fun y hy => mem_of_filter hy
  have hcm := comps_map h ((C.filter (fun x => C.any (fun y => omega x y))).length + 1)
    (C.filter (fun x => C.any (fun y => omega x y))) [] hS
  simp only [List.map_nil] at hcm
  rw [hcm, List.map_map]
  congr 2
  apply List.map_congr_left
  intro c hc'
  simp only [Function.comp]
  apply inv1_map
  rcases comps_mem _ _ _ c hc' with h' | h'
  · simp at h'
  · intro x hx y hy
    exact h x (hS x (h' x hx)) y (hS y (h' y hy))

end C03
end PauLie
