/-
Helpers for property C19 (two-local reference table), part 1: definitions used by
the statements, name arithmetic, and the per-(family, n) decisions the kernel can
evaluate (n = 3).
-/
import PauLieVerif.Model.TwoLocal
import PauLieVerif.Spec.Clo

namespace PauLie
namespace C19
open TwoLocal Classify Closure

/-- the row of the table for `(f, n)` names an algebra whose invariants are those
of the commutator closure of the translated generators (decidable; evaluated
through the verified enumerator `closureList`) -/
def rowOK (f : Fam) (n : Nat) : Bool :=
  match tlName f n with
  | some nm => invOfClosure (closureList (klocalBits f n)).1 == invOfName nm
  | none => false

/-- the algebra the modelled classifier reports for the translated generators -/
def classifierName (f : Fam) (n : Nat) : Option (List Summand) :=
  match klocal f n with
  | .ok gs =>
    match classify gs with
    | .ok ms => (match algebraOfMorphs ms with | .ok a => some a | .error _ => none)
    | .error _ => none
  | .error _ => none

/-- the classifier reports a name with the invariants of the table's name -/
def classifierOK (f : Fam) (n : Nat) : Prop :=
  ∃ a nm, classifierName f n = some a ∧ tlName f n = some nm ∧ invOfName a = invOfName nm

theorem lb3 : labelOfBlockFast 3 1 = 0 := by decide +kernel
theorem lb15 : labelOfBlockFast 15 7 = 0 := by decide +kernel

/-! ### dimensions of names -/

theorem dim_su (m k : Nat) : (su m k).dim = k * (m ^ 2 - 1) := rfl
theorem dim_so (m k : Nat) : (so m k).dim = k * (m * (m - 1) / 2) := rfl
theorem dim_sp (m k : Nat) : (sp m k).dim = k * (m * (2 * m + 1)) := rfl
theorem dim_u1 (k : Nat) : (u1 k).dim = k := by simp [u1, Summand.dim]

theorem dimOfName_nil : dimOfName [] = 0 := rfl

theorem foldl_add_init (l : List Nat) (a : Nat) : l.foldl (· + ·) a = a + l.foldl (· + ·) 0 := by
  induction l generalizing a with
  | nil => simp
  | cons x t ih => simp only [List.foldl_cons]; rw [ih (a + x), ih (0 + x)]; omega

theorem dimOfName_cons (s : Summand) (l : List Summand) :
    dimOfName (s :: l) = s.dim + dimOfName l := by
  simp only [dimOfName, List.map_cons, List.foldl_cons]
  rw [foldl_add_init]; omega

/-- the dimension of a name is the first component reported next to its invariants:
centre + Σ copies · simple dimension is *not* recomputed here; this is the plain sum -/
theorem dimOfName_append (l l' : List Summand) : dimOfName (l ++ l') = dimOfName l + dimOfName l' := by
  induction l with
  | nil => simp [dimOfName_nil]
  | cons s t ih => rw [List.cons_append, dimOfName_cons, dimOfName_cons, ih]; omega

/-! ### the low-rank coincidences, for every multiplicity and inside any sum -/

theorem inv_so2_u1 (pre post : List Summand) (k : Nat) :
    invOfName (pre ++ [so 2 k] ++ post) = invOfName (pre ++ [u1 k] ++ post) := by
  simp [invOfName, List.foldl_append, so, u1]

theorem inv_so3_su2 (pre post : List Summand) (k : Nat) :
    invOfName (pre ++ [so 3 k] ++ post) = invOfName (pre ++ [su 2 k] ++ post) := by
  simp [invOfName, List.foldl_append, so, su, simpleDim, dimSU, dimSO, labelOfName, lb3]

theorem inv_sp1_su2 (pre post : List Summand) (k : Nat) :
    invOfName (pre ++ [sp 1 k] ++ post) = invOfName (pre ++ [su 2 k] ++ post) := by
  simp [invOfName, List.foldl_append, sp, su, simpleDim, dimSU, dimSP, labelOfName, lb3]

theorem inv_so4_2su2 (pre post : List Summand) (k : Nat) :
    invOfName (pre ++ [so 4 k] ++ post) = invOfName (pre ++ [su 2 (2 * k)] ++ post) := by
  simp [invOfName, List.foldl_append, so, su, simpleDim, dimSU, labelOfName, lb3]

theorem inv_so5_sp2 (pre post : List Summand) (k : Nat) :
    invOfName (pre ++ [so 5 k] ++ post) = invOfName (pre ++ [sp 2 k] ++ post) := by
  simp [invOfName, List.foldl_append, sp, so, simpleDim, dimSO, dimSP, labelOfName]

theorem inv_so6_su4 (pre post : List Summand) (k : Nat) :
    invOfName (pre ++ [so 6 k] ++ post) = invOfName (pre ++ [su 4 k] ++ post) := by
  simp [invOfName, List.foldl_append, su, so, simpleDim, dimSO, dimSU, labelOfName, lb15]

/-! ### kernel-evaluated rows at n = 3 -/

/-- at n = 3 exactly the rows a11, a12, a17 disagree with the closure -/
theorem rows_n3 : Fam.all.filter (fun f => !rowOK f 3) = [.a11, .a12, .a17] := by decide +kernel

end C19
end PauLie
