/-
`get_isomorphism` and the matching loop of `is_algebra` on the texts of summands;
the round trip of `_parse_algebra`.
-/
import PauLieVerif.Proofs.C01NamesText

namespace PauLie
namespace C01Names
open Classify AlgebraNames

/-! ### `int()` and `str()` on printed multiplicities -/

theorem pyInt_natText {n : Nat} (h : n < 10 ^ Parser.maxStrDigits) :
    AlgebraNames.pyInt (natText n) = .ok (n : Int) := by
  unfold AlgebraNames.pyInt
  rw [natText_eq, C17.pyInt_natToDigits h]

theorem pyInt_natText_big {n : Nat} (h : 10 ^ Parser.maxStrDigits ≤ n) :
    AlgebraNames.pyInt (natText n) = .error .valueError := by
  unfold AlgebraNames.pyInt
  rw [natText_eq, C17.pyInt_natToDigits_big h]

theorem strInt_ofNat {n : Nat} (h : n < 10 ^ Parser.maxStrDigits) :
    strInt (n : Int) = .ok (natText n) := by
  unfold strInt
  have := C17.natToDigits_length h
  rw [if_neg (by simp only [Int.natAbs_natCast, natText_eq]; omega)]
  rfl

theorem strInt_ofNat_big {n : Nat} (h : 10 ^ Parser.maxStrDigits ≤ n) :
    strInt (n : Int) = .error .valueError := by
  unfold strInt
  rw [if_pos]
  simp only [Int.natAbs_natCast, natText]
  have := (Nat.length_toDigits_le_iff (b := 10) (n := n) (k := Parser.maxStrDigits) (by decide) (by decide))
  omega

/-! ### the dictionary on summand texts -/

def so2x2 : Summand := ⟨.SO, 2, 2⟩
def so3x1 : Summand := ⟨.SO, 3, 1⟩
def so4x1 : Summand := ⟨.SO, 4, 1⟩

theorem isomorphisms_eq :
    isomorphisms = [(summandText so2x2, summandText ⟨.SU, 2, 2⟩), (summandText so3x1, summandText ⟨.SU, 2, 1⟩),
                    (summandText so4x1, summandText ⟨.SU, 2, 2⟩)] := by decide

/-- dictionary lookup of a summand's text: exactly the three keys -/
theorem isoGet_summandText (s : Summand) :
    isoGet? (summandText s) =
      if s = so2x2 then some (summandText ⟨.SU, 2, 2⟩)
      else if s = so3x1 then some (summandText ⟨.SU, 2, 1⟩)
      else if s = so4x1 then some (summandText ⟨.SU, 2, 2⟩) else none := by
  have key : ∀ k : Summand, (summandText k == summandText s) = decide (s = k) := by
    intro k
    by_cases h : s = k
    · simp [h]
    · have : summandText k ≠ summandText s := fun e => h (summandText_inj e).symm
      simp [h, this]
  unfold isoGet?
  rw [isomorphisms_eq]
  simp only [List.find?_cons, key, List.find?_nil]
  by_cases h1 : s = so2x2
  · simp [h1]
  · by_cases h2 : s = so3x1
    · simp [h2]; decide
    · by_cases h3 : s = so4x1
      · simp [h3]; decide
      · simp [h1, h2, h3]

/-- a bare name is a summand text with multiplicity one -/
theorem nameText_eq_summandText (ty : TypeAlgebra) (m : Nat) : nameText ty m = summandText ⟨ty, m, 1⟩ := by
  simp [summandText]

theorem isoGet_nameText (ty : TypeAlgebra) (m : Nat) :
    isoGet? (nameText ty m) =
      if ty = .SO ∧ m = 3 then some (summandText ⟨.SU, 2, 1⟩)
      else if ty = .SO ∧ m = 4 then some (summandText ⟨.SU, 2, 2⟩) else none := by
  rw [nameText_eq_summandText, isoGet_summandText]
  simp only [so2x2, so3x1, so4x1, Summand.mk.injEq]
  by_cases h3 : ty = .SO ∧ m = 3
  · simp [h3]
  · by_cases h4 : ty = .SO ∧ m = 4
    · simp [h4]
    · have a : ¬ (ty = .SO ∧ m = 2 ∧ (1 : Nat) = 2) := by simp
      have b : ¬ (ty = .SO ∧ m = 3 ∧ (1 : Nat) = 1) := by simpa using h3
      have c : ¬ (ty = .SO ∧ m = 4 ∧ (1 : Nat) = 1) := by simpa using h4
      simp [h3, h4]

/-- What `get_isomorphism` answers on the text of a summand (other than the unsound key
`2*so(2)`): `k*so(3) ↦ k*su(2)`, `k*so(4) ↦ 2k*su(2)`, anything else `None`; ValueError when a
multiplicity has more than 4300 digits. -/
inductive IsoAnswer (s : Summand) : Except Err (Option Text) → Prop
  | so3 : s.ty = .SO → s.size = 3 → IsoAnswer s (.ok (some (summandText ⟨.SU, 2, s.mult⟩)))
  | so4 : s.ty = .SO → s.size = 4 → IsoAnswer s (.ok (some (summandText ⟨.SU, 2, 2 * s.mult⟩)))
  | none : IsoAnswer s (.ok none)
  | err : IsoAnswer s (.error .valueError)

theorem getIsomorphism_summandText (s : Summand) (h2 : s ≠ so2x2) :
    IsoAnswer s (getIsomorphism (summandText s)) := by
  unfold getIsomorphism
  rw [isoGet_summandText, if_neg h2]
  by_cases h3 : s = so3x1
  · rw [if_pos h3]; subst h3; exact .so3 rfl rfl
  · rw [if_neg h3]
    by_cases h4 : s = so4x1
    · rw [if_pos h4]; subst h4; exact .so4 rfl rfl
    · rw [if_neg h4]
      simp only []
      by_cases h1 : s.mult = 1
      · -- no `*`: None
        have : (summandText s).contains '*' = false := by
          rw [Bool.eq_false_iff, Ne, contains_iff, star_mem_summandText]; simp [h1]
        rw [this]; exact .none
      · have : (summandText s).contains '*' = true := by
          rw [contains_iff, star_mem_summandText]; exact h1
        rw [this, splitOn_star_summandText h1]
        simp only [if_true]
        by_cases hb : s.mult < 10 ^ Parser.maxStrDigits
        · rw [pyInt_natText hb, isoGet_nameText]
          simp only [bind, Except.bind, pure, Except.pure]
          by_cases c3 : s.ty = .SO ∧ s.size = 3
          · rw [if_pos c3]
            have e1 : (summandText ⟨.SU, 2, 1⟩).contains '*' = false := by decide
            simp only [e1]
            have e2 : ((s.mult : Int) == 1) = false := by
              rw [Bool.eq_false_iff]; simp; omega
            simp only [Int.one_mul, e2, Bool.false_eq_true, if_false]
            rw [strInt_ofNat hb]
            have : natText s.mult ++ '*' :: summandText ⟨.SU, 2, 1⟩ = summandText ⟨.SU, 2, s.mult⟩ := by
              simp [summandText, h1]
            simp only [this]
            exact .so3 c3.1 c3.2
          · rw [if_neg c3]
            by_cases c4 : s.ty = .SO ∧ s.size = 4
            · rw [if_pos c4]
              have e1 : (summandText ⟨.SU, 2, 2⟩).contains '*' = true := by decide
              have e3 : splitOn '*' (summandText ⟨.SU, 2, 2⟩) = [natText 2, nameText .SU 2] := by decide
              have e4 : AlgebraNames.pyInt (natText 2) = .ok 2 := by decide +kernel
              simp only [e1, e3, e4, if_true]
              have e2 : ((2 : Int) * (s.mult : Int) == 1) = false := by
                rw [Bool.eq_false_iff]; simp; omega
              simp only [e2, Bool.false_eq_true, if_false]
              have hc : ((2 : Int) * (s.mult : Int)) = ((2 * s.mult : Nat) : Int) := by simp
              rw [hc]
              by_cases hb2 : 2 * s.mult < 10 ^ Parser.maxStrDigits
              · rw [strInt_ofNat hb2]
                have : natText (2 * s.mult) ++ '*' :: nameText .SU 2 = summandText ⟨.SU, 2, 2 * s.mult⟩ := by
                  have : 2 * s.mult ≠ 1 := by omega
                  simp [summandText, this]
                simp only [this]
                exact .so4 c4.1 c4.2
              · rw [strInt_ofNat_big (by omega)]
                exact .err
            · rw [if_neg c4]; exact .none
        · rw [pyInt_natText_big (by omega)]
          exact .err

/-! ### the matching loop -/

/-- one position of the loop: equal texts, or the query item is the isomorphic spelling -/
def MatchRel (a : Text) (s : Summand) : Prop :=
  a = summandText s ∨ (s.ty = .SO ∧ s.size = 3 ∧ a = summandText ⟨.SU, 2, s.mult⟩)
    ∨ (s.ty = .SO ∧ s.size = 4 ∧ a = summandText ⟨.SU, 2, 2 * s.mult⟩)

/-- position-wise matching of query items and reported summands -/
inductive Matched : List Text → List Summand → Prop
  | nil : Matched [] []
  | cons {a s as rs} : MatchRel a s → Matched as rs → Matched (a :: as) (s :: rs)

theorem matchLoop_sound : ∀ (as : List Text) (rs : List Summand), as.length = rs.length →
    (∀ s ∈ rs, s ≠ so2x2) → matchLoop as (rs.map summandText) = .ok true → Matched as rs
  | [], [], _, _, _ => .nil
  | [], _ :: _, hl, _, _ => by simp at hl
  | _ :: _, [], hl, _, _ => by simp at hl
  | a :: as, s :: rs, hl, h2, h => by
    have ih := matchLoop_sound as rs (by simpa using hl) (fun x hx => h2 x (List.mem_cons_of_mem _ hx))
    simp only [List.map_cons, matchLoop] at h
    by_cases e : a = summandText s
    · rw [if_pos (by simp [e])] at h
      exact .cons (.inl e) (ih h)
    · rw [if_neg (by simpa using e)] at h
      have ans := getIsomorphism_summandText s (h2 s (by simp))
      generalize getIsomorphism (summandText s) = g at ans h
      cases ans with
      | so3 h1 h3 =>
        simp only [] at h
        split at h
        · rename_i hh
          exact .cons (.inr (.inl ⟨h1, h3, by simpa using hh⟩)) (ih h)
        · cases h
      | so4 h1 h3 =>
        simp only [] at h
        split at h
        · rename_i hh
          exact .cons (.inr (.inr ⟨h1, h3, by simpa using hh⟩)) (ih h)
        · cases h
      | none => simp at h
      | err => simp at h

end C01Names
end PauLie
