/-
Property C01 / C09: `Classification.get_algebra()` merges equal names (`mergeSummands`: the `dict` of
the source, then sorted by printed name).  Merging does not change the invariants of the name:
`invOfName (mergeSummands l) = invOfName l`.
-/
import PauLieVerif.Proofs.C01CompInv
import PauLieVerif.Properties.C09

namespace PauLie
namespace C01Comp
open Classify C01Names C09

theorem mergeSimples_single (a b c : Nat) : mergeSimples [(a, b, c)] = [(a, b, c)] := by
  simp [mergeSimples_eq, ins]

theorem mergeSimples_pair (a b c d : Nat) : mergeSimples [(a, b, c), (a, b, d)] = [(a, b, c + d)] := by
  simp [mergeSimples_eq, ins]

/-- a summand with the copies of two summands of the same name -/
theorem centre_simples_add (t s : Summand) (h1 : t.ty = s.ty) (h2 : t.size = s.size) :
    centreOf { t with mult := t.mult + s.mult } = centreOf t + centreOf s ∧
    mergeSimples (simplesOf { t with mult := t.mult + s.mult }) = mergeSimples (simplesOf t ++ simplesOf s) := by
  obtain ⟨ty, size, m1⟩ := t
  obtain ⟨ty', size', m2⟩ := s
  simp only at h1 h2
  subst h1; subst h2
  unfold centreOf simplesOf invStep
  split <;> simp_all [mergeSimples_pair, mergeSimples_single, Nat.mul_add]

theorem invOfName_cons_congr (t : Summand) {X Y : List Summand} (h : invOfName X = invOfName Y) :
    invOfName (t :: X) = invOfName (t :: Y) := by
  rw [invOfName_parts] at h ⊢
  rw [invOfName_parts] at h
  rw [invOfName_parts (t :: Y)]
  injection h with a b
  simp only [List.map_cons, List.sum_cons, List.flatMap_cons, a]
  rw [mergeSimples_append_congr rfl b]

theorem invOfName_merge_head (t s : Summand) (X : List Summand) (h1 : t.ty = s.ty) (h2 : t.size = s.size) :
    invOfName ({ t with mult := t.mult + s.mult } :: X) = invOfName (t :: s :: X) := by
  obtain ⟨c, m⟩ := centre_simples_add t s h1 h2
  rw [invOfName_parts, invOfName_parts (t :: s :: X)]
  simp only [List.map_cons, List.sum_cons, List.flatMap_cons, c, Nat.add_assoc]
  rw [mergeSimples_append_congr m rfl, List.append_assoc]

theorem bump_inv (s : Summand) : ∀ (acc : List Summand) (l : List Summand), NodupNames acc →
    acc.any (fun t => sameName t s) = true →
    invOfName (acc.map (fun t => if sameName t s then { t with mult := t.mult + s.mult } else t) ++ l)
      = invOfName (acc ++ s :: l)
  | [], _, _, h => by simp at h
  | t :: rest, l, hnd, h => by
    obtain ⟨hd, hr⟩ := hnd
    by_cases hts : sameName t s = true
    · have htail : ∀ u ∈ rest, sameName u s = false := by
        intro u hu
        have h1 := hd u hu
        simp only [sameName, Bool.and_eq_true, beq_iff_eq, Bool.and_eq_false_iff] at hts h1 ⊢
        rcases h1 with h1 | h1
        · left; rw [← hts.1]; exact h1
        · right; rw [← hts.2]; exact h1
      have hmap : rest.map (fun t => if sameName t s then { t with mult := t.mult + s.mult } else t) = rest := by
        rw [List.map_congr_left (g := id) (fun u hu => by simp [htail u hu]), List.map_id]
      simp only [List.map_cons, hts, if_true, hmap, List.cons_append]
      simp only [sameName, Bool.and_eq_true, beq_iff_eq] at hts
      rw [invOfName_merge_head t s (rest ++ l) hts.1 hts.2]
      apply invOfName_cons_congr
      apply invOfName_perm
      exact (List.perm_middle (a := s) (l₁ := rest) (l₂ := l)).symm
    · have hts' : sameName t s = false := by simpa using hts
      have hany : rest.any (fun t => sameName t s) = true := by
        simpa [List.any_cons, hts'] using h
      simp only [List.map_cons, hts', Bool.false_eq_true, if_false, List.cons_append]
      exact invOfName_cons_congr t (bump_inv s rest l hr hany)

theorem fold_inv : ∀ (l acc : List Summand), NodupNames acc →
    invOfName (l.foldl (fun (acc : List Summand) s =>
      if acc.any (fun t => t.ty == s.ty && t.size == s.size) then
        acc.map (fun t => if t.ty == s.ty && t.size == s.size then { t with mult := t.mult + s.mult } else t)
      else acc ++ [s]) acc) = invOfName (acc ++ l)
  | [], acc, _ => by simp
  | s :: l, acc, hnd => by
    simp only [List.foldl_cons]
    by_cases h : acc.any (fun t => t.ty == s.ty && t.size == s.size) = true
    · obtain ⟨_, h2⟩ := bump_spec s acc hnd h
      rw [if_pos h]
      refine (fold_inv l _ h2).trans ?_
      exact bump_inv s acc l hnd h
    · rw [if_neg h]
      have h' : acc.any (fun t => sameName t s) = false := by simpa [sameName] using h
      refine (fold_inv l _ (nodup_append_new acc s hnd h')).trans ?_
      rw [List.append_assoc]; rfl

/-- **merging equal names keeps the invariants** -/
theorem invOfName_mergeSummands (l : List Summand) : invOfName (mergeSummands l) = invOfName l := by
  unfold mergeSummands
  simp only
  rw [invOfName_perm (List.mergeSort_perm _ _), fold_inv l [] trivial]
  rfl

example : invOfName (mergeSummands [⟨.SO, 3, 1⟩, ⟨.U, 1, 1⟩, ⟨.SO, 3, 1⟩]) = invOfName [⟨.SU, 2, 2⟩, ⟨.U, 1, 1⟩] := by
  rw [invOfName_mergeSummands]; decide +kernel

end C01Comp
end PauLie
