/-
`left_map_over_a` (model: `Compiler.leftMapOverA`, a breadth-first search on fuel with a two-list
queue and a bit table) is SOUND and COMPLETE, for all inputs:
* `leftMapOverA_sound`   — a returned sequence is a walk in the generator graph from the start to a
  string that reads as the goal;
* `leftMapOverA_complete` — `RuntimeError("Left map BFS failed.")` is raised only if no such walk exists.
That the fuel `2^bits + 1` is never exhausted is proved in `Proofs/CompilerFuel.lean`.
-/
import PauLieVerif.Proofs.CompilerSearchLemmas
import PauLieVerif.Properties.C05

namespace PauLie
namespace CompilerSearch
open Compiler C07

/-- one move of the left generator graph: `a ∈ A` anticommutes with `p`, `q = a·p` -/
def Step (A : List PS) (p a q : PS) : Prop :=
  a ∈ A ∧ PS.commutesWith a p = .ok false ∧ PS.multiply a p = .ok q

/-- `Walk A p l r`: applying the generators `l` in order, each anticommuting with the current
string, leads from `p` to `r` -/
inductive Walk (A : List PS) : PS → List PS → PS → Prop
  | nil (p : PS) : Walk A p [] p
  | cons {p a q : PS} {l : List PS} {r : PS} : Step A p a q → Walk A q l r → Walk A p (a :: l) r

theorem Walk.snoc {A : List PS} {p q r a : PS} {l : List PS} (h : Walk A p l q) (hs : Step A q a r) :
    Walk A p (l ++ [a]) r := by
  induction h with
  | nil p => exact .cons hs (.nil _)
  | cons hst _ ih => exact .cons hst (ih hs)

theorem Walk.mem {A : List PS} {p r : PS} {l : List PS} (h : Walk A p l r) : ∀ x ∈ l, x ∈ A := by
  induction h with
  | nil p => intro x hx; cases hx
  | cons hst _ ih =>
    intro x hx
    rcases List.mem_cons.mp hx with rfl | hx
    · exact hst.1
    · exact ih x hx

theorem qPop_spec {α} {f b f' b' : List α} {x : α} (h : qPop f b = some (x, f', b')) :
    (x ∈ f ∨ x ∈ b) ∧ (∀ y ∈ f', y ∈ f ∨ y ∈ b) ∧ (∀ y ∈ b', y ∈ b) := by
  unfold qPop at h
  split at h
  · simp at h
    obtain ⟨rfl, rfl, rfl⟩ := h
    exact ⟨Or.inl (List.mem_cons_self ..), fun y hy => Or.inl (List.mem_cons_of_mem _ hy), fun y hy => hy⟩
  · split at h
    · cases h
    · rename_i x' f'' hrev
      simp at h
      obtain ⟨rfl, rfl, rfl⟩ := h
      have hm : ∀ y, y ∈ x' :: f'' → y ∈ b := by
        intro y hy
        rw [← hrev] at hy
        exact List.mem_reverse.mp hy
      exact ⟨Or.inr (hm _ (List.mem_cons_self ..)), fun y hy => Or.inr (hm _ (List.mem_cons_of_mem _ hy)),
        fun y hy => by cases hy⟩

/-- a queue entry is sound: its recorded path (newest first) is a walk from the start to its string -/
def EntryOK (A : List PS) (f : PS) (e : PS × List PS) : Prop := Walk A f e.2.reverse e.1

theorem lmExpand_sound (A : List PS) (f cur : PS) (path : List PS) (hc : EntryOK A f (cur, path)) :
    ∀ (rest : List PS), (∀ a ∈ rest, a ∈ A) → ∀ (back : List (PS × List PS)) (seen : Array Bool)
      (back' : List (PS × List PS)) (seen' : Array Bool),
      (∀ e ∈ back, EntryOK A f e) → lmExpand cur path rest back seen = .ok (back', seen') →
      ∀ e ∈ back', EntryOK A f e := by
  intro rest
  induction rest with
  | nil =>
    intro _ back seen back' seen' hb h
    simp [lmExpand, pure, Except.pure] at h
    obtain ⟨rfl, _⟩ := h
    exact hb
  | cons a rest ih =>
    intro hA back seen back' seen' hb h
    have hrest : ∀ x ∈ rest, x ∈ A := fun x hx => hA x (List.mem_cons_of_mem _ hx)
    unfold lmExpand at h
    unfold cCommutes cMultiply at h
    cases hcm : PS.commutesWith a cur with
    | error e => simp [hcm, liftAt, bind, Except.bind] at h
    | ok bcm =>
      cases bcm with
      | true =>
        simp [hcm, liftAt, bind, Except.bind] at h
        exact ih hrest _ _ _ _ hb h
      | false =>
        cases hmu : PS.multiply a cur with
        | error e => simp [hcm, hmu, liftAt, bind, Except.bind] at h
        | ok nxt =>
          simp only [hcm, hmu, liftAt, bind, Except.bind, Bool.false_eq_true, if_false] at h
          split at h
          · exact ih hrest _ _ _ _ hb h
          · refine ih hrest _ _ _ _ ?_ h
            intro e he
            rcases List.mem_cons.mp he with rfl | he
            · show Walk A f (a :: path).reverse nxt
              rw [List.reverse_cons]
              exact Walk.snoc hc ⟨hA a (List.mem_cons_self ..), hcm, hmu⟩
            · exact hb e he

theorem lmLoop_sound (A : List PS) (f : PS) (goal : List Letter) :
    ∀ (fuel : Nat) (front back : List (PS × List PS)) (seen : Array Bool) (res : List PS),
      (∀ e ∈ front, EntryOK A f e) → (∀ e ∈ back, EntryOK A f e) →
      lmLoop goal A fuel front back seen = .ok res → ∃ r, Walk A f res r ∧ key r = goal := by
  intro fuel
  induction fuel with
  | zero => intro front back seen res _ _ h; simp [lmLoop, throw, throwThe, MonadExceptOf.throw] at h
  | succ fuel ih =>
    intro front back seen res hf hb h
    unfold lmLoop at h
    split at h
    · simp [throw, throwThe, MonadExceptOf.throw] at h
    · rename_i cur path front' back' hpop
      obtain ⟨hx, hf', hb'⟩ := qPop_spec hpop
      have hcur : EntryOK A f (cur, path) := by
        rcases hx with hx | hx
        · exact hf _ hx
        · exact hb _ hx
      have hfront' : ∀ e ∈ front', EntryOK A f e := by
        intro e he
        rcases hf' e he with h1 | h1
        · exact hf _ h1
        · exact hb _ h1
      have hback' : ∀ e ∈ back', EntryOK A f e := fun e he => hb _ (hb' e he)
      split at h
      · rename_i hk
        simp [pure, Except.pure] at h
        subst h
        exact ⟨cur, hcur, by simpa using hk⟩
      · simp only [bind, Except.bind] at h
        split at h
        · cases h
        · rename_i r hr
          obtain ⟨b2, s2⟩ := r
          exact ih _ _ _ _ hfront' (lmExpand_sound A f cur path hcur A (fun a ha => ha) _ _ _ _ hback' hr) h

/-- **soundness of `left_map_over_a`** (all inputs): a returned sequence is a walk in the generator
graph — every element is one of the given generators, it anticommutes with the string reached so
far, and the walk ends at a string that reads as the goal -/
theorem leftMapOverA_sound (f t : PS) (A : List PS) (path : List PS) (h : leftMapOverA f t A = .ok path) :
    ∃ r, Walk A f path r ∧ key r = key t := by
  unfold leftMapOverA at h
  split at h
  · rename_i hk
    simp [pure, Except.pure] at h
    subst h
    exact ⟨f, .nil _, by simpa using hk⟩
  · refine lmLoop_sound A f (key t) _ _ _ _ _ ?_ ?_ h
    · intro e he
      simp at he
      subst he
      exact .nil _
    · intro e he; cases he

theorem getD_setIfInBounds (a : Array Bool) (i j : Nat) :
    (a.setIfInBounds i true).getD j false = true ↔ (j = i ∧ i < a.size) ∨ a.getD j false = true := by
  simp only [Array.getD_eq_getD_getElem?, Array.getElem?_setIfInBounds]
  by_cases h : i = j
  · subst h
    by_cases hs : i < a.size
    · simp [hs]
    · simp [hs]
  · simp [h]
    intro h1
    exact absurd h1.symm h

theorem foldl_bits (b : List Bool) (acc : Nat) :
    b.foldl (fun acc x => 2 * acc + (if x then 1 else 0)) acc = acc * 2 ^ b.length + PS.bitsToNat b := by
  induction b generalizing acc with
  | nil => simp [PS.bitsToNat]
  | cons x t ih =>
    unfold PS.bitsToNat
    simp only [List.foldl_cons, List.length_cons]
    rw [ih, ih (2 * 0 + _)]
    unfold PS.bitsToNat
    rw [Nat.pow_succ]
    ring

theorem bitsToNat_cons (x : Bool) (t : List Bool) :
    PS.bitsToNat (x :: t) = (if x then 1 else 0) * 2 ^ t.length + PS.bitsToNat t := by
  conv_lhs => unfold PS.bitsToNat
  simp only [List.foldl_cons]
  rw [foldl_bits]
  simp

theorem bitsToNat_lt (b : List Bool) : PS.bitsToNat b < 2 ^ b.length := by
  induction b with
  | nil => simp [PS.bitsToNat]
  | cons x t ih =>
    rw [bitsToNat_cons, List.length_cons, Nat.pow_succ]
    cases x <;> simp <;> omega

theorem bitsToNat_inj : ∀ (a b : List Bool), a.length = b.length → PS.bitsToNat a = PS.bitsToNat b → a = b
  | [], [], _, _ => rfl
  | [], _ :: _, h, _ => by simp at h
  | _ :: _, [], h, _ => by simp at h
  | x :: s, y :: t, hl, h => by
    have hl' : s.length = t.length := by simpa using hl
    rw [bitsToNat_cons, bitsToNat_cons, hl'] at h
    have h1 := bitsToNat_lt s
    have h2 := bitsToNat_lt t
    rw [hl'] at h1
    have hxy : x = y ∧ PS.bitsToNat s = PS.bitsToNat t := by
      cases x <;> cases y <;> simp at h ⊢ <;> omega
    rw [hxy.1, bitsToNat_inj s t hl' hxy.2]


/-- `p` is marked in the bit table -/
def Seen (seen : Array Bool) (p : PS) : Prop := seen.getD (slot p) false = true

/-- the strings of one search: `L` bits, views derived from the bits -/
def Dom (L : Nat) (p : PS) : Prop := p.bits.length = L ∧ p = PS.ofBits p.bits

theorem Dom.eq_of_slot {L : Nat} {p q : PS} (hp : Dom L p) (hq : Dom L q) (h : slot p = slot q) : p = q := by
  have hb : p.bits = q.bits := bitsToNat_inj _ _ (hp.1.trans hq.1.symm) h
  rw [hp.2, hq.2, hb]

theorem Dom.slot_lt {L : Nat} {p : PS} (hp : Dom L p) : slot p < 2 ^ L := by
  have := bitsToNat_lt p.bits
  rw [hp.1] at this
  exact this

theorem multiply_dom {L : Nat} {a p q : PS} (hp : p.bits.length = L) (h : PS.multiply a p = .ok q) : Dom L q := by
  unfold PS.multiply PS.xorBits at h
  by_cases hl : a.bits.length ≠ p.bits.length
  · simp [hl, throw, throwThe, MonadExceptOf.throw, bind, Except.bind] at h
  · simp only [hl, if_false, bind, Except.bind, pure, Except.pure] at h
    cases h
    refine ⟨?_, rfl⟩
    simp only [PS.ofBits, List.length_zipWith]
    omega

/-- what one run of the `for a in A` loop does to the queue and to the table -/
theorem lmExpand_spec (L : Nat) (cur : PS) (path : List PS) (hcur : cur.bits.length = L) :
    ∀ (rest : List PS) (back : List (PS × List PS)) (seen : Array Bool) (back' : List (PS × List PS)) (seen' : Array Bool),
      seen.size = 2 ^ L → lmExpand cur path rest back seen = .ok (back', seen') →
      seen'.size = 2 ^ L ∧
      (∀ p, Seen seen p → Seen seen' p) ∧
      (∀ e ∈ back, e ∈ back') ∧
      (∀ e ∈ back', e ∈ back ∨ (Dom L e.1 ∧ Seen seen' e.1)) ∧
      (∀ a ∈ rest, ∀ q, PS.commutesWith a cur = .ok false → PS.multiply a cur = .ok q → Seen seen' q) ∧
      (∀ p, Dom L p → Seen seen' p → Seen seen p ∨ ∃ e ∈ back', e.1 = p) := by
  intro rest
  induction rest with
  | nil =>
    intro back seen back' seen' hs h
    simp [lmExpand, pure, Except.pure] at h
    obtain ⟨rfl, rfl⟩ := h
    exact ⟨hs, fun p hp => hp, fun e he => he, fun e he => Or.inl he, fun a ha => absurd ha (List.not_mem_nil), fun p _ hp => Or.inl hp⟩
  | cons a rest ih =>
    intro back seen back' seen' hs h
    unfold lmExpand at h
    unfold cCommutes cMultiply at h
    cases hcm : PS.commutesWith a cur with
    | error e => simp [hcm, liftAt, bind, Except.bind] at h
    | ok bcm =>
      cases bcm with
      | true =>
        simp [hcm, liftAt, bind, Except.bind] at h
        obtain ⟨i1, i2, i3, i4, i5, i6⟩ := ih _ _ _ _ hs h
        refine ⟨i1, i2, i3, i4, ?_, i6⟩
        intro a' ha' q hq1 hq2
        rcases List.mem_cons.mp ha' with rfl | ha'
        · rw [hcm] at hq1; cases hq1
        · exact i5 a' ha' q hq1 hq2
      | false =>
        cases hmu : PS.multiply a cur with
        | error e => simp [hcm, hmu, liftAt, bind, Except.bind] at h
        | ok nxt =>
          have hnd : Dom L nxt := multiply_dom hcur hmu
          simp only [hcm, hmu, liftAt, bind, Except.bind, Bool.false_eq_true, if_false] at h
          split at h
          · rename_i hseen
            obtain ⟨i1, i2, i3, i4, i5, i6⟩ := ih _ _ _ _ hs h
            refine ⟨i1, i2, i3, i4, ?_, i6⟩
            intro a' ha' q hq1 hq2
            rcases List.mem_cons.mp ha' with rfl | ha'
            · rw [hmu] at hq2; cases hq2; exact i2 _ hseen
            · exact i5 a' ha' q hq1 hq2
          · rename_i hunseen
            have hs2 : (seen.setIfInBounds (slot nxt) true).size = 2 ^ L := by
              rw [Array.size_setIfInBounds]; exact hs
            obtain ⟨i1, i2, i3, i4, i5, i6⟩ := ih _ _ _ _ hs2 h
            have hnew : Seen (seen.setIfInBounds (slot nxt) true) nxt := by
              unfold Seen
              rw [getD_setIfInBounds]
              exact Or.inl ⟨rfl, by rw [hs]; exact hnd.slot_lt⟩
            refine ⟨i1, ?_, ?_, ?_, ?_, ?_⟩
            · intro p hp
              apply i2
              unfold Seen
              rw [getD_setIfInBounds]
              exact Or.inr hp
            · intro e he
              exact i3 e (List.mem_cons_of_mem _ he)
            · intro e he
              rcases i4 e he with h1 | h1
              · rcases List.mem_cons.mp h1 with rfl | h1
                · exact Or.inr ⟨hnd, i2 _ hnew⟩
                · exact Or.inl h1
              · exact Or.inr h1
            · intro a' ha' q hq1 hq2
              rcases List.mem_cons.mp ha' with rfl | ha'
              · rw [hmu] at hq2; cases hq2; exact i2 _ hnew
              · exact i5 a' ha' q hq1 hq2
            · intro p hp hsp
              rcases i6 p hp hsp with h1 | h1
              · unfold Seen at h1
                rw [getD_setIfInBounds] at h1
                rcases h1 with ⟨hsl, _⟩ | h1
                · have : p = nxt := hp.eq_of_slot hnd hsl
                  subst this
                  exact Or.inr ⟨_, i3 _ (List.mem_cons_self ..), rfl⟩
                · exact Or.inl h1
              · exact Or.inr h1

theorem qPop_none {α} {f b : List α} (h : qPop f b = none) : f = [] ∧ b = [] := by
  unfold qPop at h
  split at h
  · cases h
  · split at h
    · rename_i hrev
      exact ⟨rfl, by simpa using hrev⟩
    · cases h

theorem qPop_iff {α} {f b f' b' : List α} {x : α} (h : qPop f b = some (x, f', b')) :
    ∀ e, e ∈ f ++ b ↔ e = x ∨ e ∈ f' ++ b' := by
  unfold qPop at h
  split at h
  · simp at h
    obtain ⟨rfl, rfl, rfl⟩ := h
    intro e
    simp
  · split at h
    · cases h
    · rename_i x' f'' hrev
      simp at h
      obtain ⟨rfl, rfl, rfl⟩ := h
      intro e
      have : e ∈ b ↔ e ∈ x' :: f'' := by rw [← hrev]; exact List.mem_reverse.symm
      simp [this]

theorem lmExpand_error (cur : PS) (path : List PS) :
    ∀ (rest : List PS) (back : List (PS × List PS)) (seen : Array Bool) (e : Fail),
      lmExpand cur path rest back seen = .error e → e.site = .commutes ∨ e.site = .multiply := by
  intro rest
  induction rest with
  | nil => intro back seen e h; simp [lmExpand, pure, Except.pure] at h
  | cons a rest ih =>
    intro back seen e h
    unfold lmExpand at h
    unfold cCommutes cMultiply at h
    cases hcm : PS.commutesWith a cur with
    | error e' =>
      simp [hcm, liftAt, bind, Except.bind] at h
      subst h; exact Or.inl rfl
    | ok bcm =>
      cases bcm with
      | true =>
        simp [hcm, liftAt, bind, Except.bind] at h
        exact ih _ _ _ h
      | false =>
        cases hmu : PS.multiply a cur with
        | error e' =>
          simp [hcm, hmu, liftAt, bind, Except.bind] at h
          subst h; exact Or.inr rfl
        | ok nxt =>
          simp only [hcm, hmu, liftAt, bind, Except.bind, Bool.false_eq_true, if_false] at h
          split at h
          · exact ih _ _ _ h
          · exact ih _ _ _ h

/-- the string is fully expanded: it does not read as the goal and every move from it leads to a marked string -/
def Closed (A : List PS) (goal : List Letter) (seen : Array Bool) (p : PS) : Prop :=
  key p ≠ goal ∧ ∀ a ∈ A, ∀ q, PS.commutesWith a p = .ok false → PS.multiply a p = .ok q → Seen seen q

theorem lmLoop_complete (A : List PS) (goal : List Letter) (L : Nat) :
    ∀ (fuel : Nat) (front back : List (PS × List PS)) (seen : Array Bool),
      seen.size = 2 ^ L →
      (∀ e ∈ front ++ back, Dom L e.1 ∧ Seen seen e.1) →
      (∀ p, Dom L p → Seen seen p → (∃ e ∈ front ++ back, e.1 = p) ∨ Closed A goal seen p) →
      lmLoop goal A fuel front back seen = .error ⟨.runtimeError, .leftMapOverA⟩ →
      ∀ p, Dom L p → Seen seen p → ∀ l r, Walk A p l r → key r ≠ goal := by
  intro fuel
  induction fuel with
  | zero =>
    intro front back seen _ _ _ h
    simp [lmLoop, throw, throwThe, MonadExceptOf.throw] at h
  | succ fuel ih =>
    intro front back seen hs h1 h2 h
    unfold lmLoop at h
    split at h
    · rename_i hpop
      obtain ⟨rfl, rfl⟩ := qPop_none hpop
      -- the queue is empty: every marked string is closed
      have hcl : ∀ p, Dom L p → Seen seen p → Closed A goal seen p := by
        intro p hp hsp
        rcases h2 p hp hsp with ⟨e, he, _⟩ | hc
        · cases he
        · exact hc
      intro p hp hsp l r hw
      induction hw with
      | nil p => exact (hcl p hp hsp).1
      | cons hst _ ihw =>
        obtain ⟨ha, hc, hm⟩ := hst
        exact ihw (multiply_dom hp.1 hm) ((hcl _ hp hsp).2 _ ha _ hc hm)
    · rename_i cur path front' back' hpop
      have hq := qPop_iff hpop
      have hcurq : Dom L cur ∧ Seen seen cur := h1 (cur, path) ((hq _).mpr (Or.inl rfl))
      split at h
      · simp [pure, Except.pure] at h
      · rename_i hk
        have hkne : key cur ≠ goal := by simpa using hk
        simp only [bind, Except.bind] at h
        split at h
        · rename_i e he
          cases h
          rcases lmExpand_error _ _ _ _ _ _ he with h' | h' <;> cases h'
        · rename_i res hres
          obtain ⟨back'', seen'⟩ := res
          obtain ⟨e0, e1, e2, e3, e4, e5⟩ := lmExpand_spec L cur path hcurq.1.1 A back' seen back'' seen' hs hres
          have hconc := ih front' back'' seen' e0 ?_ ?_ h
          · intro p hp hsp
            exact hconc p hp (e1 p hsp)
          · -- every queued string is in the domain and marked
            intro e he
            rcases List.mem_append.mp he with he | he
            · obtain ⟨d, s⟩ := h1 e ((hq e).mpr (Or.inr (List.mem_append_left _ he)))
              exact ⟨d, e1 _ s⟩
            · rcases e3 e he with he | he
              · obtain ⟨d, s⟩ := h1 e ((hq e).mpr (Or.inr (List.mem_append_right _ he)))
                exact ⟨d, e1 _ s⟩
              · exact he
          · -- every marked string is queued or closed
            intro p hp hsp
            rcases e5 p hp hsp with hold | ⟨e, he, rfl⟩
            · rcases h2 p hp hold with ⟨e, he, rfl⟩ | hc
              · rcases (hq e).mp he with rfl | he
                · exact Or.inr ⟨hkne, fun a ha q hc hm => e4 a ha q hc hm⟩
                · rcases List.mem_append.mp he with he | he
                  · exact Or.inl ⟨e, List.mem_append_left _ he, rfl⟩
                  · exact Or.inl ⟨e, List.mem_append_right _ (e2 e he), rfl⟩
              · exact Or.inr ⟨hc.1, fun a ha q h3 h4 => e1 _ (hc.2 a ha q h3 h4)⟩
            · exact Or.inl ⟨e, List.mem_append_right _ he, rfl⟩

/-- **completeness of `left_map_over_a`** (all inputs whose start string has its views derived from its
bits): `RuntimeError("Left map BFS failed.")` is raised only if NO walk over the given generators leads
from the start to a string that reads as the goal -/
theorem leftMapOverA_complete (f t : PS) (A : List PS) (hf : f = PS.ofBits f.bits)
    (h : leftMapOverA f t A = .error ⟨.runtimeError, .leftMapOverA⟩) :
    ∀ l r, Walk A f l r → key r ≠ key t := by
  unfold leftMapOverA at h
  split at h
  · simp [pure, Except.pure] at h
  · have hfd : Dom f.bits.length f := ⟨rfl, hf⟩
    have hseen : Seen ((Array.replicate (2 ^ f.bits.length) false).setIfInBounds (slot f) true) f := by
      unfold Seen
      rw [getD_setIfInBounds]
      exact Or.inl ⟨rfl, by simpa using hfd.slot_lt⟩
    refine lmLoop_complete A (key t) f.bits.length _ _ _ _ (by simp) ?_ ?_ h f hfd hseen
    · intro e he
      simp at he
      subst he
      exact ⟨hfd, hseen⟩
    · intro p hp hsp
      unfold Seen at hsp
      rw [getD_setIfInBounds] at hsp
      rcases hsp with ⟨hsl, _⟩ | hsp
      · exact Or.inl ⟨(f, []), by simp, (hp.eq_of_slot hfd hsl).symm⟩
      · exfalso
        rw [Array.getD_eq_getD_getElem?, Array.getElem?_replicate] at hsp
        split at hsp <;> simp at hsp

end CompilerSearch
end PauLie
