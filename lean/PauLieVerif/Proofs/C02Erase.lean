/-
Property C02: erasing the ghost part of the guarded model `Model/MorphG.lean` gives the plain model
`Model/Morph.lean` — step by step (`simE_*`), for the pipeline and for `build` (`buildG_erase`).
Hence the guarded run is a run of the model that is tied to the implementation, plus certificates.
-/
import PauLieVerif.Proofs.C02Logic

namespace PauLie
namespace C02
open Morph MorphG C11L

theorem simE_litG (l v : PS) : SimE (litG l v) (lit l v) := simE_withGhost _ _
theorem simE_appendG (v lt : PS) : SimE (appendG v lt) (append v lt) := simE_withGhost _ _
theorem simE_removeG (v : PS) : SimE (removeG v) (remove v) := simE_withGhost _ _
theorem simE_replaceG (v w : PS) : SimE (replaceG v w) (replace v w) := simE_withGhost _ _
theorem simE_appendDelayedG (v : PS) : SimE (appendDelayedG v) (appendDelayed v) := simE_withGhost _ _
theorem simE_checkDepG (x : PS) : SimE (checkDepG x) (checkDependencyOneLeg x) := simE_withGhost _ _
theorem simE_initLegsG (l : PS) : SimE (initLegsG l) (setLegs [[l]]) := simE_withGhost _ _

theorem simE_dependIncluded_left {α} (l : PS) {x : GM α} {y : MFM α} (h : SimE x y) :
    SimE (dependIncludedG l >>= fun _ => x) y := by
  unfold dependIncludedG; refine simE_ghost_left _ ?_ h; intro _; rfl
theorem simE_uncertified_left {α} {x : GM α} {y : MFM α} (h : SimE x y) :
    SimE (uncertifiedG >>= fun _ => x) y := by
  unfold uncertifiedG; refine simE_ghost_left _ ?_ h; intro _; rfl
theorem simE_start_left {α} (l : PS) {x : GM α} {y : MFM α} (h : SimE x y) :
    SimE (startG l >>= fun _ => x) y := by
  unfold startG; refine simE_ghost_left _ ?_ h; intro _; rfl

macro "simE1" : tactic => `(tactic| first
  | with_reducible exact simE_pure _
  | with_reducible exact simE_throw _
  | with_reducible exact simE_monadLift _
  | with_reducible exact simE_litG _ _
  | with_reducible exact simE_appendG _ _
  | with_reducible exact simE_removeG _
  | with_reducible exact simE_replaceG _ _
  | with_reducible exact simE_appendDelayedG _
  | with_reducible exact simE_checkDepG _
  | with_reducible exact simE_initLegsG _
  | with_reducible apply simE_dependIncluded_left
  | with_reducible apply simE_uncertified_left
  | with_reducible apply simE_start_left
  | with_reducible apply simE_ite
  | with_reducible apply simE_forIn
  | with_reducible apply simE_foldlM
  | with_reducible apply simE_bind
  | with_reducible intro _
  | (split <;> (try injections) <;> (try subst_vars)))

theorem simE_appendToCenter (l : PS) : SimE (appendToCenterG l) (appendToCenter l) := by
  unfold appendToCenterG appendToCenter
  repeat' simE1

theorem simE_twoCenter (l : PS) : SimE (appendToTwoCenterG l) (appendToTwoCenter l) := by
  unfold appendToTwoCenterG appendToTwoCenter
  repeat' simE1

theorem simE_truncate : SimE truncateLongLegG truncateLongLeg := by
  unfold truncateLongLegG truncateLongLeg
  repeat' simE1

theorem simE_stepI : SimE appendThreeGraphG appendThreeGraph := by
  unfold appendThreeGraphG appendThreeGraph
  repeat' (first | with_reducible exact simE_twoCenter _ | simE1)

theorem simE_litSeq (l : PS) (vs : List PS) : SimE (litSeqG l vs) (litSeq l vs) := by
  unfold litSeqG litSeq
  exact simE_foldlM (fun a b => simE_litG a b) vs l

macro "simE_steps" : tactic => `(tactic| repeat' (first
  | with_reducible exact simE_litSeq _ _
  | with_reducible exact simE_twoCenter _
  | with_reducible exact simE_appendToCenter _
  | with_reducible exact simE_truncate
  | simE1))

theorem simE_stepII : SimE appendOneLegsInDifferentStateG appendOneLegsInDifferentState := by
  unfold appendOneLegsInDifferentStateG appendOneLegsInDifferentState
  simE_steps

theorem simE_fast : SimE appendFastG appendFast := by
  unfold appendFastG appendFast
  simE_steps

theorem simE_litCenter : SimE litCenterG litCenter := by
  unfold litCenterG litCenter
  simE_steps

macro "sl" : tactic => `(tactic| (apply simE_bind (simE_monadLift _); intro _))

/-- Step III; the join points of the two `do` blocks are extracted and proved once -/
theorem simE_stepIII : SimE litOnlyLongLegG litOnlyLongLeg := by
  unfold litOnlyLongLegG litOnlyLongLeg
  sl; sl; sl; sl; sl
  extract_lets jR jR' j j'
  have hj : ∀ r l, SimE (jR r l) (j r l) := by
    intro r l
    simp -zeta only [jR, j]
    sl; sl
    extract_lets kR k
    have hk : ∀ r t, SimE (kR r t) (k r t) := by
      intro r t
      simp -zeta only [kR, k]
      apply simE_ite
      · sl; exact simE_pure _
      · sl
        extract_lets p4R p3R p4 p3
        have h4 : ∀ r l, SimE (p4R r l) (p4 r l) := by
          intro r l
          simp -zeta only [p4R, p4]
          simE_steps
        have h3 : ∀ r l, SimE (p3R r l) (p3 r l) := by
          intro r l
          simp -zeta only [p3R, p3]
          sl
          extract_lets li q5R q5
          have h5 : ∀ r, SimE (q5R r) (q5 r) := by
            intro r
            simp -zeta only [q5R, q5]
            repeat' (first | exact h4 () _ | simE1)
          clear_value q5R q5
          repeat' (first | exact h4 () _ | exact h5 _ | simE1)
        clear_value p4R p3R p4 p3
        repeat' (first | exact h3 () _ | with_reducible exact simE_litSeq _ _ | simE1)
    clear_value kR k
    repeat' (first | exact hk () _ | simE1)
  have hj' : ∀ r l, SimE (jR' r l) (j' r l) := by
    intro r l
    simp only [jR', j']
    apply simE_bind (simE_litG _ _); intro _
    exact hj () _
  clear_value jR jR' j j'
  repeat' (first | exact hj () _ | exact hj' () _ | simE1)

theorem simE_reduceRound (ll : List PS) (n : Nat) (l : PS) : SimE (reduceRoundG ll n l) (reduceRound ll n l) := by
  unfold reduceRoundG reduceRound
  simE_steps

theorem simE_reduceLoop (ll : List PS) (n : Nat) : ∀ (fuel : Nat) (l : PS),
    SimE (reduceLoopG ll n fuel l) (reduceLoop ll n fuel l)
  | 0, l => by unfold reduceLoopG reduceLoop; exact simE_throw _
  | fuel + 1, l => by
    unfold reduceLoopG reduceLoop
    apply simE_bind (simE_reduceRound ll n l)
    intro r
    cases r with
    | none => exact simE_pure _
    | some l' => exact simE_reduceLoop ll n fuel l'

theorem simE_stepIV : SimE reduceLongLegMoreThanOneLitsG reduceLongLegMoreThanOneLits := by
  unfold reduceLongLegMoreThanOneLitsG reduceLongLegMoreThanOneLits
  repeat' (first | with_reducible exact simE_reduceLoop _ _ _ _ | simE1)

theorem simE_stepV : SimE appendLongLegFirstAndCenterLitG appendLongLegFirstAndCenterLit := by
  unfold appendLongLegFirstAndCenterLitG appendLongLegFirstAndCenterLit
  simE_steps

theorem simE_stepVI : SimE appendLongLegOnlyLastLitG appendLongLegOnlyLastLit := by
  unfold appendLongLegOnlyLastLitG appendLongLegOnlyLastLit
  simE_steps

theorem simE_stepVII : SimE appendLongLegLastAndFirstLitG appendLongLegLastAndFirstLit := by
  unfold appendLongLegLastAndFirstLitG appendLongLegLastAndFirstLit
  simE_steps

theorem simE_pipeline (l : PS) : SimE (pipelineG l) (pipeline l) := by
  unfold pipelineG pipeline
  repeat' (first
    | with_reducible exact simE_stepI
    | with_reducible exact simE_stepII
    | with_reducible exact simE_fast
    | with_reducible exact simE_stepIII
    | with_reducible exact simE_litCenter
    | with_reducible exact simE_stepIV
    | with_reducible exact simE_stepV
    | with_reducible exact simE_stepVI
    | with_reducible exact simE_stepVII
    | simE1)

/-! ### `build` -/

theorem runPipelineG_erase (s : MG) (l : PS) :
    (runPipelineG s l).1 = (runPipeline s.mf l).1 ∧ (runPipelineG s l).2.mf = (runPipeline s.mf l).2 :=
  simE_pipeline l s

theorem buildLoopG_erase : ∀ (fuel : Nat) (st : MG) (q u : List PS) (t : List String),
    (buildLoopG fuel st q u t).res = buildLoop fuel st.mf q u t
  | 0, st, [], u, t => by simp [buildLoopG, buildLoop, finish]
  | _ + 1, st, [], u, t => by simp [buildLoopG, buildLoop, finish]
  | 0, st, _ :: _, u, t => by simp [buildLoopG, buildLoop, finish]
  | fuel + 1, st, l :: q, u, t => by
    obtain ⟨h1, h2⟩ := runPipelineG_erase st l
    rw [buildLoopG, buildLoop]
    rcases hG : runPipelineG st l with ⟨r, st'⟩
    rcases hP : runPipeline st.mf l with ⟨r', m'⟩
    rw [hG, hP] at h1 h2
    simp only at h1 h2
    subst h1 h2
    cases r with
    | ok a => cases a; simp only; rw [buildLoopG_erase]; rfl
    | error e =>
      cases e <;> simp only [restoreG, restore, gSettle, gRequeue, gFail] <;>
        first
        | (split <;> rw [buildLoopG_erase])
        | rw [buildLoopG_erase]
        | rfl

/-- erasing the ghost of the guarded `build` gives the plain `build` -/
theorem buildG_erase (gens : List PS) : (buildG gens).map (·.res) = build gens := by
  unfold buildG build
  by_cases h : gens.isEmpty
  · simp [h, Except.map, pure, Except.pure]
  · simp only [h, Bool.false_eq_true, if_false]
    cases hq : getQueue gens with
    | error e => simp [bind, Except.bind, Except.map]
    | ok q =>
      cases q with
      | none => simp [bind, Except.bind, Except.map, pure, Except.pure]
      | some queue =>
        simp only [bind, Except.bind, Except.map, pure, Except.pure]
        rw [buildLoopG_erase]

theorem buildG_ok_build {gens : List PS} {rg : BuildResultG} (h : buildG gens = .ok rg) :
    build gens = .ok rg.res := by
  rw [← buildG_erase, h]; rfl

end C02
end PauLie
