/-
C01, path, list form: for a LIST `vs` of linearly independent strings whose anticommutation graph
is the path in list order, the commutator closure is the set of sums of contiguous non-empty
segments, and has |vs|(|vs|+1)/2 members.  Core Lean only.
-/
import PauLieVerif.Proofs.C01Path
import PauLieVerif.Proofs.C01StarSub

namespace PauLie
namespace C01Star
open Closure

/-- `i`-th member (the zero string beyond the end) -/
def nth (L : Nat) (vs : List V) (i : Nat) : V := vs.getD i (zeroV L)

theorem nth_eq {L : Nat} {vs : List V} {i : Nat} (hi : i < vs.length) : nth L vs i = vs[i] := by
  simp [nth, List.getD_eq_getElem?_getD, hi]

theorem nth_mem {L : Nat} {vs : List V} {i : Nat} (hi : i < vs.length) : nth L vs i ∈ vs := by
  rw [nth_eq hi]; exact List.getElem_mem hi

theorem gensF_nth (L : Nat) (vs : List V) : PathF.gensF (nth L vs) vs.length = vs := by
  apply List.ext_getElem
  · simp [PathF.gensF]
  · intro i h1 h2
    simp [PathF.gensF, nth_eq h2]

/-- a path in list order -/
structure PathL (L : Nat) (vs : List V) : Prop where
  len : ∀ v ∈ vs, v.length = L
  om : ∀ i j, i < vs.length → j < vs.length →
    omega (nth L vs i) (nth L vs j) = decide (i + 1 = j ∨ j + 1 = i)
  indep : Indep L vs

theorem msum_snoc {L : Nat} (t : Bool) (w : V) (hw : w.length = L) : ∀ (b : List Bool) (vs : List V),
    b.length = vs.length → (∀ v ∈ vs, v.length = L) →
    msum L (b ++ [t]) (vs ++ [w]) = if t then add (msum L b vs) w else msum L b vs
  | [], [], _, _ => by
    cases t
    · simp
    · simp [add_zero_right L w hw, add_zero_left L w hw]
  | [], _ :: _, h, _ => by simp at h
  | _ :: _, [], h, _ => by simp at h
  | s :: b, v :: vs, h, hl => by
    have ih := msum_snoc t w hw b vs (by simpa using h) (fun x hx => hl x (by simp [hx]))
    cases s
    · simpa using ih
    · simp only [List.cons_append, msum_true, ih]
      cases t
      · simp
      · simp [add_assoc]

theorem fsum_eq_msum {L : Nat} (vs : List V) (hl : ∀ v ∈ vs, v.length = L) (f : Nat → Bool) :
    ∀ k, k ≤ vs.length → fsum L (nth L vs) f k = msum L ((List.range k).map f) (vs.take k)
  | 0, _ => by simp [fsum]
  | k + 1, hk => by
    have ih := fsum_eq_msum vs hl f k (by omega)
    have hk' : k < vs.length := by omega
    rw [List.range_succ, List.map_append, List.take_succ_eq_append_getElem hk']
    simp only [List.map_cons, List.map_nil]
    rw [msum_snoc (f k) vs[k] (hl _ (List.getElem_mem hk')) _ _ (by simp; omega)
      (fun x hx => hl x (List.mem_of_mem_take hx))]
    simp only [fsum, ih, nth_eq hk']

theorem indepF_of_indep {L : Nat} {vs : List V} (hl : ∀ v ∈ vs, v.length = L) (hI : Indep L vs) :
    IndepF L (nth L vs) vs.length := by
  intro f hf i hi
  rw [fsum_eq_msum vs hl f vs.length (Nat.le_refl _), List.take_length] at hf
  have := hI ((List.range vs.length).map f) (by simp) hf
  have h2 := congrArg (fun l => l[i]?) this
  simp only [noneMask] at h2
  simpa [hi] using h2

theorem PathL.toF {L : Nat} {vs : List V} (h : PathL L vs) : PathF L (nth L vs) vs.length :=
  ⟨fun _ hi => h.len _ (nth_mem hi), h.om, indepF_of_indep h.len h.indep⟩

theorem sumV_append {L : Nat} : ∀ (A B : List V), (∀ v ∈ A, v.length = L) → (∀ v ∈ B, v.length = L) →
    sumV L (A ++ B) = add (sumV L A) (sumV L B)
  | [], B, _, hB => by
    have : (sumV L B).length = L := by
      clear sumV_append
      induction B with
      | nil => simp [sumV]
      | cons b B ih => exact length_add_eq (hB b (by simp)) (ih (fun v hv => hB v (by simp [hv])))
    simp [sumV, add_zero_left L _ this]
  | a :: A, B, hA, hB => by
    simp only [List.cons_append, sumV, sumV_append A B (fun v hv => hA v (by simp [hv])) hB, add_assoc]

theorem length_sumV {L : Nat} : ∀ (A : List V), (∀ v ∈ A, v.length = L) → (sumV L A).length = L
  | [], _ => by simp [sumV]
  | a :: A, hA => length_add_eq (hA a (by simp)) (length_sumV A (fun v hv => hA v (by simp [hv])))

theorem pre_eq_sumV {L : Nat} (vs : List V) (hl : ∀ v ∈ vs, v.length = L) :
    ∀ a, a ≤ vs.length → pre L (nth L vs) a = sumV L (vs.take a)
  | 0, _ => by simp [pre, sumV]
  | a + 1, ha => by
    have ha' : a < vs.length := by omega
    rw [List.take_succ_eq_append_getElem ha', sumV_append _ _ (fun x hx => hl x (List.mem_of_mem_take hx))
      (fun x hx => by simp at hx; subst hx; exact hl _ (List.getElem_mem ha'))]
    simp only [pre, pre_eq_sumV vs hl a (by omega), nth_eq ha', sumV]
    rw [add_zero_right L _ (hl _ (List.getElem_mem ha'))]

/-- the interval `[a, b)` is the sum of the segment of the list -/
theorem iv_eq_segment {L : Nat} (vs : List V) (hl : ∀ v ∈ vs, v.length = L) {a b : Nat} (hab : a ≤ b)
    (hb : b ≤ vs.length) : iv L (nth L vs) a b = sumV L ((vs.drop a).take (b - a)) := by
  unfold iv
  rw [pre_eq_sumV vs hl a (by omega), pre_eq_sumV vs hl b hb]
  have : vs.take b = vs.take a ++ (vs.drop a).take (b - a) := by
    have := List.take_add (l := vs) (i := a) (j := b - a)
    rwa [show a + (b - a) = b by omega] at this
  rw [this, sumV_append _ _ (fun x hx => hl x (List.mem_of_mem_take hx))
    (fun x hx => hl x (List.mem_of_mem_drop (List.mem_of_mem_take hx)))]
  exact add_add_cancel_left _ _ ((length_sumV _ (fun x hx => hl x (List.mem_of_mem_take hx))).trans
    (length_sumV _ (fun x hx => hl x (List.mem_of_mem_drop (List.mem_of_mem_take hx)))).symm)

/-- **closure of a path, list form**: exactly the sums of the contiguous non-empty segments -/
theorem PathL.clo {L : Nat} {vs : List V} (h : PathL L vs) (x : V) :
    Clo vs x ↔ ∃ a b, a < b ∧ b ≤ vs.length ∧ x = sumV L ((vs.drop a).take (b - a)) := by
  have := h.toF.clo_path x
  rw [gensF_nth] at this
  rw [this]
  constructor
  · rintro ⟨a, b, hab, hb, rfl⟩
    exact ⟨a, b, hab, hb, iv_eq_segment vs h.len (by omega) hb⟩
  · rintro ⟨a, b, hab, hb, rfl⟩
    exact ⟨a, b, hab, hb, (iv_eq_segment vs h.len (by omega) hb).symm⟩

/-- **size, list form**: m(m+1)/2 = dim so(m+1) for m = |vs| -/
theorem PathL.card_clo {n : Nat} {vs : List V} (h : PathL (2 * n) vs) :
    (closureList vs).1.length = (vs.length + 1) * vs.length / 2 := by
  have := h.toF.card_clo
  rwa [gensF_nth] at this

end C01Star
end PauLie
