/-
Helpers for property C19, part 29b: family a9 - the base case of the peeling on five sites (kernel evaluation).
-/
import PauLieVerif.Proofs.C19LastA9a

namespace PauLie
namespace C19
open Closure Graph C01Star C03

theorem base_a9 : ((allV 10).filter T9).all (fun y => (closureList (klocalV 5 gensA9)).1.contains y) = true := by
  decide +kernel

end C19
end PauLie
