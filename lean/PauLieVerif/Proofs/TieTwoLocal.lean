/-
Tie theorems for the two-local reference data: the hand-written closed forms of
`Model/TwoLocal.lean` equal the tables regenerated from the live package on
every run (`Generated/Tables.lean`, written by `harness/gen_tables_twolocal.py`):
`G_LIE`, the text and the parsed form of `two_local_algebras(n)` for
3 ≤ n ≤ 40, and `Classification.get_isomorphisms()`.  If the Python table or a
generator list changes, one of these stops elaborating on the next run.
-/
import PauLieVerif.Generated.Tables
import PauLieVerif.Model.TwoLocal

namespace PauLie
namespace Tie
open TwoLocal

/-- the keys of `two_local_algebras(n)` for n = 3..40, in the order the table is generated -/
def tlKeys : List (Fam × Nat) :=
  (List.range (Generated.tlHi + 1 - Generated.tlLo)).flatMap
    (fun k => Fam.all.map (fun f => (f, k + Generated.tlLo)))

/-- `G_LIE` of the source is the model's `gLie` (same keys, same order, same generator lists) -/
theorem gLie_tie : Generated.gLie = TwoLocal.gLie := by decide +kernel

theorem tl_range_tie : Generated.tlLo = 3 ∧ Generated.tlHi = 40 := by decide

/-- the exact text of every row of `two_local_algebras(n)`, 3 ≤ n ≤ 40 (keys and key order included) -/
theorem tl_text_tie_list :
    Generated.tlText = tlKeys.map (fun (f, n) => (f.name, n, tlText f n)) := by decide +kernel

/-- the parsed rows (kind, parameter, multiplicity), 3 ≤ n ≤ 40 -/
theorem tl_table_tie_list :
    Generated.tlParsed =
      tlKeys.map (fun (f, n) => (f.name, n, ((tlName f n).getD []).map triple)) := by decide +kernel

/-- no row of the table is `None` for 3 ≤ n ≤ 40 -/
theorem tl_some_tie : tlKeys.all (fun (f, n) => (tlName f n).isSome) = true := by decide +kernel

theorem iso_tie : Generated.isomorphisms = TwoLocal.isomorphisms := by decide +kernel

theorem fam_all_complete : ∀ f : Fam, f ∈ Fam.all := by intro f; cases f <;> decide

theorem mem_tlKeys {f : Fam} {n : Nat} (h3 : 3 ≤ n) (h40 : n ≤ 40) : (f, n) ∈ tlKeys := by
  have hf : f ∈ Fam.all := fam_all_complete f
  unfold tlKeys
  rw [tl_range_tie.1, tl_range_tie.2]
  refine List.mem_flatMap.2 ⟨n - 3, List.mem_range.2 (by omega), ?_⟩
  refine List.mem_map.2 ⟨f, hf, ?_⟩
  rw [show n - 3 + 3 = n by omega]

/-- **translator tie**, pointwise: for every family and 3 ≤ n ≤ 40 the closed form of
the model is a row of the regenerated Python table (and is not `None`) -/
theorem tl_table_tie : ∀ (f : Fam) (n : Nat), 3 ≤ n → n ≤ 40 →
    (f.name, n, ((tlName f n).getD []).map triple) ∈ Generated.tlParsed := by
  intro f n h3 h40
  rw [tl_table_tie_list]
  exact List.mem_map.2 ⟨(f, n), mem_tlKeys h3 h40, rfl⟩

/-- the same for the exact text -/
theorem tl_text_tie : ∀ (f : Fam) (n : Nat), 3 ≤ n → n ≤ 40 →
    (f.name, n, tlText f n) ∈ Generated.tlText := by
  intro f n h3 h40
  rw [tl_text_tie_list]
  exact List.mem_map.2 ⟨(f, n), mem_tlKeys h3 h40, rfl⟩

/-- the table has exactly one row per (family, n): 28 · 38 rows -/
theorem tl_rows : Generated.tlParsed.length = 28 * 38 ∧ Generated.tlText.length = 28 * 38 := by
  rw [tl_table_tie_list, tl_text_tie_list]
  simp only [List.length_map]
  decide +kernel

/-- no row of the table is `None`, for every n (the `return None` exits are unreachable) -/
theorem tlName_isSome (f : Fam) (n : Nat) : (tlName f n).isSome = true := by
  have h8 : n % 8 < 8 := Nat.mod_lt _ (by decide)
  have h6 : n % 6 < 6 := Nat.mod_lt _ (by decide)
  cases f <;> simp only [tlName, a3, a5, a6, Option.isSome_some]
  · generalize n % 8 = r at h8
    rcases r with _|_|_|_|_|_|_|_|r <;> first | rfl | omega
  · generalize n % 6 = r at h6
    rcases r with _|_|_|_|_|_|r <;> first | rfl | omega
  all_goals split <;> rfl

end Tie
end PauLie
