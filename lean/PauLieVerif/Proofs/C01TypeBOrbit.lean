/-
C01, canonical graphs of type B - generic tools (core Lean only).

The canonical realisations of the B-type stars are built one qubit at a time: a new letter (two bits)
is put IN FRONT of every string.  This file has the lemmas that do not depend on the family:

  * `pad`, lifting of the closure under `pad` (`clo_pad`), and moves inside a fibre (`clo_fibre_move`);
  * `Conn G x y`: `y` is reached from `x` by moves `u ↦ u + c` with `c` in the closure anticommuting
    with `u`; for a generating set all of whose members are connected to a root, the whole closure is
    one `Conn`-class (`conn_all`);
  * `clo_quad`: a quadratic invariant that is 1 on the generators is 1 on the closure (upper bounds);
  * `pairExt_lower` / `pairExt_upper`: the step "a further leg of length two at the centre"
    (new qubit, new generators `X ⊗ I…I` and `Z ⊗ a`);
  * `twin_clo`: the step "a further single leg" (new qubit, new generator `Z ⊗ a`): the closure doubles.
-/
import PauLieVerif.Proofs.C01Span

namespace PauLie
namespace C01TypeB
open Closure C01Star

/-- a new identity letter in front -/
def pad (y : V) : V := false :: false :: y

theorem add_cons2 (x z x' z' : Bool) (y y' : V) :
    add (x :: z :: y) (x' :: z' :: y') = (x != x') :: (z != z') :: add y y' := by
  simp [add_cons]

theorem omega_cons2 (x z x' z' : Bool) (y y' : V) :
    omega (x :: z :: y) (x' :: z' :: y') = (((x && z') != (z && x')) != omega y y') := rfl

theorem clo_pad {G G' : List V} (h : ∀ g ∈ G, pad g ∈ G') {y : V} (hy : Clo G y) : Clo G' (pad y) := by
  induction hy with
  | base hg => exact Clo.base (h _ hg)
  | @step x y _ _ ho ihx ihy =>
    have := Clo.step ihx ihy (by simpa [pad, omega_cons2] using ho)
    simpa [pad, add_cons2] using this

/-- a move by a closure element of the old generators inside the fibre over a fixed new letter -/
theorem clo_fibre_move {G G' : List V} (h : ∀ g ∈ G, pad g ∈ G') (x z : Bool) {y c : V}
    (hy : Clo G' (x :: z :: y)) (hc : Clo G c) (ho : omega y c = true) : Clo G' (x :: z :: add y c) := by
  have := Clo.step hy (clo_pad h hc) (by simpa [pad, omega_cons2] using ho)
  simpa [pad, add_cons2] using this

/-! ### connectedness of the closure -/

/-- `y` is reached from `x` by moves with anticommuting closure elements -/
inductive Conn (G : List V) : V → V → Prop
  | refl (x : V) : Conn G x x
  | step {x y c : V} : Conn G x y → Clo G c → omega y c = true → Conn G x (add y c)

theorem Conn.trans {G : List V} {x y z : V} (h1 : Conn G x y) (h2 : Conn G y z) : Conn G x z := by
  induction h2 with
  | refl => exact h1
  | step _ hc ho ih => exact Conn.step ih hc ho

/-- two anticommuting closure elements are connected -/
theorem conn_adj {n : Nat} {G : List V} (hG : Uniform n G) {x y : V} (hx : Clo G x) (hy : Clo G y)
    (ho : omega x y = true) : Conn G x y := by
  have lx := clo_length hG hx
  have ly := clo_length hG hy
  have h1 : Conn G x (add x y) := Conn.step (Conn.refl x) hy ho
  have h2 : omega (add x y) x = true := by
    rw [omega_add_left x y x (by omega), omega_self, omega_comm y x, ho]; rfl
  have h3 := Conn.step h1 hx h2
  rwa [add_comm x y, add_add_cancel_right y x (by omega)] at h3

/-- a predicate invariant under moves by closure elements is constant along `Conn` -/
theorem Conn.transport {G : List V} {P : V → Prop}
    (hP : ∀ u c, P u → Clo G c → omega u c = true → P (add u c)) {x y : V} (h : Conn G x y) (hx : P x) : P y := by
  induction h with
  | refl => exact hx
  | step _ hc ho ih => exact hP _ _ ih hc ho

/-- all generators connected (both ways) to a root: the whole closure is -/
theorem conn_all {n : Nat} {G : List V} (hG : Uniform n G) {r : V}
    (hr : ∀ g ∈ G, Conn G r g ∧ Conn G g r) {w : V} (hw : Clo G w) : Conn G r w ∧ Conn G w r := by
  induction hw with
  | base hg => exact hr _ hg
  | @step x y hx hy ho ihx _ =>
    refine ⟨Conn.step ihx.1 hy ho, ?_⟩
    have lx := clo_length hG hx
    have ly := clo_length hG hy
    have h2 : omega (add x y) y = true := by
      rw [omega_add_left x y y (by omega), omega_self, ho]; rfl
    have h3 := Conn.step (Conn.refl (add x y)) hy h2
    rw [add_add_cancel_right x y (by omega)] at h3
    exact h3.trans ihx.2

/-- connectedness lifts along `pad` -/
theorem conn_pad {G G' : List V} (h : ∀ g ∈ G, pad g ∈ G') {x y : V} (hc : Conn G x y) :
    Conn G' (pad x) (pad y) := by
  induction hc with
  | refl => exact Conn.refl _
  | @step y c _ hc ho ih =>
    have := Conn.step ih (clo_pad h hc) (by simpa [pad, omega_cons2] using ho)
    simpa [pad, add_cons2] using this

/-! ### quadratic invariants -/

/-- a function that is quadratic with polar form `omega` on strings of length `L` -/
def Quad (L : Nat) (Q : V → Bool) : Prop :=
  ∀ u v : V, u.length = L → v.length = L → Q (add u v) = ((Q u != Q v) != omega u v)

theorem clo_quad {n : Nat} {G : List V} (hG : Uniform n G) {Q : V → Bool} (hQ : Quad (2 * n) Q)
    (hg : ∀ g ∈ G, Q g = true) {x : V} (hx : Clo G x) : Q x = true := by
  induction hx with
  | base h => exact hg _ h
  | @step a b ha hb ho iha ihb =>
    rw [hQ a b (clo_length hG ha) (clo_length hG hb), iha, ihb, ho]; rfl

theorem Quad.zero {L : Nat} {Q : V → Bool} (hQ : Quad L Q) : Q (zeroV L) = false := by
  have := hQ (zeroV L) (zeroV L) (by simp) (by simp)
  rw [add_self_of_length (length_zeroV L), omega_self] at this
  revert this
  cases Q (zeroV L) <;> simp

/-- the quadratic form after a further leg of length two: the new letter counts iff it is `X` -/
def extQ (Q : V → Bool) : V → Bool
  | x :: z :: y => (x && !z) != Q y
  | _ => false

theorem extQ_quad {L : Nat} {Q : V → Bool} (hQ : Quad L Q) : Quad (L + 2) (extQ Q) := by
  intro u v hu hv
  match u, v, hu, hv with
  | x :: z :: y, x' :: z' :: y', hu, hv =>
    have ly : y.length = L := by simpa using hu
    have ly' : y'.length = L := by simpa using hv
    rw [add_cons2, omega_cons2]
    simp only [extQ]
    rw [hQ y y' ly ly']
    cases x <;> cases z <;> cases x' <;> cases z' <;> cases Q y <;> cases Q y' <;> cases omega y y' <;> rfl

/-! ### a further leg of length two -/

/-- **lower bound** for the step "new leg `b - d` at the centre": the old generators `G` (closure
`{Q = 1}`, connected, `a ∈ G`) padded, plus `d = X ⊗ I…I` and `b = Z ⊗ a`.  `hw` is the only geometric
input: a string with `Q = 0` commutes with some string with `Q = 1`. -/
theorem pairExt_lower {n : Nat} {G G' : List V} (hG : Uniform n G) {Q : V → Bool} (hQ : Quad (2 * n) Q)
    (hfull : ∀ y : V, y.length = 2 * n → Q y = true → Clo G y)
    {a r : V} (ha : a ∈ G) (hr : ∀ g ∈ G, Conn G r g ∧ Conn G g r)
    (hw : ∀ y : V, y.length = 2 * n → Q y = false → ∃ w : V, w.length = 2 * n ∧ Q w = true ∧ omega w y = false)
    (hpad : ∀ g ∈ G, pad g ∈ G') (hd : (true :: false :: zeroV (2 * n)) ∈ G') (hb : (false :: true :: a) ∈ G')
    (x z : Bool) (y : V) (ly : y.length = 2 * n) (hq : extQ Q (x :: z :: y) = true) : Clo G' (x :: z :: y) := by
  have la : a.length = 2 * n := hG a ha
  -- the fibre over `Z`
  have hZ : ∀ w : V, w.length = 2 * n → Q w = true → Clo G' (false :: true :: w) := by
    intro w lw qw
    have cw := hfull w lw qw
    have c1 := (conn_all hG hr (Clo.base ha)).2
    have c2 := (conn_all hG hr cw).1
    exact (c1.trans c2).transport (P := fun u => Clo G' (false :: true :: u))
      (fun u c hu hc ho => clo_fibre_move hpad false true hu hc ho) (Clo.base hb)
  -- the fibre over `Y`
  have hY : ∀ w : V, w.length = 2 * n → Q w = true → Clo G' (true :: true :: w) := by
    intro w lw qw
    have := Clo.step (hZ w lw qw) (Clo.base hd) (by simp [omega_cons2, omega_zero_right])
    simpa [add_cons2, add_zero_right (2 * n) w lw] using this
  cases x <;> cases z
  · -- I
    exact clo_pad hpad (hfull y ly (by simpa [extQ] using hq))
  · exact hZ y ly (by simpa [extQ] using hq)
  · -- X
    have qy : Q y = false := by
      simp only [extQ] at hq
      revert hq; cases Q y <;> simp
    obtain ⟨w, lw, qw, ow⟩ := hw y ly qy
    have lw' : (add y w).length = 2 * n := length_add_eq ly lw
    have qw' : Q (add y w) = true := by
      rw [hQ y w ly lw, qy, qw, omega_comm, ow]; rfl
    have ho : omega (true :: true :: w) (false :: true :: add y w) = true := by
      rw [omega_cons2, omega_add_right w y w (by omega), ow, omega_self]; rfl
    have := Clo.step (hY w lw qw) (hZ _ lw' qw') ho
    rw [add_cons2, add_comm y w, add_add_cancel_left w y (by omega)] at this
    simpa using this
  · exact hY y ly (by simpa [extQ] using hq)

/-! ### a further single leg -/

/-- **the closure doubles** when a twin `e = Z ⊗ a` of the generator `a` is adjoined on a new qubit
(all old generators padded): the members are `I ⊗ w` and `Z ⊗ w`, `w` in the old closure. -/
theorem twin_clo {n : Nat} {G G' : List V} (hG : Uniform n G) {a r : V} (ha : a ∈ G)
    (hr : ∀ g ∈ G, Conn G r g ∧ Conn G g r)
    (hpad : ∀ g ∈ G, pad g ∈ G') (hb : (false :: true :: a) ∈ G')
    (hsub : ∀ g' ∈ G', (∃ g ∈ G, g' = pad g) ∨ g' = false :: true :: a) (v : V) :
    Clo G' v ↔ ∃ z w, v = false :: z :: w ∧ Clo G w := by
  constructor
  · intro hv
    induction hv with
    | base hg =>
      rcases hsub _ hg with ⟨g, hgG, rfl⟩ | rfl
      · exact ⟨false, g, rfl, Clo.base hgG⟩
      · exact ⟨true, a, rfl, Clo.base ha⟩
    | step _ _ ho ihx ihy =>
      obtain ⟨z, w, rfl, hw⟩ := ihx
      obtain ⟨z', w', rfl, hw'⟩ := ihy
      refine ⟨z != z', add w w', by simp, Clo.step hw hw' ?_⟩
      simpa [omega_cons2] using ho
  · rintro ⟨z, w, rfl, hw⟩
    cases z
    · exact clo_pad hpad hw
    · have c1 := (conn_all hG hr (Clo.base ha)).2
      have c2 := (conn_all hG hr hw).1
      exact (c1.trans c2).transport (P := fun u => Clo G' (false :: true :: u))
        (fun u c hu hc ho => clo_fibre_move hpad false true hu hc ho) (Clo.base hb)

end C01TypeB
end PauLie
