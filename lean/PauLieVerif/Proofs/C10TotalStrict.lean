/-
Adequacy of the non-raising list primitives in the model of the queue construction.

Python's `list.remove(x)` and `list.index(x)` raise `ValueError` when `x` is absent; the model
(`Morph.removeFirst`, the `| none => pure ()` arm of `appendToQueue`) leaves the list alone in
that case, because it cannot happen.  "Cannot happen" is proved here: `getQueueS` /
`appendToQueueS` are copies of `Morph.getQueue` / `Morph.appendToQueue` in which exactly these
primitives raise as the Python does, and on strings of one length the strict copies and the
model compute the same value (`getQueueS_eq`) — so the totality theorem `build_total` is not an
artefact of the lenient primitives.
-/
import PauLieVerif.Proofs.C10TotalQueue

namespace PauLie
namespace C10Total
open Morph
open C14 (Uniform)

/-- Python `list.remove(x)`: first occurrence w.r.t. `==`, `ValueError` when absent -/
def removeStrict (l : List PS) (p : PS) : Except Err (List PS) :=
  match l.findIdx? (fun x => x.beq p) with
  | some i => .ok (l.eraseIdx i)
  | none => .error .valueError

/-- `_append_to_queue` with raising `list.remove` / `list.index` -/
def appendToQueueS (queue0 new0 : List PS) : Except Err (List PS × List PS) := do
  let mut queue := queue0
  let mut new := new0
  let mut i := 0
  let mut fuel := new0.length + 1
  while i < new.length && fuel > 0 do
    fuel := fuel - 1
    match new[i]? with
    | none => break
    | some p =>
      if mem queue p then
        new ← removeStrict new p
        i := i + 1
        continue
      let ac ← antiCommutates p queue
      if ac.length == 0 then
        i := i + 1
        continue
      if ac.length > 1 then
        let mut minIndex := queue.length
        for a in ac do
          match queue.findIdx? (fun x => x.beq a) with
          | some index =>
            if index < minIndex then
              minIndex := index
              queue := insertAt queue (minIndex + 1) p
          | none => throw .valueError
      else
        queue := queue ++ [p]
      new ← removeStrict new p
      return (queue, new)
  return (queue, new)

/-- `_get_queue` with raising `list.remove` -/
def getQueueS (gens : List PS) : Except Err (Option (List PS)) := do
  let sorted := sortPS gens
  match ← getMaxConnected sorted with
  | none => return none
  | some (ps, acs) =>
    let mut new ← removeStrict sorted ps
    let mut queue := [ps]
    for ac in acs do
      new ← removeStrict new ac
      if !(mem queue ac) then queue := queue ++ [ac]
    let mut fuel := new.length + 1
    while new.length > 0 do
      if fuel == 0 then return none
      fuel := fuel - 1
      let (q', n') ← appendToQueueS queue new
      if n'.length == new.length then return none
      queue := q'
      new := n'
    return some queue

/-- `build` over the strict queue construction -/
def buildS (gens : List PS) : Except Err BuildResult := do
  if gens.isEmpty then return ⟨[], [], [], [], true⟩
  match ← getQueueS gens with
  | none => return ⟨[], [], [], ["queue-hang"], false⟩
  | some queue =>
    return buildLoop ((queue.length + 2) * (queue.length + 2) * (queue.length + 2) + 64) {} queue [] []

/-! ### a relational version of the logic: both programs return the same value -/

/-- `x` and `y` return normally, with the same value, which satisfies `Q` -/
def Agree {α : Type} (Q : α → Prop) (x y : Except Err α) : Prop := ∃ a, x = .ok a ∧ y = .ok a ∧ Q a

theorem Agree.pure {α : Type} {Q : α → Prop} {a : α} (h : Q a) :
    Agree Q (Pure.pure a : Except Err α) (Pure.pure a) := ⟨a, rfl, rfl, h⟩

theorem Agree.of_ok {α : Type} {Q : α → Prop} {x : Except Err α} (h : Ok Q x) : Agree Q x x := by
  obtain ⟨a, e, ha⟩ := h
  exact ⟨a, e, e, ha⟩

theorem Agree.eq {α : Type} {Q : α → Prop} {x y : Except Err α} (h : Agree Q x y) : x = y := by
  obtain ⟨a, e1, e2, _⟩ := h
  rw [e1, e2]

theorem Agree.bind {α β : Type} {P : α → Prop} {Q : β → Prop} {x y : Except Err α}
    {f g : α → Except Err β} (hx : Agree P x y) (hf : ∀ a, P a → Agree Q (f a) (g a)) :
    Agree Q (x >>= f) (y >>= g) := by
  obtain ⟨a, rfl, rfl, ha⟩ := hx
  exact hf a ha

/-- `for x in l do …` on both sides; the invariant may mention the elements still to come -/
theorem Agree.forIn_list {α β : Type} (I : List α → β → Prop) (J : β → Prop)
    (f g : α → β → Except Err (ForInStep β))
    (h : ∀ x rest s, I (x :: rest) s → Agree (fun r => match r with
      | .done b => J b
      | .yield b => I rest b) (f x s) (g x s))
    (hJ : ∀ s, I [] s → J s) :
    ∀ (l : List α) (s : β), I l s → Agree J (forIn l s f) (forIn l s g) := by
  intro l
  induction l with
  | nil => intro s hI; exact ⟨s, rfl, rfl, hJ s hI⟩
  | cons a t ih =>
    intro s hI
    rw [List.forIn_cons, List.forIn_cons]
    obtain ⟨r, h1, h2, hr⟩ := h a t s hI
    rw [h1, h2]
    cases r with
    | done b => exact ⟨b, rfl, rfl, hr⟩
    | yield b => exact ih b hr

/-- `while` on both sides, invariant and decreasing measure -/
theorem Agree.loop {β : Type} (I : β → Prop) (μ : β → Nat)
    (f g : Unit → β → Except Err (ForInStep β))
    (h : ∀ s, I s → Agree (fun r => match r with
      | .done b => I b
      | .yield b => I b ∧ μ b < μ s) (f () s) (g () s)) :
    ∀ (k : Nat) (s : β), μ s < k → I s →
      Agree I (forIn Lean.Loop.mk s f) (forIn Lean.Loop.mk s g) := by
  intro k
  induction k with
  | zero => intro s hk; omega
  | succ k ih =>
    intro s hk hI
    show Agree I (Lean.Loop.forIn Lean.Loop.mk s f) (Lean.Loop.forIn Lean.Loop.mk s g)
    rw [Lean.Loop.forIn_eq_of_monadTail, Lean.Loop.forIn_eq_of_monadTail (f := g)]
    obtain ⟨r, h1, h2, hr⟩ := h s hI
    rw [h1, h2]
    cases r with
    | done b => exact ⟨b, rfl, rfl, hr⟩
    | yield b => exact ih b (by have := hr.2; omega) hr.1

/-! ### presence of the removed / indexed element -/

theorem beq_self (p : PS) : p.beq p = true := by simp [PS.beq]

theorem findIdx_some_of_mem {l : List PS} {p : PS} (h : p ∈ l) :
    ∃ j, l.findIdx? (fun x => x.beq p) = some j := by
  cases hf : l.findIdx? (fun x => x.beq p) with
  | some j => exact ⟨j, rfl⟩
  | none =>
    rw [List.findIdx?_eq_none_iff] at hf
    have := hf p h
    simp [beq_self] at this

/-- when the element is present, the raising `list.remove` is the model's `removeFirst` -/
theorem removeStrict_eq {l : List PS} {p : PS} (h : p ∈ l) :
    removeStrict l p = .ok (removeFirst l p) := by
  obtain ⟨j, hj⟩ := findIdx_some_of_mem h
  simp [removeStrict, removeFirst, hj]

theorem filter_sublist_eraseIdx (q : PS → Bool) : ∀ (l : List PS) (i : Nat),
    (∀ x, l[i]? = some x → q x = false) → List.Sublist (l.filter q) (l.eraseIdx i)
  | [], _, _ => by simp
  | a :: t, 0, h => by
    have : q a = false := h a rfl
    simp [this]
  | a :: t, i + 1, h => by
    have ih := filter_sublist_eraseIdx q t i (fun x hx => h x (by simpa using hx))
    simp only [List.eraseIdx_cons_succ, List.filter_cons]
    split
    · exact ih.cons_cons a
    · exact ih.cons a

/-- removing the first string equal to the head of a sublist leaves the tail a sublist -/
theorem sublist_eraseIdx_of_cons {a : PS} {rest : List PS} : ∀ {new : List PS} {j : Nat},
    List.Sublist (a :: rest) new → new.findIdx? (fun x => x.beq a) = some j →
    List.Sublist rest (new.eraseIdx j)
  | [], _, h, _ => by cases h
  | b :: t, j, h, hj => by
    rw [List.findIdx?_cons] at hj
    by_cases hb : b.beq a = true
    · simp only [hb, if_true, Option.some.injEq] at hj
      subst hj
      simp only [List.eraseIdx_zero, List.tail_cons]
      cases h with
      | cons _ h' => exact (List.sublist_cons_self a rest).trans h'
      | cons_cons _ h' => exact h'
    · simp only [hb] at hj
      cases hj' : t.findIdx? (fun x => x.beq a) with
      | none => simp [hj'] at hj
      | some j' =>
        simp [hj'] at hj
        subst hj
        simp only [List.eraseIdx_cons_succ]
        cases h with
        | cons _ h' => exact (sublist_eraseIdx_of_cons h' hj').cons b
        | cons_cons _ h' => exact absurd (beq_self a) hb

/-! ### `_get_max_connected`: the string returned is a member, its list is the filter -/

theorem getMaxConnected_spec {n : Nat} {l : List PS} (hl : Uniform n l) :
    Ok (fun r => ∀ b ac, r = some (b, ac) → b ∈ l ∧ ac = l.filter (acB b)) (getMaxConnected l) := by
  unfold getMaxConnected
  cases l with
  | nil => exact Ok.pure (by intro b ac h; cases h)
  | cons g0 t =>
    have h0 : g0.WF ∧ g0.len = n := hl g0 (by simp)
    simp only []
    refine Ok.bind (P := fun ac => ac = (g0 :: t).filter (acB g0))
      ⟨_, antiCommutates_eq h0 hl, rfl⟩ ?_
    intro bestAc hAc
    refine Ok.bind (P := fun s => s.1 ∈ g0 :: t ∧ s.2 = (g0 :: t).filter (acB s.1)) ?_ ?_
    · apply Ok.forIn_list (fun s : PS × List PS => s.1 ∈ g0 :: t ∧ s.2 = (g0 :: t).filter (acB s.1))
      · intro p hp s hs
        refine Ok.bind (P := fun ac => ac = (g0 :: t).filter (acB p))
          ⟨_, antiCommutates_eq (hl p hp) hl, rfl⟩ ?_
        intro ac hac
        split
        · exact Ok.pure ⟨hp, hac⟩
        · exact Ok.pure hs
      · exact ⟨by simp, hAc⟩
    · intro s hs
      exact Ok.pure (by intro b ac h; cases h; exact hs)

/-! ### `_append_to_queue`: strict copy = model -/

theorem appendToQueue_agree {n : Nat} {queue new : List PS} (hq : Uniform n queue)
    (hn : Uniform n new) :
    Agree (fun r => Uniform n r.1 ∧ Uniform n r.2) (appendToQueueS queue new)
      (appendToQueue queue new) := by
  unfold appendToQueueS appendToQueue
  simp only []
  refine Agree.bind (P := AQInv n) ?_ ?_
  · refine Agree.loop (AQInv n) (fun s => s.2.2.2.2) _ _ ?_ _ _
      (Nat.lt_succ_self _) ⟨hq, hn, by intro r h; cases h⟩
    rintro ⟨r, queue, new, i, fuel⟩ ⟨hq, hn, hr⟩
    simp only [] at hq hn hr ⊢
    have hnone : ∀ r : List PS × List PS, (none : Option (List PS × List PS)) = some r →
        Uniform n r.1 ∧ Uniform n r.2 := by intro r h; cases h
    split
    · next hc =>
      have hfuel : fuel - 1 < fuel := by
        simp only [Bool.and_eq_true, decide_eq_true_eq] at hc
        omega
      cases hp : new[i]? with
      | none => exact Agree.pure ⟨hq, hn, hnone⟩
      | some p =>
        have hmem : p ∈ new := List.mem_of_getElem? hp
        have hP : p.WF ∧ p.len = n := hn p hmem
        simp only []
        split
        · rw [removeStrict_eq hmem]
          exact Agree.pure ⟨⟨hq, uniform_removeFirst p hn, hnone⟩, hfuel⟩
        · refine Agree.bind (P := fun ac => ac = queue.filter (acB p))
            (Agree.of_ok ⟨_, antiCommutates_eq hP hq, rfl⟩) ?_
          intro ac hac
          split
          · exact Agree.pure ⟨⟨hq, hn, hnone⟩, hfuel⟩
          · split
            · refine Agree.bind (P := fun s : List PS × Nat => Uniform n s.1) ?_ ?_
              · refine Agree.forIn_list
                  (fun (rest : List PS) (s : List PS × Nat) => Uniform n s.1 ∧ ∀ a ∈ rest, a ∈ s.1)
                  (fun s => Uniform n s.1) _ _ ?_ (fun s h => h.1) ac (queue, queue.length)
                  ⟨hq, fun a ha => by rw [hac] at ha; exact (List.mem_filter.mp ha).1⟩
                intro a rest s hs
                obtain ⟨k, hk⟩ := findIdx_some_of_mem (hs.2 a (by simp))
                rw [hk]
                simp only []
                split
                · refine Agree.pure ⟨uniform_insertAt _ hs.1 hP, ?_⟩
                  intro b hb
                  have := hs.2 b (by simp [hb])
                  unfold insertAt
                  rw [← List.take_append_drop (k + 1) s.1] at this
                  simp only [List.mem_append, List.mem_cons] at this ⊢
                  rcases this with h | h
                  · exact Or.inl h
                  · exact Or.inr (Or.inr h)
                · exact Agree.pure ⟨hs.1, fun b hb => hs.2 b (by simp [hb])⟩
              · intro s hs
                rw [removeStrict_eq hmem]
                refine Agree.pure ⟨hs, uniform_removeFirst p hn, ?_⟩
                intro r h; cases h; exact ⟨hs, uniform_removeFirst p hn⟩
            · have hq' : Uniform n (queue ++ [p]) := uniform_append hq (uniform_single hP)
              rw [removeStrict_eq hmem]
              refine Agree.pure ⟨hq', uniform_removeFirst p hn, ?_⟩
              intro r h; cases h; exact ⟨hq', uniform_removeFirst p hn⟩
    · exact Agree.pure ⟨hq, hn, hnone⟩
  · rintro ⟨r, queue, new, i, fuel⟩ ⟨hq, hn, hr⟩
    simp only []
    cases r with
    | none => exact Agree.pure ⟨hq, hn⟩
    | some r => exact Agree.pure (hr r rfl)

/-! ### `_get_queue`: strict copy = model -/

theorem getQueue_agree {n : Nat} {gens : List PS} (hg : Uniform n gens) :
    Agree (fun _ => True) (getQueueS gens) (getQueue gens) := by
  unfold getQueueS getQueue
  simp only []
  have hs := uniform_sortPS hg
  obtain ⟨r, hr, hspec⟩ := getMaxConnected_spec hs
  obtain ⟨r', hr', hstr⟩ := getMaxConnected_ok hs
  rw [hr] at hr'
  cases hr'
  rw [hr]
  cases r with
  | none => exact Agree.pure trivial
  | some r =>
    obtain ⟨ps, acs⟩ := r
    obtain ⟨hps, hacs⟩ := hstr ps acs rfl
    obtain ⟨hmem, hfil⟩ := hspec ps acs rfl
    show Agree _ (removeStrict (sortPS gens) ps >>= _) _
    rw [removeStrict_eq hmem]
    -- the strings anticommuting with `ps` are a sublist of what is left after removing `ps`
    have hsub : List.Sublist acs (removeFirst (sortPS gens) ps) := by
      obtain ⟨j, hj⟩ := findIdx_some_of_mem hmem
      rw [hfil]
      unfold removeFirst
      rw [hj]
      apply filter_sublist_eraseIdx
      intro x hx
      have hb : x.beq ps = true := by
        rw [List.findIdx?_eq_some_iff_getElem] at hj
        obtain ⟨hlt, hb, _⟩ := hj
        rw [List.getElem?_eq_getElem hlt] at hx
        cases hx
        exact hb
      simp [acB, hb]
    refine Agree.bind (P := fun s : List PS × List PS => Uniform n s.1 ∧ Uniform n s.2) ?_ ?_
    · refine Agree.forIn_list
        (fun (rest : List PS) (s : List PS × List PS) =>
          (Uniform n s.1 ∧ Uniform n s.2) ∧ List.Sublist rest s.1 ∧ ∀ a ∈ rest, a.WF ∧ a.len = n)
        (fun s => Uniform n s.1 ∧ Uniform n s.2) _ _ ?_ (fun s h => h.1) acs _
        ⟨⟨uniform_removeFirst ps hs, uniform_single hps⟩, hsub, hacs⟩
      rintro a rest ⟨new, queue⟩ ⟨⟨hn, hq⟩, hsl, hrest⟩
      simp only [] at hn hq hsl ⊢
      have hmem' : a ∈ new := hsl.subset (by simp)
      rw [removeStrict_eq hmem']
      have hsl' : List.Sublist rest (removeFirst new a) := by
        obtain ⟨j, hj⟩ := findIdx_some_of_mem hmem'
        unfold removeFirst
        rw [hj]
        exact sublist_eraseIdx_of_cons hsl hj
      have hrest' : ∀ b ∈ rest, b.WF ∧ b.len = n := fun b hb => hrest b (by simp [hb])
      show Agree _ (if _ then _ else _) (if _ then _ else _)
      split
      · exact Agree.pure ⟨⟨uniform_removeFirst a hn,
          uniform_append hq (uniform_single (hrest a (by simp)))⟩, hsl', hrest'⟩
      · exact Agree.pure ⟨⟨uniform_removeFirst a hn, hq⟩, hsl', hrest'⟩
    · rintro ⟨new, queue⟩ ⟨hn, hq⟩
      simp only [] at hn hq ⊢
      refine Agree.bind (P := GQInv n) ?_ ?_
      · refine Agree.loop (GQInv n) (fun s => s.2.2.2) _ _ ?_ _ _ (Nat.lt_succ_self _)
          ⟨hn, hq, by intro x h; cases h⟩
        rintro ⟨r, new, queue, fuel⟩ ⟨hn, hq, _⟩
        simp only [] at hn hq ⊢
        have hnone : ∀ x : Option (List PS), (none : Option (Option (List PS))) = some x → x = none := by
          intro x h; cases h
        have hsome : ∀ x : Option (List PS), some (none : Option (List PS)) = some x → x = none := by
          intro x h; cases h; rfl
        split
        · split
          · exact Agree.pure ⟨hn, hq, hsome⟩
          · next hf =>
            have hfuel : fuel - 1 < fuel := by
              have : fuel ≠ 0 := by simpa using hf
              omega
            refine Agree.bind (appendToQueue_agree hq hn) ?_
            rintro ⟨q', n'⟩ ⟨hq', hn'⟩
            simp only [] at hq' hn' ⊢
            split
            · exact Agree.pure ⟨hn, hq, hsome⟩
            · exact Agree.pure ⟨⟨hn', hq', hnone⟩, hfuel⟩
        · exact Agree.pure ⟨hn, hq, hnone⟩
      · rintro ⟨r, new, queue, fuel⟩ _
        simp only []
        cases r <;> exact Agree.pure trivial

/-- **the raising `list.remove` / `list.index` of the Python never fire in the queue construction**:
on synchronised strings of one length the strict copy computes what the model computes -/
theorem getQueueS_eq {n : Nat} {gens : List PS} (hg : Uniform n gens) :
    getQueueS gens = getQueue gens := (getQueue_agree hg).eq

theorem buildS_eq {n : Nat} {gens : List PS} (hg : Uniform n gens) :
    buildS gens = Morph.build gens := by
  unfold buildS Morph.build
  rw [getQueueS_eq hg]
  rfl

/-- `build` with the raising list primitives is total on synchronised strings of one length too -/
theorem buildS_total {n : Nat} {gens : List PS} (hg : Uniform n gens) :
    ∃ r, buildS gens = .ok r := by
  rw [buildS_eq hg]; exact build_total hg

end C10Total
end PauLie
