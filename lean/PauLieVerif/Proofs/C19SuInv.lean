/-
Helpers for property C19, part 10: the full invariant of the set of all single-site Pauli strings on
`n` sites (the closure of family b3) is that of `n·su(2)`: the n blocks `{X_k, Y_k, Z_k}` are the
components, each contributes `(3, 0, 1)`, and `mergeSimples` adds the copies up.
-/
import PauLieVerif.Proofs.C19SoInv
import PauLieVerif.Proofs.C19Single

namespace PauLie
namespace C19
open Closure Classify C03

/-- the three letters at site `k` -/
def site3 (n k : Nat) : List V := [sv n k true false, sv n k true true, sv n k false true]

theorem mem_site3 {n k : Nat} {x : V} : x ∈ site3 n k ↔ ∃ a b, (a || b) = true ∧ x = sv n k a b := by
  simp only [site3, List.mem_cons, List.not_mem_nil, or_false]
  constructor
  · rintro (rfl | rfl | rfl)
    · exact ⟨true, false, rfl, rfl⟩
    · exact ⟨true, true, rfl, rfl⟩
    · exact ⟨false, true, rfl, rfl⟩
  · rintro ⟨a, b, hab, rfl⟩
    cases a <;> cases b
    · cases hab
    · exact Or.inr (Or.inr rfl)
    · exact Or.inl rfl
    · exact Or.inr (Or.inl rfl)

theorem closedSet_singles (n : Nat) : ClosedSet n (singles n) := by
  constructor
  · intro x hx
    obtain ⟨k, a, b, _, _, rfl⟩ := mem_singles.1 hx
    exact length_sv n k a b
  · intro x hx y hy ho
    obtain ⟨j, a, b, hj, hab, rfl⟩ := mem_singles.1 hx
    obtain ⟨k, c, d, hk, hcd, rfl⟩ := mem_singles.1 hy
    rw [omega_sv n j k a b c d hj hk] at ho
    simp only [Bool.and_eq_true, decide_eq_true_eq] at ho
    obtain ⟨rfl, ho⟩ := ho
    rw [add_sv n j a b c d hj]
    refine mem_singles.2 ⟨j, _, _, hj, ?_, rfl⟩
    revert ho; cases a <;> cases b <;> cases c <;> cases d <;> simp

theorem singles_partner (n : Nat) : ∀ x ∈ singles n, ∃ y ∈ singles n, omega x y = true := by
  intro x hx
  obtain ⟨k, a, b, hk, hab, rfl⟩ := mem_singles.1 hx
  -- a letter anticommuting with (a,b): (b, !a) ... choose by cases
  cases a <;> cases b
  · cases hab
  · exact ⟨sv n k true false, mem_singles.2 ⟨k, _, _, hk, rfl, rfl⟩, by rw [omega_sv n k k _ _ _ _ hk hk]; simp⟩
  · exact ⟨sv n k false true, mem_singles.2 ⟨k, _, _, hk, rfl, rfl⟩, by rw [omega_sv n k k _ _ _ _ hk hk]; simp⟩
  · exact ⟨sv n k true false, mem_singles.2 ⟨k, _, _, hk, rfl, rfl⟩, by rw [omega_sv n k k _ _ _ _ hk hk]; simp⟩

theorem nodup_site3 {n k : Nat} (hk : k < n) : (site3 n k).Nodup := by
  simp only [site3, List.nodup_cons, List.mem_cons, List.not_mem_nil, or_false, not_or, List.nodup_nil,
    and_true, not_false_eq_true]
  refine ⟨⟨?_, ?_⟩, ?_⟩
  · intro e; have := sv_inj hk hk rfl e; simp at this
  · intro e; have := sv_inj hk hk rfl e; simp at this
  · intro e; have := sv_inj hk hk rfl e; simp at this

theorem isComp_site3 {n k : Nat} (hk : k < n) : IsComp (singles n) (site3 n k) := by
  have mX : sv n k true false ∈ singles n := mem_singles.2 ⟨k, _, _, hk, rfl, rfl⟩
  have mY : sv n k true true ∈ singles n := mem_singles.2 ⟨k, _, _, hk, rfl, rfl⟩
  have mZ : sv n k false true ∈ singles n := mem_singles.2 ⟨k, _, _, hk, rfl, rfl⟩
  refine ⟨sv n k true false, [sv n k true true, sv n k false true], rfl, ?_, ?_⟩
  · intro y hy
    simp only [site3, List.mem_cons, List.not_mem_nil, or_false] at hy
    rcases hy with rfl | rfl | rfl
    · exact Reach.refl mX
    · exact Reach.step (Reach.refl mX) mY (by rw [omega_sv n k k _ _ _ _ hk hk]; simp)
    · exact Reach.step (Reach.refl mX) mZ (by rw [omega_sv n k k _ _ _ _ hk hk]; simp)
  · intro y hy z hz ho
    obtain ⟨a, b, _, rfl⟩ := mem_site3.1 hy
    obtain ⟨j, c, d, hj, hcd, rfl⟩ := mem_singles.1 hz
    rw [omega_sv n k j a b c d hk hj] at ho
    simp only [Bool.and_eq_true, decide_eq_true_eq] at ho
    obtain ⟨rfl, _⟩ := ho
    exact mem_site3.2 ⟨c, d, hcd, rfl⟩

theorem inv1_site3 {n k : Nat} (hk : k < n) : inv1 (site3 n k) = (3, 0, 1) := by
  have hl : labelOfBlock 3 1 = 0 := by decide
  simp only [site3, inv1, List.map_cons, List.map_nil, List.filter_cons, List.filter_nil,
    omega_sv n k k _ _ _ _ hk hk]
  simp [hl]

/-- interleaving three sequences -/
theorem flatten_triples_perm (f g h : Nat → V) : ∀ (m : Nat),
    (((List.range m).map (fun k => [f k, g k, h k])).flatten).Perm
      ((List.range m).map f ++ ((List.range m).map g ++ (List.range m).map h))
  | 0 => by simp
  | m + 1 => by
    have ih := flatten_triples_perm f g h m
    rw [List.perm_iff_count] at ih ⊢
    intro a
    have := ih a
    simp only [List.range_succ, List.map_append, List.flatten_append, List.count_append, List.map_cons,
      List.map_nil, List.flatten_cons, List.flatten_nil, List.append_nil, List.count_cons, List.count_nil] at this ⊢
    omega

theorem site3_flatten_perm (n : Nat) : (((List.range n).map (site3 n)).flatten).Perm (singles n) := by
  have := flatten_triples_perm (fun k => sv n k true false) (fun k => sv n k true true) (fun k => sv n k false true) n
  refine this.trans ?_
  simp [singles, letters3, List.map_append, List.map_map, Function.comp_def]

theorem foldl_ins_replicate (a b : Nat) : ∀ (m c : Nat),
    (List.replicate m ((a, b, 1) : C01Names.Simple)).foldl C01Names.ins [(a, b, c)] = [(a, b, c + m)]
  | 0, c => rfl
  | m + 1, c => by
    rw [List.replicate_succ, List.foldl_cons]
    have : C01Names.ins [(a, b, c)] (a, b, 1) = [(a, b, c + 1)] := by simp [C01Names.ins]
    rw [this, foldl_ins_replicate a b m (c + 1)]
    congr 3; omega

theorem mergeSimples_replicate (a b m : Nat) :
    mergeSimples (List.replicate (m + 1) (a, b, 1)) = mergeSimples [(a, b, m + 1)] := by
  rw [C01Names.mergeSimples_eq, C01Names.mergeSimples_eq, List.replicate_succ, List.foldl_cons]
  have : C01Names.ins [] (a, b, 1) = [(a, b, 1)] := by simp [C01Names.ins]
  rw [this, foldl_ins_replicate]
  have : C01Names.ins [] (a, b, m + 1) = [(a, b, m + 1)] := by simp [C01Names.ins]
  simp only [List.foldl_cons, List.foldl_nil, this]
  congr 4; omega

theorem invOfName_su2 (n : Nat) : invOfName [TwoLocal.su 2 n] = ⟨0, mergeSimples [(3, 0, n)]⟩ := by
  have : labelOfName .SU 2 = 0 := by decide +kernel
  simp [invOfName, TwoLocal.su, simpleDim, dimSU, this]

/-- **the full invariant of the set of single-site strings on n ≥ 1 sites is that of `n·su(2)`** -/
theorem invOfClosure_singles (n : Nat) (hn : 1 ≤ n) : invOfClosure (singles n) = invOfName [TwoLocal.su 2 n] := by
  have hp := singles_partner n
  rw [invOfClosure_of_blocks (closedSet_singles n) (nodup_singles n) (bs := (List.range n).map (site3 n))
    (by
      intro c hc
      obtain ⟨k, hk, rfl⟩ := List.mem_map.1 hc
      have hk' := List.mem_range.1 hk
      exact ⟨isComp_site3 hk', nodup_site3 hk'⟩)
    (by rw [restOf_eq_self hp]; exact site3_flatten_perm n),
    centreCount_zero hp, invOfName_su2, List.map_map]
  have : (List.range n).map (inv1 ∘ site3 n) = List.replicate n (3, 0, 1) := by
    rw [List.eq_replicate_iff]
    refine ⟨by simp, ?_⟩
    intro b hb
    obtain ⟨k, hk, rfl⟩ := List.mem_map.1 hb
    exact inv1_site3 (List.mem_range.1 hk)
  rw [this]
  obtain ⟨m, rfl⟩ : ∃ m, n = m + 1 := ⟨n - 1, by omega⟩
  rw [mergeSimples_replicate]

end C19
end PauLie
