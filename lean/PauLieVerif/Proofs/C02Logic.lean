/-
Property C02: a small program logic for the guarded model `Model/MorphG.lean`
(monad `GM = ExceptT Exc (StateM MG)`; the state survives an exception).

  * `Pres P x`  — the action `x` preserves the state predicate `P` on every exit (normal return or
                  any exception); closed under `pure`, `throw`, `>>=`, `if`, `for … in`, `foldlM`;
  * `SimE x y`  — the guarded action `x` does on the factory part of the state exactly what the plain
                  action `y` of `Model/Morph.lean` does, with the same outcome (erasure of the ghost).
`run_bind` and the `Pure` lemmas come from `Proofs/C11Lemmas.lean`.  Core Lean only.
-/
import PauLieVerif.Proofs.C11Lemmas
import PauLieVerif.Model.MorphG

namespace PauLie
namespace C02
open Morph MorphG C11L

theorem withGhost_run {α} (x : MFM α) (g : MG → Except Exc α → MF → Ghost) (s : MG) :
    (withGhost x g).run.run s =
      ((x.run.run s.mf).1,
        { mf := (x.run.run s.mf).2, ghost := g s (x.run.run s.mf).1 (x.run.run s.mf).2 }) := rfl

theorem liftMF_run {α} (x : MFM α) (s : MG) :
    (MorphG.liftMF x).run.run s = ((x.run.run s.mf).1, { mf := (x.run.run s.mf).2, ghost := s.ghost }) := rfl

theorem modifyThe_run (f : MG → MG) (s : MG) :
    (modifyThe MG f : GM Unit).run.run s = (.ok (), f s) := rfl

/-! ### preservation of a state predicate on every exit -/

def Pres (P : MG → Prop) {α} (x : GM α) : Prop := ∀ s, P s → P (x.run.run s).2

section
variable {P : MG → Prop}

theorem pres_pure {α} (a : α) : Pres P (pure a : GM α) := fun _ h => h
theorem pres_throw {α} (e : Exc) : Pres P (throw e : GM α) := fun _ h => h

theorem pres_bind {α β} {x : GM α} {f : α → GM β} (hx : Pres P x) (hf : ∀ a, Pres P (f a)) :
    Pres P (x >>= f) := by
  intro s hs
  rw [run_bind]
  have h := hx s hs
  rcases hxs : x.run.run s with ⟨r, s'⟩
  rw [hxs] at h
  cases r with
  | ok a => exact hf a s' h
  | error e => exact h

theorem pres_forIn {β γ} (l : List β) (f : β → γ → GM (ForInStep γ)) (hf : ∀ a b, Pres P (f a b)) :
    ∀ init, Pres P (forIn l init f) := by
  induction l with
  | nil => intro init; simp only [List.forIn_nil]; exact pres_pure _
  | cons a t ih =>
    intro init
    simp only [List.forIn_cons]
    apply pres_bind (hf a init)
    intro r
    cases r with
    | done b => exact pres_pure _
    | yield b => exact ih b

theorem pres_foldlM {β γ} (f : γ → β → GM γ) (hf : ∀ a b, Pres P (f a b)) :
    ∀ (l : List β) (init : γ), Pres P (l.foldlM f init) := by
  intro l
  induction l with
  | nil => intro init; exact pres_pure _
  | cons a t ih =>
    intro init
    simp only [List.foldlM_cons]
    exact pres_bind (hf init a) (fun b => ih b)

theorem pres_ite {α} {c : Prop} [Decidable c] {x y : GM α} (hx : Pres P x) (hy : Pres P y) :
    Pres P (if c then x else y) := by split <;> assumption

end

/-! ### plain actions that keep legs and delayed list -/

/-- the plain action changes neither the legs nor the delayed list nor the list of dependents
(reads, `set_lighting`) -/
class Keeps {α} (x : MFM α) : Prop where
  keeps : ∀ s, (x.run.run s).2.legs = s.legs ∧ (x.run.run s).2.delayed = s.delayed
    ∧ (x.run.run s).2.dependents = s.dependents

theorem keeps_of_pure {α} {x : MFM α} (h : C11L.Pure x) : Keeps x :=
  ⟨fun s => by rw [h s]; exact ⟨rfl, rfl, rfl⟩⟩

/-- the plain action does not change the list of dependents (every action of the factory: only
`build` writes it) -/
def KD {α} (x : MFM α) : Prop := ∀ s, (x.run.run s).2.dependents = s.dependents

theorem kd_of_pure {α} {x : MFM α} (h : C11L.Pure x) : KD x := fun s => by rw [h s]
theorem kd_pure {α} (a : α) : KD (pure a : MFM α) := fun _ => rfl
theorem kd_throw {α} (e : Exc) : KD (throw e : MFM α) := fun _ => rfl

theorem kd_bind {α β} {x : MFM α} {f : α → MFM β} (hx : KD x) (hf : ∀ a, KD (f a)) : KD (x >>= f) := by
  intro s
  rw [run_bind]
  have h := hx s
  rcases hxs : x.run.run s with ⟨r, s'⟩
  rw [hxs] at h
  cases r with
  | ok a => simp only; rw [hf a s']; exact h
  | error e => exact h

theorem kd_ite {α} {c : Prop} [Decidable c] {x y : MFM α} (hx : KD x) (hy : KD y) :
    KD (if c then x else y) := by split <;> assumption

/-! ### erasure of the ghost -/

def SimE {α} (x : GM α) (y : MFM α) : Prop :=
  ∀ s, (x.run.run s).1 = (y.run.run s.mf).1 ∧ (x.run.run s).2.mf = (y.run.run s.mf).2

theorem simE_withGhost {α} (y : MFM α) (g : MG → Except Exc α → MF → Ghost) :
    SimE (withGhost y g) y := fun _ => ⟨rfl, rfl⟩

theorem simE_lift {α} (y : MFM α) : SimE (MorphG.liftMF y) y := fun _ => ⟨rfl, rfl⟩
theorem simE_monadLift {α} (y : MFM α) : SimE (monadLift y : GM α) y := simE_lift y

theorem simE_pure {α} (a : α) : SimE (pure a) (pure a) := fun _ => ⟨rfl, rfl⟩
theorem simE_throw {α} (e : Exc) : SimE (throw e : GM α) (throw e) := fun _ => ⟨rfl, rfl⟩

theorem simE_bind {α β} {x : GM α} {y : MFM α} {f : α → GM β} {g : α → MFM β}
    (hxy : SimE x y) (hfg : ∀ a, SimE (f a) (g a)) : SimE (x >>= f) (y >>= g) := by
  intro s
  rw [run_bind, run_bind]
  obtain ⟨h1, h2⟩ := hxy s
  rcases hx : x.run.run s with ⟨r, s'⟩
  rcases hy : y.run.run s.mf with ⟨r', m'⟩
  rw [hx] at h1 h2; rw [hy] at h1 h2
  simp only at h1 h2
  subst h1
  cases r with
  | ok a => simp only; rw [← h2]; exact hfg a s'
  | error e => exact ⟨rfl, h2⟩

/-- an action that only touches the ghost, in front of `x`, changes nothing for the factory -/
theorem simE_ghost_left {α} (f : MG → MG) (hf : ∀ s, (f s).mf = s.mf) {x : GM α} {y : MFM α}
    (h : SimE x y) : SimE (modifyThe MG f >>= fun _ => x) y := by
  intro s
  rw [run_bind, modifyThe_run]
  have := h (f s)
  rw [hf s] at this
  exact this

theorem simE_ite {α} {c : Prop} [Decidable c] {x x' : GM α} {y y' : MFM α}
    (h : SimE x y) (h' : SimE x' y') : SimE (if c then x else x') (if c then y else y') := by
  split <;> assumption

theorem simE_forIn {β γ} (l : List β) {f : β → γ → GM (ForInStep γ)} {g : β → γ → MFM (ForInStep γ)}
    (h : ∀ a b, SimE (f a b) (g a b)) : ∀ init, SimE (forIn l init f) (forIn l init g) := by
  induction l with
  | nil => intro init; simp only [List.forIn_nil]; exact simE_pure _
  | cons a t ih =>
    intro init
    simp only [List.forIn_cons]
    apply simE_bind (h a init)
    intro r
    cases r with
    | done b => exact simE_pure _
    | yield b => exact ih b

theorem simE_foldlM {β γ} {f : γ → β → GM γ} {g : γ → β → MFM γ} (h : ∀ a b, SimE (f a b) (g a b)) :
    ∀ (l : List β) (init : γ), SimE (l.foldlM f init) (l.foldlM g init) := by
  intro l
  induction l with
  | nil => intro init; exact simE_pure _
  | cons a t ih =>
    intro init
    simp only [List.foldlM_cons]
    exact simE_bind (h init a) (fun b => ih b)

end C02
end PauLie
