/-
`subsystem_compiler(W)` on the objects `compile_target` builds (`closedCtx k n`), for every well-formed
right block `W` of length `n - k`: EITHER every element of the result belongs to the universal set
(this is the case when `W` has at most one single-site factor), OR `W` has a bit that no element of the
result has (`subsystemCompiler_closed`).  For a single-site `W = X_j` / `Z_j` the result is `[X_1 ⊗ W]`.
-/
import PauLieVerif.Proofs.CompilerPivot

namespace PauLie
namespace CompilerSearch
open Compiler C07

theorem allTexts_length : ∀ (k : Nat) (t : List Letter), t ∈ allTexts k → t.length = k
  | 0, t, h => by simp [allTexts] at h; subst h; rfl
  | k + 1, t, h => by
    simp only [allTexts, List.mem_flatMap, List.mem_map] at h
    obtain ⟨l, _, t', ht', rfl⟩ := h
    simp [allTexts_length k t' ht']

theorem poolLetters_length {k : Nat} {t : List Letter} (h : t ∈ poolLetters k) : t.length = k :=
  allTexts_length k t (List.mem_filter.mp h).1

theorem facT_ident (m : Nat) : ∀ (r j : Nat), facT m j (List.replicate r Letter.I) = []
  | 0, _ => rfl
  | r + 1, j => by simp [List.replicate_succ, facT, facLabels, facT_ident m r (j + 1)]

theorem facT_set (m : Nat) (l : Letter) (hl : l = Letter.X ∨ l = Letter.Z) :
    ∀ (r j s : Nat), s < r → facT m j ((List.replicate r Letter.I).set s l) = [single m (j + s) l]
  | 0, _, _, h => by omega
  | r + 1, j, 0, _ => by
    rcases hl with rfl | rfl <;> simp [List.replicate_succ, facT, facLabels, facT_ident]
  | r + 1, j, s + 1, h => by
    have := facT_set m l hl r (j + 1) s (by omega)
    simp only [List.replicate_succ, List.set_cons_succ, facT, facLabels, List.map_nil, List.nil_append, this]
    congr 2
    omega

/-- the factors of a single-site text -/
theorem facT_single (m s : Nat) (l : Letter) (hl : l = Letter.X ∨ l = Letter.Z) (hs : s < m) :
    facT m 0 (single m s l) = [single m s l] := by
  have := facT_set m l hl m 0 s hs
  simpa [single] using this

theorem closedCtx_nRight (k n : Nat) (hkn : k < n) : (closedCtx k n).nRight = ((n - k : Nat) : Int) := by
  simp only [closedCtx]; omega

theorem uTag_bits_length (k : Nat) : (PS.ofLetters (single k 0 .X)).bits.length = 2 * k := by
  rw [bits_ofLetters, C04.length_encode, length_single]

theorem pair_in_uset (k n s : Nat) (l : Letter) (hl : l = Letter.X ∨ l = Letter.Z) (hs : s < n - k) :
    PS.tensor (PS.ofLetters (single k 0 .X)) (PS.ofLetters (single (n - k) s l))
      ∈ (uLetters n k).map PS.ofLetters := by
  rw [tensor_ofLetters]
  refine List.mem_map.mpr ⟨_, ?_, rfl⟩
  unfold uLetters
  refine List.mem_append_right _ (List.mem_map.mpr ⟨single (n - k) s l, ?_, rfl⟩)
  rcases hl with rfl | rfl
  · exact List.mem_append_left _ (List.mem_map.mpr ⟨s, List.mem_range.mpr hs, rfl⟩)
  · exact List.mem_append_right _ (List.mem_map.mpr ⟨s, List.mem_range.mpr hs, rfl⟩)

theorem wf_bits {w : PS} (hw : w.WF) : w.bits = encode w.letters := by
  conv_lhs => rw [C04.WF_eq_ofLetters hw]
  rfl

/-- **`subsystem_compiler` on the objects of `compile_target`**: all elements inside the universal set, or a
bit of `W` that no element has -/
theorem subsystemCompiler_closed (k n : Nat) (hkn : k < n) (w : PS) (hw : w.WF) (hwl : w.len = n - k)
    (gp : List PS) (h : subsystemCompiler (closedCtx k n) w = .ok gp) :
    (∀ g ∈ gp, g ∈ (uLetters n k).map PS.ofLetters) ∨
    (∃ p, p < 2 * (n - k) ∧ w.bits.getD p false = true ∧ ∀ g ∈ gp, bitOf (2 * k + p) g = false) := by
  have hm := closedCtx_nRight k n hkn
  have hlen : w.letters.length = n - k := by rw [C04.length_letters, hwl]
  rcases subsystemCompiler_elems (closedCtx k n) (n - k) hm w hwl gp h with ⟨_, rfl⟩ | ⟨b, hb, rfl⟩ | ⟨h2, hel⟩
  · left; intro g hg; cases hg
  · left
    intro g hg
    simp only [List.mem_singleton] at hg
    subst hg
    obtain ⟨s, l, _, hs, hl, rfl⟩ := facT_mem (n - k) w.letters 0 b (by rw [hb]; exact List.mem_cons_self ..)
    exact pair_in_uset k n s l hl (by omega)
  · right
    obtain ⟨p, _, hp, hbit, hpiv⟩ := facT_pivot (n - k) w.letters 0 (by omega)
    refine ⟨p, by omega, by rw [wf_bits hw]; simpa using hbit, ?_⟩
    intro g hg
    rcases hel g hg with ⟨i, b, hi, hget, rfl⟩ | ⟨a, ha, hext⟩
    · show bitOf (2 * k + p) (PS.tensor (PS.ofLetters (single k 0 .X)) (PS.ofLetters b)) = false
      rw [bitOf_tensor_right _ _ k p (uTag_bits_length k), bits_ofLetters]
      exact hpiv i b hi hget
    · obtain ⟨t, ht, rfl⟩ := List.mem_map.mp (show a ∈ (poolLetters k).map PS.ofLetters from ha)
      rw [extendLeft_closed k n hkn] at hext
      cases hext
      exact bitOf_ext_right t k (n - k) p (poolLetters_length ht)

/-- `subsystem_compiler` of a single-site right block `X_j` / `Z_j` -/
theorem subsystemCompiler_single (k n s : Nat) (hkn : k < n) (l : Letter) (hl : l = Letter.X ∨ l = Letter.Z)
    (hs : s < n - k) (gp : List PS)
    (h : subsystemCompiler (closedCtx k n) (PS.ofLetters (single (n - k) s l)) = .ok gp) :
    gp = [PS.tensor (PS.ofLetters (single k 0 .X)) (PS.ofLetters (single (n - k) s l))] := by
  have hm := closedCtx_nRight k n hkn
  have hwl : (PS.ofLetters (single (n - k) s l)).len = n - k := by rw [C18.len_ofLetters, length_single]
  have hT : facT (n - k) 0 (PS.ofLetters (single (n - k) s l)).letters = [single (n - k) s l] := by
    rw [C18.letters_ofLetters]; exact facT_single _ _ _ hl hs
  rcases subsystemCompiler_elems (closedCtx k n) (n - k) hm _ hwl gp h with ⟨h0, _⟩ | ⟨b, hb, rfl⟩ | ⟨h2, _⟩
  · rw [hT] at h0; cases h0
  · rw [hT] at hb
    cases hb
    rfl
  · rw [hT] at h2; simp at h2

end CompilerSearch
end PauLie
