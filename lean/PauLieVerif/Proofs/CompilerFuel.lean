/-
The fuel of the model's left search is never exhausted.

`left_map_over_a` (model: `Compiler.leftMapOverA`) runs its `while q` loop on the fuel `2^bits + 1`.
Every string enters the queue at most once (it is marked in the bit table when it is queued, and the
table has `2^bits` slots), and every iteration pops one entry, so the quantity

      (length of the queue) + (number of unmarked slots)

drops by exactly one per iteration: it starts at `2^bits`, so the loop ends — by reaching the goal or
by emptying the queue — before the fuel does.  Hence, for ALL inputs:

* `leftMapOverA_error`   — the only errors are `RuntimeError("Left map BFS failed.")` and a `ValueError`
  of `_commutes` / `_multiply` (operands of different lengths); never the out-of-fuel value;
* `leftMapOverA_total`   — on well-formed operands of one length the second kind is impossible:
  the search returns a path or raises `RuntimeError` in `left_map_over_a`;
* `leftMapOverA_iff`     — it returns iff a walk exists, it raises `RuntimeError` iff none exists.
-/
import PauLieVerif.Proofs.CompilerSearchSound
import PauLieVerif.Proofs.C14Lemmas

namespace PauLie
namespace CompilerSearch
open Compiler C07

/-- number of unmarked slots of the bit table -/
def unseen (seen : Array Bool) : Nat := seen.toList.count false

theorem unseen_set (seen : Array Bool) (i : Nat) (hi : i < seen.size)
    (h : ¬ (seen.getD i false = true)) : unseen (seen.setIfInBounds i true) + 1 = unseen seen := by
  unfold unseen
  have hi' : i < seen.toList.length := by simpa using hi
  rw [Array.toList_setIfInBounds, List.count_set hi']
  have hx : seen.toList[i] = false := by
    rw [Array.getD_eq_getD_getElem?] at h
    simp [hi] at h
    simpa using h
  have hpos : 0 < seen.toList.count false := by
    apply List.count_pos_iff.mpr
    rw [← hx]
    exact List.getElem_mem _
  rw [hx]
  have hb : (true == false) = false := rfl
  simp only [beq_self_eq_true, if_true, hb, Bool.false_eq_true, if_false]
  omega

theorem unseen_replicate (n : Nat) : unseen (Array.replicate n false) = n := by
  simp [unseen]

theorem qPop_length {α} {f b f' b' : List α} {x : α} (h : qPop f b = some (x, f', b')) :
    f'.length + b'.length + 1 = f.length + b.length := by
  unfold qPop at h
  split at h
  · simp at h
    obtain ⟨rfl, rfl, rfl⟩ := h
    simp
    omega
  · split at h
    · cases h
    · rename_i x' f'' hrev
      simp at h
      obtain ⟨rfl, rfl, rfl⟩ := h
      have := congrArg List.length hrev
      simp at this ⊢
      omega

/-- one run of the `for a in A` loop keeps `queue length + unmarked slots` -/
theorem lmExpand_count (L : Nat) (cur : PS) (path : List PS) (hcur : cur.bits.length = L) :
    ∀ (rest : List PS) (back : List (PS × List PS)) (seen : Array Bool) (back' : List (PS × List PS))
      (seen' : Array Bool), seen.size = 2 ^ L → lmExpand cur path rest back seen = .ok (back', seen') →
      back'.length + unseen seen' = back.length + unseen seen := by
  intro rest
  induction rest with
  | nil =>
    intro back seen back' seen' _ h
    simp [lmExpand, pure, Except.pure] at h
    obtain ⟨rfl, rfl⟩ := h
    rfl
  | cons a rest ih =>
    intro back seen back' seen' hs h
    unfold lmExpand at h
    unfold cCommutes cMultiply at h
    cases hcm : PS.commutesWith a cur with
    | error e => simp [hcm, liftAt, bind, Except.bind] at h
    | ok bcm =>
      cases bcm with
      | true =>
        simp [hcm, liftAt, bind, Except.bind] at h
        exact ih _ _ _ _ hs h
      | false =>
        cases hmu : PS.multiply a cur with
        | error e => simp [hcm, hmu, liftAt, bind, Except.bind] at h
        | ok nxt =>
          have hnd : Dom L nxt := multiply_dom hcur hmu
          simp only [hcm, hmu, liftAt, bind, Except.bind, Bool.false_eq_true, if_false] at h
          split at h
          · exact ih _ _ _ _ hs h
          · rename_i hunseen
            have hs2 : (seen.setIfInBounds (slot nxt) true).size = 2 ^ L := by
              rw [Array.size_setIfInBounds]; exact hs
            have h1 := ih _ _ _ _ hs2 h
            have h2 := unseen_set seen (slot nxt) (by rw [hs]; exact hnd.slot_lt) hunseen
            simp only [List.length_cons] at h1
            omega

/-- the errors `left_map_over_a` can end with, as Python would: its own `RuntimeError`, or the `ValueError` of
a bit operation on operands of different lengths -/
def LmErr (e : Fail) : Prop :=
  e = ⟨.runtimeError, .leftMapOverA⟩ ∨ e.site = .commutes ∨ e.site = .multiply

/-- **the loop of the left search ends before its fuel**: with `queue + unmarked < fuel` the only error
results are those of `LmErr` — never `⟨.other, .fuel⟩` -/
theorem lmLoop_error (A : List PS) (goal : List Letter) (L : Nat) :
    ∀ (fuel : Nat) (front back : List (PS × List PS)) (seen : Array Bool),
      seen.size = 2 ^ L → (∀ e ∈ front ++ back, e.1.bits.length = L) →
      front.length + back.length + unseen seen < fuel →
      ∀ e, lmLoop goal A fuel front back seen = .error e → LmErr e := by
  intro fuel
  induction fuel with
  | zero => intro front back seen _ _ hlt; omega
  | succ fuel ih =>
    intro front back seen hs hdom hlt e h
    unfold lmLoop at h
    split at h
    · simp [throw, throwThe, MonadExceptOf.throw] at h
      subst h
      exact Or.inl rfl
    · rename_i cur path front' back' hpop
      have hq := qPop_iff hpop
      have hql := qPop_length hpop
      have hcur : cur.bits.length = L := hdom (cur, path) ((hq _).mpr (Or.inl rfl))
      split at h
      · simp [pure, Except.pure] at h
      · simp only [bind, Except.bind] at h
        split at h
        · rename_i e' he
          cases h
          rcases lmExpand_error _ _ _ _ _ _ he with h' | h'
          · exact Or.inr (Or.inl h')
          · exact Or.inr (Or.inr h')
        · rename_i res hres
          obtain ⟨back'', seen'⟩ := res
          obtain ⟨e0, _, _, e3, _, _⟩ := lmExpand_spec L cur path hcur A back' seen back'' seen' hs hres
          have hc := lmExpand_count L cur path hcur A back' seen back'' seen' hs hres
          refine ih front' back'' seen' e0 ?_ ?_ e h
          · intro x hx
            rcases List.mem_append.mp hx with hx | hx
            · exact hdom x ((hq x).mpr (Or.inr (List.mem_append_left _ hx)))
            · rcases e3 x hx with hx | hx
              · exact hdom x ((hq x).mpr (Or.inr (List.mem_append_right _ hx)))
              · exact hx.1.1
          · omega

/-- **`left_map_over_a` never runs out of fuel** (ALL inputs): whatever the start, the goal and the
generators, an error result is `RuntimeError("Left map BFS failed.")` or the `ValueError` of a bit
operation on operands of different lengths — never the model's out-of-fuel value -/
theorem leftMapOverA_error (f t : PS) (A : List PS) (e : Fail) (h : leftMapOverA f t A = .error e) :
    LmErr e := by
  unfold leftMapOverA at h
  split at h
  · simp [pure, Except.pure] at h
  · have hsl : slot f < 2 ^ f.bits.length := bitsToNat_lt f.bits
    refine lmLoop_error A (key t) f.bits.length _ _ _ _ (by simp) ?_ ?_ e h
    · intro x hx
      simp at hx
      subst hx
      rfl
    · have h2 := unseen_set (Array.replicate (2 ^ f.bits.length) false) (slot f) (by simpa using hsl)
        (by simp [Array.getD_eq_getD_getElem?, hsl])
      rw [unseen_replicate] at h2
      simp only [List.length_cons, List.length_nil]
      omega

theorem LmErr.site_ne_fuel {e : Fail} (h : LmErr e) : e.site ≠ .fuel := by
  rcases h with rfl | h | h
  · decide
  · rw [h]; decide
  · rw [h]; decide

theorem leftMapOverA_never_out_of_fuel (f t : PS) (A : List PS) :
    leftMapOverA f t A ≠ .error ⟨.other, .fuel⟩ := by
  intro h
  exact (leftMapOverA_error f t A _ h).site_ne_fuel rfl

/-! ### on well-formed operands of one length the bit operations never raise -/

theorem lmExpand_wf (n : Nat) (cur : PS) (path : List PS) (hcur : cur.WF ∧ cur.len = n) :
    ∀ (rest : List PS), (∀ a ∈ rest, a.WF ∧ a.len = n) →
      ∀ (back : List (PS × List PS)) (seen : Array Bool), (∀ e ∈ back, e.1.WF ∧ e.1.len = n) →
      ∃ back' seen', lmExpand cur path rest back seen = .ok (back', seen') ∧ ∀ e ∈ back', e.1.WF ∧ e.1.len = n := by
  intro rest
  induction rest with
  | nil =>
    intro _ back seen hb
    exact ⟨back, seen, rfl, hb⟩
  | cons a rest ih =>
    intro hA back seen hb
    have ha := hA a (List.mem_cons_self ..)
    have hrest : ∀ x ∈ rest, x.WF ∧ x.len = n := fun x hx => hA x (List.mem_cons_of_mem _ hx)
    obtain ⟨bc, hbc⟩ := C14.commutesWith_ok ha.1 hcur.1 (by rw [ha.2, hcur.2])
    obtain ⟨nxt, hmu, hnw, hnl⟩ := C14.multiply_ok ha.1 hcur.1 (by rw [ha.2, hcur.2])
    unfold lmExpand cCommutes cMultiply
    cases bc with
    | true =>
      simp only [hbc, liftAt, bind, Except.bind, if_true]
      exact ih hrest back seen hb
    | false =>
      simp only [hbc, hmu, liftAt, bind, Except.bind, Bool.false_eq_true, if_false]
      split
      · exact ih hrest back seen hb
      · refine ih hrest _ _ ?_
        intro e he
        rcases List.mem_cons.mp he with rfl | he
        · exact ⟨hnw, by rw [hnl, ha.2]⟩
        · exact hb e he

theorem lmLoop_wf (A : List PS) (goal : List Letter) (n : Nat) (hA : ∀ a ∈ A, a.WF ∧ a.len = n) :
    ∀ (fuel : Nat) (front back : List (PS × List PS)) (seen : Array Bool),
      (∀ e ∈ front ++ back, e.1.WF ∧ e.1.len = n) →
      ∀ e, lmLoop goal A fuel front back seen = .error e → e.site ≠ .commutes ∧ e.site ≠ .multiply := by
  intro fuel
  induction fuel with
  | zero =>
    intro front back seen _ e h
    simp [lmLoop, throw, throwThe, MonadExceptOf.throw] at h
    subst h
    exact ⟨by decide, by decide⟩
  | succ fuel ih =>
    intro front back seen hq e h
    unfold lmLoop at h
    split at h
    · simp [throw, throwThe, MonadExceptOf.throw] at h
      subst h
      exact ⟨by decide, by decide⟩
    · rename_i cur path front' back' hpop
      have hqi := qPop_iff hpop
      have hcur := hq (cur, path) ((hqi _).mpr (Or.inl rfl))
      split at h
      · simp [pure, Except.pure] at h
      · have hb' : ∀ x ∈ back', x.1.WF ∧ x.1.len = n := fun x hx =>
          hq x ((hqi x).mpr (Or.inr (List.mem_append_right _ hx)))
        obtain ⟨back'', seen', hex, hb''⟩ := lmExpand_wf n cur path hcur A hA back' seen hb'
        simp only [hex, bind, Except.bind] at h
        refine ih front' back'' seen' ?_ e h
        intro x hx
        rcases List.mem_append.mp hx with hx | hx
        · exact hq x ((hqi x).mpr (Or.inr (List.mem_append_left _ hx)))
        · exact hb'' x hx

/-- **`left_map_over_a` is total on well-formed operands** (every start and all generators well-formed
strings of one length, any goal): it returns a sequence or raises `RuntimeError("Left map BFS failed.")`
— no other exception, and never the out-of-fuel value -/
theorem leftMapOverA_total (f t : PS) (A : List PS) (n : Nat) (hf : f.WF ∧ f.len = n)
    (hA : ∀ a ∈ A, a.WF ∧ a.len = n) :
    (∃ path, leftMapOverA f t A = .ok path) ∨ leftMapOverA f t A = .error ⟨.runtimeError, .leftMapOverA⟩ := by
  cases h : leftMapOverA f t A with
  | ok path => exact Or.inl ⟨path, rfl⟩
  | error e =>
    right
    rcases leftMapOverA_error f t A e h with rfl | h1 | h1
    · rfl
    · exfalso
      unfold leftMapOverA at h
      split at h
      · simp [pure, Except.pure] at h
      · exact (lmLoop_wf A (key t) n hA _ _ _ _ (by
          intro x hx
          simp at hx
          subst hx
          exact hf) e h).1 h1
    · exfalso
      unfold leftMapOverA at h
      split at h
      · simp [pure, Except.pure] at h
      · exact (lmLoop_wf A (key t) n hA _ _ _ _ (by
          intro x hx
          simp at hx
          subst hx
          exact hf) e h).2 h1

theorem wf_eq_ofBits {p : PS} (hp : p.WF) : p = PS.ofBits p.bits := by
  obtain ⟨h1, h2, _⟩ := hp
  cases p
  simp only [PS.ofBits] at *
  subst h1 h2
  rfl

/-- **the left search decides reachability** (well-formed operands of one length): it returns a sequence
iff some walk over the generators leads from the start to a string that reads as the goal, and it raises
`RuntimeError("Left map BFS failed.")` iff there is none -/
theorem leftMapOverA_iff (f t : PS) (A : List PS) (n : Nat) (hf : f.WF ∧ f.len = n)
    (hA : ∀ a ∈ A, a.WF ∧ a.len = n) :
    ((∃ path, leftMapOverA f t A = .ok path) ↔ ∃ l r, Walk A f l r ∧ key r = key t) ∧
    (leftMapOverA f t A = .error ⟨.runtimeError, .leftMapOverA⟩ ↔ ¬ ∃ l r, Walk A f l r ∧ key r = key t) := by
  have hsound : (∃ path, leftMapOverA f t A = .ok path) → ∃ l r, Walk A f l r ∧ key r = key t := by
    rintro ⟨path, hp⟩
    obtain ⟨r, hw, hk⟩ := leftMapOverA_sound f t A path hp
    exact ⟨path, r, hw, hk⟩
  have hcomp : leftMapOverA f t A = .error ⟨.runtimeError, .leftMapOverA⟩ → ¬ ∃ l r, Walk A f l r ∧ key r = key t := by
    rintro h ⟨l, r, hw, hk⟩
    exact leftMapOverA_complete f t A (wf_eq_ofBits hf.1) h l r hw hk
  refine ⟨⟨hsound, ?_⟩, ⟨hcomp, ?_⟩⟩
  · intro hex
    rcases leftMapOverA_total f t A n hf hA with h | h
    · exact h
    · exact absurd hex (hcomp h)
  · intro hno
    rcases leftMapOverA_total f t A n hf hA with h | h
    · exact absurd (hsound h) hno
    · exact h

end CompilerSearch
end PauLie
