/-
Helper lemmas for property C17 (parser part).

Nothing here changes the model; awkward model definitions (`parseOps` is defined
by well-founded recursion, `pyInt` strips/reverses) get equivalence lemmas.
-/
import PauLieVerif.Model.Parser

namespace PauLie
namespace C17

open Parser

/-! ## Letters and gate characters -/

theorem gateLetter_toChar (l : Letter) : gateLetter l.toChar = l := by
  cases l <;> rfl

theorem toChar_mem_GATES (l : Letter) : l.toChar ∈ GATES := by
  cases l <;> decide

theorem mem_GATES_iff {c : Char} : c ∈ GATES ↔ c = 'I' ∨ c = 'X' ∨ c = 'Y' ∨ c = 'Z' := by
  simp [GATES]

theorem toChar_gateLetter {c : Char} (h : c ∈ GATES) : (gateLetter c).toChar = c := by
  rcases mem_GATES_iff.1 h with h | h | h | h <;> subst h <;> rfl

theorem underscore_not_gate : '_' ∉ GATES := by decide
theorem s_not_gate : 's' ∉ GATES := by decide

theorem toChar_ne_underscore (l : Letter) : l.toChar ≠ '_' := by cases l <;> decide
theorem toChar_ne_s (l : Letter) : l.toChar ≠ 's' := by cases l <;> decide

theorem isToken_iff {c : Char} : isToken c = true ↔ c ∈ GATES ∨ c = '_' ∨ c = 's' := by
  simp [isToken, LOWCASE, SIZE, or_assoc]

theorem isToken_of_gate {c : Char} (h : c ∈ GATES) : isToken c = true := isToken_iff.2 (.inl h)

/-! ## Digit characters -/

/-- `digitVal?` on the code point -/
def digitValNat? (n : Nat) : Option Nat :=
  match ndZeros.find? (fun z => z ≤ n ∧ n < z + 10) with
  | some z => some (n - z)
  | none => none

theorem digitVal?_eq (c : Char) : digitVal? c = digitValNat? c.toNat := rfl

/-- a character `int()` accepts as a single digit (any Unicode decimal digit) -/
def isDigitCh (c : Char) : Bool := (digitVal? c).isSome

/-- value of a digit character (0 for non-digits) -/
def dv (c : Char) : Nat := (digitVal? c).getD 0

theorem digitVal?_of_isDigitCh {c : Char} (h : isDigitCh c = true) : digitVal? c = some (dv c) := by
  unfold isDigitCh at h; unfold dv
  cases h' : digitVal? c <;> simp_all

theorem isDigitCh_iff {c : Char} : isDigitCh c = true ↔ ∃ v, digitVal? c = some v := by
  unfold isDigitCh; cases digitVal? c <;> simp

theorem token_not_digit {c : Char} (h : isToken c = true) : isDigitCh c = false := by
  rcases isToken_iff.1 h with h | h | h
  · rcases mem_GATES_iff.1 h with h | h | h | h <;> subst h <;> decide
  · subst h; decide
  · subst h; decide

theorem digit_not_token {c : Char} (h : isDigitCh c = true) : isToken c = false := by
  cases h' : isToken c
  · rfl
  · rw [token_not_digit h'] at h; cases h

theorem spaces_not_digit : ∀ n ∈ intSpaces, digitValNat? n = none := by decide

theorem digit_not_space {c : Char} (h : isDigitCh c = true) : isSpace c = false := by
  cases h' : isSpace c
  · rfl
  · have hm : c.toNat ∈ intSpaces := by simpa [isSpace] using h'
    have := spaces_not_digit _ hm
    unfold isDigitCh at h; rw [digitVal?_eq, this] at h; cases h

theorem digit_ne_plus {c : Char} (h : isDigitCh c = true) : c ≠ '+' := by
  rintro rfl; revert h; decide
theorem digit_ne_minus {c : Char} (h : isDigitCh c = true) : c ≠ '-' := by
  rintro rfl; revert h; decide
theorem digit_ne_underscore {c : Char} (h : isDigitCh c = true) : c ≠ '_' := by
  rintro rfl; revert h; decide

/-- ASCII digits are digit characters with the expected value -/
theorem ascii_digit {c : Char} (h : c.isDigit = true) :
    digitVal? c = some (c.toNat - 48) := by
  have h1 : 48 ≤ c.toNat ∧ c.toNat ≤ 57 := by
    simpa using Char.isDigit_iff_toNat.1 h
  rw [digitVal?_eq]
  have : ndZeros.find? (fun z => z ≤ c.toNat ∧ c.toNat < z + 10) = some 48 := by
    rw [ndZeros, List.find?_cons]
    simp [h1.1, show c.toNat < 58 by omega]
  unfold digitValNat?; rw [this]

theorem ascii_isDigitCh {c : Char} (h : c.isDigit = true) : isDigitCh c = true := by
  simp [isDigitCh, ascii_digit h]

theorem ascii_dv {c : Char} (h : c.isDigit = true) : dv c = c.toNat - 48 := by
  simp [dv, ascii_digit h]

/-! ## `int()` on runs of digit characters, `scanNumber` -/

theorem stripLeft_id {l : List Char} (h : ∀ c, l.head? = some c → isSpace c = false) :
    stripLeft l = l := by
  cases l with
  | nil => rfl
  | cons c t => simp [stripLeft, h c rfl]

theorem strip_digits {ds : List Char} (h : ∀ c ∈ ds, isDigitCh c = true) : strip ds = ds := by
  have h1 : stripLeft ds = ds := stripLeft_id (fun c hc => digit_not_space (h c (List.mem_of_mem_head? hc)))
  have h2 : stripLeft ds.reverse = ds.reverse := by
    apply stripLeft_id
    intro c hc
    rw [List.head?_reverse] at hc
    exact digit_not_space (h c (List.mem_of_getLast? hc))
  simp [strip, h1, h2]

theorem digitsUnderscore_digits : ∀ (ds : List Char), ds ≠ [] → (∀ c ∈ ds, isDigitCh c = true) →
    digitsUnderscore ds = some (ds.map dv)
  | [], h, _ => absurd rfl h
  | [c], _, h => by
    simp [digitsUnderscore, digitVal?_of_isDigitCh (h c (by simp))]
  | c :: d :: t, _, h => by
    have hd : d ≠ '_' := digit_ne_underscore (h d (by simp))
    have ih := digitsUnderscore_digits (d :: t) (by simp) (fun x hx => h x (List.mem_cons_of_mem _ hx))
    rw [digitsUnderscore.eq_4 _ _ _ (by intro h; exact hd h)]
    rw [ih, digitVal?_of_isDigitCh (h c (by simp))]
    simp

theorem pyInt_nil : pyInt [] = none := by decide

/-- the sign-splitting `match` of `pyInt` -/
def signSplit (body : List Char) : Bool × List Char :=
  match body with
  | '+' :: t => (false, t)
  | '-' :: t => (true, t)
  | t => (false, t)

theorem pyInt_eq (text : List Char) :
    pyInt text =
      match digitsUnderscore (signSplit (strip text)).2 with
      | none => none
      | some ds =>
        if ds.length > maxStrDigits then none
        else some (if (signSplit (strip text)).1 then -((valOfDigits ds : Nat) : Int) else (valOfDigits ds : Nat)) := by
  rfl

theorem signSplit_digit {c : Char} {t : List Char} (hc : isDigitCh c = true) :
    signSplit (c :: t) = (false, c :: t) := by
  unfold signSplit
  split
  · rename_i heq; simp at heq; exact absurd heq.1 (digit_ne_plus hc)
  · rename_i heq; simp at heq; exact absurd heq.1 (digit_ne_minus hc)
  · rfl

theorem pyInt_digits {ds : List Char} (hne : ds ≠ []) (h : ∀ c ∈ ds, isDigitCh c = true) :
    pyInt ds = if ds.length > maxStrDigits then none
      else some ((valOfDigits (ds.map dv) : Nat) : Int) := by
  rw [pyInt_eq, strip_digits h]
  cases ds with
  | nil => exact absurd rfl hne
  | cons c t =>
    rw [signSplit_digit (h c (by simp))]
    simp only [digitsUnderscore_digits _ hne h, List.length_map]
    split <;> simp

/-- `scanNumber` reads exactly the maximal run of digit characters, and the
unread rest is empty or starts with a token -/
theorem scanNumber_ok {l ds rest : List Char} (h : scanNumber l = .ok (ds, rest)) :
    l = ds ++ rest ∧ (∀ c ∈ ds, isDigitCh c = true) ∧ (∀ c, rest.head? = some c → isToken c = true) := by
  induction l generalizing ds rest with
  | nil => simp [scanNumber] at h; obtain ⟨rfl, rfl⟩ := h; simp
  | cons c t ih =>
    unfold scanNumber at h
    split at h
    · simp at h; obtain ⟨rfl, rfl⟩ := h; simp_all
    · split at h
      · cases h
      · rename_i v hv
        split at h
        · cases h
        · rename_i ds' rest' heq
          simp at h; obtain ⟨rfl, rfl⟩ := h
          obtain ⟨h1, h2, h3⟩ := ih heq
          refine ⟨by simp [h1], ?_, h3⟩
          intro x hx
          rcases List.mem_cons.1 hx with rfl | hx
          · simp [isDigitCh, hv]
          · exact h2 x hx

theorem scanNumber_error {l : List Char} {e : Err} (h : scanNumber l = .error e) : e = .valueError := by
  induction l with
  | nil => simp [scanNumber] at h
  | cons c t ih =>
    unfold scanNumber at h
    split at h
    · cases h
    · split at h
      · cases h; rfl
      · split at h
        · rename_i e' heq; cases h; exact ih heq
        · cases h

theorem scanNumber_append {ds rest : List Char} (hd : ∀ c ∈ ds, isDigitCh c = true)
    (hr : ∀ c, rest.head? = some c → isToken c = true) :
    scanNumber (ds ++ rest) = .ok (ds, rest) := by
  induction ds with
  | nil =>
    cases rest with
    | nil => rfl
    | cons c t => simp [scanNumber, hr c rfl]
  | cons c t ih =>
    have hc := hd c (by simp)
    simp only [List.cons_append, scanNumber, digit_not_token hc, digitVal?_of_isDigitCh hc]
    rw [ih (fun x hx => hd x (List.mem_cons_of_mem _ hx))]
    simp

/-! ## `_to_int`: plain ASCII decimal numbers only -/

theorem isAsciiDigit_eq (c : Char) : isAsciiDigit c = c.isDigit := by
  simp only [isAsciiDigit, Char.isDigit, Char.le_def, UInt32.le_iff_toNat_le, ge_iff_le]

theorem asciiDigit_isDigitCh {c : Char} (h : isAsciiDigit c = true) : isDigitCh c = true :=
  ascii_isDigitCh (by rwa [isAsciiDigit_eq] at h)

theorem toInt_error {ds : List Char} {e : Err} (h : toInt ds = .error e) : e = .valueError := by
  unfold toInt at h
  split at h
  · cases h; rfl
  · split at h <;> cases h; rfl

/-- `_to_int` succeeds exactly on ASCII-digit strings on which `int()` succeeds
(non-emptiness is implied by `int()` succeeding) -/
theorem toInt_ok {ds : List Char} {p : Int} :
    toInt ds = .ok p ↔ (∀ c ∈ ds, isAsciiDigit c = true) ∧ pyInt ds = some p := by
  unfold toInt
  by_cases ha : ∀ c ∈ ds, isAsciiDigit c = true
  · cases ds with
    | nil => simp [pyInt_nil]
    | cons x a =>
      have : (x :: a).all isAsciiDigit = true := List.all_eq_true.2 ha
      simp only [List.isEmpty_cons, this, Bool.not_true, Bool.or_self, Bool.false_eq_true, if_false]
      cases pyInt (x :: a) with
      | none => simp
      | some v => simp only [Except.ok.injEq, Option.some.injEq]; exact ⟨fun h => ⟨ha, h⟩, fun h => h.2⟩
  · have : ds.all isAsciiDigit = false := by
      cases h : ds.all isAsciiDigit
      · rfl
      · exact absurd (List.all_eq_true.1 h) ha
    simp [this, ha]

theorem toInt_nonascii {ds : List Char} (h : ∃ c ∈ ds, isAsciiDigit c = false) :
    toInt ds = .error .valueError := by
  cases hr : toInt ds with
  | error e => rw [toInt_error hr]
  | ok p =>
    obtain ⟨c, hc, hf⟩ := h
    rw [(toInt_ok.1 hr).1 c hc] at hf; cases hf

theorem toInt_of_pyInt_none {ds : List Char} (h : pyInt ds = none) :
    toInt ds = .error .valueError := by
  cases hr : toInt ds with
  | error e => rw [toInt_error hr]
  | ok p => rw [(toInt_ok.1 hr).2] at h; cases h

/-! ## `parseOps` equations -/

/-- result of the positioned branch of `parseOps`, continuation `k` -/
def posStep (c : Char) (acc : List Letter) (sn : Except Err (List Char × List Char))
    (k : List Char → List Letter → Except Err (List Letter)) : Except Err (List Letter) :=
  match sn with
  | .error e => .error e
  | .ok (ds, rest') =>
    match toInt ds with
    | .error e => .error e
    | .ok position =>
      if position - acc.length - 1 < 0 then .error .valueError
      else k rest' (acc ++ List.replicate (position - acc.length - 1).toNat Letter.I ++ [gateLetter c])

theorem parseOps_nil (acc : List Letter) : parseOps [] acc = .ok acc := parseOps.eq_1 acc

theorem parseOps_notGate {c : Char} {t : List Char} {acc : List Letter} (h : c ∉ GATES) :
    parseOps (c :: t) acc = .error .valueError := by
  have h' : GATES.contains c = false := by simpa using h
  rw [parseOps.eq_def]; simp only [h']; simp

theorem parseOps_pos {c d : Char} {t' : List Char} {acc : List Letter} (h : c ∈ GATES) :
    parseOps (c :: '_' :: d :: t') acc = posStep c acc (scanNumber (d :: t')) parseOps := by
  have h' : GATES.contains c = true := by simpa using h
  rw [parseOps.eq_2]; simp only [h', posStep]
  simp only [not_true, ite_false]
  split <;> rename_i heq <;> simp only [heq]
  generalize toInt _ = r; cases r <;> rfl

theorem parseOps_dense {c : Char} {t : List Char} {acc : List Letter} (h : c ∈ GATES)
    (ht : ∀ d t', t ≠ '_' :: d :: t') :
    parseOps (c :: t) acc = parseOps t (acc ++ [gateLetter c]) := by
  rw [parseOps.eq_3]
  · simp [h]
  · intro d t' h1 h2; exact absurd h2 (ht d t')

/-- the positioned branch when the number scans and converts -/
theorem parseOps_pos_ok {c : Char} {ds rest : List Char} {acc : List Letter} {p : Int}
    (h : c ∈ GATES) (hne : ds ≠ []) (hd : ∀ x ∈ ds, isDigitCh x = true)
    (hr : ∀ x, rest.head? = some x → isToken x = true) (hp : toInt ds = .ok p) :
    parseOps (c :: '_' :: ds ++ rest) acc =
      if p - acc.length - 1 < 0 then .error .valueError
      else parseOps rest (acc ++ List.replicate (p - acc.length - 1).toNat Letter.I ++ [gateLetter c]) := by
  obtain ⟨d, t', rfl⟩ := List.exists_cons_of_ne_nil hne
  have := parseOps_pos (c := c) (d := d) (t' := t' ++ rest) (acc := acc) h
  rw [show c :: '_' :: (d :: t') ++ rest = c :: '_' :: d :: (t' ++ rest) by simp, this]
  rw [show d :: (t' ++ rest) = (d :: t') ++ rest by simp, scanNumber_append hd hr]
  simp only [posStep, hp]

/-! ## `splitAtSize` and `parse` -/

theorem splitAtSize_none {t : List Char} (h : 's' ∉ t) : splitAtSize t = none := by
  induction t with
  | nil => rfl
  | cons c t ih =>
    have hc : c ≠ 's' := fun e => h (by simp [e])
    have ht : 's' ∉ t := fun e => h (List.mem_cons_of_mem _ e)
    simp [splitAtSize, SIZE, hc, ih ht]

theorem splitAtSize_append {b a : List Char} (h : 's' ∉ b) :
    splitAtSize (b ++ 's' :: a) = some (b, a) := by
  induction b with
  | nil => simp [splitAtSize, SIZE]
  | cons c t ih =>
    have hc : c ≠ 's' := fun e => h (by simp [e])
    have ht : 's' ∉ t := fun e => h (List.mem_cons_of_mem _ e)
    simp [splitAtSize, SIZE, hc, ih ht]

theorem splitAtSize_some {t b a : List Char} (h : splitAtSize t = some (b, a)) :
    t = b ++ 's' :: a ∧ 's' ∉ b := by
  induction t generalizing b with
  | nil => simp [splitAtSize] at h
  | cons c t ih =>
    unfold splitAtSize at h
    split at h
    · rename_i hc; simp [SIZE] at hc; simp at h; obtain ⟨rfl, rfl⟩ := h; simp [hc]
    · rename_i hc; simp [SIZE] at hc
      split at h
      · rename_i b' a' heq; simp at h; obtain ⟨rfl, rfl⟩ := h
        obtain ⟨h1, h2⟩ := ih heq
        refine ⟨by simp [h1], ?_⟩
        intro hm; rcases List.mem_cons.1 hm with e | e
        · exact hc e.symm
        · exact h2 e
      · cases h

theorem splitAtSize_eq_none {t : List Char} (h : splitAtSize t = none) : 's' ∉ t := by
  intro hm
  obtain ⟨b, a, rfl, hb⟩ : ∃ b a, t = b ++ 's' :: a ∧ 's' ∉ b := by
    induction t with
    | nil => cases hm
    | cons c t ih =>
      by_cases hc : c = 's'
      · exact ⟨[], t, by simp [hc], by simp⟩
      · rcases List.mem_cons.1 hm with e | e
        · exact absurd e.symm hc
        · have : splitAtSize t = none := by
            unfold splitAtSize at h; simp [SIZE, hc] at h
            split at h <;> simp_all
          obtain ⟨b, a, rfl, hb⟩ := ih this e
          refine ⟨c :: b, a, by simp, ?_⟩
          intro hm'; rcases List.mem_cons.1 hm' with e' | e'
          · exact hc e'.symm
          · exact hb e'
  rw [splitAtSize_append hb] at h; cases h

/-- the size suffix handling of `parse`, as a plain function of the parsed body -/
def finish (new : List Letter) (sz : Int) : Except Err (List Letter) :=
  if sz < new.length then .error .valueError
  else .ok (new ++ List.replicate (sz - new.length).toNat Letter.I)

theorem parse_noSize {t : List Char} (h : 's' ∉ t) : parse t = parseOps t [] := by
  unfold parse; rw [splitAtSize_none h]
  cases h' : parseOps t [] <;> simp [h', bind, Except.bind, pure, Except.pure]

theorem toInt_nil : toInt [] = .error .valueError := rfl

theorem parse_size {b a : List Char} (h : 's' ∉ b) :
    parse (b ++ 's' :: a) =
      match toInt a with
      | .error _ => .error .valueError
      | .ok sz =>
        match parseOps b [] with
        | .error e => .error e
        | .ok new => finish new sz := by
  unfold parse; rw [splitAtSize_append h]
  cases a with
  | nil => rfl
  | cons x a =>
    simp only [List.isEmpty_cons]
    cases ht : toInt (x :: a) with
    | error e => rw [toInt_error ht]; rfl
    | ok sz =>
      cases h' : parseOps b [] with
      | error e => simp [h', bind, Except.bind, pure, Except.pure]
      | ok new =>
        simp only [finish]
        split <;> simp_all [bind, Except.bind, pure, Except.pure, throw, throwThe, MonadExceptOf.throw]

/-! ## The grammar, as a big-step relation -/

/-- `Body acc t r`: starting with content `acc` (`new_pauli_string`), the size-free text `t`
is well formed and expands to `r`.  The three constructors are the grammar
`body ::= ε | G body | G '_' D⁺ body` with `D` an ASCII digit `0`..`9` (the STRICT
notation of the repaired source); the side conditions are the rejection clauses:
(a) only gate letters, `_` and ASCII digits occur, in this shape;
(b) `acc.length < p`: the position strictly exceeds the current length;
(c) `pyInt ds = some p`: a number is present after `_` (on ASCII digit strings `pyInt`
    is the plain decimal value, and fails exactly when `ds` is empty or has more than
    4300 digits, see `pyInt_digits`). -/
inductive Body : List Letter → List Char → List Letter → Prop
  | nil (acc : List Letter) : Body acc [] acc
  | dense {acc : List Letter} {g : Char} {t : List Char} {r : List Letter} :
      g ∈ GATES → Body (acc ++ [gateLetter g]) t r → Body acc (g :: t) r
  | pos {acc : List Letter} {g : Char} {ds t : List Char} {r : List Letter} {p : Int} :
      g ∈ GATES → (∀ c ∈ ds, isAsciiDigit c = true) → pyInt ds = some p → (acc.length : Int) < p →
      Body (acc ++ List.replicate (p - acc.length - 1).toNat Letter.I ++ [gateLetter g]) t r →
      Body acc (g :: '_' :: ds ++ t) r

/-- a well-formed body is empty or starts with a gate letter -/
theorem Body.head_gate {acc r : List Letter} {t : List Char} (h : Body acc t r) :
    ∀ c, t.head? = some c → c ∈ GATES := by
  cases h <;> simp_all

theorem Body.head_token {acc r : List Letter} {t : List Char} (h : Body acc t r) :
    ∀ c, t.head? = some c → isToken c = true :=
  fun c hc => isToken_of_gate (h.head_gate c hc)

/-- clause (a): every character of a well-formed body is in the alphabet -/
theorem Body.alphabet {acc r : List Letter} {t : List Char} (h : Body acc t r) :
    ∀ c ∈ t, c ∈ GATES ∨ c = '_' ∨ isAsciiDigit c = true := by
  induction h with
  | nil => simp
  | dense hg _ ih =>
    intro c hc; rcases List.mem_cons.1 hc with rfl | hc
    · exact .inl hg
    · exact ih c hc
  | pos hg hd _ _ _ ih =>
    intro c hc
    simp only [List.cons_append, List.mem_cons, List.mem_append] at hc
    rcases hc with rfl | rfl | hc | hc
    · exact .inl hg
    · exact .inr (.inl rfl)
    · exact .inr (.inr (hd c hc))
    · exact ih c hc

theorem Body.no_s {acc r : List Letter} {t : List Char} (h : Body acc t r) : 's' ∉ t := by
  intro hm
  rcases h.alphabet _ hm with h | h | h
  · exact s_not_gate h
  · cases h
  · revert h; decide

theorem pyInt_some_ne_nil {ds : List Char} {p : Int} (h : pyInt ds = some p) : ds ≠ [] := by
  rintro rfl; rw [pyInt_nil] at h; cases h

/-- soundness: a derivation of the grammar is accepted by `parseOps` with that result -/
theorem parseOps_of_Body {acc r : List Letter} {t : List Char} (h : Body acc t r) :
    parseOps t acc = .ok r := by
  induction h with
  | nil acc => exact parseOps_nil acc
  | @dense acc g t r hg hb ih =>
    rw [parseOps_dense hg, ih]
    intro d t' e
    have := hb.head_gate '_' (by simp [e])
    exact underscore_not_gate this
  | @pos acc g ds t r p hg hd hp hlt hb ih =>
    rw [parseOps_pos_ok hg (pyInt_some_ne_nil hp) (fun c h => asciiDigit_isDigitCh (hd c h))
      hb.head_token (toInt_ok.2 ⟨hd, hp⟩), if_neg (by omega), ih]

/-- completeness: everything `parseOps` accepts is derivable -/
theorem Body_of_parseOps {acc r : List Letter} {t : List Char} (h : parseOps t acc = .ok r) :
    Body acc t r := by
  induction t, acc using parseOps.induct with
  | case1 acc => rw [parseOps_nil] at h; cases h; exact .nil _
  | case2 acc c t hc =>
    rw [parseOps_notGate (by simpa using hc)] at h; cases h
  | case3 acc c hc d t' e he =>
    rw [parseOps_pos (by simpa using hc), he] at h; cases h
  | case4 acc c hc d t' ds rest' hs e he =>
    rw [parseOps_pos (by simpa using hc), hs] at h; simp [posStep, he] at h
  | case5 acc c hc d t' ds rest' hs p hp hlt =>
    rw [parseOps_pos (by simpa using hc), hs] at h; simp [posStep, hp, hlt] at h
  | case6 acc c hc d t' ds rest' hs p hp hlt _ ih =>
    rw [parseOps_pos (by simpa using hc), hs] at h
    simp only [posStep, hp, if_neg hlt] at h
    obtain ⟨h1, h2, _⟩ := scanNumber_ok hs
    rw [h1]
    exact .pos (by simpa using hc) (toInt_ok.1 hp).1 (toInt_ok.1 hp).2 (by omega) (ih h)
  | case7 acc c t hc hne _ ih =>
    have hc' : c ∈ GATES := by simpa using hc
    rw [parseOps_dense hc' (fun d t' e => by subst e; exact hne d t' rfl rfl HEq.rfl)] at h
    exact .dense hc' (ih h)

theorem parseOps_ok_iff {acc r : List Letter} {t : List Char} :
    parseOps t acc = .ok r ↔ Body acc t r :=
  ⟨Body_of_parseOps, parseOps_of_Body⟩

/-- `parseOps` only ever raises `ValueError` -/
theorem parseOps_error {acc : List Letter} {t : List Char} {e : Err}
    (h : parseOps t acc = .error e) : e = .valueError := by
  induction t, acc using parseOps.induct with
  | case1 acc => rw [parseOps_nil] at h; cases h
  | case2 acc c t hc =>
    rw [parseOps_notGate (by simpa using hc)] at h; cases h; rfl
  | case3 acc c hc d t' e' he =>
    rw [parseOps_pos (by simpa using hc), he] at h; cases h; exact scanNumber_error he
  | case4 acc c hc d t' ds rest' hs e' he =>
    rw [parseOps_pos (by simpa using hc), hs] at h; simp [posStep, he] at h
    subst h; exact toInt_error he
  | case5 acc c hc d t' ds rest' hs p hp hlt =>
    rw [parseOps_pos (by simpa using hc), hs] at h; simp [posStep, hp, hlt] at h; exact h.symm
  | case6 acc c hc d t' ds rest' hs p hp hlt _ ih =>
    rw [parseOps_pos (by simpa using hc), hs] at h
    simp only [posStep, hp, if_neg hlt] at h
    exact ih h
  | case7 acc c t hc hne _ ih =>
    have hc' : c ∈ GATES := by simpa using hc
    rw [parseOps_dense hc' (fun d t' e => by subst e; exact hne d t' rfl rfl HEq.rfl)] at h
    exact ih h


/-- The whole notation: a well-formed body, optionally followed by `s` and a
non-empty ASCII-digit number (clause (c)) that is at least the content length
(clause (d)). -/
inductive Accepts : List Char → List Letter → Prop
  | noSize {t : List Char} {w : List Letter} : Body [] t w → Accepts t w
  | size {b sz : List Char} {w : List Letter} {k : Int} :
      Body [] b w → (∀ c ∈ sz, isAsciiDigit c = true) → pyInt sz = some k → (w.length : Int) ≤ k →
      Accepts (b ++ 's' :: sz) (w ++ List.replicate (k - w.length).toNat Letter.I)

theorem parse_of_Accepts {t : List Char} {w : List Letter} (h : Accepts t w) : parse t = .ok w := by
  cases h with
  | noSize hb => rw [parse_noSize hb.no_s, parseOps_of_Body hb]
  | @size b sz w k hb ha hk hle =>
    rw [parse_size hb.no_s, toInt_ok.2 ⟨ha, hk⟩, parseOps_of_Body hb]
    simp only [finish]; rw [if_neg (by omega)]

theorem Accepts_of_parse {t : List Char} {w : List Letter} (h : parse t = .ok w) : Accepts t w := by
  cases hs : splitAtSize t with
  | none =>
    rw [parse_noSize (splitAtSize_eq_none hs)] at h
    exact .noSize (Body_of_parseOps h)
  | some ba =>
    obtain ⟨b, a⟩ := ba
    obtain ⟨rfl, hb⟩ := splitAtSize_some hs
    rw [parse_size hb] at h
    split at h
    · cases h
    · rename_i k hk
      split at h
      · cases h
      · rename_i new hnew
        simp only [finish] at h
        split at h
        · cases h
        · cases h
          exact .size (Body_of_parseOps hnew) (toInt_ok.1 hk).1 (toInt_ok.1 hk).2 (by omega)

theorem parse_ok_iff {t : List Char} {w : List Letter} : parse t = .ok w ↔ Accepts t w :=
  ⟨Accepts_of_parse, parse_of_Accepts⟩

theorem parse_error {t : List Char} {e : Err} (h : parse t = .error e) : e = .valueError := by
  cases hs : splitAtSize t with
  | none =>
    rw [parse_noSize (splitAtSize_eq_none hs)] at h
    exact parseOps_error h
  | some ba =>
    obtain ⟨b, a⟩ := ba
    obtain ⟨rfl, hb⟩ := splitAtSize_some hs
    rw [parse_size hb] at h
    split at h
    · cases h; rfl
    · split at h
      · rename_i e' he; cases h; exact parseOps_error he
      · simp only [finish] at h
        split at h
        · cases h; rfl
        · cases h

/-- a text is either accepted or rejected with `ValueError` -/
theorem parse_ok_or_valueError (t : List Char) :
    (∃ w, parse t = .ok w) ∨ parse t = .error .valueError := by
  cases h : parse t with
  | ok w => exact .inl ⟨w, rfl⟩
  | error e => rw [parse_error h]; exact .inr rfl

/-! ## Prefix compositionality -/

theorem parseOps_append_of_Body {acc0 acc : List Letter} {pre rest : List Char}
    (h : Body acc0 pre acc) (hr : ∀ c, rest.head? = some c → c ∈ GATES) :
    parseOps (pre ++ rest) acc0 = parseOps rest acc := by
  induction h with
  | nil acc => rfl
  | @dense acc g t r hg hb ih =>
    rw [List.cons_append, parseOps_dense hg, ih]
    intro d t' e
    have : (t ++ rest).head? = some '_' := by rw [e]; rfl
    have hh : '_' ∈ GATES := by
      cases t with
      | nil => exact hr _ this
      | cons x t => exact hb.head_gate _ this
    exact underscore_not_gate hh
  | @pos acc g ds t r p hg hd hp hlt hb ih =>
    have htok : ∀ c, (t ++ rest).head? = some c → isToken c = true := by
      intro c hc
      cases t with
      | nil => exact isToken_of_gate (hr c hc)
      | cons x t => exact hb.head_token c hc
    rw [show (g :: '_' :: ds ++ t) ++ rest = g :: '_' :: ds ++ (t ++ rest) by simp,
      parseOps_pos_ok hg (pyInt_some_ne_nil hp) (fun c h => asciiDigit_isDigitCh (hd c h)) htok
        (toInt_ok.2 ⟨hd, hp⟩), if_neg (by omega), ih]

theorem Body.append {a b c : List Letter} {s t : List Char}
    (h1 : Body a s b) (h2 : Body b t c) : Body a (s ++ t) c := by
  apply Body_of_parseOps
  rw [parseOps_append_of_Body h1 h2.head_gate, parseOps_of_Body h2]


/-! ## Printing numbers -/

/-- ASCII decimal digits of `n` (this is `(toString n).toList`, see `natToDigits_eq_toString`) -/
def natToDigits (n : Nat) : List Char := Nat.toDigits 10 n

theorem natToDigits_eq_toString (n : Nat) : natToDigits n = (toString n).toList := by
  simp [natToDigits]

theorem natToDigits_ne_nil (n : Nat) : natToDigits n ≠ [] := Nat.toDigits_ne_nil

theorem natToDigits_ascii {n : Nat} {c : Char} (h : c ∈ natToDigits n) : c.isDigit = true :=
  Nat.isDigit_of_mem_toDigits (by decide) (by decide) h

theorem natToDigits_isDigitCh {n : Nat} : ∀ c ∈ natToDigits n, isDigitCh c = true :=
  fun _ h => ascii_isDigitCh (natToDigits_ascii h)

theorem natToDigits_asciiDigit {n : Nat} : ∀ c ∈ natToDigits n, isAsciiDigit c = true :=
  fun c h => by rw [isAsciiDigit_eq]; exact natToDigits_ascii h

theorem natToDigits_length {n : Nat} (h : n < 10 ^ maxStrDigits) :
    (natToDigits n).length ≤ maxStrDigits :=
  (Nat.length_toDigits_le_iff (by decide) (by decide)).2 h

/-- small numbers are within the digit limit (avoids evaluating `10 ^ 4300`) -/
theorem printable_of_le {n : Nat} (h : n ≤ maxStrDigits) : n < 10 ^ maxStrDigits :=
  Nat.lt_of_lt_of_le (Nat.lt_pow_self (by decide)) (Nat.pow_le_pow_right (by decide) h)

theorem foldl_dv_ascii {ds : List Char} (h : ∀ c ∈ ds, c.isDigit = true) (init : Nat) :
    (ds.map dv).foldl (fun a d => 10 * a + d) init = Nat.ofDigitChars 10 ds init := by
  induction ds generalizing init with
  | nil => rfl
  | cons c t ih =>
    simp only [List.map_cons, List.foldl_cons, Nat.ofDigitChars_cons]
    rw [ih (fun x hx => h x (List.mem_cons_of_mem _ hx)), ascii_dv (h c (by simp))]
    rfl

theorem valOfDigits_natToDigits (n : Nat) : valOfDigits ((natToDigits n).map dv) = n := by
  unfold valOfDigits
  rw [foldl_dv_ascii (fun c h => natToDigits_ascii h)]
  exact Nat.ofDigitChars_ten_toDigits

/-- `int(str(n)) == n` below CPython's digit limit -/
theorem pyInt_natToDigits {n : Nat} (h : n < 10 ^ maxStrDigits) :
    pyInt (natToDigits n) = some (n : Int) := by
  rw [pyInt_digits (natToDigits_ne_nil n) natToDigits_isDigitCh,
    if_neg (by have := natToDigits_length h; omega), valOfDigits_natToDigits]

/-- beyond the digit limit `int()` raises ValueError -/
theorem pyInt_natToDigits_big {n : Nat} (h : 10 ^ maxStrDigits ≤ n) :
    pyInt (natToDigits n) = none := by
  rw [pyInt_digits (natToDigits_ne_nil n) natToDigits_isDigitCh, if_pos]
  have := (Nat.length_toDigits_le_iff (b := 10) (n := n) (k := maxStrDigits) (by decide) (by decide))
  unfold natToDigits
  omega


/-! ## The (mixed) sparse notation: specification side -/

/-- one item of the notation: a bare letter (occupies the next site) or a letter
with an explicit 1-based position -/
inductive Item where
  | dense (l : Letter)
  | at (l : Letter) (p : Nat)
  deriving DecidableEq, Repr

def Item.render : Item → List Char
  | .dense l => [l.toChar]
  | .at l p => l.toChar :: '_' :: natToDigits p

def renderItems : List Item → List Char
  | [] => []
  | i :: is => i.render ++ renderItems is

/-- the text of a notation: the items, then optionally `s` and the total size -/
def renderMixed (items : List Item) (size : Option Nat) : List Char :=
  renderItems items ++ (match size with | none => [] | some k => 's' :: natToDigits k)

/-- intended meaning of the items, continuing the content `acc` -/
def expandFrom (acc : List Letter) : List Item → List Letter
  | [] => acc
  | .dense l :: is => expandFrom (acc ++ [l]) is
  | .at l p :: is => expandFrom (acc ++ List.replicate (p - acc.length - 1) Letter.I ++ [l]) is

/-- pad with identities up to the size -/
def padTo (w : List Letter) : Option Nat → List Letter
  | none => w
  | some k => w ++ List.replicate (k - w.length) Letter.I

def denseMixed (items : List Item) (size : Option Nat) : List Letter :=
  padTo (expandFrom [] items) size

/-- well-formed items when the content so far has length `n`: every explicit
position is strictly beyond the content so far, and is printable within
CPython's `int()` limit of 4300 digits -/
def ItemsWF (n : Nat) : List Item → Prop
  | [] => True
  | .dense _ :: is => ItemsWF (n + 1) is
  | .at _ p :: is => n < p ∧ p < 10 ^ maxStrDigits ∧ ItemsWF p is

def SizeWF (w : List Letter) : Option Nat → Prop
  | none => True
  | some k => w.length ≤ k ∧ k < 10 ^ maxStrDigits

theorem Body_renderItems {acc : List Letter} {items : List Item}
    (h : ItemsWF acc.length items) : Body acc (renderItems items) (expandFrom acc items) := by
  induction items generalizing acc with
  | nil => exact .nil _
  | cons i is ih =>
    cases i with
    | dense l =>
      have := ih (acc := acc ++ [l]) (by simpa [ItemsWF] using h)
      simpa [renderItems, Item.render, expandFrom] using
        Body.dense (toChar_mem_GATES l) (by rw [gateLetter_toChar]; exact this)
    | «at» l p =>
      obtain ⟨h1, h2, h3⟩ := h
      have hlen : (acc ++ List.replicate (p - acc.length - 1) Letter.I ++ [l]).length = p := by
        simp; omega
      have := ih (acc := acc ++ List.replicate (p - acc.length - 1) Letter.I ++ [l])
        (by rw [hlen]; exact h3)
      have hb := Body.pos (acc := acc) (g := l.toChar) (ds := natToDigits p) (p := (p : Int))
        (t := renderItems is) (r := expandFrom acc (.at l p :: is))
        (toChar_mem_GATES l) natToDigits_asciiDigit (pyInt_natToDigits h2) (by omega)
        (by
          rw [gateLetter_toChar, show ((p : Int) - acc.length - 1).toNat = p - acc.length - 1 by omega]
          exact this)
      simpa [renderItems, Item.render] using hb

theorem parse_renderMixed {items : List Item} {size : Option Nat}
    (h : ItemsWF 0 items) (hs : SizeWF (expandFrom [] items) size) :
    parse (renderMixed items size) = .ok (denseMixed items size) := by
  have hb := Body_renderItems (acc := []) (by simpa using h)
  apply parse_of_Accepts
  cases size with
  | none => simpa [renderMixed, denseMixed, padTo] using Accepts.noSize hb
  | some k =>
    obtain ⟨h1, h2⟩ := hs
    have := Accepts.size hb natToDigits_asciiDigit (pyInt_natToDigits h2) (by omega)
    rw [show ((k : Int) - (expandFrom [] items).length).toNat = k - (expandFrom [] items).length by omega] at this
    simpa [renderMixed, denseMixed, padTo] using this


/-! ## Pure sparse notation with a pointwise meaning -/

/-- a pure sparse specification: (letter, 1-based position) pairs -/
abbrev Spec := List (Letter × Nat)

def sparseItems (spec : Spec) : List Item := spec.map (fun x => Item.at x.1 x.2)

/-- text `L_p` for every pair, then optionally `s` and the size -/
def render (spec : Spec) (size : Option Nat) : List Char := renderMixed (sparseItems spec) size

/-- last position (0 for the empty specification) -/
def lastPos (spec : Spec) : Nat := (spec.getLast?.map (·.2)).getD 0

/-- the letter at 0-based site `i`: the letter of the pair with position `i+1`, else `I` -/
def letterAt (spec : Spec) (i : Nat) : Letter :=
  match spec.find? (fun x => x.2 == i + 1) with
  | some x => x.1
  | none => .I

/-- the dense string, defined pointwise; its length is the size if given, else the last position -/
def dense (spec : Spec) (size : Option Nat) : List Letter :=
  (List.range (size.getD (lastPos spec))).map (letterAt spec)

/-- well-formedness: positions ≥ 1 and strictly increasing, size ≥ last position;
all numbers below CPython's 4300-digit `int()` limit -/
structure SpecWF (spec : Spec) (size : Option Nat) : Prop where
  pos : ∀ x ∈ spec, 1 ≤ x.2
  incr : (spec.map (·.2)).Pairwise (· < ·)
  printable : ∀ x ∈ spec, x.2 < 10 ^ maxStrDigits
  size_ge : ∀ k, size = some k → lastPos spec ≤ k ∧ k < 10 ^ maxStrDigits

/-- end position reached from content length `n` -/
def endPos (n : Nat) : Spec → Nat
  | [] => n
  | x :: xs => endPos x.2 xs

theorem lastPos_eq_endPos (spec : Spec) : lastPos spec = endPos 0 spec := by
  have : ∀ (n : Nat) (spec : Spec), (spec.getLast?.map (·.2)).getD n = endPos n spec := by
    intro n spec
    induction spec generalizing n with
    | nil => rfl
    | cons x xs ih =>
      rw [endPos, ← ih, List.getLast?_cons]
      cases xs.getLast? <;> rfl
  exact this 0 spec

theorem le_endPos {n : Nat} {spec : Spec} (h : (spec.map (·.2)).Pairwise (· < ·))
    (hn : ∀ x ∈ spec, n < x.2) : n ≤ endPos n spec ∧ ∀ x ∈ spec, x.2 ≤ endPos n spec := by
  induction spec generalizing n with
  | nil => simp [endPos]
  | cons x xs ih =>
    simp only [List.map_cons, List.pairwise_cons, List.mem_map, forall_exists_index, and_imp,
      forall_apply_eq_imp_iff₂] at h
    obtain ⟨ih1, ih2⟩ := ih (n := x.2) h.2 (fun y hy => h.1 y hy)
    have := hn x (by simp)
    refine ⟨by simp only [endPos]; omega, ?_⟩
    intro y hy
    rcases List.mem_cons.1 hy with rfl | hy
    · exact ih1
    · exact ih2 y hy

theorem getElem?_pad (acc : List Letter) (k : Nat) (l : Letter) (i : Nat) :
    (acc ++ List.replicate k Letter.I ++ [l])[i]? =
      if i < acc.length then acc[i]?
      else if i < acc.length + k then some Letter.I
      else if i = acc.length + k then some l else none := by
  grind

theorem letterAt_cons_ne {x : Letter × Nat} {xs : Spec} {i : Nat} (h : x.2 ≠ i + 1) :
    letterAt (x :: xs) i = letterAt xs i := by
  simp [letterAt, h]

theorem letterAt_cons_eq {x : Letter × Nat} {xs : Spec} {i : Nat} (h : x.2 = i + 1) :
    letterAt (x :: xs) i = x.1 := by
  simp [letterAt, h]

theorem letterAt_none {xs : Spec} {i : Nat} (h : ∀ x ∈ xs, x.2 ≠ i + 1) :
    letterAt xs i = .I := by
  have : xs.find? (fun x => x.2 == i + 1) = none := by
    rw [List.find?_eq_none]; intro x hx; simpa using h x hx
  simp [letterAt, this]

/-- with strictly increasing positions, site `p-1` carries the letter of `(l, p)` -/
theorem letterAt_mem {spec : Spec} {l : Letter} {p : Nat}
    (h : (spec.map (·.2)).Pairwise (· < ·)) (hpos : ∀ x ∈ spec, 1 ≤ x.2)
    (hm : (l, p) ∈ spec) : letterAt spec (p - 1) = l := by
  induction spec with
  | nil => cases hm
  | cons x xs ih =>
    simp only [List.map_cons, List.pairwise_cons, List.mem_map, forall_exists_index, and_imp,
      forall_apply_eq_imp_iff₂] at h
    rcases List.mem_cons.1 hm with rfl | hm
    · have := hpos (l, p) (by simp)
      exact letterAt_cons_eq (by simp at this ⊢; omega)
    · have h1 := h.1 _ hm
      have h2 := hpos _ (List.mem_cons_of_mem _ hm)
      rw [letterAt_cons_ne (by simp at h1 h2 ⊢; omega)]
      exact ih h.2 (fun y hy => hpos y (List.mem_cons_of_mem _ hy)) hm

theorem endPos_cons (n : Nat) (x : Letter × Nat) (xs : Spec) :
    endPos n (x :: xs) = endPos x.2 xs := rfl

/-- pointwise description of the fold `expandFrom` on pure sparse items -/
theorem expandFrom_sparse_getElem? {acc : List Letter} {spec : Spec}
    (h : (spec.map (·.2)).Pairwise (· < ·)) (hn : ∀ x ∈ spec, acc.length < x.2) (i : Nat) :
    (expandFrom acc (sparseItems spec))[i]? =
      if i < acc.length then acc[i]?
      else if i < endPos acc.length spec then some (letterAt spec i) else none := by
  induction spec generalizing acc with
  | nil =>
    show acc[i]? = _
    have : endPos acc.length [] = acc.length := rfl
    grind
  | cons x xs ih =>
    have hp := hn x (by simp)
    simp only [List.map_cons, List.pairwise_cons, List.mem_map, forall_exists_index, and_imp,
      forall_apply_eq_imp_iff₂] at h
    have hlen : (acc ++ List.replicate (x.2 - acc.length - 1) Letter.I ++ [x.1]).length = x.2 := by
      simp; omega
    have ih' := ih (acc := acc ++ List.replicate (x.2 - acc.length - 1) Letter.I ++ [x.1]) h.2
      (by rw [hlen]; exact fun y hy => h.1 y hy)
    rw [hlen, getElem?_pad] at ih'
    have hend := (le_endPos (n := x.2) h.2 (fun y hy => h.1 y hy)).1
    have hA : i + 1 < x.2 → letterAt (x :: xs) i = .I := by
      intro hi; rw [letterAt_cons_ne (by omega), letterAt_none]
      intro y hy; have := h.1 y hy; omega
    have hB : i + 1 = x.2 → letterAt (x :: xs) i = x.1 := fun hi => letterAt_cons_eq hi.symm
    have hC : x.2 ≤ i → letterAt (x :: xs) i = letterAt xs i := fun hi => letterAt_cons_ne (by omega)
    show (expandFrom (acc ++ List.replicate (x.2 - acc.length - 1) Letter.I ++ [x.1])
      (sparseItems xs))[i]? = _
    rw [ih', endPos_cons]
    grind

theorem expandFrom_sparse {spec : Spec} (h : (spec.map (·.2)).Pairwise (· < ·))
    (hpos : ∀ x ∈ spec, 1 ≤ x.2) :
    expandFrom [] (sparseItems spec) = (List.range (lastPos spec)).map (letterAt spec) := by
  apply List.ext_getElem?
  intro i
  rw [expandFrom_sparse_getElem? h (fun x hx => by simpa using Nat.lt_of_lt_of_le Nat.zero_lt_one (hpos x hx)), lastPos_eq_endPos]
  simp only [List.length_nil, Nat.not_lt_zero, if_false, List.getElem?_map]
  split
  · rename_i hi; simp [List.getElem?_range hi]
  · rename_i hi; rw [List.getElem?_eq_none (by simpa using hi)]; rfl

theorem ItemsWF_sparse {n : Nat} {spec : Spec} (h : (spec.map (·.2)).Pairwise (· < ·))
    (hn : ∀ x ∈ spec, n < x.2) (hp : ∀ x ∈ spec, x.2 < 10 ^ maxStrDigits) :
    ItemsWF n (sparseItems spec) := by
  induction spec generalizing n with
  | nil => trivial
  | cons x xs ih =>
    simp only [List.map_cons, List.pairwise_cons, List.mem_map, forall_exists_index, and_imp,
      forall_apply_eq_imp_iff₂] at h
    exact ⟨hn x (by simp), hp x (by simp),
      ih h.2 (fun y hy => h.1 y hy) (fun y hy => hp y (List.mem_cons_of_mem _ hy))⟩

theorem denseMixed_sparse {spec : Spec} {size : Option Nat} (h : SpecWF spec size) :
    denseMixed (sparseItems spec) size = dense spec size := by
  have he := expandFrom_sparse h.incr h.pos
  unfold denseMixed dense
  rw [he]
  cases size with
  | none => rfl
  | some k =>
    obtain ⟨hk, _⟩ := h.size_ge k rfl
    simp only [padTo, List.length_map, List.length_range, Option.getD_some]
    apply List.ext_getElem?
    intro i
    have hall := (le_endPos (n := 0) h.incr (fun x hx => by simpa using Nat.lt_of_lt_of_le Nat.zero_lt_one (h.pos x hx))).2
    rw [← lastPos_eq_endPos] at hall
    simp only [List.getElem?_append, List.length_map, List.length_range, List.getElem?_map,
      List.getElem?_replicate]
    by_cases h1 : i < lastPos spec
    · rw [if_pos h1, List.getElem?_range h1, List.getElem?_range (by omega)]
    · rw [if_neg h1]
      by_cases h2 : i < k
      · rw [if_pos (by omega), List.getElem?_range h2, Option.map_some, letterAt_none]
        intro x hx; have := hall x hx; omega
      · rw [if_neg (by omega), List.getElem?_eq_none (by simpa using h2)]; rfl

theorem parse_render {spec : Spec} {size : Option Nat} (h : SpecWF spec size) :
    parse (render spec size) = .ok (dense spec size) := by
  rw [← denseMixed_sparse h]
  apply parse_renderMixed
  · exact ItemsWF_sparse h.incr (fun x hx => by simpa using Nat.lt_of_lt_of_le Nat.zero_lt_one (h.pos x hx)) h.printable
  · cases size with
    | none => trivial
    | some k =>
      obtain ⟨hk, hk'⟩ := h.size_ge k rfl
      refine ⟨?_, hk'⟩
      rw [expandFrom_sparse h.incr h.pos]; simpa using hk


/-! ## Dense texts (printing then parsing) -/

theorem Body_dense (acc w : List Letter) : Body acc (w.map Letter.toChar) (acc ++ w) := by
  induction w generalizing acc with
  | nil => simpa using Body.nil acc
  | cons l w ih =>
    have := ih (acc ++ [l])
    rw [List.append_assoc] at this
    exact .dense (toChar_mem_GATES l) (by rw [gateLetter_toChar]; exact this)

theorem parse_dense (w : List Letter) : parse (w.map Letter.toChar) = .ok w :=
  parse_of_Accepts (.noSize (by simpa using Body_dense [] w))

theorem ofCode_code (l : Letter) : Letter.ofCode l.code.1 l.code.2 = l := by cases l <;> rfl

theorem decode_encode (w : List Letter) : decode (encode w) = w := by
  induction w with
  | nil => rfl
  | cons l w ih => simp [encode, decode, ih, ofCode_code]

theorem code_ofCode (a b : Bool) : (Letter.ofCode a b).code = (a, b) := by
  cases a <;> cases b <;> rfl

theorem encode_decode : ∀ (b : List Bool), b.length % 2 = 0 → encode (decode b) = b
  | [], _ => rfl
  | [_], h => by simp at h
  | a :: b :: t, h => by
    have := encode_decode t (by simp at h; omega)
    simp [decode, encode, code_ofCode, this]

theorem letters_ofLetters (w : List Letter) : (PS.ofLetters w).letters = w :=
  decode_encode w

/-- a well-formed `PS` is determined by its letters -/
theorem ofLetters_letters {p : PS} (h : p.WF) : PS.ofLetters p.letters = p := by
  obtain ⟨h1, h2, h3⟩ := h
  cases p with
  | mk bits even odd =>
    simp only [PS.ofLetters, PS.letters, PS.ofBits] at *
    rw [encode_decode bits h3, h1, h2]

theorem mkPS_none (t : List Char) :
    mkPS t none = (match parse t with | .ok w => .ok (PS.ofLetters w) | .error e => .error e) := by
  unfold mkPS
  cases parse t <;> rfl

/-! ## Size suffix -/

theorem parse_size_pad_ok {w : List Letter} {sz : List Char} {k : Int}
    (ha : ∀ c ∈ sz, isAsciiDigit c = true)
    (hk : pyInt sz = some k) (h : (w.length : Int) ≤ k) :
    parse (w.map Letter.toChar ++ 's' :: sz) =
      .ok (w ++ List.replicate (k - w.length).toNat Letter.I) :=
  parse_of_Accepts (.size (by simpa using Body_dense [] w) ha hk h)

/-- clause (d) in general: a size smaller than the content is rejected -/
theorem parse_size_too_small {b sz : List Char} {w : List Letter} {k : Int}
    (hb : Body [] b w) (hk : pyInt sz = some k) (h : k < w.length) :
    parse (b ++ 's' :: sz) = .error .valueError := by
  rw [parse_size hb.no_s]
  cases ht : toInt sz with
  | error e => rfl
  | ok k' =>
    have : k' = k := by
      have := (toInt_ok.1 ht).2; rw [hk] at this; cases this; rfl
    subst this
    simp only [parseOps_of_Body hb, finish]; rw [if_pos h]

/-- clause (c) for the size: no number after `s` -/
theorem parse_size_missing {b sz : List Char} (hb : 's' ∉ b) (hk : pyInt sz = none) :
    parse (b ++ 's' :: sz) = .error .valueError := by
  rw [parse_size hb, toInt_of_pyInt_none hk]

/-- strict notation for the size: a character that is not an ASCII digit after `s` -/
theorem parse_size_nonascii {b sz : List Char} (hb : 's' ∉ b)
    (h : ∃ c ∈ sz, isAsciiDigit c = false) :
    parse (b ++ 's' :: sz) = .error .valueError := by
  rw [parse_size hb, toInt_nonascii h]

/-! ## Rejection of a single bad item after a well-formed prefix -/

/-- whatever follows a body error, the whole text is rejected -/
theorem parse_of_body_error {b sz : List Char} {e : Err} (hb : 's' ∉ b)
    (h : parseOps b [] = .error e) : parse (b ++ 's' :: sz) = .error .valueError := by
  rw [parse_size hb]
  split
  · rfl
  · rw [h, parseOps_error h]

/-- clause (a): a character outside the alphabet anywhere in the body -/
theorem parseOps_bad_char {t : List Char} {acc : List Letter} {c : Char}
    (hm : c ∈ t) (hc : c ∉ GATES) (hc' : c ≠ '_') (hc'' : isAsciiDigit c = false) :
    parseOps t acc = .error .valueError := by
  cases h : parseOps t acc with
  | error e => rw [parseOps_error h]
  | ok r =>
    rcases (Body_of_parseOps h).alphabet c hm with h | h | h
    · exact absurd h hc
    · exact absurd h hc'
    · rw [hc''] at h; cases h

/-- clause (b): a position that does not exceed the current content length
(stated for any scanned digit characters; non-ASCII ones are rejected anyway) -/
theorem parseOps_bad_position {pre ds post : List Char} {acc0 acc : List Letter} {g : Char} {p : Int}
    (hpre : Body acc0 pre acc) (hg : g ∈ GATES) (hd : ∀ c ∈ ds, isDigitCh c = true)
    (hp : pyInt ds = some p) (hle : p ≤ acc.length)
    (hpost : ∀ c, post.head? = some c → isToken c = true) :
    parseOps (pre ++ g :: '_' :: ds ++ post) acc0 = .error .valueError := by
  rw [show pre ++ g :: '_' :: ds ++ post = pre ++ (g :: '_' :: ds ++ post) by simp,
    parseOps_append_of_Body hpre (by simp [hg])]
  cases ht : toInt ds with
  | error e =>
    obtain ⟨d, t', rfl⟩ := List.exists_cons_of_ne_nil (pyInt_some_ne_nil hp)
    rw [show g :: '_' :: (d :: t') ++ post = g :: '_' :: d :: (t' ++ post) by simp, parseOps_pos hg,
      show d :: (t' ++ post) = (d :: t') ++ post by simp, scanNumber_append hd hpost]
    simp only [posStep, ht, toInt_error ht]
  | ok p' =>
    have : p' = p := by
      have := (toInt_ok.1 ht).2; rw [hp] at this; cases this; rfl
    subst this
    rw [parseOps_pos_ok hg (pyInt_some_ne_nil hp) hd hpost ht, if_pos (by omega)]

/-- clause (c): `G_` not followed by a digit character (end of text or a token) -/
theorem parseOps_missing_number {pre post : List Char} {acc0 acc : List Letter} {g : Char}
    (hpre : Body acc0 pre acc) (hg : g ∈ GATES)
    (hpost : ∀ c, post.head? = some c → isToken c = true) :
    parseOps (pre ++ g :: '_' :: post) acc0 = .error .valueError := by
  rw [parseOps_append_of_Body hpre (by simp [hg])]
  cases post with
  | nil =>
    rw [parseOps_dense hg (by intro d t' e; cases e), parseOps_notGate underscore_not_gate]
  | cons c t =>
    have hs : scanNumber (c :: t) = .ok ([], c :: t) := by simp [scanNumber, hpost c rfl]
    rw [parseOps_pos hg, hs]
    simp [posStep, toInt_nil]

/-- clause (c), digit limit: a number with more than 4300 digits -/
theorem parseOps_number_too_long {pre ds post : List Char} {acc0 acc : List Letter} {g : Char}
    (hpre : Body acc0 pre acc) (hg : g ∈ GATES) (hd : ∀ c ∈ ds, isDigitCh c = true)
    (hlong : maxStrDigits < ds.length)
    (hpost : ∀ c, post.head? = some c → isToken c = true) :
    parseOps (pre ++ g :: '_' :: ds ++ post) acc0 = .error .valueError := by
  have hne : ds ≠ [] := by rintro rfl; simp at hlong
  have hp : pyInt ds = none := by rw [pyInt_digits hne hd, if_pos hlong]
  obtain ⟨d, t', rfl⟩ := List.exists_cons_of_ne_nil hne
  rw [show pre ++ g :: '_' :: (d :: t') ++ post = pre ++ (g :: '_' :: d :: (t' ++ post)) by simp,
    parseOps_append_of_Body hpre (by simp [hg]), parseOps_pos hg,
    show d :: (t' ++ post) = (d :: t') ++ post by simp, scanNumber_append hd hpost]
  simp [posStep, toInt_of_pyInt_none hp]


/-! ## Termination: a fuel-indexed copy of the main loop -/

/-- `parseOps` with an explicit budget of loop iterations; `none` = budget exhausted -/
def parseOpsFuel : Nat → List Char → List Letter → Option (Except Err (List Letter))
  | _, [], acc => some (.ok acc)
  | 0, _ :: _, _ => none
  | fuel + 1, c :: t, acc =>
    if c ∉ GATES then some (.error .valueError)
    else
      match t with
      | '_' :: d :: t' =>
        match scanNumber (d :: t') with
        | .error e => some (.error e)
        | .ok (ds, rest') =>
          match toInt ds with
          | .error e => some (.error e)
          | .ok position =>
            if position - acc.length - 1 < 0 then some (.error .valueError)
            else parseOpsFuel fuel rest'
              (acc ++ List.replicate (position - acc.length - 1).toNat Letter.I ++ [gateLetter c])
      | _ => parseOpsFuel fuel t (acc ++ [gateLetter c])

/-- a budget of `len(text)` iterations always suffices -/
theorem parseOpsFuel_eq {fuel : Nat} {t : List Char} {acc : List Letter} (h : t.length ≤ fuel) :
    parseOpsFuel fuel t acc = some (parseOps t acc) := by
  induction fuel generalizing t acc with
  | zero =>
    cases t with
    | nil => simp [parseOpsFuel, parseOps_nil]
    | cons c t => simp at h
  | succ fuel ih =>
    cases t with
    | nil => simp [parseOpsFuel, parseOps_nil]
    | cons c t =>
      unfold parseOpsFuel
      by_cases hc : c ∈ GATES
      · rw [if_neg (fun h => h hc)]
        split
        · rename_i d t'
          rw [parseOps_pos hc]
          cases hs : scanNumber (d :: t') with
          | error e => rfl
          | ok r =>
            obtain ⟨ds, rest'⟩ := r
            simp only [posStep]
            cases toInt ds with
            | error e => rfl
            | ok p =>
              simp only []
              split
              · rfl
              · apply ih
                have := scanNumber_length _ _ _ hs
                simp at h this ⊢; omega
        · rename_i hne
          rw [parseOps_dense hc (fun d t' e => hne d t' e)]
          exact ih (by simpa using h)
      · rw [if_pos hc, parseOps_notGate hc]

/-- kernel-evaluable copy of `parse` -/
def parseK (text : List Char) : Except Err (List Letter) :=
  match splitAtSize text with
  | none => (parseOpsFuel text.length text []).getD (.error .other)
  | some (before, after) =>
    if after.isEmpty then .error .valueError
    else match toInt after with
      | .error e => .error e
      | .ok sz =>
        match (parseOpsFuel before.length before []).getD (.error .other) with
        | .error e => .error e
        | .ok new => finish new sz

theorem parse_eq_parseK (t : List Char) : parse t = parseK t := by
  unfold parseK
  cases hs : splitAtSize t with
  | none =>
    rw [parse_noSize (splitAtSize_eq_none hs), parseOpsFuel_eq (Nat.le_refl _)]; rfl
  | some ba =>
    obtain ⟨b, a⟩ := ba
    obtain ⟨rfl, hb⟩ := splitAtSize_some hs
    rw [parse_size hb]
    cases a with
    | nil => rfl
    | cons x a =>
      simp only [List.isEmpty_cons]
      rw [if_neg (by simp)]
      cases ht : toInt (x :: a) with
      | error e => rw [toInt_error ht]
      | ok k =>
        simp only [parseOpsFuel_eq (Nat.le_refl _), Option.getD_some]

deriving instance DecidableEq for Except


/-! ## The decidable well-formedness predicate -/

/-- A text is well formed when it is derivable in the grammar `Accepts`
(= `Body` for the part before the first `s`, then the optional size). -/
def WellFormed (t : List Char) : Prop := ∃ w, Accepts t w

theorem wellFormed_iff_parse {t : List Char} : WellFormed t ↔ ∃ w, parse t = .ok w :=
  ⟨fun ⟨w, h⟩ => ⟨w, parse_of_Accepts h⟩, fun ⟨w, h⟩ => ⟨w, Accepts_of_parse h⟩⟩

theorem wellFormed_iff_parseK {t : List Char} : WellFormed t ↔ (parseK t).toBool = true := by
  rw [wellFormed_iff_parse, parse_eq_parseK]
  cases parseK t <;> simp [Except.toBool]

/-- the grammar is decidable (by running the kernel-evaluable parser) -/
instance : DecidablePred WellFormed := fun _ => decidable_of_iff _ wellFormed_iff_parseK.symm

/-- the part of the text before the first `s` -/
def bodyOf (t : List Char) : List Char := t.takeWhile (· != 's')

/-- the notation's alphabet: gate letters, `_`, `s`, ASCII digits -/
def inAlphabet (c : Char) : Bool := GATES.contains c || c == '_' || c == 's' || isAsciiDigit c

theorem bodyOf_noSize {t : List Char} (h : 's' ∉ t) : bodyOf t = t := by
  unfold bodyOf
  induction t with
  | nil => rfl
  | cons c t ih =>
    have hc : c ≠ 's' := fun e => h (by simp [e])
    have ht : 's' ∉ t := fun e => h (List.mem_cons_of_mem _ e)
    simp [hc]
    simpa using ih ht

theorem bodyOf_append {b a : List Char} (h : 's' ∉ b) : bodyOf (b ++ 's' :: a) = b := by
  unfold bodyOf
  induction b with
  | nil => simp
  | cons c t ih =>
    have hc : c ≠ 's' := fun e => h (by simp [e])
    have ht : 's' ∉ t := fun e => h (List.mem_cons_of_mem _ e)
    simp [hc]
    simpa using ih ht

/-- split a text at its first `s`, if any -/
theorem exists_split_s (t : List Char) :
    's' ∉ t ∨ ∃ b a, t = b ++ 's' :: a ∧ 's' ∉ b := by
  cases hs : splitAtSize t with
  | none => exact .inl (splitAtSize_eq_none hs)
  | some ba => exact .inr ⟨ba.1, ba.2, splitAtSize_some hs⟩

/-- a body error is a `ValueError` of the whole text, with or without a size part -/
theorem parse_error_of_bodyOf {t : List Char} {e : Err} (h : parseOps (bodyOf t) [] = .error e) :
    parse t = .error .valueError := by
  rcases exists_split_s t with hs | ⟨b, a, rfl, hb⟩
  · rw [bodyOf_noSize hs] at h
    rw [parse_noSize hs, h, parseOps_error h]
  · rw [bodyOf_append hb] at h
    exact parse_of_body_error hb h

/-- lift a rejection that is insensitive to what follows (as long as a token
follows) from the body to the whole text -/
theorem parse_error_of_prefix {x post : List Char} (hx : 's' ∉ x)
    (hpost : ∀ c, post.head? = some c → isToken c = true)
    (h : ∀ post', (∀ c, post'.head? = some c → isToken c = true) →
      parseOps (x ++ post') [] = .error .valueError) :
    parse (x ++ post) = .error .valueError := by
  apply parse_error_of_bodyOf (e := .valueError)
  rcases exists_split_s post with hs | ⟨b, a, rfl, hb⟩
  · rw [bodyOf_noSize (by simp [hx, hs])]
    exact h post hpost
  · rw [show x ++ (b ++ 's' :: a) = (x ++ b) ++ 's' :: a by simp, bodyOf_append (by simp [hx, hb])]
    apply h
    intro c hc
    cases b with
    | nil => cases hc
    | cons y b => exact hpost c (by simpa using hc)

theorem digit_ne_s {c : Char} (h : isDigitCh c = true) : c ≠ 's' := by
  rintro rfl; revert h; decide


theorem inAlphabet_false {c : Char} (h : inAlphabet c = false) :
    c ∉ GATES ∧ c ≠ '_' ∧ c ≠ 's' ∧ isAsciiDigit c = false := by
  simp only [inAlphabet, Bool.or_eq_false_iff, List.contains_eq_mem, decide_eq_false_iff_not,
    beq_eq_false_iff_ne] at h
  exact ⟨h.1.1.1, h.1.1.2, h.1.2, h.2⟩

theorem bodyOf_prefix {x post : List Char} (hx : 's' ∉ x) :
    bodyOf (x ++ post) = x ++ bodyOf post := by
  unfold bodyOf
  induction x with
  | nil => rfl
  | cons c t ih =>
    have hc : c ≠ 's' := fun e => hx (by simp [e])
    have ht : 's' ∉ t := fun e => hx (List.mem_cons_of_mem _ e)
    simp [hc]
    simpa using ih ht

/-- a character outside the alphabet anywhere in the text (body or size part) -/
theorem parse_bad_char {t : List Char} {c : Char} (hm : c ∈ t) (hc : inAlphabet c = false) :
    parse t = .error .valueError := by
  obtain ⟨h1, h2, h3, h4⟩ := inAlphabet_false hc
  rcases exists_split_s t with hs | ⟨b, a, rfl, hb⟩
  · rw [parse_noSize hs]; exact parseOps_bad_char hm h1 h2 h4
  · simp only [List.mem_append, List.mem_cons] at hm
    rcases hm with hm | hm | hm
    · exact parse_of_body_error hb (parseOps_bad_char (acc := []) hm h1 h2 h4)
    · exact absurd hm h3
    · exact parse_size_nonascii hb ⟨c, hm, h4⟩

end C17
end PauLie
