/-
Translator tie for two application-layer tables regenerated from the live package on every
run (harness/gen_tables_apps.py): `construct_universal_set(N, k)` for all 0 ≤ k ≤ N ≤ 8
(including the guard: `ValueError` outside 1 ≤ k < N) and `get_optimal_edges_su_2_n(ng)` for
ng < 400 (where the float `floor(0.706 * pairs)` must agree with the exact rational floor of
the model).
-/
import PauLieVerif.Generated.Tables
import PauLieVerif.Model.Compiler
import PauLieVerif.Model.Optimise

namespace PauLie
namespace Tie

def letterCode : Letter → Nat | .I => 0 | .X => 1 | .Y => 2 | .Z => 3

def usetRow (nk : Nat × Nat) : Option (List (List Nat)) :=
  match Compiler.universalSet nk.1 nk.2 with
  | .ok l => some (l.map (fun p => p.letters.map letterCode))
  | .error _ => none

/-- **universal-set tie**: the model's `construct_universal_set` equals the Python one on the box -/
theorem uset_tie : Generated.usetTable.all (fun r => usetRow r.1 == r.2) = true := by
  decide +kernel

/-- **target-number tie**: exact rational floor = the Python float floor for every ng < 400 -/
theorem edges_tie : Generated.edgesTable.all (fun r => Optimise.optimalEdges r.1 == r.2) = true := by
  decide +kernel

end Tie
end PauLie
