/-
Helper lemmas for C07 (and reused by C05/C06): the model functions
`getSingle`, `leftAMinimal`, `chooseUForB`, `universalSet` of
`Model/Compiler.lean` in closed form, for ALL `N`, `k`.  Core Lean only; the
substrate facts come from the proved properties C17 (parser round trip) and C18
(`set_substring`).
-/
import PauLieVerif.Model.Compiler
import PauLieVerif.Properties.C17
import PauLieVerif.Properties.C18

namespace PauLie
namespace C07

open Compiler

/-! ### Letter-level closed forms -/

/-- the text with letter `l` at site `i` of `n` sites, identity elsewhere -/
def single (n i : Nat) (l : Letter) : List Letter := (List.replicate n Letter.I).set i l

/-- identity text -/
abbrev ident (n : Nat) : List Letter := List.replicate n Letter.I

/-- the left generators `X_i, Z_i` (`i < k`) and `Z…Z`, as texts on `k` sites -/
def leftLetters (k : Nat) : List (List Letter) :=
  ((List.range k).map (fun i => [single k i .X, single k i .Z])).flatten ++ [List.replicate k Letter.Z]

/-- the universal set as texts: left generators padded with identities, then
`X_0 ⊗ X_j`, then `X_0 ⊗ Z_j` (`j < N - k`) -/
def uLetters (N k : Nat) : List (List Letter) :=
  (leftLetters k).map (fun a => a ++ ident (N - k))
  ++ (((List.range (N - k)).map (fun j => single (N - k) j .X)
        ++ (List.range (N - k)).map (fun j => single (N - k) j .Z)).map (fun b => single k 0 .X ++ b))

@[simp] theorem length_single (n i : Nat) (l : Letter) : (single n i l).length = n := by
  simp [single]

/-! ### Model functions in closed form -/

theorem identity_eq (n : Nat) : PS.identity (n : Int) = .ok (PS.ofLetters (ident n)) := by
  have h : ¬ ((n : Int) < 0) := by omega
  simp only [PS.identity, h, if_false, Int.toNat_natCast]
  congr 1
  simp [PS.ofLetters, C18.encode_replicate_I]

theorem mapM_ok {α β : Type} (f : α → Except Err β) (g : α → β) :
    ∀ (l : List α), (∀ a ∈ l, f a = .ok (g a)) → l.mapM f = .ok (l.map g)
  | [], _ => rfl
  | a :: t, h => by
    have h1 := h a (List.mem_cons_self ..)
    have h2 := mapM_ok f g t (fun b hb => h b (List.mem_cons_of_mem _ hb))
    rw [List.mapM_cons, h1, h2]
    rfl

theorem getSingle_eq (n i : Nat) (l : Letter) (h : i < n) :
    getSingle (n : Int) (i : Int) l = .ok (PS.ofLetters (single n i l)) := by
  unfold getSingle getIdentity
  rw [identity_eq]
  have hs := C18.C18_set_general (PS.ofLetters (ident n)) (PS.ofLetters [l]) (i : Int)
    (C18.wf_ofLetters _) (C18.wf_ofLetters _)
  simp only [C18.letters_ofLetters, C18.len_ofLetters, List.length_cons, List.length_nil] at hs
  have hw : C18.writeFrom (ident n) (i : Int) [l] 0 1 = (single n i l, none) := by
    have hidx : PS.pyIndex? (ident n) ((i : Int) + ((0 : Nat) : Int)) = some i := by
      have h1 : (0 : Int) ≤ (i : Int) + ((0 : Nat) : Int) := by omega
      have h2 : (i : Int) + ((0 : Nat) : Int) < ((ident n).length : Int) := by simp; omega
      simp only [PS.pyIndex?, h1, h2, and_self, if_true]
      simp
    simp only [C18.writeFrom, hidx]
    simp [single]
  rw [hw] at hs
  show (match PS.setSubstring (PS.ofLetters (ident n)) (i : Int) (PS.ofLetters [l]) with
    | (p', none) => pure p'
    | (_, some e) => throw e) = _
  rw [hs]
  rfl

theorem getSingle_err (n : Nat) (i : Nat) (l : Letter) (h : n ≤ i) :
    getSingle (n : Int) (i : Int) l = .error .indexError := by
  unfold getSingle getIdentity
  rw [identity_eq]
  have hs := C18.C18_set_general (PS.ofLetters (ident n)) (PS.ofLetters [l]) (i : Int)
    (C18.wf_ofLetters _) (C18.wf_ofLetters _)
  simp only [C18.letters_ofLetters, C18.len_ofLetters, List.length_cons, List.length_nil] at hs
  have hw : C18.writeFrom (ident n) (i : Int) [l] 0 1 = (ident n, some .indexError) := by
    have hidx : PS.pyIndex? (ident n) ((i : Int) + ((0 : Nat) : Int)) = none := by
      have h2 : ¬ ((i : Int) + ((0 : Nat) : Int) < ((ident n).length : Int)) := by simp; omega
      have h3 : ¬ ((i : Int) + ((0 : Nat) : Int) < 0) := by omega
      simp only [PS.pyIndex?, h2, h3, and_false, false_and, if_false]
    simp only [C18.writeFrom, hidx]
  rw [hw] at hs
  show (match PS.setSubstring (PS.ofLetters (ident n)) (i : Int) (PS.ofLetters [l]) with
    | (p', none) => pure p'
    | (_, some e) => throw e) = _
  rw [hs]
  rfl

theorem zAll_eq (k : Nat) : zAll (k : Int) = .ok (PS.ofLetters (List.replicate k Letter.Z)) := by
  unfold zAll
  have h := (C17.C17_roundtrip_ps (List.replicate k Letter.Z)).1
  simpa [Letter.toChar] using h

theorem leftAMinimal_eq (k : Nat) :
    leftAMinimal (k : Int) = .ok ((leftLetters k).map PS.ofLetters) := by
  unfold leftAMinimal
  simp only [Int.toNat_natCast]
  have hm : (List.range k).mapM (fun (i : Nat) => (do
        let x ← getSingle (k : Int) (i : Int) .X
        let z ← getSingle (k : Int) (i : Int) .Z
        return [x, z] : Except Err (List PS)))
      = .ok ((List.range k).map (fun i => [PS.ofLetters (single k i .X), PS.ofLetters (single k i .Z)])) := by
    apply mapM_ok
    intro i hi
    have hi' : i < k := List.mem_range.mp hi
    rw [getSingle_eq k i .X hi', getSingle_eq k i .Z hi']
    rfl
  rw [hm, zAll_eq]
  show Except.ok _ = Except.ok _
  congr 1
  simp only [leftLetters, List.map_append, List.map_flatten, List.map_map, List.map_cons, List.map_nil]
  rfl

theorem chooseUForB_eq (k : Nat) (h : 0 < k) :
    chooseUForB (k : Int) = .ok (PS.ofLetters (single k 0 .X)) := by
  unfold chooseUForB
  exact getSingle_eq k 0 .X h

theorem tensor_ofLetters (a b : List Letter) :
    PS.tensor (PS.ofLetters a) (PS.ofLetters b) = PS.ofLetters (a ++ b) := by
  simp [PS.tensor, PS.ofLetters, PS.ofBits, C18.encode_append]

/-- **closed form of `construct_universal_set`** for all admissible `(N, k)` -/
theorem universalSet_ok (N k : Nat) (h1 : 1 ≤ k) (h2 : k < N) :
    universalSet (N : Int) (k : Int) = .ok ((uLetters N k).map PS.ofLetters) := by
  unfold universalSet
  have hg : ¬ ¬ ((1 : Int) ≤ (k : Int) ∧ (k : Int) < (N : Int)) := by omega
  have hnr : (N : Int) - (k : Int) = ((N - k : Nat) : Int) := by omega
  simp only [hg, if_false, hnr, Int.toNat_natCast]
  rw [leftAMinimal_eq, chooseUForB_eq k (by omega)]
  have hx : (List.range (N - k)).mapM (fun (j : Nat) => getSingle ((N - k : Nat) : Int) (j : Int) .X)
      = .ok ((List.range (N - k)).map (fun j => PS.ofLetters (single (N - k) j .X))) := by
    apply mapM_ok
    intro j hj
    exact getSingle_eq _ _ _ (List.mem_range.mp hj)
  have hz : (List.range (N - k)).mapM (fun (j : Nat) => getSingle ((N - k : Nat) : Int) (j : Int) .Z)
      = .ok ((List.range (N - k)).map (fun j => PS.ofLetters (single (N - k) j .Z))) := by
    apply mapM_ok
    intro j hj
    exact getSingle_eq _ _ _ (List.mem_range.mp hj)
  unfold getIdentity
  rw [identity_eq]
  show (do
      let bx ← (List.range (N - k)).mapM (fun (j : Nat) => getSingle ((N - k : Nat) : Int) (j : Int) .X)
      let bz ← (List.range (N - k)).mapM (fun (j : Nat) => getSingle ((N - k : Nat) : Int) (j : Int) .Z)
      let idR ← (Except.ok (PS.ofLetters (ident (N - k))) : Except Err PS)
      pure (((leftLetters k).map PS.ofLetters).map (fun a => PS.tensor a idR)
        ++ (bx ++ bz).map (fun b => PS.tensor (PS.ofLetters (single k 0 .X)) b)) : Except Err (List PS)) = _
  rw [hx, hz]
  show Except.ok _ = Except.ok _
  congr 1
  simp only [uLetters, List.map_append, List.map_map]
  congr 1
  · apply List.map_congr_left
    intro a _
    simp [Function.comp, tensor_ofLetters]
  · congr 1 <;>
    · apply List.map_congr_left
      intro a _
      simp [Function.comp, tensor_ofLetters]

/-- the guard of `construct_universal_set` -/
theorem universalSet_guard (N k : Int) (h : ¬ (1 ≤ k ∧ k < N)) :
    universalSet N k = .error .valueError := by
  unfold universalSet
  simp only [h, not_false_eq_true, if_true]
  rfl

end C07
end PauLie
