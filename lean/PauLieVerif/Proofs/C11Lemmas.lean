/-
Helpers for property C11: the two builders run in `ExceptT Exc (StateM σ)`
(σ = `MF` for the plain factory, `RF` = factory + frame log for the recording
one).  This file provides
  * `run_bind`: how a bind runs (the state survives an exception, as the Python
    object keeps its mutations),
  * `Pure x`: the action never changes the state, with closure lemmas for
    `pure`, `throw`, `>>=`, `if`, `for … in` over a list,
  * `pure_check`: `check_dependency_one_leg` is such an action,
  * `Sim x y`: the recording action `x` does on the factory part of the state
    exactly what the plain action `y` does and has the same outcome (it may write
    frames and model-only marks), with closure lemmas.
Core Lean only (no Mathlib needed).
-/
import PauLieVerif.Model.Classify

namespace PauLie
namespace C11L
open Morph MorphRec

abbrev M (σ : Type) := ExceptT Exc (StateM σ)

theorem run_bind {σ α β} (x : M σ α) (f : α → M σ β) (s : σ) :
    (x >>= f).run.run s =
      match x.run.run s with
      | (.ok a, s') => (f a).run.run s'
      | (.error e, s') => (.error e, s') := by
  show (ExceptT.bind x f).run.run s = _
  unfold ExceptT.bind ExceptT.bindCont
  simp only [ExceptT.run, ExceptT.mk, bind, StateT.bind, StateT.run]
  rcases h : x s with ⟨r, s'⟩
  cases r <;> simp [pure, StateT.pure] <;> rfl

/-! ### actions that never change the state -/

/-- `x` never changes the state, whatever its outcome -/
def Pure {σ α} (x : M σ α) : Prop := ∀ s, (x.run.run s).2 = s

theorem pure_pure {σ α} (a : α) : Pure (pure a : M σ α) := fun _ => rfl
theorem pure_throw {σ α} (e : Exc) : Pure (throw e : M σ α) := fun _ => rfl

theorem pure_bind {σ α β} {x : M σ α} {f : α → M σ β} (hx : Pure x) (hf : ∀ a, Pure (f a)) :
    Pure (x >>= f) := by
  intro s
  rw [run_bind]
  have h := hx s
  rcases hxs : x.run.run s with ⟨r, s'⟩
  rw [hxs] at h
  cases r with
  | ok a => simp only; rw [hf a s']; exact h
  | error e => exact h

theorem pure_forIn {σ β γ} (l : List β) (f : β → γ → M σ (ForInStep γ)) (hf : ∀ a b, Pure (f a b)) :
    ∀ init, Pure (forIn l init f) := by
  induction l with
  | nil => intro init; simp only [List.forIn_nil]; exact pure_pure _
  | cons a t ih =>
    intro init
    simp only [List.forIn_cons]
    apply pure_bind (hf a init)
    intro r
    cases r with
    | done b => exact pure_pure _
    | yield b => exact ih b

theorem pure_ite {σ α} {c : Prop} [Decidable c] {x y : M σ α} (hx : Pure x) (hy : Pure y) :
    Pure (if c then x else y) := by split <;> assumption

theorem pure_liftErr {α} (x : Except Err α) : Pure (liftErr x) := by
  cases x <;> intro s <;> rfl

theorem pure_get : Pure (get : MFM MF) := fun _ => rfl

theorem pure_getLegs : Pure getLegs := by
  unfold getLegs; exact pure_bind pure_get (fun _ => pure_pure _)

/-- `check_dependency_one_leg` only reads the factory -/
theorem pure_check (l : PS) : Pure (checkDependencyOneLeg l) := by
  unfold checkDependencyOneLeg getOneVertices getVertices isEmptyLegs
  repeat' (first
    | exact pure_getLegs
    | exact pure_pure _
    | exact pure_throw _
    | exact pure_liftErr _
    | apply pure_forIn
    | apply pure_ite
    | apply pure_bind
    | split
    | intro _)

/-! ### the recording monad: lift and frames -/

theorem liftMF_run {α} (x : MFM α) (s : RF) :
    (liftMF x).run.run s = ((x.run.run s.mf).1, { s with mf := (x.run.run s.mf).2 }) := rfl

theorem frame_run (t : String) (g : Option (List PS)) (i : Bool) (s : RF) :
    (frame t g i).run.run s = (.ok (), { s with frames := ⟨t, g, i⟩ :: s.frames }) := rfl

theorem mark_run (t : String) (s : RF) :
    (mark t).run.run s = (.ok (), { s with via := t :: s.via }) := rfl

/-- the recording action `x` simulates the plain action `y`: same outcome, same
effect on the factory part of the state -/
def Sim {α} (x : RM α) (y : MFM α) : Prop :=
  ∀ s, (x.run.run s).1 = (y.run.run s.mf).1 ∧ (x.run.run s).2.mf = (y.run.run s.mf).2

theorem sim_lift {α} (y : MFM α) : Sim (liftMF y) y := fun _ => ⟨rfl, rfl⟩

theorem sim_monadLift {α} (y : MFM α) : Sim (monadLift y : RM α) y := sim_lift y

theorem sim_pure {α} (a : α) : Sim (pure a) (pure a) := fun _ => ⟨rfl, rfl⟩
theorem sim_throw {α} (e : Exc) : Sim (throw e : RM α) (throw e) := fun _ => ⟨rfl, rfl⟩

theorem sim_bind {α β} {x : RM α} {y : MFM α} {f : α → RM β} {g : α → MFM β}
    (hxy : Sim x y) (hfg : ∀ a, Sim (f a) (g a)) : Sim (x >>= f) (y >>= g) := by
  intro s
  rw [run_bind, run_bind]
  obtain ⟨h1, h2⟩ := hxy s
  rcases hx : x.run.run s with ⟨r, s'⟩
  rcases hy : y.run.run s.mf with ⟨r', m'⟩
  rw [hx] at h1 h2; rw [hy] at h1 h2
  simp only at h1 h2
  subst h1
  cases r with
  | ok a => simp only; rw [← h2]; exact hfg a s'
  | error e => exact ⟨rfl, h2⟩

/-- a frame (or any action that only touches the log) in front of `x` changes nothing for the factory -/
theorem sim_frame_left {α} (t : String) (g : Option (List PS)) (i : Bool) {x : RM α} {y : MFM α}
    (h : Sim x y) : Sim (frame t g i >>= fun _ => x) y := by
  intro s
  rw [run_bind, frame_run]
  exact h _

theorem sim_ite {α} {c : Prop} [Decidable c] {x x' : RM α} {y y' : MFM α} (h : Sim x y) (h' : Sim x' y') :
    Sim (if c then x else x') (if c then y else y') := by split <;> assumption

theorem sim_forIn {β γ} (l : List β) {f : β → γ → RM (ForInStep γ)} {g : β → γ → MFM (ForInStep γ)}
    (h : ∀ a b, Sim (f a b) (g a b)) : ∀ init, Sim (forIn l init f) (forIn l init g) := by
  induction l with
  | nil => intro init; simp only [List.forIn_nil]; exact sim_pure _
  | cons a t ih =>
    intro init
    simp only [List.forIn_cons]
    apply sim_bind (h a init)
    intro r
    cases r with
    | done b => exact sim_pure _
    | yield b => exact ih b

theorem sim_stepFrame_left {α} (st : String) (l : PS) {x : RM α} {y : MFM α}
    (h : Sim x y) : Sim (stepFrame st l >>= fun _ => x) y := sim_frame_left _ _ _ h

theorem sim_mark_left {α} (t : String) {x : RM α} {y : MFM α}
    (h : Sim x y) : Sim (mark t >>= fun _ => x) y := by
  intro s
  rw [run_bind, mark_run]
  exact h _

theorem sim_collFrame_left {α} (st : String) (l : PS) {x : RM α} {y : MFM α}
    (h : Sim x y) : Sim (collFrame st l >>= fun _ => x) y := by
  intro s
  unfold collFrame
  rw [run_bind, run_bind]
  have hp : (((monadLift (getVertices : MFM (List PS)) : RM (List PS))).run.run s) = (.ok s.mf.legs.flatten, s) := rfl
  rw [hp]
  simp only
  rw [frame_run]
  exact h _

/-- `lit` of the recording factory = `lit` of the plain factory + a "Dependent" frame -/
theorem sim_litR (l v : PS) : Sim (litR l v) (lit l v) := by
  unfold litR lit
  apply sim_bind (sim_monadLift _); intro l'
  apply sim_bind (sim_monadLift _); intro b
  apply sim_ite
  · apply sim_frame_left
    apply sim_bind (sim_throw _); intro _
    exact sim_pure _
  · exact sim_pure _

theorem sim_litF (st : String) (l v : PS) : Sim (litF st l v) (lit l v) := by
  unfold litF
  intro s
  have h := sim_bind (sim_litR l v) (f := fun l' => stepFrame st l' >>= fun _ => pure l') (g := fun l' => pure l')
    (fun a => sim_stepFrame_left _ _ (sim_pure a)) s
  simpa using h

theorem sim_litSeqF (st : String) (l : PS) (vs : List PS) : Sim (litSeqF st l vs) (litSeq l vs) := by
  unfold litSeqF litSeq
  induction vs generalizing l with
  | nil => exact sim_pure _
  | cons v t ih =>
    simp only [List.foldlM_cons]
    exact sim_bind (sim_litF _ _ _) (fun a => ih a)

/-- `_lit_center` -/
theorem sim_litCenter : Sim litCenterR litCenter := by
  unfold litCenterR litCenter
  apply sim_bind (sim_monadLift _); intro lighting
  apply sim_stepFrame_left
  apply sim_bind (sim_monadLift _); intro center
  apply sim_bind (sim_monadLift _); intro cl
  apply sim_ite
  · apply sim_bind (sim_monadLift _); intro ll
    apply sim_bind (sim_monadLift _); intro lls
    apply sim_bind (sim_monadLift _); intro fl
    apply sim_bind
    · apply sim_forIn
      intro a b
      apply sim_bind (sim_monadLift _); intro x
      apply sim_bind (sim_litF _ _ _); intro y
      exact sim_pure _
    · intro _
      exact sim_monadLift _
  · exact sim_monadLift _

/-! ### whole steps

`sim_auto1` peels one constructor of the two `do` blocks (the recording step is
the plain step with `liftM` around factory actions and frames / marks in front
of continuations); join points (`have __do_jp := …`) are extracted and proved
once, so that the proofs do not blow up. -/

macro "sim_auto1" : tactic => `(tactic| first
  | with_reducible exact sim_pure _
  | with_reducible exact sim_throw _
  | with_reducible exact sim_monadLift _
  | with_reducible exact sim_litF _ _ _
  | with_reducible exact sim_litSeqF _ _ _
  | with_reducible apply sim_stepFrame_left
  | with_reducible apply sim_collFrame_left
  | with_reducible apply sim_mark_left
  | with_reducible apply sim_frame_left
  | with_reducible apply sim_ite
  | with_reducible apply sim_forIn
  | with_reducible apply sim_bind
  | intro _
  | split)

macro "sl" : tactic => `(tactic| (apply sim_bind (sim_monadLift _); intro _))
macro "sf" : tactic => `(tactic| apply sim_stepFrame_left)
macro "scf" : tactic => `(tactic| apply sim_collFrame_left)
macro "sp" : tactic => `(tactic| exact sim_pure _)

theorem sim_ite_bind {α β} {c : Prop} [Decidable c] {x x' : RM β} {y y' : MFM α} {k : α → MFM β}
    (h : Sim x (y >>= k)) (h' : Sim x' (y' >>= k)) :
    Sim (if c then x else x') ((if c then y else y') >>= k) := by
  split <;> assumption


theorem sim_twoCenter (l : PS) : Sim (appendToTwoCenterR l) (appendToTwoCenter l) := by
  unfold appendToTwoCenterR appendToTwoCenter
  repeat' sim_auto1

/-- Step I -/
theorem sim_stepI : Sim appendThreeGraphR appendThreeGraph := by
  unfold appendThreeGraphR appendThreeGraph
  repeat' (first | with_reducible exact sim_twoCenter _ | sim_auto1)

/-- Step II -/
theorem sim_stepII : Sim appendOneLegsInDifferentStateR appendOneLegsInDifferentState := by
  unfold appendOneLegsInDifferentStateR appendOneLegsInDifferentState
  sl; sl; sf
  split
  · sf; sl; sf
    apply sim_bind
    · apply sim_forIn
      intro a b
      apply sim_ite
      · sl; sl
        apply sim_ite
        · apply sim_frame_left
          apply sim_bind (sim_throw _); intro _
          sp
        · sp
      · sp
    intro _
    apply sim_bind
    · apply sim_forIn
      intro a b
      apply sim_ite
      · sl; sl; sp
      · sp
    intro _
    scf; sl
    unfold truncateLongLeg
    rw [bind_assoc]
    sl
    apply sim_ite_bind
    · rw [bind_assoc]
      apply sim_bind
      · apply sim_forIn
        intro a b
        sl; sp
      intro _
      sf
      rw [bind_assoc]
      sl
      apply sim_bind (sim_monadLift _); intro _
      scf
      apply sim_mark_left
      exact sim_throw _
    · rw [LawfulMonad.pure_bind]; dsimp only
      scf
      apply sim_mark_left
      exact sim_throw _
  · dsimp only; exact sim_monadLift _

/-- Step III -/
theorem sim_stepIII : Sim litOnlyLongLegR litOnlyLongLeg := by
  unfold litOnlyLongLegR litOnlyLongLeg
  sl; sf; sl; sl; sl; sl
  extract_lets jR jR' j j'
  have hj : ∀ r l, Sim (jR r l) (j r l) := by
    intro r l
    simp -zeta only [jR, j]
    sl; sl
    extract_lets kR k
    have hk : ∀ r t, Sim (kR r t) (k r t) := by
      intro r t
      simp -zeta only [kR, k]
      apply sim_ite
      · sl; exact sim_pure _
      · sl
        extract_lets p4R p3R p4 p3
        have h4 : ∀ r l, Sim (p4R r l) (p4 r l) := by
          intro r l
          simp -zeta only [p4R, p4]
          repeat' sim_auto1
        have h3 : ∀ r l, Sim (p3R r l) (p3 r l) := by
          intro r l
          simp -zeta only [p3R, p3]
          sl
          extract_lets li q5R q5
          have h5 : ∀ r, Sim (q5R r) (q5 r) := by
            intro r
            simp -zeta only [q5R, q5]
            repeat' (first | exact h4 () _ | sim_auto1)
          clear_value q5R q5
          repeat' (first | exact h4 () _ | exact h5 _ | sim_auto1)
        clear_value p4R p3R p4 p3
        repeat' (first | exact h3 () _ | sim_auto1)
    clear_value kR k
    repeat' (first | exact hk () _ | sim_auto1)
  have hj' : ∀ r l, Sim (jR' r l) (j' r l) := by
    intro r l
    simp only [jR', j']
    apply sim_bind (sim_litF _ _ _); intro _
    exact hj () _
  clear_value jR jR' j j'
  repeat' (first | exact hj () _ | exact hj' () _ | sim_auto1)

/-- Step V of the plain factory with the attachment to the centre abstracted:
`attach lighting center` -/
def stepVwith (attach : PS → PS → MFM Unit) : MFM Unit := do
  let mut lighting ← getLighting
  let omega ← getOneVertex
  let center ← getCenter
  let lits ← getLitsOf lighting [center, omega]
  let isCenterLit := mem lits center
  let longLeg ← getLongLeg
  let lits ← getLitsOf lighting longLeg
  if isCenterLit && lits.length == 0 then
    attach lighting center
    throw .appended
  let litIndexes := getLitIndexes longLeg lits
  if litIndexes.length == 1 && litIndexes.contains 0 then
    let mut canConnectToEnd := true
    if (← isTwoLeg) && longLeg.length > 3 then canConnectToEnd := false
    if canConnectToEnd then
      lighting ← litSeq lighting longLeg
      append lighting (← idx longLeg (-1))
      throw .appended
    let twoLegs ← getTwoLegs
    let (v0, v1) ← idx twoLegs 0
    let l0 ← idx longLeg 0
    lighting ← litSeq lighting [center, v0, omega, center, l0, v1, v0, center]
    let l1 ← idx longLeg 1
    lighting ← litSeq lighting [l1, l0]
    let l2 ← idx longLeg 2
    lighting ← litSeq lighting [l2, l1]
    let l3 ← idx longLeg 3
    lighting ← litSeq lighting [l3, l2, omega, center, l0, l1, v0, v1, center, l0, v0, center]
    attach lighting center
    throw .appended
  setLighting lighting

theorem stepV_plain : stepVwith (fun l _ => appendToCenter l) = appendLongLegFirstAndCenterLit := rfl

/-- Step VII with the attachment abstracted -/
def stepVIIwith (attach : PS → PS → MFM Unit) : MFM Unit := do
  let mut lighting ← getLighting
  let omega ← getOneVertex
  let center ← getCenter
  let longLeg ← getLongLeg
  let firstV ← idx longLeg 0
  for i in rangeDown ((longLeg.length : Int) - 1) 0 do
    lighting ← lit lighting (← idx longLeg i)
  lighting ← litSeq lighting [center, omega, firstV, center]
  attach lighting center
  throw .appended

theorem stepVII_plain : stepVIIwith (fun l _ => appendToCenter l) = appendLongLegLastAndFirstLit := rfl

theorem markIf_run (l : PS) (s : RF) :
    ((markIfPlainRefuses l).run.run s).1 = .ok () ∧ ((markIfPlainRefuses l).run.run s).2.mf = s.mf := by
  unfold markIfPlainRefuses
  rw [run_bind]
  have hg : ((getThe RF : RM RF).run.run s) = (.ok s, s) := rfl
  rw [hg]
  simp only
  split
  · exact ⟨rfl, rfl⟩
  · exact ⟨rfl, rfl⟩

theorem sim_markIf_left {α} (l : PS) {x : RM α} {y : MFM α}
    (h : Sim x y) : Sim (markIfPlainRefuses l >>= fun _ => x) y := by
  intro s
  rw [run_bind]
  obtain ⟨h1, h2⟩ := markIf_run l s
  rcases hm : (markIfPlainRefuses l).run.run s with ⟨r, s'⟩
  rw [hm] at h1 h2
  simp only at h1 h2
  subst h1
  simp only
  rw [← h2]
  exact h s'

theorem sim_stepVII : Sim appendLongLegLastAndFirstLitR (stepVIIwith (fun l c => append l c)) := by
  unfold appendLongLegLastAndFirstLitR stepVIIwith
  repeat' (first | with_reducible apply sim_markIf_left | sim_auto1)

theorem sim_stepV : Sim appendLongLegFirstAndCenterLitR (stepVwith (fun l c => append l c)) := by
  unfold appendLongLegFirstAndCenterLitR stepVwith
  repeat' (first | with_reducible apply sim_markIf_left | sim_auto1)

end C11L
end PauLie
