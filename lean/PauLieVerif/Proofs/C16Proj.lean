/-
Helper lemmas for property C16, part 1 (clause (c)): the algebra of the orthogonal
projector onto the span of a finite family of pairwise trace-orthogonal matrices with
non-zero norms.  Pure linear algebra over `Matrix ι ι ℂ`; nothing about Pauli strings.

  `ip A B = tr(Aᴴ B)`            (Hilbert–Schmidt inner product)
  `proj Qs M = Σ_{Q ∈ Qs} (ip Q M / ip Q Q) • Q`
-/
import Mathlib.LinearAlgebra.Matrix.Trace
import Mathlib.LinearAlgebra.Matrix.ConjTranspose
import Mathlib.Data.Complex.Basic
import Mathlib.Data.Complex.BigOperators
import Mathlib.Tactic.Abel

namespace PauLie
namespace C16

open Matrix Complex

variable {ι : Type} [Fintype ι]

/-- Hilbert–Schmidt (trace) inner product `tr(Aᴴ B)`. -/
def ip (A B : Matrix ι ι ℂ) : ℂ := (Aᴴ * B).trace

theorem ip_add_right (A B C : Matrix ι ι ℂ) : ip A (B + C) = ip A B + ip A C := by
  simp [ip, Matrix.mul_add, Matrix.trace_add]

theorem ip_sub_right (A B C : Matrix ι ι ℂ) : ip A (B - C) = ip A B - ip A C := by
  simp [ip, Matrix.mul_sub, Matrix.trace_sub]

theorem ip_smul_right (A B : Matrix ι ι ℂ) (c : ℂ) : ip A (c • B) = c * ip A B := by
  simp [ip, Matrix.trace_smul]

@[simp] theorem ip_zero_right (A : Matrix ι ι ℂ) : ip A 0 = 0 := by simp [ip]

/-- conjugate symmetry -/
theorem ip_conj_symm (A B : Matrix ι ι ℂ) : ip B A = star (ip A B) := by
  unfold ip
  rw [← Matrix.trace_conjTranspose, Matrix.conjTranspose_mul, Matrix.conjTranspose_conjTranspose]

theorem ip_eq_zero_symm {A B : Matrix ι ι ℂ} (h : ip A B = 0) : ip B A = 0 := by
  rw [ip_conj_symm, h, star_zero]

/-- `tr(Aᴴ A) = Σ |a_ij|²` -/
theorem ip_self (A : Matrix ι ι ℂ) : ip A A = Complex.ofReal (∑ i : ι, ∑ j : ι, Complex.normSq (A j i)) := by
  simp only [ip, Matrix.trace, Matrix.diag_apply, Matrix.mul_apply, Matrix.conjTranspose_apply]
  simp only [Complex.ofReal_sum]
  apply Finset.sum_congr rfl; intro i _
  apply Finset.sum_congr rfl; intro j _
  rw [Complex.star_def, Complex.normSq_eq_conj_mul_self]

theorem ip_self_im (A : Matrix ι ι ℂ) : (ip A A).im = 0 := by
  rw [ip_self]; exact Complex.ofReal_im _

theorem ip_self_re_nonneg (A : Matrix ι ι ℂ) : 0 ≤ (ip A A).re := by
  rw [ip_self, Complex.ofReal_re]
  exact Finset.sum_nonneg (fun i _ => Finset.sum_nonneg (fun j _ => Complex.normSq_nonneg _))

/-- the norm is real: it vanishes unless its real part is positive -/
theorem ip_self_eq_zero_of_re_le (A : Matrix ι ι ℂ) (h : ¬ 0 < (ip A A).re) : ip A A = 0 := by
  apply Complex.ext
  · exact le_antisymm (not_lt.mp h) (ip_self_re_nonneg A)
  · exact ip_self_im A

theorem ip_self_eq_zero_iff (A : Matrix ι ι ℂ) : ip A A = 0 ↔ A = 0 := by
  constructor
  · intro h
    rw [ip_self] at h
    have h' : (∑ i : ι, ∑ j : ι, Complex.normSq (A j i)) = 0 := Complex.ofReal_eq_zero.mp h
    rw [Finset.sum_eq_zero_iff_of_nonneg
      (fun i _ => Finset.sum_nonneg (fun j _ => Complex.normSq_nonneg _))] at h'
    ext j i
    have h2 := h' i (Finset.mem_univ i)
    rw [Finset.sum_eq_zero_iff_of_nonneg (fun j _ => Complex.normSq_nonneg _)] at h2
    exact Complex.normSq_eq_zero.mp (h2 j (Finset.mem_univ j))
  · rintro rfl; simp [ip]

theorem ip_list_sum (A : Matrix ι ι ℂ) (l : List (Matrix ι ι ℂ)) :
    ip A l.sum = (l.map (ip A)).sum := by
  induction l with
  | nil => simp
  | cons B l ih => simp [ip_add_right, ih]

/-- the projection onto the span of the family -/
noncomputable def proj (Qs : List (Matrix ι ι ℂ)) (M : Matrix ι ι ℂ) : Matrix ι ι ℂ :=
  (Qs.map (fun Q => (ip Q M / ip Q Q) • Q)).sum

@[simp] theorem proj_nil (M : Matrix ι ι ℂ) : proj [] M = 0 := rfl

theorem proj_cons (Q : Matrix ι ι ℂ) (Qs : List (Matrix ι ι ℂ)) (M : Matrix ι ι ℂ) :
    proj (Q :: Qs) M = (ip Q M / ip Q Q) • Q + proj Qs M := by
  simp [proj]

/-- pairwise trace-orthogonal, every member of non-zero norm -/
def Orthogonal (Qs : List (Matrix ι ι ℂ)) : Prop :=
  Qs.Pairwise (fun A B => ip A B = 0) ∧ ∀ Q ∈ Qs, ip Q Q ≠ 0

theorem Orthogonal.tail {Q : Matrix ι ι ℂ} {Qs : List (Matrix ι ι ℂ)} (h : Orthogonal (Q :: Qs)) :
    Orthogonal Qs :=
  ⟨(List.pairwise_cons.mp h.1).2, fun A hA => h.2 A (List.mem_cons_of_mem _ hA)⟩

/-- **linear** -/
theorem proj_add (Qs : List (Matrix ι ι ℂ)) (M N : Matrix ι ι ℂ) :
    proj Qs (M + N) = proj Qs M + proj Qs N := by
  induction Qs with
  | nil => simp
  | cons Q Qs ih =>
    rw [proj_cons, proj_cons, proj_cons, ih, ip_add_right, add_div, add_smul]
    abel

theorem proj_smul (Qs : List (Matrix ι ι ℂ)) (c : ℂ) (M : Matrix ι ι ℂ) :
    proj Qs (c • M) = c • proj Qs M := by
  induction Qs with
  | nil => simp
  | cons Q Qs ih =>
    rw [proj_cons, proj_cons, ih, ip_smul_right, smul_add, smul_smul, mul_div_assoc]

theorem proj_sub (Qs : List (Matrix ι ι ℂ)) (M N : Matrix ι ι ℂ) :
    proj Qs (M - N) = proj Qs M - proj Qs N := by
  have h := proj_add Qs M ((-1 : ℂ) • N)
  rw [proj_smul] at h
  simpa [sub_eq_add_neg] using h

/-- a matrix orthogonal to the whole family is orthogonal to every projection -/
theorem ip_proj_of_orth (A : Matrix ι ι ℂ) (Qs : List (Matrix ι ι ℂ)) (M : Matrix ι ι ℂ)
    (h : ∀ Q ∈ Qs, ip A Q = 0) : ip A (proj Qs M) = 0 := by
  induction Qs with
  | nil => simp
  | cons Q Qs ih =>
    rw [proj_cons, ip_add_right, ip_smul_right, h Q (List.mem_cons_self ..),
      ih (fun B hB => h B (List.mem_cons_of_mem _ hB))]
    simp

/-- the projection has the same inner products with the family as the operator itself -/
theorem ip_proj {Qs : List (Matrix ι ι ℂ)} (hO : Orthogonal Qs) (M : Matrix ι ι ℂ) :
    ∀ Q ∈ Qs, ip Q (proj Qs M) = ip Q M := by
  induction Qs with
  | nil => intro Q hQ; cases hQ
  | cons A Qs ih =>
    intro Q hQ
    have hA : ∀ B ∈ Qs, ip A B = 0 := (List.pairwise_cons.mp hO.1).1
    rw [proj_cons, ip_add_right, ip_smul_right]
    rcases List.mem_cons.mp hQ with rfl | hQ'
    · rw [ip_proj_of_orth Q Qs M hA, add_zero, div_mul_cancel₀ _ (hO.2 Q (List.mem_cons_self ..))]
    · rw [ip_eq_zero_symm (hA Q hQ'), mul_zero, zero_add, ih hO.tail Q hQ']

/-- **the residual is orthogonal to every member** -/
theorem ip_residual {Qs : List (Matrix ι ι ℂ)} (hO : Orthogonal Qs) (M : Matrix ι ι ℂ) :
    ∀ Q ∈ Qs, ip Q (M - proj Qs M) = 0 := by
  intro Q hQ
  rw [ip_sub_right, ip_proj hO M Q hQ, sub_self]

/-- **idempotent** -/
theorem proj_idem {Qs : List (Matrix ι ι ℂ)} (hO : Orthogonal Qs) (M : Matrix ι ι ℂ) :
    proj Qs (proj Qs M) = proj Qs M := by
  unfold proj
  congr 1
  apply List.map_congr_left
  intro Q hQ
  have := ip_proj hO M Q hQ
  unfold proj at this
  rw [this]

/-- the projection of something orthogonal to the family vanishes -/
theorem proj_of_orth (Qs : List (Matrix ι ι ℂ)) (M : Matrix ι ι ℂ) (h : ∀ Q ∈ Qs, ip Q M = 0) :
    proj Qs M = 0 := by
  induction Qs with
  | nil => rfl
  | cons Q Qs ih =>
    rw [proj_cons, h Q (List.mem_cons_self ..), ih (fun B hB => h B (List.mem_cons_of_mem _ hB))]
    simp

/-- **fixes every member** -/
theorem proj_fix {Qs : List (Matrix ι ι ℂ)} (hO : Orthogonal Qs) :
    ∀ Q ∈ Qs, proj Qs Q = Q := by
  induction Qs with
  | nil => intro Q hQ; cases hQ
  | cons A Qs ih =>
    intro Q hQ
    have hA : ∀ B ∈ Qs, ip A B = 0 := (List.pairwise_cons.mp hO.1).1
    rw [proj_cons]
    rcases List.mem_cons.mp hQ with rfl | hQ'
    · rw [div_self (hO.2 Q (List.mem_cons_self ..)), one_smul,
        proj_of_orth Qs Q (fun B hB => ip_eq_zero_symm (hA B hB)), add_zero]
    · rw [hA Q hQ', zero_div, zero_smul, zero_add, ih hO.tail Q hQ']

/-- the projection is a linear combination of the family: whatever commutes with every
member commutes with every projection -/
theorem proj_commute (Qs : List (Matrix ι ι ℂ)) (M A : Matrix ι ι ℂ)
    (h : ∀ Q ∈ Qs, Q * A = A * Q) : proj Qs M * A = A * proj Qs M := by
  induction Qs with
  | nil => simp
  | cons Q Qs ih =>
    rw [proj_cons, Matrix.add_mul, Matrix.mul_add, Matrix.smul_mul, Matrix.mul_smul,
      h Q (List.mem_cons_self ..), ih (fun B hB => h B (List.mem_cons_of_mem _ hB))]

/-- the projector is self-adjoint for the trace inner product (so it is the *orthogonal*
projector onto the span) -/
theorem ip_proj_left {Qs : List (Matrix ι ι ℂ)} (hO : Orthogonal Qs) (M N : Matrix ι ι ℂ) :
    ip (proj Qs M) (proj Qs N) = ip (proj Qs M) N := by
  have h : ip (proj Qs M) (N - proj Qs N) = 0 := by
    apply ip_eq_zero_symm
    exact ip_proj_of_orth _ Qs M (fun Q hQ => ip_eq_zero_symm (ip_residual hO N Q hQ))
  rw [ip_sub_right, sub_eq_zero] at h
  exact h.symm

theorem proj_selfAdjoint {Qs : List (Matrix ι ι ℂ)} (hO : Orthogonal Qs) (M N : Matrix ι ι ℂ) :
    ip (proj Qs M) N = ip M (proj Qs N) := by
  rw [← ip_proj_left hO, ip_conj_symm (proj Qs N) (proj Qs M), ip_proj_left hO, ← ip_conj_symm]

end C16
end PauLie
