/-
C13, list level: the iterative butterflies of `matrix_decomposition` /
`matrix_decomposition_diagonal` (`whileLoop`, `forChunks`) compute the recursive
per-qubit Pauli transform.  No algebra here: both sides are built from the same
`GR` operations, the work is in the loop structure (`h *= 4`, stride `4h`).
-/
import PauLieVerif.Model.Decomp
import Mathlib.Tactic.Ring
import Mathlib.Tactic.Linarith

namespace PauLie
namespace Decomp

/-! ### chunk-wise description of one pass (specification side) -/

/-- the effect of one `for` iteration of `matrix_decomposition` on its chunk `b[i:i+4h]` -/
def butterfly4 (h : ℕ) (c : List GR) : List GR :=
  let x := c.take h
  let y := (c.drop h).take h
  let z := (c.drop (2 * h)).take h
  let w := (c.drop (3 * h)).take h
  List.zipWith (fun a b => GR.half (a + b)) x y
    ++ List.zipWith (fun a b => GR.half (a - b)) x y
    ++ List.zipWith (fun a b => GR.half (a + b)) z w
    ++ List.zipWith (fun a b => GR.half (GR.mulI (a - b))) z w

/-- the effect of one `for` iteration of `matrix_decomposition_diagonal` on `b[i:i+2h]` -/
def butterfly2 (h : ℕ) (c : List GR) : List GR :=
  let x := c.take h
  let y := (c.drop h).take h
  List.zipWith (fun a b => GR.half (a + b)) x y
    ++ List.zipWith (fun a b => GR.half (a - b)) x y

/-- chunk-wise map: `f` on each of the first `k` consecutive chunks of width `w` -/
def forChunks (w : ℕ) (f : List GR → List GR) : ℕ → List GR → List GR
  | 0, b => b
  | k + 1, b => f (b.take w) ++ forChunks w f k (b.drop w)

/-! ### the in-place `for` loop is the chunk-wise map -/

theorem slice_mid (pre mid post : List GR) (lo hi : ℕ) (h1 : pre.length = lo)
    (h2 : lo + mid.length = hi) : slice (pre ++ (mid ++ post)) lo hi = mid := by
  unfold slice
  rw [List.drop_left' h1, List.take_left' (by omega)]

theorem setSlice_mid (pre mid post v : List GR) (lo : ℕ) (h1 : pre.length = lo)
    (h2 : v.length = mid.length) :
    setSlice (pre ++ (mid ++ post)) lo v = pre ++ (v ++ post) := by
  unfold setSlice
  rw [List.take_left' h1]
  have e : pre ++ (mid ++ post) = (pre ++ mid) ++ post := (List.append_assoc _ _ _).symm
  have l : (pre ++ mid).length = lo + v.length := by rw [List.length_append, h1, h2]
  rw [e, List.drop_left' l]

theorem body4_chunk (h i : ℕ) (pre x y z w post : List GR) (hp : pre.length = i)
    (hx : x.length = h) (hy : y.length = h) (hz : z.length = h) (hw : w.length = h) :
    body4 h i (pre ++ (x ++ (y ++ (z ++ w))) ++ post)
      = pre ++ (vAddHalf x y ++ (vSubHalf x y ++ (vAddHalf z w ++ vISubHalf z w))) ++ post := by
  have l1 : (vAddHalf x y).length = h := by simp [vAddHalf, hx, hy]
  have l2 : (vSubHalf x y).length = h := by simp [vSubHalf, hx, hy]
  have l3 : (vAddHalf z w).length = h := by simp [vAddHalf, hz, hw]
  have l4 : (vISubHalf z w).length = h := by simp [vISubHalf, hz, hw]
  unfold body4
  -- reads of x and y
  have rx : slice (pre ++ (x ++ (y ++ (z ++ w))) ++ post) i (i + h) = x := by
    have : pre ++ (x ++ (y ++ (z ++ w))) ++ post = pre ++ (x ++ (y ++ (z ++ (w ++ post)))) := by
      simp only [List.append_assoc]
    rw [this]; exact slice_mid _ _ _ _ _ hp (by omega)
  have ry : slice (pre ++ (x ++ (y ++ (z ++ w))) ++ post) (i + h) (i + 2 * h) = y := by
    have : pre ++ (x ++ (y ++ (z ++ w))) ++ post = (pre ++ x) ++ (y ++ (z ++ (w ++ post))) := by
      simp only [List.append_assoc]
    rw [this]; exact slice_mid _ _ _ _ _ (by simp [hp, hx]) (by omega)
  simp only [rx, ry]
  -- first pair of assignments
  have s1 : setSlice (pre ++ (x ++ (y ++ (z ++ w))) ++ post) i (vAddHalf x y)
      = pre ++ (vAddHalf x y ++ (y ++ (z ++ (w ++ post)))) := by
    have : pre ++ (x ++ (y ++ (z ++ w))) ++ post = pre ++ (x ++ (y ++ (z ++ (w ++ post)))) := by
      simp only [List.append_assoc]
    rw [this]; exact setSlice_mid _ _ _ _ _ hp (by omega)
  have s2 : setSlice (pre ++ (vAddHalf x y ++ (y ++ (z ++ (w ++ post))))) (i + h) (vSubHalf x y)
      = (pre ++ vAddHalf x y) ++ (vSubHalf x y ++ (z ++ (w ++ post))) := by
    have : pre ++ (vAddHalf x y ++ (y ++ (z ++ (w ++ post))))
        = (pre ++ vAddHalf x y) ++ (y ++ (z ++ (w ++ post))) := by simp only [List.append_assoc]
    rw [this]; exact setSlice_mid _ _ _ _ _ (by simp [hp, l1]) (by omega)
  simp only [s1, s2]
  -- reads of z and w
  have rz : slice ((pre ++ vAddHalf x y) ++ (vSubHalf x y ++ (z ++ (w ++ post)))) (i + 2 * h) (i + 3 * h) = z := by
    have : (pre ++ vAddHalf x y) ++ (vSubHalf x y ++ (z ++ (w ++ post)))
        = (pre ++ vAddHalf x y ++ vSubHalf x y) ++ (z ++ (w ++ post)) := by simp only [List.append_assoc]
    rw [this]; exact slice_mid _ _ _ _ _ (by simp [hp, l1, l2]; omega) (by omega)
  have rw' : slice ((pre ++ vAddHalf x y) ++ (vSubHalf x y ++ (z ++ (w ++ post)))) (i + 3 * h) (i + 4 * h) = w := by
    have : (pre ++ vAddHalf x y) ++ (vSubHalf x y ++ (z ++ (w ++ post)))
        = (pre ++ vAddHalf x y ++ vSubHalf x y ++ z) ++ (w ++ post) := by simp only [List.append_assoc]
    rw [this]; exact slice_mid _ _ _ _ _ (by simp [hp, l1, l2, hz]; omega) (by omega)
  simp only [rz, rw']
  have s3 : setSlice ((pre ++ vAddHalf x y) ++ (vSubHalf x y ++ (z ++ (w ++ post)))) (i + 2 * h) (vAddHalf z w)
      = (pre ++ vAddHalf x y ++ vSubHalf x y) ++ (vAddHalf z w ++ (w ++ post)) := by
    have : (pre ++ vAddHalf x y) ++ (vSubHalf x y ++ (z ++ (w ++ post)))
        = (pre ++ vAddHalf x y ++ vSubHalf x y) ++ (z ++ (w ++ post)) := by simp only [List.append_assoc]
    rw [this]; exact setSlice_mid _ _ _ _ _ (by simp [hp, l1, l2]; omega) (by omega)
  have s4 : setSlice ((pre ++ vAddHalf x y ++ vSubHalf x y) ++ (vAddHalf z w ++ (w ++ post))) (i + 3 * h) (vISubHalf z w)
      = (pre ++ vAddHalf x y ++ vSubHalf x y ++ vAddHalf z w) ++ (vISubHalf z w ++ post) := by
    have : (pre ++ vAddHalf x y ++ vSubHalf x y) ++ (vAddHalf z w ++ (w ++ post))
        = (pre ++ vAddHalf x y ++ vSubHalf x y ++ vAddHalf z w) ++ (w ++ post) := by simp only [List.append_assoc]
    rw [this]; exact setSlice_mid _ _ _ _ _ (by simp [hp, l1, l2, l3]; omega) (by omega)
  rw [s3, s4]
  simp only [List.append_assoc]

theorem body2_chunk (h i : ℕ) (pre x y post : List GR) (hp : pre.length = i)
    (hx : x.length = h) (hy : y.length = h) :
    body2 h i (pre ++ (x ++ y) ++ post) = pre ++ (vAddHalf x y ++ vSubHalf x y) ++ post := by
  have l1 : (vAddHalf x y).length = h := by simp [vAddHalf, hx, hy]
  unfold body2
  have rx : slice (pre ++ (x ++ y) ++ post) i (i + h) = x := by
    have : pre ++ (x ++ y) ++ post = pre ++ (x ++ (y ++ post)) := by simp only [List.append_assoc]
    rw [this]; exact slice_mid _ _ _ _ _ hp (by omega)
  have ry : slice (pre ++ (x ++ y) ++ post) (i + h) (i + 2 * h) = y := by
    have : pre ++ (x ++ y) ++ post = (pre ++ x) ++ (y ++ post) := by simp only [List.append_assoc]
    rw [this]; exact slice_mid _ _ _ _ _ (by simp [hp, hx]) (by omega)
  simp only [rx, ry]
  have s1 : setSlice (pre ++ (x ++ y) ++ post) i (vAddHalf x y) = pre ++ (vAddHalf x y ++ (y ++ post)) := by
    have : pre ++ (x ++ y) ++ post = pre ++ (x ++ (y ++ post)) := by simp only [List.append_assoc]
    rw [this]; exact setSlice_mid _ _ _ _ _ hp (by omega)
  have s2 : setSlice (pre ++ (vAddHalf x y ++ (y ++ post))) (i + h) (vSubHalf x y)
      = (pre ++ vAddHalf x y) ++ (vSubHalf x y ++ post) := by
    have : pre ++ (vAddHalf x y ++ (y ++ post)) = (pre ++ vAddHalf x y) ++ (y ++ post) := by
      simp only [List.append_assoc]
    rw [this]; exact setSlice_mid _ _ _ _ _ (by simp [hp, l1]) (by simp [vSubHalf, hx, hy])
  rw [s1, s2]
  simp only [List.append_assoc]

/-! ### `for i in range(0, len, w)` over a list made of whole chunks -/

theorem rangeLen_add (w r : ℕ) (hw : 0 < w) : rangeLen (w + r) w = rangeLen r w + 1 := by
  unfold rangeLen
  have : w + r + w - 1 = (r + w - 1) + w := by omega
  rw [this, Nat.add_div_right _ hw]

theorem rangeLen_zero (w : ℕ) (hw : 0 < w) : rangeLen 0 w = 0 := by
  unfold rangeLen
  apply Nat.div_eq_of_lt
  omega

/-- the `for` loop as a function of the array -/
def passG (w : ℕ) (f : List GR → List GR) (b : List GR) : List GR :=
  forChunks w f (rangeLen b.length w) b


theorem passG_nil (w : ℕ) (f : List GR → List GR) (hw : 0 < w) : passG w f [] = [] := by
  simp [passG, rangeLen_zero w hw, forChunks]

/-- one iteration of the `for` loop: the first chunk is transformed, the loop goes on
with the rest -/
theorem passG_peel (w : ℕ) (f : List GR → List GR) (hw : 0 < w) (c rest : List GR)
    (hc : c.length = w) : passG w f (c ++ rest) = f c ++ passG w f rest := by
  unfold passG
  rw [List.length_append, hc, rangeLen_add w _ hw, forChunks]
  rw [List.take_left' hc, List.drop_left' hc]

theorem passG_single (w : ℕ) (f : List GR → List GR) (hw : 0 < w) (c : List GR)
    (hc : c.length = w) : passG w f c = f c := by
  have := passG_peel w f hw c [] hc
  simpa [passG_nil w f hw] using this

theorem passG_append (w : ℕ) (f : List GR → List GR) (hw : 0 < w) (m : ℕ) :
    ∀ (a b : List GR), a.length = m * w → passG w f (a ++ b) = passG w f a ++ passG w f b := by
  induction m with
  | zero =>
    intro a b ha
    have : a = [] := List.length_eq_zero_iff.mp (by simpa using ha)
    subst this
    simp [passG_nil w f hw]
  | succ m ih =>
    intro a b ha
    have hsplit : a = a.take w ++ a.drop w := (List.take_append_drop w a).symm
    have hlt : w ≤ a.length := by rw [ha]; nlinarith
    have h1 : (a.take w).length = w := by simp [hlt]
    have h2 : (a.drop w).length = m * w := by
      rw [List.length_drop, ha]; rw [Nat.succ_mul]; omega
    rw [hsplit, List.append_assoc, passG_peel w f hw _ _ h1, passG_peel w f hw _ _ h1,
      ih _ _ h2, List.append_assoc]

theorem passG_length (w : ℕ) (f : List GR → List GR) (hw : 0 < w)
    (hf : ∀ c, c.length = w → (f c).length = w) (m : ℕ) :
    ∀ a : List GR, a.length = m * w → (passG w f a).length = a.length := by
  induction m with
  | zero =>
    intro a ha
    have : a = [] := List.length_eq_zero_iff.mp (by simpa using ha)
    subst this
    simp [passG_nil w f hw]
  | succ m ih =>
    intro a ha
    have hsplit : a = a.take w ++ a.drop w := (List.take_append_drop w a).symm
    have hlt : w ≤ a.length := by rw [ha]; nlinarith
    have h1 : (a.take w).length = w := by simp [hlt]
    have h2 : (a.drop w).length = m * w := by
      rw [List.length_drop, ha]; rw [Nat.succ_mul]; omega
    conv_lhs => rw [hsplit]
    rw [passG_peel w f hw _ _ h1, List.length_append, hf _ h1, ih _ h2, h2, ha, Nat.succ_mul]
    omega

/-! ### the butterflies on explicit blocks -/

theorem butterfly4_blocks (h : ℕ) (x y z w : List GR)
    (hx : x.length = h) (hy : y.length = h) (hz : z.length = h) (hw : w.length = h) :
    butterfly4 h (x ++ (y ++ (z ++ w)))
      = List.zipWith (fun a b => GR.half (a + b)) x y
        ++ List.zipWith (fun a b => GR.half (a - b)) x y
        ++ List.zipWith (fun a b => GR.half (a + b)) z w
        ++ List.zipWith (fun a b => GR.half (GR.mulI (a - b))) z w := by
  have d1 : (x ++ (y ++ (z ++ w))).drop h = y ++ (z ++ w) := List.drop_left' hx
  have d2 : (x ++ (y ++ (z ++ w))).drop (2 * h) = z ++ w := by
    have : 2 * h = h + h := by ring
    rw [this, ← List.drop_drop, d1, List.drop_left' hy]
  have d3 : (x ++ (y ++ (z ++ w))).drop (3 * h) = w := by
    have : 3 * h = 2 * h + h := by ring
    rw [this, ← List.drop_drop, d2, List.drop_left' hz]
  unfold butterfly4
  simp only [d1, d2, d3, List.take_left' hx, List.take_left' hy, List.take_left' hz]
  rw [List.take_of_length_le (by omega)]

theorem butterfly2_blocks (h : ℕ) (x y : List GR) (hx : x.length = h) (hy : y.length = h) :
    butterfly2 h (x ++ y)
      = List.zipWith (fun a b => GR.half (a + b)) x y
        ++ List.zipWith (fun a b => GR.half (a - b)) x y := by
  unfold butterfly2
  simp only [List.drop_left' hx, List.take_left' hx]
  rw [List.take_of_length_le (by omega)]

theorem butterfly4_length (h : ℕ) (c : List GR) (hc : c.length = 4 * h) :
    (butterfly4 h c).length = 4 * h := by
  unfold butterfly4
  simp only [List.length_append, List.length_zipWith, List.length_take, List.length_drop]
  omega

theorem butterfly2_length (h : ℕ) (c : List GR) (hc : c.length = 2 * h) :
    (butterfly2 h c).length = 2 * h := by
  unfold butterfly2
  simp only [List.length_append, List.length_zipWith, List.length_take, List.length_drop]
  omega

/-- a list of length `4h` is four blocks of length `h` -/
theorem split4 {α : Type} (h : ℕ) (b : List α) (hb : b.length = 4 * h) :
    ∃ x y z w : List α, b = x ++ (y ++ (z ++ w)) ∧
      x.length = h ∧ y.length = h ∧ z.length = h ∧ w.length = h := by
  refine ⟨b.take h, (b.drop h).take h, (b.drop (2 * h)).take h, b.drop (3 * h), ?_, ?_, ?_, ?_, ?_⟩
  · have e3 : b.drop (2 * h) = (b.drop (2 * h)).take h ++ b.drop (3 * h) := by
      have : 3 * h = 2 * h + h := by ring
      rw [this, ← List.drop_drop, List.take_append_drop]
    have e2 : b.drop h = (b.drop h).take h ++ b.drop (2 * h) := by
      have : 2 * h = h + h := by ring
      rw [this, ← List.drop_drop, List.take_append_drop]
    rw [← e3, ← e2, List.take_append_drop]
  all_goals simp only [List.length_take, List.length_drop]; omega

theorem split2 {α : Type} (h : ℕ) (b : List α) (hb : b.length = 2 * h) :
    ∃ x y : List α, b = x ++ y ∧ x.length = h ∧ y.length = h := by
  refine ⟨b.take h, b.drop h, (List.take_append_drop h b).symm, ?_, ?_⟩
  all_goals simp only [List.length_take, List.length_drop]; omega

/-! ### the in-place pass is the chunk-wise pass on whole chunks -/

theorem rangeLen_mul (m w : ℕ) (hw : 0 < w) : rangeLen (m * w) w = m := by
  induction m with
  | zero => simpa using rangeLen_zero w hw
  | succ m ih =>
    have : (m + 1) * w = w + m * w := by ring
    rw [this, rangeLen_add w _ hw, ih]

theorem forRange_chunks (w : ℕ) (body : ℕ → List GR → List GR) (f : List GR → List GR)
    (hbody : ∀ i pre c post, pre.length = i → c.length = w →
      body i (pre ++ c ++ post) = pre ++ f c ++ post)
    (hf : ∀ c, c.length = w → (f c).length = w) :
    ∀ (k i : ℕ) (pre rest : List GR), pre.length = i → rest.length = k * w →
      forRange w body k i (pre ++ rest) = pre ++ forChunks w f k rest := by
  intro k
  induction k with
  | zero => intro i pre rest _ _; rfl
  | succ k ih =>
    intro i pre rest hp hr
    have hsplit : rest = rest.take w ++ rest.drop w := (List.take_append_drop w rest).symm
    have hlt : w ≤ rest.length := by rw [hr]; nlinarith
    have h1 : (rest.take w).length = w := by simp [hlt]
    have h2 : (rest.drop w).length = k * w := by
      rw [List.length_drop, hr, Nat.succ_mul]; omega
    rw [forRange, forChunks]
    conv_lhs => rw [hsplit, ← List.append_assoc, hbody i pre _ _ hp h1]
    rw [ih (i + w) (pre ++ f (rest.take w)) _ (by rw [List.length_append, hp, hf _ h1]) h2,
      List.append_assoc]

theorem pass4_eq (h : ℕ) (hh : 0 < h) (b : List GR) (m : ℕ) (hb : b.length = m * (4 * h)) :
    pass4 h b = passG (4 * h) (butterfly4 h) b := by
  unfold pass4 passG
  rw [hb, rangeLen_mul m _ (by omega)]
  have := forRange_chunks (4 * h) (body4 h) (butterfly4 h) ?_ (butterfly4_length h) m 0 [] b rfl hb
  · simpa using this
  · intro i pre c post hp hc
    obtain ⟨x, y, z, w, rfl, hx, hy, hz, hw⟩ := split4 h c hc
    rw [body4_chunk h i pre x y z w post hp hx hy hz hw, butterfly4_blocks h x y z w hx hy hz hw]
    simp only [vAddHalf, vSubHalf, vISubHalf, List.append_assoc]

theorem pass2_eq (h : ℕ) (hh : 0 < h) (b : List GR) (m : ℕ) (hb : b.length = m * (2 * h)) :
    pass2 h b = passG (2 * h) (butterfly2 h) b := by
  unfold pass2 passG
  rw [hb, rangeLen_mul m _ (by omega)]
  have := forRange_chunks (2 * h) (body2 h) (butterfly2 h) ?_ (butterfly2_length h) m 0 [] b rfl hb
  · simpa using this
  · intro i pre c post hp hc
    obtain ⟨x, y, rfl, hx, hy⟩ := split2 h c hc
    rw [body2_chunk h i pre x y post hp hx hy, butterfly2_blocks h x y hx hy]
    simp only [vAddHalf, vSubHalf, List.append_assoc]

/-! ### the `while` loop = `n` passes -/

/-- passes with `h = 1, m, m², …, m^(j-1)` -/
def passes (m : ℕ) (pass : ℕ → List GR → List GR) : ℕ → List GR → List GR
  | 0, b => b
  | j + 1, b => pass (m ^ j) (passes m pass j b)

theorem whileLoop_eq_passes (m : ℕ) (hm : 1 < m) (pass : ℕ → List GR → List GR) (n : ℕ)
    (b : List GR)
    (hlen : ∀ j, j ≤ n → (passes m pass j b).length = m ^ n) :
    ∀ (k j fuel : ℕ), j + k = n → k ≤ fuel →
      whileLoop m pass fuel (m ^ j) (passes m pass j b) = passes m pass n b := by
  intro k
  induction k with
  | zero =>
    intro j fuel hj _
    have : j = n := by omega
    subst this
    cases fuel with
    | zero => rfl
    | succ f =>
      rw [whileLoop, hlen j (le_refl _)]
      simp
  | succ k ih =>
    intro j fuel hj hf
    cases fuel with
    | zero => omega
    | succ f =>
      rw [whileLoop, hlen j (by omega)]
      have : m ^ j < m ^ n := Nat.pow_lt_pow_right hm (by omega)
      rw [if_pos this]
      have e : m * m ^ j = m ^ (j + 1) := by rw [pow_succ]; ring
      rw [e]
      exact ih (j + 1) f (by omega) (by omega)

/-! ### general decomposition: radix 4 -/

abbrev passes4 := passes 4 pass4

theorem four_pow_pos (j : ℕ) : 0 < 4 * 4 ^ j := by positivity

theorem passes4_length : ∀ (j m : ℕ) (a : List GR), a.length = m * 4 ^ j →
    (passes4 j a).length = a.length := by
  intro j
  induction j with
  | zero => intro m a _; rfl
  | succ j ih =>
    intro m a ha
    have ha' : a.length = (4 * m) * 4 ^ j := by rw [ha, pow_succ]; ring
    have hl : (passes4 j a).length = m * (4 * 4 ^ j) := by rw [ih _ _ ha', ha, pow_succ]; ring
    show (pass4 (4 ^ j) (passes4 j a)).length = a.length
    rw [pass4_eq _ (by positivity) _ m hl,
      passG_length (4 * 4 ^ j) _ (four_pow_pos j) (butterfly4_length _) m _ hl, ih _ _ ha']

theorem passes4_append : ∀ (j m m' : ℕ) (a b : List GR), a.length = m * 4 ^ j →
    b.length = m' * 4 ^ j → passes4 j (a ++ b) = passes4 j a ++ passes4 j b := by
  intro j
  induction j with
  | zero => intro m m' a b _ _; rfl
  | succ j ih =>
    intro m m' a b ha hb
    have ha' : a.length = (4 * m) * 4 ^ j := by rw [ha, pow_succ]; ring
    have hb' : b.length = (4 * m') * 4 ^ j := by rw [hb, pow_succ]; ring
    have hla : (passes4 j a).length = m * (4 * 4 ^ j) := by
      rw [passes4_length j _ a ha', ha, pow_succ]; ring
    have hlb : (passes4 j b).length = m' * (4 * 4 ^ j) := by
      rw [passes4_length j _ b hb', hb, pow_succ]; ring
    show pass4 (4 ^ j) (passes4 j (a ++ b)) = pass4 (4 ^ j) (passes4 j a) ++ pass4 (4 ^ j) (passes4 j b)
    rw [ih _ _ _ _ ha' hb', pass4_eq _ (by positivity) _ m hla, pass4_eq _ (by positivity) _ m' hlb,
      pass4_eq _ (by positivity) _ (m + m') (by rw [List.length_append, hla, hlb]; ring)]
    exact passG_append (4 * 4 ^ j) _ (four_pow_pos j) m _ _ hla

/-- **The recursion of the iterative transform.**  On four blocks of length `4^n` the
`n+1` passes are: `n` passes on every block, then one butterfly across the blocks. -/
theorem passes4_succ_blocks (n : ℕ) (x y z w : List GR)
    (hx : x.length = 4 ^ n) (hy : y.length = 4 ^ n) (hz : z.length = 4 ^ n) (hw : w.length = 4 ^ n) :
    passes4 (n + 1) (x ++ (y ++ (z ++ w)))
      = butterfly4 (4 ^ n) (passes4 n x ++ (passes4 n y ++ (passes4 n z ++ passes4 n w))) := by
  show pass4 (4 ^ n) (passes4 n (x ++ (y ++ (z ++ w)))) = _
  have l (a : List GR) (ha : a.length = 4 ^ n) : (passes4 n a).length = 4 ^ n := by
    rw [passes4_length n 1 a (by simpa using ha), ha]
  rw [passes4_append n 1 3 x _ (by simpa using hx) (by simp [hy, hz, hw]; ring),
    passes4_append n 1 2 y _ (by simpa using hy) (by simp [hz, hw]; ring),
    passes4_append n 1 1 z _ (by simpa using hz) (by simpa using hw)]
  have hlen : (passes4 n x ++ (passes4 n y ++ (passes4 n z ++ passes4 n w))).length = 4 * 4 ^ n := by
    simp only [List.length_append, l x hx, l y hy, l z hz, l w hw]; ring
  rw [pass4_eq _ (by positivity) _ 1 (by rw [hlen]; ring)]
  exact passG_single _ _ (four_pow_pos n) _ hlen

/-- the whole loop of `matrix_decomposition` on a vector of length `4^n` -/
theorem whileLoop4 (n : ℕ) (b : List GR) (hb : b.length = 4 ^ n) :
    whileLoop 4 pass4 b.length 1 b = passes4 n b := by
  have hl : ∀ j, j ≤ n → (passes4 j b).length = 4 ^ n := by
    intro j hj
    rw [passes4_length j (4 ^ (n - j)) b (by rw [hb, ← pow_add]; congr 1; omega), hb]
  have := whileLoop_eq_passes 4 (by norm_num) pass4 n b hl n 0 b.length (by omega)
    (by rw [hb]; exact le_of_lt (Nat.lt_pow_self (by norm_num)))
  rw [pow_zero] at this
  exact this

/-! ### diagonal variant: radix 2 -/

abbrev passes2 := passes 2 pass2

theorem two_pow_pos' (j : ℕ) : 0 < 2 * 2 ^ j := by positivity

theorem passes2_length : ∀ (j m : ℕ) (a : List GR), a.length = m * 2 ^ j →
    (passes2 j a).length = a.length := by
  intro j
  induction j with
  | zero => intro m a _; rfl
  | succ j ih =>
    intro m a ha
    have ha' : a.length = (2 * m) * 2 ^ j := by rw [ha, pow_succ]; ring
    have hl : (passes2 j a).length = m * (2 * 2 ^ j) := by rw [ih _ _ ha', ha, pow_succ]; ring
    show (pass2 (2 ^ j) (passes2 j a)).length = a.length
    rw [pass2_eq _ (by positivity) _ m hl,
      passG_length (2 * 2 ^ j) _ (two_pow_pos' j) (butterfly2_length _) m _ hl, ih _ _ ha']

theorem passes2_append : ∀ (j m m' : ℕ) (a b : List GR), a.length = m * 2 ^ j →
    b.length = m' * 2 ^ j → passes2 j (a ++ b) = passes2 j a ++ passes2 j b := by
  intro j
  induction j with
  | zero => intro m m' a b _ _; rfl
  | succ j ih =>
    intro m m' a b ha hb
    have ha' : a.length = (2 * m) * 2 ^ j := by rw [ha, pow_succ]; ring
    have hb' : b.length = (2 * m') * 2 ^ j := by rw [hb, pow_succ]; ring
    have hla : (passes2 j a).length = m * (2 * 2 ^ j) := by
      rw [passes2_length j _ a ha', ha, pow_succ]; ring
    have hlb : (passes2 j b).length = m' * (2 * 2 ^ j) := by
      rw [passes2_length j _ b hb', hb, pow_succ]; ring
    show pass2 (2 ^ j) (passes2 j (a ++ b)) = pass2 (2 ^ j) (passes2 j a) ++ pass2 (2 ^ j) (passes2 j b)
    rw [ih _ _ _ _ ha' hb', pass2_eq _ (by positivity) _ m hla, pass2_eq _ (by positivity) _ m' hlb,
      pass2_eq _ (by positivity) _ (m + m') (by rw [List.length_append, hla, hlb]; ring)]
    exact passG_append (2 * 2 ^ j) _ (two_pow_pos' j) m _ _ hla

theorem passes2_succ_blocks (n : ℕ) (x y : List GR) (hx : x.length = 2 ^ n) (hy : y.length = 2 ^ n) :
    passes2 (n + 1) (x ++ y) = butterfly2 (2 ^ n) (passes2 n x ++ passes2 n y) := by
  show pass2 (2 ^ n) (passes2 n (x ++ y)) = _
  have l (a : List GR) (ha : a.length = 2 ^ n) : (passes2 n a).length = 2 ^ n := by
    rw [passes2_length n 1 a (by simpa using ha), ha]
  rw [passes2_append n 1 1 x _ (by simpa using hx) (by simpa using hy)]
  have hlen : (passes2 n x ++ passes2 n y).length = 2 * 2 ^ n := by
    simp only [List.length_append, l x hx, l y hy]; ring
  rw [pass2_eq _ (by positivity) _ 1 (by rw [hlen]; ring)]
  exact passG_single _ _ (two_pow_pos' n) _ hlen

theorem whileLoop2 (n : ℕ) (b : List GR) (hb : b.length = 2 ^ n) :
    whileLoop 2 pass2 b.length 1 b = passes2 n b := by
  have hl : ∀ j, j ≤ n → (passes2 j b).length = 2 ^ n := by
    intro j hj
    rw [passes2_length j (2 ^ (n - j)) b (by rw [hb, ← pow_add]; congr 1; omega), hb]
  have := whileLoop_eq_passes 2 (by norm_num) pass2 n b hl n 0 b.length (by omega)
    (by rw [hb]; exact le_of_lt (Nat.lt_pow_self (by norm_num)))
  rw [pow_zero] at this
  exact this

end Decomp
end PauLie
