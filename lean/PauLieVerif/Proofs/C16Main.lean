/-
Helper lemmas for property C16, part 6: assembling (a), (b) and the twirl for the basis
that `get_full_quadratic_basis` returns; the commutant as a subspace.
-/
import PauLieVerif.Proofs.C16Comm
import Mathlib.LinearAlgebra.Dimension.Finrank

namespace PauLie
namespace C16

open Matrix Complex C12 C04 C14 Graph SecondMoment

/-- `M(g) ⊗ 1 + 1 ⊗ M(g)` written with Pauli-string matrices on `2n` qubits:
`M(g I…I) + M(I…I g)` -/
noncomputable def gg (n : ℕ) (g : PS) : Mat (n + n) :=
  M (Fin.append (g.vec n) (fun _ : Fin n => Letter.I))
    + M (Fin.append (fun _ : Fin n => Letter.I) (g.vec n))

theorem gg_eq (n : ℕ) (g : PS) : gg n g = liftG n g := (liftG_eq_M n g).symm

theorem isZero_nil : Lin.isZero [] = true := rfl

/-- everything the property says about the returned basis except completeness -/
theorem basis_main {n : ℕ} {G : List PS} (hG : Uniform n G) (hne : G ≠ []) :
    ∃ basis, getFullQuadraticBasis G = .ok basis ∧
      (∀ q ∈ basis, Valid (n + n) q ∧ q ≠ []) ∧
      (∀ q ∈ basis, ∀ g ∈ G, den (n + n) q * gg n g = gg n g * den (n + n) q) ∧
      Orthogonal (basis.map (den (n + n))) := by
  obtain ⟨cs, L, _, _, hcomp, hdisj, hLv, hLnd, hLc, hb⟩ := basis_spec hG hne
  refine ⟨_, hb, ?_, ?_, basis_orthogonal (fun c hc => (hcomp c hc).2.2.1) hdisj hLv hLnd⟩
  · intro q hq
    obtain ⟨hq1, hq2⟩ := List.mem_filter.mp hq
    obtain ⟨c, hc, l, hl, rfl⟩ := mem_fullList.mp hq1
    refine ⟨(quadOf_spec (hcomp c hc).2.2.1 (hLv l hl)).2.1, ?_⟩
    intro h0
    rw [h0, isZero_nil] at hq2
    simp at hq2
  · intro q hq g hg
    obtain ⟨hq1, _⟩ := List.mem_filter.mp hq
    obtain ⟨c, hc, l, hl, rfl⟩ := mem_fullList.mp hq1
    obtain ⟨_, hnd, hV, hcl⟩ := hcomp c hc
    rw [(quadOf_spec hV (hLv l hl)).2.2, gg_eq]
    exact quadMat_commute hV hnd hcl (hLv l hl) hg (hG g hg) (hLc l hl g hg)

/-- the space of all `2n`-qubit operators commuting with every `g ⊗ 1 + 1 ⊗ g` -/
noncomputable def commutant (n : ℕ) (G : List PS) : Submodule ℂ (Mat (n + n)) where
  carrier := {X | ∀ g ∈ G, X * gg n g = gg n g * X}
  add_mem' := by
    intro X Y hX hY g hg
    rw [Matrix.add_mul, Matrix.mul_add, hX g hg, hY g hg]
  zero_mem' := by intro g _; simp
  smul_mem' := by
    intro c X hX g hg
    rw [Matrix.smul_mul, Matrix.mul_smul, hX g hg]

theorem mem_commutant {n : ℕ} {G : List PS} {X : Mat (n + n)} :
    X ∈ commutant n G ↔ ∀ g ∈ G, X * gg n g = gg n g * X := Iff.rfl

end C16
end PauLie
