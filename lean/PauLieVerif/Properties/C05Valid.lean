/-
Property C05 on the model of the search, third part: the VERIFIED returns are fully valid.

  "Whenever the Pauli compiler returns a sequence for a target string and a left-block size k, the
   sequence is non-empty, every element belongs to the universal generating set for that (N,k), and the
   nested commutator of the sequence, evaluated in the documented orientation, is non-zero and
   proportional to the target."

`C05_verified_return` (in `Properties/C05Search.lean`) left open whether a sequence that passes the
self-check `_nested_commutator_result(G) == target` of `compile` may contain helper operators from outside
the universal set.  It cannot, for every `N`, `2 ≤ k < N` and every well-formed target:

* `C05_subsystem_dichotomy` — `subsystem_compiler(W)` on the objects of `compile_target`: EITHER all its
  elements lie in the universal set (right block with at most one single-site factor: result `[]` or
  `[X_1 ⊗ W]`), OR some bit of `W` is clear in every element of the result (the loop `while i >= 1` never uses
  the first factor) — so no arrangement of these elements with left-only operators evaluates to a string
  with right block `W`;
* `C05_nested_is_product` — a non-vanishing nested commutator is, bit by bit, the product of all elements;
* `C05_verified_return_valid` — hence a sequence leaving `compile` through a verified return (`W = I`; the three
  candidates of `V ≠ I`; all four phases of `_case3_best_reordering`) is `Valid`: non-empty, INSIDE the universal
  set, nested matrix commutator `= c • M(target)`, `c ≠ 0`;
* `C05_verified_return_wellformed` — its elements are well-formed strings of length `N`;
* `C05_failures_only_unverified` — every invalid output of the model comes from one of the three returns
  without self-check: the last `return` of `V ≠ I`, `_bfs_case3`, the last `return` of `V = I`.
The helpers from outside the set are real (`C05_refuted_model`: `YII` in the output for `YIY`), but they only ever
leave `compile` through the unverified returns.
-/
import PauLieVerif.Proofs.CompilerValid
import PauLieVerif.Properties.C05Search

namespace PauLie
namespace C05

open Compiler CompilerSearch Matrix C07

/-- **`subsystem_compiler` either stays inside the universal set or loses a bit of `W`** (all `N`, `k < N`, every
well-formed right block of length `N - k`) -/
theorem C05_subsystem_dichotomy (N k : ℕ) (hkN : k < N) (w : PS) (hw : w.WF) (hwl : w.len = N - k)
    (gp : List PS) (h : subsystemCompiler (closedCtx k N) w = .ok gp) :
    (∀ g ∈ gp, g ∈ (uLetters N k).map PS.ofLetters) ∨
    (∃ p, p < 2 * (N - k) ∧ w.bits.getD p false = true ∧ ∀ g ∈ gp, g.bits.getD (2 * k + p) false = false) :=
  subsystemCompiler_closed k N hkN w hw hwl gp h

/-- **a non-vanishing nested commutator is the product of its elements**: bit `q` of the value is the parity of
the number of elements with bit `q` set — whatever the order -/
theorem C05_nested_is_product (G : List PS) (r : PS) (h : nestedCommutatorResult G = .ok (some r)) (q : ℕ) :
    r.bits.getD q false = par q G :=
  nested_bit G r h q

/-- **C05 holds on every verified return** (all `N`, `2 ≤ k < N`, every well-formed target; `b` is the `return`
of `compile` that fired): the sequence is `Valid` — non-empty, every element in the universal set, nested
matrix commutator `= c • M target` with `c ≠ 0` -/
theorem C05_verified_return_valid (N k : ℕ) (t : PS) (ht : t.WF) (hN : t.len = N) (hk : 2 ≤ k) (hkN : k < N)
    (b : Branch) (s : List PS) (h : compileTargetB t (k : Int) = .ok (b, s)) (hb : b.verified = true) :
    Valid N k t s :=
  (validSeq_sound N k (by omega) hkN t ht hN s).mp (verified_return_valid t k N ht hN hk hkN b s h hb)

/-- the elements of a verified return are well-formed strings of length `N` (the hypothesis of
`C05_verified_return_matrix` always holds) -/
theorem C05_verified_return_wellformed (N k : ℕ) (t : PS) (ht : t.WF) (hN : t.len = N) (hk : 2 ≤ k) (hkN : k < N)
    (b : Branch) (s : List PS) (h : compileTargetB t (k : Int) = .ok (b, s)) (hb : b.verified = true) :
    ∀ x ∈ s, x.WF ∧ x.len = N :=
  fun x hx => mem_uset_wf (by omega) (verified_return_inside t k N ht hN hk hkN b s h hb x hx)

/-- **every C05 failure of the model comes from a return without self-check**: if the model returns a
sequence that is not `Valid`, the `return` that fired is the last one of `V ≠ I`, `_bfs_case3`, or the last one
of `V = I` -/
theorem C05_failures_only_unverified (N k : ℕ) (t : PS) (ht : t.WF) (hN : t.len = N) (hk : 2 ≤ k) (hkN : k < N)
    (b : Branch) (s : List PS) (h : compileTargetB t (k : Int) = .ok (b, s)) (hbad : ¬ Valid N k t s) :
    b = .vNeIFallback ∨ b = .vIBfs ∨ b = .vILast := by
  cases hv : b.verified with
  | true => exact absurd (C05_verified_return_valid N k t ht hN hk hkN b s h hv) hbad
  | false => cases b <;> simp [Branch.verified] at hv ⊢

/-- non-vacuity: the verified return of `XXZ`, `k = 2` (first candidate of `V ≠ I`) is valid … -/
example : Valid 3 2 (PS.ofLetters [.X, .X, .Z]) [PS.ofLetters [.I, .Z, .I], PS.ofLetters [.I, .X, .I],
    PS.ofLetters [.Z, .Z, .I], PS.ofLetters [.Z, .I, .I], PS.ofLetters [.X, .I, .Z]] := by
  refine C05_verified_return_valid 3 2 _ (by decide) (by decide) (by decide) (by decide) (.vNeICand 0) _ ?_ rfl
  rw [compileTargetB_eq _ 2 3 (by decide) (by decide) (by decide)]
  decide +kernel

/-- … and the failure `YIY`, `k = 2` of `C05_refuted_model` indeed leaves through an unverified return, with a helper
`YII` from outside the universal set -/
example : compileTargetB (PS.ofLetters [.Y, .I, .Y]) 2
      = .ok (.vNeIFallback, [PS.ofLetters [.X, .I, .Z], PS.ofLetters [.Y, .I, .I], PS.ofLetters [.X, .I, .Z]]) ∧
    PS.ofLetters [.Y, .I, .I] ∉ (uLetters 3 2).map PS.ofLetters :=
  ⟨compile_YIY, by decide⟩

end C05
end PauLie
