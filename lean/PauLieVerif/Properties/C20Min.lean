/-
Property C20, the size clause ("returns a set of between 2n+1 and the given number of DISTINCT strings"), and
the matching clause of C07 ("2N+1 distinct strings"), as a theorem about su(2^n) rather than about one run:

* `C20_min_generators` — for every n ≥ 2 and every list `G` of Pauli strings on n qubits whose commutator closure
                          contains every non-identity string: every list with the same members as `G` has at
                          least 2n+1 entries (so `G` has at least 2n+1 DISTINCT strings);
* `C20_distinct`       — hence a generating list of exactly 2n+1 strings has no repeated string;
* `C20_run_distinct`   — with `C20_run_preserves`: whatever the random tie-breaking, a run of
                          `find_generators_with_connection` started from 2n+1 canonical vertices generating su(2^n)
                          returns 2n+1 pairwise distinct strings generating su(2^n).

The bound is sharp exactly from n = 2 on: for n = 1 the two strings X, Z generate su(2) (`C20_min_fails_n1`), which is
why the hypothesis `2 ≤ n` cannot be dropped (the property's "2n+1" is the count for n ≥ 2).

Reason (`Proofs/C20Min.lean`): every closure element is the combination of a 0/1 mask over the list positions on
which the quadratic form q(c) = Σ c_i + Σ_{i<j} c_i c_j ω(v_i,v_j) equals 1; of the 2^m masks the zero mask and, for
m ≥ 3, one more (two commuting positions or three mutually anticommuting ones) have q = 0; 4^n − 1 > 2^m − 2 for m ≤ 2n.
-/
import PauLieVerif.Proofs.C20Min
import PauLieVerif.Properties.C20
import Mathlib.Data.List.Dedup

namespace PauLie
namespace C20
open Closure

/-- `G` generates su(2^n): every non-identity string on n qubits is in the commutator closure -/
def GeneratesSU (n : Nat) (G : List V) : Prop :=
  ∀ v : V, v.length = 2 * n → v ≠ List.replicate (2 * n) false → Clo G v

theorem bits_ofBits_map (G : List V) : C02.bitsOf (G.map PS.ofBits) = G := by
  simp [C02.bitsOf, List.map_map, Function.comp_def, PS.ofBits]

/-- **C20/C07, the lower bound 2n+1** (n ≥ 2): a list with the same members as a generating list has ≥ 2n+1 entries. -/
theorem C20_min_generators {n : Nat} (hn : 2 ≤ n) (G G' : List V) (hG : Uniform n G)
    (hgen : GeneratesSU n G) (hsame : ∀ x, x ∈ G' ↔ x ∈ G) : 2 * n + 1 ≤ G'.length := by
  by_contra hlt
  have hU : ∀ v ∈ G'.map PS.ofBits, v.bits.length = 2 * n := by
    intro v hv
    obtain ⟨x, hx, rfl⟩ := List.mem_map.1 hv
    exact hG x ((hsame x).1 hx)
  obtain ⟨v, h1, h2, h3⟩ := C20Min.not_generating (G'.map PS.ofBits) hU hn (by simp; omega)
  rw [bits_ofBits_map] at h3
  exact h3 (clo_mono (fun g hg => (hsame g).2 hg) (hgen v h1 h2))

/-- **C20/C07, distinctness**: 2n+1 strings generating su(2^n), n ≥ 2, are pairwise distinct. -/
theorem C20_distinct {n : Nat} (hn : 2 ≤ n) (G : List V) (hG : Uniform n G)
    (hgen : GeneratesSU n G) (hlen : G.length = 2 * n + 1) : G.Nodup := by
  have h := C20_min_generators hn G G.dedup hG hgen (fun x => List.mem_dedup)
  have hsub : G.dedup.Sublist G := List.dedup_sublist G
  have heq : G.dedup = G := hsub.eq_of_length_le (by omega)
  rw [← heq]
  exact List.nodup_dedup G

/-- **C20, whatever the random tie-breaking, the returned strings are distinct.** -/
theorem C20_run_distinct {n : Nat} (hn : 2 ≤ n) (verts : List PS) (number : Int) (rnd : List Nat) (g' : List PS)
    (hv : UW n verts) (hlen : verts.length = 2 * n + 1) (hgen : GeneratesSU n (bitsOf verts))
    (h : Optimise.findGenerators verts number rnd = .ok g') :
    (bitsOf g').Nodup ∧ g'.length = 2 * n + 1 ∧ GeneratesSU n (bitsOf g') := by
  obtain ⟨huw, hclo, hl⟩ := C20_run_preserves verts number rnd g' hv h
  have hgen' : GeneratesSU n (bitsOf g') := fun v h1 h2 => (hclo v).1 (hgen v h1 h2)
  refine ⟨C20_distinct hn _ (uniform_of_uw huw) hgen' ?_, by omega, hgen'⟩
  simp [bitsOf, hl, hlen]

/-- the hypothesis `2 ≤ n` is needed: X and Z generate su(2) -/
theorem C20_min_fails_n1 : GeneratesSU 1 [[true, false], [false, true]] ∧
    ([[true, false], [false, true]] : List V).length = 2 * 1 := by
  refine ⟨?_, rfl⟩
  intro v h1 h2
  match v, h1, h2 with
  | [true, false], _, _ => exact Clo.base (by simp)
  | [false, true], _, _ => exact Clo.base (by simp)
  | [true, true], _, _ =>
    exact (Clo.step (Clo.base (List.mem_cons_self ..)) (Clo.base (List.mem_cons_of_mem _ (List.mem_cons_self ..))) (by decide) :
      Clo [[true, false], [false, true]] (add [true, false] [false, true]))
  | [false, false], _, h2 => exact absurd rfl h2

/-- non-vacuity: the universal set of C07 at (N,k) = (3,2) meets every hypothesis (7 = 2·3+1 strings generating su(8)),
so its strings are pairwise distinct by `C20_distinct` -/
example : (C07.uBits 3 2).Nodup := by
  refine C20_distinct (n := 3) (by decide) _ (C07.uniform_uBits' 3 2 (by decide)) ?_ (by decide)
  intro v h1 h2
  exact C07.clo_all (N := 3) (k := 2) (by decide) (by decide) (by decide) v h1 h2

end C20
end PauLie
