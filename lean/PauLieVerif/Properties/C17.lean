/-
Property C17, parser part, for the model `PauLie.Parser`:

  "Printing a Pauli string and constructing from the printed text is the
  identity; the sparse notation (letters with 1-based positions, optional total
  size) expands to the dense string with exactly those letters at those
  positions and identity elsewhere.  Text with a character outside the
  notation's alphabet, a position that does not increase, a missing number, or a
  size smaller than its content is rejected with ValueError, parsing always
  terminates, and every accepted text yields letters I, X, Y, Z only."

Only property theorems (and `example`s) live here; all definitions used in the
statements (`Item`, `renderMixed`, `denseMixed`, `Spec`, `render`, `dense`,
`SpecWF`, `Body`, `Accepts`, `WellFormed`, `natToDigits`, `parseOpsFuel`, ...) and
the proofs are in `PauLieVerif/Proofs/C17Lemmas.lean`.

Since the `fix:` commit of the source (`_to_int` requires
`position.isascii() and position.isdigit()`), the grammar `Body`/`Accepts`/`WellFormed`
is the STRICT notation: numbers after `_` and after `s` are non-empty strings of
ASCII digits `0`..`9`; whitespace, signs, underscores inside numbers and non-ASCII
decimal digits are rejected (`C17_reject_nonascii_number`).

One hypothesis is forced by the source and is NOT a weakening of convenience:
every number that is printed must have at most 4300 digits (`n < 10 ^ 4300`),
because CPython's `int()` raises ValueError beyond `sys.int_info.default_max_str_digits`;
the model reproduces this and `C17_sparse_digit_limit` / `C17_size_pad_digit_limit`
prove that the unrestricted statements are false.
-/
import PauLieVerif.Proofs.C17Lemmas

namespace PauLie
namespace C17

open Parser

/-! ## Round trip: print, then construct -/

/-- parsing the printed letters gives the letters back -/
theorem C17_roundtrip : ∀ w : List Letter, Parser.parse (w.map Letter.toChar) = .ok w :=
  parse_dense

example : Parser.parse ([Letter.X, .I, .Y, .Z, .Z].map Letter.toChar) = .ok [.X, .I, .Y, .Z, .Z] :=
  C17_roundtrip _

example : Parser.parse "XIYZZ".toList = .ok [.X, .I, .Y, .Z, .Z] := by
  rw [parse_eq_parseK]; decide

/-- constructing from the printed letters builds `ofLetters w`, whose letters are `w`
(decode ∘ encode = id) -/
theorem C17_roundtrip_ps : ∀ w : List Letter,
    Parser.mkPS (w.map Letter.toChar) = .ok (PS.ofLetters w) ∧ (PS.ofLetters w).letters = w := by
  intro w
  refine ⟨?_, letters_ofLetters w⟩
  rw [mkPS_none, parse_dense]

/-- `PauliString(str(p)) == p`, on all three bit vectors, for every well-formed `p` -/
theorem C17_roundtrip_wf : ∀ p : PS, p.WF → Parser.mkPS p.toString.toList = .ok p := by
  intro p hp
  rw [PS.toString, String.toList_ofList, (C17_roundtrip_ps p.letters).1, ofLetters_letters hp]

example : Parser.mkPS (PS.ofLetters [.Y, .I, .X]).toString.toList = .ok (PS.ofLetters [.Y, .I, .X]) :=
  C17_roundtrip_wf _ (by decide)

/-! ## Sparse notation -/

/-- Pure sparse notation `L_p L_p … [s size]` with ASCII decimal numbers expands to
the pointwise-defined dense string. -/
theorem C17_sparse : ∀ (spec : Spec) (size : Option Nat), SpecWF spec size →
    Parser.parse (render spec size) = .ok (dense spec size) :=
  fun _ _ h => parse_render h

/-- what `dense` is, pointwise: length = size if given, else the last position;
site `p-1` carries the letter of the pair `(l, p)`; every other site is `I` -/
theorem C17_sparse_dense_spec (spec : Spec) (size : Option Nat) (h : SpecWF spec size) :
    (dense spec size).length = size.getD (lastPos spec)
    ∧ (∀ l p, (l, p) ∈ spec → (dense spec size)[p - 1]? = some l)
    ∧ (∀ i, i < (dense spec size).length → (∀ x ∈ spec, x.2 ≠ i + 1) →
        (dense spec size)[i]? = some Letter.I) := by
  refine ⟨by simp [dense], ?_, ?_⟩
  · intro l p hm
    have hlast := (le_endPos (n := 0) h.incr
      (fun x hx => by simpa using Nat.lt_of_lt_of_le Nat.zero_lt_one (h.pos x hx))).2 (l, p) hm
    rw [← lastPos_eq_endPos] at hlast
    have hp := h.pos _ hm
    have hlt : p - 1 < size.getD (lastPos spec) := by
      cases size with
      | none => simp at hlast ⊢; omega
      | some k => have := (h.size_ge k rfl).1; simp at hlast ⊢; omega
    simp only [dense, List.getElem?_map, List.getElem?_range hlt, Option.map_some]
    rw [letterAt_mem h.incr h.pos hm]
  · intro i hi hne
    have hi' : i < size.getD (lastPos spec) := by simpa [dense] using hi
    simp only [dense, List.getElem?_map, List.getElem?_range hi', Option.map_some]
    rw [letterAt_none hne]

example : render [(.X, 3), (.Y, 5)] (some 7) = "X_3Y_5s7".toList := by decide
example : dense [(.X, 3), (.Y, 5)] (some 7) = [.I, .I, .X, .I, .Y, .I, .I] := by decide
example : Parser.parse "X_3Y_5s7".toList = .ok [.I, .I, .X, .I, .Y, .I, .I] := by
  rw [parse_eq_parseK]; decide
example : Parser.parse (render [(.Z, 12), (.X, 13)] none) = .ok (dense [(.Z, 12), (.X, 13)] none) :=
  C17_sparse _ _ ⟨by decide, by decide,
    by intro x hx; simp at hx; rcases hx with rfl | rfl <;> exact printable_of_le (by decide),
    by simp⟩

/-- Mixed notation (the source also accepts bare letters between positioned ones,
e.g. `XY_4Z`; a bare letter occupies the next site). -/
theorem C17_mixed : ∀ (items : List Item) (size : Option Nat),
    ItemsWF 0 items → SizeWF (expandFrom [] items) size →
    Parser.parse (renderMixed items size) = .ok (denseMixed items size) :=
  fun _ _ h hs => parse_renderMixed h hs

/-- the pure sparse notation is the mixed one without bare letters -/
theorem C17_sparse_is_mixed (spec : Spec) (size : Option Nat) (h : SpecWF spec size) :
    render spec size = renderMixed (sparseItems spec) size
    ∧ dense spec size = denseMixed (sparseItems spec) size :=
  ⟨rfl, (denseMixed_sparse h).symm⟩

example : renderMixed [.dense .X, .at .Y 4, .dense .Z] none = "XY_4Z".toList := by decide
example : denseMixed [.dense .X, .at .Y 4, .dense .Z] none = [.X, .I, .I, .Y, .Z] := by decide
example : Parser.parse "XY_4Z".toList = .ok [.X, .I, .I, .Y, .Z] := by
  rw [parse_eq_parseK]; decide

/-- The digit-limit hypothesis of `C17_sparse`/`C17_mixed` cannot be dropped: a
position with more than 4300 digits is rejected (CPython `int()` limit). -/
theorem C17_sparse_digit_limit : ∀ (l : Letter) (p : Nat), 10 ^ maxStrDigits ≤ p →
    Parser.parse (render [(l, p)] none) = .error .valueError := by
  intro l p hp
  have hlong : maxStrDigits < (natToDigits p).length := by
    have := (Nat.length_toDigits_le_iff (b := 10) (n := p) (k := maxStrDigits) (by decide) (by decide))
    unfold natToDigits; omega
  have := parse_error_of_prefix (x := l.toChar :: '_' :: natToDigits p) (post := [])
    (by
      simp only [List.mem_cons, not_or]
      exact ⟨(toChar_ne_s l).symm, by decide, fun h => digit_ne_s (natToDigits_isDigitCh _ h) rfl⟩)
    (by simp)
    (fun post' hpost' => by
      simpa using parseOps_number_too_long (pre := []) (Body.nil []) (toChar_mem_GATES l)
        natToDigits_isDigitCh hlong hpost')
  simpa [render, renderMixed, sparseItems, renderItems, Item.render] using this

/-! ## Rejection -/

/-- every accepted text is derivable in the (strict) grammar: numbers after `_` and
after `s` are non-empty strings of ASCII digits -/
theorem C17_reject : ∀ (t : List Char) (w : List Letter), Parser.parse t = .ok w → WellFormed t :=
  fun _ w h => ⟨w, Accepts_of_parse h⟩

/-- the grammar is exact: accepted ⇔ derivable, with the same result -/
theorem C17_accepts_iff : ∀ (t : List Char) (w : List Letter), Parser.parse t = .ok w ↔ Accepts t w :=
  fun _ _ => parse_ok_iff

/-- the only exception the parser raises is ValueError -/
theorem C17_only_valueError : ∀ (t : List Char) (e : Err), Parser.parse t = .error e → e = .valueError :=
  fun _ _ h => parse_error h

/-- contrapositive: ill-formed text is rejected with ValueError -/
theorem C17_reject_illFormed : ∀ t : List Char, ¬ WellFormed t → Parser.parse t = .error .valueError := by
  intro t h
  rcases parse_ok_or_valueError t with ⟨w, hw⟩ | he
  · exact absurd (C17_reject t w hw) h
  · exact he

/-- (a) a character outside the alphabet (gate letters, `_`, `s`, ASCII digits)
before the size marker -/
theorem C17_reject_char : ∀ (t : List Char) (c : Char), c ∈ bodyOf t → inAlphabet c = false →
    Parser.parse t = .error .valueError := by
  intro t c hm hc
  obtain ⟨h1, h2, _, h4⟩ := inAlphabet_false hc
  exact parse_error_of_bodyOf (parseOps_bad_char hm h1 h2 h4)

/-- (a), whole text: a character outside the alphabet anywhere, also after `s` -/
theorem C17_reject_char_anywhere : ∀ (t : List Char) (c : Char), c ∈ t → inAlphabet c = false →
    Parser.parse t = .error .valueError :=
  fun _ _ hm hc => parse_bad_char hm hc

/-- (b) after a well-formed prefix with content `acc`, a positioned letter whose
position does not exceed `len(acc)` (stated for any scanned digit characters; if
they are not all ASCII the text is rejected by `_to_int` anyway) -/
theorem C17_reject_position : ∀ (pre ds post : List Char) (acc : List Letter) (g : Char) (p : Int),
    Body [] pre acc → g ∈ GATES → (∀ c ∈ ds, isDigitCh c = true) → pyInt ds = some p →
    p ≤ acc.length → (∀ c, post.head? = some c → isToken c = true) →
    Parser.parse (pre ++ g :: '_' :: ds ++ post) = .error .valueError := by
  intro pre ds post acc g p hpre hg hd hp hle hpost
  have hx : 's' ∉ pre ++ g :: '_' :: ds := by
    simp only [List.mem_append, List.mem_cons, not_or]
    exact ⟨hpre.no_s, fun e => s_not_gate (e ▸ hg), by decide, fun h => digit_ne_s (hd _ h) rfl⟩
  have := parse_error_of_prefix hx hpost (fun post' hpost' => by
    simpa using parseOps_bad_position hpre hg hd hp hle hpost')
  simpa using this

/-- (c) `G_` with no number: followed by the end of the text or by a token -/
theorem C17_reject_missing_number : ∀ (pre post : List Char) (acc : List Letter) (g : Char),
    Body [] pre acc → g ∈ GATES → (∀ c, post.head? = some c → isToken c = true) →
    Parser.parse (pre ++ g :: '_' :: post) = .error .valueError := by
  intro pre post acc g hpre hg hpost
  have hx : 's' ∉ pre ++ [g, '_'] := by
    simp only [List.mem_append, List.mem_cons, not_or]
    exact ⟨hpre.no_s, fun e => s_not_gate (e ▸ hg), by decide, by simp⟩
  have := parse_error_of_prefix hx hpost (fun post' hpost' => by
    simpa using parseOps_missing_number hpre hg hpost')
  simpa using this

/-- (c) no number after `s` (`int()` fails, in particular for the empty string) -/
theorem C17_reject_missing_size : ∀ (b sz : List Char), 's' ∉ b → pyInt sz = none →
    Parser.parse (b ++ 's' :: sz) = .error .valueError :=
  fun _ _ hb hk => parse_size_missing hb hk

/-- Strict numbers (the `fix:` commit): the number text after `_` (the non-token
characters up to the next token) and the number text after `s` (the rest of the
text) must consist of ASCII digits `0`..`9`; whitespace, signs, non-ASCII decimal
digits (and, after `s`, underscores) are rejected with ValueError. -/
theorem C17_reject_nonascii_number :
    (∀ (pre ds post : List Char) (g : Char), (∀ c ∈ ds, isToken c = false) →
        (∃ c ∈ ds, isAsciiDigit c = false) →
        Parser.parse (pre ++ g :: '_' :: ds ++ post) = .error .valueError)
    ∧ (∀ (b sz : List Char), 's' ∉ b → (∃ c ∈ sz, isAsciiDigit c = false) →
        Parser.parse (b ++ 's' :: sz) = .error .valueError) := by
  refine ⟨?_, fun b sz hb h => parse_size_nonascii hb h⟩
  intro pre ds post g hnt ⟨c, hc, hna⟩
  have htok := hnt c hc
  have hnot : ¬ (c ∈ GATES ∨ c = '_' ∨ c = 's') := fun h => by
    rw [isToken_iff.2 h] at htok; cases htok
  apply parse_bad_char (c := c) (by simp [hc])
  simp only [inAlphabet, Bool.or_eq_false_iff, List.contains_eq_mem, decide_eq_false_iff_not,
    beq_eq_false_iff_ne]
  exact ⟨⟨⟨fun h => hnot (.inl h), fun h => hnot (.inr (.inl h))⟩, fun h => hnot (.inr (.inr h))⟩, hna⟩

example : Parser.parse "Xs 3".toList = .error .valueError := by rw [parse_eq_parseK]; decide
example : Parser.parse "Xs+3".toList = .error .valueError := by rw [parse_eq_parseK]; decide
example : Parser.parse "Xs1_0".toList = .error .valueError := by rw [parse_eq_parseK]; decide
example : Parser.parse "X_٣".toList = .error .valueError := by rw [parse_eq_parseK]; decide
example : Parser.parse "Xs٣".toList = .error .valueError := by rw [parse_eq_parseK]; decide
example : Parser.parse "X_1_0".toList = .error .valueError := by rw [parse_eq_parseK]; decide
example : ¬ WellFormed "X_٣".toList := by decide
example : Parser.parse "Xs٣".toList = .error .valueError :=
  C17_reject_nonascii_number.2 ['X'] ['٣'] (by decide) ⟨'٣', by decide, by decide⟩
example : Parser.parse "X_٣".toList = .error .valueError :=
  C17_reject_nonascii_number.1 [] ['٣'] [] 'X' (by decide) ⟨'٣', by decide, by decide⟩

/-- (d) a size smaller than the content -/
theorem C17_reject_size : ∀ (b sz : List Char) (w : List Letter) (k : Int),
    Body [] b w → pyInt sz = some k → k < w.length →
    Parser.parse (b ++ 's' :: sz) = .error .valueError :=
  fun _ _ _ _ hb hk h => parse_size_too_small hb hk h

example : WellFormed "X_3Y_5s7".toList := by decide
example : ¬ WellFormed "X_3Y_3".toList := by decide
example : Parser.parse "X_3aY_5".toList = .error .valueError :=     -- (a)
  C17_reject_char _ 'a' (by decide) (by decide)
example : Parser.parse "X_3Y_3".toList = .error .valueError :=      -- (b)
  C17_reject_illFormed _ (by decide)
example : Parser.parse "X_3Y_".toList = .error .valueError := by    -- (c), the `i < len - 2` quirk
  rw [parse_eq_parseK]; decide
example : Parser.parse "X_3Y_Z".toList = .error .valueError := by   -- (c)
  rw [parse_eq_parseK]; decide
example : Parser.parse "X_3s".toList = .error .valueError := by     -- (c)
  rw [parse_eq_parseK]; decide
example : Parser.parse "X_3Y_5s4".toList = .error .valueError := by -- (d)
  rw [parse_eq_parseK]; decide

/-! ## Letters -/

/-- Accepted texts yield `List Letter` (so only I, X, Y, Z by typing); the text
printed for the constructed string consists of the characters I, X, Y, Z. -/
theorem C17_letters : ∀ w : List Letter,
    ∀ c ∈ (PS.ofLetters w).toString.toList, c ∈ ['I', 'X', 'Y', 'Z'] := by
  intro w c hc
  rw [PS.toString, String.toList_ofList, letters_ofLetters, List.mem_map] at hc
  obtain ⟨l, _, rfl⟩ := hc
  exact toChar_mem_GATES l

/-- the same, stated for every text the constructor accepts -/
theorem C17_letters_mkPS : ∀ (t : List Char) (p : PS), Parser.mkPS t = .ok p →
    ∀ c ∈ p.toString.toList, c ∈ ['I', 'X', 'Y', 'Z'] := by
  intro t p h
  rw [mkPS_none] at h
  split at h
  · cases h; exact C17_letters _
  · cases h

example : (PS.ofLetters [.I, .I, .X, .I, .Y, .I, .I]).toString.toList = "IIXIYII".toList := by decide

/-! ## Termination -/

/-- `parseOps` is defined by well-founded recursion on the length of the unread
text; the certificate is that `scanNumber` never returns more than it was given.
Moreover `len(text)` iterations of the main loop always suffice: the
fuel-indexed copy `parseOpsFuel` (structural recursion on the fuel) agrees with
`parseOps` whenever the fuel is at least the text length. -/
theorem C17_terminates :
    (∀ (l ds rest : List Char), scanNumber l = .ok (ds, rest) → rest.length ≤ l.length)
    ∧ (∀ (fuel : Nat) (t : List Char) (acc : List Letter), t.length ≤ fuel →
        parseOpsFuel fuel t acc = some (parseOps t acc))
    ∧ (∀ t : List Char, (∃ w, Parser.parse t = .ok w) ∨ Parser.parse t = .error .valueError) :=
  ⟨scanNumber_length, fun _ _ _ h => parseOpsFuel_eq h, parse_ok_or_valueError⟩

example : parseOpsFuel 6 "X_3Y_5".toList [] = some (.ok [.I, .I, .X, .I, .Y]) := by decide
example : parseOpsFuel 2 "X_3Y_5".toList [] = some (.ok [.I, .I, .X, .I, .Y]) := by decide
example : parseOpsFuel 1 "X_3Y_5".toList [] = none := by decide

/-! ## Size padding -/

/-- a dense text followed by `s<k>`: padded with identities up to `k`, or rejected -/
theorem C17_size_pad : ∀ (w : List Letter) (k : Nat),
    (w.length ≤ k → k < 10 ^ maxStrDigits →
      Parser.parse (w.map Letter.toChar ++ 's' :: natToDigits k)
        = .ok (w ++ List.replicate (k - w.length) Letter.I))
    ∧ (k < w.length →
      Parser.parse (w.map Letter.toChar ++ 's' :: natToDigits k) = .error .valueError) := by
  intro w k
  constructor
  · intro h hk
    have := parse_size_pad_ok (w := w) natToDigits_asciiDigit (pyInt_natToDigits hk) (by omega)
    rwa [show ((k : Int) - w.length).toNat = k - w.length by omega] at this
  · intro h
    have hb : Body [] (w.map Letter.toChar) w := by simpa using Body_dense [] w
    cases hp : pyInt (natToDigits k) with
    | none => exact parse_size_missing hb.no_s hp
    | some k' =>
      have hk' : k' = (k : Int) := by
        by_cases hk : k < 10 ^ maxStrDigits
        · rw [pyInt_natToDigits hk] at hp; cases hp; rfl
        · rw [pyInt_natToDigits_big (by omega)] at hp; cases hp
      exact parse_size_too_small hb hp (by omega)

/-- the digit-limit hypothesis of `C17_size_pad` cannot be dropped -/
theorem C17_size_pad_digit_limit : ∀ (w : List Letter) (k : Nat), 10 ^ maxStrDigits ≤ k →
    Parser.parse (w.map Letter.toChar ++ 's' :: natToDigits k) = .error .valueError := by
  intro w k hk
  have hb : Body [] (w.map Letter.toChar) w := by simpa using Body_dense [] w
  exact parse_size_missing hb.no_s (pyInt_natToDigits_big hk)

example : Parser.parse "XYs5".toList = .ok [.X, .Y, .I, .I, .I] := by
  rw [parse_eq_parseK]; decide
example : Parser.parse ([Letter.X, .Y].map Letter.toChar ++ 's' :: natToDigits 5)
    = .ok ([.X, .Y] ++ List.replicate (5 - 2) .I) :=
  (C17_size_pad [.X, .Y] 5).1 (by decide) (printable_of_le (by decide))
example : Parser.parse "XYZs2".toList = .error .valueError := by
  rw [parse_eq_parseK]; decide

end C17
end PauLie
