/-
Property C01 - "the reported Lie algebra is isomorphic to the true dynamical Lie algebra" - for the
type-A class, with the FULL invariant by which the check decides "isomorphic" (not only the
dimension, as in `Properties/C01Star.lean` / `Properties/C01Comp.lean`):

  * `C01_typeA_full`: for EVERY realisation of a type-A canonical star (centre, k ≥ 1 single legs,
    long leg of length r ≠ 1; pure single-leg stars r = 0 and paths k = 1 included) by linearly
    independent strings, the name the model of `get_algebra` reports, `2^(k−1)·so(r+3)`, has the
    invariants `invOfClosure` of the commutator closure of the vertices (centre 0; one connected block
    of simple dimension (r+3)(r+2)/2, series B for odd r+3 ≥ 7, 2^(k−1) copies);
  * `C01_from_C02_typeA_full`: with `C02_closure_partial` - if the guarded reduction of `gens` ends in
    such a star, the reported name has the invariants of the closure of the GENERATORS;
  * `C01_componentwise_typeA_full`: for a collection every component of which is an isolated vertex
    or reduces (guarded) to a type-A star, the name reported by `get_algebra()` has the invariants of
    the commutator closure of the collection - C01 in the sense of the check, for the whole type-A
    class, any number of qubits, any number of components.

Hypotheses as before: the per-input guard (`guardsHold`, the certificate checks of the guarded run)
and the executable star check `typeAB` (anticommutation pattern, linear independence).  NOT proved:
the B types; that the guards never fail; invariants ⇒ isomorphic (classification theorem).
-/
import PauLieVerif.Proofs.C01TypeAInv
import PauLieVerif.Properties.C01CompFull

namespace PauLie
namespace C01Star
open Closure Classify C03 C02

/-- **C01 for type A, full invariant**: reported name and invariants of the closure of the vertices -/
theorem C01_typeA_full {n : Nat} {c l1 : PS} {ls' ps : List PS}
    (h : TypeAL (2 * n) c.bits l1.bits (C02.bitsOf ls') (C02.bitsOf ps)) (hr : ps.length ≠ 1)
    (deps unapp : List PS) (tags : List String) (complete : Bool) :
    summandsOf [⟨typeALegs c (l1 :: ls') ps, deps, unapp, tags, complete⟩]
      = .ok [⟨.SO, ps.length + 3, 2 ^ ls'.length⟩] ∧
    invOfClosure (closureList (C02.bitsOf (typeALegs c (l1 :: ls') ps).flatten)).1
      = invOfName [⟨.SO, ps.length + 3, 2 ^ ls'.length⟩] := by
  refine ⟨(C01_typeA h hr deps unapp tags complete).1, ?_⟩
  rw [typeALegs_flatten]
  have : C02.bitsOf (c :: (l1 :: ls') ++ ps) = c.bits :: (l1.bits :: C02.bitsOf ls') ++ C02.bitsOf ps := by
    simp [C02.bitsOf]
  rw [this]
  have := h.inv_clo (by simpa [C02.bitsOf] using hr)
  simpa [C02.bitsOf] using this

theorem summandOf_single {m : MorphR} {s : Summand} (h : summandsOf [m] = .ok [s]) : summandOfMorph m = .ok s := by
  unfold summandsOf at h
  rw [List.mapM_cons] at h
  cases hs : summandOfMorph m with
  | error e => rw [hs] at h; simp [bind, Except.bind] at h
  | ok s' =>
    rw [hs] at h
    simp only [List.mapM_nil, bind, Except.bind, pure, Except.pure, Except.ok.injEq, List.cons.injEq, and_true] at h
    rw [h]

/-- **C01 proved (full invariant) for the inputs whose guarded reduction ends in a type-A star** -/
theorem C01_from_C02_typeA_full {n : Nat} {gens : List PS} {r : Morph.BuildResult} {c l1 : PS} {ls' ps : List PS}
    (hlen : ∀ g ∈ gens, g.bits.length = 2 * n) (hb : Morph.build gens = .ok r)
    (hg : C02.guardsHold gens = true) (hc : r.complete = true) (hu : r.unappended = [])
    (hlegs : r.legs = typeALegs c (l1 :: ls') ps) (hr : ps.length ≠ 1)
    (hstar : typeAB (2 * n) c.bits l1.bits (C02.bitsOf ls') (C02.bitsOf ps) = true) :
    summandOfMorph ⟨r.legs, r.dependents, r.unappended, r.tags, r.complete⟩
      = .ok ⟨.SO, ps.length + 3, 2 ^ ls'.length⟩ ∧
    invOfName [⟨.SO, ps.length + 3, 2 ^ ls'.length⟩] = invOfClosure (closureList (C02.bitsOf gens)).1 := by
  have hS := typeAB_sound hstar
  obtain ⟨s1, s2⟩ := C01_typeA_full hS hr r.dependents r.unappended r.tags r.complete
  rw [← hlegs] at s1 s2
  refine ⟨summandOf_single s1, ?_⟩
  have h1 := (C02.C02_closure_partial hlen hb hg hc hu).1
  have hvl : ∀ v ∈ r.legs.flatten, v.bits.length = 2 * n := by
    rw [hlegs, typeALegs_flatten]
    intro v hv
    apply hS.len
    simp only [List.cons_append, List.mem_cons, List.mem_append] at hv ⊢
    rcases hv with rfl | rfl | hv | hv
    · exact Or.inr (Or.inl rfl)
    · exact Or.inl rfl
    · exact Or.inr (Or.inr (Or.inr (List.mem_map.2 ⟨v, hv, rfl⟩)))
    · exact Or.inr (Or.inr (Or.inl (List.mem_map.2 ⟨v, hv, rfl⟩)))
  have hA : Uniform n (C02.bitsOf r.legs.flatten) := by
    intro g hg'
    obtain ⟨v, hv, rfl⟩ := List.mem_map.1 hg'
    exact hvl v hv
  have hB : Uniform n (C02.bitsOf gens) := by
    intro g hg'
    obtain ⟨v, hv, rfl⟩ := List.mem_map.1 hg'
    exact hlen v hv
  rw [← s2]
  exact C03_full_same_closure closedInvariant_invOfClosure hA hB h1

/-! non-vacuity -/
section Example
private def ps (s : String) : PS := PS.ofLetters ((lettersOfString? s).getD [])

/-- type A with k = 2 single legs and a long leg of length r = 2 on five qubits: 2·so(5) -/
example : invOfClosure (closureList (C02.bitsOf (typeALegs (ps "XIIII") [ps "ZIIII", ps "ZZIII"]
    [ps "ZIXII", ps "IIZXI"]).flatten)).1 = invOfName [⟨.SO, 5, 2⟩] :=
  (C01_typeA_full (n := 5) (typeAB_sound (by decide +kernel)) (by decide) [] [] [] true).2

/-- the pure star K_{1,3}: 4·so(3) -/
example : invOfClosure (closureList (C02.bitsOf (typeALegs (ps "XII") [ps "ZII", ps "ZZI", ps "ZIZ"] []).flatten)).1
    = invOfName [⟨.SO, 3, 4⟩] :=
  (C01_typeA_full (n := 3) (typeAB_sound (by decide +kernel)) (by decide) [] [] [] true).2

/-- cross-check against the verified enumeration, by kernel evaluation -/
example : invOfClosure (closureList (C02.bitsOf [ps "XII", ps "ZII", ps "ZZI", ps "ZIZ"])).1 = invOfName [⟨.SO, 3, 4⟩]
    ∧ invOfName [⟨.SO, 3, 4⟩] = ⟨0, [(3, 0, 4)]⟩ := by decide +kernel
end Example

end C01Star

namespace C01Comp
open Closure Classify C03 C02 C01Star

theorem inv_singleton {n : Nat} {v : V} (hv : v.length = 2 * n) :
    invOfClosure (closureList [v]).1 = invOfName [⟨.U, 1, 1⟩] := by
  have hU : Uniform n [v] := by intro g hg; simp at hg; subst hg; exact hv
  have hc : ∀ a ∈ (closureList [v]).1, ∀ b ∈ (closureList [v]).1, omega a b = false := by
    intro a ha b hb
    have ha' := (C19.clo_of_commuting (G := [v]) (by
      intro a ha b hb; simp at ha hb; subst ha; subst hb; exact omega_self _)).1
      ((closureList_sound_complete hU).1 ha)
    have hb' := (C19.clo_of_commuting (G := [v]) (by
      intro a ha b hb; simp at ha hb; subst ha; subst hb; exact omega_self _)).1
      ((closureList_sound_complete hU).1 hb)
    simp at ha' hb'; subst ha'; subst hb'; exact omega_self _
  rw [C19.invOfClosure_commuting _ hc, card_clo_singleton hv]
  exact (C19.invOfName_u1 1).symm

theorem summand_point (v : PS) (deps unapp : List PS) (tags : List String) (complete : Bool) :
    summandOfMorph ⟨[[v]], deps, unapp, tags, complete⟩ = .ok ⟨.U, 1, 1⟩ := by
  simp [summandOfMorph, getAlgebraProperties, getProperties, algebraOfProperties, multiplicity, bind,
    Except.bind, pure, Except.pure]

theorem good_component_full {n : Nat} {c : List PS} {m : MorphR} (hc : C14.Uniform n c) (hm : morphOf c = .ok m)
    (hg : GoodComponent n c m) :
    ∃ s, summandOfMorph m = .ok s ∧ invOfName [s] = invOfClosure (closureList (bitsOf c)).1 := by
  obtain ⟨hgd, hcomp, hun, hlegs⟩ := hg
  unfold morphOf at hm
  cases hb : Morph.build c with
  | error e => rw [hb] at hm; simp [bind, Except.bind] at hm
  | ok r =>
    rw [hb] at hm
    simp only [bind, Except.bind, pure, Except.pure, Except.ok.injEq] at hm
    subst hm
    have hlen := bits_length_of hc
    rcases hlegs with ⟨v, hl, hv⟩ | ⟨cen, l1, ls', ps, hl, hr, hA⟩
    · simp only at hl hcomp hun
      refine ⟨⟨.U, 1, 1⟩, by rw [hl]; exact summand_point .., ?_⟩
      have h1 := (C02.C02_closure_partial hlen hb hgd hcomp hun).1
      rw [hl] at h1
      have hA : Uniform n (bitsOf [[v]].flatten) := by
        intro g hg'; simp [bitsOf] at hg'; subst hg'; exact hv
      rw [← C03_full_same_closure closedInvariant_invOfClosure hA (uniform_bitsOf hc) h1]
      have : bitsOf [[v]].flatten = [v.bits] := by simp [bitsOf]
      rw [this]
      exact (inv_singleton hv).symm
    · simp only at hl hcomp hun
      exact ⟨_, C01_from_C02_typeA_full hlen hb hgd hcomp hun hl hr hA⟩

/-- **C01, full invariant, PROVED for collections with type-A components**: if every connected
component of the collection is reduced by the guarded run (all certificate checks hold, complete,
nothing given up) to an isolated vertex or to a type-A canonical star whose vertices pass `typeAB`,
then `get_algebra()` reports a name whose invariants (centre; per block simple dimension, series
label, copies) are exactly those of the commutator closure of the whole collection. -/
theorem C01_componentwise_typeA_full {n : Nat} {G : List PS} (hG : C14.Uniform n G) {ms : List MorphR}
    (h : classify G = .ok ms)
    (hgood : ∀ cs, Graph.getSubgraphs G = .ok cs → ∀ c m, (c, m) ∈ cs.zip ms → GoodComponent n c m) :
    ∃ a, algebraOfMorphs ms = .ok a ∧ invOfName a = invOfClosure (closureList (bitsOf G)).1 := by
  obtain ⟨cs, hcs, hUc, _⟩ := C01Comp_subgraphs hG
  obtain ⟨cs', hcs', hm, hfin⟩ := C01_componentwise_full hG h
  rw [hcs] at hcs'
  injection hcs' with hcs'
  subst hcs'
  apply hfin
  intro c m hz
  have hmem := List.of_mem_zip hz
  exact good_component_full (hUc c hmem.1) (C01_componentwise_typeA.mapM_zip_ok morphOf cs ms hm c m hz)
    (hgood cs hcs c m hz)

end C01Comp
end PauLie
