/-
Property C19 (two-local reference table): rows that are correct WITH ALL INVARIANTS for every n ≥ 3.

`Properties/C19More.lean` proves the dimension clause for the free-fermion families.  Here the full
row check `rowOK f n` - the invariants `invOfClosure` of the verified closure of the translated
generators (centre, and per connected block: simple dimension, series label B/C, copies) equal the
invariants of the table's name - is proved for ALL n ≥ 3 for

    a1 (`so(n)`),  a2, a4 (`so(n)+so(n)`),  a8 (`so(2n−1)`),  a14 (`so(2n)`),  b3 (`n·su(2)`),

in addition to a0, b0, b1 (`Properties/C19.lean`).  So nine of the 28 rows are proved correct for
every n ≥ 3 in exactly the sense in which the check decides the others per (family, n).

How: the closure is, up to order, the list of all bilinears of a Majorana family (or two mutually
commuting such lists); on a commutator-closed set `invOfClosure` does not depend on the enumeration
and may be evaluated on any system of components (`Proofs/C03Perm.lean`, `invOfClosure_of_blocks`);
the set of bilinears of M ≥ 5 Majoranas is connected, no two members have the same anticommutation
pattern, `1 + (M−2)(M−3)/2` members commute with a given one, and the checker's series label for
these numbers is the label of `so(M)` (`Proofs/C19SoInv.lean`, `Proofs/C19SoArith.lean`).  The cases
M ∈ {3, 4} (n = 3, 4 of a1, a2, a4; `so(3) = su(2)`, `so(4) = 2·su(2)`) are decided by the kernel.

b3: the closure is the set of single-site strings; its components are the n triples `{X_k, Y_k, Z_k}`
(`Proofs/C19SuInv.lean`).

NOT proved: the other 19 families (exponential algebras).
-/
import PauLieVerif.Properties.C19More
import PauLieVerif.Proofs.C19SuInv

namespace PauLie
namespace C19
open TwoLocal Classify Closure C03

/-- a closure that consists of all bilinears of M ≥ 5 Majoranas has the invariants of `so(M)` -/
theorem inv_of_clo_bils {n M : Nat} {w : Nat → V} (h : Maj (2 * n) M w) (hM : 5 ≤ M) {G : List V}
    (hU : Uniform n G) (hclo : ∀ x, Clo G x ↔ ∃ a b, a < b ∧ b < M ∧ x = bil w a b) :
    invOfClosure (closureList G).1 = invOfName [so M] := by
  rw [invOfClosure_perm_closed (closedSet_closureList hU) (closureList_nodup G) (S' := Maj.bils w M)
    ((List.perm_ext_iff_of_nodup (closureList_nodup G) h.nodup_bils).2 (fun x => by
      rw [closureList_sound_complete hU, hclo, Maj.mem_bils]))]
  exact invOfClosure_bils h hM

/-- a closure that consists of two mutually commuting sets of bilinears (m ≥ 5 Majoranas each) has the
invariants of `so(m)+so(m)` -/
theorem inv_of_clo_two {n M m : Nat} {w : Nat → V} (h : Maj (2 * n) M w) {σ τ : Nat → Nat}
    (hσ : ∀ i, i < m → σ i < M) (sσ : ∀ i j, i < j → j < m → σ i < σ j)
    (hτ : ∀ i, i < m → τ i < M) (sτ : ∀ i j, i < j → j < m → τ i < τ j)
    (hd : ∀ i j, i < m → j < m → σ i ≠ τ j) (hm : 5 ≤ m) {G : List V} (hU : Uniform n G)
    (hclo : ∀ x, Clo G x ↔ (∃ a b, a < b ∧ b < m ∧ x = bil w (σ a) (σ b)) ∨
      (∃ a b, a < b ∧ b < m ∧ x = bil w (τ a) (τ b))) :
    invOfClosure (closureList G).1 = invOfName [so m, so m] := by
  obtain ⟨_, hnd, hinv⟩ := invOfClosure_two_blocks h hσ sσ hτ sτ hd hm
  rw [invOfClosure_perm_closed (closedSet_closureList hU) (closureList_nodup G)
    (S' := Maj.bils (fun i => w (σ i)) m ++ Maj.bils (fun i => w (τ i)) m)
    ((List.perm_ext_iff_of_nodup (closureList_nodup G) hnd).2 (fun x => by
      rw [closureList_sound_complete hU, hclo, List.mem_append, Maj.mem_bils, Maj.mem_bils]
      rfl))]
  exact hinv

theorem rowOK_of {f : Fam} {n : Nat} {nm : List Summand} (ht : tlName f n = some nm)
    (h : invOfClosure (closureList (klocalBits f n)).1 = invOfName nm) : rowOK f n = true := by
  simp [rowOK, ht, h]

/-- the Jordan–Wigner strings of `Proofs/C19Path.lean` are a Majorana family -/
theorem maj_jw (n : Nat) : Maj (2 * n) n (jw n) :=
  ⟨fun i _ => length_jw n i, fun a b ha hb => omega_jw n a b ha hb⟩

/-- **a1** (`XY`): the row `so(n)` is correct with all invariants, for every n ≥ 3 -/
theorem C19_a1_row (n : Nat) (hn : 3 ≤ n) : rowOK .a1 n = true := by
  by_cases h5 : 5 ≤ n
  · have hb : klocalBits .a1 n = klocalV n [vXY] :=
      klocalBits_eq (gs := [vXY]) rfl (by omega) (by simp) (by simp [vXY])
    apply rowOK_of (nm := [so n]) rfl
    rw [hb]
    exact inv_of_clo_bils (maj_jw n) h5 (uniform_klocalV (by simp [vXY])) (fun x => clo_a1 x)
  · obtain rfl | rfl : n = 3 ∨ n = 4 := by omega
    · decide +kernel
    · decide +kernel

/-- **a8** (`XX`, `XZ`): the row `so(2n−1)` is correct with all invariants, for every n ≥ 3 -/
theorem C19_a8_row (n : Nat) (hn : 3 ≤ n) : rowOK .a8 n = true := by
  have hb : klocalBits .a8 n = klocalV n gensA8 :=
    klocalBits_eq (gs := gensA8) rfl (by omega) (by simp [gensA8]) (by simp [gensA8, vXX, vXZ])
  apply rowOK_of (nm := [so (2 * n - 1)]) rfl
  rw [hb]
  exact inv_of_clo_bils (maj_mY' n) (by omega) (uniform_klocalV (by simp [gensA8, vXX, vXZ])) (fun x => clo_a8 x)

/-- **a14** (`XX`, `YY`, `XY`): the row `so(2n)` is correct with all invariants, for every n ≥ 3 -/
theorem C19_a14_row (n : Nat) (hn : 3 ≤ n) : rowOK .a14 n = true := by
  have hb : klocalBits .a14 n = klocalV n gensA14 :=
    klocalBits_eq (gs := gensA14) rfl (by omega) (by simp [gensA14]) (by simp [gensA14, vXX, vYY, vXY])
  apply rowOK_of (nm := [so (2 * n)]) rfl
  rw [hb]
  exact inv_of_clo_bils (maj_mZ n) (by omega) (uniform_klocalV (by simp [gensA14, vXX, vYY, vXY]))
    (fun x => clo_a14 (by omega) x)

/-- **a2** (`XY`, `YX`): the row `so(n)+so(n)` is correct with all invariants, for every n ≥ 3 -/
theorem C19_a2_row (n : Nat) (hn : 3 ≤ n) : rowOK .a2 n = true := by
  by_cases h5 : 5 ≤ n
  · have hb : klocalBits .a2 n = klocalV n gensA2 :=
      klocalBits_eq (gs := gensA2) rfl (by omega) (by simp [gensA2]) (by simp [gensA2, vXY, vYX])
    apply rowOK_of (nm := [so n, so n]) rfl
    rw [hb]
    exact inv_of_clo_two (maj_mZ n) (σ := fun i => 2 * i + 1) (τ := fun i => 2 * i) (m := n)
      (fun i hi => by omega) (fun i j hij _ => by omega) (fun i hi => by omega) (fun i j hij _ => by omega)
      (fun i j _ _ => by omega) h5 (uniform_klocalV (by simp [gensA2, vXY, vYX])) (blocks_a2 n).1
  · obtain rfl | rfl : n = 3 ∨ n = 4 := by omega
    · decide +kernel
    · decide +kernel

/-- **a4** (`XX`, `YY`): the row `so(n)+so(n)` is correct with all invariants, for every n ≥ 3 -/
theorem C19_a4_row (n : Nat) (hn : 3 ≤ n) : rowOK .a4 n = true := by
  by_cases h5 : 5 ≤ n
  · have hb : klocalBits .a4 n = klocalV n gensA4 :=
      klocalBits_eq (gs := gensA4) rfl (by omega) (by simp [gensA4]) (by simp [gensA4, vXX, vYY])
    apply rowOK_of (nm := [so n, so n]) rfl
    rw [hb]
    exact inv_of_clo_two (maj_mZ n) (σ := sA4) (τ := tA4) (m := n)
      (fun i hi => by have := sA4_bounds i; omega)
      (fun i j hij _ => by have := sA4_bounds i; have := sA4_bounds j; omega)
      (fun i hi => by have := tA4_bounds i; omega)
      (fun i j hij _ => by have := tA4_bounds i; have := tA4_bounds j; omega)
      (fun i j _ _ => by have := sA4_bounds i; have := tA4_bounds j; omega) h5
      (uniform_klocalV (by simp [gensA4, vXX, vYY])) (blocks_a4 n).1
  · obtain rfl | rfl : n = 3 ∨ n = 4 := by omega
    · decide +kernel
    · decide +kernel

/-- **b3** (`XI`, `YI`, `IX`, `IY`): the row `n·su(2)` is correct with all invariants, for every n ≥ 3 -/
theorem C19_b3_row (n : Nat) (hn : 3 ≤ n) : rowOK .b3 n = true := by
  have hb : klocalBits .b3 n = klocalV n gensB3 :=
    klocalBits_eq (gs := gensB3) rfl (by omega) (by simp [gensB3]) (by simp [gensB3, vXI, vYI, vIX, vIY])
  have hU : Uniform n (klocalV n gensB3) := uniform_klocalV (by simp [gensB3, vXI, vYI, vIX, vIY])
  apply rowOK_of (nm := [su 2 n]) rfl
  rw [hb, invOfClosure_perm_closed (closedSet_closureList hU) (closureList_nodup _) (S' := singles n)
    ((List.perm_ext_iff_of_nodup (closureList_nodup _) (nodup_singles n)).2 (fun x => by
      rw [closureList_sound_complete hU, clo_b3 (by omega), mem_singles]))]
  exact invOfClosure_singles n (by omega)

/-- **C19, nine rows correct for ALL n ≥ 3** (all invariants: centre, block dimensions, series
labels, copies): a0, a1, a2, a4, a8, a14, b0, b1, b3 -/
theorem C19_rows (n : Nat) (hn : 3 ≤ n) :
    rowOK .a0 n = true ∧ rowOK .a1 n = true ∧ rowOK .a2 n = true ∧ rowOK .a4 n = true ∧
    rowOK .a8 n = true ∧ rowOK .a14 n = true ∧ rowOK .b0 n = true ∧ rowOK .b1 n = true ∧ rowOK .b3 n = true :=
  ⟨(C19_partial.1 n hn).1, C19_a1_row n hn, C19_a2_row n hn, C19_a4_row n hn, C19_a8_row n hn,
    C19_a14_row n hn, (C19_partial.1 n hn).2.1, (C19_partial.1 n hn).2.2, C19_b3_row n hn⟩

/-- **C19, partial (current state).**  Proved: (i) for ALL n ≥ 3 the rows a0, a1, a2, a4, a8, a14, b0,
b1, b3 are correct with all invariants (the closures are known in closed form: `C19_a1`, `C19_a2`,
`C19_a4`, `C19_a8`, `C19_a14`, `C19_b3`); (ii) at n = 3 the kernel decides every row - all correct
except exactly a11, a12, a17; (iii) no row is `None`.  Missing for the full statement: the other 19
families for n ≥ 4 (decided per (family, n) by the compiled verified enumerator, n ≤ 8), and the
whole classifier clause (differential execution only). -/
theorem C19_partial_rows :
    (∀ n, 3 ≤ n → rowOK .a0 n = true ∧ rowOK .a1 n = true ∧ rowOK .a2 n = true ∧ rowOK .a4 n = true ∧
      rowOK .a8 n = true ∧ rowOK .a14 n = true ∧ rowOK .b0 n = true ∧ rowOK .b1 n = true ∧ rowOK .b3 n = true) ∧
    (∀ f : Fam, f ≠ .a11 → f ≠ .a12 → f ≠ .a17 → rowOK f 3 = true) ∧
    (∀ (f : Fam) (n : Nat), (tlName f n).isSome = true) :=
  ⟨C19_rows, C19_partial.2.1, C19_partial.2.2⟩

/-! non-vacuity: the row check at n = 5 by kernel evaluation agrees (so(5) = sp(2), so(9), so(10)) -/
example : rowOK .a1 5 = true ∧ rowOK .a8 3 = true ∧ rowOK .a14 3 = true := by decide +kernel
example : invOfName [so 7] = ⟨0, [(21, 1, 1)]⟩ ∧ invOfName [so 5, so 5] = ⟨0, [(10, 0, 2)]⟩ := by decide +kernel

end C19
end PauLie
