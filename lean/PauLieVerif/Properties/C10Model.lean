/-
Property C10, instantiated at the *modelled classifier* `Collection.Kmodel`
(get_subgraphs + one `MorphFactory.build` per component).

`Properties/C10.lean` proves the refinement for any classifier under the hypothesis that the
classifier does not see the order produced by `sort()`.  Here that hypothesis is discharged
for the model of the real classifier with `C03.getSubgraphs_perm` (all strings synchronised,
`PS.WF`, which every public edit preserves), so that the only remaining hypothesis of the
history theorem is "`classify()` does not raise on the collections of the history".
-/
import PauLieVerif.Properties.C10
import PauLieVerif.Properties.C03

namespace PauLie
namespace C10
open Collection

variable {C R : Type}

def AllWF (g : List PS) : Prop := ∀ x ∈ g, x.WF

/-- the arguments of the edit are synchronised strings -/
def OpWF : Op → Prop
  | .append p => p.WF
  | .insert _ p => p.WF
  | .remove _ => True
  | .delitem _ => True
  | .replace _ q => q.WF
  | .contract p q => p.WF ∧ q.WF
  | .expand _ => True
  | .sort => True
  | .copy => True

/-! ### the generic theorems, relative to an invariant `P` of the generator list -/

theorem C10_cache_inv_on (P : List PS → Prop) (K : List PS → Option C × Option Err)
    (hK : ∀ g, P g → (K (sortGens g)).1 = (K g).1) (s : Coll C) (op : Op)
    (hP : P s.gens) (hs : CacheInv K s) : CacheInv K (step s op).1 := by
  unfold CacheInv at *
  have hg : (step s op).1.gens = (editList s.gens op).1 := rfl
  have hc : (step s op).1.cache =
      (match (editList s.gens op).2.1 with | .keep => s.cache | .drop => none) := rfl
  cases hk : (editList s.gens op).2.1 with
  | drop => left; rw [hc, hk]
  | keep =>
    rw [hc, hk, hg]
    rcases editList_keep s.gens op hk with h | h
    · rw [h]; exact hs
    · subst h
      rcases hs with hs | hs
      · left; exact hs
      · right; rw [hs]; simp only [editList]; exact (hK s.gens hP).symm

/-- which events carry admissible edits -/
def EventsOK (ok : Op → Prop) : List (Event C R) → Prop
  | [] => True
  | .edit op :: rest => ok op ∧ EventsOK ok rest
  | .query _ :: rest => EventsOK ok rest

/-- **C10, every history, relative to an invariant.**  `P` holds initially and is kept by the
admissible edits; on `P`-lists the classifier is order-independent and does not raise. -/
theorem C10_history_on (P : List PS → Prop) (ok : Op → Prop)
    (K : List PS → Option C × Option Err)
    (hPedit : ∀ g op, P g → ok op → P (editList g op).1)
    (hK : ∀ g, P g → (K (sortGens g)).1 = (K g).1)
    (hok : ∀ g, P g → (K g).2 = none)
    (evs : List (Event C R)) (hev : EventsOK ok evs) (s : Coll C) (hP : P s.gens)
    (hs : CacheInv K s) :
    (runEvents K s evs).1.gens = (specEvents K s.gens evs).1 ∧
    (runEvents K s evs).2 = (specEvents K s.gens evs).2 ∧
    CacheInv K (runEvents K s evs).1 ∧ P (runEvents K s evs).1.gens := by
  induction evs generalizing s with
  | nil => exact ⟨rfl, rfl, hs, hP⟩
  | cons e rest ih =>
    cases e with
    | edit op =>
      simp only [runEvents, specEvents]
      obtain ⟨hop, hrest⟩ := hev
      have := ih hrest (step s op).1 (by rw [C10_abs]; exact hPedit _ _ hP hop)
        (C10_cache_inv_on P K hK s op hP hs)
      rw [C10_abs] at this
      exact this
    | query q =>
      simp only [runEvents, specEvents]
      obtain ⟨hg, hi⟩ := C10_readonly K s q hs
      have := ih hev (ask K s q).1 (by rw [hg]; exact hP) hi
      rw [hg] at this
      refine ⟨this.1, ?_, this.2.2⟩
      rw [this.2.1, C10_query K s q hs (hok s.gens hP)]

/-! ### synchronised strings are kept by every edit -/

theorem wf_ofBits_of_wf {p : PS} (h : p.WF) (k : Nat) :
    (PS.ofBits (p.bits ++ List.replicate (2 * k) false)).WF :=
  C18.wf_ofBits' _ (by
    have := h.2.2
    simp only [List.length_append, List.length_replicate]
    omega)

theorem expand_wf {p p' : PS} {n : Int} (hp : p.WF) (h : p.expand n = .ok p') : p'.WF := by
  unfold PS.expand PS.identity at h
  split at h
  · cases h
  · simp only [bind, Except.bind, pure, Except.pure] at h
    cases h
    simpa [PS.tensor, PS.ofBits] using wf_ofBits_of_wf hp (n - ↑p.len).toNat

theorem expandAll_wf : ∀ {gens l : List PS} {n : Int}, AllWF gens → expandAll gens n = .ok l → AllWF l
  | [], l, n, _, h => by
    simp [expandAll, pure, Except.pure] at h
    subst h; intro x hx; cases hx
  | g :: gens, l, n, hw, h => by
    unfold expandAll at h
    rw [List.mapM_cons] at h
    cases hg : g.expand n with
    | error e => simp [hg, bind, Except.bind] at h
    | ok g' =>
      cases hr : gens.mapM (fun g => g.expand n) with
      | error e => simp [hg, hr, bind, Except.bind] at h
      | ok r =>
        simp [hg, hr, bind, Except.bind, pure, Except.pure] at h
        subst h
        intro x hx
        rcases List.mem_cons.mp hx with rfl | hx
        · exact expand_wf (hw g List.mem_cons_self) hg
        · exact expandAll_wf (n := n) (fun y hy => hw y (List.mem_cons_of_mem _ hy)) hr x hx

theorem processing_wf {gens l : List PS} {p p' : PS} (hw : AllWF gens) (hp : p.WF)
    (h : processing gens p = .ok (l, p')) : AllWF l ∧ p'.WF := by
  unfold processing at h
  split at h
  · cases h; exact ⟨hw, hp⟩
  · simp only at h
    split at h
    · cases he : p.expand ↑(longest gens) with
      | error e => simp [he, bind, Except.bind] at h
      | ok q =>
        simp [he, bind, Except.bind, pure, Except.pure] at h
        obtain ⟨rfl, rfl⟩ := h
        exact ⟨hw, expand_wf hp he⟩
    · split at h
      · cases he : expandAll gens ↑p.len with
        | error e => simp [he, bind, Except.bind] at h
        | ok q =>
          simp [he, bind, Except.bind, pure, Except.pure] at h
          obtain ⟨rfl, rfl⟩ := h
          exact ⟨expandAll_wf hw he, hp⟩
      · cases h; exact ⟨hw, hp⟩

theorem padMapM_wf (L : Nat) : ∀ {gens l : List PS}, AllWF gens →
    gens.mapM (fun g => if g.len < L then g.expand (L : Int) else Except.ok g) = .ok l → AllWF l
  | [], l, _, h => by
    simp [pure, Except.pure] at h; subst h; intro x hx; cases hx
  | g :: gens, l, hw, h => by
    rw [List.mapM_cons] at h
    cases hg : (if g.len < L then g.expand ↑L else Except.ok g) with
    | error e => simp [hg, bind, Except.bind] at h
    | ok g' =>
      cases hr : gens.mapM (fun g => if g.len < L then g.expand ↑L else Except.ok g) with
      | error e => simp [hg, hr, bind, Except.bind] at h
      | ok r =>
        simp [hg, hr, bind, Except.bind, pure, Except.pure] at h
        subst h
        intro x hx
        rcases List.mem_cons.mp hx with rfl | hx
        · split at hg
          · exact expand_wf (hw g List.mem_cons_self) hg
          · cases hg; exact hw _ List.mem_cons_self
        · exact padMapM_wf L (fun y hy => hw y (List.mem_cons_of_mem _ hy)) hr x hx

theorem collInit_wf {gens l : List PS} (hw : AllWF gens) (h : Graph.collInit gens = .ok l) : AllWF l := by
  unfold Graph.collInit at h
  split at h
  · cases h; intro x hx; cases hx
  · exact padMapM_wf _ hw h

theorem wf_copy {p : PS} (h : p.WF) : p.copy.WF := C18.wf_ofBits' _ h.2.2

theorem wf_of_mem_set {l : List PS} {k : Nat} {q : PS} (hl : AllWF l) (hq : q.WF) : AllWF (l.set k q) := by
  intro x hx
  rcases List.mem_or_eq_of_mem_set hx with h | h
  · exact hl x h
  · subst h; exact hq

/-- every public edit with synchronised arguments keeps all strings synchronised -/
theorem editList_wf (g : List PS) (op : Op) (hg : AllWF g) (hop : OpWF op) : AllWF (editList g op).1 := by
  cases op with
  | append p =>
    simp only [editList]
    cases h : processing g p with
    | error e => exact hg
    | ok r =>
      obtain ⟨l, p'⟩ := r
      obtain ⟨hl, hp'⟩ := processing_wf hg hop h
      simp only
      split
      · exact hl
      · intro x hx
        rcases List.mem_append.mp hx with hx | hx
        · exact hl x hx
        · simp at hx; subst hx; exact hp'
  | insert i p =>
    simp only [editList]
    cases h : processing g p with
    | error e => exact hg
    | ok r =>
      obtain ⟨l, p'⟩ := r
      obtain ⟨hl, hp'⟩ := processing_wf hg hop h
      simp only
      split
      · exact hl
      · intro x hx
        unfold pyInsert at hx
        simp only [List.mem_append, List.mem_cons] at hx
        rcases hx with hx | rfl | hx
        · exact hl x (List.mem_of_mem_take hx)
        · exact hp'
        · exact hl x (List.mem_of_mem_drop hx)
  | remove p =>
    simp only [editList]
    split
    · unfold removeFirst
      split
      · intro x hx; exact hg x (List.mem_of_mem_eraseIdx hx)
      · exact hg
    · exact hg
  | delitem i =>
    simp only [editList]
    split
    · intro x hx; exact hg x (List.mem_of_mem_eraseIdx hx)
    · exact hg
  | replace p q =>
    simp only [editList]
    split
    · exact hg
    · cases h : processing g q.copy with
      | error e => exact hg
      | ok r =>
        obtain ⟨l, q'⟩ := r
        obtain ⟨hl, hq'⟩ := processing_wf hg (wf_copy hop) h
        exact wf_of_mem_set hl hq'
  | contract p q =>
    simp only [editList]
    cases hm : p.multiply q with
    | error e => exact hg
    | ok r =>
      simp only
      split
      · exact hg
      · have hr : r.WF := by
          unfold PS.multiply PS.xorBits at hm
          by_cases hl : p.bits.length = q.bits.length
          · simp [hl, bind, Except.bind, pure, Except.pure] at hm
            subst hm
            exact C18.wf_ofBits' _ (by simp [hl]; exact hop.2.2.2)
          · simp [hl, bind, Except.bind, throw, throwThe, MonadExceptOf.throw] at hm
        cases h : processing g r.copy with
        | error e => exact hg
        | ok rr =>
          obtain ⟨l, r'⟩ := rr
          obtain ⟨hl, hr'⟩ := processing_wf hg (wf_copy hr) h
          exact wf_of_mem_set hl hr'
  | expand n =>
    simp only [editList]
    cases h : expandAll g n with
    | error e => exact hg
    | ok l => exact expandAll_wf hg h
  | sort =>
    simp only [editList, sortGens]
    intro x hx
    exact hg x ((List.mergeSort_perm _ _).mem_iff.mp hx)
  | copy =>
    simp only [editList]
    cases h : Graph.collInit g with
    | error e => exact hg
    | ok l => exact collInit_wf hg h

/-! ### the modelled classifier -/

/-- the modelled classifier does not see the order produced by `sort()` -/
theorem Kmodel_sort (g : List PS) (hg : AllWF g) : (Kmodel (sortGens g)).1 = (Kmodel g).1 := by
  have hperm : List.Perm g (sortGens g) := (List.mergeSort_perm _ _).symm
  have := C03.getSubgraphs_perm hg hperm
  unfold Kmodel
  rw [← this]

/-- **C10 for the modelled classifier.**  Along every history of edits (with synchronised
arguments) and queries on a collection of synchronised strings, provided `classify()` does not
raise on the collections met, every answer is the answer of a freshly built collection holding
the same strings — including after `sort()`, which keeps the cached classification. -/
theorem C10_model (hno : ∀ g, AllWF g → (Kmodel g).2 = none)
    (evs : List (Event Cls R)) (hev : EventsOK OpWF evs) (g : List PS) (hg : AllWF g) :
    (runEvents Kmodel (fresh g) evs).1.gens = (specEvents Kmodel g evs).1 ∧
    (runEvents Kmodel (fresh g) evs).2 = (specEvents Kmodel g evs).2 :=
  let h := C10_history_on AllWF OpWF Kmodel (fun g op hg hop => editList_wf g op hg hop)
    Kmodel_sort hno evs hev (fresh g) hg (Or.inl rfl)
  ⟨h.1, h.2.1⟩

end C10
end PauLie
