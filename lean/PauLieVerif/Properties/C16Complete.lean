/-
Property C16, the COMPLETENESS half (the clause `Properties/C16.lean` left open), for the
model `PauLieVerif/Model/SecondMoment.lean` of `get_full_quadratic_basis` and
`second_moment`, for **every** qubit count `n` and every non-empty collection `G` of
synchronised strings of length `n`:

  "… and their number equals the dimension of the space of all 2n-qubit operators with that
   commutation property.  The second-moment twirl is the orthogonal projector onto that
   space …"

  * `C16_complete`: every operator on `2n` qubits (any complex `4ⁿ × 4ⁿ` matrix, in particular
    every `den m` of a term list with exact coefficients) that commutes with `g ⊗ 1 + 1 ⊗ g`
    for every member `g` is a linear combination of the returned symmetries — explicitly
    `X = Σ_Q (tr(Qᴴ X)/tr(Qᴴ Q)) • Q`.
  * `C16_count`: the number of returned symmetries **equals** the dimension
    (`Module.finrank ℂ`) of the commutant (`Complete`, the hypothesis of `C16_partial`).
  * `C16_twirl_is_projection`: the model's twirl of `m` lies in the commutant, equals `m` iff
    `m` is in the commutant, its residual is trace-orthogonal to the **whole** commutant, and
    it is the unique element of the commutant with that property.
  * `C16_full`: the full statement `C16_statement` of `Properties/C16.lean`, no hypothesis.

Proof idea (arXiv:2502.16404, made elementary).  Write `x(P,Q) = tr((M P ⊗ M Q)ᴴ X)` for the
Pauli coefficients of `X`.  Commutation with `g ⊗ 1 + 1 ⊗ g` says (`Proofs/C16Complete1`):
`x(P,Q) = 0` when `g` anticommutes with exactly one of `P`, `Q`; and
`x(P,Q) = −x(gP,gQ)` when it anticommutes with both.  So `x` is supported on pairs
`(s, l·s)` with `l` commuting with all of `G` (a linear symmetry), and for fixed `l` the
coefficient of the summand `M s ⊗ M l M s` is invariant under the moves `s ↦ s·g` of the
commutator graph, hence constant on each component (induction along `Conn`).  If `X` is
moreover orthogonal to all symmetries `Q_{c,l} = Σ_{s∈c} M s ⊗ M l M s`, the constant times
`|c|` is zero, so every coefficient vanishes and `X = 0` because the Pauli-string matrices
span.  Apply this to `X − proj X`.  Sign frustration on a component plays no role: the
relation along a move is the one the symmetry `Q_{c,l}` itself satisfies, and a symmetry that
the zero filter of the source dropped would denote the zero matrix, so it pairs to zero with
everything (that the filter never drops anything is neither needed nor proved here).

Scope: as in `Properties/C16.lean` (exact Gaussian-rational coefficients; the float
realisation of the source is compared at `1e-9` by the harness).
-/
import PauLieVerif.Proofs.C16Complete3
import PauLieVerif.Properties.C16

namespace PauLie
namespace C16

open Matrix Complex C12 C14 Graph SecondMoment

/-- **C16, completeness**: "the space of all 2n-qubit operators with that commutation
property" is spanned by the returned symmetries.  Every matrix `X` on `2n` qubits commuting
with `g ⊗ 1 + 1 ⊗ g` for all members `g` equals its projection
`Σ_Q (tr(Qᴴ X)/tr(Qᴴ Q)) • Q` and so lies in the span of the symmetries. -/
theorem C16_complete {n : ℕ} {G : List PS} (hG : Uniform n G) (hne : G ≠ []) :
    ∃ basis, getFullQuadraticBasis G = .ok basis ∧
      ∀ X : Mat (n + n), (∀ g ∈ G, X * gg n g = gg n g * X) →
        X = proj (basis.map (den (n + n))) X ∧
        X ∈ Submodule.span ℂ {Q | Q ∈ basis.map (den (n + n))} := by
  obtain ⟨basis, hb, _, hc, hO⟩ := basis_main hG hne
  refine ⟨basis, hb, fun X hX => ?_⟩
  have h := commutant_eq_proj hG hne hb hc hO X hX
  refine ⟨h.symm, ?_⟩
  rw [← h]
  exact proj_mem_span _ _

/-- the same for operators given as term lists with exact coefficients: if `den m` commutes
with every `g ⊗ 1 + 1 ⊗ g` then the model's twirl returns (a term list denoting) `m` itself,
a combination of the symmetries -/
theorem C16_complete_lin {n : ℕ} {G : List PS} (hG : Uniform n G) (hne : G ≠ [])
    (m : Lin) (hm : Valid (n + n) m)
    (hcomm : ∀ g ∈ G, den (n + n) m * gg n g = gg n g * den (n + n) m) :
    ∃ basis r, getFullQuadraticBasis G = .ok basis ∧ twirl m G = .ok r ∧
      den (n + n) r = den (n + n) m ∧
      den (n + n) m = proj (basis.map (den (n + n))) (den (n + n) m) := by
  obtain ⟨basis, hb, hv, hc, hO⟩ := basis_main hG hne
  obtain ⟨r, e, d, _⟩ := twirl_spec hb hv hm
  have h := commutant_eq_proj hG hne hb hc hO _ hcomm
  exact ⟨basis, r, hb, e, by rw [d, h], h.symm⟩

/-- **C16, the count**: "their number equals the dimension of the space of all 2n-qubit
operators with that commutation property". -/
theorem C16_count {n : ℕ} {G : List PS} (hG : Uniform n G) (hne : G ≠ []) :
    ∃ basis, getFullQuadraticBasis G = .ok basis ∧
      basis.length = Module.finrank ℂ (commutant n G) := by
  obtain ⟨basis, hb, _, hc, hO⟩ := basis_main hG hne
  refine ⟨basis, hb, ?_⟩
  have hmem : ∀ Q ∈ basis.map (den (n + n)), Q ∈ commutant n G := by
    intro Q hQ
    obtain ⟨q, hq, rfl⟩ := List.mem_map.mp hQ
    exact hc q hq
  have := length_eq_finrank (commutant n G) (basis.map (den (n + n))) hO hmem
    (fun X hX => by
      rw [← commutant_eq_proj hG hne hb hc hO X hX]
      exact proj_mem_span _ _)
  simpa using this

/-- the hypothesis of `C16_partial`, proved -/
theorem C16_complete_count (n : ℕ) (G : List PS) (hG : Uniform n G) (hne : G ≠ [])
    (basis : List Lin) (hb : getFullQuadraticBasis G = .ok basis) : Complete n G basis := by
  obtain ⟨basis', hb', h⟩ := C16_count hG hne
  obtain rfl : basis' = basis := by rw [hb] at hb'; exact (Except.ok.inj hb').symm
  exact h

/-- **C16, in full**: every clause of the property, for all `n` and all non-empty
collections, with no hypothesis left. -/
theorem C16_full : C16_statement := C16_partial C16_complete_count

/-- **C16, the twirl is THE orthogonal projection onto the commutant.**  For every operator
`m` on `2n` qubits, `r = second_moment(m, G)`:
  (1) `r` is in the commutant;
  (2) `r = m` (as matrices) iff `m` is in the commutant;
  (3) the residual `m − r` is trace-orthogonal to *every* element of the commutant;
  (4) `r` is the *unique* element of the commutant with property (3). -/
theorem C16_twirl_is_projection {n : ℕ} {G : List PS} (hG : Uniform n G) (hne : G ≠ [])
    (m : Lin) (hm : Valid (n + n) m) :
    ∃ r, twirl m G = .ok r ∧
      den (n + n) r ∈ commutant n G ∧
      (den (n + n) r = den (n + n) m ↔ den (n + n) m ∈ commutant n G) ∧
      (∀ Y ∈ commutant n G, (Yᴴ * (den (n + n) m - den (n + n) r)).trace = 0) ∧
      (∀ Z ∈ commutant n G,
        (∀ Y ∈ commutant n G, (Yᴴ * (den (n + n) m - Z)).trace = 0) → Z = den (n + n) r) := by
  obtain ⟨basis, hb, hv, hc, hO⟩ := basis_main hG hne
  obtain ⟨r, e, d, _⟩ := twirl_spec hb hv hm
  set Qs := basis.map (den (n + n)) with hQs
  set X := den (n + n) m with hX
  have hQc : ∀ Q ∈ Qs, ∀ g ∈ G, Q * gg n g = gg n g * Q := by
    intro Q hQ g hg
    obtain ⟨q, hq, rfl⟩ := List.mem_map.mp hQ
    exact hc q hq g hg
  have h1 : proj Qs X ∈ commutant n G :=
    fun g hg => proj_commute Qs X _ (fun Q hQ => hQc Q hQ g hg)
  have h3 : ∀ Y ∈ commutant n G, ip Y (X - proj Qs X) = 0 := by
    intro Y hY
    rw [← commutant_eq_proj hG hne hb hc hO Y hY]
    exact ip_eq_zero_symm
      (ip_proj_of_orth _ Qs Y (fun Q hQ => ip_eq_zero_symm (ip_residual hO X Q hQ)))
  refine ⟨r, e, ?_, ?_, ?_, ?_⟩
  · rw [d]; exact h1
  · rw [d]
    constructor
    · intro h; rw [← h]; exact h1
    · intro h; exact commutant_eq_proj hG hne hb hc hO X h
  · intro Y hY
    rw [d]; exact h3 Y hY
  · intro Z hZ hZo
    rw [d]
    have hD : Z - proj Qs X ∈ commutant n G := Submodule.sub_mem _ hZ h1
    have e1 : Z - proj Qs X = (X - proj Qs X) - (X - Z) := by abel
    have h0 : ip (Z - proj Qs X) (Z - proj Qs X) = 0 := by
      conv_lhs => rw [e1, ip_sub_right]
      rw [← e1, h3 _ hD, zero_sub, neg_eq_zero]
      exact hZo _ hD
    exact eq_of_sub_eq_zero ((ip_self_eq_zero_iff _).mp h0)

/-! non-vacuity: `G = [X]` on one qubit (six symmetries, `Properties/C16.lean`); the
symmetry `YY + ZZ` is in the commutant, `YZ + XX/2` is not (its twirl is
`(YZ − ZY)/2 + XX/2`, see the example after `C16_twirl_formula`) -/
example : ∃ basis, getFullQuadraticBasis exG = .ok basis ∧
    basis.length = Module.finrank ℂ (commutant 1 exG) :=
  C16_count (n := 1) (by decide) (by decide)
example := C16_complete (n := 1) (G := exG) (by decide) (by decide)
example := C16_twirl_is_projection (n := 1) (G := exG) (by decide) (by decide) exM (by decide)
/-- the hypothesis of `C16_complete_lin` is satisfiable: the empty combination (the zero
operator) commutes with everything -/
example := C16_complete_lin (n := 1) (G := exG) (by decide) (by decide) [] (by decide)
  (by intro g _; simp)

end C16
end PauLie
