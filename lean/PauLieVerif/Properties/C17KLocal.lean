/-
Property C17, k-local clause, for the model `PauLie.Graph` (Model/Graph.lean:
`collInit`, `genKLocal`, `genKLocalGenerators`, `getPauliStringList`; a transcription of
`get_pauli_string`, `gen_k_local_generators`, `gen_k_local`, class `Used` of
`src/paulie/common/pauli_string_factory.py` and of `PauliStringCollection.__init__`):

  "Expanding a generator list to n qubits yields exactly the distinct translates
  of each (right-padded) generator, each once, all of length n."

Proved for EVERY list of synchronised generators (any lengths, duplicates, identities
and empty strings allowed) and EVERY `n`:

* `n ≥` the longest length `L`: the result is
  `dedupKeepFirst (gens'.flatMap (translates n))`, `gens'` = the generators right-padded
  with identities to `L` (`C17_klocal`), hence all of length `n` (`C17_klocal_length`),
  duplicate-free (`C17_klocal_nodup`), containing exactly the translates
  (`C17_klocal_mem`, letter form `C17_klocal_letters`), in first-occurrence order
  (`C17_klocal_order`); a non-identity generator has exactly `n − L + 1` distinct
  translates (`C17_klocal_count`);
* `n <` the longest length, or an empty list: `ValueError` (`C17_klocal_short`,
  `C17_klocal_empty`);
* `n = None`: only the padding (`C17_klocal_none`).

Spec vocabulary (`translate`, `translates`, `dedupKeepFirst`) and the simulation of the
two loops are in `PauLieVerif/Proofs/C17KLocalLemmas.lean`; `padTo`, `maxLen` are those
of `C14_collection`.  Only property theorems and `example`s live here.
-/
import PauLieVerif.Proofs.C17KLocalLemmas

namespace PauLie
namespace C17

open PS Graph
open C14 (padTo maxLen)

/-! ## The expansion, `n ≥` the longest generator -/

/-- "Expanding a generator list to n qubits yields exactly the distinct translates of each
(right-padded) generator, each once, all of length n": with `L` the longest length and every
generator right-padded with identities to `L`, `get_pauli_string(gens, n)` returns, generator
by generator in order, the translates `I^j · g' · I^(n−L−j)`, `j = 0 .. n−L` in order, keeping
only the FIRST occurrence of every string. -/
theorem C17_klocal (gens : List PS) (hw : ∀ g ∈ gens, g.WF) (hne : gens ≠ []) (n : Nat)
    (hn : maxLen gens ≤ n) :
    getPauliStringList gens (some n)
      = .ok (dedupKeepFirst ((gens.map (padTo (maxLen gens))).flatMap (translates n))) := by
  unfold getPauliStringList
  have hpl : ∀ g ∈ gens.map (padTo (maxLen gens)), g.len ≤ n := by
    intro p hp
    obtain ⟨g, hg, rfl⟩ := List.mem_map.1 hp
    rw [padTo_len (le_maxLen hg)]; exact hn
  have hpw : ∀ g ∈ gens.map (padTo (maxLen gens)), g.WF := by
    intro p hp
    obtain ⟨g, _, rfl⟩ := List.mem_map.1 hp
    exact padTo_wf _ g
  have h2 := genKLocalGenerators_eq (n := n) (by simpa using hne) hpw hpl
  have h3 : collInit (dedupKeepFirst ((gens.map (padTo (maxLen gens))).flatMap (translates n)))
      = .ok (dedupKeepFirst ((gens.map (padTo (maxLen gens))).flatMap (translates n))) := by
    apply C19.collInit_same _ n
    intro x hx
    obtain ⟨g, _, hx⟩ := List.mem_flatMap.1 (mem_dedupKeepFirst.1 hx)
    exact translates_len x hx
  simp only [C14.collInit_eq gens hw, bind, Except.bind, h2, h3]

/-- the result of the expansion, as a function (the right-hand side of `C17_klocal`) -/
def klocalSpec (gens : List PS) (n : Nat) : List PS :=
  dedupKeepFirst ((gens.map (padTo (maxLen gens))).flatMap (translates n))

/-- "… all of length n": every returned string is synchronised and has length `n` -/
theorem C17_klocal_length (gens : List PS) (hw : ∀ g ∈ gens, g.WF) (hne : gens ≠ []) (n : Nat)
    (hn : maxLen gens ≤ n) :
    ∃ out, getPauliStringList gens (some n) = .ok out ∧ ∀ x ∈ out, x.WF ∧ x.len = n := by
  refine ⟨_, C17_klocal gens hw hne n hn, ?_⟩
  intro x hx
  obtain ⟨g, _, hx⟩ := List.mem_flatMap.1 (mem_dedupKeepFirst.1 hx)
  exact ⟨translates_wf x hx, translates_len x hx⟩

/-- "… each once": no string is returned twice -/
theorem C17_klocal_nodup (gens : List PS) (hw : ∀ g ∈ gens, g.WF) (hne : gens ≠ []) (n : Nat)
    (hn : maxLen gens ≤ n) :
    ∃ out, getPauliStringList gens (some n) = .ok out ∧ out.Nodup :=
  ⟨_, C17_klocal gens hw hne n hn, nodup_dedupKeepFirst _⟩

/-- "… exactly the distinct translates of each (right-padded) generator": `x` is returned iff
it is `I^j · g' · I^(n−L−j)` for a generator `g`, `g'` its padding to the longest length `L`, and
an offset `0 ≤ j ≤ n − L` -/
theorem C17_klocal_mem (gens : List PS) (hw : ∀ g ∈ gens, g.WF) (hne : gens ≠ []) (n : Nat)
    (hn : maxLen gens ≤ n) :
    ∃ out, getPauliStringList gens (some n) = .ok out ∧
      ∀ x, x ∈ out ↔ ∃ g ∈ gens, ∃ j, j + maxLen gens ≤ n ∧ x = translate n (padTo (maxLen gens) g) j := by
  refine ⟨_, C17_klocal gens hw hne n hn, ?_⟩
  intro x
  rw [mem_dedupKeepFirst, List.mem_flatMap]
  constructor
  · rintro ⟨p, hp, hx⟩
    obtain ⟨g, hg, rfl⟩ := List.mem_map.1 hp
    obtain ⟨j, hj, rfl⟩ := mem_translates.1 hx
    rw [padTo_len (le_maxLen hg)] at hj
    exact ⟨g, hg, j, hj, rfl⟩
  · rintro ⟨g, hg, j, hj, rfl⟩
    refine ⟨_, List.mem_map.2 ⟨g, hg, rfl⟩, mem_translates.2 ⟨j, ?_, rfl⟩⟩
    rw [padTo_len (le_maxLen hg)]; exact hj

/-- the same in letters of the ORIGINAL generators: `x` is returned iff it is synchronised and
reads `I^j · g · I^(L − len g) · I^(n−L−j)` -/
theorem C17_klocal_letters (gens : List PS) (hw : ∀ g ∈ gens, g.WF) (hne : gens ≠ []) (n : Nat)
    (hn : maxLen gens ≤ n) :
    ∃ out, getPauliStringList gens (some n) = .ok out ∧
      ∀ x, x ∈ out ↔ x.WF ∧ ∃ g ∈ gens, ∃ j, j + maxLen gens ≤ n ∧
        x.letters = List.replicate j Letter.I ++ (g.letters ++ List.replicate (maxLen gens - g.len) Letter.I)
          ++ List.replicate (n - maxLen gens - j) Letter.I := by
  obtain ⟨out, h1, h2⟩ := C17_klocal_mem gens hw hne n hn
  refine ⟨out, h1, fun x => ?_⟩
  rw [h2]
  constructor
  · rintro ⟨g, hg, j, hj, rfl⟩
    refine ⟨translate_wf _ _ _, g, hg, j, hj, ?_⟩
    rw [translate_letters, padTo_letters, padTo_len (le_maxLen hg)]
  · rintro ⟨hx, g, hg, j, hj, hl⟩
    refine ⟨g, hg, j, hj, ?_⟩
    rw [C18.eq_ofLetters_of_WF x hx, hl, translate, padTo_letters, padTo_len (le_maxLen hg)]

/-- "… first occurrence kept": the returned strings stand in the order of their first
occurrence in the full list of translates (together with `C17_klocal_nodup` and
`C17_klocal_mem` this determines the result) -/
theorem C17_klocal_order (gens : List PS) (hw : ∀ g ∈ gens, g.WF) (hne : gens ≠ []) (n : Nat)
    (hn : maxLen gens ≤ n) :
    ∃ out, getPauliStringList gens (some n) = .ok out ∧
      out.Sublist ((gens.map (padTo (maxLen gens))).flatMap (translates n)) ∧
      out.Pairwise (fun x y =>
        ((gens.map (padTo (maxLen gens))).flatMap (translates n)).idxOf x
          < ((gens.map (padTo (maxLen gens))).flatMap (translates n)).idxOf y) :=
  ⟨_, C17_klocal gens hw hne n hn, dedupKeepFirst_sublist _, dedupKeepFirst_order _⟩

/-- "distinct translates": a generator with a non-identity letter has exactly `n − L + 1`
pairwise different translates (an all-identity generator has one); a single such generator is
therefore expanded to exactly its `n − L + 1` translates -/
theorem C17_klocal_count (g : PS) (hw : g.WF) (hg : ∃ l ∈ g.letters, l ≠ Letter.I) (n : Nat)
    (hn : g.len ≤ n) :
    getPauliStringList [g] (some n) = .ok (translates n g) ∧ (translates n g).Nodup
      ∧ (translates n g).length = n - g.len + 1 := by
  have hm : maxLen [g] = g.len := by simp [maxLen]
  have hp : padTo g.len g = g := by
    rw [padTo, Nat.sub_self, List.replicate_zero, List.append_nil]
    exact (C18.eq_ofLetters_of_WF g hw).symm
  refine ⟨?_, translates_nodup hg, by rw [translates_length]; omega⟩
  rw [C17_klocal [g] (by simpa using hw) (by simp) n (by omega), hm]
  simp only [List.map_cons, List.map_nil, List.flatMap_cons, List.flatMap_nil, List.append_nil, hp]
  rw [dedupKeepFirst_of_nodup (translates_nodup hg)]

/-! ## Outside the hypothesis -/

/-- `n` smaller than the longest generator: the first generator (already padded to the longest
length by the collection constructor) makes `gen_k_local` raise `ValueError`, which `list(...)`
in `get_pauli_string` propagates -/
theorem C17_klocal_short (gens : List PS) (hw : ∀ g ∈ gens, g.WF) (n : Nat)
    (hn : n < maxLen gens) :
    getPauliStringList gens (some n) = .error .valueError := by
  unfold getPauliStringList
  cases gens with
  | nil => simp [maxLen] at hn
  | cons g t =>
    have hl : n < (padTo (maxLen (g :: t)) g).len := by
      rw [padTo_len (le_maxLen (by simp))]; exact hn
    simp only [C14.collInit_eq (g :: t) hw, bind, Except.bind, List.map_cons,
      genKLocalGenerators_short hl]

/-- the empty generator list: `max` of an empty sequence raises `ValueError`, for every `n` -/
theorem C17_klocal_empty (n : Nat) : getPauliStringList [] (some n) = .error .valueError := rfl

/-- `n = None`: only the padding of `PauliStringCollection.__init__` -/
theorem C17_klocal_none (gens : List PS) (hw : ∀ g ∈ gens, g.WF) :
    getPauliStringList gens none = .ok (gens.map (padTo (maxLen gens))) := by
  unfold getPauliStringList
  simp only [C14.collInit_eq gens hw, bind, Except.bind, pure, Except.pure]

/-! ## Non-vacuity -/

/-- `["XZ", "IXZI"]` to 5 qubits (the witness of the seeded change of this clause): `XZ` is
padded to `XZII`; its two translates come first, `IXZI` contributes `IXZII` (already there, from
`XZII` at offset 1: dropped) and `IIXZI`.  `IIIXZ` is NOT a translate of a padded generator. -/
example : getPauliStringList [PS.ofLetters [.X, .Z], PS.ofLetters [.I, .X, .Z, .I]] (some 5)
    = .ok [PS.ofLetters [.X, .Z, .I, .I, .I], PS.ofLetters [.I, .X, .Z, .I, .I],
           PS.ofLetters [.I, .I, .X, .Z, .I]] := by decide

example : klocalSpec [PS.ofLetters [.X, .Z], PS.ofLetters [.I, .X, .Z, .I]] 5
    = [PS.ofLetters [.X, .Z, .I, .I, .I], PS.ofLetters [.I, .X, .Z, .I, .I],
       PS.ofLetters [.I, .I, .X, .Z, .I]] := by decide

/-- a single two-letter generator to 5 qubits: its four translates -/
example : getPauliStringList [PS.ofLetters [.X, .Z]] (some 5)
    = .ok [PS.ofLetters [.X, .Z, .I, .I, .I], PS.ofLetters [.I, .X, .Z, .I, .I],
           PS.ofLetters [.I, .I, .X, .Z, .I], PS.ofLetters [.I, .I, .I, .X, .Z]] := by decide

/-- duplicates and colliding translates are dropped, an identity generator has one translate -/
example : getPauliStringList [PS.ofLetters [.X], PS.ofLetters [.X], PS.ofLetters [.I], PS.ofLetters [.I, .X]]
      (some 3)
    = .ok [PS.ofLetters [.X, .I, .I], PS.ofLetters [.I, .X, .I], PS.ofLetters [.I, .I, .I],
           PS.ofLetters [.I, .I, .X]] := by decide

example : (dedupKeepFirst ((([PS.ofLetters [.X, .Z], PS.ofLetters [.I, .X, .Z, .I]]).map
    (padTo 4)).flatMap (translates 5))).length = 3 := by decide

example : getPauliStringList [PS.ofLetters [.X, .Z], PS.ofLetters [.I, .X, .Z, .I]] (some 3)
    = .error .valueError := C17_klocal_short _ (by decide) 3 (by decide)

example : getPauliStringList [PS.ofLetters [.X, .Z], PS.ofLetters [.I, .X, .Z, .I]] none
    = .ok [PS.ofLetters [.X, .Z, .I, .I], PS.ofLetters [.I, .X, .Z, .I]] := by decide

end C17
end PauLie
