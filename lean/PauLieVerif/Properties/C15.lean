/-
Property C15 (verbatim):
  "For every collection G and strings V, W: the averaged OTOC equals
  1 - 2*(fraction of the orbit of V under repeated commutation with members of G
  that anticommutes with W), and the average graph complexity of V equals the
  mean shortest-path distance from V over that orbit. Consequently the OTOC is
  symmetric in V and W, lies in [-1,1], equals +-1 when V commutes with all of
  G, and both quantities' orbits are unchanged when G is replaced by any other
  generating set of the same algebra."

All theorems are about the executable model `PauLie.Otoc` (Model/Otoc.lean) and
hold for ALL n, ALL collections and ALL strings.  The model returns the integer
pairs `(a, s)` = (`anti_commute_count`, `v_connected_component_size`) and
`(sum, size)` = (`sum(spl.values())`, `subgraph.number_of_nodes()`); the final
floating-point operations `1 - 2*a/s` and `sum/size` are NOT part of the model or
of any theorem — every statement below is about the exact integers (statements
about the quotient are given cross-multiplied).

Vocabulary (Spec/Clo.lean, Spec/OrbitDist.lean; bit lists `Closure.V`, `ω = omega`
"anticommute", `add` = product up to phase):
  `Orbit G v`   least set containing `v` closed under `x ↦ x+g`, `g ∈ G`, `ω x g`
  `Walk G v k x`, `Dist G v x k`  walk of `k` moves / shortest-path length
  `Clo G`       commutator closure (Pauli basis of the dynamical Lie algebra)
A *collection* is a list of synchronised strings of one length (`C14.Uniform n G`),
which is what `PauliStringCollection.__init__` builds (`C14.C14_collection`); its
bit lists satisfy `Closure.Uniform n`.  An enumeration of the orbit is any
duplicate-free list `L` with `x ∈ L ↔ Orbit G v x`; `|{x ∈ Orbit | ω w x}|` is
`L.countP (ω w ·)`, `|Orbit|` is `L.length`.
Only property theorems and `example`s live here.
-/
import PauLieVerif.Proofs.C15Refine

namespace PauLie
namespace C15

open Closure Otoc Graph

/-- an enumeration of the orbit of `v` -/
def EnumOrbit (G : List V) (v : V) (L : List V) : Prop := L.Nodup ∧ ∀ x, x ∈ L ↔ Orbit G v x

abbrev bitsOf (G : List PS) : List V := G.map (·.bits)

/-! concrete data for the examples: `G = [XI, ZZ]`, `V = ZI`, `W = XI`;
orbit of `V` = `{ZI, YI, XZ}`, two of which anticommute with `W` -/
def exG : List PS := [PS.ofLetters [.X, .I], PS.ofLetters [.Z, .Z]]
def exV : PS := PS.ofLetters [.Z, .I]
def exW : PS := PS.ofLetters [.X, .I]

example : C14.Uniform 2 exG := by decide
example : (averageOtoc exG exV exW).map (fun R => (R.anti, R.size, R.done)) = .ok (2, 3, true) := by
  decide
/-- `XX` commutes with `exG`: its orbit is `{XX}` -/
def exX : PS := PS.ofLetters [.X, .X]
example : (averageOtoc exG exV exX).map (fun R => (R.anti, R.size, R.done)) = .ok (3, 3, true) := by
  decide
example : (averageOtoc exG exX exV).map (fun R => (R.anti, R.size, R.done)) = .ok (1, 1, true) := by
  decide

/-! ## (1) the BFS of `average_otoc` -/

/-- "the averaged OTOC equals 1 - 2*(fraction of the orbit of V … that anticommutes
with W)" — core on bit lists: the `while queue` loop never runs out of the model's
fuel, its `visited` set is a duplicate-free enumeration of the orbit (sound,
complete), and against ANY enumeration `L` of the orbit the two counters are
`|{x ∈ Orbit | ω w x}|` and `|Orbit|`. -/
theorem C15_otoc_bfs {n : Nat} {G : List V} (hG : Uniform n G) {v : V} (hv : v.length = 2 * n)
    (w : V) :
    (otocCore G v w).done = true ∧ EnumOrbit G v (otocCore G v w).visited ∧
    ∀ L, EnumOrbit G v L →
      (otocCore G v w).anti = L.countP (fun x => omega w x) ∧ (otocCore G v w).size = L.length := by
  obtain ⟨hd, hF⟩ := otocCore_spec hG hv w
  exact ⟨hd, ⟨hF.nodup, hF.mem⟩, fun L hL => otocCore_counts hG hv w hL.1 hL.2⟩

/-- the same for the source-level transcription (`PS` methods, `Except` for the
exceptions): on a collection and strings of its length `average_otoc` raises
nothing, ends with an empty queue, and returns `(|{x ∈ Orbit | ω W x}|, |Orbit|)`. -/
theorem C15_otoc_source {n : Nat} {G : List PS} (hG : C14.Uniform n G) {v w : PS}
    (hv : v.WF ∧ v.len = n) (hw : w.WF ∧ w.len = n) :
    ∃ R, averageOtoc G v w = .ok R ∧ R.done = true ∧
      EnumOrbit (bitsOf G) v.bits (R.visited.map (·.bits)) ∧
      ∀ L, EnumOrbit (bitsOf G) v.bits L →
        R.anti = L.countP (fun x => omega w.bits x) ∧ R.size = L.length := by
  obtain ⟨R, h1, h2⟩ := averageOtoc_refines hG hv hw
  obtain ⟨hd, he, hc⟩ := C15_otoc_bfs (uniform_bits hG) (bits_length hv) w.bits
  rw [← h2] at hd he hc
  exact ⟨R, h1, hd, he, hc⟩

/-- strings not on the same qubits: the first `w | t` raises `ValueError` -/
theorem C15_otoc_length_mismatch (G : List PS) (v w : PS) (h : w.len ≠ v.len) :
    averageOtoc G v w = .error .valueError := by
  unfold averageOtoc otocFuel loopPS
  simp [containsPS, PS.commutesWith, h, bind, Except.bind, throw, throwThe, MonadExceptOf.throw]

example : averageOtoc exG exV (PS.ofLetters [.X]) = .error .valueError :=
  C15_otoc_length_mismatch _ _ _ (by decide)

/-! ## (2) the BFS layering of `average_graph_complexity` -/

/-- "the average graph complexity of V equals the mean shortest-path distance from
V over that orbit" — core: for every neighbour function that lists exactly the
generator moves, the level-synchronous BFS ends with an empty frontier; it
assigns `k` to `x` iff `k` is the shortest-path length `Dist G v x k` (a walk of
`k` moves exists and none shorter); its nodes are exactly the orbit, each once;
hence the sum of the assigned distances is `Σ_{x ∈ Orbit} d(v,x)` and the number
of nodes `|Orbit|`, for any enumeration `L` and any `δ` giving the distance on `L`. -/
theorem C15_agc_bfs {n : Nat} {G : List V} (hG : Uniform n G) {v : V} (hv : v.length = 2 * n)
    {nbrs : V → List V} (hn : ∀ z, z.length = 2 * n → ∀ y, y ∈ nbrs z ↔ y ∈ expand G z) :
    (splCore nbrs v).2 = true ∧
    (∀ x k, (x, k) ∈ (splCore nbrs v).1 ↔ Dist G v x k) ∧
    EnumOrbit G v ((splCore nbrs v).1.map Prod.fst) ∧
    ∀ L (δ : V → Nat), EnumOrbit G v L → (∀ x, x ∈ L → Dist G v x (δ x)) →
      ((splCore nbrs v).1.map Prod.snd).sum = (L.map δ).sum ∧ (splCore nbrs v).1.length = L.length := by
  obtain ⟨h1, h2, h3⟩ := splCore_spec hG hv hn
  refine ⟨h1, h2, ⟨h3, fun x => ?_⟩, fun L δ hL hδ => spl_sum h2 h3 hL.1 hL.2 δ hδ⟩
  rw [mem_keys]
  constructor
  · rintro ⟨k, hk⟩; exact walk_orbit ((h2 x k).1 hk).1
  · intro ho; obtain ⟨k, hk⟩ := dist_of_orbit ho; exact ⟨k, (h2 x k).2 hk⟩

/-- every orbit element has exactly one distance (so `δ` above exists and is unique) -/
theorem C15_dist_exists_unique {G : List V} {v x : V} (h : Orbit G v x) :
    ∃ k, Dist G v x k ∧ ∀ m, Dist G v x m → m = k := by
  obtain ⟨k, hk⟩ := dist_of_orbit h
  exact ⟨k, hk, fun m hm => dist_unique hm hk⟩

/-- source level: on a non-empty collection and a string of its length,
`average_graph_complexity` (commutator graph on all `4^n` strings, component of
`str(p)`, `shortest_path_length`) raises nothing and returns
`(Σ_{x ∈ Orbit} d(p,x), |Orbit|)`. -/
theorem C15_agc_source {n : Nat} {G : List PS} (hG : C14.Uniform n G) (hne : G ≠ []) {p : PS}
    (hp : p.WF ∧ p.len = n) :
    ∃ sum size, averageGraphComplexity G p = .ok (sum, size, true) ∧
      ∀ L (δ : V → Nat), EnumOrbit (bitsOf G) p.bits L → (∀ x, x ∈ L → Dist (bitsOf G) p.bits x (δ x)) →
        sum = (L.map δ).sum ∧ size = L.length := by
  obtain ⟨nbrs, hn, he⟩ := averageGraphComplexity_refines hG hne hp
  obtain ⟨h1, _, _, h4⟩ := C15_agc_bfs (uniform_bits hG) (bits_length hp) hn
  rw [h1] at he
  exact ⟨_, _, he, h4⟩

instance decEqExceptA {α : Type} [DecidableEq α] : DecidableEq (Except AErr α) := fun a b =>
  match a, b with
  | .ok x, .ok y => if h : x = y then isTrue (by rw [h]) else isFalse (fun e => by cases e; exact h rfl)
  | .error x, .error y =>
    if h : x = y then isTrue (by rw [h]) else isFalse (fun e => by cases e; exact h rfl)
  | .ok _, .error _ => isFalse (fun e => by cases e)
  | .error _, .ok _ => isFalse (fun e => by cases e)

/-- a name that is not a node (a string of another length): `KeyError` -/
theorem C15_agc_key_error {n : Nat} {G : List PS} (hG : C14.Uniform n G) (hne : G ≠ []) {p : PS}
    (hp : p.bits.length ≠ 2 * n) : averageGraphComplexity G p = .error .keyError := by
  obtain ⟨E, hE, ⟨hall, _, _⟩, _⟩ := C14.C14_commutator_graph hG hne
  unfold averageGraphComplexity
  rw [hE]
  have hin : ((PS.genAll n).map (·.bits)).contains p.bits = false := by
    rw [Bool.eq_false_iff]
    intro h
    rw [List.contains_iff_mem] at h
    obtain ⟨q, hq, hqp⟩ := List.mem_map.1 h
    exact hp (by rw [← hqp]; exact bits_length ((hall q).1 hq))
  simp only [hin, if_true]

/-- the empty collection (size 0): the only node is the empty string -/
theorem C15_agc_empty (p : PS) :
    averageGraphComplexity [] p = if p.bits = [] then .ok (0, 1, true) else .error .keyError := by
  have hE : getCommutatorGraph [] = .ok ([PS.ofBits []], []) := by decide
  unfold averageGraphComplexity
  rw [hE]
  by_cases h : p.bits = []
  · rw [if_pos h, h]; decide
  · rw [if_neg h]
    have : ([PS.ofBits []].map (·.bits)).contains p.bits = false := by
      simp [PS.ofBits]; exact fun e => h e
    simp only [this, if_true]
/-- the empty collection has size 0: only the empty string is a node -/
example : averageGraphComplexity [] (PS.ofLetters []) = .ok (0, 1, true) := by decide
example : averageGraphComplexity [] (PS.ofLetters [.Z]) = .error .keyError := by decide
example : averageGraphComplexity exG exV = .ok (3, 3, true) := by decide
example : averageGraphComplexity exG (PS.ofLetters [.Z]) = .error .keyError := by decide
example : Dist (bitsOf exG) exV.bits (PS.ofLetters [.X, .Z]).bits 2 := by
  have hmem := (C15_agc_bfs (n := 2) (G := bitsOf exG) (v := exV.bits) (nbrs := expand (bitsOf exG))
    (by decide) (by decide) (fun _ _ _ => Iff.rfl)).2.1
  exact (hmem _ 2).1 (by decide)

/-! ## (3) consequences -/

/-- "lies in [-1,1]": `0 ≤ a ≤ s` and `s ≥ 1`, i.e. the numerator `s - 2a` of
`1 - 2a/s = (s - 2a)/s` lies between `-s` and `s`. -/
theorem C15_range {n : Nat} {G : List PS} (hG : C14.Uniform n G) {v w : PS}
    (hv : v.WF ∧ v.len = n) (hw : w.WF ∧ w.len = n) :
    ∃ R, averageOtoc G v w = .ok R ∧ R.anti ≤ R.size ∧ 1 ≤ R.size ∧
      -(R.size : Int) ≤ (R.size : Int) - 2 * R.anti ∧ (R.size : Int) - 2 * R.anti ≤ R.size := by
  obtain ⟨R, h1, _, he, hc⟩ := C15_otoc_source hG hv hw
  obtain ⟨ha, hs⟩ := hc _ he
  have h2 : R.anti ≤ R.size := by rw [ha, hs]; exact List.countP_le_length
  have h3 : 1 ≤ R.size := by
    rw [hs]
    exact List.length_pos_of_mem ((he.2 v.bits).2 Orbit.base)
  exact ⟨R, h1, h2, h3, by omega, by omega⟩

/-- "equals +-1 when V commutes with all of G": the orbit is `{V}`, so `s = 1` and
`a ∈ {0, 1}` (`a = 1`, value `-1`, iff `W` anticommutes with `V`). -/
theorem C15_commuting {n : Nat} {G : List PS} (hG : C14.Uniform n G) {v w : PS}
    (hv : v.WF ∧ v.len = n) (hw : w.WF ∧ w.len = n)
    (hc : ∀ g, g ∈ G → omega v.bits g.bits = false) :
    (∀ x, Orbit (bitsOf G) v.bits x ↔ x = v.bits) ∧
    ∃ R, averageOtoc G v w = .ok R ∧ R.size = 1 ∧ R.anti = if omega w.bits v.bits then 1 else 0 := by
  have ho : ∀ x, Orbit (bitsOf G) v.bits x ↔ x = v.bits := fun x =>
    orbit_commuting (by
      intro g hg
      obtain ⟨p, hp, rfl⟩ := List.mem_map.1 hg
      exact hc p hp)
  obtain ⟨R, h1, _, _, hcnt⟩ := C15_otoc_source hG hv hw
  obtain ⟨ha, hs⟩ := hcnt [v.bits] ⟨by simp, fun x => by rw [ho]; simp⟩
  refine ⟨ho, R, h1, hs, ?_⟩
  rw [ha]; simp [List.countP_cons]

example : (averageOtoc [PS.ofLetters [.Z, .Z]] (PS.ofLetters [.Z, .I]) (PS.ofLetters [.X, .I])).map
    (fun R => (R.anti, R.size)) = .ok (1, 1) := by decide

/-- "both quantities' orbits are unchanged when G is replaced by any other generating
set of the same algebra": if `G` and `G'` have the same commutator closure then the
orbits coincide, hence `average_otoc` returns the same pair and the BFS of
`average_graph_complexity` visits the same number of nodes.  (The *distances*, hence
the graph complexity itself, do depend on the generating set; the property only
claims the orbit.) -/
theorem C15_generator_independence {n : Nat} {G G' : List PS} (hG : C14.Uniform n G)
    (hG' : C14.Uniform n G') (hclo : ∀ x, Clo (bitsOf G) x ↔ Clo (bitsOf G') x) {v w : PS}
    (hv : v.WF ∧ v.len = n) (hw : w.WF ∧ w.len = n) :
    (∀ x, Orbit (bitsOf G) v.bits x ↔ Orbit (bitsOf G') v.bits x) ∧
    (∃ R R', averageOtoc G v w = .ok R ∧ averageOtoc G' v w = .ok R' ∧
      R.anti = R'.anti ∧ R.size = R'.size) ∧
    (G ≠ [] → G' ≠ [] → ∃ t t' s, averageGraphComplexity G v = .ok (t, s, true) ∧
      averageGraphComplexity G' v = .ok (t', s, true)) := by
  have ho : ∀ x, Orbit (bitsOf G) v.bits x ↔ Orbit (bitsOf G') v.bits x := fun x =>
    orbit_of_clo (uniform_bits hG) (uniform_bits hG') (bits_length hv) hclo
  refine ⟨ho, ?_, ?_⟩
  · obtain ⟨R, h1, _, he, hc⟩ := C15_otoc_source hG hv hw
    obtain ⟨R', h1', _, _, hc'⟩ := C15_otoc_source hG' hv hw
    obtain ⟨ha, hs⟩ := hc _ he
    obtain ⟨ha', hs'⟩ := hc' _ ⟨he.1, fun x => by rw [he.2, ho]⟩
    exact ⟨R, R', h1, h1', ha.trans ha'.symm, hs.trans hs'.symm⟩
  · intro hne hne'
    obtain ⟨nbrs, hn, he⟩ := averageGraphComplexity_refines hG hne hv
    obtain ⟨nbrs', hn', he'⟩ := averageGraphComplexity_refines hG' hne' hv
    obtain ⟨h1, _, h3, _⟩ := C15_agc_bfs (uniform_bits hG) (bits_length hv) hn
    obtain ⟨h1', _, h3', _⟩ := C15_agc_bfs (uniform_bits hG') (bits_length hv) hn'
    rw [h1] at he
    rw [h1'] at he'
    have hp : ((splCore nbrs v.bits).1.map Prod.fst).Perm ((splCore nbrs' v.bits).1.map Prod.fst) := by
      rw [List.perm_ext_iff_of_nodup h3.1 h3'.1]
      intro x; rw [h3.2, h3'.2, ho]
    have hl := hp.length_eq
    rw [List.length_map, List.length_map] at hl
    rw [← hl] at he'
    exact ⟨_, _, _, he, he'⟩

/-- a second generating set of the algebra of `exG`: `XI` replaced by `XI·ZZ = YZ` -/
example : ∀ x, Clo (bitsOf exG) x ↔ Clo (bitsOf [PS.ofLetters [.Y, .Z], PS.ofLetters [.Z, .Z]]) x :=
  fun _ => clo_replaceGen (n := 2) (G := bitsOf exG) (by decide) (a := (PS.ofLetters [.X, .I]).bits)
    (b := (PS.ofLetters [.Z, .Z]).bits) (by decide) (by decide) (by decide)
example : (averageOtoc [PS.ofLetters [.Y, .Z], PS.ofLetters [.Z, .Z]] exV exW).map
    (fun R => (R.anti, R.size)) = .ok (2, 3) := by decide

/-- "the OTOC is symmetric in V and W": with `(a, s)` the result for `(V, W)` and
`(a', s')` the result for `(W, V)`, `a·s' = a'·s`, i.e. `a/s = a'/s'` and therefore
`1 - 2a/s = 1 - 2a'/s'`.  (Each move `x ↦ x + ω(x,g)·g` is an involution preserving
`ω`, so it permutes both orbits; double counting of the anticommuting pairs in
`Orbit V × Orbit W`.) -/
theorem C15_symmetry {n : Nat} {G : List PS} (hG : C14.Uniform n G) {v w : PS}
    (hv : v.WF ∧ v.len = n) (hw : w.WF ∧ w.len = n) :
    ∃ R R', averageOtoc G v w = .ok R ∧ averageOtoc G w v = .ok R' ∧
      R.anti * R'.size = R'.anti * R.size := by
  obtain ⟨R, h1, _, he, hc⟩ := C15_otoc_source hG hv hw
  obtain ⟨R', h1', _, he', hc'⟩ := C15_otoc_source hG hw hv
  obtain ⟨ha, hs⟩ := hc _ he
  obtain ⟨ha', hs'⟩ := hc' _ he'
  refine ⟨R, R', h1, h1', ?_⟩
  rw [ha, hs, ha', hs']
  exact symmetry_lists (uniform_bits hG) (bits_length hv) (bits_length hw) he.1 he.2 he'.1 he'.2

/-- the ingredients, stated on their own: every move is an involution and an isometry of `ω` -/
theorem C15_moves {g x y : V} (hx : x.length = g.length) (hy : y.length = g.length) :
    tau g (tau g x) = x ∧ omega (tau g x) (tau g y) = omega x y :=
  ⟨tau_tau hx, omega_tau hx hy⟩

/-- on the example: `(3,3)` for `(V, XX)` and `(1,1)` for `(XX, V)`: `3·1 = 1·3` -/
example : ∃ R R', averageOtoc exG exV exX = .ok R ∧ averageOtoc exG exX exV = .ok R' ∧
    R.anti * R'.size = R'.anti * R.size :=
  C15_symmetry (n := 2) (by decide) (by decide) (by decide)

/-! ## `fourpoint` -/

/-- "reduction of the four-point function to the OTOC": on a non-empty collection
and strings of its length, `fourpoint(G,P,Q,R,S)` is `average_otoc(G,P,Q)` when
`R·P = Q·S` (up to phase) and that string commutes with every member of `G`, and the
literal `0` (`none`) otherwise. -/
theorem C15_fourpoint {n : Nat} {G : List PS} (hG : C14.Uniform n G) (hne : G ≠ [])
    {p q r s : PS} (hp : p.WF ∧ p.len = n) (hq : q.WF ∧ q.len = n) (hr : r.WF ∧ r.len = n)
    (hs : s.WF ∧ s.len = n) :
    ∃ R, averageOtoc G p q = .ok R ∧
      ((add r.bits p.bits = add q.bits s.bits ∧
          (∀ g, g ∈ G → omega g.bits (add q.bits s.bits) = false) →
        fourpoint G p q r s = .ok (some R)) ∧
       (¬ (add r.bits p.bits = add q.bits s.bits ∧
          (∀ g, g ∈ G → omega g.bits (add q.bits s.bits) = false)) →
        fourpoint G p q r s = .ok none)) :=
  fourpoint_spec hG hne hp hq hr hs

example : (fourpoint exG exV exW exV exW).map (fun o => o.map (fun R => (R.anti, R.size)))
    = .ok (some (2, 3)) := by decide
example : (fourpoint exG exV exW exW exW).map (fun o => o.map (fun R => (R.anti, R.size)))
    = .ok none := by decide

end C15
end PauLie
