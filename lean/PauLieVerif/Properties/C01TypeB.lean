/-
Property C01 - "the reported Lie algebra is isomorphic to the true dynamical Lie algebra" - for the
canonical graphs that are NOT of type A (arXiv:2408.00081: types B1, B2, B3).

PROVED here, for all sizes:

  * `C01_typeB_table`: the model of the classifier names a star with `k ≥ 1` single legs, `t` legs of
    length two and long leg `r` exactly `2^(k-1)·sp(2^t)` (r = 0, t ≥ 2: B1), `2^(k-1)·su(2^(t+2))`
    (r = 3, t ≥ 1: B3), `2^(k-1)·so(2^(t+3))` (r = 4, t ≥ 1: B2), and raises for r ≥ 5, t ≥ 1.
  * type B1, closed form and size of the closure for EVERY realisation by linearly independent strings
    (`TypeB1`: the anticommutation pattern of the star + independence): the closure is the image of
    `{Q = 1}` of the canonical realisation under the linear map of the two families (`C01TypeB1_closure`;
    `Q` the quadratic form with `Q(vertex) = 1` and polar form "anticommute"), it has
    `2^(k-1) · 2^t (2^(t+1) + 1) = dim (2^(k-1)·sp(2^t))` elements (`C01TypeB1_size`), which is what the model
    of `get_dla_dim` reports (`C01_typeB1_dim`); with `C02_closure_partial` the reported dimension equals
    `|Clo(generators)|` for every input whose guarded reduction ends in such a star (`C01_from_C02_typeB1_dim`).

The technique: a canonical realisation on `t + k` qubits built one qubit at a time (`canonK`), for which the
closure is computed by induction - upper bound: `Q` is invariant; lower bound: the closure of the smaller
star is one orbit under moves by its own members, and `Q = 0` strings commute with a `Q = 1` string on the
centre's qubit (`pairExt_lower`, `twin_clo`) - and a transfer lemma (`transfer_card`): two independent
families with the same anticommutation pattern have closures of the same size.

  * types B3 and B2 likewise (`Proofs/C01TypeBLeaf*.lean`): the B1 star whose newest leg of length two is continued
    by one (B3) or two (B2) vertices; closure of B3 = all non-identity strings of the B1 part, each with exactly one
    letter `I`/`Z` on the new qubit (`clo_G3`), `2^(k-1)·(4^(t+2) − 1)` strings = dim `2^(k-1)·su(2^(t+2))`
    (`C01TypeB3_size`, `C01_typeB3_dim`, `C01_from_C02_typeB3_dim`); closure of B2 = `{Q'' = 1}` (`clo_G4`),
    `2^(k-1)·dim so(2^(t+3))` strings (`C01TypeB2_size`, `C01_typeB2_dim`, `C01_from_C02_typeB2_dim`).  The extra
    ingredient: the non-identity strings with `Q = 0` form ONE orbit under moves by strings with `Q = 1` (`trans0`).

NOT proved here: the FULL invariant (`invOfClosure`: centre, block structure, series label) for the B types
- only the dimension, hence the names `_dim`; that the guards never fail; that canonical vertices are always
independent; that the star pattern of the library's legs always is the canonical one (all executable hypotheses).
-/
import PauLieVerif.Proofs.C01TypeBTwins
import PauLieVerif.Proofs.C01TypeBLeafCount
import PauLieVerif.Proofs.C01TypeBTransfer
import PauLieVerif.Proofs.C01TypeBModel
import PauLieVerif.Properties.C01Star

namespace PauLie
namespace C01TypeB
open Closure Classify C01Star

/-! ## 1. the table -/

/-- **the classifier's decision on B-type leg profiles** (`Morph.counts`, `get_properties`,
`get_algebra_properties`, `get_algebra` on one morph): legs = centre, `k ≥ 1` single legs, `t` legs of
length two, optional long leg of length `r`:
B1 (`r = 0`, `t ≥ 2`) ↦ `2^(k-1)·sp(2^t)`;  B3 (`r = 3`, `t ≥ 1`) ↦ `2^(k-1)·su(2^(t+2))`;
B2 (`r = 4`, `t ≥ 1`) ↦ `2^(k-1)·so(2^(t+3))`; a longer long leg besides a leg of length two raises. -/
theorem C01_typeB_table {legs singles twos tail : List (List PS)} {cleg : List PS} {k t r : Nat}
    (hlegs : legs = cleg :: (singles ++ (twos ++ tail))) (hs : ∀ leg ∈ singles, leg.length = 1)
    (ht : ∀ leg ∈ twos, leg.length = 2) (hk : singles.length = k) (htl : twos.length = t) (hr : IsTailB r tail)
    (hk1 : k ≥ 1) (deps unapp : List PS) (tags : List String) (complete : Bool) :
    (r = 0 → t ≥ 2 → summandsOf [⟨legs, deps, unapp, tags, complete⟩] = .ok [⟨.SP, 2 ^ t, 2 ^ (k - 1)⟩]) ∧
    (r = 3 → t ≥ 1 → summandsOf [⟨legs, deps, unapp, tags, complete⟩] = .ok [⟨.SU, 2 ^ (t + 2), 2 ^ (k - 1)⟩]) ∧
    (r = 4 → t ≥ 1 → summandsOf [⟨legs, deps, unapp, tags, complete⟩] = .ok [⟨.SO, 2 ^ (t + 3), 2 ^ (k - 1)⟩]) ∧
    (r ≥ 5 → t ≥ 1 → summandsOf [⟨legs, deps, unapp, tags, complete⟩] = .error .classificationError) := by
  refine ⟨?_, ?_, ?_, ?_⟩
  · rintro rfl h2
    exact summandsOf_typeB hlegs hs ht hk htl hr hk1 (Or.inl ⟨rfl, h2⟩) deps unapp tags complete
  · rintro rfl h1
    exact summandsOf_typeB hlegs hs ht hk htl hr hk1 (Or.inr ⟨Or.inl rfl, h1⟩) deps unapp tags complete
  · rintro rfl h1
    exact summandsOf_typeB hlegs hs ht hk htl hr hk1 (Or.inr ⟨Or.inr rfl, h1⟩) deps unapp tags complete
  · intro h5 h1
    unfold summandsOf
    rw [List.mapM_cons, summand_outside hlegs hs ht hk htl hr h5 h1]
    rfl

/-! ## 2. type B1: every independent realisation -/

/-- a realisation of the B1 star (centre, `j + 1` single legs, `t` legs of length two, in the leg order of
the library: centre, single legs, then `b, d` for every leg of length two, `b` next to the centre) by
strings of length `L`: the anticommutation pattern of the canonical realisation, and linear independence -/
structure TypeB1 (L : Nat) (vs : List V) (j t : Nat) : Prop where
  len : ∀ v ∈ vs, v.length = L
  pat : samePatB vs (canonK j t) = true
  indep : Indep L vs

/-- executable form of the hypotheses -/
def typeB1B (L : Nat) (vs : List V) (j t : Nat) : Bool :=
  vs.all (fun v => v.length == L) && samePatB vs (canonK j t) && indepB vs

theorem typeB1B_sound {L : Nat} {vs : List V} {j t : Nat} (h : typeB1B L vs j t = true) : TypeB1 L vs j t := by
  simp only [typeB1B, Bool.and_eq_true, List.all_eq_true, beq_iff_eq] at h
  exact ⟨h.1.1, h.1.2, indepB_sound vs h.1.1 h.2⟩

theorem typeB1B_complete {L : Nat} {vs : List V} {j t : Nat} (h : TypeB1 L vs j t) : typeB1B L vs j t = true := by
  simp only [typeB1B, Bool.and_eq_true, List.all_eq_true, beq_iff_eq]
  exact ⟨⟨h.len, h.pat⟩, indepB_complete vs h.len h.indep⟩

/-- the canonical realisation is one -/
theorem typeB1_canon (j t : Nat) : TypeB1 (2 * (t + 1 + j)) (canonK j t) j t := by
  refine ⟨uniform_canonK j t, ?_, indep_canonK j t⟩
  have : ∀ (x : V) (l : List V), patRow x x l l = true := by
    intro x l
    induction l with
    | nil => rfl
    | cons a l ih => simp [patRow, ih]
  have h2 : ∀ (l l' : List V), samePat l l l' l' = true := by
    intro l l'
    induction l with
    | nil => rfl
    | cons a l ih => simp [samePat, ih, this]
  exact h2 _ _

/-- the quadratic form on the canonical realisation: `QBn t` after dropping the `j` front letters, which
must be `I` or `Z` -/
theorem mem_LK_length {j t : Nat} {v : V} (h : v ∈ LK j t) : v.length = 2 * (t + 1 + j) :=
  clo_length (uniform_canonK j t) ((canonK_clo j t v).1 h)

/-- **closed form of the closure of a B1 star**, every independent realisation: the product of the
selection `b` of the vertices is in the commutator closure iff the same selection of the canonical
realisation lies in the explicit list `LK j t` (`2^j` translates of `{QBn t = 1}`) -/
theorem C01TypeB1_closure {L : Nat} {vs : List V} {j t : Nat} (h : TypeB1 L vs j t) :
    (∀ x, Clo vs x → ∃ b : List Bool, b.length = vs.length ∧ x = msum L b vs) ∧
    (∀ b : List Bool, b.length = vs.length →
      (Clo vs (msum L b vs) ↔ msum (2 * (t + 1 + j)) b (canonK j t) ∈ LK j t)) := by
  refine ⟨fun x hx => ?_, fun b hb => ?_⟩
  · obtain ⟨b, h1, h2, _⟩ := clo_transfer h.pat h.len (uniform_canonK j t) hx
    exact ⟨b, h1, h2⟩
  · rw [canonK_clo]
    exact clo_transfer_iff h.pat h.len (uniform_canonK j t) h.indep (indep_canonK j t) b hb

theorem dimSP_pow (t : Nat) : dimSP (2 ^ t) = 2 ^ (2 * t + 1) + 2 ^ t := by
  have e : 2 ^ (2 * t + 1) = 2 * (2 ^ t * 2 ^ t) := by
    rw [Nat.pow_succ, Nat.two_mul, Nat.pow_add, Nat.mul_comm]
  rw [e, dimSP]
  generalize 2 ^ t = m
  rw [Nat.mul_add, Nat.mul_one, Nat.mul_left_comm]

/-- **size of the closure of a B1 star**: `2^j · dim sp(2^t)` for `j + 1` single legs and `t` legs of
length two, for EVERY realisation by linearly independent strings -/
theorem C01TypeB1_size {n : Nat} {vs : List V} {j t : Nat} (h : TypeB1 (2 * n) vs j t) :
    (closureList vs).1.length = 2 ^ j * dimSP (2 ^ t) := by
  rw [transfer_card h.pat h.len (uniform_canonK j t) h.indep (indep_canonK j t), card_canonK, dimSP_pow]

/-- the legs of a B1 canonical star: centre, single legs, legs of length two -/
def typeB1Legs (c : PS) (singles : List PS) (twos : List (List PS)) : List (List PS) :=
  [c] :: (singles.map (fun l => [l]) ++ (twos ++ []))

/-- **C01 (dimension) for type B1** (`j + 1 ≥ 1` single legs, `t ≥ 2` legs of length two): the model of
`get_algebra` reports `2^j·sp(2^t)`, the model of `get_dla_dim` its dimension, and that is exactly the
number of Pauli strings in the commutator closure of the vertices - for EVERY realisation of the star by
linearly independent Pauli strings.  (Dimension only: the full invariant is not proved.) -/
theorem C01_typeB1_dim {n : Nat} {c : PS} {singles : List PS} {twos : List (List PS)} {j t : Nat}
    (hj : singles.length = j + 1) (ht : twos.length = t) (h2 : ∀ leg ∈ twos, leg.length = 2) (ht2 : t ≥ 2)
    (h : TypeB1 (2 * n) (C02.bitsOf (typeB1Legs c singles twos).flatten) j t)
    (deps unapp : List PS) (tags : List String) (complete : Bool) :
    summandsOf [⟨typeB1Legs c singles twos, deps, unapp, tags, complete⟩] = .ok [⟨.SP, 2 ^ t, 2 ^ j⟩] ∧
    dlaDimOfMorphs [⟨typeB1Legs c singles twos, deps, unapp, tags, complete⟩] = .ok (2 ^ j * dimSP (2 ^ t)) ∧
    (closureList (C02.bitsOf (typeB1Legs c singles twos).flatten)).1.length = 2 ^ j * dimSP (2 ^ t) := by
  have hs : ∀ leg ∈ singles.map (fun l => [l]), leg.length = 1 := by
    intro leg hleg
    obtain ⟨l, _, rfl⟩ := List.mem_map.1 hleg
    rfl
  have hk : (singles.map (fun l => [l])).length = j + 1 := by simp [hj]
  have hB : (0 = 0 ∧ t ≥ 2) ∨ ((0 = 3 ∨ 0 = 4) ∧ t ≥ 1) := Or.inl ⟨rfl, ht2⟩
  refine ⟨?_, ?_, C01TypeB1_size h⟩
  · have := summandsOf_typeB (legs := typeB1Legs c singles twos) (cleg := [c]) (r := 0) rfl hs h2 hk ht
      (Or.inl ⟨rfl, rfl⟩) (by omega) hB deps unapp tags complete
    simpa [nameB] using this
  · have := dlaDim_typeB (legs := typeB1Legs c singles twos) (cleg := [c]) (r := 0) rfl hs h2 hk ht
      (Or.inl ⟨rfl, rfl⟩) (by omega) hB deps unapp tags complete
    simpa [nameB, Summand.dim] using this

/-- **C01 (dimension clause) and C09 (first clause) PROVED for the inputs whose reduction ends in a B1
canonical star**: if the guarded reduction of `gens` succeeds and its legs are a centre, `j + 1` single legs
and `t ≥ 2` legs of length two whose strings pass the executable check `typeB1B` (lengths, anticommutation
pattern of the star, linear independence), the reported algebra is `2^j·sp(2^t)` and the reported dimension
equals the number of Pauli strings in the commutator closure of the generators.  (Dimension only.) -/
theorem C01_from_C02_typeB1_dim {n : Nat} {gens : List PS} {r : Morph.BuildResult} {c : PS} {singles : List PS}
    {twos : List (List PS)} {j t : Nat}
    (hlen : ∀ g ∈ gens, g.bits.length = 2 * n) (hb : Morph.build gens = .ok r)
    (hg : C02.guardsHold gens = true) (hc : r.complete = true) (hu : r.unappended = [])
    (hlegs : r.legs = typeB1Legs c singles twos)
    (hj : singles.length = j + 1) (ht : twos.length = t) (h2 : ∀ leg ∈ twos, leg.length = 2) (ht2 : t ≥ 2)
    (hstar : typeB1B (2 * n) (C02.bitsOf r.legs.flatten) j t = true) :
    summandsOf [⟨r.legs, r.dependents, r.unappended, r.tags, r.complete⟩] = .ok [⟨.SP, 2 ^ t, 2 ^ j⟩] ∧
    dlaDimOfMorphs [⟨r.legs, r.dependents, r.unappended, r.tags, r.complete⟩]
      = .ok (closureList (C02.bitsOf gens)).1.length ∧
    (closureList (C02.bitsOf gens)).1.length = 2 ^ j * dimSP (2 ^ t) := by
  have hS := typeB1B_sound hstar
  rw [hlegs] at hS
  obtain ⟨s1, s2, s4⟩ := C01_typeB1_dim hj ht h2 ht2 hS r.dependents r.unappended r.tags r.complete
  have hvl : ∀ v ∈ r.legs.flatten, v.bits.length = 2 * n := by
    intro v hv
    rw [hlegs] at hv
    exact hS.len v.bits (List.mem_map.2 ⟨v, hv, rfl⟩)
  rw [← hlegs] at s1 s2 s4
  have key := C01_from_C02 hlen hb hg hc hu hvl s4 s2
  refine ⟨s1, key, ?_⟩
  rw [s2] at key
  injection key with key
  exact key.symm

/-! ## 3. types B3 and B2: every independent realisation -/

/-- a family of strings of length `L` with the anticommutation pattern of `canon`, linearly independent -/
structure Realises (L : Nat) (vs canon : List V) : Prop where
  len : ∀ v ∈ vs, v.length = L
  pat : samePatB vs canon = true
  indep : Indep L vs

/-- executable form -/
def realisesB (L : Nat) (vs canon : List V) : Bool :=
  vs.all (fun v => v.length == L) && samePatB vs canon && indepB vs

theorem realisesB_sound {L : Nat} {vs canon : List V} (h : realisesB L vs canon = true) : Realises L vs canon := by
  simp only [realisesB, Bool.and_eq_true, List.all_eq_true, beq_iff_eq] at h
  exact ⟨h.1.1, h.1.2, indepB_sound vs h.1.1 h.2⟩

/-- canonical realisation of the B3 star: centre, `j + 1` single legs, `t` legs of length two, long leg of
length three (leg order of the library), on `t + 3 + j` qubits -/
def canon3 (j t : Nat) : List V :=
  padN j (pad (pad (cT t))) :: padN j (pad (pad (aT t))) :: twinRest j (pad (pad (aT t))) (rest3 t)

/-- canonical realisation of the B2 star: centre, `j + 1` single legs, `t + 1` legs of length two, long leg of
length four, on `t + 4 + j` qubits -/
def canon4 (j t : Nat) : List V :=
  padN j (pad (pad (cT (t + 1)))) :: padN j (pad (pad (aT (t + 1)))) :: twinRest j (pad (pad (aT (t + 1)))) (rest4 t)

/-- **size of the closure of a B3 star**: `2^j · dim su(2^(t+2))` (`j + 1` single legs, `t` legs of length two,
long leg of length three), for EVERY realisation by linearly independent strings -/
theorem C01TypeB3_size {n : Nat} {vs : List V} {j t : Nat} (h : Realises (2 * n) vs (canon3 j t)) :
    (closureList vs).1.length = 2 ^ j * dimSU (2 ^ (t + 2)) := by
  have hb := (baseOK_B3 t).iter j
  rw [transfer_card h.pat h.len hb.unif h.indep hb.indep, canon3, (baseOK_B3 t).card j]
  have := length_L3 t
  rw [dimSU]
  congr 1
  omega

/-- **size of the closure of a B2 star**: `2^j · dim so(2^(t+4))` (`j + 1` single legs, `t + 1 ≥ 1` legs of
length two, long leg of length four), for EVERY realisation by linearly independent strings -/
theorem C01TypeB2_size {n : Nat} {vs : List V} {j t : Nat} (h : Realises (2 * n) vs (canon4 j t)) :
    (closureList vs).1.length = 2 ^ j * dimSO (2 ^ (t + 4)) := by
  have hb := (baseOK_B2 t).iter j
  rw [transfer_card h.pat h.len hb.unif h.indep hb.indep, canon4, (baseOK_B2 t).card j, length_L4]

/-- the legs of a B-type canonical star with a long leg -/
def typeBLongLegs (c : PS) (singles : List PS) (twos : List (List PS)) (long : List PS) : List (List PS) :=
  [c] :: (singles.map (fun l => [l]) ++ (twos ++ [long]))

theorem hs_singles (singles : List PS) : ∀ leg ∈ singles.map (fun l => [l]), leg.length = 1 := by
  intro leg hleg
  obtain ⟨l, _, rfl⟩ := List.mem_map.1 hleg
  rfl

/-- **C01 (dimension) for type B3** (`j + 1` single legs, `t ≥ 1` legs of length two, long leg of length 3):
the model of `get_algebra` reports `2^j·su(2^(t+2))`, the model of `get_dla_dim` its dimension, and that is
exactly the number of Pauli strings in the commutator closure of the vertices - for EVERY realisation of the
star by linearly independent Pauli strings.  (Dimension only.) -/
theorem C01_typeB3_dim {n : Nat} {c : PS} {singles long : List PS} {twos : List (List PS)} {j t : Nat}
    (hj : singles.length = j + 1) (ht : twos.length = t) (h2 : ∀ leg ∈ twos, leg.length = 2) (ht1 : t ≥ 1)
    (hl : long.length = 3)
    (h : Realises (2 * n) (C02.bitsOf (typeBLongLegs c singles twos long).flatten) (canon3 j t))
    (deps unapp : List PS) (tags : List String) (complete : Bool) :
    summandsOf [⟨typeBLongLegs c singles twos long, deps, unapp, tags, complete⟩] = .ok [⟨.SU, 2 ^ (t + 2), 2 ^ j⟩] ∧
    dlaDimOfMorphs [⟨typeBLongLegs c singles twos long, deps, unapp, tags, complete⟩]
      = .ok (2 ^ j * dimSU (2 ^ (t + 2))) ∧
    (closureList (C02.bitsOf (typeBLongLegs c singles twos long).flatten)).1.length = 2 ^ j * dimSU (2 ^ (t + 2)) := by
  have hk : (singles.map (fun l => [l])).length = j + 1 := by simp [hj]
  have hB : (3 = 0 ∧ t ≥ 2) ∨ ((3 = 3 ∨ 3 = 4) ∧ t ≥ 1) := Or.inr ⟨Or.inl rfl, ht1⟩
  have hr : IsTailB 3 [long] := Or.inr ⟨by omega, long, rfl, hl⟩
  refine ⟨?_, ?_, C01TypeB3_size h⟩
  · have := summandsOf_typeB (legs := typeBLongLegs c singles twos long) (cleg := [c]) (r := 3) rfl
      (hs_singles singles) h2 hk ht hr (by omega) hB deps unapp tags complete
    simpa [nameB] using this
  · have := dlaDim_typeB (legs := typeBLongLegs c singles twos long) (cleg := [c]) (r := 3) rfl
      (hs_singles singles) h2 hk ht hr (by omega) hB deps unapp tags complete
    simpa [nameB, Summand.dim] using this

/-- **C01 (dimension) for type B2** (`j + 1` single legs, `t + 1 ≥ 1` legs of length two, long leg of length 4):
reported `2^j·so(2^(t+4))`, its dimension, and that is exactly the number of Pauli strings in the commutator
closure of the vertices - for EVERY realisation of the star by linearly independent Pauli strings.
(Dimension only.) -/
theorem C01_typeB2_dim {n : Nat} {c : PS} {singles long : List PS} {twos : List (List PS)} {j t : Nat}
    (hj : singles.length = j + 1) (ht : twos.length = t + 1) (h2 : ∀ leg ∈ twos, leg.length = 2)
    (hl : long.length = 4)
    (h : Realises (2 * n) (C02.bitsOf (typeBLongLegs c singles twos long).flatten) (canon4 j t))
    (deps unapp : List PS) (tags : List String) (complete : Bool) :
    summandsOf [⟨typeBLongLegs c singles twos long, deps, unapp, tags, complete⟩] = .ok [⟨.SO, 2 ^ (t + 4), 2 ^ j⟩] ∧
    dlaDimOfMorphs [⟨typeBLongLegs c singles twos long, deps, unapp, tags, complete⟩]
      = .ok (2 ^ j * dimSO (2 ^ (t + 4))) ∧
    (closureList (C02.bitsOf (typeBLongLegs c singles twos long).flatten)).1.length = 2 ^ j * dimSO (2 ^ (t + 4)) := by
  have hk : (singles.map (fun l => [l])).length = j + 1 := by simp [hj]
  have hB : (4 = 0 ∧ t + 1 ≥ 2) ∨ ((4 = 3 ∨ 4 = 4) ∧ t + 1 ≥ 1) := Or.inr ⟨Or.inr rfl, by omega⟩
  have hr : IsTailB 4 [long] := Or.inr ⟨by omega, long, rfl, hl⟩
  refine ⟨?_, ?_, C01TypeB2_size h⟩
  · have := summandsOf_typeB (legs := typeBLongLegs c singles twos long) (cleg := [c]) (r := 4) rfl
      (hs_singles singles) h2 hk ht hr (by omega) hB deps unapp tags complete
    simpa [nameB] using this
  · have := dlaDim_typeB (legs := typeBLongLegs c singles twos long) (cleg := [c]) (r := 4) rfl
      (hs_singles singles) h2 hk ht hr (by omega) hB deps unapp tags complete
    simpa [nameB, Summand.dim] using this

/-- **C01 (dimension clause) and C09 (first clause) PROVED for the inputs whose reduction ends in a B3 or B2
canonical star**: if the guarded reduction of `gens` succeeds and its legs are a centre, `j + 1` single legs,
legs of length two and a long leg of length 3 (resp. 4) whose strings pass the executable check `realisesB`
against the canonical realisation, the reported dimension equals the number of Pauli strings in the commutator
closure of the generators, `2^j·dim su(2^(t+2))` (resp. `2^j·dim so(2^(t+4))`).  (Dimension only.) -/
theorem C01_from_C02_typeB3_dim {n : Nat} {gens : List PS} {r : Morph.BuildResult} {c : PS} {singles long : List PS}
    {twos : List (List PS)} {j t : Nat}
    (hlen : ∀ g ∈ gens, g.bits.length = 2 * n) (hb : Morph.build gens = .ok r)
    (hg : C02.guardsHold gens = true) (hc : r.complete = true) (hu : r.unappended = [])
    (hlegs : r.legs = typeBLongLegs c singles twos long)
    (hj : singles.length = j + 1) (ht : twos.length = t) (h2 : ∀ leg ∈ twos, leg.length = 2) (ht1 : t ≥ 1)
    (hl : long.length = 3)
    (hstar : realisesB (2 * n) (C02.bitsOf r.legs.flatten) (canon3 j t) = true) :
    summandsOf [⟨r.legs, r.dependents, r.unappended, r.tags, r.complete⟩] = .ok [⟨.SU, 2 ^ (t + 2), 2 ^ j⟩] ∧
    dlaDimOfMorphs [⟨r.legs, r.dependents, r.unappended, r.tags, r.complete⟩]
      = .ok (closureList (C02.bitsOf gens)).1.length ∧
    (closureList (C02.bitsOf gens)).1.length = 2 ^ j * dimSU (2 ^ (t + 2)) := by
  have hS := realisesB_sound hstar
  rw [hlegs] at hS
  obtain ⟨s1, s2, s4⟩ := C01_typeB3_dim hj ht h2 ht1 hl hS r.dependents r.unappended r.tags r.complete
  have hvl : ∀ v ∈ r.legs.flatten, v.bits.length = 2 * n := by
    intro v hv
    rw [hlegs] at hv
    exact hS.len v.bits (List.mem_map.2 ⟨v, hv, rfl⟩)
  rw [← hlegs] at s1 s2 s4
  have key := C01_from_C02 hlen hb hg hc hu hvl s4 s2
  refine ⟨s1, key, ?_⟩
  rw [s2] at key
  injection key with key
  exact key.symm

theorem C01_from_C02_typeB2_dim {n : Nat} {gens : List PS} {r : Morph.BuildResult} {c : PS} {singles long : List PS}
    {twos : List (List PS)} {j t : Nat}
    (hlen : ∀ g ∈ gens, g.bits.length = 2 * n) (hb : Morph.build gens = .ok r)
    (hg : C02.guardsHold gens = true) (hc : r.complete = true) (hu : r.unappended = [])
    (hlegs : r.legs = typeBLongLegs c singles twos long)
    (hj : singles.length = j + 1) (ht : twos.length = t + 1) (h2 : ∀ leg ∈ twos, leg.length = 2)
    (hl : long.length = 4)
    (hstar : realisesB (2 * n) (C02.bitsOf r.legs.flatten) (canon4 j t) = true) :
    summandsOf [⟨r.legs, r.dependents, r.unappended, r.tags, r.complete⟩] = .ok [⟨.SO, 2 ^ (t + 4), 2 ^ j⟩] ∧
    dlaDimOfMorphs [⟨r.legs, r.dependents, r.unappended, r.tags, r.complete⟩]
      = .ok (closureList (C02.bitsOf gens)).1.length ∧
    (closureList (C02.bitsOf gens)).1.length = 2 ^ j * dimSO (2 ^ (t + 4)) := by
  have hS := realisesB_sound hstar
  rw [hlegs] at hS
  obtain ⟨s1, s2, s4⟩ := C01_typeB2_dim hj ht h2 hl hS r.dependents r.unappended r.tags r.complete
  have hvl : ∀ v ∈ r.legs.flatten, v.bits.length = 2 * n := by
    intro v hv
    rw [hlegs] at hv
    exact hS.len v.bits (List.mem_map.2 ⟨v, hv, rfl⟩)
  rw [← hlegs] at s1 s2 s4
  have key := C01_from_C02 hlen hb hg hc hu hvl s4 s2
  refine ⟨s1, key, ?_⟩
  rw [s2] at key
  injection key with key
  exact key.symm

/-! ## non-vacuity -/

section Example
private def ps (s : String) : PS := PS.ofLetters ((lettersOfString? s).getD [])

/-- the smallest B1 star (the Dynkin diagram E6) on three qubits: centre `XII`, single leg `ZII`,
legs `ZXI - IZI` and `ZIX - IIZ`: sp(4), dimension 36 -/
example : typeB1B 6 (C02.bitsOf (typeB1Legs (ps "XII") [ps "ZII"] [[ps "ZXI", ps "IZI"], [ps "ZIX", ps "IIZ"]]).flatten) 0 2
    = true := by decide +kernel

example : (closureList (C02.bitsOf
    (typeB1Legs (ps "XII") [ps "ZII"] [[ps "ZXI", ps "IZI"], [ps "ZIX", ps "IIZ"]]).flatten)).1.length = 36 :=
  (C01_typeB1_dim (n := 3) (j := 0) (t := 2) rfl rfl (by decide) (by decide) (typeB1B_sound (by decide +kernel))
    [] [] [] true).2.2

/-- cross-check of the closed form against the verified enumeration, by kernel evaluation -/
example : (closureList (C02.bitsOf [ps "XII", ps "ZII", ps "ZXI", ps "IZI", ps "ZIX", ps "IIZ"])).1.length = 36 := by
  decide +kernel

/-- two single legs on four qubits: 2·sp(4), dimension 72 -/
example : typeB1B 8 (C02.bitsOf (typeB1Legs (ps "XIII") [ps "ZIII", ps "ZIIZ"]
    [[ps "ZXII", ps "IZII"], [ps "ZIXI", ps "IIZI"]]).flatten) 1 2 = true := by decide +kernel

/-- the pattern is needed: a path on six vertices (type A, so(7), 21 strings) is not a B1 star -/
example : typeB1B 10 (C02.bitsOf [ps "XYIII", ps "IXYII", ps "IIXYI", ps "IIIXY", ps "XIIII", ps "IIIIX"]) 0 2 = false := by
  decide +kernel

/-- the table -/
example : summandsOf [⟨typeB1Legs (ps "XII") [ps "ZII"] [[ps "ZXI", ps "IZI"], [ps "ZIX", ps "IIZ"]], [], [], [], true⟩]
    = .ok [⟨.SP, 4, 1⟩] := by decide +kernel
/-- the smallest B3 star (Dynkin diagram E7) on four qubits: centre `IIIZ`, single leg `IIIX`, leg `IZIX - IXII`,
long leg `IIZX - IIXI - ZIZI`: su(8), 63 strings -/
example : realisesB 8 (C02.bitsOf (typeBLongLegs (ps "IIIZ") [ps "IIIX"] [[ps "IZIX", ps "IXII"]]
    [ps "IIZX", ps "IIXI", ps "ZIZI"]).flatten) (canon3 0 1) = true := by decide +kernel

example : (closureList (C02.bitsOf (typeBLongLegs (ps "IIIZ") [ps "IIIX"] [[ps "IZIX", ps "IXII"]]
    [ps "IIZX", ps "IIXI", ps "ZIZI"]).flatten)).1.length = 63 :=
  (C01_typeB3_dim (n := 4) (j := 0) (t := 1) rfl rfl (by decide) (by decide) rfl (realisesB_sound (by decide +kernel))
    [] [] [] true).2.2

/-- the smallest B2 star (Dynkin diagram E8) on four qubits: the same with the long leg continued by `XIII`:
so(16), 120 strings -/
example : realisesB 8 (C02.bitsOf (typeBLongLegs (ps "IIIZ") [ps "IIIX"] [[ps "IZIX", ps "IXII"]]
    [ps "IIZX", ps "IIXI", ps "ZIZI", ps "XIII"]).flatten) (canon4 0 0) = true := by decide +kernel

example : (closureList (C02.bitsOf (typeBLongLegs (ps "IIIZ") [ps "IIIX"] [[ps "IZIX", ps "IXII"]]
    [ps "IIZX", ps "IIXI", ps "ZIZI", ps "XIII"]).flatten)).1.length = 120 :=
  (C01_typeB2_dim (n := 4) (j := 0) (t := 0) rfl rfl (by decide) rfl (realisesB_sound (by decide +kernel))
    [] [] [] true).2.2
end Example

end C01TypeB
end PauLie
