/-
Property C05 on the MODEL OF THE SEARCH (`Model/CompilerSearch.lean`):

  "Whenever the Pauli compiler returns a sequence … the nested commutator of the sequence,
   evaluated in the documented orientation, is non-zero and proportional to the target.
   It never returns a sequence that evaluates to zero or to some other string."

* `C05_refuted_model`, `C05_refuted_zero_model` — FALSE, now entirely inside Lean: the
  kernel evaluates the model of `compile_target` on `(3,2,YIY)` / `(3,2,IIX)`, obtains
  `[XIZ,YII,XIZ]` / `[XIZ,YII,XIZ,ZII,XIZ]` through the two UNVERIFIED returns of `compile`,
  and the verified validator rejects them.
* `C05_verified_return` — TRUE part, all `N`, `2 ≤ k < N`, all targets: a sequence that leaves
  `compile` through one of the returns guarded by `_nested_commutator_result(G) == target`
  (`W = I`; the three candidates of `V ≠ I`; `_case3_best_reordering`) is non-empty and its nested
  commutator in the documented orientation reads as the target — never zero, never another string.
  (Membership in the universal set for the `V ≠ I` / `V = I` returns is proved in `Properties/C05Valid.lean`:
  `C05_verified_return_valid` — a sequence that passes the self-check never contains a helper from outside.)
* `C05_wI_valid` — in the `W = I` branch every returned sequence is `Valid` (all three clauses).
So every C05 failure of kind zero / wrong comes from the two unverified `return`s
(`vNeIFallback`, `vILast`) or from `_bfs_case3`.
-/
import PauLieVerif.Proofs.CompilerSearchSound
import PauLieVerif.Properties.C05

namespace PauLie
namespace C05

open Compiler CompilerSearch Matrix C07

/-- "the model of `compile_target` returns `seq` for `target`, `k`" -/
def modelReturns (_N k : ℕ) (t : PS) (seq : List PS) : Prop := compileTarget t (k : Int) = .ok seq

/-- the run of the model on `(3,2,YIY)`: the final unverified `return` of the `V ≠ I` branch hands
out `[XIZ, YII, XIZ]` -/
theorem compile_YIY :
    compileTargetB (PS.ofLetters [.Y, .I, .Y]) 2
      = .ok (.vNeIFallback, [PS.ofLetters [.X, .I, .Z], PS.ofLetters [.Y, .I, .I], PS.ofLetters [.X, .I, .Z]]) := by
  rw [show (2 : Int) = ((2 : Nat) : Int) from rfl, compileTargetB_eq _ 2 3 (by decide) (by decide) (by decide)]
  decide +kernel

/-- the run of the model on `(3,2,IIX)`: `_case3_best_reordering` (all four phases, all
interleavings) and `_bfs_case3` (8 levels) find nothing, the last unverified `return` hands out
`[XIZ, YII, XIZ, ZII, XIZ]` -/
theorem compile_IIX :
    compileTargetB (PS.ofLetters [.I, .I, .X]) 2
      = .ok (.vILast, [PS.ofLetters [.X, .I, .Z], PS.ofLetters [.Y, .I, .I], PS.ofLetters [.X, .I, .Z],
          PS.ofLetters [.Z, .I, .I], PS.ofLetters [.X, .I, .Z]]) := by
  rw [show (2 : Int) = ((2 : Nat) : Int) from rfl, compileTargetB_eq _ 2 3 (by decide) (by decide) (by decide)]
  decide +kernel

/-- **C05 refuted on the model**: the model of `compile_target` returns `[XIZ, YII, XIZ]` for
`YIY`, `k = 2`, and the validator rejects it (`YII` is outside the universal set, the value is
`YII`) — so C05 fails for the relation "the model returns" -/
theorem C05_refuted_model :
    compileTarget (PS.ofLetters [.Y, .I, .Y]) 2
        = .ok [PS.ofLetters [.X, .I, .Z], PS.ofLetters [.Y, .I, .I], PS.ofLetters [.X, .I, .Z]] ∧
    validSeq 3 2 (PS.ofLetters [.Y, .I, .Y])
        [PS.ofLetters [.X, .I, .Z], PS.ofLetters [.Y, .I, .I], PS.ofLetters [.X, .I, .Z]] = false ∧
    ¬ C05_statement modelReturns := by
  have h : compileTarget (PS.ofLetters [.Y, .I, .Y]) 2
      = .ok [PS.ofLetters [.X, .I, .Z], PS.ofLetters [.Y, .I, .I], PS.ofLetters [.X, .I, .Z]] := by
    unfold compileTarget
    rw [compile_YIY]
    rfl
  refine ⟨h, ?_, C05_refuted modelReturns h⟩
  cases hv : validSeq 3 2 (PS.ofLetters [.Y, .I, .Y])
      [PS.ofLetters [.X, .I, .Z], PS.ofLetters [.Y, .I, .I], PS.ofLetters [.X, .I, .Z]] with
  | false => rfl
  | true =>
    have hi := (validSeq_iff 3 2 (by decide) (by decide) _ _).mp hv
    exact absurd (hi.2.1 (PS.ofLetters [.Y, .I, .I]) (by decide)) (by decide)

/-- **C05 refuted on the model, vanishing commutator**: for `IIX`, `k = 2` the model returns
`[XIZ, YII, XIZ, ZII, XIZ]`, which evaluates to zero -/
theorem C05_refuted_zero_model :
    compileTarget (PS.ofLetters [.I, .I, .X]) 2
        = .ok [PS.ofLetters [.X, .I, .Z], PS.ofLetters [.Y, .I, .I], PS.ofLetters [.X, .I, .Z],
            PS.ofLetters [.Z, .I, .I], PS.ofLetters [.X, .I, .Z]] ∧
    nestedPublic [PS.ofLetters [.X, .I, .Z], PS.ofLetters [.Y, .I, .I], PS.ofLetters [.X, .I, .Z],
            PS.ofLetters [.Z, .I, .I], PS.ofLetters [.X, .I, .Z]] = .ok none ∧
    ¬ C05_statement modelReturns := by
  have h : compileTarget (PS.ofLetters [.I, .I, .X]) 2
      = .ok [PS.ofLetters [.X, .I, .Z], PS.ofLetters [.Y, .I, .I], PS.ofLetters [.X, .I, .Z],
            PS.ofLetters [.Z, .I, .I], PS.ofLetters [.X, .I, .Z]] := by
    unfold compileTarget
    rw [compile_IIX]
    rfl
  exact ⟨h, by decide, C05_refuted_zero modelReturns h⟩

/-- the recorded observations of the first slice (`Compiler.observedReturns`, replayed on the
implementation) are what the model computes -/
theorem observed_are_model_runs :
    ∀ x ∈ observedReturns, compileTarget x.1.2.2 x.1.2.1 = .ok x.2 := by
  intro x hx
  simp only [observedReturns, List.mem_cons, List.mem_nil_iff, or_false] at hx
  rcases hx with rfl | rfl
  · exact C05_refuted_model.1
  · exact C05_refuted_zero_model.1

/-- **C05 on the verified returns** ("the nested commutator … is non-zero and proportional to the
target.  It never returns a sequence that evaluates to zero or to some other string"): all `N`,
`2 ≤ k < N`, every well-formed target; `b` is the `return` of `compile` that fired. -/
theorem C05_verified_return (N k : ℕ) (t : PS) (ht : t.WF) (hN : t.len = N) (hk : 2 ≤ k) (hkN : k < N)
    (b : Branch) (s : List PS) (h : compileTargetB t (k : Int) = .ok (b, s)) (hb : b.verified = true) :
    s ≠ [] ∧ ∃ r, nestedPublic s = .ok (some r) ∧ r.letters = t.letters ∧ (r.WF → r = t) :=
  verified_return t k N ht hN hk hkN b s h hb

/-- if moreover the elements of the sequence are well-formed strings of length `N` (true of everything the
harness has ever seen returned), the nested MATRIX commutator is `c • M target`, `c ≠ 0` -/
theorem C05_verified_return_matrix (N k : ℕ) (t : PS) (ht : t.WF) (hN : t.len = N) (hk : 2 ≤ k) (hkN : k < N)
    (b : Branch) (s : List PS) (h : compileTargetB t (k : Int) = .ok (b, s)) (hb : b.verified = true)
    (hs : ∀ x ∈ s, x.WF ∧ x.len = N) :
    ∃ c : ℂ, c ≠ 0 ∧ nestM (mats N s) = c • M (t.vec N) := by
  obtain ⟨hne, r, hr, _, hwf⟩ := C05_verified_return N k t ht hN hk hkN b s h hb
  rcases nestedPublic_matrix N s hne hs with ⟨r2, hr2, hw2, _, c, hc, hM⟩ | ⟨hr2, _⟩
  · rw [hr] at hr2
    cases hr2
    rw [hwf hw2] at hM
    exact ⟨c, hc, hM⟩
  · rw [hr] at hr2; cases hr2

/-- **C05 holds in the `W = I` branch** (all `N`, `2 ≤ k < N`, every target whose right block is the
identity): whatever the model of `compile_target` returns is `Valid` — non-empty, inside the
universal set, nested matrix commutator `= c • M target` with `c ≠ 0` -/
theorem C05_wI_valid (N k : ℕ) (t : PS) (ht : t.WF) (hN : t.len = N) (hk : 2 ≤ k) (hkN : k < N)
    (hW : (t.getSubstring (k : Int) ((N : Int) - (k : Int))).isIdentity = true)
    (s : List PS) (h : compileTarget t (k : Int) = .ok s) : Valid N k t s := by
  unfold compileTarget at h
  cases hB : compileTargetB t (k : Int) with
  | error e => rw [hB] at h; cases h
  | ok bs =>
    obtain ⟨b, s'⟩ := bs
    rw [hB] at h
    cases h
    exact (validSeq_sound N k (by omega) hkN t ht hN _).mp (wI_return_valid t k N ht hN hk hkN hW b _ hB).2

/-- non-vacuity: a verified return of each kind is taken — `W = I` … -/
example : compileTargetB (PS.ofLetters [.I, .X, .I]) 2
    = .ok (.wI, [PS.ofLetters [.Z, .Z, .I], PS.ofLetters [.I, .X, .I], PS.ofLetters [.X, .I, .I],
        PS.ofLetters [.Z, .Z, .I], PS.ofLetters [.X, .I, .I]]) := by
  rw [show (2 : Int) = ((2 : Nat) : Int) from rfl, compileTargetB_eq _ 2 3 (by decide) (by decide) (by decide)]
  decide +kernel

/-- … the first candidate of `V ≠ I` … -/
example : compileTargetB (PS.ofLetters [.X, .X, .Z]) 2
    = .ok (.vNeICand 0, [PS.ofLetters [.I, .Z, .I], PS.ofLetters [.I, .X, .I], PS.ofLetters [.Z, .Z, .I],
        PS.ofLetters [.Z, .I, .I], PS.ofLetters [.X, .I, .Z]]) := by
  rw [show (2 : Int) = ((2 : Nat) : Int) from rfl, compileTargetB_eq _ 2 3 (by decide) (by decide) (by decide)]
  decide +kernel

/-- … and the first phase of `_case3_best_reordering` -/
example : compileTargetB (PS.ofLetters [.I, .I, .Y]) 2
    = .ok (.vICase3 1, [PS.ofLetters [.X, .I, .Z], PS.ofLetters [.X, .I, .X]]) := by
  rw [show (2 : Int) = ((2 : Nat) : Int) from rfl, compileTargetB_eq _ 2 3 (by decide) (by decide) (by decide)]
  decide +kernel

end C05
end PauLie
