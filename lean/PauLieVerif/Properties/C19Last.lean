/-
Property C19 (two-local reference table): the LAST SIX rows whose closure is known in CLOSED FORM for every n ≥ 3, with
the dimension clause of the row - and with them the dimension clause for ALL 28 families (`C19_dimension_all`).

    a6  (`XX`,`YZ`,`ZY`)   row `su(2^(n−1))` (n odd), `4·su(2^(n−2))` (n even)
                           closure = strings commuting with `X X X X …` and `Z Y Z Y …`, except `I…I`, `XXXX…`, `YZYZ…`, `ZYZY…`
    a10 (`XY`,`YZ`,`ZX`)   the same row
                           closure = strings commuting with `X Y Z X …` and `Z X Y Z …`, except `I…I`, `XYZX…`, `YZXY…`, `ZXYZ…`
    a9  (`XY`,`XZ`)        row `sp(2^(n−2))`
                           closure = strings commuting with `X_0` and `Z_0 X_1` with an odd number of `X`
    b2  (`XY`,`XI`,`IX`)   row `sp(2^(n−2)) + u(1)`
                           closure = the closure of a9 and the central string `X_0`
    a5  (`XY`,`YZ`)        row `_a5(n)`: `4·so(2^(n−2))`, `so(2^(n−1))`, `2·su(2^(n−2))`, `sp(2^(n−2))`, `2·su`, `so` for n ≡ 0,…,5 (mod 6)
                           closure = strings commuting with `A = X Y Z X Y Z …` and `B = Y Z X Y Z X …` with an odd number of `Y`,
                           outside the span of `A`, `B`
    a3  (`XX`,`YZ`)        row `_a3(n)`: `4·so(2^(n−2))`, `so(2^(n−1))`, `2·su(2^(n−2))`, `sp(2^(n−2))`, `4·sp(2^(n−3))`, `sp`, `2·su`, `so`
                           for n ≡ 0,…,7 (mod 8)
                           closure = strings commuting with `A = X X X X …` and `B = Y Z Y Z …` with `#Y + ω(x, I Z X Y I Z X Y …)` odd,
                           outside the span of `A`, `B`

How.  a6 and a10 are site-wise relabellings of a7 (`Y ↔ Z` on the odd sites; the cyclic shift `τ^k` on site `k`):
the closed form and the size are transferred along the form map (`clo_transfer`, `card_transfer`,
`Proofs/C19LastMap.lean`) from `clo_a7`.  a9: two linear constraints and the quadratic form "number of `X`"
(upper bound), the peeling induction of `Proofs/C19RestPeel.lean` with windows from the chain on five sites (lower
bound), n = 3, 4 by kernel evaluation.  b2: `X_{k+1}`, `X_k Y_{k+1}` give `X_k Z_{k+1}`, so b2 ⊇ a9; `X_k ∈` a9 for
k ≥ 1; `X_0` is central.  a5, a3 (`Proofs/C19LastPat*.lean`): upper bound = two linear constraints with site-periodic
strings, a quadratic form with polarisation `omega`, "not in the span"; lower bound = the peeling induction with the
last FOUR sites peeled and windows from the chain on five sites, the state of the tail being (phase, three parities,
"the tail is the restriction of a member of the span") - 120 resp. 160 states, each checked by a sound closure routine
on strings encoded as numbers (`Proofs/C19LastFast.lean`, kernel evaluation); targets ending in a block of the span
are commutators of two targets that do not (`excG_spec`); n = 3, 4 by kernel evaluation.  The count: the distribution
of (ω(x,A), ω(x,B), q(x)) over all strings satisfies a transfer recursion in n, solved by `8·N = 4^n + e(n mod L)·2^n`
(`cntS_closed`, L = 6 resp. 8), minus the members of the span that satisfy the three conditions (`count_TP`).

NOT proved for these rows: the invariants beyond the dimension (`rowOK`: blocks, series label; decided per n by the
check).
-/
import PauLieVerif.Properties.C19Rest
import PauLieVerif.Proofs.C19LastA6
import PauLieVerif.Proofs.C19LastA9
import PauLieVerif.Proofs.C19LastA5Count
import PauLieVerif.Proofs.C19LastA3Count

namespace PauLie
namespace C19
open TwoLocal Classify Closure C01Star

/-- **a6** (`XX`,`YZ`,`ZY`), all n ≥ 3: the closure is the set of strings `x` such that, after swapping `Y ↔ Z` on the
odd sites, `x` is in the closure of a7 (`T6`): `x` commutes with `X X X X …` and `Z Y Z Y …` and is none of the identity
and the three strings `XXXX…`, `YZYZ…`, `ZYZY…`; it has as many members as the closure of a7: the dimension of the row
`su(2^(n−1))` resp. `4·su(2^(n−2))`. -/
theorem C19_a6 (n : Nat) (hn : 3 ≤ n) : ClosedRow .a6 n T6 (nameA7 n) := by
  have hb : klocalBits .a6 n = klocalV n gensA6 := klocalBits_eq (gs := gensA6) rfl (by omega) (by simp [gensA6]) lenA6
  have hb7 : klocalBits .a7 n = klocalV n gensA7 := klocalBits_eq (gs := gensA7) rfl (by omega) (by simp [gensA7]) lenA7
  rw [ClosedRow, hb]
  refine ⟨clo_a6 hn, ?_, by simp only [tlName, a6, nameA7]; split <;> rfl⟩
  rw [card_a6, ← hb7]
  exact (C19_a7 n hn).2.1

/-- **a10** (`XY`,`YZ`,`ZX`), all n ≥ 3: the closure is the set of strings `x` such that, after undoing the cyclic shift
`τ^k` (`τ : X → Y → Z → X`) on every site `k`, `x` is in the closure of a7 (`T10`): `x` commutes with `X Y Z X …` and
`Z X Y Z …` and is none of the identity and the three strings `XYZX…`, `YZXY…`, `ZXYZ…`; same size, same row as a7. -/
theorem C19_a10 (n : Nat) (hn : 3 ≤ n) : ClosedRow .a10 n T10 (nameA7 n) := by
  have hb : klocalBits .a10 n = klocalV n gensA10 := klocalBits_eq (gs := gensA10) rfl (by omega) (by simp [gensA10]) lenA10
  have hb7 : klocalBits .a7 n = klocalV n gensA7 := klocalBits_eq (gs := gensA7) rfl (by omega) (by simp [gensA7]) lenA7
  rw [ClosedRow, hb]
  refine ⟨clo_a10 hn, ?_, by simp only [tlName, a6, nameA7]; split <;> rfl⟩
  rw [card_a10, ← hb7]
  exact (C19_a7 n hn).2.1

/-- **a9** (`XY`,`XZ`), all n ≥ 3: the closure is the set of strings commuting with `X` on the first site and with `Z X`
on the first two sites that carry an odd number of `X` (`T9`); it has `2·4^(n−2) + 2^(n−2) = dim sp(2^(n−2))` members. -/
theorem C19_a9 (n : Nat) (hn : 3 ≤ n) : ClosedRow .a9 n T9 [TwoLocal.sp (2 ^ (n - 2))] := by
  have hb : klocalBits .a9 n = klocalV n gensA9 := klocalBits_eq (gs := gensA9) rfl (by omega) (by simp [gensA9]) lenA9
  rw [ClosedRow, hb]
  refine ⟨clo_a9 hn, ?_, rfl⟩
  rw [card_of_peel lenA9 (clo_a9 hn), dimOfName_sp_pow]
  obtain ⟨m, rfl⟩ : ∃ m, n = m + 2 := ⟨n - 2, by omega⟩
  rw [count_T9]; simp

/-- **b2** (`XY`,`XI`,`IX`), all n ≥ 3: the closure is the closure of a9 together with the central string `X I … I`
(`TB2`); it has `dim sp(2^(n−2)) + 1` members: the dimension of the row `sp(2^(n−2)) + u(1)`. -/
theorem C19_b2 (n : Nat) (hn : 3 ≤ n) : ClosedRow .b2 n TB2 [TwoLocal.sp (2 ^ (n - 2)), u1] := by
  have hb : klocalBits .b2 n = klocalV n gensB2 := klocalBits_eq (gs := gensB2) rfl (by omega) (by simp [gensB2]) lenB2
  rw [ClosedRow, hb]
  refine ⟨clo_b2 hn, ?_, rfl⟩
  rw [card_of_peel lenB2 (clo_b2 hn), dimOfName_sp_pow_u1]
  obtain ⟨m, rfl⟩ : ∃ m, n = m + 2 := ⟨n - 2, by omega⟩
  rw [count_TB2]; simp

/-- **a5** (`XY`,`YZ`), all n ≥ 3: the closure is the set of strings commuting with `X Y Z X Y Z …` and `Y Z X Y Z X …`
that carry an odd number of `Y` and are not in the span of these two strings (`T5`); the number of such strings is the
dimension of the algebra `_a5(n)` names (period 6 in n). -/
theorem C19_a5 (n : Nat) (hn : 3 ≤ n) : ∃ nm, ClosedRow .a5 n T5 nm := by
  have hb : klocalBits .a5 n = klocalV n gensA5 := klocalBits_eq (gs := gensA5) rfl (by omega) (by simp [gensA5]) lenA5
  obtain ⟨nm, h1, h2⟩ := count_T5 n hn
  refine ⟨nm, ?_⟩
  rw [ClosedRow, hb]
  exact ⟨clo_a5 hn, by rw [card_of_peel lenA5 (clo_a5 hn), h2], h1⟩

/-- **a3** (`XX`,`YZ`), all n ≥ 3: the closure is the set of strings `x` commuting with `X X X X …` and `Y Z Y Z …` for
which `#Y(x) + ω(x, I Z X Y I Z X Y …)` is odd and that are not in the span of the two strings (`T3`); the number of such
strings is the dimension of the algebra `_a3(n)` names (period 8 in n). -/
theorem C19_a3 (n : Nat) (hn : 3 ≤ n) : ∃ nm, ClosedRow .a3 n T3 nm := by
  have hb : klocalBits .a3 n = klocalV n gensA3 := klocalBits_eq (gs := gensA3) rfl (by omega) (by simp [gensA3]) lenA3
  obtain ⟨nm, h1, h2⟩ := count_T3 n hn
  refine ⟨nm, ?_⟩
  rw [ClosedRow, hb]
  exact ⟨clo_a3 hn, by rw [card_of_peel lenA3 (clo_a3 hn), h2], h1⟩

/-- **C19, dimension clause, the last six families for all n ≥ 3**: a3, a5, a6, a9, a10, b2, each with the closure in
closed form. -/
theorem C19_dimension_last (n : Nat) (hn : 3 ≤ n) :
    DimRow .a3 n ∧ DimRow .a5 n ∧ DimRow .a6 n ∧ DimRow .a9 n ∧ DimRow .a10 n ∧ DimRow .b2 n := by
  obtain ⟨_, h3⟩ := C19_a3 n hn
  obtain ⟨_, h5⟩ := C19_a5 n hn
  exact ⟨h3.dimRow, h5.dimRow, (C19_a6 n hn).dimRow, (C19_a9 n hn).dimRow, (C19_a10 n hn).dimRow, (C19_b2 n hn).dimRow⟩

/-- **C19, dimension clause, ALL 28 families**: for every family `f` of `two_local_algebras` and every n ≥ 3 - except
a11, a12, a17 at n = 3, where the table is wrong (`C19_refuted`, `C19_witnesses`) - the number of Pauli strings in the
commutator closure of the n-site translates of `G_LIE[f]` is the dimension of the algebra the table names.  (In every
case the closure is known in closed form: `C19_rows`, `C19_dimension_su`, `C19_dimension_more`, `C19_dimension_last`.)
NOT proved: that the closure is ISOMORPHIC to the named algebra beyond the dimension for the 19 families outside
`C19_rows` (blocks and series label are decided per n by the check). -/
theorem C19_dimension_all (f : Fam) (n : Nat) (hn : 3 ≤ n) (h3 : f = .a11 ∨ f = .a12 ∨ f = .a17 → 4 ≤ n) : DimRow f n := by
  obtain ⟨a0, a1, a2, a4, a8, a14, b0, b1, b3⟩ := C19_dimension n hn
  obtain ⟨a18, a19, a21, a22, hsu⟩ := C19_dimension_su n hn
  obtain ⟨a7, a13, a15, a16, a20, b4, h11⟩ := C19_dimension_more n hn
  obtain ⟨a3, a5, a6, a9, a10, b2⟩ := C19_dimension_last n hn
  cases f
  case a11 => exact h11 (h3 (Or.inl rfl))
  case a12 => exact (hsu (h3 (Or.inr (Or.inl rfl)))).1
  case a17 => exact (hsu (h3 (Or.inr (Or.inr rfl)))).2
  all_goals assumption

/-! non-vacuity: the closed forms against the verified enumeration, by kernel evaluation -/
example : T6 [true, false, true, false, false, false] = true ∧ T6 [true, true, true, true, false, false] = false
    ∧ T6 [true, true, false, true, false, false] = true := by decide
example : T10 [true, false, true, true, false, false] = true ∧ T10 [true, false, true, false, false, false] = false := by decide
example : T9 [true, false, true, true, false, false] = true ∧ T9 [true, false, false, false, false, false] = false
    ∧ TB2 [true, false, false, false, false, false] = true := by decide
example : (closureList (klocalBits .a6 4)).1.length = 60 ∧ (closureList (klocalBits .a10 3)).1.length = 15 := by decide +kernel
example : T5 [true, false, true, true, false, false] = true ∧ T5 [true, false, true, false, false, false] = false
    ∧ T3 [true, false, true, false, false, false] = true ∧ T3 [true, false, true, false, true, false] = false := by decide
example : (closureList (klocalBits .a5 4)).1.length = 30 ∧ (closureList (klocalBits .a3 4)).1.length = 40
    ∧ tlName .a5 4 = some [su 4 2] ∧ tlName .a3 4 = some [TwoLocal.sp 2 4] ∧ dimOfName [TwoLocal.sp 2 4] = 40 := by decide +kernel
example : (closureList (klocalBits .a9 4)).1.length = 36 ∧ (closureList (klocalBits .b2 4)).1.length = 37
    ∧ dimOfName [TwoLocal.sp 4, u1] = 37 := by decide +kernel

end C19
end PauLie
