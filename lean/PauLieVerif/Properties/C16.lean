/-
Property C16, for the model `PauLieVerif/Model/SecondMoment.lean` of
`get_full_quadratic_basis` / `get_symmetries_for_component`
(`src/paulie/common/pauli_string_collection.py`) and `second_moment`
(`src/paulie/application/second_moment.py`), for **every** qubit count `n` and every
non-empty collection `G` of synchronised strings of length `n` (`C14.Uniform n G`; what
the collection constructor produces, `C14.C14_collection`).

  "For every collection G on n qubits, each returned quadratic symmetry commutes with
   g(x)1 + 1(x)g for every member g, distinct symmetries are orthogonal in the trace
   inner product, and their number equals the dimension of the space of all 2n-qubit
   operators with that commutation property.  The second-moment twirl is the orthogonal
   projector onto that space: linear, idempotent, fixing every symmetry, with an output
   that has the commutation property and a residual orthogonal to every symmetry."

Vocabulary.  `den (n+n) q = Σ c • M(P)` is the `4ⁿ × 4ⁿ` complex matrix a term list on
`2n` qubits denotes (`Proofs/C12Lemmas.lean`, `M` from `Spec/PauliMatrix.lean`);
`gg n g = M(g I…I) + M(I…I g)` is `g ⊗ 1 + 1 ⊗ g` (the first `n` letters are the first
tensor factor: `C16.M_append_tens`); the trace inner product is `tr(Aᴴ B)` (`ip A B`,
definitionally); `proj Qs X = Σ_{Q ∈ Qs} (tr(Qᴴ X) / tr(Qᴴ Q)) • Q`.

What is proved, for all `n` and `G`:
  (a) `C16_symmetries_commute`, (b) `C16_symmetries_orthogonal`,
  (c) `C16_twirl_formula` (the model's twirl never raises on an operator on `2n` qubits and
      denotes `proj`), `C16_twirl_linear`, `C16_twirl_idempotent`, `C16_twirl_fixes`,
      `C16_twirl_commutes`, `C16_twirl_residual`, `C16_twirl_selfadjoint`;
  (d) `C16_count_le`: the symmetries are linearly independent members of the commutant, so
      their number is **at most** its dimension.
What is **not** proved IN THIS FILE: that the symmetries span the commutant (number `=`
dimension; completeness, a theorem of arXiv:2502.16404).  `C16_partial` derives the full
statement `C16_statement` from exactly this hypothesis.  The hypothesis is proved in
`Properties/C16Complete.lean` (`C16_complete`, `C16_count`, `C16_twirl_is_projection`,
`C16_full : C16_statement`); the correspondence check still decides the count per input on
the implementation with an independent numpy null-space computation (n ≤ 2 quick, n ≤ 3
thorough).

Scope.  Coefficients are exact Gaussian rationals; the source computes with `complex`
doubles and normalises with `sqrt`.  The model's twirl is the rational form
`Σ (tr(Q†M)/tr(Q†Q))·Q` of the normalised code path (header of `Model/SecondMoment.lean`);
thresholds `1e-12` are exact comparisons.  Floating point is outside every theorem; the
harness compares the float realisation with the model's exact values at `1e-9`.
-/
import PauLieVerif.Proofs.C16Indep

namespace PauLie
namespace C16

open Matrix Complex C12 C14 Graph SecondMoment

/-! concrete collection of the examples: `G = [X]` on one qubit (six symmetries) -/
def exG : List PS := [PS.ofLetters [.X]]
example : Uniform 1 exG := by decide

/-- the six symmetries of `[X]` (what `qbasis X` prints; compared with the implementation by
the correspondence check): components `{I},{X},{Y,Z}` × linear symmetries `{I,X}` -/
def exBasis : List Lin :=
  [[(⟨1, 0⟩, PS.ofLetters [.Y, .Y]), (⟨1, 0⟩, PS.ofLetters [.Z, .Z])],
   [(⟨0, 1⟩, PS.ofLetters [.Y, .Z]), (⟨0, -1⟩, PS.ofLetters [.Z, .Y])],
   [(⟨1, 0⟩, PS.ofLetters [.I, .I])], [(⟨1, 0⟩, PS.ofLetters [.I, .X])],
   [(⟨1, 0⟩, PS.ofLetters [.X, .X])], [(⟨1, 0⟩, PS.ofLetters [.X, .I])]]

/-- two of them, computed by the model's `get_symmetries_for_component` -/
example : getSymmetriesForComponent [PS.ofLetters [.Y], PS.ofLetters [.Z]]
      [PS.ofLetters [.I], PS.ofLetters [.X]]
    = .ok [[(⟨1, 0⟩, PS.ofLetters [.Y, .Y]), (⟨1, 0⟩, PS.ofLetters [.Z, .Z])],
           [(⟨0, 1⟩, PS.ofLetters [.Y, .Z]), (⟨0, -1⟩, PS.ofLetters [.Z, .Y])]] := by decide +kernel

/-- **The returned basis.**  On a non-empty collection `get_full_quadratic_basis` never
raises; every returned symmetry is a non-empty combination of well-formed strings on `2n`
qubits denoting a non-zero matrix. -/
theorem C16_basis {n : ℕ} {G : List PS} (hG : Uniform n G) (hne : G ≠ []) :
    ∃ basis, getFullQuadraticBasis G = .ok basis ∧
      ∀ q ∈ basis, Valid (n + n) q ∧ q ≠ [] ∧ den (n + n) q ≠ 0 := by
  obtain ⟨basis, hb, hv, _, hO⟩ := basis_main hG hne
  refine ⟨basis, hb, fun q hq => ⟨(hv q hq).1, (hv q hq).2, ?_⟩⟩
  intro h0
  exact hO.2 _ (List.mem_map.mpr ⟨q, hq, rfl⟩) (by rw [h0]; simp [ip])

/-- the documented error exit: the empty collection raises
`PauliStringCollectionException` (from `get_graph_components`) -/
theorem C16_basis_empty : getFullQuadraticBasis [] = .error .collectionError := by
  have hE : getCommutatorGraph [] = .ok ([PS.ofBits []], []) := by decide
  have hne : components [PS.ofBits []] [] ≠ [] := by
    obtain ⟨h, _⟩ := C14_components_partition [PS.ofBits []] [] (by intro e he; cases he)
    obtain ⟨c, hc, _⟩ := h _ (List.mem_singleton.mpr rfl)
    exact List.ne_nil_of_mem hc
  have hemp : (components [PS.ofBits []] []).isEmpty = false := by
    cases h : components [PS.ofBits []] [] with
    | nil => exact absurd h hne
    | cons _ _ => rfl
  simp [getFullQuadraticBasis, getCommutants, getGraphComponents, hE, hemp, bind, Except.bind,
    pure, Except.pure, throw, throwThe, MonadExceptOf.throw]

example : ∃ basis, getFullQuadraticBasis exG = .ok basis ∧
    ∀ q ∈ basis, Valid 2 q ∧ q ≠ [] ∧ den 2 q ≠ 0 :=
  C16_basis (n := 1) (by decide) (by decide)

/-- **C16 (a)**: "each returned quadratic symmetry commutes with g(x)1 + 1(x)g for every
member g". -/
theorem C16_symmetries_commute {n : ℕ} {G : List PS} (hG : Uniform n G) (hne : G ≠ []) :
    ∃ basis, getFullQuadraticBasis G = .ok basis ∧
      ∀ q ∈ basis, ∀ g ∈ G, den (n + n) q * gg n g = gg n g * den (n + n) q := by
  obtain ⟨basis, hb, _, hc, _⟩ := basis_main hG hne
  exact ⟨basis, hb, hc⟩

example : ∃ basis, getFullQuadraticBasis exG = .ok basis ∧
    ∀ q ∈ basis, den 2 q * gg 1 (PS.ofLetters [.X]) = gg 1 (PS.ofLetters [.X]) * den 2 q := by
  obtain ⟨basis, hb, h⟩ := C16_symmetries_commute (n := 1) (G := exG) (by decide) (by decide)
  exact ⟨basis, hb, fun q hq => h q hq _ (by decide)⟩

/-- **C16 (b)**: "distinct symmetries are orthogonal in the trace inner product" — the
list of denoted matrices is pairwise trace-orthogonal (distinct *positions*, so in
particular no symmetry is returned twice) and every member has non-zero norm. -/
theorem C16_symmetries_orthogonal {n : ℕ} {G : List PS} (hG : Uniform n G) (hne : G ≠ []) :
    ∃ basis, getFullQuadraticBasis G = .ok basis ∧
      (basis.map (den (n + n))).Pairwise (fun A B => (Aᴴ * B).trace = 0) ∧
      ∀ q ∈ basis, ((den (n + n) q)ᴴ * den (n + n) q).trace ≠ 0 := by
  obtain ⟨basis, hb, _, _, hO⟩ := basis_main hG hne
  exact ⟨basis, hb, hO.1, fun q hq => hO.2 _ (List.mem_map.mpr ⟨q, hq, rfl⟩)⟩

/-- the symmetry `i·YZ − i·ZY` of `[X]` (the paper's example) and `YY + ZZ` are orthogonal -/
example :
    Lin.trace <$> Lin.matmul (Lin.h [(⟨0, 1⟩, PS.ofLetters [.Y, .Z]), (⟨0, -1⟩, PS.ofLetters [.Z, .Y])])
      [(⟨1, 0⟩, PS.ofLetters [.Y, .Y]), (⟨1, 0⟩, PS.ofLetters [.Z, .Z])] = .ok ⟨0, 0⟩ := by
  decide +kernel

/-- **C16 (c), the twirl is the projection formula.**  For every operator `m` on `2n`
qubits (`Valid (n+n) m`, any term list) `second_moment(m, G)` never raises and denotes
`Σ_Q (tr(Qᴴ M)/tr(Qᴴ Q)) • Q` over the returned symmetries — "its output is a combination
of symmetries".  The result is again an operator on `2n` qubits unless `m` is the empty
list (then the source returns `0 * ''`, on zero qubits). -/
theorem C16_twirl_formula {n : ℕ} {G : List PS} (hG : Uniform n G) (hne : G ≠ []) :
    ∃ basis, getFullQuadraticBasis G = .ok basis ∧
      ∀ m, Valid (n + n) m → ∃ r, twirl m G = .ok r ∧
        den (n + n) r = proj (basis.map (den (n + n))) (den (n + n) m) ∧
        (m ≠ [] → Valid (n + n) r) := by
  obtain ⟨basis, hb, hv, _, _⟩ := basis_main hG hne
  exact ⟨basis, hb, fun m hm => twirl_spec hb hv hm⟩

/-- the two loops of `second_moment` on the basis of `[X]` and `M = YZ + XX/2 + 2·II` -/
example :
    (do let nb ← normed exBasis
        twirlLoop [(⟨1, 0⟩, PS.ofLetters [.Y, .Z]), (⟨1/2, 0⟩, PS.ofLetters [.X, .X]),
          (⟨2, 0⟩, PS.ofLetters [.I, .I])] [(⟨0, 0⟩, PS.ofLetters [.I, .I])] nb)
    = .ok [(⟨1/2, 0⟩, PS.ofLetters [.Y, .Z]), (⟨-1/2, 0⟩, PS.ofLetters [.Z, .Y]),
      (⟨2, 0⟩, PS.ofLetters [.I, .I]), (⟨1/2, 0⟩, PS.ofLetters [.X, .X])] := by decide +kernel

/-- an operator on another number of qubits is rejected with `ValueError` -/
example : (do let nb ← normed exBasis
              twirlLoop [(⟨1, 0⟩, PS.ofLetters [.X])] [(⟨0, 0⟩, PS.ofLetters [.I])] nb)
    = .error .valueError := by decide +kernel

/-- **C16 (c), linear**: `twirl (m₁ + c·m₂) = twirl m₁ + c · twirl m₂` as matrices. -/
theorem C16_twirl_linear {n : ℕ} {G : List PS} (hG : Uniform n G) (hne : G ≠ [])
    (m₁ m₂ : Lin) (c : GR) (h₁ : Valid (n + n) m₁) (h₂ : Valid (n + n) m₂) :
    ∃ r₁ r₂ r, twirl m₁ G = .ok r₁ ∧ twirl m₂ G = .ok r₂ ∧
      twirl (Lin.add m₁ (Lin.smul m₂ c)) G = .ok r ∧
      den (n + n) r = den (n + n) r₁ + c.toC • den (n + n) r₂ := by
  obtain ⟨basis, _, h⟩ := C16_twirl_formula hG hne
  obtain ⟨r₁, e₁, d₁, _⟩ := h m₁ h₁
  obtain ⟨r₂, e₂, d₂, _⟩ := h m₂ h₂
  obtain ⟨r, e, d, _⟩ := h _ (valid_add h₁ (valid_smul h₂ c))
  refine ⟨r₁, r₂, r, e₁, e₂, e, ?_⟩
  rw [d, d₁, d₂, den_add, den_smul, proj_add, proj_smul]

/-- **C16 (c), idempotent**: twirling the twirl of a (non-empty) operator changes nothing. -/
theorem C16_twirl_idempotent {n : ℕ} {G : List PS} (hG : Uniform n G) (hne : G ≠ [])
    (m : Lin) (hm : Valid (n + n) m) (hmne : m ≠ []) :
    ∃ r r', twirl m G = .ok r ∧ twirl r G = .ok r' ∧ den (n + n) r' = den (n + n) r := by
  obtain ⟨basis, hb, hv, _, hO⟩ := basis_main hG hne
  obtain ⟨r, e, d, hr⟩ := twirl_spec hb hv hm
  obtain ⟨r', e', d', _⟩ := twirl_spec hb hv (hr hmne)
  exact ⟨r, r', e, e', by rw [d', d, proj_idem hO]⟩

/-- the edge the hypothesis `m ≠ []` excludes, as in the source: the twirl of the empty
combination is `0 * ''` (zero qubits), and twirling *that* raises `ValueError`. -/
example :
    (do let nb ← normed exBasis; twirlLoop [] [(⟨0, 0⟩, PS.ofLetters [])] nb)
      = .ok [(⟨0, 0⟩, PS.ofLetters [])] ∧
    (do let nb ← normed exBasis
        twirlLoop [(⟨0, 0⟩, PS.ofLetters [])] [(⟨0, 0⟩, PS.ofLetters [])] nb)
      = .error .valueError := by decide +kernel

/-- **C16 (c), fixes every symmetry**. -/
theorem C16_twirl_fixes {n : ℕ} {G : List PS} (hG : Uniform n G) (hne : G ≠ []) :
    ∃ basis, getFullQuadraticBasis G = .ok basis ∧
      ∀ q ∈ basis, ∃ r, twirl q G = .ok r ∧ den (n + n) r = den (n + n) q := by
  obtain ⟨basis, hb, hv, _, hO⟩ := basis_main hG hne
  refine ⟨basis, hb, fun q hq => ?_⟩
  obtain ⟨r, e, d, _⟩ := twirl_spec hb hv (hv q hq).1
  exact ⟨r, e, by rw [d, proj_fix hO _ (List.mem_map.mpr ⟨q, hq, rfl⟩)]⟩

example :
    (do let nb ← normed exBasis
        twirlLoop [(⟨0, 1⟩, PS.ofLetters [.Y, .Z]), (⟨0, -1⟩, PS.ofLetters [.Z, .Y])]
          [(⟨0, 0⟩, PS.ofLetters [.I, .I])] nb)
    = .ok [(⟨0, 1⟩, PS.ofLetters [.Y, .Z]), (⟨0, -1⟩, PS.ofLetters [.Z, .Y])] := by decide +kernel

/-- **C16 (c), the output has the commutation property**. -/
theorem C16_twirl_commutes {n : ℕ} {G : List PS} (hG : Uniform n G) (hne : G ≠ [])
    (m : Lin) (hm : Valid (n + n) m) :
    ∃ r, twirl m G = .ok r ∧ ∀ g ∈ G, den (n + n) r * gg n g = gg n g * den (n + n) r := by
  obtain ⟨basis, hb, hv, hc, _⟩ := basis_main hG hne
  obtain ⟨r, e, d, _⟩ := twirl_spec hb hv hm
  refine ⟨r, e, fun g hg => ?_⟩
  rw [d]
  apply proj_commute
  intro Q hQ
  obtain ⟨q, hq, rfl⟩ := List.mem_map.mp hQ
  exact hc q hq g hg

/-- **C16 (c), the residual is orthogonal to every symmetry**:
`tr(Qᴴ (M − twirl M)) = 0`. -/
theorem C16_twirl_residual {n : ℕ} {G : List PS} (hG : Uniform n G) (hne : G ≠ [])
    (m : Lin) (hm : Valid (n + n) m) :
    ∃ basis r, getFullQuadraticBasis G = .ok basis ∧ twirl m G = .ok r ∧
      ∀ q ∈ basis, ((den (n + n) q)ᴴ * (den (n + n) m - den (n + n) r)).trace = 0 := by
  obtain ⟨basis, hb, hv, _, hO⟩ := basis_main hG hne
  obtain ⟨r, e, d, _⟩ := twirl_spec hb hv hm
  refine ⟨basis, r, hb, e, fun q hq => ?_⟩
  rw [d]
  exact ip_residual hO _ _ (List.mem_map.mpr ⟨q, hq, rfl⟩)

/-- **C16 (c), *orthogonal* projector**: the twirl is self-adjoint for the trace inner
product, `tr((twirl A)ᴴ B) = tr(Aᴴ twirl B)`. -/
theorem C16_twirl_selfadjoint {n : ℕ} {G : List PS} (hG : Uniform n G) (hne : G ≠ [])
    (a b : Lin) (ha : Valid (n + n) a) (hb : Valid (n + n) b) :
    ∃ ra rb, twirl a G = .ok ra ∧ twirl b G = .ok rb ∧
      ((den (n + n) ra)ᴴ * den (n + n) b).trace = ((den (n + n) a)ᴴ * den (n + n) rb).trace := by
  obtain ⟨basis, hbs, hv, _, hO⟩ := basis_main hG hne
  obtain ⟨ra, ea, da, _⟩ := twirl_spec hbs hv ha
  obtain ⟨rb, eb, db, _⟩ := twirl_spec hbs hv hb
  refine ⟨ra, rb, ea, eb, ?_⟩
  rw [da, db]
  exact proj_selfAdjoint hO _ _

/-- **C16 (d), the proved half of the count**: the returned symmetries are linearly
independent elements of the commutant of `{g ⊗ 1 + 1 ⊗ g}`, hence their number is at most
its dimension. -/
theorem C16_count_le {n : ℕ} {G : List PS} (hG : Uniform n G) (hne : G ≠ []) :
    ∃ basis, getFullQuadraticBasis G = .ok basis ∧
      (∀ q ∈ basis, den (n + n) q ∈ commutant n G) ∧
      basis.length ≤ Module.finrank ℂ (commutant n G) := by
  obtain ⟨basis, hb, _, hc, hO⟩ := basis_main hG hne
  refine ⟨basis, hb, hc, ?_⟩
  have := length_le_finrank (commutant n G) (basis.map (den (n + n))) hO
    (fun Q hQ => by
      obtain ⟨q, hq, rfl⟩ := List.mem_map.mp hQ
      exact hc q hq)
  simpa using this

/-- **COMPLETENESS** — the clause that is *not* proved: "their number equals the dimension
of the space of all 2n-qubit operators with that commutation property". -/
def Complete (n : ℕ) (G : List PS) (basis : List Lin) : Prop :=
  basis.length = Module.finrank ℂ (commutant n G)

/-- the full property -/
def C16_statement : Prop :=
  ∀ (n : ℕ) (G : List PS), Uniform n G → G ≠ [] →
    ∃ basis, getFullQuadraticBasis G = .ok basis ∧
      -- each symmetry commutes with g⊗1 + 1⊗g
      (∀ q ∈ basis, ∀ g ∈ G, den (n + n) q * gg n g = gg n g * den (n + n) q) ∧
      -- distinct symmetries are trace-orthogonal (and non-zero)
      ((basis.map (den (n + n))).Pairwise (fun A B => (Aᴴ * B).trace = 0) ∧
        ∀ q ∈ basis, ((den (n + n) q)ᴴ * den (n + n) q).trace ≠ 0) ∧
      -- their number is the dimension of the commutant
      Complete n G basis ∧
      -- the twirl: defined on every operator on 2n qubits, …
      (∀ m, Valid (n + n) m → ∃ r, twirl m G = .ok r ∧
        -- … a combination of the symmetries (the orthogonal-projection formula), …
        den (n + n) r = proj (basis.map (den (n + n))) (den (n + n) m) ∧
        -- … with the commutation property, …
        (∀ g ∈ G, den (n + n) r * gg n g = gg n g * den (n + n) r) ∧
        -- … a residual orthogonal to every symmetry, …
        (∀ q ∈ basis, ((den (n + n) q)ᴴ * (den (n + n) m - den (n + n) r)).trace = 0) ∧
        -- … idempotent, …
        (m ≠ [] → ∃ r', twirl r G = .ok r' ∧ den (n + n) r' = den (n + n) r) ∧
        -- … linear
        (∀ m₂ c, Valid (n + n) m₂ → ∃ r₂ r₁₂, twirl m₂ G = .ok r₂ ∧
          twirl (Lin.add m (Lin.smul m₂ c)) G = .ok r₁₂ ∧
          den (n + n) r₁₂ = den (n + n) r + c.toC • den (n + n) r₂)) ∧
      -- fixing every symmetry
      (∀ q ∈ basis, ∃ r, twirl q G = .ok r ∧ den (n + n) r = den (n + n) q)

/-- **C16 — partial.**  Everything in `C16_statement` is proved for all `n` and all
collections **except** the completeness clause: GIVEN that the number of returned
symmetries equals the dimension of the commutant of `{g ⊗ 1 + 1 ⊗ g : g ∈ G}` (the theorem
of arXiv:2502.16404, not formalised here; `≤` is `C16_count_le`), the full property holds.
**Missing**: a proof of the hypothesis `hcomplete`.  It is decided per input by the
correspondence check (numpy null space of the commutation system in the Pauli basis). -/
theorem C16_partial
    (hcomplete : ∀ (n : ℕ) (G : List PS), Uniform n G → G ≠ [] →
      ∀ basis, getFullQuadraticBasis G = .ok basis → Complete n G basis) :
    C16_statement := by
  intro n G hG hne
  obtain ⟨basis, hb, hv, hc, hO⟩ := basis_main hG hne
  refine ⟨basis, hb, hc, ⟨hO.1, fun q hq => hO.2 _ (List.mem_map.mpr ⟨q, hq, rfl⟩)⟩,
    hcomplete n G hG hne basis hb, ?_, ?_⟩
  · intro m hm
    obtain ⟨r, e, d, hr⟩ := twirl_spec hb hv hm
    refine ⟨r, e, d, ?_, ?_, ?_, ?_⟩
    · intro g hg
      rw [d]
      apply proj_commute
      intro Q hQ
      obtain ⟨q, hq, rfl⟩ := List.mem_map.mp hQ
      exact hc q hq g hg
    · intro q hq
      rw [d]
      exact ip_residual hO _ _ (List.mem_map.mpr ⟨q, hq, rfl⟩)
    · intro hmne
      obtain ⟨r', e', d', _⟩ := twirl_spec hb hv (hr hmne)
      exact ⟨r', e', by rw [d', d, proj_idem hO]⟩
    · intro m₂ c h₂
      obtain ⟨r₂, e₂, d₂, _⟩ := twirl_spec hb hv h₂
      obtain ⟨r₁₂, e₁₂, d₁₂, _⟩ := twirl_spec hb hv (valid_add hm (valid_smul h₂ c))
      exact ⟨r₂, r₁₂, e₂, e₁₂, by rw [d₁₂, d, d₂, den_add, den_smul, proj_add, proj_smul]⟩
  · intro q hq
    obtain ⟨r, e, d, _⟩ := twirl_spec hb hv (hv q hq).1
    exact ⟨r, e, by rw [d, proj_fix hO _ (List.mem_map.mpr ⟨q, hq, rfl⟩)]⟩

/-! non-vacuity of the remaining clauses: the hypotheses are satisfiable (`G = [X]`,
`M = YZ + XX/2`, `M₂ = ZZ`) -/
def exM : Lin := [(⟨1, 0⟩, PS.ofLetters [.Y, .Z]), (⟨1/2, 0⟩, PS.ofLetters [.X, .X])]
def exM2 : Lin := [(⟨1, 0⟩, PS.ofLetters [.Z, .Z])]
example : Valid 2 exM ∧ Valid 2 exM2 ∧ exM ≠ [] := by decide
example := C16_twirl_linear (n := 1) (G := exG) (by decide) (by decide) exM exM2 ⟨0, 1⟩
  (by decide) (by decide)
example := C16_twirl_idempotent (n := 1) (G := exG) (by decide) (by decide) exM (by decide) (by decide)
example := C16_twirl_commutes (n := 1) (G := exG) (by decide) (by decide) exM (by decide)
example := C16_twirl_residual (n := 1) (G := exG) (by decide) (by decide) exM (by decide)
example := C16_twirl_selfadjoint (n := 1) (G := exG) (by decide) (by decide) exM exM2
  (by decide) (by decide)
example := C16_twirl_fixes (n := 1) (G := exG) (by decide) (by decide)
example := C16_count_le (n := 1) (G := exG) (by decide) (by decide)

end C16
end PauLie
