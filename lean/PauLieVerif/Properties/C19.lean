/-
Property C19, for the model `PauLieVerif/Model/TwoLocal.lean` of
`common/two_local_generators.py` (with the k-local expansion of
`Model/Graph.lean` and the classifier of `Model/Classify.lean`).

  "For every named two-local family and every n>=3, the algebra listed in the
   reference table for n qubits is isomorphic to the commutator closure of that
   family's generators translated along an open chain of n qubits, and the
   classifier reports an algebra isomorphic to it."

Vocabulary.  `klocalBits f n` is the model's `get_pauli_string(G_LIE[f], n=n)` as bit
lists; `Clo G` (Spec/Clo.lean) is the commutator closure, enumerated exactly by
`closureList` (Proofs/Closure.lean); `tlName f n` is the row of
`two_local_algebras(n)`; "isomorphic" is expressed through the invariants
`invOfClosure` / `invOfName` (dimension, centre, and per connected block: simple
dimension, series label, copies).  That equal invariants mean isomorphic algebras
for a Pauli DLA is the classification theorem of arXiv:2408.00081 — assumed, not
proved here.

What is proved, and what is not:
 * the model's table and generator lists are the Python ones (Proofs/TieTwoLocal.lean,
   3 ≤ n ≤ 40, re-checked on every run against the regenerated tables);
 * name arithmetic for all parameters and the low-rank coincidences (`C19_dimName`,
   `C19_coincidences`);
 * for ALL n ≥ 3 the rows of the families with pairwise commuting translates — a0, b0,
   b1 — are correct (`C19_a0`, `C19_b0`, `C19_b1`, from `C19_commuting`);
 * for ALL n ≥ 3 the closure of the path family a1 is the set of intervals and has
   n(n−1)/2 = dim so(n) members (`C19_a1`), and the closure of b3 is the set of all single-site
   strings and has 3n = dim(n·su(2)) members (`C19_b3`) — dimension, not the block structure;
 * at n = 3 every row is decided by the kernel: all correct except a11, a12, a17
   (`C19_partial`), which refutes the statement (`C19_refuted`);
 * NOT proved: the remaining 23 families (and the block structure of a1, b3) for n ≥ 4 (the content of the two-local
   classification, npj QI 10 (2024)); they are decided per (family, n) by the compiled
   `closureList` in the harness (n ≤ 6 quick, n ≤ 8 thorough).  The classifier clause is
   not evaluated by the kernel at all (the modelled pipeline does not reduce there);
   it is checked by differential execution of model and implementation.
-/
import PauLieVerif.Proofs.C19Commuting
import PauLieVerif.Proofs.C19Path
import PauLieVerif.Proofs.C19Single
import PauLieVerif.Proofs.TieTwoLocal

namespace PauLie
namespace C19
open TwoLocal Classify Closure

/-- **C19, full statement**: for every family and every n ≥ 3 the table row has the
invariants of the commutator closure of the translated generators (`rowOK`), and the
classifier reports a name with the invariants of the table's name. -/
def C19_statement : Prop :=
  ∀ (f : Fam) (n : Nat), 3 ≤ n → rowOK f n = true ∧ classifierOK f n

/-- **name arithmetic** ("dim su(m)=m²−1, so(m)=m(m−1)/2, sp(m)=m(2m+1), u(1)=1"), for all
parameters and multiplicities, and additivity over a sum of summands. -/
theorem C19_dimName :
    (∀ m k, (su m k).dim = k * (m ^ 2 - 1)) ∧ (∀ m k, (so m k).dim = k * (m * (m - 1) / 2)) ∧
    (∀ m k, (sp m k).dim = k * (m * (2 * m + 1))) ∧ (∀ k, (u1 k).dim = k) ∧
    (∀ l l', dimOfName (l ++ l') = dimOfName l + dimOfName l') :=
  ⟨dim_su, dim_so, dim_sp, dim_u1, dimOfName_append⟩

example : dimOfName [su 8] = 63 ∧ dimOfName [so 8] = 28 ∧ dimOfName [sp 4] = 36 ∧ dimOfName [so 7] = 21 := by
  decide

/-- **low-rank coincidences** ("so2=u1, so3=su2=sp1, so4=2·su2, so5=sp2, so6=su4"): the
two names have equal invariants, with any multiplicity `k` and inside any sum. -/
theorem C19_coincidences (pre post : List Summand) (k : Nat) :
    invOfName (pre ++ [so 2 k] ++ post) = invOfName (pre ++ [u1 k] ++ post) ∧
    invOfName (pre ++ [so 3 k] ++ post) = invOfName (pre ++ [su 2 k] ++ post) ∧
    invOfName (pre ++ [sp 1 k] ++ post) = invOfName (pre ++ [su 2 k] ++ post) ∧
    invOfName (pre ++ [so 4 k] ++ post) = invOfName (pre ++ [su 2 (2 * k)] ++ post) ∧
    invOfName (pre ++ [so 5 k] ++ post) = invOfName (pre ++ [sp 2 k] ++ post) ∧
    invOfName (pre ++ [so 6 k] ++ post) = invOfName (pre ++ [su 4 k] ++ post) :=
  ⟨inv_so2_u1 .., inv_so3_su2 .., inv_sp1_su2 .., inv_so4_2su2 .., inv_so5_sp2 .., inv_so6_su4 ..⟩

/-- the invariants do separate what is not isomorphic: so(7) / sp(3) (equal dimension 21),
su(64) / sp(45) (equal dimension 4095), so(4) / su(2) -/
example : invOfName [so 7] ≠ invOfName [sp 3] ∧ invOfName [su 64] ≠ invOfName [sp 45]
    ∧ invOfName [so 4] ≠ invOfName [su 2] := by decide +kernel

/-- **the isomorphism dictionary** `Classification.get_isomorphisms()` (tied to the source by
`Tie.iso_tie`): its entries read as names, the entries `so(3)↦su(2)` and `so(4)↦2*su(2)` are
sound, and the entry `2*so(2)↦2*su(2)` is not (so(2) = u(1) is abelian: dimension 2 against 6).
The last one is latent: after the repair of `Morph.counts` the classifier never reports so(2). -/
theorem C19_isomorphism_dictionary :
    TwoLocal.isomorphisms =
      [((so 2 2).toString, (su 2 2).toString), ((so 3).toString, (su 2).toString),
       ((so 4).toString, (su 2 2).toString)] ∧
    invOfName [so 3] = invOfName [su 2] ∧ invOfName [so 4] = invOfName [su 2 2] ∧
    invOfName [so 2 2] ≠ invOfName [su 2 2] ∧ dimOfName [so 2 2] = 2 ∧ dimOfName [su 2 2] = 6 := by
  decide +kernel

/-- **commuting generators**: if the generators commute pairwise the commutator closure is
the generator set itself (general lemma, any strings, any n). -/
theorem C19_commuting (G : List V) (h : ∀ a ∈ G, ∀ b ∈ G, omega a b = false) (x : V) :
    Clo G x ↔ x ∈ G := clo_of_commuting h

/-- what a correct abelian row means: the closure of the translated generators is the
(duplicate-free) generator list itself, it has `k` members, the row is `k*u(1)`, and the
decidable row check holds -/
def AbelianRow (f : Fam) (n k : Nat) : Prop :=
  (∀ x, Clo (klocalBits f n) x ↔ x ∈ klocalBits f n) ∧ (klocalBits f n).Nodup ∧
  (klocalBits f n).length = k ∧ tlName f n = some [u1 k] ∧
  invOfClosure (closureList (klocalBits f n)).1 = invOfName [u1 k] ∧ rowOK f n = true

theorem abelianRow_of {f : Fam} {gs : List V} (hf : f.gensPS = gs.map PS.ofBits) {n k : Nat}
    (hn : 2 ≤ n) (hne : gs ≠ []) (hg : ∀ g ∈ gs, g.length = 4)
    (hx : ∀ g ∈ gs, ∃ a b, g = [a, false, b, false]) (hk : (klocalV n gs).length = k)
    (ht : tlName f n = some [u1 k]) : AbelianRow f n k := by
  have hb := klocalBits_eq hf hn hne hg
  obtain ⟨h1, h2, h3⟩ := commuting_family (n := n) hg hx
  have h4 : invOfClosure (closureList (klocalBits f n)).1 = invOfName [u1 k] := by
    rw [hb, h3, invOfName_u1, hk]
  refine ⟨by rwa [hb], by rwa [hb], by rwa [hb], ht, h4, ?_⟩
  simp [rowOK, ht, h4]

/-- **a0** (`XX`): for every n ≥ 3 the n−1 translates commute, the closure is exactly these
n−1 strings, and the table row `(n−1)*u(1)` is correct. -/
theorem C19_a0 (n : Nat) (hn : 3 ≤ n) : AbelianRow .a0 n (n - 1) :=
  abelianRow_of (gs := [vXX]) rfl (by omega) (by simp) (by simp [vXX])
    (by simp [vXX]) (length_klocalV_a0 n) rfl

/-- **b0** (`XI`, `IX`): closure = the n single-site `X` strings; row `n*u(1)` correct. -/
theorem C19_b0 (n : Nat) (hn : 3 ≤ n) : AbelianRow .b0 n n :=
  abelianRow_of (gs := [vXI, vIX]) rfl (by omega) (by simp) (by simp [vXI, vIX])
    (by simp [vXI, vIX]) (length_klocalV_b0 (by omega)) rfl

/-- **b1** (`XX`, `XI`, `IX`): closure = n−1 `XX` translates and n single-site `X`;
row `(2n−1)*u(1)` correct. -/
theorem C19_b1 (n : Nat) (hn : 3 ≤ n) : AbelianRow .b1 n (2 * n - 1) :=
  abelianRow_of (gs := [vXX, vXI, vIX]) rfl (by omega) (by simp) (by simp [vXX, vXI, vIX])
    (by simp [vXX, vXI, vIX]) (length_klocalV_b1 (by omega)) rfl

/-- **a1** (`XY`, a path): for every n ≥ 3 the commutator closure of the n−1 translates is
exactly the set of intervals `I^a X Z^(b-a-1) Y I^(n-1-b)` (`ev n a b`, a < b < n); it has
n(n−1)/2 members, which is the dimension of the table row `so(n)`.  (Dimension only: that the
block structure is that of so(n) — e.g. two blocks at n = 4 — is decided per n by the checker.) -/
theorem C19_a1 (n : Nat) (hn : 3 ≤ n) :
    (∀ x, Clo (klocalBits .a1 n) x ↔ ∃ a b, a < b ∧ b < n ∧ x = ev n a b) ∧
    (closureList (klocalBits .a1 n)).1.length = n * (n - 1) / 2 ∧
    tlName .a1 n = some [so n] ∧ dimOfName [so n] = n * (n - 1) / 2 := by
  have hb : klocalBits .a1 n = klocalV n [vXY] :=
    klocalBits_eq (gs := [vXY]) rfl (by omega) (by simp) (by simp [vXY])
  refine ⟨fun x => by rw [hb]; exact clo_a1 x, by rw [hb]; exact card_clo_a1 n, rfl, ?_⟩
  simp [dimOfName, Summand.dim, so, dimSO]

example : ev 3 0 2 = [true, false, false, true, true, true] ∧ (closureList (klocalBits .a1 5)).1.length = 10 := by
  decide +kernel

/-- **b3** (`XI`, `YI`, `IX`, `IY`): for every n ≥ 3 the commutator closure of the translates is
exactly the set of single-site Pauli strings (`sv n k a b` = the letter with bits (a,b) at site k);
it has 3n members, the dimension of the table row `n*su(2)`.  (Dimension only; the block
structure — n blocks of three — is decided per n by the checker.) -/
theorem C19_b3 (n : Nat) (hn : 3 ≤ n) :
    (∀ x, Clo (klocalBits .b3 n) x ↔ ∃ k a b, k < n ∧ (a || b) = true ∧ x = sv n k a b) ∧
    (closureList (klocalBits .b3 n)).1.length = 3 * n ∧
    tlName .b3 n = some [su 2 n] ∧ dimOfName [su 2 n] = 3 * n := by
  have hb : klocalBits .b3 n = klocalV n gensB3 :=
    klocalBits_eq (gs := gensB3) rfl (by omega) (by simp [gensB3]) (by simp [gensB3, vXI, vYI, vIX, vIY])
  refine ⟨fun x => by rw [hb]; exact clo_b3 (by omega) x, by rw [hb]; exact card_clo_b3 (by omega), rfl, ?_⟩
  simp [dimOfName, Summand.dim, su, dimSU]; omega

example : sv 3 1 false true = [false, false, false, true, false, false]
    ∧ (closureList (klocalBits .b3 4)).1.length = 12 := by decide +kernel

/-- non-vacuity: the expansion the theorems talk about, at n = 4 -/
example : (klocalBits .b1 4).length = 7 ∧ (closureList (klocalBits .b1 4)).1.length = 7
    ∧ tlName .b1 4 = some [u1 7] := by decide +kernel

/-- **C19, partial.**  Proved: (i) for ALL n ≥ 3 the rows a0, b0, b1 are correct; (ii) at
n = 3 the kernel decides every row — all correct except exactly a11, a12, a17; (iii) no row
is `None`.  Missing for the full statement: the other 25 families for n ≥ 4 (for a1 and b3 the closure and its dimension are proved for all n in `C19_a1`, `C19_b3`, the invariants beyond the dimension are not) (decided per
(family, n) by the compiled verified enumerator in the harness, n ≤ 8) and the whole
classifier clause (differential execution only). -/
theorem C19_partial :
    (∀ n, 3 ≤ n → rowOK .a0 n = true ∧ rowOK .b0 n = true ∧ rowOK .b1 n = true) ∧
    (∀ f : Fam, f ≠ .a11 → f ≠ .a12 → f ≠ .a17 → rowOK f 3 = true) ∧
    (∀ (f : Fam) (n : Nat), (tlName f n).isSome = true) := by
  refine ⟨fun n hn => ⟨(C19_a0 n hn).2.2.2.2.2, (C19_b0 n hn).2.2.2.2.2, (C19_b1 n hn).2.2.2.2.2⟩,
    ?_, Tie.tlName_isSome⟩
  intro f h1 h2 h3
  have hf : f ∈ Fam.all := Tie.fam_all_complete f
  have hnot : f ∉ Fam.all.filter (fun f => !rowOK f 3) := by
    rw [rows_n3]; simp [h1, h2, h3]
  rw [List.mem_filter] at hnot
  cases h : rowOK f 3
  · exact absurd ⟨hf, by simp [h]⟩ hnot
  · rfl

/-- the three witnesses: closures of 21, 36, 36 strings against table dimensions 28, 63, 63 -/
theorem C19_witnesses :
    (closureList (klocalBits .a11 3)).1.length = 21 ∧ tlName .a11 3 = some [so 8] ∧ dimOfName [so 8] = 28 ∧
    (closureList (klocalBits .a12 3)).1.length = 36 ∧ tlName .a12 3 = some [su 8] ∧ dimOfName [su 8] = 63 ∧
    (closureList (klocalBits .a17 3)).1.length = 36 ∧ tlName .a17 3 = some [su 8] ∧ dimOfName [su 8] = 63 ∧
    invOfClosure (closureList (klocalBits .a11 3)).1 = invOfName [so 7] ∧
    invOfClosure (closureList (klocalBits .a12 3)).1 = invOfName [sp 4] ∧
    invOfClosure (closureList (klocalBits .a17 3)).1 = invOfName [sp 4] := by
  decide +kernel

/-- **C19 is false** of model and code: at n = 3 the rows a11, a12, a17 do not have the
invariants (not even the dimension) of the closure.  Replayed on the implementation by
`harness/props/c19.py` (corpus lines `tl 3 a11`, `tl 3 a12`, `tl 3 a17`). -/
theorem C19_refuted : ¬ C19_statement := by
  intro h
  have := (h .a11 3 (by decide)).1
  have hf : rowOK .a11 3 = false := by decide +kernel
  rw [hf] at this
  cases this

end C19
end PauLie
