/-
Property C08 - "Selecting the dependents of a collection from a set X returns exactly the members of X
that lie in the commutator closure of the collection; the containment test is true exactly when every
string of X lies in that closure; the space returned by the collection is that closure."

Proved here, for ALL inputs (any number of qubits), about the Lean models `Morph.isEq`,
`Morph.selectDependents`, `Classify.isIn / selectDependents / getSpace` that the correspondence
check ties to the implementation - the SOUNDNESS half of every verdict "is a member", conditional on
the executable certificate checks of the guarded model (`Model/MorphG.lean`, as for property C02):

A. `C08_dependent_sound` - a membership query runs the reduction pipeline on the candidate `x` against
   the stored canonical legs `L` (fresh factory; check mode for `select_dependents`, plain mode for
   `is_eq`).  If the run raises `DependentException` and its guard holds (`MorphG.memberGuard`: every
   certificate check of the guarded run succeeded and the exception was raised at a certified verdict),
   then `x.bits ∈ Clo (bits of the vertices of L)`.
   Behind it: a second invariant of the guarded pipeline (`Proofs/C08Prims.lean`) - while the candidate
   is in hand the rest of the pool generates `Clo (vertices L)` and rest ∪ {candidate} generates
   `Clo (vertices L ∪ {x})` - kept by every primitive and step on every exit.
B. `C08_select_sound`, `C08_isin_sound` - hence every string returned by `Morph.selectDependents L X`
   is a member of `X` in the closure, and `Morph.isEq L X = true` implies `X ⊆ Clo`.
C. `C08_partial` - for a collection `G` whose classification passed the certificate checks of C02
   (`C02_classify_partial`: canonical vertices generate `Clo G`): `select_dependents G X ⊆ X ∩ Clo G`,
   `is_in G X = true → X ⊆ Clo G`, `get_space G ⊆ Clo G`.  The loops of the three queries are proved to be
   plain folds over (component of X) × (component of G) (`isIn_eq`, `selectDependents_eq'`).
D. `C08_nonmember_cert` (`C08_appended_not_member_partial`) - the part of the COMPLETENESS half that is
   proved, as certificates checked per query (`MorphG.nonMemberCert`, searched by Gaussian elimination,
   answer checked): `x ∉ Clo (vertices)` if
     (i)   a string `w` commutes with every canonical vertex and anticommutes with `x` (then `x` is not
           even in the F2-span of the vertices), or
     (ii)  `x` is the identity and no vertex is, or
     (iii) the vertices are linearly independent (dual family `ω(w_i, v_j) = δ_ij`) and the quadratic
           form `q` with `q(v_i) = 1` and polar form `ω` vanishes on the coordinates of `x`: every element of
           a commutator closure has `q = 1` (`clo_mask`, `qform_xor`) - this covers strings INSIDE the span
           such as even products of single legs.

NOT proved: the completeness half in general - "a member of the closure is always reported dependent"
(for strings with `q = 1` in the span the verdict `appended` is not proved to mean non-membership, and
linearly dependent vertex sets have no certificate (iii)), and that a non-`dependent` verdict coincides
with non-membership; this is the classification theorem of the reduction.  Nor that the guards always hold (graph-shape theorem, as for
C02).  Both are decided per query by the check (`mguards`, verified closure for n ≤ 6).
-/
import PauLieVerif.Proofs.C08Classify
import PauLieVerif.Proofs.C08Quad

namespace PauLie
namespace C08
open Closure Morph MorphG C02 Classify

/-- A. "… returns exactly the members of X that lie in the commutator closure" - soundness of one
verdict: `DependentException` with guard ok ⇒ member of the closure of the stored vertices -/
theorem C08_dependent_sound {n : Nat} {L : List (List PS)} {check : Bool} {x : PS}
    (hV : ∀ b ∈ bitsOf L.flatten, b.length = 2 * n) (hx : x.bits.length = 2 * n)
    (hr : (runPipeline { legs := L, isCheck := check } x).1 = .error .dependent)
    (hg : memberGuard L check x = true) : Clo (bitsOf L.flatten) x.bits :=
  dependent_sound hV hx hr hg

/-- the same on the guarded run itself: all checks ok and a certified verdict -/
theorem C08_guarded_sound {n : Nat} {L : List (List PS)} {check : Bool} {x : PS}
    (hV : ∀ b ∈ bitsOf L.flatten, b.length = 2 * n) (hx : x.bits.length = 2 * n)
    (hok : (memberRunG L check x).2.ghost.ok = true)
    (hv : (memberRunG L check x).2.ghost.verdict = true) : Clo (bitsOf L.flatten) x.bits :=
  memberRunG_sound hV hx hok hv

/-- B. `MorphFactory.select_dependents(L, X)` ⊆ `X ∩ Clo (vertices L)` -/
theorem C08_select_sound {n : Nat} {L : List (List PS)} {X : List PS} {y : PS}
    (hV : ∀ b ∈ bitsOf L.flatten, b.length = 2 * n) (hy : y ∈ Morph.selectDependents L X)
    (hx : ∀ x ∈ X, x.bits.length = 2 * n) (hg : ∀ x ∈ X, memberGuard L true x = true) :
    y ∈ X ∧ Clo (bitsOf L.flatten) y.bits :=
  select_sound hV hy hx hg

/-- B. `MorphFactory.is_eq(L, X) = True` ⇒ `X ⊆ Clo (vertices L)` -/
theorem C08_isin_sound {n : Nat} {L : List (List PS)} {X : List PS}
    (hV : ∀ b ∈ bitsOf L.flatten, b.length = 2 * n) (h : Morph.isEq L X = true)
    (hx : ∀ x ∈ X, x.bits.length = 2 * n) (hg : ∀ x ∈ X, memberGuard L false x = true) :
    ∀ x ∈ X, Clo (bitsOf L.flatten) x.bits :=
  isEq_sound hV h hx hg

/-- D. a certificate of non-membership -/
theorem C08_nonmember_cert {vs : List PS} {x : PS} (h : nonMemberCert vs x = true) :
    ¬ Clo (bitsOf vs) x.bits :=
  nonMemberCert_sound h

/-- D. "`appended` ⇒ not in the closure", PARTIAL: only when the run of the query is accompanied by a
separating string (x outside the F2-span of the stored vertices); for queries inside the span the
verdict `appended` is not proved to mean non-membership -/
theorem C08_appended_not_member_partial {L : List (List PS)} {check : Bool} {x : PS}
    (_hr : (runPipeline { legs := L, isCheck := check } x).1 ≠ .error .dependent)
    (hc : nonMemberCert L.flatten x = true) : ¬ Clo (bitsOf L.flatten) x.bits :=
  nonMemberCert_sound hc

/-- C. the three queries of a collection.  Hypotheses: `G` and `X` synchronised strings of one length
`n`; the classification `ms` of `G` passed the certificate checks of property C02 (guards of every
component, complete, nothing given up); the runs of the query strings against the canonical legs of
every component pass `memberGuard` (check mode for `select_dependents` / `get_space`, plain mode for
`is_in`).  PARTIAL: soundness only (⊆), and the guards are not discharged. -/
theorem C08_partial {n : Nat} {G X : List PS} (hG : C14.Uniform n G) (hX : C14.Uniform n X)
    {ms : List MorphR} (hcls : classify G = .ok ms)
    (hg02 : ∀ subs, Graph.getSubgraphs G = .ok subs → ∀ sub ∈ subs, guardsHold sub = true)
    (hm02 : ∀ m ∈ ms, m.complete = true ∧ m.unappended = []) :
    (∀ D, Classify.selectDependents G.length ms X = .ok (some D) →
        (∀ m ∈ ms, ∀ x ∈ X, memberGuard m.legs true x = true) →
        ∀ d ∈ D, d ∈ X ∧ Clo (bitsOf G) d.bits) ∧
    (Classify.isIn G.length ms X = .ok true →
        (∀ m ∈ ms, ∀ x ∈ X, memberGuard m.legs false x = true) →
        ∀ x ∈ X, Clo (bitsOf G) x.bits) ∧
    (∀ S, Classify.getSpace G ms = .ok (some S) →
        (∀ m ∈ ms, ∀ x ∈ PS.genAll n, memberGuard m.legs true x = true) →
        ∀ s ∈ S, Clo (bitsOf G) s.bits) := by
  have hc : Classified n G ms := ⟨hG, (classify_sound hG hcls hg02 hm02).1⟩
  exact ⟨fun D h hg => select_sound' hc hX h hg, fun h hg => isIn_sound hc hX h hg,
    fun S h hg => space_sound hc h hg⟩

/-! ## non-vacuity (kernel evaluation) -/

section Example
private def ps (s : String) : PS := PS.ofLetters ((lettersOfString? s).getD [])
private def star : List (List PS) := [[ps "ZII"], [ps "XII"], [ps "XZI"], [ps "XIZ"]]

/-- the odd product `XZZ` of the three single legs: verdict `dependent`, guard ok (check mode) -/
example : (match (runPipeline { legs := star, isCheck := true } (ps "XZZ")).1 with
    | .error e => excTag e | .ok _ => "R") = "D" := by decide +kernel
example : memberGuard star true (ps "XZZ") = true := by decide +kernel
/-- `YII = ZII·XII` is a commutator of two vertices: plain mode -/
example : memberGuard star false (ps "YII") = true := by decide +kernel
/-- the even product `IZZ` is not reported (it commutes with every vertex: the run ends in an
`IndexError`, which `select_dependents` treats as "not dependent"); it is in the F2-span, so no
separating string exists, but the quadratic form certifies that it is not generated (`q = 0`) -/
example : (match (runPipeline { legs := star, isCheck := true } (ps "IZZ")).1 with
    | .error e => excTag e | .ok _ => "R") = "I" := by decide +kernel
example : sepCert star.flatten (ps "IZZ") = false := by decide +kernel
example : qCert star.flatten (ps "IZZ") = true := by decide +kernel
/-- the identity is not generated -/
example : zeroCert star.flatten (ps "III") = true := by decide +kernel
/-- `IXI` is outside the span: certified non-member -/
example : nonMemberCert star.flatten (ps "IXI") = true := by decide +kernel
end Example

end C08
end PauLie
