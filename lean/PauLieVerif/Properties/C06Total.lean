/-
Property C06 on the model of the search, second part: TOTALITY OF THE MODEL and the exact exceptions.

  "For every non-identity Pauli string of length N>=3 and every left-block size
   2<=k<N, compilation terminates and returns a sequence instead of raising."

The model (`Model/CompilerSearch.lean`) runs the `while` loops and the recursive generators of the Python
code on fuel, with a separate error value `⟨.other, .fuel⟩` ("MODEL-OUT-OF-FUEL") when the fuel runs out.
Four loops are fuelled: the BFS of `left_map_over_a`, the `while i >= 1` loop of `subsystem_compiler`, and
the generators `_all_interleavings_preserving` / `…4`; `_bfs_case3` is bounded by its own depth cap (a `for`
loop) and everything else is recursion over a list.  Proved here, for ALL inputs:

* `left_search_never_out_of_fuel`, `left_search_errors` — the BFS visits each of the `2^bits` strings at most
  once, so `queue + unmarked slots` drops by one per iteration and the fuel `2^bits + 1` suffices;
* `left_search_total`, `left_search_decides` — on well-formed operands of one length `left_map_over_a` returns
  a walk IFF one exists and raises `RuntimeError("Left map BFS failed.")` IFF none exists;
* `subsystem_loop_fuel`, `interleavings_fuel` — the other three fuelled loops end before their fuel;
* `compileTarget_total` — `compile_target`, on EVERY input (any string, any `k`), returns a sequence or raises
  a Python exception of the code: the out-of-fuel value is never produced.  "Terminates" of C06 is therefore
  TRUE of the model; what fails is "returns instead of raising":
* `C06_fails_odd_wI_raises` — every `N`, every odd `k`, target `V ⊗ I…I` with an even number of non-identity
  letters in `V`: exactly `RuntimeError` raised in `compile` (`"Left-only mapping failed."`);
* `C06_fails_odd_single_raises` — every `N`, every odd `k`, target `V ⊗ X_j` / `V ⊗ Z_j`, `V ≠ I` of even weight:
  exactly `RuntimeError` raised in `left_map_over_a`.
Not proved: the raises at even `k` and for right blocks with ≥ 2 factors are reproduced by the model per
input (correspondence), not explained by a theorem.
-/
import PauLieVerif.Proofs.CompilerOddSingle
import PauLieVerif.Properties.C06Search

namespace PauLie
namespace C06

open Compiler CompilerSearch

/-- **the left search never runs out of fuel** (ALL starts, goals and generator lists, of any lengths) -/
theorem left_search_never_out_of_fuel (f t : PS) (A : List PS) :
    leftMapOverA f t A ≠ .error ⟨.other, .fuel⟩ :=
  leftMapOverA_never_out_of_fuel f t A

/-- the only error results of the left search: its own `RuntimeError("Left map BFS failed.")`, or the
`ValueError` of `_commutes` / `_multiply` on operands of different lengths -/
theorem left_search_errors (f t : PS) (A : List PS) (e : Fail) (h : leftMapOverA f t A = .error e) :
    e = ⟨.runtimeError, .leftMapOverA⟩ ∨ e.site = .commutes ∨ e.site = .multiply :=
  leftMapOverA_error f t A e h

/-- **the left search is total** on well-formed operands of one length: a sequence, or
`RuntimeError("Left map BFS failed.")` -/
theorem left_search_total (f t : PS) (A : List PS) (n : ℕ) (hf : f.WF ∧ f.len = n)
    (hA : ∀ a ∈ A, a.WF ∧ a.len = n) :
    (∃ path, leftMapOverA f t A = .ok path) ∨ leftMapOverA f t A = .error ⟨.runtimeError, .leftMapOverA⟩ :=
  leftMapOverA_total f t A n hf hA

/-- **the left search decides reachability** (upgrade of `left_search_sound` / `left_search_complete`): it
returns a walk iff one exists, it raises `RuntimeError("Left map BFS failed.")` iff none exists — and
nothing else ever happens -/
theorem left_search_decides (f t : PS) (A : List PS) (n : ℕ) (hf : f.WF ∧ f.len = n)
    (hA : ∀ a ∈ A, a.WF ∧ a.len = n) :
    ((∃ path, leftMapOverA f t A = .ok path) ↔ ∃ l r, Walk A f l r ∧ r.letters = t.letters) ∧
    (leftMapOverA f t A = .error ⟨.runtimeError, .leftMapOverA⟩ ↔ ¬ ∃ l r, Walk A f l r ∧ r.letters = t.letters) :=
  leftMapOverA_iff f t A n hf hA

/-- non-vacuity of both directions (kernel-evaluated; cf. the examples of `Properties/C06Search.lean`) -/
example : ∃ l r, Walk (aset 2) (PS.ofLetters [.X, .I]) l r ∧ r.letters = (PS.ofLetters [.Y, .Z]).letters :=
  ((left_search_decides _ _ _ 2 ⟨by decide, by decide⟩ (fun a ha => aset_wf ha)).1).mp
    ⟨[PS.ofLetters [.Z, .Z]], by decide +kernel⟩
example : ¬ ∃ l r, Walk (aset 3) (PS.ofLetters [.X, .I, .I]) l r ∧ r.letters = (PS.ofLetters [.I, .X, .X]).letters :=
  ((left_search_decides _ _ _ 3 ⟨by decide, by decide⟩ (fun a ha => aset_wf ha)).2).mp (by decide +kernel)

/-- **the `while i >= 1` loop of `subsystem_compiler` ends before its fuel** (every context, every `W`) -/
theorem subsystem_loop_fuel (c : Ctx) (w : PS) : ∀ e, subsystemCompiler c w = .error e → e.site ≠ .fuel :=
  (subsystemCompiler_nf c w).out

/-- **the interleaving generators end before their fuel** (as `_case3_best_reordering` calls them: fuel =
total length + 1; any test, any cap) -/
theorem interleavings_fuel (chk : List PS → Except Fail Bool) (hc : ∀ s e, chk s = .error e → e.site ≠ .fuel)
    (cap : ℕ) (A B C D pre : List PS) (count : ℕ) :
    (∀ e, inter3 chk cap (A.length + B.length + C.length + 1) A B C pre count = .error e → e.site ≠ .fuel) ∧
    (∀ e, inter4 chk cap (A.length + B.length + C.length + D.length + 1) A B C D pre count = .error e →
      e.site ≠ .fuel) :=
  ⟨(inter3_nf chk (fun s => ⟨hc s⟩) cap _ A B C pre count (by omega)).out,
   (inter4_nf chk (fun s => ⟨hc s⟩) cap _ A B C D pre count (by omega)).out⟩

/-- **`compile_target` is total on the model** (clause "compilation terminates", EVERY input — any string, any
`k`, admissible or not; all branches: `W = I`, `V ≠ I`, `V = I` with `_case3_best_reordering`, `_bfs_case3` and the
last return): the result is a sequence or an exception of the Python code (type and raising function) —
never the model's out-of-fuel value -/
theorem compileTarget_total (t : PS) (k : Int) :
    (∃ s, compileTarget t k = .ok s) ∨ (∃ e, compileTarget t k = .error e ∧ e.site ≠ .fuel) := by
  cases h : compileTarget t k with
  | ok s => exact Or.inl ⟨s, rfl⟩
  | error e => exact Or.inr ⟨e, rfl, (compileTarget_nf t k).out e h⟩

theorem compileTarget_never_out_of_fuel (t : PS) (k : Int) : compileTarget t k ≠ .error ⟨.other, .fuel⟩ :=
  fun h => (compileTarget_nf t k).out _ h rfl

/-- **C06 fails for every `N` and every odd `k`, with exactly this exception** (upgrade of `C06_fails_odd_wI`
from "never returns" to the raise): right block identity, left block with an even number of non-identity
letters ⇒ `RuntimeError` raised in `compile` (`"Left-only mapping failed."`, after all `2k+1` left searches
raised `RuntimeError("Left map BFS failed.")`) -/
theorem C06_fails_odd_wI_raises (N k : ℕ) (t : PS) (hN : t.len = N) (hk : 2 ≤ k) (hkN : k < N) (hodd : k % 2 = 1)
    (hW : (t.getSubstring (k : Int) ((N : Int) - (k : Int))).isIdentity = true)
    (hQ : C07.QL k (t.letters.take k) = false) :
    compileTarget t (k : Int) = .error ⟨.runtimeError, .compile⟩ :=
  compileTarget_odd_wI_raises t k N hN hk hkN hodd hW hQ

/-- the witness `IXXI`, `k = 3` of `C06_refuted_left_only` is an instance (no kernel evaluation of the search) -/
example : compileTarget (PS.ofLetters [.I, .X, .X, .I]) 3 = .error ⟨.runtimeError, .compile⟩ :=
  C06_fails_odd_wI_raises 4 3 _ (by decide) (by decide) (by decide) (by decide) (by decide) (by decide)

/-- **C06 fails for every `N` and every odd `k` on `V ⊗ X_j`, `V ⊗ Z_j`** with `V ≠ I` of even weight:
`RuntimeError` raised in `left_map_over_a` (the search from the left factor `X_1` of `subsystem_compiler(W)`
to `V`; not caught in this branch) -/
theorem C06_fails_odd_single_raises (N k j : ℕ) (l : Letter) (t : PS) (ht : t.WF) (hN : t.len = N)
    (hk : 2 ≤ k) (hkN : k < N) (hodd : k % 2 = 1) (hj : j < N - k) (hl : l = Letter.X ∨ l = Letter.Z)
    (hW : t.letters.drop k = C07.single (N - k) j l)
    (hV : (t.getSubstring 0 (k : Int)).isIdentity = false)
    (hQ : C07.QL k (t.letters.take k) = false) :
    compileTarget t (k : Int) = .error ⟨.runtimeError, .leftMapOverA⟩ :=
  compileTarget_odd_single_raises t k N j l ht hN hk hkN hodd hj hl hW hV hQ

/-- the witness `IXXX`, `k = 3` of `C06_refuted` is an instance -/
example : compileTarget (PS.ofLetters [.I, .X, .X, .X]) 3 = .error ⟨.runtimeError, .leftMapOverA⟩ :=
  C06_fails_odd_single_raises 4 3 0 .X _ (by decide) (by decide) (by decide) (by decide) (by decide) (by decide)
    (Or.inl rfl) (by decide) (by decide) (by decide)

end C06
end PauLie
