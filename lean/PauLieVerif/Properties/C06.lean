/-
Property C06:

  "For every non-identity Pauli string of length N>=3 and every left-block size
   2<=k<N, compilation terminates and returns a sequence instead of raising.
   Together with C05 this makes the compiler total on the traceless Pauli basis
   of su(2^N)."

Totality is a statement about the search procedures of
`application/pauli_compiler.py`.  The property is FALSE on the current tree: the
implementation raises `RuntimeError` for 108 of 255 targets at `(N,k) = (4,3)` etc.
This file holds what does not need a model of the search; the search is modelled in
`Model/CompilerSearch.lean`, and `Properties/C06Search.lean` exhibits the raise as a
kernel-evaluated run of that model (`C06_refuted`), proves the breadth-first search sound and
complete and derives the odd-`k` failures for all `N`.  The raises recorded in
`Compiler.observedRaises` are replayed on the implementation on every run (complete list for
`N ≤ 5` in `known/compiler_failures.json`).

What Lean proves here:
* `compileTargetFront_spec` — the modelled front end of `compile_target` (guard,
  constructor guard, slicing into `V`, `W`) answers for exactly the admissible
  `2 ≤ k < N` and slices correctly, so a raise for admissible input comes from the
  search procedures;
* `C06_obstruction_odd` — for odd `k` NO sequence over the universal set
  evaluates to a target with `Q = 0` (half of all strings): for such a target the
  compiler must either raise (violating C06) or return an invalid sequence
  (violating C05).  So C05 ∧ C06 is unsatisfiable by ANY search procedure over
  this generating set, for every `N` and every odd `3 ≤ k < N`;
* `C06_witnesses_unreachable` — the two recorded odd-`k` raise witnesses
  `(4,3,IXXX)`, `(4,3,IXXI)` are such targets.
-/
import PauLieVerif.Proofs.C06Lemmas

namespace PauLie
namespace C06

open Compiler Closure C07

/-- **front end of `compile_target`** (all targets, all `k`): ValueError unless
`2 ≤ k < len(target)`; otherwise `V` is the first `k` letters and `W` the rest. -/
theorem compileTargetFront_spec (t : PS) (ht : t.WF) (k : Int) :
    compileTargetFront t k =
      if 2 ≤ k ∧ k < (t.len : Int) then
        .ok (PS.ofLetters (t.letters.take k.toNat), PS.ofLetters (t.letters.drop k.toNat))
      else .error .valueError := by
  unfold compileTargetFront compilerInit
  by_cases h1 : (1 ≤ k ∧ k < (t.len : Int))
  · by_cases h2 : k < 2
    · have h3 : ¬ (2 ≤ k ∧ k < (t.len : Int)) := by omega
      simp [h1, h2, bind, Except.bind, throw, throwThe, MonadExceptOf.throw]
    · have h3 : (2 ≤ k ∧ k < (t.len : Int)) := by omega
      simp only [h1, h2, h3, if_false, bind, Except.bind, pure, Except.pure]
      obtain ⟨k', rfl⟩ : ∃ k' : ℕ, k = (k' : Int) := ⟨k.toNat, by omega⟩
      have hk : k' < t.len := by omega
      have hb : t.bits = encode t.letters := by
        conv_lhs => rw [C04.WF_eq_ofLetters ht]
        rfl
      have hlen : t.bits.length = 2 * t.len := C04.WF_bits_length ht
      have e1 : t.getSubstring 0 (k' : Int) = PS.ofLetters (t.letters.take k') := by
        unfold PS.getSubstring PS.pySlice
        have a1 : ¬ ((2 : Int) * 0 < 0) := by omega
        have a2 : ¬ ((2 : Int) * 0 > (t.bits.length : Int)) := by omega
        have a3 : ¬ ((2 : Int) * 0 + 2 * (k' : Int) < 0) := by omega
        have a4 : ¬ ((2 : Int) * 0 + 2 * (k' : Int) > (t.bits.length : Int)) := by omega
        simp only [a1, a2, a3, a4, if_false]
        have a5 : ((2 : Int) * 0).toNat = 0 := by simp
        have a6 : ((2 : Int) * 0 + 2 * (k' : Int)).toNat = 2 * k' := by omega
        rw [a5, a6, List.drop_zero, Nat.sub_zero, hb, take_encode]
        rfl
      have e2 : t.getSubstring (k' : Int) ((t.len : Int) - (k' : Int)) = PS.ofLetters (t.letters.drop k') := by
        unfold PS.getSubstring PS.pySlice
        have a1 : ¬ ((2 : Int) * (k' : Int) < 0) := by omega
        have a2 : ¬ ((2 : Int) * (k' : Int) > (t.bits.length : Int)) := by omega
        have a3 : ¬ ((2 : Int) * (k' : Int) + 2 * ((t.len : Int) - (k' : Int)) < 0) := by omega
        have a4 : ¬ ((2 : Int) * (k' : Int) + 2 * ((t.len : Int) - (k' : Int)) > (t.bits.length : Int)) := by omega
        simp only [a1, a2, a3, a4, if_false]
        have a5 : ((2 : Int) * (k' : Int)).toNat = 2 * k' := by omega
        have a6 : ((2 : Int) * (k' : Int) + 2 * ((t.len : Int) - (k' : Int))).toNat = 2 * t.len := by omega
        rw [a5, a6, hb, drop_encode]
        have hl : (encode (List.drop k' t.letters)).length = 2 * t.len - 2 * k' := by
          rw [C04.length_encode, List.length_drop, C04.length_letters]; omega
        rw [← hl, List.take_length]
        rfl
      simp only [Int.toNat_natCast]
      rw [e1, e2]
      simp
  · have h3 : ¬ (2 ≤ k ∧ k < (t.len : Int)) := by omega
    simp [h1, h3, throw, throwThe, MonadExceptOf.throw, bind, Except.bind]

example : compileTargetFront (PS.ofLetters [.X, .Y, .Z, .I]) 2
    = .ok (PS.ofLetters [.X, .Y], PS.ofLetters [.Z, .I]) := by decide
example : compileTargetFront (PS.ofLetters [.X, .Y, .Z, .I]) 1 = .error .valueError := by decide

/-- every admissible input of C06 passes the modelled front end: a raise on such
an input comes from the (unmodelled) search procedures -/
theorem compileTargetFront_admissible (N k : ℕ) (t : PS) (ht : t.WF) (htn : t.len = N)
    (hk : 2 ≤ k) (hkN : k < N) :
    compileTargetFront t (k : Int)
      = .ok (PS.ofLetters (t.letters.take k), PS.ofLetters (t.letters.drop k)) := by
  rw [compileTargetFront_spec t ht, if_pos (by omega), Int.toNat_natCast]

/-- **obstruction for odd `k`** (every `N`, every odd `k < N`): a well-formed
target of length `N` with `Q = 0` — an even number of non-identity letters in the
left block plus `Y`s in the right block — is not the value of ANY sequence over
the universal set; the validator rejects every candidate. -/
theorem C06_obstruction_odd (N k : ℕ) (hodd : k % 2 = 1) (hkN : k < N) (t : PS) (ht : t.WF)
    (hq : QL k t.letters = false) (s : List PS) :
    validSeq (N : Int) (k : Int) t s = false := by
  cases hv : validSeq (N : Int) (k : Int) t s with
  | false => rfl
  | true =>
    obtain ⟨hne, hin, hnest⟩ := (C05.validSeq_iff N k (by omega) hkN t s).mp hv
    obtain ⟨_, _, hclo⟩ := nested_in_clo N _ (fun x hx => C05.mem_uset_wf (by omega) hx) s hne hin t hnest
    have hQ := Q_invariant_odd N k hodd (by omega) hclo
    have hb : t.bits = encode t.letters := by
      conv_lhs => rw [C04.WF_eq_ofLetters ht]
      rfl
    rw [hb, Q_encode, hq] at hQ
    cases hQ

/-- in the vocabulary of C05: for such a target no sequence is `Valid` -/
theorem C06_obstruction_odd_valid (N k : ℕ) (hodd : k % 2 = 1) (hkN : k < N) (t : PS) (ht : t.WF)
    (htn : t.len = N) (hq : QL k t.letters = false) (s : List PS) : ¬ C05.Valid N k t s := by
  intro h
  have := (C05.validSeq_sound N k (by omega) hkN t ht htn s).mpr h
  rw [C06_obstruction_odd N k hodd hkN t ht hq s] at this
  cases this

/-- the recorded odd-`k` raise witnesses are targets of this kind: whatever the
search does, it cannot return a valid sequence for them -/
theorem C06_witnesses_unreachable :
    ((((4 : Int), (3 : Int), PS.ofLetters [.I, .X, .X, .X]), "RuntimeError@left_map_over_a") ∈ observedRaises ∧
      ∀ s, validSeq 4 3 (PS.ofLetters [.I, .X, .X, .X]) s = false) ∧
    ((((4 : Int), (3 : Int), PS.ofLetters [.I, .X, .X, .I]), "RuntimeError@compile") ∈ observedRaises ∧
      ∀ s, validSeq 4 3 (PS.ofLetters [.I, .X, .X, .I]) s = false) :=
  ⟨⟨by decide, fun s => C06_obstruction_odd 4 3 (by decide) (by decide) _ (by decide) (by decide) s⟩,
   ⟨by decide, fun s => C06_obstruction_odd 4 3 (by decide) (by decide) _ (by decide) (by decide) s⟩⟩

/-- non-vacuity: at even `k` there is no such obstruction for this shape of
target — `[ZII, XII]` is a valid sequence for `YII` at `(3,2)` -/
example : validSeq 3 2 (PS.ofLetters [.Y, .I, .I]) [PS.ofLetters [.Z, .I, .I], PS.ofLetters [.X, .I, .I]] = true :=
  (C05.validSeq_iff 3 2 (by decide) (by decide) _ _).mpr ⟨by decide, by decide, by decide⟩

end C06
end PauLie
