/-
Property C01 ("the reported Lie algebra is isomorphic to the true dynamical Lie algebra"),
disconnected anticommutation graphs, FULL invariants.

`Properties/C01Comp.lean` reduces the DIMENSION clause to connected inputs.  Here the same for the
whole invariant by which the checker decides "isomorphic" (`invOfClosure` against `invOfName`:
centre, and per connected block simple dimension, series label, copies):

  * `C01Comp_invariants`: if the closures of two elementwise commuting generator lists without a
    common member have the invariants of the names `l1`, `l2`, the closure of the union has the
    invariants of `l1 ++ l2` (n-ary: `C01Comp_invariants_blocks`);
  * `C01Comp_merge`: `get_algebra()`'s merging of equal names keeps the invariants;
  * `C01_componentwise_full`: let `ms` be the classification of `G` by the model, one morph per
    component of `get_subgraphs()`.  If for every component the reported summand has the invariants
    of that component's commutator closure, then the name `get_algebra()` reports has the invariants
    of the commutator closure of `G` - C01 reduces to CONNECTED inputs.

Uses the order-independence of `invOfClosure` on closed sets (`Proofs/C03Perm.lean`).
-/
import PauLieVerif.Properties.C01Comp
import PauLieVerif.Properties.C03Full
import PauLieVerif.Proofs.C01MergeInv

namespace PauLie
namespace C01Comp
open Closure Classify Comp C02 C03

/-- **the invariants add over two commuting generator lists** -/
theorem C01Comp_invariants {n : Nat} {A B : List V} (hA : Uniform n A) (hB : Uniform n B)
    (h : ∀ a ∈ A, ∀ b ∈ B, omega a b = false) (hd : ∀ x, x ∈ A → x ∉ B) {l1 l2 : List Summand}
    (e1 : invOfClosure (closureList A).1 = invOfName l1) (e2 : invOfClosure (closureList B).1 = invOfName l2) :
    invOfClosure (closureList (A ++ B)).1 = invOfName (l1 ++ l2) :=
  inv_closure_append hA hB h hd e1 e2

/-- **n-ary** -/
theorem C01Comp_invariants_blocks {n : Nat} (bs : List (List V)) (ls : List (List Summand))
    (hlen : bs.length = ls.length) (hU : ∀ A ∈ bs, Uniform n A)
    (hp : bs.Pairwise (fun A B => ∀ a ∈ A, ∀ b ∈ B, omega a b = false))
    (hd : bs.Pairwise (fun A B => ∀ x, x ∈ A → x ∉ B))
    (he : ∀ A l, (A, l) ∈ bs.zip ls → invOfClosure (closureList A).1 = invOfName l) :
    invOfClosure (closureList bs.flatten).1 = invOfName ls.flatten :=
  inv_closure_flatten bs ls hlen hU hp hd he

/-- **merging equal names (`get_algebra`) keeps the invariants** -/
theorem C01Comp_merge (l : List Summand) : invOfName (mergeSummands l) = invOfName l :=
  invOfName_mergeSummands l

theorem flatten_singletons_sum : ∀ (l : List Summand), (l.map (fun s => [s])).flatten = l
  | [] => rfl
  | a :: t => by simp [flatten_singletons_sum t]

theorem summands_zip (P : List PS → Summand → Prop) : ∀ (cs : List (List PS)) (ms : List MorphR),
    cs.length = ms.length →
    (∀ c m, (c, m) ∈ cs.zip ms → ∃ s, summandOfMorph m = .ok s ∧ P c s) →
    ∃ ss, summandsOf ms = .ok ss ∧ cs.length = ss.length ∧ ∀ c s, (c, s) ∈ cs.zip ss → P c s
  | [], [], _, _ => ⟨[], rfl, rfl, fun _ _ h => by simp at h⟩
  | [], _ :: _, h, _ => by simp at h
  | _ :: _, [], h, _ => by simp at h
  | c :: cs, m :: ms, hlen, hz => by
    obtain ⟨s, hs, hP⟩ := hz c m (by simp)
    obtain ⟨ss, h1, h2, h3⟩ := summands_zip P cs ms (by simpa using hlen)
      (fun c' m' hm => hz c' m' (by simp [hm]))
    refine ⟨s :: ss, ?_, by simp [h2], ?_⟩
    · unfold summandsOf at h1 ⊢
      rw [List.mapM_cons, hs, h1]
      rfl
    · intro c' s' hm
      simp only [List.zip_cons_cons, List.mem_cons, Prod.mk.injEq] at hm
      rcases hm with ⟨rfl, rfl⟩ | hm
      · exact hP
      · exact h3 c' s' hm

/-- **C01, reduction to connected inputs, full invariants.**  Let `ms` be the classification of `G`
by the model (`classify`: one morph per component `c` of `get_subgraphs()`, in order).  If for every
component the reported summand `s` has the invariants of that component's commutator closure
(`invOfName [s] = invOfClosure (closureList c)`), then `get_algebra()` answers with a name whose
invariants are those of the commutator closure of `G`. -/
theorem C01_componentwise_full {n : Nat} {G : List PS} (hG : C14.Uniform n G) {ms : List MorphR}
    (h : classify G = .ok ms) :
    ∃ cs, Graph.getSubgraphs G = .ok cs ∧ cs.mapM morphOf = .ok ms ∧
      ((∀ c m, (c, m) ∈ cs.zip ms → ∃ s, summandOfMorph m = .ok s ∧
          invOfName [s] = invOfClosure (closureList (bitsOf c)).1) →
        ∃ a, algebraOfMorphs ms = .ok a ∧ invOfName a = invOfClosure (closureList (bitsOf G)).1) := by
  obtain ⟨cs, hcs, hUc, hcomm, hdis, hclo, _⟩ := C01Comp_subgraphs hG
  have hm : cs.mapM morphOf = .ok ms := by
    rw [classify_eq, hcs] at h; exact h
  refine ⟨cs, hcs, hm, fun hz => ?_⟩
  obtain ⟨ss, hss, hl, hP⟩ := summands_zip
    (fun c s => invOfName [s] = invOfClosure (closureList (bitsOf c)).1) cs ms (length_mapM_ok _ _ _ hm) hz
  refine ⟨mergeSummands ss, by unfold algebraOfMorphs; rw [hss]; rfl, ?_⟩
  rw [invOfName_mergeSummands]
  have hUb : ∀ A ∈ cs.map bitsOf, Uniform n A := by
    intro A hA
    obtain ⟨c, hc, rfl⟩ := List.mem_map.1 hA
    exact uniform_bitsOf (hUc c hc)
  have hp' : (cs.map bitsOf).Pairwise Commute := (List.pairwise_map).2 hcomm
  have hd' : (cs.map bitsOf).Pairwise (fun A B => ∀ x, x ∈ A → x ∉ B) := (List.pairwise_map).2 hdis
  have key := inv_closure_flatten (cs.map bitsOf) (ss.map (fun s => [s])) (by simp [hl]) hUb hp' hd' (by
    intro A l hAl
    rw [List.zip_map, List.mem_map] at hAl
    obtain ⟨⟨c, s⟩, hcs', e⟩ := hAl
    simp only [Prod.map, Prod.mk.injEq] at e
    obtain ⟨rfl, rfl⟩ := e
    exact (hP c s hcs').symm)
  rw [flatten_singletons_sum] at key
  rw [← key]
  apply C03_full_same_closure closedInvariant_invOfClosure (uniform_flatten hUb) (uniform_bitsOf hG)
  intro x
  rw [clo_flatten hUb hp' x, hclo x]
  constructor
  · rintro ⟨A, hA, hx⟩
    obtain ⟨c, hc, rfl⟩ := List.mem_map.1 hA
    exact ⟨c, hc, hx⟩
  · rintro ⟨c, hc, hx⟩
    exact ⟨bitsOf c, List.mem_map.2 ⟨c, hc, rfl⟩, hx⟩

/-! non-vacuity: two commuting copies of su(2) on two qubits: `so(3)` twice gives `2·su(2)` -/
section Example
private def ps (s : String) : PS := PS.ofLetters ((lettersOfString? s).getD [])

example : invOfClosure (closureList (bitsOf [ps "XI", ps "ZI"] ++ bitsOf [ps "IX", ps "IZ"])).1
    = invOfName ([⟨.SO, 3, 1⟩] ++ [⟨.SO, 3, 1⟩]) :=
  C01Comp_invariants (n := 2) (by decide) (by decide) (by decide) (by decide) (by decide +kernel) (by decide +kernel)

example : invOfName (mergeSummands [⟨.SO, 3, 1⟩, ⟨.SO, 3, 1⟩]) = invOfName [⟨.SU, 2, 2⟩] := by
  rw [C01Comp_merge]; decide +kernel
end Example

end C01Comp
end PauLie
