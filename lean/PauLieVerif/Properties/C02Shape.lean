/-
Property C02, shape clause:

  "The anticommutation graph of each component's canonical vertices is a star of disjoint
   paths on one centre with at most one path longer than two (a canonical type of the
   classification theorem)."

The check decides this per input with the executable checker `Classify.shapeCheck` applied to
the legs the implementation returns.  `C02_shape_checker` gives the checker its meaning: it
answers "ok" exactly when the legs are a canonical star in the sense of `IsCanonicalStar`
(a readable, declarative statement), for every list of legs of synchronised strings of one
length.
-/
import PauLieVerif.Model.Classify
import PauLieVerif.Proofs.C14Lemmas

namespace PauLie
namespace C02
open Classify

/-- `a` and `b` are joined in the star with these legs: `b` follows `a` in a leg, or `a` is the
centre and `b` the first vertex of a leg (in either order) -/
def Joined (legs : List (List PS)) (a b : PS) : Prop := isStarEdge legs a b = true

/-- The declarative notion: one centre; pairwise distinct vertices; no empty leg; at most one leg
longer than two; legs listed by non-decreasing length; and two vertices anticommute exactly when
they are joined (so the anticommutation graph is the star of these paths — disjointness of the
paths is the distinctness of the vertices). -/
structure IsCanonicalStar (legs : List (List PS)) : Prop where
  centre : ∃ c rest, legs = [c] :: rest
  distinct : (Graph.dedupPS legs.flatten).length = legs.flatten.length
  no_empty : ∀ l ∈ legs.drop 1, l ≠ []
  one_long : ((legs.drop 1).filter (fun l => l.length > 2)).length ≤ 1
  sorted : (((legs.drop 1).map List.length).zip (((legs.drop 1).map List.length).drop 1)).all
      (fun (a, b) => a ≤ b) = true
  edges : ∀ ab ∈ Graph.combinations2 legs.flatten,
      ∃ c, ab.1.commutesWith ab.2 = .ok c ∧ ((!c) = true ↔ Joined legs ab.1 ab.2)

theorem firstMismatch_none (legs : List (List PS)) : ∀ (l : List (PS × PS)),
    firstMismatch legs l = .ok none ↔
      ∀ ab ∈ l, ∃ c, ab.1.commutesWith ab.2 = .ok c ∧ ((!c) = true ↔ isStarEdge legs ab.1 ab.2 = true)
  | [] => by simp [firstMismatch]
  | (a, b) :: rest => by
    unfold firstMismatch
    cases hc : a.commutesWith b with
    | error e =>
      simp only [bind, Except.bind]
      constructor
      · intro h; cases h
      · intro h
        obtain ⟨c, h1, _⟩ := h (a, b) List.mem_cons_self
        simp only at h1
        rw [hc] at h1; cases h1
    | ok c =>
      simp only [bind, Except.bind, pure, Except.pure]
      by_cases hm : (!c) != isStarEdge legs a b
      · simp only [hm, if_true]
        constructor
        · intro h; cases h
        · intro h
          obtain ⟨c', h1, h2⟩ := h (a, b) List.mem_cons_self
          simp only at h1 h2
          rw [hc] at h1; cases h1
          exfalso
          cases hcc : (!c) <;> cases hs : isStarEdge legs a b <;> simp_all
      · simp only [hm, Bool.false_eq_true, if_false]
        rw [firstMismatch_none legs rest]
        constructor
        · intro h ab hab
          rcases List.mem_cons.mp hab with rfl | hab
          · refine ⟨c, hc, ?_⟩
            cases hcc : (!c) <;> cases hs : isStarEdge legs a b <;> simp_all
          · exact h ab hab
        · intro h ab hab
          exact h ab (List.mem_cons_of_mem _ hab)

/-- **C02, the shape checker means "canonical star".**  Whenever the checker answers at all
(it raises only if two vertices have different lengths), it answers "ok" (`none`) exactly for
canonical stars. -/
theorem C02_shape_checker (legs : List (List PS)) :
    shapeCheck legs = .ok none ↔ IsCanonicalStar legs := by
  cases legs with
  | nil =>
    constructor
    · intro h; simp [shapeCheck, pure, Except.pure] at h
    · intro h; obtain ⟨c, rest, hh⟩ := h.centre; cases hh
  | cons cleg rest =>
    unfold shapeCheck
    simp only [bind, Except.bind, pure, Except.pure]
    by_cases h1 : cleg.length != 1
    · simp only [h1, if_true]
      constructor
      · intro h; cases h
      · intro h
        obtain ⟨c, r, hh⟩ := h.centre
        cases hh
        simp at h1
    · simp only [h1, Bool.false_eq_true, if_false]
      by_cases h2 : (Graph.dedupPS (cleg :: rest).flatten).length != (cleg :: rest).flatten.length
      · simp only [h2, if_true]
        constructor
        · intro h; cases h
        · intro h; have := h.distinct; rw [this] at h2; simp at h2
      · simp only [h2, Bool.false_eq_true, if_false]
        by_cases h3 : rest.any (fun l => l.isEmpty)
        · simp only [h3, if_true]
          constructor
          · intro h; cases h
          · intro h
            obtain ⟨l, hl, he⟩ := List.any_eq_true.mp h3
            have := h.no_empty l (by simpa using hl)
            simp only [List.isEmpty_iff] at he
            exact absurd he this
        · simp only [h3, Bool.false_eq_true, if_false]
          by_cases h4 : (rest.filter (fun l => l.length > 2)).length > 1
          · simp only [h4, if_true]
            constructor
            · intro h; cases h
            · intro h; have := h.one_long; simp only [List.drop_succ_cons, List.drop_zero] at this; omega
          · simp only [h4, if_false]
            by_cases h5 : !(((rest.map List.length).zip ((rest.map List.length).drop 1)).all (fun (a, b) => a ≤ b))
            · simp only [h5, if_true]
              constructor
              · intro h; cases h
              · intro h
                have := h.sorted
                simp only [List.drop_succ_cons, List.drop_zero] at this
                rw [this] at h5; simp at h5
            · simp only [h5, Bool.false_eq_true, if_false]
              have key := firstMismatch_none (cleg :: rest) (Graph.combinations2 (cleg :: rest).flatten)
              cases hf : firstMismatch (cleg :: rest) (Graph.combinations2 (cleg :: rest).flatten) with
              | error e =>
                simp only []
                constructor
                · intro h; cases h
                · intro h
                  have := key.mpr h.edges
                  rw [hf] at this; cases this
              | ok r =>
                cases r with
                | some m =>
                  obtain ⟨a, b, anti⟩ := m
                  simp only []
                  constructor
                  · intro h; cases h
                  · intro h
                    have := key.mpr h.edges
                    rw [hf] at this; cases this
                | none =>
                  simp only [true_iff]
                  have hc1 : cleg.length = 1 := by simpa using h1
                  obtain ⟨c, hcl⟩ : ∃ c, cleg = [c] := by
                    match cleg, hc1 with
                    | [c], _ => exact ⟨c, rfl⟩
                  exact {
                    centre := ⟨c, rest, by rw [hcl]⟩
                    distinct := by simpa using h2
                    no_empty := by
                      intro l hl he
                      simp only [List.drop_succ_cons, List.drop_zero] at hl
                      apply h3
                      exact List.any_eq_true.mpr ⟨l, hl, by simp [he]⟩
                    one_long := by simp only [List.drop_succ_cons, List.drop_zero]; omega
                    sorted := by simpa using h5
                    edges := key.mp hf }

/-- the canonical star of 4*so(3): centre `XII`, single legs `ZII`, `ZZI`, `ZIZ` -/
example : shapeCheck [[PS.ofLetters [.X, .I, .I]], [PS.ofLetters [.Z, .I, .I]],
    [PS.ofLetters [.Z, .Z, .I]], [PS.ofLetters [.Z, .I, .Z]]] = .ok none := by decide

end C02
end PauLie
