/-
Property C14 (verbatim):
  "For every collection G on n qubits: the commutant is exactly the set of the
  4^n strings commuting with every member of G; the anticommutation graph has
  the members as vertices and an edge exactly between anticommuting members,
  labelled by their product; its connected components partition G; the
  commutator graph has all 4^n strings as vertices and an edge {P,Q} exactly
  when some member g anticommutes with P and P*g = Q; pair counts and the
  anticommuting fraction match the edge count."

All theorems are about the executable model `PauLie.Graph` (Model/Graph.lean),
for ALL n and ALL collections.  A collection is a list `G` of synchronised
strings of one length `n` (`Uniform n G`), which is what the constructor
`collInit` produces (`C14_collection`).  Spec-level vocabulary
(Proofs/C14Lemmas.lean): `anti p q := PS.commutesWith p q = .ok false`,
`Uniform`, `edgeSpec`, `Conn`, `Connected`, `BNodup`, `Disj`.
Only property theorems and `example`s live here.
-/
import PauLieVerif.Proofs.C14Lemmas

namespace PauLie
namespace C14

open PS Graph

/-! concrete collection used in the examples: `[XX, ZI, IZ]` -/
def exG : List PS :=
  [PS.ofLetters [.X, .X], PS.ofLetters [.Z, .I], PS.ofLetters [.I, .Z]]

example : Uniform 2 exG := by decide

/-! ## The collection constructor -/

/-- `PauliStringCollection.__init__` on synchronised strings never raises and returns
synchronised strings, all of the maximal length, each the input padded with identities. -/
theorem C14_collection (gens : List PS) (h : ∀ g ∈ gens, g.WF) :
    collInit gens = .ok (gens.map (padTo (maxLen gens)))
    ∧ Uniform (maxLen gens) (gens.map (padTo (maxLen gens)))
    ∧ (∀ g ∈ gens, g.len ≤ maxLen gens ∧
        (padTo (maxLen gens) g).letters = g.letters ++ List.replicate (maxLen gens - g.len) Letter.I)
    ∧ (gens ≠ [] → ∃ g ∈ gens, g.len = maxLen gens) :=
  collInit_uniform gens h

example : collInit [PS.ofLetters [.X], PS.ofLetters [.Z, .Y, .X], PS.ofLetters []]
    = .ok [PS.ofLetters [.X, .I, .I], PS.ofLetters [.Z, .Y, .X], PS.ofLetters [.I, .I, .I]] := by
  decide

/-- `commutes_with` and the product never raise inside a collection -/
theorem C14_no_error {n : Nat} {G : List PS} (hG : Uniform n G) (a b : PS) (ha : a ∈ G) (hb : b ∈ G) :
    (∃ c, PS.commutesWith a b = .ok c) ∧ (∃ r, PS.multiply a b = .ok r ∧ r.WF ∧ r.len = n) := by
  obtain ⟨haw, hal⟩ := hG a ha
  obtain ⟨hbw, hbl⟩ := hG b hb
  refine ⟨commutesWith_ok haw hbw (hal.trans hbl.symm), ?_⟩
  obtain ⟨r, h1, h2, h3⟩ := multiply_ok haw hbw (hal.trans hbl.symm)
  exact ⟨r, h1, h2, h3.trans hal⟩

/-! ## Commutant -/

/-- `get_commutants()`: exactly the strings of length `n` commuting with every
member, each once, in index order (a sublist of the enumeration `genAll n`). -/
theorem C14_commutants {n : Nat} {G : List PS} (hG : Uniform n G) (hne : G ≠ []) :
    ∃ L, getCommutants G = .ok L
      ∧ (∀ p, p ∈ L ↔ (p.WF ∧ p.len = n ∧ ∀ g ∈ G, PS.commutesWith g p = .ok true))
      ∧ L.Nodup ∧ L.Sublist (PS.genAll n) := by
  refine ⟨_, getCommutants_eq hG hne, ?_, ?_, List.filter_sublist⟩
  · intro p
    rw [List.mem_filter, (C18.C18_enum_exactly_once n).1 p]
    simp only [List.all_eq_true, cwB_iff]
    exact ⟨fun h => ⟨h.1.1, h.1.2, h.2⟩, fun h => ⟨⟨h.1, h.2.1⟩, h.2.2⟩⟩
  · exact (C18.C18_enum_nodup n).sublist List.filter_sublist

/-- the documented empty case -/
theorem C14_commutants_empty : getCommutants [] = .ok [] := rfl

example : getCommutants exG
    = .ok [PS.ofLetters [.I, .I], PS.ofLetters [.Z, .Z]] := by decide

/-! ## Anticommutation graph -/

/-- `combinations(l, 2)`: the pairs of entries at positions `i < j` -/
theorem C14_combinations2 {α : Type} (l : List α) (a b : α) :
    (a, b) ∈ combinations2 l ↔ ∃ i j : Nat, i < j ∧ l[i]? = some a ∧ l[j]? = some b :=
  mem_combinations2 l a b

/-- `get_graph(generators, commutators)`: the vertices are the members (as
given); the edge list is, in `combinations` order, the list `edgeSpec C G` of
the triples `(a, b, a*b)` over the pairs of `combinations2 G` that anticommute
(kept only if the product is in `C`, when `C` is non-empty). -/
theorem C14_graph_edges {n : Nat} {G : List PS} (hG : Uniform n G) (C : List PS) :
    getGraph G C = .ok (G, edgeSpec C G)
    ∧ ∀ a b c, (a, b, c) ∈ edgeSpec C G ↔
        ((a, b) ∈ combinations2 G ∧ PS.commutesWith a b = .ok false ∧ PS.multiply a b = .ok c
          ∧ (C = [] ∨ containsPS C c = true)) :=
  ⟨getGraph_eq hG C, mem_edgeSpec G C⟩

/-- the unfiltered graph (`commutators = []`) -/
theorem C14_graph_edges_nil {n : Nat} {G : List PS} (hG : Uniform n G) :
    getGraph G [] = .ok (G, edgeSpec [] G)
    ∧ ∀ a b c, (a, b, c) ∈ edgeSpec [] G ↔
        ((a, b) ∈ combinations2 G ∧ anti a b ∧ PS.multiply a b = .ok c) := by
  refine ⟨getGraph_eq hG [], fun a b c => ?_⟩
  rw [mem_edgeSpec]
  simp [anti]

/-- an edge exactly between anticommuting members (positions `i < j`), whatever the label -/
theorem C14_graph_edge_exists {n : Nat} {G : List PS} (hG : Uniform n G) (a b : PS) :
    (∃ c, (a, b, c) ∈ edgeSpec [] G) ↔
      (∃ i j : Nat, i < j ∧ G[i]? = some a ∧ G[j]? = some b) ∧ anti a b := by
  rw [← mem_combinations2]
  constructor
  · rintro ⟨c, h⟩
    have := ((C14_graph_edges_nil hG).2 a b c).mp h
    exact ⟨this.1, this.2.1⟩
  · rintro ⟨h1, h2⟩
    obtain ⟨_, r, hr⟩ := pair_cw hG h1
    exact ⟨r, ((C14_graph_edges_nil hG).2 a b r).mpr ⟨h1, h2, hr⟩⟩

example : getGraph exG []
    = .ok (exG, [(PS.ofLetters [.X, .X], PS.ofLetters [.Z, .I], PS.ofLetters [.Y, .X]),
                 (PS.ofLetters [.X, .X], PS.ofLetters [.I, .Z], PS.ofLetters [.X, .Y])]) := by decide
example : getGraph exG [PS.ofLetters [.X, .Y]]
    = .ok (exG, [(PS.ofLetters [.X, .X], PS.ofLetters [.I, .Z], PS.ofLetters [.X, .Y])]) := by decide
example : combinations2 [1, 2, 3] = [(1, 2), (1, 3), (2, 3)] := by decide

/-! ## Connected components -/

/-- Why the hypothesis "edges join vertices" below is needed: `grow` has fuel
`#vertices + 1`, so a path through strings that are not vertices can exhaust it
and two components overlap (networkx would add the foreign nodes instead).
`get_graph` only produces edges between members, so this never happens there. -/
example :
    let a := PS.ofLetters [.X]; let b := PS.ofLetters [.Z]
    let f1 := PS.ofLetters [.I, .X]; let f2 := PS.ofLetters [.I, .Y]; let f3 := PS.ofLetters [.I, .Z]
    rawComps [a, b] [(a, f1), (f1, f2), (f2, f3), (f3, b)] = [[a, f1, f2, f3], [b, f3, f2, f1]] := by
  decide

/-- `components verts edges` (edges joining vertices, everything up to `PS.beq`,
i.e. equality of `bits`): every vertex lies in exactly one component; components
are non-empty, duplicate-free, consist of vertices only, and are pairwise
disjoint - they partition the distinct vertices. -/
theorem C14_components_partition (verts : List PS) (edges : List (PS × PS))
    (hE : ∀ e ∈ edges, containsPS verts e.1 = true ∧ containsPS verts e.2 = true) :
    (∀ v ∈ verts, ∃ c ∈ components verts edges, containsPS c v = true)
    ∧ (∀ (v : PS) (i j : Nat) (hi : i < (components verts edges).length)
        (hj : j < (components verts edges).length),
        containsPS (components verts edges)[i] v = true →
        containsPS (components verts edges)[j] v = true → i = j)
    ∧ (∀ c ∈ components verts edges, c ≠ [] ∧ BNodup c ∧
        ∀ y ∈ c, containsPS verts y = true ∧ IsNode verts edges y)
    ∧ (components verts edges).Pairwise Disj := by
  obtain ⟨h1, h2, h3⟩ := components_spec verts edges hE
  refine ⟨h3, ?_, ?_, h2⟩
  · intro v i j hi hj hci hcj
    obtain ⟨x, hx, hxb⟩ := (containsPS_iff_bits _ _).mp hci
    obtain ⟨y, hy, hyb⟩ := (containsPS_iff_bits _ _).mp hcj
    have hp := List.pairwise_iff_getElem.mp h2
    rcases Nat.lt_trichotomy i j with h | h | h
    · exact absurd (hxb.trans hyb.symm) (hp i j hi hj h x hx y hy)
    · exact h
    · exact absurd (hyb.trans hxb.symm) (hp j i hj hi h y hy x hx)
  · intro c hc
    obtain ⟨r, _, hr, hb, hn, _⟩ := h1 c hc
    exact ⟨List.ne_nil_of_mem hr, hb, hn⟩

/-- Two strings (the first a vertex up to `beq`) are in the same component iff
they are related by the reflexive-transitive-symmetric closure `Conn` of the
edge relation (strings with equal `bits` identified).  Soundness and
completeness; in particular the fuel of `grow` always suffices. -/
theorem C14_components_connected (verts : List PS) (edges : List (PS × PS))
    (hE : ∀ e ∈ edges, containsPS verts e.1 = true ∧ containsPS verts e.2 = true)
    (a b : PS) (ha : containsPS verts a = true) :
    (∃ c ∈ components verts edges, containsPS c a = true ∧ containsPS c b = true)
      ↔ Conn edges a b := by
  obtain ⟨h1, _, h3⟩ := components_spec verts edges hE
  constructor
  · rintro ⟨c, hc, hca, hcb⟩
    obtain ⟨r, _, _, _, _, hr⟩ := h1 c hc
    exact ((hr a).mp hca).symm.trans ((hr b).mp hcb)
  · intro hab
    obtain ⟨q, hq, hqb⟩ := (containsPS_iff_bits _ _).mp ha
    obtain ⟨c, hc, hcq⟩ := h3 q hq
    obtain ⟨r, _, _, _, _, hr⟩ := h1 c hc
    have hca : containsPS c a = true := (containsPS_congr hqb).mp hcq
    exact ⟨c, hc, hca, (hr b).mpr (((hr a).mp hca).trans hab)⟩

/-- each component is exactly the `Conn`-class of one of its members, a vertex -/
theorem C14_components_class (verts : List PS) (edges : List (PS × PS))
    (hE : ∀ e ∈ edges, containsPS verts e.1 = true ∧ containsPS verts e.2 = true) :
    ∀ c ∈ components verts edges, ∃ r ∈ verts, r ∈ c ∧
      ∀ y, containsPS c y = true ↔ Conn edges r y := by
  intro c hc
  obtain ⟨r, hr, hrc, _, _, h⟩ := (components_spec verts edges hE).1 c hc
  exact ⟨r, hr, hrc, h⟩

/-- `get_subgraphs()`: the components partition the (distinct) members of the
collection: every member is in some component, components are non-empty,
duplicate-free, consist of members and are pairwise disjoint; equivalently the
concatenation of the components has no repetition and the same members as `G`. -/
theorem C14_subgraphs_partition {n : Nat} {G : List PS} (hG : Uniform n G) :
    ∃ cs, getSubgraphs G = .ok cs
      ∧ (∀ g ∈ G, ∃ c ∈ cs, g ∈ c)
      ∧ (∀ c ∈ cs, c ≠ [] ∧ c.Nodup ∧ ∀ x ∈ c, x ∈ G)
      ∧ cs.Pairwise (fun c d => ∀ x, x ∈ c → x ∉ d)
      ∧ cs.flatten.Nodup ∧ (∀ x, x ∈ cs.flatten ↔ x ∈ G) := by
  obtain ⟨hE, hmem⟩ := subgraph_aux hG
  obtain ⟨p1, _, p3, p4⟩ := C14_components_partition G (subgraphEdges G)
    (fun e he => ⟨containsPS_of_mem (hE e he).1, containsPS_of_mem (hE e he).2⟩)
  have hcov : ∀ g ∈ G, ∃ c ∈ components G (subgraphEdges G), g ∈ c := by
    intro g hg
    obtain ⟨c, hc, hcg⟩ := p1 g hg
    exact ⟨c, hc, (containsPS_iff_mem (fun q hq => (hG q (hmem c hc q hq)).1) (hG g hg).1).mp hcg⟩
  have hnd : ∀ c ∈ components G (subgraphEdges G), c.Nodup := fun c hc =>
    List.nodup_iff_pairwise_ne.mpr ((p3 c hc).2.1.imp (fun h e => h (by rw [e])))
  have hdis : (components G (subgraphEdges G)).Pairwise (fun c d => ∀ x, x ∈ c → x ∉ d) :=
    p4.imp (fun h x hx hx' => h x hx x hx' rfl)
  refine ⟨_, getSubgraphs_eq hG, hcov, fun c hc => ⟨(p3 c hc).1, hnd c hc, hmem c hc⟩, hdis, ?_, ?_⟩
  · rw [List.nodup_iff_pairwise_ne, List.pairwise_flatten]
    exact ⟨fun c hc => List.nodup_iff_pairwise_ne.mp (hnd c hc),
      hdis.imp (fun h x hx y hy (e : x = y) => h x hx (e ▸ hy))⟩
  · intro x
    rw [List.mem_flatten]
    constructor
    · rintro ⟨c, hc, hx⟩; exact hmem c hc x hx
    · intro hx; obtain ⟨c, hc, h⟩ := hcov x hx; exact ⟨c, hc, h⟩

/-- `get_subgraphs()`: two members are in the same component iff they are related
by the reflexive-transitive-symmetric closure of "both are members and they
anticommute". -/
theorem C14_subgraphs_connected {n : Nat} {G : List PS} (hG : Uniform n G) :
    ∃ cs, getSubgraphs G = .ok cs ∧ ∀ a ∈ G, ∀ b ∈ G,
      ((∃ c ∈ cs, a ∈ c ∧ b ∈ c) ↔ Connected (fun x y => x ∈ G ∧ y ∈ G ∧ anti x y) a b) := by
  obtain ⟨hE, hmem⟩ := subgraph_aux hG
  have hE' : ∀ e ∈ subgraphEdges G, containsPS G e.1 = true ∧ containsPS G e.2 = true :=
    fun e he => ⟨containsPS_of_mem (hE e he).1, containsPS_of_mem (hE e he).2⟩
  refine ⟨_, getSubgraphs_eq hG, ?_⟩
  intro a ha b hb
  have hcm : ∀ c ∈ components G (subgraphEdges G), ∀ x ∈ G, containsPS c x = true ↔ x ∈ c :=
    fun c hc x hx => containsPS_iff_mem (fun q hq => (hG q (hmem c hc q hq)).1) (hG x hx).1
  have key := C14_components_connected G (subgraphEdges G) hE' a b (containsPS_of_mem ha)
  constructor
  · rintro ⟨c, hc, hca, hcb⟩
    have hconn : Conn (subgraphEdges G) a b :=
      key.mp ⟨c, hc, (hcm c hc a ha).mpr hca, (hcm c hc b hb).mpr hcb⟩
    have := connected_of_conn (fun e he => ⟨(hG _ (hE e he).1).1, (hG _ (hE e he).2).1⟩)
      (hG a ha).1 hconn b (hG b hb).1 rfl
    exact this.congr (fun x y h => .inl ((subgraphEdges_symm hG x y).mp h))
  · intro h
    have h' : Connected (fun x y => (x, y) ∈ subgraphEdges G) a b :=
      h.congr (fun x y h => by
        rcases h with h | h
        · exact (subgraphEdges_symm hG x y).mpr h
        · exact ((subgraphEdges_symm hG y x).mpr h).symm)
    obtain ⟨c, hc, hca, hcb⟩ := key.mpr (conn_of_connected h')
    exact ⟨c, hc, (hcm c hc a ha).mp hca, (hcm c hc b hb).mp hcb⟩

/-- `Connected r` is the least equivalence relation containing `r` -/
theorem C14_connected_is_closure (r : PS → PS → Prop) :
    (∀ a, Connected r a a) ∧ (∀ a b, Connected r a b → Connected r b a)
    ∧ (∀ a b c, Connected r a b → Connected r b c → Connected r a c)
    ∧ (∀ a b, r a b → Connected r a b)
    ∧ (∀ s : PS → PS → Prop, (∀ a, s a a) → (∀ a b, s a b → s b a) →
        (∀ a b c, s a b → s b c → s a c) → (∀ a b, r a b → s a b) →
        ∀ a b, Connected r a b → s a b) :=
  ⟨Connected.refl, fun _ _ h => h.symm, fun _ _ _ h1 h2 => h1.trans h2,
   fun _ _ h => Connected.single h, fun _ h1 h2 h3 h4 _ _ h => Connected.least h1 h2 h3 h4 h⟩

/-- the theorems instantiated on `[XX, ZI, IZ]` (hypothesis by evaluation): one
component containing all three members -/
example : ∃ cs, getSubgraphs exG = .ok cs ∧ cs.flatten.Nodup ∧ ∀ x, x ∈ cs.flatten ↔ x ∈ exG := by
  obtain ⟨cs, h1, _, _, _, h5, h6⟩ := C14_subgraphs_partition (n := 2) (G := exG) (by decide)
  exact ⟨cs, h1, h5, h6⟩
/-- completeness instantiated: `XX` and `IZ` anticommute, hence share a component -/
example : ∃ cs, getSubgraphs exG = .ok cs ∧
    ∃ c ∈ cs, PS.ofLetters [.X, .X] ∈ c ∧ PS.ofLetters [.I, .Z] ∈ c := by
  obtain ⟨cs, h1, h2⟩ := C14_subgraphs_connected (n := 2) (G := exG) (by decide)
  exact ⟨cs, h1, (h2 _ (by decide) _ (by decide)).mpr
    (Connected.single ⟨by decide, by decide, by decide⟩)⟩
example : rawComps exG (subgraphEdges exG)
    = [[PS.ofLetters [.X, .X], PS.ofLetters [.Z, .I], PS.ofLetters [.I, .Z]]] := by decide
example : rawComps (exG ++ [PS.ofLetters [.Z, .Z]]) (subgraphEdges (exG ++ [PS.ofLetters [.Z, .Z]]))
    = [[PS.ofLetters [.X, .X], PS.ofLetters [.Z, .I], PS.ofLetters [.I, .Z]],
       [PS.ofLetters [.Z, .Z]]] := by decide

/-! ## Commutator graph -/

/-- `get_commutator_graph()`: the vertices are all `4^n` strings (each once, in
index order); `(P, Q)` is an edge iff `P` comes before `Q` in the enumeration
and some member `g` anticommutes with `P` and `P*g = Q`. -/
theorem C14_commutator_graph {n : Nat} {G : List PS} (hG : Uniform n G) (hne : G ≠ []) :
    ∃ E, getCommutatorGraph G = .ok (PS.genAll n, E)
      ∧ ((∀ p, p ∈ PS.genAll n ↔ (p.WF ∧ p.len = n)) ∧ (PS.genAll n).Nodup
          ∧ (PS.genAll n).length = 4 ^ n)
      ∧ ∀ P Q, (P, Q) ∈ E ↔
          ((∃ i j : Nat, i < j ∧ (PS.genAll n)[i]? = some P ∧ (PS.genAll n)[j]? = some Q)
            ∧ ∃ g ∈ G, anti g P ∧ PS.multiply P g = .ok Q) := by
  refine ⟨_, getCommutatorGraph_eq hG hne, C18.C18_enum_exactly_once n, ?_⟩
  intro P Q
  rw [← mem_combinations2]
  simp only [List.mem_map, Prod.mk.injEq]
  constructor
  · rintro ⟨⟨a, b, c⟩, he, rfl, rfl⟩
    obtain ⟨h1, h2, h3, h4⟩ := (mem_edgeSpec _ G a b c).mp he
    obtain ⟨ha, hb⟩ := mem_of_mem_combinations2 h1
    refine ⟨h1, (commutator_edge_iff hG (genAll_uniform n a ha) (genAll_uniform n b hb)).mp
      ⟨h2, c, h3, ?_⟩⟩
    rcases h4 with h4 | h4
    · exact absurd h4 hne
    · exact h4
  · rintro ⟨h1, h2⟩
    obtain ⟨ha, hb⟩ := mem_of_mem_combinations2 h1
    obtain ⟨h3, c, h4, h5⟩ :=
      (commutator_edge_iff hG (genAll_uniform n P ha) (genAll_uniform n Q hb)).mpr h2
    exact ⟨(P, Q, c), (mem_edgeSpec _ G P Q c).mpr ⟨h1, h3, h4, .inr h5⟩, rfl, rfl⟩

/-- "before in the enumeration" is "smaller index" -/
theorem C14_genAll_order (n : Nat) (P Q : PS) :
    (∃ i j : Nat, i < j ∧ (PS.genAll n)[i]? = some P ∧ (PS.genAll n)[j]? = some Q) ↔
      (P.WF ∧ P.len = n) ∧ (Q.WF ∧ Q.len = n) ∧ PS.bitsToNat P.bits < PS.bitsToNat Q.bits := by
  constructor
  · rintro ⟨i, j, hij, hi, hj⟩
    obtain ⟨hi', rfl⟩ := List.getElem?_eq_some_iff.mp hi
    obtain ⟨hj', rfl⟩ := List.getElem?_eq_some_iff.mp hj
    refine ⟨genAll_uniform n _ (List.getElem_mem hi'), genAll_uniform n _ (List.getElem_mem hj'), ?_⟩
    rw [(C18.C18_enum_index n i hi').1, (C18.C18_enum_index n j hj').1]
    exact hij
  · rintro ⟨hP, hQ, hlt⟩
    obtain ⟨i, hi, rfl⟩ := List.mem_iff_getElem.mp (((C18.C18_enum_exactly_once n).1 P).mpr hP)
    obtain ⟨j, hj, rfl⟩ := List.mem_iff_getElem.mp (((C18.C18_enum_exactly_once n).1 Q).mpr hQ)
    rw [(C18.C18_enum_index n i hi).1, (C18.C18_enum_index n j hj).1] at hlt
    exact ⟨i, j, hlt, by simp [hi], by simp [hj]⟩

/-- the undirected reading: `{P, Q}` is an edge (in one of the two orientations)
iff some member `g` anticommutes with `P` and `P*g = Q` -/
theorem C14_commutator_graph_undirected {n : Nat} {G : List PS} (hG : Uniform n G) (hne : G ≠ [])
    (P Q : PS) (hP : P.WF ∧ P.len = n) (hQ : Q.WF ∧ Q.len = n) :
    ∃ E, getCommutatorGraph G = .ok (PS.genAll n, E) ∧
      (((P, Q) ∈ E ∨ (Q, P) ∈ E) ↔ ∃ g ∈ G, anti g P ∧ PS.multiply P g = .ok Q) := by
  obtain ⟨E, h1, _, h3⟩ := C14_commutator_graph hG hne
  refine ⟨E, h1, ?_⟩
  rw [h3, h3]
  constructor
  · rintro (⟨_, h⟩ | ⟨_, h⟩)
    · exact h
    · exact commutator_cond_symm hG hQ hP h
  · intro h
    have hne' : P ≠ Q := by
      rintro rfl
      have := ((commutator_edge_iff hG hP hP).mpr h).1
      exact not_anti_self hP.1 this
    have hlt : PS.bitsToNat P.bits ≠ PS.bitsToNat Q.bits := by
      intro e
      apply hne'
      have hl : P.bits.length = Q.bits.length := by
        have h1 := hP.1.2.2; have h2 := hQ.1.2.2
        have h3 := hP.2; have h4 := hQ.2
        unfold PS.len at h3 h4; omega
      exact eq_of_bits_eq hP.1 hQ.1 (C18.bitsToNat_inj _ _ hl e)
    rcases Nat.lt_or_gt_of_ne hlt with hlt | hlt
    · exact .inl ⟨(C14_genAll_order n P Q).mpr ⟨hP, hQ, hlt⟩, h⟩
    · exact .inr ⟨(C14_genAll_order n Q P).mpr ⟨hQ, hP, hlt⟩, commutator_cond_symm hG hP hQ h⟩

example : getCommutatorGraph [PS.ofLetters [.X]]
    = .ok ([PS.ofLetters [.I], PS.ofLetters [.Z], PS.ofLetters [.X], PS.ofLetters [.Y]],
           [(PS.ofLetters [.Z], PS.ofLetters [.Y])]) := by decide
example : (getCommutatorGraph exG).map (fun r => (r.1.length, r.2.length)) = .ok (16, 12) := by
  decide

/-! ## Pair counts -/

/-- `get_anticommutation_pair()` is the number of anticommuting pairs, which is the
number of edges of `get_graph()`; `get_pair()` is the number of pairs; the
fraction is their quotient, `ZeroDivisionError` for fewer than two members. -/
theorem C14_pairs {n : Nat} {G : List PS} (hG : Uniform n G) :
    anticommutationPair G = .ok ((combinations2 G).countP antiB)
    ∧ (∀ ab, antiB ab = true ↔ anti ab.1 ab.2)
    ∧ (∃ E, getGraph G [] = .ok (G, E) ∧ E.length = (combinations2 G).countP antiB)
    ∧ getPair G = (combinations2 G).length
    ∧ (2 ≤ G.length → anticommutationFraction G = .ok ((combinations2 G).countP antiB, getPair G))
    ∧ (G.length ≤ 1 → anticommutationFraction G = .error .zeroDivision) := by
  have hp : getPair G = (combinations2 G).length := by rw [combinations2_length]; rfl
  refine ⟨anticommutationPair_eq hG, fun ab => antiB_iff ab.1 ab.2,
    ⟨_, getGraph_eq hG [], edgeSpec_length hG⟩, hp, ?_, ?_⟩
  · intro h
    rw [anticommutationFraction_eq hG, if_neg, hp]
    rw [combinations2_length_eq_zero]; omega
  · intro h
    rw [anticommutationFraction_eq hG, if_pos]
    rw [combinations2_length_eq_zero]; exact h

example : anticommutationPair exG = .ok 2 ∧ getPair exG = 3
    ∧ anticommutationFraction exG = .ok (2, 3) := by decide
example : anticommutationFraction [PS.ofLetters [.X]] = .error .zeroDivision := by decide
example : anticommutationFraction [] = .error .zeroDivision := by decide

end C14
end PauLie
