/-
Property C13, proved for the model `PauLieVerif/Model/Decomp.lean` (exact arithmetic in
ℚ(i)), for every `n ≥ 1` and every `2^n × 2^n` matrix / every diagonal of length `2^n`.

  "For every complex 2^n x 2^n matrix A the decomposition weights w satisfy
   sum_P w[P]*M(P) = A and w[P] = tr(M(P)A)/2^n, where w[P] is the entry the string P
   itself looks up; the diagonal variant agrees with the general one on diagonal
   matrices; the Pauli-weight table lists, at each index, the number of non-identity
   letters of the string with that index, so entropy and influence equal their
   defining sums. Non-square, non-power-of-two and scalar inputs are rejected with
   ValueError."

Vocabulary.  `M P` (`Spec/PauliMatrix.lean`) is the `2^n × 2^n` complex matrix of
`P : Fin n → Letter` (first letter = most significant Kronecker factor, the `np.kron`
layout).  An input array is its shape and its row-major flat data of Gaussian
rationals `GR`; `matOf n data` is the complex matrix these data denote (row/column
index = big-endian number `num` of the index bits).  `GR.toComplex` embeds ℚ(i) in ℂ.
`vecOf n P` reads a letter list as `Fin n → Letter`.  `PS.ofLetters P` is the model
Pauli string `PauliString(pauli_str=P)`.

Not covered by any theorem here: floating-point rounding, `np.abs`, `log2` and the
`1e-12` cut-off of `quantum_fourier_entropy` (entropy is only checked by the harness
oracle); the correspondence model ↔ Python is checked by the harness, not proved.
-/
import PauLieVerif.Proofs.C13Influence
import PauLieVerif.Proofs.C13Layout

namespace PauLie
namespace C13

open Matrix Complex Decomp
open C04 (cx cz)

/-- the complex matrix denoted by the row-major data of a `2^n × 2^n` array -/
def matOf (n : ℕ) (data : List GR) : Matrix (Fin n → Fin 2) (Fin n → Fin 2) ℂ :=
  fun r c => (data.getD (2 ^ n * num r + num c) GR.zero).toComplex

/-- the complex diagonal matrix denoted by a diagonal of length `2^n` -/
def diagOf (n : ℕ) (d : List GR) : Matrix (Fin n → Fin 2) (Fin n → Fin 2) ℂ :=
  Matrix.diagonal fun r => (d.getD (num r) GR.zero).toComplex

/-- **C13, coefficient clause** — "w[P] = tr(M(P)A)/2^n, where w[P] is the entry the
string P itself looks up".  For `n ≥ 1` and every `2^n × 2^n` matrix over ℚ(i),
`matrix_decomposition` answers with a vector of length `4^n`, and every string `P` of
length `n` has an index `i = P.get_index()` in it; `P.get_weight_in_matrix(w)` returns
`w[i]`, and that number is `tr(M(P)·A)/2^n`. -/
theorem C13_coeff (n : ℕ) (hn : 1 ≤ n) (data : List GR) (hd : data.length = 2 ^ n * 2 ^ n) :
    ∃ w, matrixDecomposition ⟨[2 ^ n, 2 ^ n], data⟩ = .ok w ∧ w.length = 4 ^ n ∧
      ∀ P : List Letter, P.length = n →
        ∃ (i : ℕ) (g : GR), (PS.ofLetters P).getIndex = .ok i ∧ w[i]? = some g ∧
          getWeightInMatrix (PS.ofLetters P) w = .ok g ∧
          g.toComplex = trace (M (vecOf n P) * matOf n data) / 2 ^ n := by
  have hlen : (passes4 n (vecF n (entryOf n data))).length = 4 ^ n := by
    rw [passes4_length n 1 _ (by rw [vecF_length]; ring), vecF_length]
  refine ⟨_, matrixDecomposition_spec n hn data hd, hlen, ?_⟩
  intro P hP
  subst hP
  have hne : P ≠ [] := by intro h; simp [h] at hn
  have hc := passes4_coef P (vecF P.length (entryOf P.length data)) (vecF_length _ _)
  refine ⟨idx4 P, coefL P (vecF P.length (entryOf P.length data)), getIndex_ofLetters P hne, hc,
    getWeight_general P hn _ hlen _ hc, ?_⟩
  exact coefL_trace P.length (entryOf P.length data) P rfl

example : matrixDecomposition ⟨[2, 2], [⟨1, 0⟩, ⟨2, 0⟩, ⟨3, 0⟩, ⟨4, 1⟩]⟩
    = .ok [⟨5 / 2, 1 / 2⟩, ⟨-3 / 2, -1 / 2⟩, ⟨5 / 2, 0⟩, ⟨0, -1 / 2⟩] := by decide +kernel

/-- **C13, reconstruction clause** — "sum_P w[P]*M(P) = A".  The numbers the strings
look up in the decomposition of `A` reconstruct `A`. -/
theorem C13_recon (n : ℕ) (hn : 1 ≤ n) (data : List GR) (hd : data.length = 2 ^ n * 2 ^ n) :
    ∃ (w : List GR) (c : (Fin n → Letter) → GR),
      matrixDecomposition ⟨[2 ^ n, 2 ^ n], data⟩ = .ok w ∧
      (∀ P : Fin n → Letter, getWeightInMatrix (PS.ofLetters (List.ofFn P)) w = .ok (c P)) ∧
      ∑ P : Fin n → Letter, (c P).toComplex • M P = matOf n data := by
  obtain ⟨w, hw, _, hP⟩ := C13_coeff n hn data hd
  choose i g _ _ hg ht using fun P : Fin n → Letter => hP (List.ofFn P) (by simp)
  refine ⟨w, g, hw, hg, ?_⟩
  simp only [ht, vecOf_ofFn]
  exact pauli_complete (matOf n data)

/-- **C13, diagonal clause** — "the diagonal variant agrees with the general one on
diagonal matrices".  For `n ≥ 1` and a diagonal `d` of length `2^n`,
`matrix_decomposition_diagonal(d)` answers with a vector of length `2^n`; every string
`P` of length `n` looks up in it the number `tr(M(P)·diag(d))/2^n`, and it looks up the
*same* number in `matrix_decomposition(np.diag(d))`. -/
theorem C13_diag (n : ℕ) (hn : 1 ≤ n) (d : List GR) (hd : d.length = 2 ^ n) :
    ∃ wd w, matrixDecompositionDiagonal ⟨[2 ^ n], d⟩ = .ok wd ∧ wd.length = 2 ^ n ∧
      matrixDecomposition ⟨[2 ^ n, 2 ^ n], diagFlat n d⟩ = .ok w ∧
      matOf n (diagFlat n d) = diagOf n d ∧
      ∀ P : List Letter, P.length = n →
        ∃ g : GR, getWeightInMatrix (PS.ofLetters P) wd = .ok g ∧
          getWeightInMatrix (PS.ofLetters P) w = .ok g ∧
          g.toComplex = trace (M (vecOf n P) * diagOf n d) / 2 ^ n := by
  obtain ⟨w, hw, _, hP⟩ := C13_coeff n hn (diagFlat n d) (diagFlat_length n d)
  have hlen : (passes2 n d).length = 2 ^ n := by
    rw [passes2_length n 1 d (by rw [hd]; ring), hd]
  have hmat : matOf n (diagFlat n d) = diagOf n d := matF_diagFlat n d
  refine ⟨_, w, matrixDecompositionDiagonal_spec n hn d hd, hlen, hw, hmat, ?_⟩
  intro P hPn
  obtain ⟨i, g, _, _, hg, ht⟩ := hP P hPn
  rw [hmat] at ht
  subst hPn
  -- the value found in the diagonal vector
  have key : ∃ g', getWeightInMatrix (PS.ofLetters P) (passes2 P.length d) = .ok g' ∧
      g'.toComplex = trace (M (vecOf P.length P) * diagOf P.length d) / 2 ^ P.length := by
    by_cases hx : ∀ l ∈ P, cx l = false
    · have hc := passes2_coef (P.map cz) d (by rw [hd, List.length_map])
      rw [List.length_map] at hc
      refine ⟨_, getWeight_diagonal P hn _ hlen hx _ hc, ?_⟩
      conv_lhs => rw [eq_vecD P.length d hd]
      exact coefD_trace P.length _ P rfl hx
    · refine ⟨GR.zero, getWeight_diagonal_zero P hn _ hlen hx, ?_⟩
      rw [diagOf, trace_diag_zero P.length P rfl hx]
      simp
  obtain ⟨g', hg', ht'⟩ := key
  have : g' = g := GR.toComplex_injective (ht'.trans ht.symm)
  subst this
  exact ⟨g', hg', hg, ht'⟩

example : matrixDecompositionDiagonal ⟨[2], [⟨1, 0⟩, ⟨3, 1⟩]⟩ = .ok [⟨2, 1 / 2⟩, ⟨-1, -1 / 2⟩] := by
  decide +kernel

/-- **C13, weight-table clause** — "the Pauli-weight table lists, at each index, the
number of non-identity letters of the string with that index".  `get_pauli_weights(n)`
answers with a table of length `4^n` whose entry at `P.get_index()` — the same index
function the decomposition lookup of `C13_coeff` uses — is the number of non-identity
letters of `P`. -/
theorem C13_weights (P : List Letter) (hP : 1 ≤ P.length) :
    ∃ (t : List ℕ) (i : ℕ), getPauliWeights (P.length : ℤ) 0 = .ok t ∧ t.length = 4 ^ P.length ∧
      (PS.ofLetters P).getIndex = .ok i ∧ t[i]? = some (letterCount P) := by
  obtain ⟨t, ht, hl, hi⟩ := getPauliWeights_idx4 P
  have hne : P ≠ [] := by intro h; simp [h] at hP
  exact ⟨t, idx4 P, ht, hl, getIndex_ofLetters P hne, hi⟩

example : getPauliWeights 2 0 = .ok [0, 1, 1, 1, 1, 2, 2, 2, 1, 2, 2, 2, 1, 2, 2, 2] ∧
    (PS.ofLetters [.X, .I]).getIndex = .ok 8 ∧ letterCount [.X, .I] = 1 := by decide

/-- **C13, guards (general)** — "Non-square, non-power-of-two and scalar inputs are
rejected with ValueError": whatever the data, an array whose shape is not
`(2^n, 2^n)` with `n ≥ 1` (wrong number of dimensions, non-square, 1×1, 0×0, side not a
power of two) makes `matrix_decomposition` raise ValueError.  (`C13_coeff` is the
converse: every other input is answered.) -/
theorem C13_guards (a : NDArray) (h : ¬ ∃ n, 1 ≤ n ∧ a.shape = [2 ^ n, 2 ^ n]) :
    matrixDecomposition a = .error .valueError := by
  unfold matrixDecomposition
  match hs : a.shape with
  | [] => rfl
  | [_] => rfl
  | _ :: _ :: _ :: _ => rfl
  | [r, c] =>
    simp only []
    by_cases h1 : r ≠ c
    · rw [if_pos h1]
    rw [if_neg h1]
    by_cases h2 : r = 1
    · rw [if_pos h2]
    rw [if_neg h2]
    by_cases h3 : bitCount r ≠ 1
    · rw [if_pos h3]
    exfalso
    have hrc : r = c := by simpa using h1
    obtain ⟨k, hk⟩ := (bitCount_eq_one_iff r).mp (by simpa using h3)
    refine h ⟨k, ?_, by rw [hs, ← hrc, hk]⟩
    rcases k with _ | k
    · exact absurd hk h2
    · omega

example : matrixDecomposition ⟨[3, 3], List.replicate 9 ⟨1, 0⟩⟩ = .error .valueError ∧
    matrixDecomposition ⟨[1, 1], [⟨1, 0⟩]⟩ = .error .valueError ∧
    matrixDecomposition ⟨[2, 4], List.replicate 8 ⟨1, 0⟩⟩ = .error .valueError ∧
    matrixDecomposition ⟨[4], List.replicate 4 ⟨1, 0⟩⟩ = .error .valueError ∧
    matrixDecomposition ⟨[], [⟨1, 0⟩]⟩ = .error .valueError := by decide +kernel

/-- **C13, guards (diagonal)**: an array whose shape is not `(2^n,)` with `n ≥ 1` makes
`matrix_decomposition_diagonal` raise ValueError. -/
theorem C13_guards_diagonal (a : NDArray) (h : ¬ ∃ n, 1 ≤ n ∧ a.shape = [2 ^ n]) :
    matrixDecompositionDiagonal a = .error .valueError := by
  unfold matrixDecompositionDiagonal
  match hs : a.shape with
  | [] => rfl
  | _ :: _ :: _ => rfl
  | [r] =>
    simp only []
    by_cases h2 : r = 1
    · rw [if_pos h2]
    rw [if_neg h2]
    by_cases h3 : bitCount r ≠ 1
    · rw [if_pos h3]
    exfalso
    obtain ⟨k, hk⟩ := (bitCount_eq_one_iff r).mp (by simpa using h3)
    refine h ⟨k, ?_, by rw [hs, hk]⟩
    rcases k with _ | k
    · exact absurd hk h2
    · omega

/-- **C13, lookup guard**: `get_weight_in_matrix` raises ValueError for a vector whose
length is neither `2^len(P)` nor `4^len(P)`. -/
theorem C13_lookup_guard (p : PS) (b : List GR)
    (h : b.length ≠ 2 ^ p.len ∧ b.length ≠ 4 ^ p.len) :
    getWeightInMatrix p b = .error .valueError := by
  unfold getWeightInMatrix
  simp only []
  rw [if_pos h]

/-- **C13, loop ↔ recursion**: on a vector `b` of length `4^n` the iterative loops of
`matrix_decomposition` (`while h < len(b)` / `for i in range(0, len(b), 4h)` / `h *= 4`,
as transcribed in the model) leave, at the index of each string `P`, the recursive
per-qubit transform `coefL P b`; likewise for the radix-2 loops of the diagonal variant
and `coefD`. -/
theorem C13_loop_is_recursive_transform :
    (∀ (P : List Letter) (b : List GR), b.length = 4 ^ P.length →
      (whileLoop 4 pass4 b.length 1 b)[idx4 P]? = some (coefL P b)) ∧
    (∀ (s : List Bool) (b : List GR), b.length = 2 ^ s.length →
      (whileLoop 2 pass2 b.length 1 b)[idx2 s]? = some (coefD s b)) :=
  ⟨fun P b hb => by rw [whileLoop4 P.length b hb]; exact passes4_coef P b hb,
   fun s b hb => by rw [whileLoop2 s.length b hb]; exact passes2_coef s b hb⟩

/-- **C13, influence clause** — "so entropy and influence equal their defining sums"
(the exact part).  With the package's own weight table `t = get_pauli_weights(n)`,
`average_pauli_weight(A, t)` (evaluated exactly: `np.abs(c)**2` as `re² + im²`) is
`Σ_P |P| · |tr(M(P)·A)/2^n|²`, the sum over all strings `P` of the number of
non-identity letters times the squared modulus of the coefficient.  (For the entropy
the same `|c_P|²` enter `-Σ p log2 p`; `log2` and the cut-off are not modelled.) -/
theorem C13_influence (n : ℕ) (hn : 1 ≤ n) (data : List GR) (hd : data.length = 2 ^ n * 2 ^ n) :
    ∃ (t : List ℕ) (v : ℚ), getPauliWeights (n : ℤ) 0 = .ok t ∧
      averagePauliWeight ⟨[2 ^ n, 2 ^ n], data⟩ (t.map Int.ofNat) = .ok v ∧
      (v : ℝ) = ∑ P : Fin n → Letter,
        (letterCount (List.ofFn P) : ℝ) * Complex.normSq (trace (M P * matOf n data) / 2 ^ n) := by
  set b := vecF n (entryOf n data) with hb
  have hlen : (passes4 n b).length = 4 ^ n := by
    rw [passes4_length n 1 _ (by rw [hb, vecF_length]; ring), hb, vecF_length]
  set t := (List.range (4 ^ n)).map (digitWeight 0 n) with ht
  have htl : t.length = 4 ^ n := by simp [ht]
  let f : ℤ → ℚ → ℚ := fun w q => (w : ℚ) * q
  refine ⟨t, sumRat (List.zipWith f (t.map Int.ofNat) (probs (passes4 n b))), ?_, ?_, ?_⟩
  · unfold getPauliWeights
    rw [if_neg (by omega)]
    simp [ht]
  · unfold averagePauliWeight
    rw [matrixDecomposition_spec n hn data hd]
    simp only []
    rw [if_pos (by simp [probs, htl]; exact hlen.symm)]
  · rw [sumRat_index n _ (by simp [probs, htl, hlen])]
    push_cast
    refine Finset.sum_congr rfl fun P _ => ?_
    have hPl : (List.ofFn P).length = n := by simp
    have h1 : t[idx4 (List.ofFn P)]? = some (letterCount (List.ofFn P)) := by
      have hi : idx4 (List.ofFn P) < 4 ^ n := by simpa using idx4_lt (List.ofFn P)
      have := digitWeight_idx4 (List.ofFn P)
      rw [hPl] at this
      simp only [ht, List.getElem?_map, List.getElem?_range hi, Option.map_some, this]
    have h2 : (passes4 n b)[idx4 (List.ofFn P)]? = some (coefL (List.ofFn P) b) := by
      have := passes4_coef (List.ofFn P) b (by rw [hPl, hb, vecF_length])
      rwa [hPl] at this
    have h3 : (List.zipWith f (t.map Int.ofNat) (probs (passes4 n b))).getD (idx4 (List.ofFn P)) 0
        = f (letterCount (List.ofFn P) : ℤ) (GR.normSq (coefL (List.ofFn P) b)) := by
      rw [List.getD_eq_getElem?_getD, getElem?_zipWith_some f _ _ _ _ _
        (by rw [List.getElem?_map, h1]; rfl) (by rw [probs, List.getElem?_map, h2]; rfl)]
      rfl
    rw [h3]
    have h4 := coefL_trace n (entryOf n data) (List.ofFn P) hPl
    rw [vecOf_ofFn] at h4
    show (((((letterCount (List.ofFn P) : ℤ) : ℚ) * GR.normSq (coefL (List.ofFn P) b) : ℚ)) : ℝ) = _
    push_cast
    rw [GR.normSq_cast, h4]
    rfl

/-- **C13, probabilities** (the exact input of the entropy): entry `P.get_index()` of
`np.abs(c)**2` (evaluated exactly as `re² + im²`) is `|tr(M(P)·A)/2^n|²`. -/
theorem C13_probs (n : ℕ) (hn : 1 ≤ n) (data : List GR) (hd : data.length = 2 ^ n * 2 ^ n) :
    ∃ w, matrixDecomposition ⟨[2 ^ n, 2 ^ n], data⟩ = .ok w ∧
      ∀ P : List Letter, P.length = n →
        ∃ (i : ℕ) (q : ℚ), (PS.ofLetters P).getIndex = .ok i ∧ (probs w)[i]? = some q ∧
          (q : ℝ) = Complex.normSq (trace (M (vecOf n P) * matOf n data) / 2 ^ n) := by
  obtain ⟨w, hw, _, hP⟩ := C13_coeff n hn data hd
  refine ⟨w, hw, fun P hPn => ?_⟩
  obtain ⟨i, g, hi, hg, _, ht⟩ := hP P hPn
  exact ⟨i, GR.normSq g, hi, by rw [probs, List.getElem?_map, hg]; rfl, by rw [GR.normSq_cast, ht]⟩

example : averagePauliWeight ⟨[2, 2], [⟨1, 0⟩, ⟨2, 0⟩, ⟨3, 0⟩, ⟨4, 0⟩]⟩ [0, 1, 1, 1] = .ok (35 / 4) := by
  decide +kernel

/-- **C13, layout of `matOf`**: the entry of `matOf n data` at `(r, c)` is the datum at
row-major position `2^n·i + j`, where `i`, `j` are the positions of `r`, `c` in
`allBits n` — the increasing big-endian order in which the model's `denseMatrix` lists
rows and columns (the C04 harness compares that matrix entry by entry with numpy's
`get_matrix()`, and `entry_toComplex` identifies it with `M`).  So `matOf` and `M` use
the same index convention. -/
theorem C13_layout (n : ℕ) (data : List GR) (r c : Fin n → Fin 2) :
    ∃ i j : ℕ, (allBits n)[i]? = some (bitsOf r) ∧ (allBits n)[j]? = some (bitsOf c) ∧
      idxOf n (bitsOf r) = r ∧ idxOf n (bitsOf c) = c ∧
      matOf n data r c = (data.getD (2 ^ n * i + j) GR.zero).toComplex :=
  ⟨num r, num c, allBits_num r, allBits_num c, idxOf_bitsOf r, idxOf_bitsOf c, rfl⟩

end C13
end PauLie
