/-
Property C04, proved for the model `PauLieVerif/Model/PS.lean`, for every length
`n` and every well-formed (`PS.WF`) pair of Pauli strings.

  "For all Pauli strings P and Q of equal length, the returned product string R
   and phase s satisfy M(P)M(Q) = s*M(R) for the 2^n x 2^n matrices; the
   commutation predicate holds exactly when the matrices commute; the adjoint map
   is empty exactly when they commute and is the product string otherwise; the
   conjugation sign equals the sign relating M(P) to its complex conjugate.
   Operands of unequal length are rejected with ValueError, never answered."

Vocabulary (`PauLieVerif/Spec/PauliMatrix.lean`): `M P` is the `2^n × 2^n` complex
matrix of `P : Fin n → Letter` (entry-wise Kronecker product of the standard Pauli
matrices `σ`), `PS.vec n p : Fin n → Letter` decodes a model string through
`PS.letters` (= Python `str(p)`).  `PS.sign` returns the exponent `k = f % 4`; the
Python phase is `(-1j) ** k`.  `PS.complexConj` returns the exponent `e`; the
Python sign is `(-1) ** ys` with `e = ys % 2`.
-/
import PauLieVerif.Proofs.C04Lemmas

namespace PauLie
namespace C04

open Matrix Complex

/-- **C04, product.**  `sign` and `multiply` both answer; the product string is
well-formed of the same length and `M(P) M(Q) = (-i)^k M(R)`. -/
theorem C04_mul (n : ℕ) (p q : PS) (hp : p.WF) (hq : q.WF) (hpn : p.len = n) (hqn : q.len = n) :
    ∃ (k : ℕ) (r : PS), PS.sign p q = .ok k ∧ PS.multiply p q = .ok r ∧ k < 4 ∧
      r.WF ∧ r.len = n ∧
      M (p.vec n) * M (q.vec n) = ((-Complex.I) ^ k) • M (r.vec n) := by
  have hw : p.letters.length = n := (length_letters p).trans hpn
  have hv : q.letters.length = n := (length_letters q).trans hqn
  have hlen : p.letters.length = q.letters.length := hw.trans hv.symm
  refine ⟨signExp p.letters q.letters, PS.ofLetters (List.zipWith lmul p.letters q.letters),
    ?_, ?_, signExp_lt _ _, WF_ofLetters _, ?_, ?_⟩
  · conv_lhs => rw [WF_eq_ofLetters hp, WF_eq_ofLetters hq]
    exact sign_ofLetters hlen
  · conv_lhs => rw [WF_eq_ofLetters hp, WF_eq_ofLetters hq]
    exact multiply_ofLetters hlen
  · rw [len_ofLetters, List.length_zipWith, hw, hv, Nat.min_self]
  · simp only [PS.vec, letters_ofLetters]
    exact M_mul_list n _ _ hw hv

example :
    (PS.ofLetters [.X, .Y, .Z]).WF ∧ (PS.ofLetters [.Y, .Z, .Y]).WF ∧
    (PS.ofLetters [.X, .Y, .Z]).len = 3 ∧ (PS.ofLetters [.Y, .Z, .Y]).len = 3 ∧
    PS.sign (PS.ofLetters [.X, .Y, .Z]) (PS.ofLetters [.Y, .Z, .Y]) = .ok 3 ∧
    PS.multiply (PS.ofLetters [.X, .Y, .Z]) (PS.ofLetters [.Y, .Z, .Y])
      = .ok (PS.ofLetters [.Z, .X, .X]) := by decide

/-- **C04, commutation predicate.**  `commutes_with` answers, and answers `True`
exactly when the matrices commute. -/
theorem C04_commutes (n : ℕ) (p q : PS) (hp : p.WF) (hq : q.WF)
    (hpn : p.len = n) (hqn : q.len = n) :
    ∃ b : Bool, PS.commutesWith p q = .ok b ∧
      (b = true ↔ Commute (M (p.vec n)) (M (q.vec n))) := by
  have hw : p.letters.length = n := (length_letters p).trans hpn
  have hv : q.letters.length = n := (length_letters q).trans hqn
  refine ⟨_, ?_, commute_list n p.letters q.letters hw hv⟩
  conv_lhs => rw [WF_eq_ofLetters hp, WF_eq_ofLetters hq]
  exact commutes_ofLetters (hw.trans hv.symm)

example :
    (PS.ofLetters [.X, .Y, .Z]).WF ∧ (PS.ofLetters [.Z, .Z, .I]).WF ∧
    (PS.ofLetters [.X, .Y, .Z]).len = 3 ∧ (PS.ofLetters [.Z, .Z, .I]).len = 3 ∧
    PS.commutesWith (PS.ofLetters [.X, .Y, .Z]) (PS.ofLetters [.Z, .Z, .I]) = .ok true ∧
    PS.commutesWith (PS.ofLetters [.X, .Y, .Z]) (PS.ofLetters [.Z, .I, .I]) = .ok false := by
  decide

/-- **C04, adjoint map.**  `adjoint_map` always answers; it answers `None` exactly
when the matrices commute; otherwise it answers the product string `R` of
`multiply`, and the commutator is `[M(P), M(Q)] = 2 (-i)^k M(R) ≠ 0` with `k` the
exponent of `sign`. -/
theorem C04_adjoint (n : ℕ) (p q : PS) (hp : p.WF) (hq : q.WF)
    (hpn : p.len = n) (hqn : q.len = n) :
    (PS.adjointMap p q = .ok none ↔ Commute (M (p.vec n)) (M (q.vec n))) ∧
    (¬ Commute (M (p.vec n)) (M (q.vec n)) → ∃ r, PS.adjointMap p q = .ok (some r)) ∧
    (∀ r, PS.adjointMap p q = .ok (some r) →
      PS.multiply p q = .ok r ∧
      ∃ k, PS.sign p q = .ok k ∧
        M (p.vec n) * M (q.vec n) - M (q.vec n) * M (p.vec n)
          = (2 * (-Complex.I) ^ k) • M (r.vec n) ∧
        M (p.vec n) * M (q.vec n) - M (q.vec n) * M (p.vec n) ≠ 0) := by
  have hw : p.letters.length = n := (length_letters p).trans hpn
  have hv : q.letters.length = n := (length_letters q).trans hqn
  have hlen : p.letters.length = q.letters.length := hw.trans hv.symm
  have hadj : PS.adjointMap p q
      = .ok (if (cntA p.letters q.letters % 2 == cntA q.letters p.letters % 2) = true then none
             else some (PS.ofLetters (List.zipWith lmul p.letters q.letters))) := by
    conv_lhs => rw [WF_eq_ofLetters hp, WF_eq_ofLetters hq]
    exact adjoint_ofLetters hlen
  have hmul : PS.multiply p q
      = .ok (PS.ofLetters (List.zipWith lmul p.letters q.letters)) := by
    conv_lhs => rw [WF_eq_ofLetters hp, WF_eq_ofLetters hq]
    exact multiply_ofLetters hlen
  have hsign : PS.sign p q = .ok (signExp p.letters q.letters) := by
    conv_lhs => rw [WF_eq_ofLetters hp, WF_eq_ofLetters hq]
    exact sign_ofLetters hlen
  have hcomm : (cntA p.letters q.letters % 2 == cntA q.letters p.letters % 2) = true ↔
      Commute (M (p.vec n)) (M (q.vec n)) := commute_list n p.letters q.letters hw hv
  rw [hadj]
  by_cases hc : (cntA p.letters q.letters % 2 == cntA q.letters p.letters % 2) = true
  · have hC := hcomm.mp hc
    simp [hc, hC]
  · have hC : ¬ Commute (M (p.vec n)) (M (q.vec n)) := fun h => hc (hcomm.mpr h)
    refine ⟨by simp [hc, hC], fun _ => ⟨PS.ofLetters (List.zipWith lmul p.letters q.letters), by simp [hc]⟩, ?_⟩
    intro r hr
    rw [if_neg hc] at hr
    obtain rfl : PS.ofLetters (List.zipWith lmul p.letters q.letters) = r := by
      simpa using hr
    refine ⟨hmul, _, hsign, ?_⟩
    have hcm := commutator_list n p.letters q.letters hw hv hc
    simp only [PS.vec, letters_ofLetters]
    exact ⟨hcm, hcm ▸ commutator_ne_zero_list n _ _⟩

example :
    (PS.ofLetters [.X, .Y, .Z]).WF ∧ (PS.ofLetters [.Z, .I, .I]).WF ∧
    (PS.ofLetters [.X, .Y, .Z]).len = 3 ∧ (PS.ofLetters [.Z, .I, .I]).len = 3 ∧
    PS.adjointMap (PS.ofLetters [.X, .Y, .Z]) (PS.ofLetters [.Z, .I, .I])
      = .ok (some (PS.ofLetters [.Y, .Y, .Z])) ∧
    PS.adjointMap (PS.ofLetters [.X, .Y, .Z]) (PS.ofLetters [.Z, .Z, .I]) = .ok none := by
  decide

/-- **C04, conjugation sign.**  `complex_conj` answers an exponent `e` and the
entry-wise complex conjugate of `M(P)` is `(-1)^e M(P)`. -/
theorem C04_conj (n : ℕ) (p : PS) (hp : p.WF) (hpn : p.len = n) :
    ∃ e : ℕ, PS.complexConj p = .ok e ∧
      (M (p.vec n)).map (starRingEnd ℂ) = ((-1 : ℂ) ^ e) • M (p.vec n) := by
  have hw : p.letters.length = n := (length_letters p).trans hpn
  refine ⟨cntY p.letters % 2, ?_, M_conj_list n p.letters hw⟩
  conv_lhs => rw [WF_eq_ofLetters hp]
  exact conj_ofLetters _

example :
    (PS.ofLetters [.X, .Y, .Z]).WF ∧ (PS.ofLetters [.X, .Y, .Z]).len = 3 ∧
    PS.complexConj (PS.ofLetters [.X, .Y, .Z]) = .ok 1 := by decide

/-- **C04, unequal lengths.**  All four binary operations raise `ValueError`. -/
theorem C04_length (p q : PS) (hp : p.WF) (hq : q.WF) (h : p.len ≠ q.len) :
    PS.sign p q = .error .valueError ∧
    PS.commutesWith p q = .error .valueError ∧
    PS.multiply p q = .error .valueError ∧
    PS.adjointMap p q = .error .valueError := by
  have hb : p.bits.length ≠ q.bits.length := by
    rw [WF_bits_length hp, WF_bits_length hq]; omega
  have hc : PS.commutesWith p q = .error .valueError := by
    simp [PS.commutesWith, h, bind, Except.bind, throw, throwThe, MonadExceptOf.throw]
  refine ⟨?_, hc, ?_, ?_⟩
  · simp [PS.sign, h, bind, Except.bind, throw, throwThe, MonadExceptOf.throw]
  · simp [PS.multiply, hb, bind, Except.bind, throw, throwThe, MonadExceptOf.throw]
  · simp [PS.adjointMap, hc, bind, Except.bind]

example :
    (PS.ofLetters [.X, .Y, .Z]).WF ∧ (PS.ofLetters [.Z, .Z]).WF ∧
    (PS.ofLetters [.X, .Y, .Z]).len ≠ (PS.ofLetters [.Z, .Z]).len := by decide

end C04
end PauLie
