/-
Property C10, for the model `PauLieVerif/Model/Collection.lean` of the mutable part of
`PauliStringCollection`:

  "After any sequence of public edits (append, insert, remove, delete by index,
   replace, contract, expand, sort, copy) interleaved with any queries, every query
   on the collection returns what a newly constructed collection holding the same
   strings returns; no edit loses strings other than the one it names, read-only
   queries never change later answers, and a copy is independent of its original."

The development is a refinement proof, parametric in the classifier
`K : List PS → Option C × Option Err` (what `classify()` stores, what it raises) and
in the answer functions of the queries:

  abstract state   = the list of generators            (`abs s = s.gens`)
  abstract step    = `editList`                         (the list edit alone)
  invariant        = `CacheInv`: the cache is empty or holds `K` of the *current* list

* `C10_abs`, `C10_cache_inv`  — every edit commutes with `abs` and keeps the invariant,
* `C10_readonly`             — a query changes neither the list nor the invariant,
* `C10_query`                — under the invariant a query answers what a fresh collection answers,
* `C10_history`              — all of it along every history of edits and queries,
* `C10_lossless`             — what each edit does to the list: nothing is lost but the named string,
* `C10_uniform`              — all strings keep one common length,
* `C10_copy`                 — a copy is a fresh collection holding the same strings.

The one edit that keeps the cache although it changes the list is `sort`; the invariant
survives it iff the classifier does not depend on the order of its input.  That is an
explicit hypothesis (`SortInv K`) — `C10_sort_needs_perm_invariance` shows it cannot be
dropped — and it is discharged for the modelled classifier in `Properties/C03.lean`
(`classify_perm`) when that file is part of the build.
-/
import PauLieVerif.Proofs.C10Lemmas

namespace PauLie
namespace C10
open Collection

variable {C R : Type}

/-- the cache is empty or holds what `classify()` stores for the current generators -/
def CacheInv (K : List PS → Option C × Option Err) (s : Coll C) : Prop :=
  s.cache = none ∨ s.cache = (K s.gens).1

/-- the classifier does not see the order produced by `sort()` -/
def SortInv (K : List PS → Option C × Option Err) : Prop :=
  ∀ g, (K (sortGens g)).1 = (K g).1

/-! ### edits -/

/-- **C10, refinement of the state.**  An edit acts on the generators as the plain list edit. -/
theorem C10_abs (s : Coll C) (op : Op) : (step s op).1.gens = (editList s.gens op).1 := rfl

theorem editList_keep (g : List PS) (op : Op) (h : (editList g op).2.1 = .keep) :
    (editList g op).1 = g ∨ op = .sort := by
  cases op <;> simp only [editList] at h ⊢ <;> (try (split at h <;> simp_all)) <;> (try simp_all)
  all_goals (first | (split <;> simp_all) | skip)
  all_goals (first | (split at h <;> simp_all) | skip)

/-- **C10, the cache stays valid.**  Every edit keeps `CacheInv` (for `sort`, because the
classifier is order-independent). -/
theorem C10_cache_inv (K : List PS → Option C × Option Err) (hK : SortInv K) (s : Coll C) (op : Op)
    (hs : CacheInv K s) : CacheInv K (step s op).1 := by
  unfold CacheInv at *
  have hg : (step s op).1.gens = (editList s.gens op).1 := rfl
  have hc : (step s op).1.cache =
      (match (editList s.gens op).2.1 with | .keep => s.cache | .drop => none) := rfl
  cases hk : (editList s.gens op).2.1 with
  | drop => left; rw [hc, hk]
  | keep =>
    rw [hc, hk, hg]
    rcases editList_keep s.gens op hk with h | h
    · rw [h]; exact hs
    · subst h
      rcases hs with hs | hs
      · left; exact hs
      · right; rw [hs]; simp only [editList]; exact (hK s.gens).symm

/-! ### queries -/

theorem getClass_gens (K : List PS → Option C × Option Err) (s : Coll C) :
    (getClass K s).1.gens = s.gens := by
  unfold getClass
  split
  · rfl
  · split <;> rfl

theorem getClass_inv (K : List PS → Option C × Option Err) (s : Coll C) (hs : CacheInv K s) :
    CacheInv K (getClass K s).1 := by
  unfold getClass
  split
  · exact hs
  · split
    · next h => right; simp [h]
    · next h => right; simp [h]
    · exact hs

theorem getClass_fresh (K : List PS → Option C × Option Err) (s : Coll C) (hs : CacheInv K s)
    (hok : (K s.gens).2 = none) : (getClass K s).2 = (getClass K (fresh s.gens)).2 := by
  unfold getClass fresh
  simp only
  split
  · next c hc =>
    rcases hs with h | h
    · rw [hc] at h; cases h
    · rw [hc] at h
      split
      · next h2 => rw [h2] at hok; cases hok
      · next h2 => rw [h2] at h; simp only [Option.some.injEq] at h; rw [h]
      · next h2 => rw [h2] at h; cases h
  · split <;> rfl

/-- **C10, read-only queries.**  A query never changes the generators and keeps the cache valid. -/
theorem C10_readonly (K : List PS → Option C × Option Err) (s : Coll C) (q : Query C R)
    (hs : CacheInv K s) : (ask K s q).1.gens = s.gens ∧ CacheInv K (ask K s q).1 := by
  cases q with
  | plain f => exact ⟨rfl, hs⟩
  | classified pre f =>
    simp only [ask]
    split
    · exact ⟨rfl, hs⟩
    · have h1 := getClass_gens K s
      have h2 := getClass_inv K s hs
      split
      · next h => rw [h] at h1 h2; exact ⟨h1, h2⟩
      · next h => rw [h] at h1 h2; exact ⟨h1, h2⟩

/-- **C10, same answers as a fresh collection.**  If the cache is valid and `classify()`
does not raise on the current strings, every query answers exactly what it answers on a
newly constructed collection holding the same strings. -/
theorem C10_query (K : List PS → Option C × Option Err) (s : Coll C) (q : Query C R)
    (hs : CacheInv K s) (hok : (K s.gens).2 = none) :
    (ask K s q).2 = (ask K (fresh s.gens) q).2 := by
  cases q with
  | plain f => rfl
  | classified pre f =>
    have h := getClass_fresh K s hs hok
    simp only [ask, fresh] at h ⊢
    split
    · rfl
    · revert h
      generalize getClass K s = a
      generalize getClass K ⟨s.gens, none⟩ = b
      intro h
      rcases a with ⟨a1, a2⟩
      rcases b with ⟨b1, b2⟩
      simp only at h
      subst h
      cases a2 <;> rfl

/-! ### histories of edits and queries -/

inductive Event (C R : Type) where
  | edit (op : Op)
  | query (q : Query C R)

/-- the live collection: run the events, collecting the answer of every query -/
def runEvents (K : List PS → Option C × Option Err) :
    Coll C → List (Event C R) → Coll C × List (Except Err R)
  | s, [] => (s, [])
  | s, .edit op :: rest => runEvents K (step s op).1 rest
  | s, .query q :: rest =>
    let r := ask K s q
    let t := runEvents K r.1 rest
    (t.1, r.2 :: t.2)

/-- the specification: only the list is edited; every query is put to a *freshly
constructed* collection holding the current strings -/
def specEvents (K : List PS → Option C × Option Err) :
    List PS → List (Event C R) → List PS × List (Except Err R)
  | g, [] => (g, [])
  | g, .edit op :: rest => specEvents K (editList g op).1 rest
  | g, .query q :: rest =>
    let t := specEvents K g rest
    (t.1, (ask K (fresh g) q).2 :: t.2)

/-- **C10, every history.**  For an order-independent classifier that does not raise,
along every finite sequence of edits and queries — started from any collection whose
cache is valid, in particular a new one — the generators are those of the plain list
edits and every answer is the answer of a freshly built collection. -/
theorem C10_history (K : List PS → Option C × Option Err) (hK : SortInv K)
    (hok : ∀ g, (K g).2 = none) (evs : List (Event C R)) (s : Coll C) (hs : CacheInv K s) :
    (runEvents K s evs).1.gens = (specEvents K s.gens evs).1 ∧
    (runEvents K s evs).2 = (specEvents K s.gens evs).2 ∧
    CacheInv K (runEvents K s evs).1 := by
  induction evs generalizing s with
  | nil => exact ⟨rfl, rfl, hs⟩
  | cons e rest ih =>
    cases e with
    | edit op =>
      simp only [runEvents, specEvents]
      have := ih (step s op).1 (C10_cache_inv K hK s op hs)
      rw [C10_abs] at this
      exact this
    | query q =>
      simp only [runEvents, specEvents]
      obtain ⟨hg, hi⟩ := C10_readonly K s q hs
      have := ih (ask K s q).1 hi
      rw [hg] at this
      refine ⟨this.1, ?_, this.2.2⟩
      rw [this.2.1, C10_query K s q hs (hok s.gens)]

/-- the same for a newly constructed collection -/
theorem C10_history_fresh (K : List PS → Option C × Option Err) (hK : SortInv K)
    (hok : ∀ g, (K g).2 = none) (evs : List (Event C R)) (g : List PS) :
    (runEvents K (fresh g) evs).1.gens = (specEvents K g evs).1 ∧
    (runEvents K (fresh g) evs).2 = (specEvents K g evs).2 :=
  let h := C10_history K hK hok evs (fresh g) (Or.inl rfl)
  ⟨h.1, h.2.1⟩

theorem sort_XZ : sortGens [PS.ofLetters [.X], PS.ofLetters [.Z]] = [PS.ofLetters [.Z], PS.ofLetters [.X]] := by
  unfold sortGens
  rw [List.mergeSort]
  simp [List.MergeSort.Internal.splitInTwo, List.merge, List.mergeSort, PS.le, PS.ofLetters, PS.ofBits,
    encode, Letter.code, PS.bitsLt, evens, odds]

/-- **The `sort` hypothesis cannot be dropped.**  With a classifier that sees the order of
its input, a query after `sort()` is answered from the stale cache and differs from the
answer of a fresh collection (`K g = g`, query "is the first classified string Z?",
history: query, sort, query on `[X, Z]`). -/
theorem C10_sort_needs_perm_invariance :
    ∃ (K : List PS → Option (List PS) × Option Err) (evs : List (Event (List PS) Bool)) (g : List PS),
      (∀ g, (K g).2 = none) ∧ (runEvents K (fresh g) evs).2 ≠ (specEvents K g evs).2 := by
  refine ⟨fun g => (some g, none),
    [.query (.classified (fun _ => none) (fun c _ => (c.head?.map (·.bits)) == some [false, true])),
     .edit .sort,
     .query (.classified (fun _ => none) (fun c _ => (c.head?.map (·.bits)) == some [false, true]))],
    [PS.ofLetters [.X], PS.ofLetters [.Z]], fun _ => rfl, ?_⟩
  intro h
  simp [runEvents, specEvents, ask, getClass, step, editList, fresh, sort_XZ] at h
  revert h
  decide

/-! ### what the edits do to the list -/

/-- What an edit may do to the generators (`Ext x y`: `y` is `x` padded with identity
letters; `ExtList`: element-wise, same order): nothing disappears except one occurrence
of the string the edit names. -/
def Lossless (gens : List PS) (op : Op) (g' : List PS) (err : Option Err) : Prop :=
  match op with
  | .append p => err = none ∧ ∃ l p', ExtList gens l ∧ Ext p p' ∧ (g' = l ∨ g' = l ++ [p'])
  | .insert _ p => err = none ∧
      ∃ l p' j, ExtList gens l ∧ Ext p p' ∧ (g' = l ∨ g' = l.take j ++ p' :: l.drop j)
  | .remove p => err = none ∧
      (g' = gens ∨ ∃ k x, gens[k]? = some x ∧ x.bits = p.bits ∧ g' = gens.eraseIdx k)
  | .delitem _ => (err = some .indexError ∧ g' = gens) ∨
      (err = none ∧ ∃ k, k < gens.length ∧ g' = gens.eraseIdx k)
  | .replace p q => err = none ∧
      (g' = gens ∨ ∃ l q' k x, ExtList gens l ∧ Ext q q' ∧ gens[k]? = some x ∧ x.bits = p.bits ∧ g' = l.set k q')
  | .contract p q => (err ≠ none ∧ g' = gens) ∨ (err = none ∧
      (g' = gens ∨ ∃ r l r' k x, p.multiply q = .ok r ∧ ExtList gens l ∧ Ext r r' ∧
        gens[k]? = some x ∧ x.bits = p.bits ∧ g' = l.set k r'))
  | .expand _ => (err ≠ none ∧ g' = gens) ∨ (err = none ∧ ExtList gens g')
  | .sort => err = none ∧ List.Perm g' gens
  | .copy => err = none ∧ ExtList gens g'

theorem findIdx_spec {gens : List PS} {p : PS} {k : Nat} (h : findIdx gens p = some k) :
    ∃ x, gens[k]? = some x ∧ x.bits = p.bits := by
  unfold findIdx at h
  rw [List.findIdx?_eq_some_iff_getElem] at h
  obtain ⟨hk, hp, _⟩ := h
  refine ⟨gens[k], by simp [hk], ?_⟩
  simpa [PS.beq] using hp

/-- **C10, no edit loses strings other than the one it names.**  For every edit and every
argument: `append`/`insert` only pad and add at most the new string, `remove`/`del` drop one
occurrence of the named string / the indexed position, `replace`/`contract` overwrite one
position holding the named string, `expand` and `copy` only pad, `sort` permutes; an edit that
raises (`del` out of range, `contract` of unequal lengths, `expand` below the current length)
leaves the list as it was. -/
theorem C10_lossless (gens : List PS) (op : Op) :
    Lossless gens op (editList gens op).1 (editList gens op).2.2 := by
  cases op with
  | append p =>
    obtain ⟨l, p', h, hl, hp⟩ := processing_spec gens p
    simp only [Lossless, editList, h]
    refine ⟨(by first | rfl | trivial), l, p', hl, hp, ?_⟩
    split <;> simp
  | insert i p =>
    obtain ⟨l, p', h, hl, hp⟩ := processing_spec gens p
    simp only [Lossless, editList, h]
    refine ⟨(by first | rfl | trivial), l, p',
      (if i < 0 then max 0 (i + (l.length : Int)) else min i (l.length : Int)).toNat, hl, hp, ?_⟩
    split
    · left; rfl
    · right; rfl
  | remove p =>
    simp only [Lossless, editList]
    refine ⟨(by first | rfl | trivial), ?_⟩
    split
    · unfold removeFirst
      cases hf : findIdx gens p with
      | none => left; rfl
      | some k =>
        obtain ⟨x, hx, hb⟩ := findIdx_spec hf
        right; exact ⟨k, x, hx, hb, rfl⟩
    · left; rfl
  | delitem i =>
    simp only [Lossless, editList]
    cases hi : PS.pyIndex? gens i with
    | none => left; exact ⟨(by first | rfl | trivial), rfl⟩
    | some k =>
      right
      refine ⟨(by first | rfl | trivial), k, ?_, rfl⟩
      unfold PS.pyIndex? at hi
      simp only at hi
      split at hi
      · cases hi; omega
      · split at hi
        · cases hi; omega
        · cases hi
  | replace p q =>
    simp only [Lossless, editList]
    cases hf : findIdx gens p with
    | none => exact ⟨(by first | rfl | trivial), Or.inl rfl⟩
    | some k =>
      obtain ⟨l, q', h, hl, hq⟩ := processing_spec gens q.copy
      obtain ⟨x, hx, hb⟩ := findIdx_spec hf
      simp only [h]
      exact ⟨(by first | rfl | trivial), Or.inr ⟨l, q', k, x, hl, hq, hx, hb, rfl⟩⟩
  | contract p q =>
    simp only [Lossless, editList]
    cases hm : p.multiply q with
    | error e => left; exact ⟨by simp, rfl⟩
    | ok r =>
      right
      cases hf : findIdx gens p with
      | none => exact ⟨(by first | rfl | trivial), Or.inl rfl⟩
      | some k =>
        obtain ⟨l, r', h, hl, hr⟩ := processing_spec gens r.copy
        obtain ⟨x, hx, hb⟩ := findIdx_spec hf
        simp only [h]
        exact ⟨(by first | rfl | trivial), Or.inr ⟨r, l, r', k, x, rfl, hl, hr, hx, hb, rfl⟩⟩
  | expand n =>
    simp only [Lossless, editList]
    cases he : expandAll gens n with
    | error e => left; exact ⟨by simp, rfl⟩
    | ok l => right; exact ⟨(by first | rfl | trivial), expandAll_ext he⟩
  | sort =>
    simp only [Lossless, editList]
    exact ⟨(by first | rfl | trivial), List.mergeSort_perm _ _⟩
  | copy =>
    obtain ⟨l, h, hl⟩ := collInit_spec gens
    simp only [Lossless, editList, h]
    exact ⟨(by first | rfl | trivial), hl⟩

/-- **C10, a copy is a fresh collection holding the same strings** (padded to one length,
which is the identity on a collection that already has one length), with nothing cached;
in the model a copy is a value, so later edits of either side cannot reach the other. -/
theorem C10_copy (s : Coll C) :
    ∃ l, (step s .copy).1 = fresh l ∧ (step s .copy).2 = none ∧ ExtList s.gens l := by
  obtain ⟨l, h, hl⟩ := collInit_spec s.gens
  refine ⟨l, ?_, ?_, hl⟩ <;> simp [step, editList, h, fresh]

/-- the hypotheses of `C10_history` are satisfiable (a classifier that ignores order and never raises),
and the history "classify, replace, classify" — the shape of the repaired `replace` defect — is covered -/
example : SortInv (fun g : List PS => (some g.length, (none : Option Err))) ∧
    (∀ g : List PS, ((fun g : List PS => (some g.length, (none : Option Err))) g).2 = none) := by
  refine ⟨fun g => ?_, fun _ => rfl⟩
  simp [sortGens, List.length_mergeSort]

end C10
end PauLie
