/-
Property C03 ("re-presentations do not change the reported algebra"), the FULL invariant.

`Properties/C03.lean` proves that size and centre of the verified closure are the same for every
re-presentation, and `C03_from_C01` for every `GraphInvariant`.  Here the same is proved for the
whole invariant the checker of C01/C09/C19 compares with the reported name,
`invOfClosure ∘ closureList` (centre, and per connected block: simple dimension, series label,
copies), for ALL seven re-presentations and all n:

  * `C03_invOfClosure_not_graphInvariant`: `invOfClosure` is NOT a `GraphInvariant` in the sense of
    `Proofs/C03Spec.lean`: on a list that is not closed under commutators (a path of three strings)
    it depends on the order of enumeration, because the per-block data are read off the FIRST
    member of a block.  The right notion is `ClosedInvariant`: order-independence is only asked on
    duplicate-free commutator-closed sets;
  * `C03_full_perm`: on a duplicate-free closed set `invOfClosure` does not depend on the order
    (every block is homogeneous under the transvections `x ↦ x + ω(x,a)·a`, `Proofs/C03Homog.lean`);
  * `C03_full_invOfClosure_map`: it is unchanged by any map that preserves the form on the members;
    hence `closedInvariant_invOfClosure`;
  * `C03_full_closure_map`: the verified enumerator commutes with a form map AS A LIST;
  * `C03_full_same_closure`: generating sets with the same closure (reordered, duplicated,
    contracted, product added) get the same full invariant;
  * `C03_full_invariant`: `invOfClosure (closureList (G.map φ)).1 = invOfClosure (closureList G).1`
    for every `FormMap φ` (qubit permutation, relabelling, padding);
  * `C03_from_C01_closed` / `C03_from_C01_full`: if the names reported on `G` and on a
    re-presentation `G'` (closure of `G'` = image of the closure of `G` under a form map) both have
    the invariants of the respective verified closure - what C01 asserts - then the two names have
    equal invariants: a C03 failure is a C01 failure on one side, now for the full invariant.

NOT proved (unchanged): that the classifier pipeline reports such names (C01).
-/
import PauLieVerif.Proofs.C03Perm
import PauLieVerif.Properties.C03

namespace PauLie
namespace C03
open Closure Classify

/-- the path `XI - ZZ - IX`, enumerated from an end and from the middle -/
def pathEnd : List V := [[true, false, false, false], [false, true, false, true], [false, false, true, false]]
def pathMid : List V := [[false, true, false, true], [true, false, false, false], [false, false, true, false]]

/-- **`invOfClosure` is not an enumeration-independent invariant of arbitrary lists**: on the
(non-closed) path of three strings it answers `(1, 0, 2)` read from an end and `(3, 0, 1)` read from
the middle.  Hence the hypothesis "closed set" cannot be dropped from any statement of
order-independence of the full invariant. -/
theorem C03_invOfClosure_not_graphInvariant : ¬ GraphInvariant invOfClosure := by
  intro h
  have hp : pathEnd.Perm pathMid := List.Perm.swap _ _ _
  have := h.perm _ _ hp
  revert this
  decide +kernel

example : invOfClosure pathEnd = ⟨0, [(1, 0, 2)]⟩ ∧ invOfClosure pathMid = ⟨0, [(3, 0, 1)]⟩ := by decide +kernel

/-- `I` is a function of a finite commutator-CLOSED set with its commutation structure: independent
of the order of enumeration of a duplicate-free closed set, and unchanged by any relabelling of the
members that preserves the symplectic form -/
structure ClosedInvariant {α : Type} (I : List V → α) : Prop where
  perm : ∀ (n : Nat) (C C' : List V), ClosedSet n C → C.Nodup → C.Perm C' → I C = I C'
  map : ∀ (φ : V → V) (C : List V), (∀ x ∈ C, ∀ y ∈ C, omega (φ x) (φ y) = omega x y) → I (C.map φ) = I C

theorem GraphInvariant.closed {α : Type} {I : List V → α} (h : GraphInvariant I)
    (hmap : ∀ (φ : V → V) (C : List V), (∀ x ∈ C, ∀ y ∈ C, omega (φ x) (φ y) = omega x y) → I (C.map φ) = I C) :
    ClosedInvariant I :=
  ⟨fun _ C C' _ _ hp => h.perm C C' hp, hmap⟩

/-- **order-independence on closed sets** -/
theorem C03_full_perm {n : Nat} {C C' : List V} (hC : ClosedSet n C) (hnd : C.Nodup) (hp : C.Perm C') :
    invOfClosure C = invOfClosure C' :=
  invOfClosure_perm_closed hC hnd hp

/-- **the full invariant of any list is unchanged by a map that preserves the form on it** -/
theorem C03_full_invOfClosure_map {φ : V → V} {C : List V}
    (h : ∀ x ∈ C, ∀ y ∈ C, omega (φ x) (φ y) = omega x y) : invOfClosure (C.map φ) = invOfClosure C :=
  invOfClosure_map h

/-- **the checker's full invariant is an invariant of closed sets** -/
theorem closedInvariant_invOfClosure : ClosedInvariant invOfClosure :=
  ⟨fun _ _ _ hC hnd hp => invOfClosure_perm_closed hC hnd hp, fun _ _ h => invOfClosure_map h⟩

/-- what `closureList` returns is a duplicate-free closed set -/
theorem C03_closureList_closed {n : Nat} {G : List V} (hG : Uniform n G) :
    ClosedSet n (closureList G).1 ∧ (closureList G).1.Nodup :=
  ⟨closedSet_closureList hG, closureList_nodup G⟩

/-- **the verified enumerator commutes with a form map, as a list** -/
theorem C03_full_closure_map {n m : Nat} {φ : V → V} (hφ : FormMap n m φ) {G : List V} (hG : Uniform n G) :
    (closureList (G.map φ)).1 = (closureList G).1.map φ :=
  closureList_map hφ hG

/-- **generating sets with the same closure have the same full invariant** (reordering,
duplication, contraction with an anticommuting generator, added product - `C03_contract`,
`C03_add_product`, `C03_spec_same_members` give the hypothesis) -/
theorem C03_full_same_closure {α : Type} {I : List V → α} (hI : ClosedInvariant I) {n : Nat} {G G' : List V}
    (hG : Uniform n G) (hG' : Uniform n G') (h : ∀ x, Clo G x ↔ Clo G' x) :
    I (closureList G).1 = I (closureList G').1 :=
  hI.perm n _ _ (closedSet_closureList hG) (closureList_nodup G) (closure_perm_of_clo_iff hG hG' h)

/-- **the full invariant is carried by every form map**, all n -/
theorem C03_full_invariant {n m : Nat} {φ : V → V} (hφ : FormMap n m φ) {G : List V} (hG : Uniform n G) :
    invOfClosure (closureList (G.map φ)).1 = invOfClosure (closureList G).1 := by
  rw [closureList_map hφ hG]
  apply invOfClosure_map
  have hlen : ∀ x ∈ (closureList G).1, x.length = 2 * n :=
    fun x hx => clo_length hG ((closureList_sound_complete hG).mp hx)
  exact fun x hx y hy => hφ.om x y (hlen x hx) (hlen y hy)

/-- **`C03_from_C01` for invariants of closed sets**: let `G'` be a re-presentation of `G` (its
closure is the image of the closure of `G` under a form map `φ`; `φ = id` for reordering,
duplication, contraction, added products).  If the report `r` on `G` equals `I` of the closure of
`G` and the report `r'` on `G'` equals `I` of the closure of `G'`, then `r = r'`. -/
theorem C03_from_C01_closed {α : Type} {I : List V → α} (hI : ClosedInvariant I) {n m : Nat} {φ : V → V}
    (hφ : FormMap n m φ) {G G' : List V} (hG : Uniform n G) (hG' : Uniform m G')
    (hrel : ∀ z, Clo G' z ↔ Clo (G.map φ) z) {r r' : α}
    (h1 : r = I (closureList G).1) (h2 : r' = I (closureList G').1) : r = r' := by
  have hlen : ∀ x ∈ (closureList G).1, x.length = 2 * n :=
    fun x hx => clo_length hG ((closureList_sound_complete hG).mp hx)
  rw [h1, h2, C03_full_same_closure hI hG' (uniform_map hφ hG) hrel, closureList_map hφ hG]
  exact (hI.map φ _ (fun x hx y hy => hφ.om x y (hlen x hx) (hlen y hy))).symm

/-- **a C03 failure is a C01 failure on one side, full invariant**: if the name reported on `G` and
the name reported on a re-presentation `G'` both have the invariants of the respective verified
closure, they have equal invariants - for all seven re-presentations of the property -/
theorem C03_from_C01_full {n m : Nat} {φ : V → V} (hφ : FormMap n m φ) {G G' : List V} (hG : Uniform n G)
    (hG' : Uniform m G') (hrel : ∀ z, Clo G' z ↔ Clo (G.map φ) z)
    {alg alg' : List Summand} (h1 : invOfName alg = invOfClosure (closureList G).1)
    (h2 : invOfName alg' = invOfClosure (closureList G').1) : invOfName alg = invOfName alg' :=
  C03_from_C01_closed closedInvariant_invOfClosure hφ hG hG' hrel h1 h2

/-- the seven re-presentations of the property, for the full invariant -/
theorem C03_full_instances {n : Nat} {G : List V} (hG : Uniform n G) :
    (∀ G' : List V, (∀ g, g ∈ G ↔ g ∈ G') →
      invOfClosure (closureList G').1 = invOfClosure (closureList G).1) ∧
    (∀ a b, a ∈ G → b ∈ G → omega a b = true →
      invOfClosure (closureList (replaceGen G a (Closure.add a b))).1 = invOfClosure (closureList G).1 ∧
      invOfClosure (closureList (Closure.add a b :: G)).1 = invOfClosure (closureList G).1) ∧
    (∀ p : List Nat, p.Perm (List.range n) →
      invOfClosure (closureList (G.map (reindex p))).1 = invOfClosure (closureList G).1) ∧
    (∀ σs : List (Letter → Letter), (∀ σ ∈ σs, IsRelabel σ) →
      invOfClosure (closureList (G.map (relabelAll (σs.map relabelBits)))).1 = invOfClosure (closureList G).1) ∧
    (∀ k : Nat, invOfClosure (closureList (G.map (padI k))).1 = invOfClosure (closureList G).1) := by
  refine ⟨?_, ?_, fun _ hp => C03_full_invariant (formMap_reindex hp) hG,
    fun _ hσ => C03_full_invariant (C03_relabel n hσ) hG, fun k => C03_full_invariant (formMap_padI n k) hG⟩
  · intro G' hm
    have hG' : Uniform n G' := fun g hg => hG g ((hm g).2 hg)
    exact (C03_full_same_closure closedInvariant_invOfClosure hG hG' (C03_spec_same_members hm)).symm
  · intro a b ha hb ho
    constructor
    · have hG' : Uniform n (replaceGen G a (Closure.add a b)) := by
        intro g hg
        rcases mem_replaceGen.mp hg with ⟨_, rfl⟩ | ⟨hg, _⟩
        · exact length_add_eq (hG a ha) (hG b hb)
        · exact hG g hg
      exact (C03_full_same_closure closedInvariant_invOfClosure hG hG' (C03_contract hG ha hb ho).1).symm
    · have hG' : Uniform n (Closure.add a b :: G) := by
        intro g hg
        rcases List.mem_cons.mp hg with rfl | hg
        · exact length_add_eq (hG a ha) (hG b hb)
        · exact hG g hg
      exact C03_full_same_closure closedInvariant_invOfClosure hG' hG (C03_add_product hG ha hb ho).1

/-! non-vacuity on `G = [XI, ZZ, IX]` (closure of 6 strings, `so(4)`): pad by one identity qubit, swap
the qubits, reverse the generators -/
example : invOfClosure (closureList (exV.map (padI 1))).1 = invOfClosure (closureList exV).1 :=
  C03_full_invariant (formMap_padI 2 1) (by decide)
example : (closureList (exV.map (reindex [1, 0]))).1 = (closureList exV).1.map (reindex [1, 0]) :=
  C03_full_closure_map C03_qubit_swap.1 (by decide)
example : invOfClosure (closureList exV.reverse).1 = invOfClosure (closureList exV).1 :=
  (C03_full_instances (n := 2) (G := exV) (by decide)).1 exV.reverse (fun g => by simp)
example : invOfClosure (closureList exV).1 = invOfName [⟨.SO, 4, 1⟩]
    ∧ (closureList exV.reverse).1 ≠ (closureList exV).1 := by decide +kernel

end C03
end PauLie
