/-
Property C15, the clauses about the *value* `1 - 2a/s`, stated over the exact
rationals (`otocValue`).  The implementation computes this quotient in floating
point; that last operation is outside the model and outside these theorems — they
say what the exact quotient of the model's integer pair satisfies.
(Mathlib is used only for the field arithmetic of `ℚ`.)
-/
import PauLieVerif.Properties.C15
import Mathlib.Tactic.FieldSimp
import Mathlib.Tactic.Linarith
import Mathlib.Tactic.Ring
import Mathlib.Data.Rat.Defs
import Mathlib.Algebra.Order.Field.Basic

namespace PauLie
namespace C15

open Closure Otoc Graph

/-- the exact value `1 - 2·a/s` of the pair returned by the model -/
def otocValue (a s : Nat) : ℚ := 1 - 2 * (a : ℚ) / (s : ℚ)

theorem otocValue_range {a s : Nat} (h1 : a ≤ s) (h2 : 1 ≤ s) :
    -1 ≤ otocValue a s ∧ otocValue a s ≤ 1 := by
  unfold otocValue
  have hs : (0 : ℚ) < s := by exact_mod_cast h2
  have ha : (a : ℚ) ≤ s := by exact_mod_cast h1
  have ha0 : (0 : ℚ) ≤ a := by exact_mod_cast Nat.zero_le a
  constructor
  · rw [neg_le_sub_iff_le_add, div_le_iff₀ hs]; linarith
  · have : 0 ≤ 2 * (a : ℚ) / s := by positivity
    linarith

theorem otocValue_eq {a s a' s' : Nat} (h2 : 1 ≤ s) (h2' : 1 ≤ s') (h : a * s' = a' * s) :
    otocValue a s = otocValue a' s' := by
  unfold otocValue
  have hs : (s : ℚ) ≠ 0 := by exact_mod_cast (by omega : s ≠ 0)
  have hs' : (s' : ℚ) ≠ 0 := by exact_mod_cast (by omega : s' ≠ 0)
  have hq : (a : ℚ) * s' = a' * s := by exact_mod_cast h
  field_simp
  linarith

/-- "lies in [-1,1]" -/
theorem C15_value_range {n : Nat} {G : List PS} (hG : C14.Uniform n G) {v w : PS}
    (hv : v.WF ∧ v.len = n) (hw : w.WF ∧ w.len = n) :
    ∃ R, averageOtoc G v w = .ok R ∧ -1 ≤ otocValue R.anti R.size ∧ otocValue R.anti R.size ≤ 1 := by
  obtain ⟨R, h, h1, h2, _⟩ := C15_range hG hv hw
  exact ⟨R, h, otocValue_range h1 h2⟩

/-- "the OTOC is symmetric in V and W" -/
theorem C15_value_symmetric {n : Nat} {G : List PS} (hG : C14.Uniform n G) {v w : PS}
    (hv : v.WF ∧ v.len = n) (hw : w.WF ∧ w.len = n) :
    ∃ R R', averageOtoc G v w = .ok R ∧ averageOtoc G w v = .ok R' ∧
      otocValue R.anti R.size = otocValue R'.anti R'.size := by
  obtain ⟨R, R', h, h', hs⟩ := C15_symmetry hG hv hw
  obtain ⟨R1, g, _, g2, _⟩ := C15_range hG hv hw
  obtain ⟨R1', g', _, g2', _⟩ := C15_range hG hw hv
  rw [h] at g; cases g
  rw [h'] at g'; cases g'
  exact ⟨R, R', h, h', otocValue_eq g2 g2' hs⟩

/-- "equals +-1 when V commutes with all of G" -/
theorem C15_value_commuting {n : Nat} {G : List PS} (hG : C14.Uniform n G) {v w : PS}
    (hv : v.WF ∧ v.len = n) (hw : w.WF ∧ w.len = n)
    (hc : ∀ g, g ∈ G → omega v.bits g.bits = false) :
    ∃ R, averageOtoc G v w = .ok R ∧
      otocValue R.anti R.size = if omega w.bits v.bits then -1 else 1 := by
  obtain ⟨_, R, h, hs, ha⟩ := C15_commuting hG hv hw hc
  refine ⟨R, h, ?_⟩
  rw [hs, ha]
  unfold otocValue
  cases omega w.bits v.bits <;> norm_num

/-- the value does not depend on the generating set of the algebra -/
theorem C15_value_generator_independent {n : Nat} {G G' : List PS} (hG : C14.Uniform n G)
    (hG' : C14.Uniform n G') (hclo : ∀ x, Clo (bitsOf G) x ↔ Clo (bitsOf G') x) {v w : PS}
    (hv : v.WF ∧ v.len = n) (hw : w.WF ∧ w.len = n) :
    ∃ R R', averageOtoc G v w = .ok R ∧ averageOtoc G' v w = .ok R' ∧
      otocValue R.anti R.size = otocValue R'.anti R'.size := by
  obtain ⟨_, ⟨R, R', h, h', ha, hs⟩, _⟩ := C15_generator_independence hG hG' hclo hv hw
  exact ⟨R, R', h, h', by rw [ha, hs]⟩

example : otocValue 2 3 = -1 / 3 := by norm_num [otocValue]

end C15
end PauLie
