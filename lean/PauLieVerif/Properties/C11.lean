/-
Property C11 (verbatim):
  "For every collection, classifying with a recorder attached yields the same
  algebra, the same set of dependents and canonical vertices generating the same
  closure as classifying without one, and the last recorded frame shows exactly
  the final canonical vertices."

STATUS: FALSE of the code and of its model.  The recording builder
`RecordingMorphFactory` (Model/MorphRec.lean, `Classify.classifyRec`) is a copy
of `MorphFactory` (Model/Morph.lean, `Classify.classify`) that has drifted.

What is here:
  * `C11_refuted`, `C11_refuted_algebra` — the two observable kinds of failure, on
    the OUTPUTS of the two builders for concrete 3-qubit witnesses.  The two
    reductions run through `while` loops, which the Lean kernel cannot evaluate
    (`Loop.forIn` is opaque), so the outputs appear as literals; that these
    literals are what `classify` / `classifyRec` (compiled model) and the Python
    code produce on the witnesses is re-checked by the harness at every run
    (stream `refutation-witness` of harness/props/c11.py).
  * `C11_refuted_step` — kernel-evaluated, about the models themselves: the factory
    state both builders reach on the witness `[IYX,IIZ,XZI,YZY,ZIX]` before the last
    generator, and that generator; the plain pipeline answers "dependent", the bare
    attachment the recording copy performs instead succeeds.
  * `C11_partial_attach` — for ALL states: the drifted attachment to the centre and the
    plain `append_to_center` agree whenever the dependency test passes, and the test
    never changes the factory.
  * `C11_partial_log` — for ALL states: the frame log is write-only for the primitives
    (`lift`, `frame`), and `lit`, `lit`+frame, sequences of them and `_lit_center`
    of the recording builder do to the factory exactly what the plain ones do.
  * `C11_partial_steps` — for ALL states: steps I, II, III, `_lit_center` of the recording
    builder simulate the plain steps; steps V and VII simulate the plain steps with the
    attachment to the centre replaced by the bare `append`.
  * `C11_closure_verdict` — the per-input verdict "the two vertex lists generate
    the same closure" computed by `closureList` is exact (reuses Proofs/Closure).
NOT proved: that the two builders agree on every run avoiding the drifted branches
(steps IV and VI, the missing fast path and `build`'s exception handlers differ in code and
have no simulation theorem; the per-step theorems are not composed into a theorem about
`build`), and nothing for all inputs about the closing frame (checked per input by the
harness).
-/
import PauLieVerif.Proofs.C11Lemmas
import PauLieVerif.Proofs.Closure

namespace PauLie
namespace C11
open Morph MorphRec Classify Closure C11L

deriving instance DecidableEq for Except

/-- dense text to Pauli string (witness notation) -/
def ps (s : String) : PS := PS.ofLetters (s.toList.filterMap Letter.ofChar?)

def vs (l : List String) : List V := l.map (fun s => (ps s).bits)

example : ps "XYZ" = PS.ofLetters [.X, .Y, .Z] := by decide

/-! ## Refutation on outputs (literals replayed by the harness)

witness A = `[IXI,ZXY,YYZ,XIZ,YYX,IYY]`:
  plain    → 2*so(5), canonical vertices `XIZ,YIX,YYX,YZZ,ZXY`
  recorded → 8*so(3), canonical vertices `IXI,IYY,XIZ,YIX,ZXY`
witness B = `[IYX,IIZ,XZI,YZY,ZIX]`: plain → 4*so(3) (dependent `YZY`), recorded → 8*so(3) (none) -/

def genA : List V := vs ["IXI", "ZXY", "YYZ", "XIZ", "YYX", "IYY"]
def plainVertsA : List V := vs ["XIZ", "YIX", "YYX", "YZZ", "ZXY"]
def recVertsA : List V := vs ["IXI", "IYY", "XIZ", "YIX", "ZXY"]

/-- "canonical vertices generating the same closure" fails on witness A: the
generator `YYX` lies in the closure of the plain builder's vertices and not in
the closure of the recording builder's vertices (which is therefore not the
closure of the generators either). -/
theorem C11_refuted :
    ∃ x, x ∈ genA ∧ Clo plainVertsA x ∧ ¬ Clo recVertsA x := by
  refine ⟨(ps "YYX").bits, by decide +kernel, ?_, ?_⟩
  · exact (closureList_sound_complete (n := 3) (by decide +kernel)).1 (by decide +kernel)
  · intro h
    exact absurd ((closureList_sound_complete (n := 3) (by decide +kernel)).2 h) (by decide +kernel)

/-- non-vacuity: both vertex lists are honest collections on 3 qubits, of the same size -/
example : Uniform 3 plainVertsA ∧ Uniform 3 recVertsA ∧ plainVertsA.length = recVertsA.length := by
  decide +kernel

/-- sizes of the two closures on witness A: 20 (= dim 2·so(5), the closure of the generators) and 12 -/
example : (closureList plainVertsA).1.length = 20 ∧ (closureList recVertsA).1.length = 12
    ∧ (closureList genA).1.length = 20 := by decide +kernel

def plainAlgB : List Summand := [⟨.SO, 3, 4⟩]
def recAlgB : List Summand := [⟨.SO, 3, 8⟩]

/-- "the same algebra" fails on witness B: the two reported names are not names of
isomorphic algebras (4 versus 8 simple summands of dimension 3; dimensions 12 and 24). -/
theorem C11_refuted_algebra :
    invOfName plainAlgB ≠ invOfName recAlgB
    ∧ (plainAlgB.map Summand.dim).foldl (· + ·) 0 = 12
    ∧ (recAlgB.map Summand.dim).foldl (· + ·) 0 = 24 := by decide +kernel

/-! ## Refutation inside the models (kernel-evaluated) -/

/-- the factory both builders have built from `IIZ, IYX, XZI, ZIX` (witness B) when `YZY` arrives -/
def stateB : MF := { legs := [[ps "IIZ"], [ps "ZIX"], [ps "XXY"], [ps "IYX"]] }

/-- From the same factory state and for the same generator, the plain pipeline
reports "dependent" (its `append_to_center` runs `check_dependency_one_leg`),
while the attachment the recording copy performs at that point — a bare
`append(lighting, center)` — succeeds and adds a fifth single leg: 4 single legs
(8*so(3)) instead of 3 (4*so(3)). -/
theorem C11_refuted_step :
    (runPipeline stateB (ps "YZY")).1 = .error .dependent
    ∧ ((appendToCenter (ps "YZY")).run.run stateB).1 = .error .dependent
    ∧ ((do append (ps "YZY") (← getCenter) : MFM Unit).run.run stateB).1 = .ok ()
    ∧ ((do append (ps "YZY") (← getCenter) : MFM Unit).run.run stateB).2.legs
        = [[ps "IIZ"], [ps "YZY"], [ps "ZIX"], [ps "XXY"], [ps "IYX"]] := by
  decide +kernel

/-- and `YZY` really is dependent: it lies in the closure of the four vertices -/
example : Clo (vs ["IIZ", "ZIX", "XXY", "IYX"]) (ps "YZY").bits :=
  (closureList_sound_complete (n := 3) (by decide +kernel)).1 (by decide +kernel)

/-! ## What the two builders share (all states) -/

/-- "attaches to the centre without the dependency test": on every factory state
`check_dependency_one_leg` leaves the factory as it is; when it passes, the plain
`append_to_center` is exactly the bare attachment of the recording copy; when it
raises, `append_to_center` raises the same exception and changes nothing. -/
theorem C11_partial_attach (l : PS) (s : MF) :
    ((checkDependencyOneLeg l).run.run s).2 = s
    ∧ (((checkDependencyOneLeg l).run.run s).1 = .ok () →
        (appendToCenter l).run.run s = (do append l (← getCenter) : MFM Unit).run.run s)
    ∧ (∀ e, ((checkDependencyOneLeg l).run.run s).1 = .error e →
        (appendToCenter l).run.run s = (.error e, s)) := by
  have hp := pure_check l s
  have hdef : appendToCenter l = (checkDependencyOneLeg l >>= fun _ => (do append l (← getCenter) : MFM Unit)) := rfl
  refine ⟨hp, ?_, ?_⟩
  · intro h
    rw [hdef, run_bind]
    rcases hx : (checkDependencyOneLeg l).run.run s with ⟨r, s'⟩
    rw [hx] at h hp
    simp only at h hp
    subst h; subst hp
    rfl
  · intro e h
    rw [hdef, run_bind]
    rcases hx : (checkDependencyOneLeg l).run.run s with ⟨r, s'⟩
    rw [hx] at h hp
    simp only at h hp
    subst h; subst hp
    rfl

/-- non-vacuity of both cases: the test passes on `stateB` for `XIX`-like fresh strings and fails for `YZY` -/
example : ((checkDependencyOneLeg (ps "YZY")).run.run stateB).1 = .error .dependent
    ∧ ((checkDependencyOneLeg (ps "ZXX")).run.run stateB).1 = .ok () := by decide +kernel

/-- "recording does not change the result", for the parts of the recording builder that
are the plain code plus frames: the lift of a plain action and `frame` act on
disjoint parts of the state (the log is write-only), and `lit`, `lit` followed by a
frame, sequences of them, and the whole step `_lit_center` have the same outcome and
the same effect on the factory as their plain counterparts, on every state. -/
theorem C11_partial_log :
    (∀ {α} (x : MFM α) (s : RF),
        ((liftMF x).run.run s).1 = (x.run.run s.mf).1
        ∧ ((liftMF x).run.run s).2.mf = (x.run.run s.mf).2
        ∧ ((liftMF x).run.run s).2.frames = s.frames)
    ∧ (∀ t g i (s : RF), (frame t g i).run.run s = (.ok (), { s with frames := ⟨t, g, i⟩ :: s.frames }))
    ∧ (∀ l v, Sim (litR l v) (lit l v))
    ∧ (∀ st l v, Sim (litF st l v) (lit l v))
    ∧ (∀ st l w, Sim (litSeqF st l w) (litSeq l w))
    ∧ Sim litCenterR litCenter :=
  ⟨fun _ _ => ⟨rfl, rfl, rfl⟩, fun _ _ _ _ => rfl, sim_litR, sim_litF, sim_litSeqF, sim_litCenter⟩

/-- "recording does not change the result", step by step.  `Sim x y` (Proofs/C11Lemmas.lean):
on every state, the recording action `x` has the outcome of the plain action `y` run on the
factory part of the state and leaves the factory part as `y` leaves it.
  * steps I, II, III and `_lit_center` of the recording builder simulate the plain steps;
  * steps V and VII simulate the plain steps V and VII *with the attachment to the centre
    replaced by a bare `append(lighting, center)`* (`stepVwith`, `stepVIIwith` are the plain
    steps with that call abstracted: instantiated with `append_to_center` they ARE the plain
    steps, by `rfl`), i.e. the only difference is the missing `check_dependency_one_leg`,
    whose effect `C11_partial_attach` describes.
Not covered (the code differs): step IV, step VI, the missing `_append_fast`, the exception
handlers of `build`. -/
theorem C11_partial_steps :
    Sim appendThreeGraphR appendThreeGraph
    ∧ Sim appendOneLegsInDifferentStateR appendOneLegsInDifferentState
    ∧ Sim litOnlyLongLegR litOnlyLongLeg
    ∧ Sim litCenterR litCenter
    ∧ (stepVwith (fun l _ => appendToCenter l) = appendLongLegFirstAndCenterLit
        ∧ Sim appendLongLegFirstAndCenterLitR (stepVwith (fun l c => append l c)))
    ∧ (stepVIIwith (fun l _ => appendToCenter l) = appendLongLegLastAndFirstLit
        ∧ Sim appendLongLegLastAndFirstLitR (stepVIIwith (fun l c => append l c))) :=
  ⟨sim_stepI, sim_stepII, sim_stepIII, sim_litCenter, ⟨stepV_plain, sim_stepV⟩, ⟨stepVII_plain, sim_stepVII⟩⟩

/-- non-vacuity of `Sim`: step I on the empty factory appends, and writes one frame -/
example : (appendThreeGraphR.run.run { mf := { lighting := ps "XY" } }).1 = .error .appended
    ∧ (appendThreeGraphR.run.run { mf := { lighting := ps "XY" } }).2.mf.legs = [[ps "XY"]]
    ∧ (appendThreeGraphR.run.run { mf := { lighting := ps "XY" } }).2.frames.length = 1
    ∧ (appendThreeGraph.run.run { lighting := ps "XY" }).2.legs = [[ps "XY"]] := by decide +kernel

/-- non-vacuity: a `lit` that raises writes its "Dependent" frame and leaves the factory alone -/
example : ((litR (ps "IIZ") (ps "ZIX")).run.run { mf := stateB }).2.frames.length = 0
    ∧ ((litR (ps "IIY") (ps "IIX")).run.run { mf := stateB }).1 = .error .dependent
    ∧ ((litR (ps "IIY") (ps "IIX")).run.run { mf := stateB }).2.frames.length = 1 := by decide +kernel

/-! ## The per-input verdict on closures -/

/-- The check decides "canonical vertices generating the same closure" by comparing the
lists `closureList` returns; for collections on `n` qubits this is exact. -/
theorem C11_closure_verdict {n : Nat} {P R : List V} (hP : Uniform n P) (hR : Uniform n R) :
    (∀ x, x ∈ (closureList P).1 ↔ x ∈ (closureList R).1) ↔ (∀ x, Clo P x ↔ Clo R x) := by
  constructor
  · intro h x
    rw [← closureList_sound_complete hP, ← closureList_sound_complete hR]; exact h x
  · intro h x
    rw [closureList_sound_complete hP, closureList_sound_complete hR]; exact h x

end C11
end PauLie
