/-
Property C07, about the model `Compiler.universalSet` of
`construct_universal_set` (`Model/Compiler.lean`):

  "For every N>=3 and every 2<=k<N the universal generating set consists of
   exactly 2N+1 distinct Pauli strings of length N whose commutator closure is
   the set of all 4^N-1 non-identity strings, and the library's own classifier
   reports su(2^N) for it."

Status: the size / distinctness / length clause is PROVED for all `N`, `k`
(`C07_size`); the generation clause is REFUTED for every odd `k ≥ 3` and every
`N > k` (`C07_refuted_odd`, hence `C07_refuted`); for even `k` generation is
kernel-checked for `N ≤ 4` here (`C07_even_partial`) and PROVED for every even
`k` and every `N` in `Properties/C07Even.lean` (`C07_even_universal`,
`C07_generation_iff_even`: generation holds iff `k` is even).  The classifier
clause is not a Lean statement; the harness evaluates it on the implementation.

Vocabulary: `Closure.Clo G` is the commutator closure on interleaved bit lists
(`Spec/Clo.lean`); a Pauli string `p` is represented there by `p.bits`.
-/
import PauLieVerif.Proofs.C07Size
import PauLieVerif.Proofs.C07Quad
import PauLieVerif.Proofs.C07Anchors
import PauLieVerif.Proofs.C07Anchor42

namespace PauLie
namespace C07

open Compiler Closure

/-- the bit list of the identity on `N` sites -/
abbrev zeroV (N : Nat) : V := List.replicate (2 * N) false

/-- the full-strength statement of C07 (without the classifier clause) -/
def C07_statement : Prop :=
  ∀ N k : Nat, 3 ≤ N → 2 ≤ k → k < N →
    ∃ U : List PS, universalSet (N : Int) (k : Int) = .ok U ∧
      U.length = 2 * N + 1 ∧ U.Nodup ∧ (∀ p ∈ U, p.WF ∧ p.len = N) ∧
      ∀ v : V, v.length = 2 * N → v ≠ zeroV N → Clo (U.map (·.bits)) v

/-- **closed form**: for `1 ≤ k < N` the model returns, in this order,
`X_i⊗I, Z_i⊗I (i<k)`, `Z…Z⊗I`, `X_0⊗X_j (j<N-k)`, `X_0⊗Z_j (j<N-k)`. -/
theorem universalSet_eq (N k : Nat) (h1 : 1 ≤ k) (h2 : k < N) :
    universalSet (N : Int) (k : Int) = .ok ((uLetters N k).map PS.ofLetters) :=
  universalSet_ok N k h1 h2

example : universalSet 3 2 = .ok ([[.X, .I, .I], [.Z, .I, .I], [.I, .X, .I], [.I, .Z, .I], [.Z, .Z, .I],
    [.X, .I, .X], [.X, .I, .Z]].map PS.ofLetters) := universalSet_eq 3 2 (by decide) (by decide)

/-- **guard**: outside `1 ≤ k < N` the model (like the code) raises ValueError. -/
theorem C07_guard (N k : Int) (h : ¬ (1 ≤ k ∧ k < N)) : universalSet N k = .error .valueError :=
  universalSet_guard N k h

example : universalSet 3 3 = .error .valueError := C07_guard 3 3 (by decide)

/-- **C07, size clause** ("exactly 2N+1 distinct Pauli strings of length N"), all
`N` and all `2 ≤ k < N`. -/
theorem C07_size (N k : Nat) (hk : 2 ≤ k) (hkN : k < N) :
    ∃ U : List PS, universalSet (N : Int) (k : Int) = .ok U ∧
      U.length = 2 * N + 1 ∧ U.Nodup ∧ ∀ p ∈ U, p.WF ∧ p.len = N := by
  refine ⟨_, universalSet_ok N k (by omega) hkN, ?_, ?_, ?_⟩
  · rw [List.length_map, length_uLetters N k (by omega)]
  · exact (nodup_uLetters hk).map ofLetters_injective
  · intro p hp
    obtain ⟨w, hw, rfl⟩ := List.mem_map.mp hp
    exact ⟨C18.wf_ofLetters w, by rw [C18.len_ofLetters, length_of_mem_uLetters (by omega) hw]⟩

example : ∃ U : List PS, universalSet 5 3 = .ok U ∧ U.length = 11 ∧ U.Nodup := by
  obtain ⟨U, h1, h2, h3, _⟩ := C07_size 5 3 (by decide) (by decide)
  exact ⟨U, h1, h2, h3⟩

/-- the bound `2 ≤ k` of the distinctness clause is sharp: at `k = 1` the code
lists `Z⊗I` twice (`Z_0` and `Z…Z` coincide) -/
theorem C07_size_k1_duplicates :
    ∃ U : List PS, universalSet 3 1 = .ok U ∧ U.length = 7 ∧ ¬ U.Nodup :=
  ⟨_, universalSet_ok 3 1 (by decide) (by decide), by decide, by decide⟩

/-- the generators as bit lists are uniform of length `2N` -/
theorem uniform_uBits (N k : Nat) (hkN : k ≤ N) :
    Uniform N (((uLetters N k).map PS.ofLetters).map (·.bits)) := by
  intro g hg
  simp only [List.map_map, List.mem_map, Function.comp] at hg
  obtain ⟨w, hw, rfl⟩ := hg
  simp [PS.ofLetters, PS.ofBits, C18.encode_length, length_of_mem_uLetters hkN hw]

/-- **the invariant** (odd `k`): every string in the commutator closure of the
universal set has `Q = 1`. -/
theorem Q_invariant_odd (N k : Nat) (hodd : k % 2 = 1) (hkN : k ≤ N) {x : V}
    (hx : Clo (((uLetters N k).map PS.ofLetters).map (·.bits)) x) : Q k x = true := by
  refine Q_closure (uniform_uBits N k hkN) ?_ hx
  intro g hg
  simp only [List.map_map, List.mem_map, Function.comp] at hg
  obtain ⟨w, hw, rfl⟩ := hg
  show Q k (encode w) = true
  rw [Q_encode, QL_uLetters hodd hw]

/-- **C07 refuted for every odd `k`** (`3 ≤ k < N`, every `N`): the closure of the
universal set is a proper subset of the non-identity strings — `X` on the first
right site (`X_{k+1}`) is a non-identity string of length `N` that is not
generated; indeed nothing with `Q = 0` is. -/
theorem C07_refuted_odd (N k : Nat) (hodd : k % 2 = 1) (hkN : k < N) :
    ∃ U : List PS, universalSet (N : Int) (k : Int) = .ok U ∧
      (∀ x, Clo (U.map (·.bits)) x → Q k x = true) ∧
      ∃ v : V, v = (PS.ofLetters (single N k .X)).bits ∧ v.length = 2 * N ∧ v ≠ zeroV N ∧
        ¬ Clo (U.map (·.bits)) v := by
  refine ⟨_, universalSet_ok N k (by omega) hkN, fun x hx => Q_invariant_odd N k hodd (by omega) hx,
    _, rfl, ?_, ?_, ?_⟩
  · simp [PS.ofLetters, PS.ofBits, C18.encode_length]
  · intro h
    have h1 : Q 0 (PS.ofLetters (single N k .X)).bits = Q 0 (zeroV N) := by rw [h]
    have hz : ∀ n, Q 0 (List.replicate (2 * n) false) = false := by
      intro n
      induction n with
      | zero => rfl
      | succ n ih =>
        have : 2 * (n + 1) = (2 * n) + 1 + 1 := by omega
        rw [this, List.replicate_succ, List.replicate_succ]
        simp [Q, ih]
    -- compare a letter instead: the texts differ at site k
    have h2 : (PS.ofLetters (single N k .X)).letters = (PS.ofBits (zeroV N)).letters := by
      show decode (PS.ofLetters (single N k .X)).bits = decode (zeroV N)
      rw [h]
    rw [C18.letters_ofLetters] at h2
    have h3 : (PS.ofBits (zeroV N)).letters = ident N := by
      show decode (List.replicate (2 * N) false) = _
      rw [← C18.encode_replicate_I, C18.decode_encode]
    rw [h3] at h2
    exact single_ne_ident hkN (by decide) h2
  · intro hc
    have := Q_invariant_odd N k hodd (by omega) hc
    have h0 : Q k (PS.ofLetters (single N k .X)).bits = false := by
      show Q k (encode (single N k .X)) = false
      rw [Q_encode, QL_single_right k N _ hkN (by decide)]
    rw [h0] at this
    cases this

/-- **C07 is false** of the model (and of the code, see the harness): `(N,k) = (4,3)`. -/
theorem C07_refuted : ¬ C07_statement := by
  intro h
  obtain ⟨U, hU, _, _, _, hgen⟩ := h 4 3 (by decide) (by decide) (by decide)
  obtain ⟨U', hU', _, v, _, hlen, hne, hnot⟩ := C07_refuted_odd 4 3 (by decide) (by decide)
  rw [hU] at hU'
  cases hU'
  exact hnot (hgen v hlen hne)

/-! ### concrete anchors through the verified closure checker -/

/-- **anchor `(N,k) = (4,3)`**, independent of the quadratic form: the verified
closure checker enumerates 136 of the 255 non-identity strings and `IIIX` is not
among them. -/
theorem C07_anchor_4_3 :
    (closureList (uBits 4 3)).1.length = 136 ∧
    ¬ Clo (uBits 4 3) (PS.ofLetters [.I, .I, .I, .X]).bits := by
  refine ⟨(of_scan scan_4_3).1, fun h => ?_⟩
  have hU : Uniform 4 (uBits 4 3) := uniform_uBits 4 3 (by decide)
  exact (of_scan scan_4_3).2 ((closureList_sound_complete hU).2 h)

/-- pigeonhole: a duplicate-free list of `4^N - 1` non-identity strings of
length `2N` contains every non-identity string of that length -/
theorem all_of_count {N : Nat} {l : List V} (hnd : l.Nodup) (hlen : ∀ x ∈ l, x.length = 2 * N)
    (hz : zeroV N ∉ l) (hc : l.length = 4 ^ N - 1) {v : V} (hv : v.length = 2 * N)
    (hne : v ≠ zeroV N) : v ∈ l := by
  refine Classical.byContradiction fun hnot => ?_
  have hnd' : (v :: zeroV N :: l).Nodup := by
    rw [List.nodup_cons, List.nodup_cons]
    refine ⟨?_, hz, hnd⟩
    simp only [List.mem_cons, not_or]
    exact ⟨hne, hnot⟩
  have hle := length_le_of_nodup_bits (2 * N) (v :: zeroV N :: l) hnd' (by
    intro x hx
    simp only [List.mem_cons] at hx
    rcases hx with rfl | rfl | hx
    · exact hv
    · simp [zeroV]
    · exact hlen x hx)
  have h4 : 2 ^ (2 * N) = 4 ^ N := by rw [Nat.pow_mul]
  have hpos : 0 < 4 ^ N := Nat.pow_pos (by decide)
  simp only [List.length_cons, hc, h4] at hle
  omega

/-- generation from a successful run of the verified checker -/
theorem generates_of_count {N k : Nat} (hkN : k ≤ N)
    (hc : (closureList (uBits N k)).1.length = 4 ^ N - 1)
    (hz : zeroV N ∉ (closureList (uBits N k)).1) :
    ∀ v : V, v.length = 2 * N → v ≠ zeroV N → Clo (uBits N k) v := by
  intro v hv hne
  have hU : Uniform N (uBits N k) := uniform_uBits N k hkN
  refine (closureList_sound_complete hU).1 (all_of_count (closureList_nodup _) ?_ hz hc hv hne)
  intro x hx
  exact clo_length hU ((closureList_sound_complete hU).1 hx)

/-- **C07, generation clause, partial**: for the even block sizes with `N ≤ 4`
(`(3,2)`, `(4,2)`) the closure of the universal set is the set of all
non-identity strings, by kernel evaluation of the verified closure checker.
Every even `k` for every `N` is proved in `Properties/C07Even.lean`
(`C07_even_universal`); this theorem is kept as an independent anchor. -/
theorem C07_even_partial :
    (∀ v : V, v.length = 2 * 3 → v ≠ zeroV 3 → Clo (uBits 3 2) v) ∧
    (∀ v : V, v.length = 2 * 4 → v ≠ zeroV 4 → Clo (uBits 4 2) v) :=
  ⟨generates_of_count (by decide) (of_scan scan_3_2).1 (of_scan scan_3_2).2,
   generates_of_count (by decide) (of_scan scan_4_2).1 (of_scan scan_4_2).2⟩

end C07
end PauLie
