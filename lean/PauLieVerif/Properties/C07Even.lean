/-
Property C07, the POSITIVE half, about the model `Compiler.universalSet` of `construct_universal_set`:

  "For every N>=3 and every 2<=k<N the universal generating set consists of exactly 2N+1 distinct Pauli strings
   of length N whose commutator closure is the set of all 4^N-1 non-identity strings, …"

`Properties/C07.lean` proves the size clause for all `(N,k)` and REFUTES the generation clause for every odd
`k ≥ 3`.  This file proves the generation clause for EVERY EVEN `k` and EVERY `N`:

* `C07_even_universal`  — for every `N` and every even `2 ≤ k < N` the commutator closure `Closure.Clo` of the
  universal set is EXACTLY the set of non-identity strings of length `N` (both inclusions);
* `C07_even_count`      — hence the verified closure checker `Closure.closureList` lists exactly `4^N - 1` strings
  (the number the harness compares, now a theorem for all `N`);
* `C07_statement_even`  — the full-strength statement of C07 (without the classifier clause) restricted to even `k`;
* `C07_generation_iff_even` — together with `C07_refuted_odd`: for every `(N,k)` with `2 ≤ k < N` the universal set
  generates all non-identity strings **iff `k` is even**;
* named intermediate statements: `C07_even_left_block` (all `V ⊗ I…I`), `C07_even_single_right` (all `V ⊗ X_j`,
  `V ⊗ Z_j`), `C07_even_nonidentity_left` (all `V ⊗ W`, `V ≠ I`), `C07_even_identity_left` (all `I…I ⊗ W`).

The proof (`Proofs/C07Even.lean`) uses the connectivity of the left walk graph for even `k`
(`Proofs/CompilerEven.lean`, the fact behind `C06.left_graph_even_connected`) and an induction on the number of set
bits of the right block; it does not go through the compiler.  NOT a Lean statement: the classifier clause
("the library's own classifier reports su(2^N)") — evaluated on the implementation by the harness.

Vocabulary: `Closure.Clo G` is the commutator closure on interleaved bit lists (`Spec/Clo.lean`); a Pauli string
`p` is represented there by `p.bits`; a text `t : List Letter` by `encode t = (PS.ofLetters t).bits`.
-/
import PauLieVerif.Properties.C07
import PauLieVerif.Proofs.C07EvenCount

namespace PauLie
namespace C07

open Compiler Closure CompilerSearch

/-- `uBits N k` is the bit-list view of the set the model returns -/
theorem universalSet_bits (N k : Nat) (h1 : 1 ≤ k) (h2 : k < N) :
    ∃ U : List PS, universalSet (N : Int) (k : Int) = .ok U ∧ U.map (·.bits) = uBits N k :=
  ⟨_, universalSet_ok N k h1 h2, rfl⟩

/-- **all `V ⊗ I…I`, `V ≠ I`** are generated (every `N`, every even `k` with `1 ≤ k ≤ N`) -/
theorem C07_even_left_block (N k : Nat) (hk : 1 ≤ k) (heven : k % 2 = 0) (V : List Letter)
    (hV : V.length = k) (hn : V ≠ ident k) : Clo (uBits N k) (encode (V ++ ident (N - k))) := by
  have hN : hasN V = true := by
    cases h : hasN V with
    | true => rfl
    | false => exact absurd (hV ▸ eq_ident_of_hasN_false V h) hn
  refine tclo_all_left heven (length_single k 0 .X) hV (hasN_x0 hk) hN (by simp [ident]) (tclo_base ?_)
  simp only [uLetters, List.mem_append, List.mem_map]
  exact Or.inl ⟨_, x0_mem_left hk, rfl⟩

/-- non-vacuity: `YZ ⊗ I` at `(N,k) = (3,2)` -/
example : Clo (uBits 3 2) (encode [.Y, .Z, .I]) :=
  C07_even_left_block 3 2 (by decide) (by decide) [.Y, .Z] rfl (by decide)

/-- **all `V ⊗ X_j`, `V ⊗ Z_j`, `V ≠ I`** are generated (every `N`, every even `k` with `1 ≤ k`, `j < N - k`) -/
theorem C07_even_single_right (N k j : Nat) (l : Letter) (hk : 1 ≤ k) (heven : k % 2 = 0) (hj : j < N - k)
    (hl : l = Letter.X ∨ l = Letter.Z) (V : List Letter) (hV : V.length = k) (hn : V ≠ ident k) :
    Clo (uBits N k) (encode (V ++ single (N - k) j l)) := by
  have hN : hasN V = true := by
    cases h : hasN V with
    | true => rfl
    | false => exact absurd (hV ▸ eq_ident_of_hasN_false V h) hn
  exact tclo_single_right hk heven hj hl hV hN

example : Clo (uBits 4 2) (encode [.Y, .Z, .I, .Z]) :=
  C07_even_single_right 4 2 1 .Z (by decide) (by decide) (by decide) (Or.inr rfl) [.Y, .Z] rfl (by decide)

/-- **all `V ⊗ W`, `V ≠ I`** are generated (every `N`, every even `k ≥ 2`, every right block `W`) -/
theorem C07_even_nonidentity_left (N k : Nat) (hk : 2 ≤ k) (heven : k % 2 = 0) (V W : List Letter)
    (hV : V.length = k) (hW : W.length = N - k) (hn : V ≠ ident k) : Clo (uBits N k) (encode (V ++ W)) := by
  have hN : hasN V = true := by
    cases h : hasN V with
    | true => rfl
    | false => exact absurd (hV ▸ eq_ident_of_hasN_false V h) hn
  exact tclo_nonid_left hk heven _ W hW rfl V hV hN

example : Clo (uBits 4 2) (encode [.I, .Z, .Y, .Y]) :=
  C07_even_nonidentity_left 4 2 (by decide) (by decide) [.I, .Z] [.Y, .Y] rfl rfl (by decide)

/-- **all `I…I ⊗ W`, `W ≠ I`** are generated (every `N`, every even `k ≥ 2`) -/
theorem C07_even_identity_left (N k : Nat) (hk : 2 ≤ k) (heven : k % 2 = 0) (W : List Letter)
    (hW : W.length = N - k) (hn : W ≠ ident (N - k)) : Clo (uBits N k) (encode (ident k ++ W)) := by
  have hN : hasN W = true := by
    cases h : hasN W with
    | true => rfl
    | false => exact absurd (hW ▸ eq_ident_of_hasN_false W h) hn
  exact tclo_id_left hk heven W hW hN

example : Clo (uBits 4 2) (encode [.I, .I, .I, .Y]) :=
  C07_even_identity_left 4 2 (by decide) (by decide) [.I, .Y] rfl (by decide)

/-- **C07, generation clause, for EVERY even `k` and EVERY `N`** ("… whose commutator closure is the set of all
4^N-1 non-identity strings"): for `2 ≤ k < N`, `k` even, the set `U` the model returns satisfies
`Clo U v ↔ v is a non-identity string of length N` — every non-identity string is generated, and nothing else is. -/
theorem C07_even_universal (N k : Nat) (hk : 2 ≤ k) (hkN : k < N) (heven : k % 2 = 0) :
    ∃ U : List PS, universalSet (N : Int) (k : Int) = .ok U ∧
      ∀ v : V, Clo (U.map (·.bits)) v ↔ (v.length = 2 * N ∧ v ≠ zeroV N) := by
  refine ⟨_, universalSet_ok N k (by omega) hkN, fun v => ⟨fun h => ?_, fun h => ?_⟩⟩
  · exact clo_uBits_ne_zero (by omega) (by omega) h
  · exact clo_all hk (by omega) heven v h.1 h.2

/-- non-vacuity, and beyond the range `N ≤ 4` of `C07_even_partial` / `N ≤ 8` of the harness: `(N,k) = (40,6)` -/
example : ∃ U : List PS, universalSet 40 6 = .ok U ∧
    ∀ v : V, Clo (U.map (·.bits)) v ↔ (v.length = 2 * 40 ∧ v ≠ zeroV 40) :=
  C07_even_universal 40 6 (by decide) (by decide) (by decide)

/-- the same on texts: every non-identity Pauli text of length `N` is generated -/
theorem C07_even_universal_text (N k : Nat) (hk : 2 ≤ k) (hkN : k < N) (heven : k % 2 = 0) (t : List Letter)
    (ht : t.length = N) (hne : t ≠ ident N) : Clo (uBits N k) (PS.ofLetters t).bits := by
  have hN : hasN t = true := by
    cases h : hasN t with
    | true => rfl
    | false => exact absurd (ht ▸ eq_ident_of_hasN_false t h) hne
  exact tclo_all hk (by omega) heven t ht hN

example : Clo (uBits 5 4) (PS.ofLetters [.I, .I, .I, .I, .Y]).bits :=
  C07_even_universal_text 5 4 (by decide) (by decide) (by decide) _ rfl (by decide)

/-- **the count `4^N - 1`**: for even `k` the verified closure checker (the command `closure` of the native driver,
which the harness runs on the set the implementation prints) lists exactly `4^N - 1` strings, for every `N`. -/
theorem C07_even_count (N k : Nat) (hk : 2 ≤ k) (hkN : k < N) (heven : k % 2 = 0) :
    (closureList (uBits N k)).1.length = 4 ^ N - 1 ∧ (closureList (uBits N k)).2 = true := by
  have hU : Uniform N (uBits N k) := uniform_uBits' N k (by omega)
  refine ⟨card_nonidentity (closureList_nodup _) (fun v => ?_), closureList_exhausted hU⟩
  rw [closureList_sound_complete hU]
  exact ⟨fun h => clo_uBits_ne_zero (by omega) (by omega) h, fun h => clo_all hk (by omega) heven v h.1 h.2⟩

/-- agrees with the kernel-evaluated run of `C07_even_partial` at `(3,2)`: `63 = 4^3 - 1` -/
example : (closureList (uBits 3 2)).1.length = 63 := (C07_even_count 3 2 (by decide) (by decide) (by decide)).1

/-- **C07 holds for even `k`**: the full-strength statement `C07_statement` (size, distinctness, length, generation;
without the classifier clause) restricted to even `k`. -/
theorem C07_statement_even (N k : Nat) (hk : 2 ≤ k) (hkN : k < N) (heven : k % 2 = 0) :
    ∃ U : List PS, universalSet (N : Int) (k : Int) = .ok U ∧
      U.length = 2 * N + 1 ∧ U.Nodup ∧ (∀ p ∈ U, p.WF ∧ p.len = N) ∧
      ∀ v : V, v.length = 2 * N → v ≠ zeroV N → Clo (U.map (·.bits)) v := by
  obtain ⟨U, hU, h1, h2, h3⟩ := C07_size N k hk hkN
  obtain ⟨U', hU', hgen⟩ := C07_even_universal N k hk hkN heven
  rw [hU] at hU'
  cases hU'
  exact ⟨U, hU, h1, h2, h3, fun v hv hne => (hgen v).2 ⟨hv, hne⟩⟩

/-- **C07's generation clause is decided for every `(N,k)`, `2 ≤ k < N`: it holds iff `k` is even.** -/
theorem C07_generation_iff_even (N k : Nat) (hk : 2 ≤ k) (hkN : k < N) :
    (∃ U : List PS, universalSet (N : Int) (k : Int) = .ok U ∧
      ∀ v : V, v.length = 2 * N → v ≠ zeroV N → Clo (U.map (·.bits)) v) ↔ k % 2 = 0 := by
  constructor
  · rintro ⟨U, hU, hgen⟩
    rcases Nat.mod_two_eq_zero_or_one k with h | h
    · exact h
    · exfalso
      obtain ⟨U', hU', _, v, _, hlen, hne, hnot⟩ := C07_refuted_odd N k h hkN
      rw [hU] at hU'
      cases hU'
      exact hnot (hgen v hlen hne)
  · intro heven
    obtain ⟨U, hU, hgen⟩ := C07_even_universal N k hk hkN heven
    exact ⟨U, hU, fun v hv hne => (hgen v).2 ⟨hv, hne⟩⟩

example : ¬ ∃ U : List PS, universalSet 7 5 = .ok U ∧
    ∀ v : V, v.length = 2 * 7 → v ≠ zeroV 7 → Clo (U.map (·.bits)) v :=
  fun h => by have := (C07_generation_iff_even 7 5 (by decide) (by decide)).1 h; cases this

end C07
end PauLie
