/-
Property C01 - "the reported Lie algebra is isomorphic to the true dynamical Lie algebra" - second
half of the classification theorem: *a canonical star of a given type has the algebra the table
names*, proved here for ALL sizes as theorems about the commutator closure `Clo` on bit lists, for

  1. the pure single-leg star K_{1,k}  (table: 2^(k-1)·so(3), dimension 3·2^(k-1));
  2. the path P_m in ANY linearly independent realisation (table: so(m+1)) - this generalises
     `C19_a1` from the strings `I^k X Y I^(n-2-k)` to every realisation;
  3. type A in general: k ≥ 1 single legs and a long leg of length r (table: 2^(k-1)·so(r+3),
     dimension 2^(k-1)·(r+3)(r+2)/2), with the explicit closed form of the closure;

together with the bridge to the proved half (`C02_closure_partial`: the canonical vertices generate
the closure of the generators under the per-input guard): for an input whose guarded reduction ends
in such a star with linearly independent vertices, `get_dla_dim` = |Clo(generators)| is PROVED.

Independence, the star relations and the guard are executable hypotheses (`starB`, `typeAB`,
`guardsHold`).
`Proofs/C01SpanGauss.lean` also proves the F2 elimination `Morph.inSpan` (the span test of the
repaired `check_dependency_one_leg`) correct: `C01Star_inSpan`.

NOT proved here: the B types; that the guards never fail; that canonical vertices are always
independent (both are hypotheses, decidable per input at any size).
-/
import PauLieVerif.Proofs.C01StarCount
import PauLieVerif.Proofs.C01StarSub
import PauLieVerif.Proofs.C01StarModel
import PauLieVerif.Proofs.C01SpanGauss
import PauLieVerif.Proofs.C01TypeAList
import PauLieVerif.Properties.C02

namespace PauLie
namespace C01Star
open Closure Classify

/-! ## 0. the span test -/

/-- the elimination of `check_dependency_one_leg` decides membership in the F2 span: on strings of
one length, `inSpan vs x` holds exactly when `x` is the product (up to phase) of a subset of `vs` -/
theorem C01Star_inSpan {m : Nat} {vs : List V} {x : V} (hvs : ∀ v ∈ vs, v.length = m) (hx : x.length = m) :
    Morph.inSpan vs x = true ↔ ∃ S, S.Sublist vs ∧ x = sumV m S := by
  rw [inSpan_iff hvs hx]
  exact exists_mask_iff_sublist (P := fun y => x = y)

/-- the executable independence test means linear independence over F2 -/
theorem C01Star_indepB {m : Nat} {vs : List V} (hvs : ∀ v ∈ vs, v.length = m) :
    indepB vs = true ↔ Indep m vs :=
  ⟨indepB_sound vs hvs, indepB_complete vs hvs⟩

/-! ## 1. the pure single-leg star -/

/-- **closure of K_{1,k}**: for a centre `c` and pairwise commuting leaves `ls` that all anticommute
with `c`, the `k+1` strings linearly independent: the commutator closure is exactly
`{c + ΣS : S ⊆ ls} ∪ {ΣS : S ⊆ ls, |S| odd}` -/
theorem C01Star_closure {m : Nat} {c : V} {ls : List V} (h : Star m c ls) (x : V) :
    Clo (c :: ls) x ↔
      (∃ S, S.Sublist ls ∧ x = add c (sumV m S)) ∨ (∃ S, S.Sublist ls ∧ S.length % 2 = 1 ∧ x = sumV m S) := by
  rw [h.clo_star x]
  exact or_congr (exists_mask_iff_sublist (P := fun y => x = add c y))
    (exists_oddmask_iff_sublist (P := fun y => x = y))

/-- the two families are disjoint, and inside each family the subset is determined by the string -/
theorem C01Star_unique {m : Nat} {c : V} {ls : List V} (h : Star m c ls) :
    (∀ x, InA m c ls x → InB m ls x → False) ∧
    (∀ a b : List Bool, a.length = ls.length → b.length = ls.length →
      add c (msum m a ls) = add c (msum m b ls) → a = b) ∧
    (∀ a b : List Bool, a.length = ls.length → b.length = ls.length →
      msum m a ls = msum m b ls → a = b) :=
  ⟨fun _ hA hB => h.disjoint hA hB, fun _ _ ha hb e => h.injA ha hb e, fun _ _ ha hb e => h.injB ha hb e⟩

/-- **size**: the closure of K_{1,k}, k ≥ 1, has exactly 2^k + 2^(k-1) = 3·2^(k-1) elements -/
theorem C01Star_size {n : Nat} {c : V} {ls : List V} (h : Star (2 * n) c ls) (k : Nat)
    (hk : ls.length = k + 1) : (closureList (c :: ls)).1.length = 3 * 2 ^ k :=
  h.card_clo k hk

/-- **centre**: no member of the closure commutes with the whole closure -/
theorem C01Star_centre {m : Nat} {c l : V} {ls : List V} (h : Star m c ls) (hl : l ∈ ls) {x : V}
    (hx : Clo (c :: ls) x) : ∃ y, Clo (c :: ls) y ∧ omega x y = true :=
  h.centre_empty hl hx

/-- **block structure** (2^(k-1) copies of so(3)).  With the signature
`sig x = (x anticommutes with c, x anticommutes with the leaf l)`:
 * the closure is the duplicate-free list `E ++ O ++ B` of three classes of 2^(k-1) strings each
   (`c + Σ even`, `c + Σ odd`, `Σ odd`), on which `sig` is (F,T), (T,T), (T,F);
 * two members anticommute exactly when they lie in different classes (the anticommutation graph of
   the closure is complete tripartite: the triangle of so(3), every vertex blown up 2^(k-1) times);
 * two members lie in the same class exactly when they differ by an even product of leaves, and
   the even products of leaves commute with the whole closure and translate it into itself
   (the algebra is so(3) ⊗ C[Z], Z the group of the 2^(k-1) even products). -/
theorem C01Star_blocks {m : Nat} {c l : V} {ls : List V} (h : Star m c ls) (hl : l ∈ ls) (k : Nat)
    (hk : ls.length = k + 1) :
    (∀ x, Clo (c :: ls) x ↔ x ∈ listA m c ls false ++ (listA m c ls true ++ listB m ls)) ∧
    (listA m c ls false ++ (listA m c ls true ++ listB m ls)).Nodup ∧
    (listA m c ls false).length = 2 ^ k ∧ (listA m c ls true).length = 2 ^ k ∧ (listB m ls).length = 2 ^ k ∧
    (∀ x ∈ listA m c ls false, Star.sig c l x = (false, true)) ∧
    (∀ x ∈ listA m c ls true, Star.sig c l x = (true, true)) ∧
    (∀ x ∈ listB m ls, Star.sig c l x = (true, false)) ∧
    (∀ x y, Clo (c :: ls) x → Clo (c :: ls) y → (omega x y = true ↔ Star.sig c l x ≠ Star.sig c l y)) ∧
    (∀ x y, Clo (c :: ls) x → Clo (c :: ls) y → (Star.sig c l x = Star.sig c l y ↔
      ∃ e : List Bool, e.length = ls.length ∧ par e = false ∧ y = add x (msum m e ls))) ∧
    (∀ e : List Bool, e.length = ls.length → par e = false → ∀ x, Clo (c :: ls) x →
      omega x (msum m e ls) = false ∧ Clo (c :: ls) (add x (msum m e ls))) := by
  refine ⟨fun x => (h.mem_starList_iff_clo x).symm, h.nodup_starList, Star.length_listA false k hk,
    Star.length_listA true k hk, Star.length_listB k hk, ?_, ?_, ?_, fun x y hx hy => h.omega_iff_sig hl hx hy,
    fun x y hx hy => h.sig_eq_iff hl hx hy, fun e he pe x hx => h.even_central e he pe hx⟩
  · intro x hx
    obtain ⟨a, ha, pa, rfl⟩ := mem_listA.1 hx
    rw [h.sig_A hl a ha, pa]
  · intro x hx
    obtain ⟨a, ha, pa, rfl⟩ := mem_listA.1 hx
    rw [h.sig_A hl a ha, pa]
  · intro x hx
    obtain ⟨a, ha, pa, rfl⟩ := mem_listB.1 hx
    exact h.sig_B hl a ha pa

/-! ### the executable form of the hypotheses -/

/-- executable check of the star hypotheses on bit lists -/
def starB (m : Nat) (c : V) (ls : List V) : Bool :=
  (c.length == m) && ls.all (fun l => (l.length == m) && omega c l && ls.all (fun l' => !omega l l'))
    && indepB (c :: ls)

theorem starB_sound {m : Nat} {c : V} {ls : List V} (h : starB m c ls = true) : Star m c ls := by
  simp only [starB, Bool.and_eq_true, beq_iff_eq, List.all_eq_true, Bool.not_eq_true'] at h
  obtain ⟨⟨h1, h2⟩, h3⟩ := h
  have hl : ∀ v ∈ c :: ls, v.length = m := by
    intro v hv
    rcases List.mem_cons.1 hv with rfl | hv
    · exact h1
    · exact (h2 v hv).1.1
  exact ⟨h1, fun l hl' => (h2 l hl').1.1, fun l hl' => (h2 l hl').1.2, fun l hl' l' hl'' => (h2 l hl').2 l' hl'',
    indepB_sound _ hl h3⟩

theorem starB_complete {m : Nat} {c : V} {ls : List V} (h : Star m c ls) : starB m c ls = true := by
  simp only [starB, Bool.and_eq_true, beq_iff_eq, List.all_eq_true, Bool.not_eq_true']
  refine ⟨⟨h.lc, fun l hl => ⟨⟨h.ll l hl, h.anti l hl⟩, fun l' hl' => h.comm l hl l' hl'⟩⟩, ?_⟩
  apply indepB_complete _ _ h.indep
  intro v hv
  rcases List.mem_cons.1 hv with rfl | hv
  · exact h.lc
  · exact h.ll v hv

/-! ### the model of the classifier on a pure single-leg star -/

/-- the legs of a pure single-leg star: the centre and one leg per leaf -/
def starLegs (c : PS) (ls : List PS) : List (List PS) := [c] :: ls.map (fun l => [l])

theorem starLegs_flatten (c : PS) (ls : List PS) : (starLegs c ls).flatten = c :: ls := by
  simp [starLegs, List.flatten_cons]
  induction ls with
  | nil => rfl
  | cons a t ih => simp [ih]

/-- **C01 for the pure single-leg star** (k ≥ 1 leaves; k = 1 is a single edge, so(3)): the model of
`get_algebra` reports `2^(k-1)·so(3)`, the model of `get_dla_dim` reports its dimension
`3·2^(k-1)`, and that is exactly the number of Pauli strings in the commutator closure of the
`k+1` vertices - for EVERY realisation of the star by linearly independent Pauli strings -/
theorem C01_star {n : Nat} {c : PS} {ls : List PS} (h : Star (2 * n) c.bits (C02.bitsOf ls)) (k : Nat)
    (hk : ls.length = k + 1) (deps unapp : List PS) (tags : List String) (complete : Bool) :
    summandsOf [⟨starLegs c ls, deps, unapp, tags, complete⟩] = .ok [⟨.SO, 3, 2 ^ k⟩] ∧
    dlaDimOfMorphs [⟨starLegs c ls, deps, unapp, tags, complete⟩] = .ok (3 * 2 ^ k) ∧
    (Summand.dim ⟨.SO, 3, 2 ^ k⟩ = 3 * 2 ^ k) ∧
    (closureList (C02.bitsOf (starLegs c ls).flatten)).1.length = 3 * 2 ^ k := by
  have hs : ∀ leg ∈ ls.map (fun l => [l]), leg.length = 1 := by
    intro leg hleg
    obtain ⟨l, _, rfl⟩ := List.mem_map.1 hleg
    rfl
  have hlegs : starLegs c ls = [c] :: (ls.map (fun l => [l]) ++ []) := by simp [starLegs]
  have hkk : (ls.map (fun l => [l])).length = k + 1 := by simp [hk]
  have ht : IsTail 0 ([] : List (List PS)) := Or.inl ⟨rfl, rfl⟩
  refine ⟨?_, ?_, ?_, ?_⟩
  · simpa using summandsOf_typeA hlegs hs hkk (by omega) ht deps unapp tags complete
  · have := dlaDim_typeA hlegs hs hkk (by omega) ht deps unapp tags complete
    rw [this]
    simp [dimSO, Nat.mul_comm]
  · simp [Summand.dim, dimSO, Nat.mul_comm]
  · rw [starLegs_flatten, C02.bitsOf_cons]
    exact h.card_clo k (by simpa [C02.bitsOf] using hk)

/-! ## 2. the path, any independent realisation -/

/-- **closure of a path** (generalises `C19_a1`): for linearly independent strings `vs` whose
anticommutation graph is the path in list order (`PathL`), the commutator closure is exactly the set
of sums of the contiguous non-empty segments `vs[a] + … + vs[b-1]` -/
theorem C01Path_closure {L : Nat} {vs : List V} (h : PathL L vs) (x : V) :
    Clo vs x ↔ ∃ a b, a < b ∧ b ≤ vs.length ∧ x = sumV L ((vs.drop a).take (b - a)) :=
  h.clo x

/-- **size**: m(m+1)/2 = dim so(m+1) for a path on m vertices -/
theorem C01Path_size {n : Nat} {vs : List V} (h : PathL (2 * n) vs) :
    (closureList vs).1.length = dimSO (vs.length + 1) := by
  rw [h.card_clo]; rfl

/-- distinct segments give distinct strings, and anticommutation of two members is decided by the
end points of their segments (the `so(m+1)` relations of the units `E_ab`, `0 ≤ a < b ≤ m`) -/
theorem C01Path_structure {L : Nat} {v : Nat → V} {m : Nat} (h : PathF L v m) :
    (∀ a b c d, a < b → b ≤ m → c < d → d ≤ m → iv L v a b = iv L v c d → a = c ∧ b = d) ∧
    (∀ a b c d, a ≤ m → b ≤ m → c ≤ m → d ≤ m → omega (iv L v a b) (iv L v c d) =
      ((decide (a ≠ c ∧ a ≠ 0 ∧ c ≠ 0) != decide (a ≠ d ∧ a ≠ 0 ∧ d ≠ 0)) !=
       (decide (b ≠ c ∧ b ≠ 0 ∧ c ≠ 0) != decide (b ≠ d ∧ b ≠ 0 ∧ d ≠ 0)))) :=
  ⟨fun _ _ _ _ hab hb hcd hd e => h.iv_inj hab hb hcd hd e, fun _ _ _ _ ha hb hc hd => h.omega_iv ha hb hc hd⟩

/-! ## 3. type A in general -/

/-- **closure of a type-A canonical star** (centre `c`, single legs `l1 :: ls'`, long leg `ps`): the
members are exactly `I + Z_S` with `I` a contiguous segment of the path `l1, c, ps` and
`Z_S = Σ_{e ∈ S} (e + l1)` for a subset `S` of the further single legs; each member has exactly one
such form (`TypeA.form_inj`). -/
theorem C01TypeA_closure {L : Nat} {c l1 : V} {ls' ps : List V} (h : TypeAL L c l1 ls' ps) (x : V) :
    Clo (c :: (l1 :: ls') ++ ps) x ↔
      ∃ a b S, a < b ∧ b ≤ ps.length + 2 ∧ S.Sublist ls' ∧
        x = add (sumV L (((l1 :: c :: ps).drop a).take (b - a)))
              (add (sumV L S) (if S.length % 2 = 1 then l1 else zeroV L)) := by
  have hF := h.toF
  have hlp : ∀ x ∈ l1 :: c :: ps, x.length = L := fun x hx => h.len x (List.mem_append_left _ hx)
  have hg : TypeA.gensA (nth L (l1 :: c :: ps)) (ps.length + 2) ls' = (l1 :: c :: ps) ++ ls' := by
    have := gensF_nth L (l1 :: c :: ps)
    simp only [List.length_cons] at this
    rw [TypeA.gensA, this]
  have hmem : ∀ g, g ∈ c :: (l1 :: ls') ++ ps ↔ g ∈ (l1 :: c :: ps) ++ ls' := by
    intro g; simp only [List.cons_append, List.mem_cons, List.mem_append]
    constructor
    · rintro (h | h | h | h)
      · exact Or.inr (Or.inl h)
      · exact Or.inl h
      · exact Or.inr (Or.inr (Or.inr h))
      · exact Or.inr (Or.inr (Or.inl h))
    · rintro (h | h | h | h)
      · exact Or.inr (Or.inl h)
      · exact Or.inl h
      · exact Or.inr (Or.inr (Or.inr h))
      · exact Or.inr (Or.inr (Or.inl h))
  have hclo : Clo (c :: (l1 :: ls') ++ ps) x ↔ Clo ((l1 :: c :: ps) ++ ls') x :=
    ⟨clo_mono (fun g hg' => (hmem g).1 hg'), clo_mono (fun g hg' => (hmem g).2 hg')⟩
  rw [hclo, ← hg, hF.clo_typeA]
  have hv0 : nth L (l1 :: c :: ps) 0 = l1 := by simp [nth]
  constructor
  · rintro ⟨a, b, z, hab, hb, hz, rfl⟩
    refine ⟨a, b, pick z ls', hab, hb, pick_sublist z ls', ?_⟩
    rw [iv_eq_segment _ hlp (by omega) (by simpa using hb)]
    unfold zed
    rw [msum_eq_sumV, hv0, length_pick z ls' hz]
    simp
  · rintro ⟨a, b, S, hab, hb, hS, rfl⟩
    obtain ⟨z, hz, rfl⟩ := exists_mask_of_sublist hS
    refine ⟨a, b, z, hab, hb, hz, ?_⟩
    rw [iv_eq_segment _ hlp (by omega) (by simpa using hb)]
    unfold zed
    rw [msum_eq_sumV, hv0, length_pick z ls' hz]
    simp

/-- **size of the closure of a type-A canonical star**: 2^(k-1)·(r+3)(r+2)/2 for `k = |ls'|+1`
single legs and a long leg of length `r = |ps|` -/
theorem C01TypeA_size {n : Nat} {c l1 : V} {ls' ps : List V} (h : TypeAL (2 * n) c l1 ls' ps) :
    (closureList (c :: (l1 :: ls') ++ ps)).1.length = 2 ^ ls'.length * dimSO (ps.length + 3) := by
  rw [h.card_clo, Nat.mul_comm]; rfl

/-- the legs of a type-A canonical star: centre, single legs, optional long leg -/
def typeALegs (c : PS) (ls ps : List PS) : List (List PS) :=
  [c] :: (ls.map (fun l => [l]) ++ (if ps.isEmpty then [] else [ps]))

theorem flatten_singletons (ls : List PS) : (ls.map (fun l => [l])).flatten = ls := by
  induction ls with
  | nil => rfl
  | cons a t ih => simp [ih]

theorem typeALegs_flatten (c : PS) (ls ps : List PS) : (typeALegs c ls ps).flatten = c :: ls ++ ps := by
  cases ps with
  | nil => simp [typeALegs, flatten_singletons]
  | cons p ps => simp [typeALegs, flatten_singletons]

/-- **C01 for type A** (k ≥ 1 single legs `l1 :: ls'`, long leg `ps` of length r ≠ 1; r = 0: none):
the model of `get_algebra` reports `2^(k-1)·so(r+3)`, the model of `get_dla_dim` its dimension, and
that is exactly the number of Pauli strings in the commutator closure of the vertices - for EVERY
realisation of the star by linearly independent Pauli strings -/
theorem C01_typeA {n : Nat} {c l1 : PS} {ls' ps : List PS}
    (h : TypeAL (2 * n) c.bits l1.bits (C02.bitsOf ls') (C02.bitsOf ps)) (hr : ps.length ≠ 1)
    (deps unapp : List PS) (tags : List String) (complete : Bool) :
    summandsOf [⟨typeALegs c (l1 :: ls') ps, deps, unapp, tags, complete⟩]
      = .ok [⟨.SO, ps.length + 3, 2 ^ ls'.length⟩] ∧
    dlaDimOfMorphs [⟨typeALegs c (l1 :: ls') ps, deps, unapp, tags, complete⟩]
      = .ok (2 ^ ls'.length * dimSO (ps.length + 3)) ∧
    (closureList (C02.bitsOf (typeALegs c (l1 :: ls') ps).flatten)).1.length
      = 2 ^ ls'.length * dimSO (ps.length + 3) := by
  have hs : ∀ leg ∈ (l1 :: ls').map (fun l => [l]), leg.length = 1 := by
    intro leg hleg
    obtain ⟨l, _, rfl⟩ := List.mem_map.1 hleg
    rfl
  have hkk : ((l1 :: ls').map (fun l => [l])).length = ls'.length + 1 := by simp
  have ht : IsTail ps.length (if ps.isEmpty then [] else [ps]) := by
    cases ps with
    | nil => exact Or.inl ⟨rfl, rfl⟩
    | cons p ps' =>
      refine Or.inr ⟨?_, p :: ps', rfl, rfl⟩
      simp only [List.length_cons] at hr ⊢
      omega
  refine ⟨?_, ?_, ?_⟩
  · have := summandsOf_typeA (legs := typeALegs c (l1 :: ls') ps) (cleg := [c]) rfl hs hkk (by omega) ht
      deps unapp tags complete
    rwa [Nat.add_sub_cancel] at this
  · have := dlaDim_typeA (legs := typeALegs c (l1 :: ls') ps) (cleg := [c]) rfl hs hkk (by omega) ht
      deps unapp tags complete
    rwa [Nat.add_sub_cancel] at this
  · rw [typeALegs_flatten]
    have : C02.bitsOf (c :: (l1 :: ls') ++ ps) = c.bits :: (l1.bits :: C02.bitsOf ls') ++ C02.bitsOf ps := by
      simp [C02.bitsOf]
    rw [this]
    have := C01TypeA_size h
    simpa [C02.bitsOf] using this

/-- **C01 for the path** P_m, m = r + 2 ≥ 2, r ≠ 1, as the canonical star `[[c],[a],[b_1 … b_r]]`
(path order `a, c, b_1, …, b_r`): reported `so(m+1)`, dimension m(m+1)/2 = size of the closure
(P_3, r = 1, is the star K_{1,2}: `C01_star`) -/
theorem C01_path {n : Nat} {c a : PS} {bs : List PS}
    (h : TypeAL (2 * n) c.bits a.bits [] (C02.bitsOf bs)) (hr : bs.length ≠ 1)
    (deps unapp : List PS) (tags : List String) (complete : Bool) :
    summandsOf [⟨typeALegs c [a] bs, deps, unapp, tags, complete⟩] = .ok [⟨.SO, bs.length + 3, 1⟩] ∧
    dlaDimOfMorphs [⟨typeALegs c [a] bs, deps, unapp, tags, complete⟩] = .ok (dimSO (bs.length + 3)) ∧
    (closureList (C02.bitsOf (typeALegs c [a] bs).flatten)).1.length = dimSO (bs.length + 3) := by
  have := C01_typeA (ls' := []) h hr deps unapp tags complete
  simpa using this

/-! ## 4. the bridge from the proved half (C02) -/

/-- equal closures have equally long enumerations -/
theorem closureList_length_congr {n : Nat} {A B : List V} (hA : Uniform n A) (hB : Uniform n B)
    (h : ∀ x, Clo A x ↔ Clo B x) : (closureList A).1.length = (closureList B).1.length :=
  (C03.closure_perm_of_clo_iff hA hB h).length_eq

/-- **C01/C09 from C02, generic form**: if the guarded reduction of `gens` succeeds (all certificate
checks hold, the run is complete, nothing was given up), the closure of its canonical vertices has
`d` elements and the classifier's dimension formula gives `d` on its legs, then the reported
dimension is the number of Pauli strings in the closure of the generators. -/
theorem C01_from_C02 {n : Nat} {gens : List PS} {r : Morph.BuildResult} {d : Nat}
    (hlen : ∀ g ∈ gens, g.bits.length = 2 * n) (hb : Morph.build gens = .ok r)
    (hg : C02.guardsHold gens = true) (hc : r.complete = true) (hu : r.unappended = [])
    (hvl : ∀ v ∈ r.legs.flatten, v.bits.length = 2 * n)
    (hclo : (closureList (C02.bitsOf r.legs.flatten)).1.length = d)
    (hdim : dlaDimOfMorphs [⟨r.legs, r.dependents, r.unappended, r.tags, r.complete⟩] = .ok d) :
    dlaDimOfMorphs [⟨r.legs, r.dependents, r.unappended, r.tags, r.complete⟩]
      = .ok (closureList (C02.bitsOf gens)).1.length := by
  have h1 := (C02.C02_closure_partial hlen hb hg hc hu).1
  have hA : Uniform n (C02.bitsOf r.legs.flatten) := by
    intro g hg'
    obtain ⟨v, hv, rfl⟩ := List.mem_map.1 hg'
    exact hvl v hv
  have hB : Uniform n (C02.bitsOf gens) := by
    intro g hg'
    obtain ⟨v, hv, rfl⟩ := List.mem_map.1 hg'
    exact hlen v hv
  rw [hdim, ← closureList_length_congr hA hB h1, hclo]

/-- **C01 (dimension clause) and C09 (first clause) PROVED for the inputs whose reduction ends in a
pure single-leg star**: if the guarded reduction of `gens` succeeds and its legs are a centre and
`k ≥ 1` single legs whose strings pass the executable star check (`starB`: lengths, the centre
anticommutes with every leaf, leaves commute, the `k+1` strings are linearly independent), then the
reported algebra is `2^(k-1)·so(3)` and the reported dimension `3·2^(k-1)` equals the number of
Pauli strings in the commutator closure of the generators. -/
theorem C01_from_C02_star {n : Nat} {gens : List PS} {r : Morph.BuildResult} {c : PS} {ls : List PS} (k : Nat)
    (hlen : ∀ g ∈ gens, g.bits.length = 2 * n) (hb : Morph.build gens = .ok r)
    (hg : C02.guardsHold gens = true) (hc : r.complete = true) (hu : r.unappended = [])
    (hlegs : r.legs = starLegs c ls) (hk : ls.length = k + 1)
    (hstar : starB (2 * n) c.bits (C02.bitsOf ls) = true) :
    summandsOf [⟨r.legs, r.dependents, r.unappended, r.tags, r.complete⟩] = .ok [⟨.SO, 3, 2 ^ k⟩] ∧
    dlaDimOfMorphs [⟨r.legs, r.dependents, r.unappended, r.tags, r.complete⟩]
      = .ok (closureList (C02.bitsOf gens)).1.length ∧
    (closureList (C02.bitsOf gens)).1.length = 3 * 2 ^ k := by
  have hS := starB_sound hstar
  obtain ⟨s1, s2, _, s4⟩ := C01_star hS k hk r.dependents r.unappended r.tags r.complete
  have hvl : ∀ v ∈ r.legs.flatten, v.bits.length = 2 * n := by
    rw [hlegs, starLegs_flatten]
    intro v hv
    rcases List.mem_cons.1 hv with rfl | hv
    · exact hS.lc
    · exact hS.ll v.bits (List.mem_map.2 ⟨v, hv, rfl⟩)
  rw [← hlegs] at s1 s2 s4
  have key := C01_from_C02 hlen hb hg hc hu hvl s4 s2
  refine ⟨s1, key, ?_⟩
  rw [s2] at key
  injection key with key
  exact key.symm

/-- **C01 (dimension clause) and C09 (first clause) PROVED for the inputs whose reduction ends in a
type-A canonical star** (in particular a path): if the guarded reduction of `gens` succeeds and its
legs are a centre, single legs `l1 :: ls'` and a long leg `ps` (length ≠ 1) whose strings pass the
executable check `typeAB` (lengths, the anticommutation pattern of the star, linear independence),
then the reported algebra is `2^(k-1)·so(r+3)` and the reported dimension equals the number of Pauli
strings in the commutator closure of the generators. -/
theorem C01_from_C02_typeA {n : Nat} {gens : List PS} {r : Morph.BuildResult} {c l1 : PS} {ls' ps : List PS}
    (hlen : ∀ g ∈ gens, g.bits.length = 2 * n) (hb : Morph.build gens = .ok r)
    (hg : C02.guardsHold gens = true) (hc : r.complete = true) (hu : r.unappended = [])
    (hlegs : r.legs = typeALegs c (l1 :: ls') ps) (hr : ps.length ≠ 1)
    (hstar : typeAB (2 * n) c.bits l1.bits (C02.bitsOf ls') (C02.bitsOf ps) = true) :
    summandsOf [⟨r.legs, r.dependents, r.unappended, r.tags, r.complete⟩]
      = .ok [⟨.SO, ps.length + 3, 2 ^ ls'.length⟩] ∧
    dlaDimOfMorphs [⟨r.legs, r.dependents, r.unappended, r.tags, r.complete⟩]
      = .ok (closureList (C02.bitsOf gens)).1.length ∧
    (closureList (C02.bitsOf gens)).1.length = 2 ^ ls'.length * dimSO (ps.length + 3) := by
  have hS := typeAB_sound hstar
  obtain ⟨s1, s2, s4⟩ := C01_typeA hS hr r.dependents r.unappended r.tags r.complete
  have hvl : ∀ v ∈ r.legs.flatten, v.bits.length = 2 * n := by
    rw [hlegs, typeALegs_flatten]
    intro v hv
    apply hS.len
    simp only [List.cons_append, List.mem_cons, List.mem_append] at hv ⊢
    rcases hv with rfl | rfl | hv | hv
    · exact Or.inr (Or.inl rfl)
    · exact Or.inl rfl
    · exact Or.inr (Or.inr (Or.inr (List.mem_map.2 ⟨v, hv, rfl⟩)))
    · exact Or.inr (Or.inr (Or.inl (List.mem_map.2 ⟨v, hv, rfl⟩)))
  rw [← hlegs] at s1 s2 s4
  have key := C01_from_C02 hlen hb hg hc hu hvl s4 s2
  refine ⟨s1, key, ?_⟩
  rw [s2] at key
  injection key with key
  exact key.symm

/-- **the same for a whole connected collection** (`PauliStringCollection.classify` → one morph):
under the guard of `C02_classify_partial`, if the closure of the canonical vertices has `d` elements
and the dimension formula gives `d`, then `get_dla_dim()` = |Clo(collection)|. -/
theorem C01_from_C02_classify {n : Nat} {G : List PS} {m : MorphR} {d : Nat} (hG : C14.Uniform n G)
    (h : classify G = .ok [m])
    (hg : ∀ subs, Graph.getSubgraphs G = .ok subs → ∀ sub ∈ subs, C02.guardsHold sub = true)
    (hc : m.complete = true) (hu : m.unappended = [])
    (hvl : ∀ v ∈ m.legs.flatten, v.bits.length = 2 * n)
    (hclo : (closureList (C02.bitsOf m.legs.flatten)).1.length = d)
    (hdim : dlaDimOfMorphs [m] = .ok d) :
    dlaDimOfMorphs [m] = .ok (closureList (C02.bitsOf G)).1.length := by
  have h1 := (C02.C02_classify_partial hG h hg (by
    intro m' hm'; simp at hm'; subst hm'; exact ⟨hc, hu⟩)).1
  have hv : verticesOf [m] = m.legs.flatten := by simp [verticesOf]
  rw [hv] at h1
  have hA : Uniform n (C02.bitsOf m.legs.flatten) := by
    intro g hg'
    obtain ⟨v, hv', rfl⟩ := List.mem_map.1 hg'
    exact hvl v hv'
  have hB : Uniform n (C02.bitsOf G) := by
    intro g hg'
    obtain ⟨v, hv', rfl⟩ := List.mem_map.1 hg'
    obtain ⟨hwf, hl⟩ := hG v hv'
    unfold PS.len at hl
    have := hwf.2.2
    omega
  rw [hdim, ← closureList_length_congr hA hB h1, hclo]

/-- **C01 (dimension clause) / C09 (first clause) for a connected collection classified as a type-A
canonical star** (pure single-leg stars are the case `ps = []`, paths the case `ls' = []`): under the
guard and the executable check `typeAB` of the reported legs, the reported algebra is
`2^(k-1)·so(r+3)` and `get_dla_dim()` is exactly the number of Pauli strings in the commutator
closure of the collection. -/
theorem C01_from_C02_classify_typeA {n : Nat} {G : List PS} {m : MorphR} {c l1 : PS} {ls' ps : List PS}
    (hG : C14.Uniform n G) (h : classify G = .ok [m])
    (hg : ∀ subs, Graph.getSubgraphs G = .ok subs → ∀ sub ∈ subs, C02.guardsHold sub = true)
    (hc : m.complete = true) (hu : m.unappended = [])
    (hlegs : m.legs = typeALegs c (l1 :: ls') ps) (hr : ps.length ≠ 1)
    (hstar : typeAB (2 * n) c.bits l1.bits (C02.bitsOf ls') (C02.bitsOf ps) = true) :
    algebraOfMorphs [m] = .ok [⟨.SO, ps.length + 3, 2 ^ ls'.length⟩] ∧
    dlaDimOfMorphs [m] = .ok (closureList (C02.bitsOf G)).1.length ∧
    (closureList (C02.bitsOf G)).1.length = 2 ^ ls'.length * dimSO (ps.length + 3) := by
  have hS := typeAB_sound hstar
  obtain ⟨s1, s2, s4⟩ := C01_typeA hS hr m.dependents m.unappended m.tags m.complete
  have hvl : ∀ v ∈ m.legs.flatten, v.bits.length = 2 * n := by
    rw [hlegs, typeALegs_flatten]
    intro v hv
    apply hS.len
    simp only [List.cons_append, List.mem_cons, List.mem_append] at hv ⊢
    rcases hv with rfl | rfl | hv | hv
    · exact Or.inr (Or.inl rfl)
    · exact Or.inl rfl
    · exact Or.inr (Or.inr (Or.inr (List.mem_map.2 ⟨v, hv, rfl⟩)))
    · exact Or.inr (Or.inr (Or.inl (List.mem_map.2 ⟨v, hv, rfl⟩)))
  rw [← hlegs] at s1 s2 s4
  have em : (⟨m.legs, m.dependents, m.unappended, m.tags, m.complete⟩ : MorphR) = m := rfl
  rw [em] at s1 s2
  have key := C01_from_C02_classify hG h hg hc hu hvl s4 s2
  refine ⟨?_, key, ?_⟩
  · unfold algebraOfMorphs
    rw [s1]
    simp [bind, Except.bind, pure, Except.pure, mergeSummands]
  · rw [s2] at key
    injection key with key
    exact key.symm

/-! ## non-vacuity -/

section Example
private def ps (s : String) : PS := PS.ofLetters ((lettersOfString? s).getD [])

/-- K_{1,3} on three qubits: centre `XII`, leaves `ZII`, `ZZI`, `ZIZ` -/
example : starB 6 (ps "XII").bits (C02.bitsOf [ps "ZII", ps "ZZI", ps "ZIZ"]) = true := by decide +kernel

example : (closureList (C02.bitsOf (starLegs (ps "XII") [ps "ZII", ps "ZZI", ps "ZIZ"]).flatten)).1.length = 12 :=
  (C01_star (n := 3) (starB_sound (by decide +kernel)) 2 rfl [] [] [] true).2.2.2

/-- the independence hypothesis cannot be dropped: with the dependent leaf `ZZZ = ZII·ZZI·ZIZ` the
star relations hold but the closure is smaller than 3·2^3 -/
example : starB 6 (ps "XII").bits (C02.bitsOf [ps "ZII", ps "ZZI", ps "ZIZ", ps "ZZZ"]) = false := by
  decide +kernel

/-- the span test on the same strings -/
example : Morph.inSpan (C02.bitsOf [ps "ZII", ps "ZZI", ps "ZIZ"]) (ps "ZZZ").bits = true := by decide +kernel
example : Morph.inSpan (C02.bitsOf [ps "ZII", ps "ZZI", ps "ZIZ"]) (ps "XII").bits = false := by decide +kernel
/-- type A with k = 2 single legs and a long leg of length r = 2 on five qubits:
centre `XIIII`, single legs `ZIIII`, `ZZIII`, long leg `ZIXII - IIZXI`: 2·so(5), dimension 20 -/
example : typeAB 10 (ps "XIIII").bits (ps "ZIIII").bits (C02.bitsOf [ps "ZZIII"])
    (C02.bitsOf [ps "ZIXII", ps "IIZXI"]) = true := by decide +kernel

example : (closureList (C02.bitsOf (typeALegs (ps "XIIII") [ps "ZIIII", ps "ZZIII"] [ps "ZIXII", ps "IIZXI"]).flatten)).1.length
    = 20 :=
  (C01_typeA (n := 5) (typeAB_sound (by decide +kernel)) (by decide) [] [] [] true).2.2

/-- the path `ZII - XII - ZXI - IZX` (a, c, b1, b2): so(5), dimension 10 -/
example : (closureList (C02.bitsOf (typeALegs (ps "XII") [ps "ZII"] [ps "ZXI", ps "IZX"]).flatten)).1.length = 10 :=
  (C01_path (n := 3) (typeAB_sound (by decide +kernel)) (by decide) [] [] [] true).2.2
/-- cross-check of the closed forms against the verified enumeration, by kernel evaluation -/
example : (closureList (C02.bitsOf [ps "XII", ps "ZII", ps "ZZI", ps "ZIZ"])).1.length = 12 := by decide +kernel
example : (closureList (C02.bitsOf [ps "XIIII", ps "ZIIII", ps "ZZIII", ps "ZIXII", ps "IIZXI"])).1.length = 20 := by
  decide +kernel

/-- a path in list order: `ZII - XII - ZXI - IZX` -/
example : pathB 6 (C02.bitsOf [ps "ZII", ps "XII", ps "ZXI", ps "IZX"]) = true := by decide +kernel
example : (closureList (C02.bitsOf [ps "ZII", ps "XII", ps "ZXI", ps "IZX"])).1.length = dimSO 5 :=
  C01Path_size (n := 3) (pathB_sound (by decide +kernel))
end Example

end C01Star
end PauLie
