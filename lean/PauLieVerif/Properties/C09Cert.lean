/-
Property C09, FIRST clause, decided per input at ANY number of qubits by a Lean-verified certificate:

  "For every collection the reported dynamical-Lie-algebra dimension equals the number of Pauli strings in
   the commutator closure of the generators ..."

`Cert.certDim G` (`Model/Cert.lean`, protocol command `cert`) is an executable check that never enumerates the
closure: it runs the guarded reduction on every connected component and compares the canonical legs with the
leg profiles of the classification theorem.  PROVED here, for every collection `G` (no hypothesis besides the
certificate):

  * `C09_cert_classify`: if `certDim G = true` then the model of `classify` answers, the model of
    `get_dla_dim()` reports exactly `(closureList (bits of G)).1.length`, and the name `get_algebra()` reports has
    that dimension;
  * `C09_cert`: ... and that number is the number of Pauli strings in the commutator closure:
    `closureList` lists `Clo (bits of G)` without repetition;
  * `C01_cert_dim` (dimension clause of C01): the reported name has the dimension of the closure.

The certificate ACCEPTS a component iff its guarded reduction raised nothing, passed all its local certificate
checks, was complete, gave up no generator, and its canonical legs are, literally, one of

    point                               u(1)
    A    (k ≥ 1 single legs, long leg r ≠ 1, possibly none)      2^(k-1)·so(r+3)
    B1   (k ≥ 1, t ≥ 2 legs of length two)                        2^(k-1)·sp(2^t)
    B3   (k ≥ 1, t ≥ 1, long leg 3)                               2^(k-1)·su(2^(t+2))
    B2   (k ≥ 1, t ≥ 1, long leg 4)                               2^(k-1)·so(2^(t+3))

(these are ALL leg profiles on which the model of `get_dla_dim()` answers without error) with vertices that
have the anticommutation pattern of the star and are linearly independent - or, for A and B3, have exactly ONE
linear dependency `w = Σ_k (other vertices)`, `w` the last vertex of the long leg, on which the quadratic form
`q` (`q(vertex) = 1`, polar form "anticommute") is `1` (`su(2^n)` on `n` qubits, `so(6)`, `so(10)`, … on
the minimal number of qubits; `Proofs/C09CertKer.lean`).

It DECLINES (and the input stays decided by brute-force enumeration for n ≤ 6): a failed guard, an incomplete
run, a generator given up; a star that is not one of the profiles (e.g. a long leg ≥ 5 beside a leg of length
two, no single leg: the classifier raises there); vertices with a dependency of another kind - in particular
type A with a long leg `r ≡ 1 (mod 4)` realised on the minimal number of qubits (`so(8)` on three qubits:
the dependency has `q = 0`), and dependent single legs.

NOT proved: that the certificate accepts (that is the graph-shape theorem of the reduction and the
independence of its vertices); only the DIMENSION is certified, not the isomorphism type.
-/
import PauLieVerif.Proofs.C09CertComp
import PauLieVerif.Properties.C01Comp

namespace PauLie
namespace C09Cert
open Closure Classify

theorem uniformB_sound {n : Nat} {G : List PS} (h : Cert.uniformB n G = true) : C14.Uniform n G := by
  intro g hg
  have := List.all_eq_true.1 h g hg
  simpa using this

theorem mapM_of_forall {α β : Type} {f : α → Except Err β} {P : α → β → Prop} :
    ∀ (cs : List α), (∀ c ∈ cs, ∃ m, f c = .ok m ∧ P c m) →
      ∃ ms, cs.mapM f = .ok ms ∧ ∀ c m, (c, m) ∈ cs.zip ms → P c m
  | [], _ => ⟨[], rfl, fun _ _ h => by simp at h⟩
  | c0 :: cs, h => by
    obtain ⟨m0, hm0, hp0⟩ := h c0 (by simp)
    obtain ⟨ms, hms, hz⟩ := mapM_of_forall cs (fun c hc => h c (by simp [hc]))
    refine ⟨m0 :: ms, ?_, ?_⟩
    · rw [List.mapM_cons, hm0, hms]; rfl
    · intro c m hcm
      simp only [List.zip_cons_cons, List.mem_cons, Prod.mk.injEq] at hcm
      rcases hcm with ⟨rfl, rfl⟩ | hcm
      · exact hp0
      · exact hz c m hcm

/-- **C09 (first clause) and C01 (dimension) under the certificate.**  If `certDim G = true` then the model of
`PauliStringCollection.classify` answers, `get_dla_dim()` of the answer is exactly the length of the verified
enumeration `closureList` of the commutator closure of `G`, and `get_algebra()` names an algebra of that
dimension.  Any number of qubits, any collection; the only hypothesis is the executable certificate. -/
theorem C09_cert_classify {G : List PS} (h : Cert.certDim G = true) :
    ∃ ms, classify G = .ok ms ∧ dlaDimOfMorphs ms = .ok (closureList (C02.bitsOf G)).1.length ∧
      ∃ a, algebraOfMorphs ms = .ok a ∧ C09.sumDim a = (closureList (C02.bitsOf G)).1.length := by
  unfold Cert.certDim Cert.okOf at h
  split at h
  · cases h
  · next vs hvs =>
    unfold Cert.certComps at hvs
    split at hvs
    · cases hvs
    · next hun =>
      have hG : C14.Uniform (Cert.qubitsOf G) G := uniformB_sound (by simpa using hun)
      split at hvs
      · cases hvs
      · next cs hcs =>
        injection hvs with hvs
        subst hvs
        obtain ⟨cs', hcs', hUc, _⟩ := C01Comp.C01Comp_subgraphs hG
        rw [hcs] at hcs'
        injection hcs' with hcs'
        subst hcs'
        have hall : ∀ c ∈ cs, ∃ m, C02.morphOf c = .ok m ∧
            dlaDimOfMorphs [m] = .ok (closureList (C02.bitsOf c)).1.length := by
          intro c hc
          apply certComp_sound (hUc c hc)
          have := List.all_eq_true.1 h (Cert.certComp (Cert.qubitsOf G) c) (List.mem_map.2 ⟨c, hc, rfl⟩)
          exact this
        obtain ⟨ms, hms, hz⟩ := mapM_of_forall cs hall
        have hclass : classify G = .ok ms := by
          rw [C02.classify_eq, hcs]; exact hms
        obtain ⟨cs'', hcs'', _, _, hfin⟩ := C01Comp.C01_componentwise hG hclass
        rw [hcs] at hcs''
        injection hcs'' with hcs''
        subst hcs''
        exact ⟨ms, hclass, hfin hz⟩

/-- **C09, "the reported dynamical-Lie-algebra dimension equals the number of Pauli strings in the commutator
closure of the generators"** - for every collection the certificate accepts: whatever dimension `d` the model
of `get_dla_dim()` reports, `d` is the length of `closureList`, which lists exactly the commutator closure
`Clo`, without repetition. -/
theorem C09_cert {G : List PS} (h : Cert.certDim G = true) {ms : List MorphR} (hc : classify G = .ok ms)
    {d : Nat} (hd : dlaDimOfMorphs ms = .ok d) :
    d = (closureList (C02.bitsOf G)).1.length ∧ (closureList (C02.bitsOf G)).1.Nodup ∧
      ∀ x, x ∈ (closureList (C02.bitsOf G)).1 ↔ Clo (C02.bitsOf G) x := by
  obtain ⟨ms', hc', hd', _⟩ := C09_cert_classify h
  rw [hc] at hc'
  injection hc' with hc'
  subst hc'
  rw [hd] at hd'
  injection hd' with hd'
  refine ⟨hd', closureList_nodup _, fun x => ?_⟩
  have hun : Cert.uniformB (Cert.qubitsOf G) G = true := by
    unfold Cert.certDim Cert.okOf Cert.certComps at h
    cases hu : Cert.uniformB (Cert.qubitsOf G) G with
    | true => rfl
    | false => rw [hu] at h; simp at h
  exact closureList_sound_complete (C01Comp.uniform_bitsOf (uniformB_sound hun))

/-- **C01, dimension clause** - "the Lie algebra the classifier reports is isomorphic ... to the span of the
commutator closure of those strings: same dimension" - for every collection the certificate accepts: the name
`get_algebra()` reports has the dimension (sum over summands of multiplicity × dimension, `u(1)` = 1) of the
commutator closure.  (Dimension only: centre and simple summands are not certified.) -/
theorem C01_cert_dim {G : List PS} (h : Cert.certDim G = true) {ms : List MorphR} (hc : classify G = .ok ms)
    {a : List Summand} (ha : algebraOfMorphs ms = .ok a) :
    C09.sumDim a = (closureList (C02.bitsOf G)).1.length := by
  obtain ⟨ms', hc', _, a', ha', hs⟩ := C09_cert_classify h
  rw [hc] at hc'
  injection hc' with hc'
  subst hc'
  rw [ha] at ha'
  injection ha' with ha'
  subst ha'
  exact hs

/-- the reply of the protocol command `cert` says `cert=ok` exactly when `certDim` holds -/
theorem C09_cert_reply (G : List PS) :
    (Cert.certDim G = true → ∃ c, Cert.certText G = "cert=ok case=" ++ c) ∧
    (Cert.certDim G = false → ∃ why, Cert.certText G = "cert=declined reason=" ++ why) := by
  unfold Cert.certDim Cert.certText Cert.textOf
  constructor
  · intro h
    rw [if_pos h]
    split
    · exact ⟨_, rfl⟩
    · exact ⟨_, rfl⟩
  · intro h
    rw [if_neg (by rw [h]; simp)]
    split
    · exact ⟨_, rfl⟩
    · exact ⟨_, rfl⟩

/-! ## non-vacuity (the reduction itself contains `while` loops the kernel cannot unfold, so the examples
are at the level of the canonical legs) -/

section Example
private def ps (s : String) : PS := PS.ofLetters ((lettersOfString? s).getD [])

/-- `so(6) = su(4)` on two qubits: centre `IZ`, single leg `XX`, long leg `YY - XI - ZZ`; the five
vertices live in `F2^4`, the dependency `ZZ = XX·YY` has `q = 1`: accepted, 15 strings -/
example : (Cert.certLegs 4 [[ps "IZ"], [ps "XX"], [ps "YY", ps "XI", ps "ZZ"]]).isOk = true := by decide +kernel

example : (closureList (C02.bitsOf [ps "IZ", ps "XX", ps "YY", ps "XI", ps "ZZ"])).1.length = 15 := by
  obtain ⟨d, _, h1, h2⟩ := certLegs_sound (n := 2) (legs := [[ps "IZ"], [ps "XX"], [ps "YY", ps "XI", ps "ZZ"]])
    (by decide +kernel)
  have := h2 [] [] [] true
  rw [show dlaDimOfMorphs [⟨[[ps "IZ"], [ps "XX"], [ps "YY", ps "XI", ps "ZZ"]], [], [], [], true⟩] = .ok 15
    by decide +kernel] at this
  injection this with this
  rw [← this] at h1
  exact h1

/-- `su(8)` on three qubits (B3 with one dependency): accepted -/
example : (Cert.certLegs 6 [[ps "IXI"], [ps "IZI"], [ps "IZX", ps "IIZ"], [ps "XZI", ps "ZII", ps "XII"]]).isOk = true := by
  decide +kernel

/-- `so(8)` on three qubits: the dependency has `q = 0`: declined (the closure has 28 strings nevertheless) -/
example : (Cert.certLegs 6 [[ps "IIX"], [ps "IIZ"], [ps "IXZ", ps "IZI", ps "XXI", ps "ZII", ps "XII"]]).isOk = false := by
  decide +kernel

/-- dependent single legs are declined: `ZZZ = ZII·ZZI·ZIZ` -/
example : (Cert.certLegs 6 [[ps "XII"], [ps "ZII"], [ps "ZZI"], [ps "ZIZ"], [ps "ZZZ"]]).isOk = false := by
  decide +kernel
end Example

end C09Cert
end PauLie
