/-
Property C05, about the model of the non-search part of
`application/pauli_compiler.py` (`Model/Compiler.lean`):

  "Whenever the Pauli compiler returns a sequence for a target string and a
   left-block size k, the sequence is non-empty, every element belongs to the
   universal generating set for that (N,k), and the nested commutator of the
   sequence, evaluated in the documented orientation, is non-zero and
   proportional to the target.  It never returns a sequence that evaluates to
   zero or to some other string."

This file is about the validator and the evaluation helpers; the search procedures are
modelled in `Model/CompilerSearch.lean` and the theorems about them (refutation by a
kernel-evaluated run, soundness of the verified returns) are in `Properties/C05Search.lean`.
What is proved here, for all `N`, `k`, targets and sequences:

* `validSeq_sound` — the executable validator `Compiler.validSeq` (run by the
  harness on every sequence the implementation returns) answers `true` exactly
  when the sequence is `Valid`: non-empty, inside the universal set, and the
  nested commutator of the `2^N × 2^N` matrices
  `[M s_1, [M s_2, [… [M s_{n-1}, M s_n]]]]` (documented orientation:
  `ad_{A_1} … ad_{A_{n-1}}(A_n)`) equals `c • M target` with `c ≠ 0`;
* `nestedPublic_matrix` — string evaluation vs. matrices (zero ⇔ `None`);
* `orientation` — `_sequence_to_paulie_orientation` turns the internal
  evaluation order into the documented one;
* `C05_refuted`, `C05_refuted_zero` — the property is FALSE: the sequences the
  implementation returns for `(N,k,target) = (3,2,YIY)` and `(3,2,IIX)`
  (recorded in `Compiler.observedReturns`, replayed on the implementation by
  the harness on every run) are not valid.
-/
import PauLieVerif.Proofs.C05Lemmas

namespace PauLie
namespace C05

open Compiler Matrix C07

/-- the meaning of "a valid compiled sequence" (the conclusion of C05) -/
def Valid (N k : ℕ) (target : PS) (seq : List PS) : Prop :=
  seq ≠ [] ∧
  (∀ x ∈ seq, ∃ U, universalSet (N : Int) (k : Int) = .ok U ∧ x ∈ U) ∧
  ∃ c : ℂ, c ≠ 0 ∧ nestM (mats N seq) = c • M (target.vec N)

/-- C05 for an input/output relation `returns N k target seq` of the compiler -/
def C05_statement (returns : ℕ → ℕ → PS → List PS → Prop) : Prop :=
  ∀ (N k : ℕ) (t : PS) (seq : List PS), 3 ≤ N → 2 ≤ k → k < N → t.WF → t.len = N →
    returns N k t seq → Valid N k t seq

/-- **validator, string level**: for admissible `(N,k)` the validator accepts
exactly the non-empty sequences inside the universal set whose public nested
evaluation is `some target`. -/
theorem validSeq_iff (N k : ℕ) (h1 : 1 ≤ k) (h2 : k < N) (t : PS) (s : List PS) :
    validSeq (N : Int) (k : Int) t s = true ↔
      s ≠ [] ∧ (∀ x ∈ s, x ∈ (uLetters N k).map PS.ofLetters) ∧ nestedPublic s = .ok (some t) := by
  unfold validSeq
  rw [universalSet_ok N k h1 h2]
  simp only [Bool.and_eq_true, Bool.not_eq_true', List.isEmpty_eq_false_iff, List.all_eq_true,
    List.contains_iff_mem, and_assoc]
  refine and_congr_right fun _ => and_congr_right fun _ => ?_
  cases hn : nestedPublic s with
  | error e => simp
  | ok r =>
    cases r with
    | none => simp
    | some r => simp

/-- **orientation**: `_sequence_to_paulie_orientation` — the documented
evaluation of the returned list is the internal evaluation of the constructed one. -/
theorem orientation (G : List PS) : nestedPublic (toPublic G) = nestedCommutatorResult G :=
  nestedPublic_toPublic G

example : toPublic [PS.ofLetters [.X, .I], PS.ofLetters [.Z, .I], PS.ofLetters [.Z, .Z]]
    = [PS.ofLetters [.Z, .Z], PS.ofLetters [.Z, .I], PS.ofLetters [.X, .I]] := by decide

/-- **string evaluation vs. matrices** (all `n`, all well-formed sequences): the
public evaluation never raises; `some r` ⇒ the nested matrix commutator is a
non-zero multiple of `M r`; `None` ⇒ it vanishes. -/
theorem nestedPublic_matrix (n : ℕ) (s : List PS) (hs : s ≠ []) (hw : ∀ x ∈ s, x.WF ∧ x.len = n) :
    (∃ r, nestedPublic s = .ok (some r) ∧ r.WF ∧ r.len = n ∧
        ∃ c : ℂ, c ≠ 0 ∧ nestM (mats n s) = c • M (r.vec n))
    ∨ (nestedPublic s = .ok none ∧ nestM (mats n s) = 0) :=
  C05.nestedPublic_matrix_aux n s hs hw

/-- the same for the INTERNAL evaluation `_nested_commutator_result(G)` of a
constructed list `G = [base, A_1, …, A_m]`: it describes the nested matrix
commutator `[A_m, [… [A_1, base]]]` of the list handed out, `toPublic G`. -/
theorem nestedCommutatorResult_matrix (n : ℕ) (G : List PS) (hG : G ≠ []) (hw : ∀ x ∈ G, x.WF ∧ x.len = n) :
    (∃ r, nestedCommutatorResult G = .ok (some r) ∧ r.WF ∧ r.len = n ∧
        ∃ c : ℂ, c ≠ 0 ∧ nestM (mats n (toPublic G)) = c • M (r.vec n))
    ∨ (nestedCommutatorResult G = .ok none ∧ nestM (mats n (toPublic G)) = 0) := by
  rw [← orientation]
  cases G with
  | nil => exact absurd rfl hG
  | cons g rest =>
    refine nestedPublic_matrix n (toPublic (g :: rest)) (by simp [toPublic]) ?_
    intro x hx
    simp only [toPublic, List.mem_append, List.mem_reverse, List.mem_singleton] at hx
    rcases hx with hx | rfl
    · exact hw x (List.mem_cons_of_mem _ hx)
    · exact hw x (List.mem_cons_self ..)

theorem mem_uset_wf {N k : ℕ} (hkN : k ≤ N) {x : PS} (hx : x ∈ (uLetters N k).map PS.ofLetters) :
    x.WF ∧ x.len = N := by
  obtain ⟨w, hw, rfl⟩ := List.mem_map.mp hx
  exact ⟨C18.wf_ofLetters w, by rw [C18.len_ofLetters, length_of_mem_uLetters hkN hw]⟩

/-- **C05, validator soundness and completeness** (all `N`, `1 ≤ k < N`, every
well-formed target of length `N`, every sequence): `validSeq = true` iff the
sequence is non-empty, lies in the universal set and its nested MATRIX
commutator in the documented orientation is `c • M target` with `c ≠ 0`. -/
theorem validSeq_sound (N k : ℕ) (h1 : 1 ≤ k) (h2 : k < N) (t : PS) (ht : t.WF) (htn : t.len = N)
    (s : List PS) : validSeq (N : Int) (k : Int) t s = true ↔ Valid N k t s := by
  rw [validSeq_iff N k h1 h2]
  unfold Valid
  have hU := universalSet_ok N k h1 h2
  constructor
  · rintro ⟨hne, hin, hnest⟩
    refine ⟨hne, fun x hx => ⟨_, hU, hin x hx⟩, ?_⟩
    rcases nestedPublic_matrix N s hne (fun x hx => mem_uset_wf (by omega) (hin x hx)) with
      ⟨r, hr, _, _, c, hc, hM⟩ | ⟨hr, _⟩
    · rw [hnest] at hr
      cases hr
      exact ⟨c, hc, hM⟩
    · rw [hnest] at hr
      cases hr
  · rintro ⟨hne, hin, c, hc, hM⟩
    have hin' : ∀ x ∈ s, x ∈ (uLetters N k).map PS.ofLetters := by
      intro x hx
      obtain ⟨U, hU', hxU⟩ := hin x hx
      rw [hU] at hU'
      cases hU'
      exact hxU
    refine ⟨hne, hin', ?_⟩
    rcases nestedPublic_matrix N s hne (fun x hx => mem_uset_wf (by omega) (hin' x hx)) with
      ⟨r, hr, hrw, hrn, c', hc', hM'⟩ | ⟨_, hM'⟩
    · -- c • M t = c' • M r  ⇒  t = r
      rw [hM] at hM'
      have hvec : t.vec N = r.vec N := M_smul_inj _ _ c c' hc hM'
      have hl : t.letters = r.letters := by
        apply List.ext_getElem
        · rw [C04.length_letters, C04.length_letters, htn, hrn]
        · intro i h1 h2
          have hi : i < N := by rw [C04.length_letters, htn] at h1; exact h1
          have := congrFun hvec ⟨i, hi⟩
          simp only [PS.vec, vecOf, List.getD_eq_getElem?_getD, List.getElem?_eq_getElem h1,
            List.getElem?_eq_getElem h2, Option.getD_some] at this
          exact this
      rw [hr, C04.WF_eq_ofLetters ht, C04.WF_eq_ofLetters hrw, hl]
    · rw [hM] at hM'
      exact absurd hM' (smul_ne_zero hc (C04.M_ne_zero _))

/-! ### The property is false -/

/-- the first recorded observation: `compile_target("YIY", k_left=2)` returns
`[XIZ, YII, XIZ]` -/
theorem observed_YIY :
    (((3 : Int), (2 : Int), PS.ofLetters [.Y, .I, .Y]),
      [PS.ofLetters [.X, .I, .Z], PS.ofLetters [.Y, .I, .I], PS.ofLetters [.X, .I, .Z]])
      ∈ observedReturns := by decide

theorem observed_IIX :
    (((3 : Int), (2 : Int), PS.ofLetters [.I, .I, .X]),
      [PS.ofLetters [.X, .I, .Z], PS.ofLetters [.Y, .I, .I], PS.ofLetters [.X, .I, .Z],
       PS.ofLetters [.Z, .I, .I], PS.ofLetters [.X, .I, .Z]]) ∈ observedReturns := by decide

/-- **C05 refuted** (witness `(N,k,target) = (3,2,YIY)`, returned sequence
`[XIZ, YII, XIZ]`): the element `YII` is outside the universal set of `(3,2)` and
the nested commutator is a multiple of `YII`, not of `YIY`; hence every
input/output relation that contains the observed pair violates C05. -/
theorem C05_refuted (returns : ℕ → ℕ → PS → List PS → Prop)
    (hobs : returns 3 2 (PS.ofLetters [.Y, .I, .Y])
      [PS.ofLetters [.X, .I, .Z], PS.ofLetters [.Y, .I, .I], PS.ofLetters [.X, .I, .Z]]) :
    ¬ C05_statement returns := by
  intro h
  have hv := h 3 2 _ _ (by decide) (by decide) (by decide) (by decide) (by decide) hobs
  have hb := (validSeq_sound 3 2 (by decide) (by decide) _ (by decide) (by decide) _).mpr hv
  have hi := (validSeq_iff 3 2 (by decide) (by decide) _ _).mp hb
  exact absurd (hi.2.1 (PS.ofLetters [.Y, .I, .I]) (by decide)) (by decide)

/-- the same witness, both defects spelled out -/
theorem C05_refuted_detail :
    PS.ofLetters [.Y, .I, .I] ∉ (uLetters 3 2).map PS.ofLetters ∧
    nestedPublic [PS.ofLetters [.X, .I, .Z], PS.ofLetters [.Y, .I, .I], PS.ofLetters [.X, .I, .Z]]
      = .ok (some (PS.ofLetters [.Y, .I, .I])) := by
  constructor <;> decide

/-- **C05 refuted, vanishing commutator** (witness `(3,2,IIX)`, returned
`[XIZ, YII, XIZ, ZII, XIZ]`): the public evaluation is `None`, i.e. the nested
matrix commutator is zero. -/
theorem C05_refuted_zero (returns : ℕ → ℕ → PS → List PS → Prop)
    (hobs : returns 3 2 (PS.ofLetters [.I, .I, .X])
      [PS.ofLetters [.X, .I, .Z], PS.ofLetters [.Y, .I, .I], PS.ofLetters [.X, .I, .Z],
       PS.ofLetters [.Z, .I, .I], PS.ofLetters [.X, .I, .Z]]) :
    ¬ C05_statement returns := by
  intro h
  have hv := h 3 2 _ _ (by decide) (by decide) (by decide) (by decide) (by decide) hobs
  have hb := (validSeq_sound 3 2 (by decide) (by decide) _ (by decide) (by decide) _).mpr hv
  have hi := (validSeq_iff 3 2 (by decide) (by decide) _ _).mp hb
  exact absurd hi.2.2 (by decide)

/-- non-vacuity of the validator: the sequence returned for `(3,2,YII)`,
`[ZII, XII]`, is valid — `[M(ZII), M(XII)] = c • M(YII)`, `c ≠ 0` -/
example : Valid 3 2 (PS.ofLetters [.Y, .I, .I]) [PS.ofLetters [.Z, .I, .I], PS.ofLetters [.X, .I, .I]] :=
  (validSeq_sound 3 2 (by decide) (by decide) _ (by decide) (by decide) _).mp
    ((validSeq_iff 3 2 (by decide) (by decide) _ _).mpr ⟨by decide, by decide, by decide⟩)

end C05
end PauLie
