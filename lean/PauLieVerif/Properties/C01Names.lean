/-
The library's own comparison of algebra names, next to properties C01 / C09 / C19:

  "... the low-rank coincidences so(2)=u(1), so(3)=su(2)=sp(1), so(4)=2*su(2), so(5)=sp(2),
   so(6)=su(4) count as equal."

C01 itself speaks about the algebra the classifier REPORTS against the true one; the functions
modelled here (`Classification.is_algebra`, `_parse_algebra`, `get_isomorphism`,
`contains_algebra`, `get_subalgebras`, `PauliStringCollection.is_algebra`; model
`Model/AlgebraNames.lean`) are what a user — and the repository's own tests — compare a reported
name with.  Vocabulary: `algebraText l` is the text `get_algebra()` prints for the summands `l`,
`summandText s` one summand (`2*so(3)`), `invOfName` the invariants of `Model/Classify.lean` that
identify exactly the coincidences above (`C19_coincidences`).

Proved here, for ALL inputs of the model functions:
 * soundness of `is_algebra` w.r.t. `invOfName` whenever the reported algebra has no summand
   `2*so(2)` (`C01Names_sound`), hence for everything the model classifier can report
   (`C01Names_sound_classifier`);
 * the remaining case is really unsound (`C01Names_dictionary_refuted`) — on a hand-made
   `Classification` only, the classifier cannot produce it;
 * `_parse_algebra` never fails with the IndexError of `a[1]`, and gives back a printed sum
   (`C01Names_parse_total`, `C01Names_roundtrip`);
 * `invOfName` does not depend on the order of the summands (`C01Names_invOfName_perm`).
Decided by the kernel on the listed coincidences: which of them `is_algebra` accepts
(`C01Names_coincidences`) and which it misses (`C01Names_coincidences_missed`) — completeness of
`is_algebra` is NOT part of C01 and does not hold.
-/
import PauLieVerif.Proofs.C01NamesSound
import PauLieVerif.Proofs.C01NamesClassifier
import PauLieVerif.Proofs.TieTwoLocal
import PauLieVerif.Proofs.C19Lemmas

namespace PauLie
namespace C01Names
open Classify AlgebraNames

/-- the dictionary of the model is `Classification.get_isomorphisms()` of the running package
(through `TwoLocal.isomorphisms` and the regenerated table, `Tie.iso_tie`) -/
theorem C01Names_iso_tie :
    isomorphisms.map (fun p => (String.ofList p.1, String.ofList p.2)) = Generated.isomorphisms := by
  rw [Tie.iso_tie]; decide

/-- the texts the model prints are the ones `Summand.toString` (used by the classifier commands
of C01/C09) prints -/
theorem C01Names_text_tie (s : Summand) : s.toString.toList = summandText s := by
  obtain ⟨ty, size, mult⟩ := s
  unfold summandText Summand.toString
  by_cases h : mult = 1
  · cases ty <;> simp [h, nameText, tyText, natText, TypeAlgebra.name, String.toList_append, Nat.repr, toString]
  · cases ty <;> simp [h, nameText, tyText, natText, TypeAlgebra.name, String.toList_append, Nat.repr, toString]

/-- `list.sort()` on texts: `sortTexts` returns a permutation that is sorted for the code-point
order, which is total, transitive and antisymmetric — so it is THE sorted list, whatever algorithm
Python uses -/
theorem C01Names_sort_spec (l : List Text) :
    (sortTexts l).Perm l ∧ (sortTexts l).Pairwise (fun x y => textLe x y = true) ∧
    (∀ a b, textLe a b = true ∨ textLe b a = true) ∧
    (∀ a b, textLe a b = true → textLe b a = true → a = b) :=
  ⟨sortBy_perm textLe l, sortTexts_sorted l, textLe_total, textLe_antisymm⟩

/-- **`_parse_algebra` is total up to ValueError**: it returns a non-empty list of items or raises
ValueError (a multiplicity `int()` rejects, or more than 4300 digits); the `a[1]` of the source can
never raise IndexError. -/
theorem C01Names_parse_total (t : Text) :
    (∃ items, parseAlgebra t = .ok items ∧ items ≠ []) ∨ parseAlgebra t = .error .valueError :=
  parseAlgebra_total t

example : parseAlgebra " 2 * so(3) + su(2)+so(3)".toList = .ok ["3*so(3)".toList, "su(2)".toList] := by
  decide +kernel
example : parseAlgebra "x*so(3)".toList = .error .valueError := by decide +kernel
example : parseAlgebra "2*3*so(3)".toList = .ok ["2*3".toList] := by decide +kernel
example : parseAlgebra "-1*so(3)+so(3)+".toList = .ok ["0*so(3)".toList, []] := by decide +kernel

/-- **round trip** ("parse (print l) = l"): for a non-empty list of summands with pairwise distinct
names (as `get_algebra` prints them; any multiplicities below 10^4300, 0 included) `_parse_algebra`
returns exactly the printed summands, in order. -/
theorem C01Names_roundtrip (l : List Summand) (hne : l ≠ [])
    (hn : l.Pairwise (fun a b => ¬ (a.ty = b.ty ∧ a.size = b.size)))
    (hb : ∀ s ∈ l, s.mult < 10 ^ Parser.maxStrDigits) :
    parseAlgebra (algebraText l) = .ok (l.map summandText) ∧
    splitOn '+' (algebraText l) = l.map summandText :=
  ⟨parseAlgebra_roundtrip hne hn hb, splitOn_algebraText hne⟩

example : algebraText [⟨.SO, 3, 2⟩, ⟨.U, 1, 1⟩] = "2*so(3)+u(1)".toList := by decide
/-- the hypothesis "distinct names" is needed: equal names are merged -/
example : parseAlgebra (algebraText [⟨.SO, 3, 1⟩, ⟨.SO, 3, 1⟩]) = .ok ["2*so(3)".toList] := by decide +kernel

/-- **the invariants of a name do not depend on the order of the summands** -/
theorem C01Names_invOfName_perm (l l' : List Summand) (h : l.Perm l') : invOfName l = invOfName l' :=
  invOfName_perm h

/-- **soundness of `is_algebra`** ("count as equal" never errs on the side of True): let the
reported algebra be the print of the summands `l` (non-empty), none of them the summand `2*so(2)`.
If `is_algebra(t)` answers True for a query text `t` — any text whatsoever — then `_parse_algebra`
reads `t` as a list of items that are, up to order, the texts of summands `q`, and `q` names an
algebra with the same invariants as `l`. -/
theorem C01Names_sound (l : List Summand) (hne : l ≠ []) (h2 : (⟨.SO, 2, 2⟩ : Summand) ∉ l) (t : Text)
    (h : isAlgebra (algebraText l) t = .ok true) :
    ∃ (q : List Summand) (items : List Text), parseAlgebra t = .ok items ∧ items.Perm (q.map summandText) ∧
      invOfName q = invOfName l :=
  isAlgebra_sound hne h2 h

/-- non-vacuity: an accepted respelling with a sum, white space and a multiplicity spelt as a sum -/
example : isAlgebra (algebraText [⟨.SO, 4, 1⟩, ⟨.U, 1, 1⟩]) " u(1)+su(2) + su(2)".toList = .ok true := by
  decide +kernel

/-- **soundness for everything the classifier reports**: the model classifier never reports an
`so(2)` summand, so for the algebra `l` of any classification (`algebraOfMorphs ms = .ok l`,
non-empty) a True answer of `is_algebra` is always right. -/
theorem C01Names_sound_classifier (ms : List MorphR) (l : List Summand) (hl : algebraOfMorphs ms = .ok l)
    (hne : l ≠ []) (t : Text) (h : isAlgebra (algebraText l) t = .ok true) :
    ∃ (q : List Summand) (items : List Text), parseAlgebra t = .ok items ∧ items.Perm (q.map summandText) ∧
      invOfName q = invOfName l :=
  isAlgebra_sound hne (fun hm => algebraOfMorphs_not_so2 hl _ hm ⟨rfl, rfl⟩) h

/-- **the dictionary entry `2*so(2) ↦ 2*su(2)` is unsound** (`C19_isomorphism_dictionary`): a
classification reporting `2*so(2)` answers True to `2*su(2)`, dimension 2 against 6.  Replayed on
the implementation with a `Classification` whose `get_algebra()` returns that text
(`harness/props/c01_names.py`, stream `names:table`); the classifier itself cannot report it
(`C01Names_sound_classifier`), so no collection exhibits it. -/
theorem C01Names_dictionary_refuted :
    algebraText [⟨.SO, 2, 2⟩] = "2*so(2)".toList ∧
    isAlgebra (algebraText [⟨.SO, 2, 2⟩]) (algebraText [⟨.SU, 2, 2⟩]) = .ok true ∧
    invOfName [⟨.SU, 2, 2⟩] ≠ invOfName [⟨.SO, 2, 2⟩] ∧
    (Summand.dim ⟨.SO, 2, 2⟩ = 2 ∧ Summand.dim ⟨.SU, 2, 2⟩ = 6) ∧
    -- only this multiplicity: `4*so(2)` has no isomorphic spelling at all
    getIsomorphism "4*so(2)".toList = .ok none := by
  decide +kernel

/-- the defect repaired by the `fix:` commit: before it `get_isomorphism` returned the TEXT `"None"`
for a name without an entry, and `is_algebra("None")` was True for e.g. a reported `so(5)`; now: -/
example : getIsomorphism "so(5)".toList = .ok none ∧ isAlgebra "so(5)".toList "None".toList = .ok false := by
  decide +kernel

/-- **the listed coincidences `is_algebra` accepts** (reported ⟶ query): `so(3)`⟶`su(2)`,
`so(4)`⟶`2*su(2)` also spelt `su(2)+su(2)`, with multiplicities (`k*so(3)`⟶`k*su(2)`,
`k*so(4)`⟶`2k*su(2)`), and inside a sum when the sorted orders happen to agree. -/
theorem C01Names_coincidences :
    isAlgebra "so(3)".toList "su(2)".toList = .ok true ∧
    isAlgebra "so(4)".toList "2*su(2)".toList = .ok true ∧
    isAlgebra "so(4)".toList "su(2)+su(2)".toList = .ok true ∧
    isAlgebra "2*so(3)".toList "2*su(2)".toList = .ok true ∧
    isAlgebra "3*so(3)".toList "su(2) + 2 * su(2)".toList = .ok true ∧
    isAlgebra "2*so(4)".toList "4*su(2)".toList = .ok true ∧
    isAlgebra "so(3)+u(1)".toList "u(1)+su(2)".toList = .ok true := by
  decide +kernel

/-- **the listed coincidences `is_algebra` misses** (answers False although the names are
isomorphic — equal `invOfName`): every coincidence in the direction not keyed in the dictionary,
`so(2)`/`u(1)`, `sp(1)`, `so(5)`/`sp(2)`, `so(6)`/`su(4)` in both directions, `so(4)` against the
classifier's own spelling `2*so(3)`, and a sum whose sorted order changes under the respelling.
Not a violation of C01 (which is about the reported algebra); an observation about `is_algebra`. -/
theorem C01Names_coincidences_missed :
    isAlgebra "su(2)".toList "so(3)".toList = .ok false ∧
    isAlgebra "2*su(2)".toList "so(4)".toList = .ok false ∧
    isAlgebra "2*so(3)".toList "so(4)".toList = .ok false ∧
    isAlgebra "so(2)".toList "u(1)".toList = .ok false ∧ isAlgebra "u(1)".toList "so(2)".toList = .ok false ∧
    isAlgebra "so(3)".toList "sp(1)".toList = .ok false ∧ isAlgebra "sp(1)".toList "so(3)".toList = .ok false ∧
    isAlgebra "su(2)".toList "sp(1)".toList = .ok false ∧ isAlgebra "sp(1)".toList "su(2)".toList = .ok false ∧
    isAlgebra "so(5)".toList "sp(2)".toList = .ok false ∧ isAlgebra "sp(2)".toList "so(5)".toList = .ok false ∧
    isAlgebra "so(6)".toList "su(4)".toList = .ok false ∧ isAlgebra "su(4)".toList "so(6)".toList = .ok false ∧
    isAlgebra "so(3)+sp(4)".toList "sp(4)+su(2)".toList = .ok false := by
  decide +kernel

/-- ... while the invariants of the missed pairs agree (from `C19_coincidences` and
`C01Names_invOfName_perm`) -/
theorem C01Names_coincidences_missed_inv :
    invOfName [⟨.SO, 3, 2⟩] = invOfName [⟨.SO, 4, 1⟩] ∧ invOfName [⟨.SO, 5, 1⟩] = invOfName [⟨.SP, 2, 1⟩] ∧
    invOfName [⟨.SO, 6, 1⟩] = invOfName [⟨.SU, 4, 1⟩] ∧ invOfName [⟨.SO, 2, 1⟩] = invOfName [⟨.U, 1, 1⟩] ∧
    invOfName [⟨.SP, 1, 1⟩] = invOfName [⟨.SU, 2, 1⟩] ∧
    invOfName [⟨.SO, 3, 1⟩, ⟨.SP, 4, 1⟩] = invOfName [⟨.SP, 4, 1⟩, ⟨.SU, 2, 1⟩] := by
  refine ⟨?_, C19.inv_so5_sp2 [] [] 1, C19.inv_so6_su4 [] [] 1, C19.inv_so2_u1 [] [] 1, C19.inv_sp1_su2 [] [] 1, ?_⟩
  · exact (C19.inv_so3_su2 [] [] 2).trans (C19.inv_so4_2su2 [] [] 1).symm
  · exact (C19.inv_so3_su2 [] [⟨.SP, 4, 1⟩] 1).trans (invOfName_perm (List.Perm.swap _ _ []))

/-- `contains_algebra` is a plain substring test on the reported text (the `replace(" ", "")` of the
source is lost), `get_subalgebras` a plain split -/
example : containsAlgebra "2*so(3)+u(1)".toList "so(3)".toList = true
    ∧ containsAlgebra "2*so(3)+u(1)".toList " so(3)".toList = false
    ∧ containsAlgebra "2*so(3)+u(1)".toList "o(3)+u".toList = true
    ∧ getSubalgebras "2*so(3)+u(1)".toList none = ["2*so(3)".toList, "u(1)".toList]
    ∧ getSubalgebras "2*so(3)+u(1)".toList (some "a + b".toList) = ["a ".toList, " b".toList] := by
  decide +kernel

end C01Names
end PauLie
