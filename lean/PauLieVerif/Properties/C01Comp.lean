/-
Property C01 ("the reported Lie algebra is isomorphic to the true dynamical Lie algebra"), the
clause about DISCONNECTED anticommutation graphs:

  "... for collections whose anticommutation graph is disconnected the reported algebra is the
   direct sum over the connected components ..."

Spec level (`Proofs/C19Comp.lean`, all sizes): the commutator closure of mutually commuting blocks
is the union of the closures of the blocks; a string in two of them is a common *generator* that
commutes with everything; for blocks without a common member the closures are disjoint and the
sizes add up (`C01Comp_closure`, `C01Comp_inter`, `C01Comp_size`, n-ary `C01Comp_blocks`).

Model level: the components produced by the model of `get_subgraphs()` are such blocks
(`C01Comp_subgraphs`: different components commute elementwise, share no string; the closure of the
collection is the union of the closures of the components and its size is the sum of theirs), and
the model of `get_dla_dim()` / `get_algebra()` adds up over the morphs, one per component.  Hence

  `C01_componentwise`: if for every component the reported summand has the dimension of that
  component's closure, the reported total dimension is `|Clo G|` - the dimension clause of C01/C09
  reduces to CONNECTED inputs;

  `C01_componentwise_typeA`: with `C02_closure_partial` and the closed forms of
  `Properties/C01Star.lean` the dimension clause is PROVED for every collection each of whose
  components is an isolated vertex or reduces (guarded run) to a type-A canonical star (pure
  single-leg stars and paths included) with linearly independent vertices.

NOT proved here: anything about components reducing to B types.  The invariants beyond the
dimension (`invOfClosure` of a union of blocks) are in `Properties/C01CompFull.lean` and
`Properties/C01StarFull.lean`.
-/
import PauLieVerif.Proofs.C19Comp
import PauLieVerif.Properties.C01Star
import PauLieVerif.Properties.C09

namespace PauLie
namespace C01Comp
open Closure Classify Comp C02

/-! ## 1. spec level -/

/-- **closure of two commuting blocks** = union of the closures, and the two closures commute -/
theorem C01Comp_closure {n : Nat} {A B : List V} (hA : Uniform n A) (hB : Uniform n B)
    (h : ∀ a ∈ A, ∀ b ∈ B, omega a b = false) :
    (∀ x, Clo (A ++ B) x ↔ Clo A x ∨ Clo B x) ∧
    (∀ x y, Clo A x → Clo B y → omega x y = false) :=
  ⟨clo_append hA hB h, fun _ _ hx hy => omega_clo_clo hA hB h hx hy⟩

/-- **what two commuting blocks can share**: only common generators, and these are central -/
theorem C01Comp_inter {n : Nat} {A B : List V} (hA : Uniform n A) (hB : Uniform n B)
    (h : ∀ a ∈ A, ∀ b ∈ B, omega a b = false) {x : V} (hxA : Clo A x) (hxB : Clo B x) :
    x ∈ A ∧ x ∈ B ∧ ∀ y, Clo (A ++ B) y → omega x y = false :=
  clo_inter hA hB h hxA hxB

/-- **size**: `|Clo (A ++ B)| = |Clo A| + |Clo B|` when no string is in both blocks; in general
the common generators are counted once -/
theorem C01Comp_size {n : Nat} {A B : List V} (hA : Uniform n A) (hB : Uniform n B)
    (h : ∀ a ∈ A, ∀ b ∈ B, omega a b = false) :
    ((∀ x, x ∈ A → x ∉ B) →
      (closureList (A ++ B)).1.length = (closureList A).1.length + (closureList B).1.length) ∧
    (closureList (A ++ B)).1.length + ((closureList A).1.filter (fun x => B.contains x)).length
      = (closureList A).1.length + (closureList B).1.length ∧
    (∀ x, x ∈ (closureList A).1.filter (fun x => B.contains x) ↔ x ∈ A ∧ x ∈ B) :=
  ⟨card_clo_append hA hB h, (card_clo_append_general hA hB h).1, (card_clo_append_general hA hB h).2⟩

/-- **n-ary**: a list of mutually commuting blocks -/
theorem C01Comp_blocks {n : Nat} {bs : List (List V)} (hU : ∀ A ∈ bs, Uniform n A)
    (hp : bs.Pairwise (fun A B => ∀ a ∈ A, ∀ b ∈ B, omega a b = false)) :
    (∀ x, Clo bs.flatten x ↔ ∃ A ∈ bs, Clo A x) ∧
    (bs.Pairwise (fun A B => ∀ x, x ∈ A → x ∉ B) →
      (closureList bs.flatten).1.length = (bs.map (fun A => (closureList A).1.length)).sum ∧
      bs.Pairwise (fun A B => ∀ x, Clo A x → ¬ Clo B x)) :=
  ⟨clo_flatten hU hp, fun hd => ⟨card_clo_flatten hU hp hd, clo_blocks_disjoint hU hp hd⟩⟩

/-! ## 2. the components of the model's `get_subgraphs()` -/

theorem mem_unique {α : Type} : ∀ {cs : List (List α)}, cs.Pairwise (fun c d => ∀ x, x ∈ c → x ∉ d) →
    ∀ {c c' : List α}, c ∈ cs → c' ∈ cs → ∀ {a : α}, a ∈ c → a ∈ c' → c = c'
  | [], _, _, _, hc, _, _, _, _ => by simp at hc
  | c0 :: rest, hd, c, c', hc, hc', a, ha, ha' => by
    rw [List.pairwise_cons] at hd
    rcases List.mem_cons.1 hc with e1 | h1 <;> rcases List.mem_cons.1 hc' with e2 | h2
    · rw [e1, e2]
    · subst e1; exact absurd ha' (hd.1 c' h2 a ha)
    · subst e2; exact absurd ha (hd.1 c h1 a ha')
    · exact mem_unique hd.2 h1 h2 ha ha'

theorem bits_length_of {n : Nat} {G : List PS} (hG : C14.Uniform n G) : ∀ g ∈ G, g.bits.length = 2 * n := by
  intro g hg
  obtain ⟨hwf, hl⟩ := hG g hg
  unfold PS.len at hl
  have := hwf.2.2
  omega

theorem uniform_bitsOf {n : Nat} {G : List PS} (hG : C14.Uniform n G) : Uniform n (bitsOf G) := by
  intro x hx
  obtain ⟨q, hq, rfl⟩ := mem_bitsOf.1 hx
  exact bits_length_of hG q hq

theorem bitsOf_flatten (cs : List (List PS)) : bitsOf cs.flatten = (cs.map bitsOf).flatten := by
  induction cs with
  | nil => rfl
  | cons c t ih => simp [ih]

/-- **the components are mutually commuting blocks without a common string**, so the commutator
closure of the collection is the union of the closures of the components, and its size the sum -/
theorem C01Comp_subgraphs {n : Nat} {G : List PS} (hG : C14.Uniform n G) :
    ∃ cs, Graph.getSubgraphs G = .ok cs ∧
      (∀ c ∈ cs, C14.Uniform n c) ∧
      cs.Pairwise (fun c d => ∀ a ∈ bitsOf c, ∀ b ∈ bitsOf d, omega a b = false) ∧
      cs.Pairwise (fun c d => ∀ x, x ∈ bitsOf c → x ∉ bitsOf d) ∧
      (∀ x, Clo (bitsOf G) x ↔ ∃ c ∈ cs, Clo (bitsOf c) x) ∧
      (closureList (bitsOf G)).1.length = (cs.map (fun c => (closureList (bitsOf c)).1.length)).sum := by
  obtain ⟨cs, hcs, _, hsub, hdis, _, hmem⟩ := C14.C14_subgraphs_partition hG
  obtain ⟨cs', hcs', hconn⟩ := C14.C14_subgraphs_connected hG
  rw [hcs] at hcs'
  injection hcs' with hcs'
  subst hcs'
  have hUc : ∀ c ∈ cs, C14.Uniform n c := fun c hc g hg => hG g ((hsub c hc).2.2 g hg)
  have hcomm : cs.Pairwise (fun c d => ∀ a ∈ bitsOf c, ∀ b ∈ bitsOf d, omega a b = false) := by
    refine hdis.imp_of_mem ?_
    intro c d hc hd hR a ha b hb
    obtain ⟨p, hp, rfl⟩ := mem_bitsOf.1 ha
    obtain ⟨q, hq, rfl⟩ := mem_bitsOf.1 hb
    have hpG := (hsub c hc).2.2 p hp
    have hqG := (hsub d hd).2.2 q hq
    cases ho : omega p.bits q.bits with
    | false => rfl
    | true =>
      exfalso
      have hanti : C14.anti p q := by
        unfold C14.anti
        rw [Bridge.commutesWith_omega (hG p hpG).1 (hG q hqG).1 ((hG p hpG).2.trans (hG q hqG).2.symm), ho]
        rfl
      obtain ⟨c', hc', hpc', hqc'⟩ := (hconn p hpG q hqG).2
        (C14.Connected.tail (C14.Connected.refl p) (Or.inl ⟨hpG, hqG, hanti⟩))
      have e1 : c = c' := mem_unique hdis hc hc' hp hpc'
      subst e1
      exact hR q hqc' hq
  have hdisb : cs.Pairwise (fun c d => ∀ x, x ∈ bitsOf c → x ∉ bitsOf d) := by
    refine hdis.imp_of_mem ?_
    intro c d hc hd hR x hx hx'
    obtain ⟨p, hp, rfl⟩ := mem_bitsOf.1 hx
    obtain ⟨q, hq, hqp⟩ := mem_bitsOf.1 hx'
    have := C14.eq_of_bits_eq (hUc d hd q hq).1 (hUc c hc p hp).1 hqp
    subst this
    exact hR q hp hq
  have hUb : ∀ A ∈ cs.map bitsOf, Uniform n A := by
    intro A hA
    obtain ⟨c, hc, rfl⟩ := List.mem_map.1 hA
    exact uniform_bitsOf (hUc c hc)
  have hsame : ∀ x, Clo (bitsOf G) x ↔ Clo (cs.map bitsOf).flatten x := by
    intro x
    rw [← bitsOf_flatten]
    apply cloEq_of_same_members
    intro y
    simp only [mem_bitsOf]
    constructor
    · rintro ⟨q, hq, rfl⟩; exact ⟨q, (hmem q).2 hq, rfl⟩
    · rintro ⟨q, hq, rfl⟩; exact ⟨q, (hmem q).1 hq, rfl⟩
  have hp' : (cs.map bitsOf).Pairwise Commute := (List.pairwise_map).2 hcomm
  have hd' : (cs.map bitsOf).Pairwise (fun A B => ∀ x, x ∈ A → x ∉ B) := (List.pairwise_map).2 hdisb
  refine ⟨cs, hcs, hUc, hcomm, hdisb, ?_, ?_⟩
  · intro x
    rw [hsame x, clo_flatten hUb hp' x]
    constructor
    · rintro ⟨A, hA, hx⟩
      obtain ⟨c, hc, rfl⟩ := List.mem_map.1 hA
      exact ⟨c, hc, hx⟩
    · rintro ⟨c, hc, hx⟩
      exact ⟨bitsOf c, List.mem_map.2 ⟨c, hc, rfl⟩, hx⟩
  · rw [C01Star.closureList_length_congr (uniform_bitsOf hG) (uniform_flatten hUb) hsame,
      card_clo_flatten hUb hp' hd', List.map_map]
    rfl

/-! ## 3. the classifier adds up over the components -/

theorem dlaDim_cons {m : MorphR} {ms : List MorphR} {a b : Nat} (h1 : dlaDimOfMorphs [m] = .ok a)
    (h2 : dlaDimOfMorphs ms = .ok b) : dlaDimOfMorphs (m :: ms) = .ok (a + b) := by
  unfold dlaDimOfMorphs summandsOf at *
  rw [List.mapM_cons] at h1 ⊢
  cases hs : summandOfMorph m with
  | error e => rw [hs] at h1; simp [bind, Except.bind] at h1
  | ok s =>
    rw [hs] at h1
    cases hr : ms.mapM summandOfMorph with
    | error e => rw [hr] at h2; simp [bind, Except.bind] at h2
    | ok ss =>
      rw [hr] at h2
      simp only [List.mapM_nil, bind, Except.bind, pure, Except.pure, Except.ok.injEq, List.map_cons, List.map_nil,
        List.sum_cons, List.sum_nil] at h1 h2 ⊢
      omega

theorem dlaDim_zip (f : List PS → Nat) : ∀ (cs : List (List PS)) (ms : List MorphR), cs.length = ms.length →
    (∀ c m, (c, m) ∈ cs.zip ms → dlaDimOfMorphs [m] = .ok (f c)) →
    dlaDimOfMorphs ms = .ok (cs.map f).sum
  | [], [], _, _ => rfl
  | [], _ :: _, h, _ => by simp at h
  | _ :: _, [], h, _ => by simp at h
  | c :: cs, m :: ms, h, hz => by
    have ih := dlaDim_zip f cs ms (by simpa using h) (fun c' m' hm => hz c' m' (by simp [hm]))
    simpa using dlaDim_cons (hz c m (by simp)) ih

theorem length_mapM_ok {α β : Type} (f : α → Except Err β) : ∀ (l : List α) (r : List β),
    l.mapM f = .ok r → l.length = r.length
  | [], r, h => by
    simp only [List.mapM_nil, pure, Except.pure, Except.ok.injEq] at h
    subst h; rfl
  | a :: l, r, h => by
    rw [List.mapM_cons] at h
    cases ha : f a with
    | error e => rw [ha] at h; simp [bind, Except.bind] at h
    | ok b =>
      rw [ha] at h
      cases hl : l.mapM f with
      | error e => rw [hl] at h; simp [bind, Except.bind] at h
      | ok r' =>
        rw [hl] at h
        simp only [bind, Except.bind, pure, Except.pure, Except.ok.injEq] at h
        subst h
        simp [length_mapM_ok f l r' hl]

/-- **C01 / C09, dimension clause, reduction to connected inputs.**  Let `ms` be the
classification of `G` by the model (`classify`: one morph per component `c` of `get_subgraphs()`,
in order: `cs.mapM morphOf = ms`).  If for every component the reported summand has the dimension
of that component's commutator closure, then `get_dla_dim()` reports exactly the number of Pauli
strings in the commutator closure of `G`, and the name `get_algebra()` reports has that
dimension. -/
theorem C01_componentwise {n : Nat} {G : List PS} (hG : C14.Uniform n G) {ms : List MorphR}
    (h : classify G = .ok ms) :
    ∃ cs, Graph.getSubgraphs G = .ok cs ∧ cs.mapM morphOf = .ok ms ∧
      (∀ x, Clo (bitsOf G) x ↔ ∃ c ∈ cs, Clo (bitsOf c) x) ∧
      ((∀ c m, (c, m) ∈ cs.zip ms → dlaDimOfMorphs [m] = .ok (closureList (bitsOf c)).1.length) →
        dlaDimOfMorphs ms = .ok (closureList (bitsOf G)).1.length ∧
        ∃ a, algebraOfMorphs ms = .ok a ∧ C09.sumDim a = (closureList (bitsOf G)).1.length) := by
  obtain ⟨cs, hcs, _, _, _, hclo, hcard⟩ := C01Comp_subgraphs hG
  have hm : cs.mapM morphOf = .ok ms := by
    rw [classify_eq, hcs] at h; exact h
  refine ⟨cs, hcs, hm, hclo, fun hz => ?_⟩
  have hd : dlaDimOfMorphs ms = .ok (closureList (bitsOf G)).1.length := by
    rw [hcard]
    exact dlaDim_zip _ cs ms (length_mapM_ok _ _ _ hm) hz
  refine ⟨hd, ?_⟩
  cases ha : algebraOfMorphs ms with
  | error e => rw [(C09.C09_name_dim ms).2 e ha] at hd; cases hd
  | ok a =>
    refine ⟨a, rfl, ?_⟩
    rw [(C09.C09_name_dim ms).1 a ha] at hd
    injection hd

/-! ## 4. all components isolated vertices or type-A stars: the dimension clause is proved -/

/-- the closure of a single string is that string -/
theorem card_clo_singleton {n : Nat} {v : V} (hv : v.length = 2 * n) : (closureList [v]).1.length = 1 := by
  have hU : Uniform n [v] := by intro g hg; simp at hg; subst hg; exact hv
  rw [← clo_card hU (l := [v]) (by simp) (fun x => by
    rw [C19.clo_of_commuting (G := [v]) (by
      intro a ha b hb; simp at ha hb; subst ha; subst hb; exact omega_self _)])]
  rfl

/-- what the hypothesis of `C01_componentwise_typeA` asks of one component `c` with morph `m`:
the guarded reduction succeeded, was complete and gave up nothing, and the legs are a single vertex
or a type-A canonical star passing the executable check `typeAB` (anticommutation pattern, linear
independence) -/
def GoodComponent (n : Nat) (c : List PS) (m : MorphR) : Prop :=
  guardsHold c = true ∧ m.complete = true ∧ m.unappended = [] ∧
  ((∃ v, m.legs = [[v]] ∧ v.bits.length = 2 * n) ∨
   (∃ cen l1 ls' ps, m.legs = C01Star.typeALegs cen (l1 :: ls') ps ∧ ps.length ≠ 1 ∧
      C01Star.typeAB (2 * n) cen.bits l1.bits (bitsOf ls') (bitsOf ps) = true))

theorem dlaDim_point (v : PS) (deps unapp : List PS) (tags : List String) (complete : Bool) :
    dlaDimOfMorphs [⟨[[v]], deps, unapp, tags, complete⟩] = .ok 1 := by
  simp [dlaDimOfMorphs, summandsOf, summandOfMorph, getAlgebraProperties, getProperties, algebraOfProperties,
    multiplicity, bind, Except.bind, pure, Except.pure, Summand.dim]

theorem good_component {n : Nat} {c : List PS} {m : MorphR} (hc : C14.Uniform n c) (hm : morphOf c = .ok m)
    (hg : GoodComponent n c m) : dlaDimOfMorphs [m] = .ok (closureList (bitsOf c)).1.length := by
  obtain ⟨hgd, hcomp, hun, hlegs⟩ := hg
  unfold morphOf at hm
  cases hb : Morph.build c with
  | error e => rw [hb] at hm; simp [bind, Except.bind] at hm
  | ok r =>
    rw [hb] at hm
    simp only [bind, Except.bind, pure, Except.pure, Except.ok.injEq] at hm
    subst hm
    have hlen := bits_length_of hc
    rcases hlegs with ⟨v, hl, hv⟩ | ⟨cen, l1, ls', ps, hl, hr, hA⟩
    · simp only at hl hcomp hun
      refine C01Star.C01_from_C02 (d := 1) hlen hb hgd hcomp hun ?_ ?_ ?_
      · rw [hl]; intro w hw; simp at hw; subst hw; exact hv
      · rw [hl]; simpa [bitsOf] using card_clo_singleton hv
      · rw [hl]; exact dlaDim_point ..
    · simp only at hl hcomp hun
      exact (C01Star.C01_from_C02_typeA hlen hb hgd hcomp hun hl hr hA).2.1

/-- **C01 / C09, dimension clause, PROVED for disconnected inputs with type-A components.**  If every
connected component of the collection is reduced by the guarded run (all certificate checks hold,
complete, nothing given up) to an isolated vertex or to a type-A canonical star - a centre with
`k ≥ 1` single legs and an optional long leg; pure single-leg stars and paths included - whose
vertices pass the executable check `typeAB`, then `get_dla_dim()` is exactly the number of Pauli
strings in the commutator closure of the whole collection, and `get_algebra()` names an algebra of
that dimension. -/
theorem C01_componentwise_typeA {n : Nat} {G : List PS} (hG : C14.Uniform n G) {ms : List MorphR}
    (h : classify G = .ok ms)
    (hgood : ∀ cs, Graph.getSubgraphs G = .ok cs → ∀ c m, (c, m) ∈ cs.zip ms → GoodComponent n c m) :
    dlaDimOfMorphs ms = .ok (closureList (bitsOf G)).1.length ∧
    ∃ a, algebraOfMorphs ms = .ok a ∧ C09.sumDim a = (closureList (bitsOf G)).1.length := by
  obtain ⟨cs, hcs, hUc, _⟩ := C01Comp_subgraphs hG
  obtain ⟨cs', hcs', hm, _, hfin⟩ := C01_componentwise hG h
  rw [hcs] at hcs'
  injection hcs' with hcs'
  subst hcs'
  apply hfin
  intro c m hz
  have hmem := List.of_mem_zip hz
  refine good_component (hUc c hmem.1) ?_ (hgood cs hcs c m hz)
  exact mapM_zip_ok morphOf cs ms hm c m hz
where
  mapM_zip_ok (f : List PS → Except Err MorphR) : ∀ (cs : List (List PS)) (ms : List MorphR),
      cs.mapM f = .ok ms → ∀ c m, (c, m) ∈ cs.zip ms → f c = .ok m
    | [], ms, _, c, m, hz => by simp at hz
    | c0 :: cs, ms, h, c, m, hz => by
      rw [List.mapM_cons] at h
      cases ha : f c0 with
      | error e => rw [ha] at h; simp [bind, Except.bind] at h
      | ok b =>
        rw [ha] at h
        cases hl : cs.mapM f with
        | error e => rw [hl] at h; simp [bind, Except.bind] at h
        | ok r' =>
          rw [hl] at h
          simp only [bind, Except.bind, pure, Except.pure, Except.ok.injEq] at h
          subst h
          simp only [List.zip_cons_cons, List.mem_cons, Prod.mk.injEq] at hz
          rcases hz with ⟨rfl, rfl⟩ | hz
          · exact ha
          · exact mapM_zip_ok f cs r' hl c m hz

/-! ## non-vacuity -/

section Example
private def ps (s : String) : PS := PS.ofLetters ((lettersOfString? s).getD [])

/-- two commuting copies of su(2) on two qubits and the sum of the sizes -/
example : (closureList (bitsOf [ps "XI", ps "ZI"] ++ bitsOf [ps "IX", ps "IZ"])).1.length
    = (closureList (bitsOf [ps "XI", ps "ZI"])).1.length + (closureList (bitsOf [ps "IX", ps "IZ"])).1.length :=
  (C01Comp_size (n := 2) (by decide) (by decide) (by decide)).1 (by decide)

/-- a shared central generator is counted once: `A = [XI, ZI, IX]`, `B = [IX]` -/
example : (closureList (bitsOf [ps "XI", ps "ZI", ps "IX"] ++ bitsOf [ps "IX"])).1.length = 4 ∧
    (closureList (bitsOf [ps "XI", ps "ZI", ps "IX"])).1.length = 4 ∧ (closureList (bitsOf [ps "IX"])).1.length = 1 := by
  decide +kernel

example : dlaDimOfMorphs [⟨[[ps "XI"]], [], [], [], true⟩, ⟨[[ps "IX"]], [], [], [], true⟩] = .ok 2 := by
  decide +kernel
end Example

end C01Comp
end PauLie
