/-
Property C12, proved for the model `PauLieVerif/Model/Linear.lean` of
`src/paulie/common/pauli_string_linear.py`, for every qubit count `n` and **all**
finite term lists (repeated strings, zero coefficients, cancellations, the empty
list) whose strings are well formed with `n` letters (`Valid n a`; everything the
constructor `PauliStringLinear(...)` builds from equally long strings is valid,
`C12_mk`).

  "For all linear combinations a, b of Pauli strings on the same qubits and all
   scalars c: the matrix of a@b is the matrix product, of a+b the sum, of c*a the
   scaled matrix, of a.h the conjugate transpose; the trace equals the matrix
   trace; simplification and printing do not change the denoted matrix; equality
   holds exactly when the matrices are equal (up to the stated tolerance) and
   zero-ness exactly when the matrix vanishes."

Vocabulary: `den n a = Σ (c, P) ∈ a, c • M(P)` is the `2^n × 2^n` complex matrix a
term list denotes (`M` from `Spec/PauliMatrix.lean`, the Kronecker product of the
standard Pauli matrices; the executable entry function of the model is `M`,
`entry_toComplex`); `GR.toC` embeds the exact Gaussian-rational coefficients of the model in `ℂ`.

Scope.  The coefficients of the model are exact; Python computes with `complex`
doubles.  The thresholds `abs(c) > 1e-12`, `abs(c) < 1e-12` and `np.isclose` of the
source are `c ≠ 0`, `c = 0` and `=` in the model ("up to the stated tolerance" is
therefore *exact* equality here).  Floating-point rounding is not modelled; the
correspondence check compares model and implementation exactly on dyadic
coefficients on which the float operations are exact and the tolerances coincide
with exact comparison.

Only partly proved here: the clause about *printing* (`__str__`), see
`C12_str_partial`.  Printing is modelled (`Lin.str`, including `%.8g`) and checked by
correspondence plus an oracle that parses the text back.

Beyond the clause list: `kron`, `rkron` and `quadratic` (used by C16) are proved to
denote `a ⊗ M(P)`, `M(P) ⊗ a` and `Σ c · M(S) ⊗ (M(L) M(S))` (`C12_kron`,
`C12_quadratic`).
-/
import PauLieVerif.Proofs.C12Eq
import PauLieVerif.Proofs.C12Kron

namespace PauLie
namespace C12

open Matrix Complex

/-- **Constructor.**  `PauliStringLinear(terms)` re-parses every string; from strings
of `n` letters it builds a valid combination denoting `Σ c • M(P)`. -/
theorem C12_mk (n : ℕ) (raw : List (GR × PS)) (h : ∀ t ∈ raw, t.2.len = n) :
    Valid n (Lin.mk raw) ∧ den n (Lin.mk raw) = den n raw :=
  ⟨valid_mk h, den_mk n raw⟩

example : Valid 2 (Lin.mk [(⟨1, 0⟩, PS.ofLetters [.X, .Y]), (⟨0, 1⟩, PS.ofLetters [.Z, .I])]) :=
  (C12_mk 2 _ (by decide)).1

/-- **C12, product**: "the matrix of a@b is the matrix product".  `@` answers (no
error), its result denotes `⟦a⟧ * ⟦b⟧`, and is again a valid combination on `n`
qubits unless both operands are the empty list (`[] @ []` is `0 * ''`, the zero
operator on zero qubits — it still denotes the zero matrix). -/
theorem C12_matmul (n : ℕ) (a b : Lin) (ha : Valid n a) (hb : Valid n b) :
    ∃ r, Lin.matmul a b = .ok r ∧ den n r = den n a * den n b ∧
      ((a ≠ [] ∨ b ≠ []) → Valid n r) :=
  matmul_spec ha hb

example :
    Valid 1 [(⟨1, 0⟩, PS.ofLetters [.X]), (⟨1, 0⟩, PS.ofLetters [.Z])] ∧
    Lin.matmul [(⟨1, 0⟩, PS.ofLetters [.X]), (⟨1, 0⟩, PS.ofLetters [.Z])]
        [(⟨1, 0⟩, PS.ofLetters [.X]), (⟨1, 0⟩, PS.ofLetters [.Z])]
      = .ok [(⟨2, 0⟩, PS.ofLetters [.I])] := by decide +kernel

/-- **C12, sum**: "of a+b the sum" (also `a += b`, which assigns `(a+b).combinations`). -/
theorem C12_add (n : ℕ) (a b : Lin) (ha : Valid n a) (hb : Valid n b) :
    den n (Lin.add a b) = den n a + den n b ∧ Valid n (Lin.add a b) ∧
      Lin.iadd a b = Lin.add a b :=
  ⟨den_add n a b, valid_add ha hb, rfl⟩

example :
    Lin.add [(⟨1, 0⟩, PS.ofLetters [.X]), (⟨1, 2⟩, PS.ofLetters [.Z])]
        [(⟨-1, 0⟩, PS.ofLetters [.X]), (⟨1, 0⟩, PS.ofLetters [.Z])]
      = [(⟨2, 2⟩, PS.ofLetters [.Z])] := by decide +kernel

/-- **C12, scalar multiple**: "of c*a the scaled matrix". -/
theorem C12_smul (n : ℕ) (a : Lin) (c : GR) (ha : Valid n a) :
    den n (Lin.smul a c) = c.toC • den n a ∧ Valid n (Lin.smul a c) :=
  ⟨den_smul n a c, valid_smul ha c⟩

example :
    Lin.smul [(⟨1, 0⟩, PS.ofLetters [.X]), (⟨1, 2⟩, PS.ofLetters [.Z])] ⟨0, 1⟩
      = [(⟨0, 1⟩, PS.ofLetters [.X]), (⟨-2, 1⟩, PS.ofLetters [.Z])] := by decide +kernel

/-- **C12, adjoint**: "of a.h the conjugate transpose". -/
theorem C12_h (n : ℕ) (a : Lin) (ha : Valid n a) :
    den n (Lin.h a) = (den n a)ᴴ ∧ Valid n (Lin.h a) :=
  ⟨den_h n a, valid_h ha⟩

example :
    Lin.h [(⟨1, 0⟩, PS.ofLetters [.Y]), (⟨1, 2⟩, PS.ofLetters [.Z])]
      = [(⟨1, 0⟩, PS.ofLetters [.Y]), (⟨1, -2⟩, PS.ofLetters [.Z])] := by decide +kernel

/-- **C12, trace**: "the trace equals the matrix trace" — for unsimplified lists too. -/
theorem C12_trace (n : ℕ) (a : Lin) (ha : Valid n a) :
    (Lin.trace a).toC = (den n a).trace :=
  trace_spec ha

example :
    Lin.trace [(⟨1, 0⟩, PS.ofLetters [.I]), (⟨5, 0⟩, PS.ofLetters [.X]), (⟨2, 0⟩, PS.ofLetters [.I])]
      = ⟨6, 0⟩ := by decide +kernel

/-- **C12, simplification**: "simplification … do[es] not change the denoted matrix". -/
theorem C12_simplify (n : ℕ) (a : Lin) (ha : Valid n a) :
    den n (Lin.simplify a) = den n a ∧ Valid n (Lin.simplify a) :=
  ⟨den_simplify n a, valid_simplify ha⟩

example :
    Lin.simplify [(⟨1, 0⟩, PS.ofLetters [.X]), (⟨0, 1⟩, PS.ofLetters [.Z]), (⟨-1, 0⟩, PS.ofLetters [.X])]
      = [(⟨0, 1⟩, PS.ofLetters [.Z])] ∧
    Lin.simplify [(⟨1, 0⟩, PS.ofLetters [.X]), (⟨-1, 0⟩, PS.ofLetters [.X])]
      = [(⟨0, 0⟩, PS.ofLetters [.I])] := by decide +kernel

/-- **Linear independence of the Pauli-string matrices** (trace orthogonality
`tr(M P · M Q) = 2ⁿ δ_PQ`): two term lists denote the same matrix iff the collected
coefficient of every string agrees. -/
theorem C12_independent (n : ℕ) (a b : Lin) :
    den n a = den n b ↔ ∀ P : Fin n → Letter, coef n P a = coef n P b :=
  den_eq_iff_coef a b

/-- **C12, equality**: "equality holds exactly when the matrices are equal" — whatever
the spelling (order, repeated strings, zero terms, the empty list). -/
theorem C12_eq (n : ℕ) (a b : Lin) (ha : Valid n a) (hb : Valid n b) :
    Lin.eq a b = true ↔ den n a = den n b :=
  eq_spec ha hb

example :
    Lin.eq [(⟨1, 0⟩, PS.ofLetters [.X]), (⟨0, 0⟩, PS.ofLetters [.Y]), (⟨1, 0⟩, PS.ofLetters [.X])]
        [(⟨2, 0⟩, PS.ofLetters [.X])] = true ∧
    Lin.eq [(⟨0, 0⟩, PS.ofLetters [.X])] [] = true ∧
    Lin.eq [(⟨1, 0⟩, PS.ofLetters [.X])] [(⟨1, 0⟩, PS.ofLetters [.Y])] = false := by
  decide +kernel

/-- **C12, zero-ness**: "zero-ness exactly when the matrix vanishes". -/
theorem C12_isZero (n : ℕ) (a : Lin) (ha : Valid n a) :
    Lin.isZero a = true ↔ den n a = 0 :=
  isZero_spec ha

example :
    Lin.isZero [(⟨1, 0⟩, PS.ofLetters [.X]), (⟨-1, 0⟩, PS.ofLetters [.X])] = true ∧
    Lin.isZero [(⟨1, 0⟩, PS.ofLetters [.X]), (⟨-1, 0⟩, PS.ofLetters [.Y])] = false := by
  decide +kernel

/-- **C12, dense matrix.**  For a non-empty valid combination on `n ≥ 1` qubits
`get_matrix()` answers the `2^n × 2^n` table whose rows and columns are labelled by
the bit lists `allBits n` (big-endian, as `np.kron`), and the entry at labels
`(r, c)` is the entry of the denoted matrix (every matrix index is such a label:
`idxOf_surjective`, `mem_allBits`). -/
theorem C12_getMatrix (n : ℕ) (hn : n ≠ 0) (a : Lin) (ha : Valid n a) (hne : a ≠ []) :
    Lin.getMatrix a
        = .ok ((allBits n).map (fun r => (allBits n).map (fun c => Lin.sumEntry a r c))) ∧
    ∀ r c : List Bool, r.length = n → c.length = n →
      (Lin.sumEntry a r c).toC = den n a (idxOf n r) (idxOf n c) := by
  refine ⟨?_, fun r c hr hc => toC_sumEntry ha r c hr hc⟩
  cases a with
  | nil => exact absurd rfl hne
  | cons t a =>
    have ht : t.2.len = n := (ha t (List.mem_cons_self ..)).2
    simp only [Lin.getMatrix, ht, matCheck_valid hn ha]

example :
    Lin.getMatrix [(⟨1, 0⟩, PS.ofLetters [.X]), (⟨0, 1⟩, PS.ofLetters [.Z])]
      = .ok [[⟨0, 1⟩, ⟨1, 0⟩], [⟨1, 0⟩, ⟨0, -1⟩]] := by decide +kernel

/-- **Known finding, as modelled.**  The empty combination denotes the zero matrix
(`den n [] = 0` for every `n`) but has no qubit count; `get_matrix()` raises
`IndexError` (`self[0]`).  Recorded in `known_findings.json`. -/
theorem C12_getMatrix_empty : Lin.getMatrix [] = .error .indexError ∧ ∀ n, den n [] = 0 :=
  ⟨rfl, fun _ => rfl⟩

/-- **Unequal lengths.**  A product of combinations on different qubit counts raises
`ValueError` (from `PauliString.sign`), it is never answered. -/
theorem C12_matmul_length (n m : ℕ) (a b : Lin) (ha : Valid n a) (hb : Valid m b)
    (hne : a ≠ []) (hnb : b ≠ []) (hnm : n ≠ m) :
    Lin.matmul a b = .error .valueError := by
  cases a with
  | nil => exact absurd rfl hne
  | cons ta a =>
    cases b with
    | nil => exact absurd rfl hnb
    | cons tb b =>
      have h1 := ha ta (List.mem_cons_self ..)
      have h2 := hb tb (List.mem_cons_self ..)
      have hs := (C04.C04_length ta.2 tb.2 h1.1 h2.1 (by rw [h1.2, h2.2]; exact hnm)).1
      simp [Lin.matmul, Lin.mulAll, Lin.mulRow, Lin.mulTerm, hs, bind, Except.bind]

example :
    Lin.matmul [(⟨1, 0⟩, PS.ofLetters [.X])] [(⟨1, 0⟩, PS.ofLetters [.X, .X])]
      = .error .valueError := by decide +kernel

/-- **Tensor products** (not in the clause list; used by the second-moment code).
`kron(P)` denotes `⟦a⟧ ⊗ M(P)` and `rkron(P)` denotes `M(P) ⊗ ⟦a⟧`, entry by entry: an
index of the `n + m` qubit matrix is `Fin.append r r'` (first the `n` bits `r`). -/
theorem C12_kron (n m : ℕ) (a : Lin) (p : PS) (ha : Valid n a) (hp : p.WF ∧ p.len = m) :
    Valid (n + m) (Lin.kron a p) ∧ Valid (m + n) (Lin.rkron a p) ∧
    ∀ (r c : Fin n → Fin 2) (r' c' : Fin m → Fin 2),
      den (n + m) (Lin.kron a p) (Fin.append r r') (Fin.append c c')
        = den n a r c * M (p.vec m) r' c' ∧
      den (m + n) (Lin.rkron a p) (Fin.append r' r) (Fin.append c' c)
        = M (p.vec m) r' c' * den n a r c :=
  ⟨(valid_kron ha hp).1, (valid_kron ha hp).2,
    fun r c r' c' => ⟨kron_spec ha hp r c r' c', rkron_spec ha hp r c r' c'⟩⟩

example :
    Lin.kron [(⟨1, 2⟩, PS.ofLetters [.X])] (PS.ofLetters [.Z]) = [(⟨1, 2⟩, PS.ofLetters [.X, .Z])] ∧
    Lin.rkron [(⟨1, 2⟩, PS.ofLetters [.X])] (PS.ofLetters [.Z]) = [(⟨1, 2⟩, PS.ofLetters [.Z, .X])] := by
  decide +kernel

/-- **`quadratic(L)`** (not in the clause list; the building block of C16): for a
Pauli string `L` and a valid combination `a = Σ c·S` on the same `n` qubits it
answers a valid combination on `2n` qubits denoting `Σ c · M(S) ⊗ (M(L) · M(S))`
(`quadSum`, entry by entry as for `C12_kron`). -/
theorem C12_quadratic (n : ℕ) (a : Lin) (L : PS) (hL : L.WF ∧ L.len = n) (ha : Valid n a) :
    ∃ q, Lin.quadratic a L = .ok q ∧ Valid (n + n) q ∧
      ∀ r c r' c' : Fin n → Fin 2,
        den (n + n) q (Fin.append r r') (Fin.append c c') = quadSum n (L.vec n) a r c r' c' :=
  quadratic_spec hL ha

example :
    Lin.quadratic [(⟨1, 0⟩, PS.ofLetters [.X]), (⟨2, 0⟩, PS.ofLetters [.Z])] (PS.ofLetters [.Y])
      = .ok [(⟨0, -1⟩, PS.ofLetters [.X, .Z]), (⟨0, 2⟩, PS.ofLetters [.Z, .X])] := by decide +kernel

/-- **C12, printing — partial.**  "… and printing do not change the denoted matrix."
Proved: `str(a)` is `0*I…I` exactly when the denoted matrix is zero; otherwise it is
the `" + "`/`" - "` join of `_format_term(c, P)` over a term list `ts` (the simplified
terms sorted by string) that denotes the same matrix as `a`.
**Missing**: that the text determines `ts` — i.e. that `_format_term` and the join can
be parsed back.  This holds only up to the 8 significant digits of `%.8g` (exactly,
when the collected coefficients have at most 8 significant decimal digits); it is
checked on every generated input by the oracle of the correspondence check, which
parses the implementation's text back and compares coefficients, not by a theorem. -/
theorem C12_str_partial (n : ℕ) (a : Lin) (ha : Valid n a) :
    (den n a = 0 →
      Lin.str a = "0*" ++ String.ofList (List.replicate (Lin.getSize a) 'I')) ∧
    (den n a ≠ 0 → ∃ ts : Lin, den n ts = den n a ∧ Valid n ts ∧
      Lin.str a = joinTerms (ts.map (fun t => Lin.formatTerm t.1 t.2.toString))) := by
  rw [str_eq]
  constructor
  · intro h
    rw [if_pos ((isZero_spec ha).mpr h)]
  · intro h
    have hz : ¬ Lin.isZero a = true := fun hz => h ((isZero_spec ha).mp hz)
    refine ⟨Lin.sortTerms (Lin.simplify a), ?_, ?_, by rw [if_neg hz]⟩
    · rw [den_sortTerms, den_simplify]
    · exact valid_sortTerms (valid_simplify ha)

example :
    Lin.str [(⟨3/2, 0⟩, PS.ofLetters [.X]), (⟨2, -1⟩, PS.ofLetters [.Y]), (⟨0, 1⟩, PS.ofLetters [.Z]),
        (⟨-1, 0⟩, PS.ofLetters [.I]), (⟨0, 1/2⟩, PS.ofLetters [.X])]
      = "-I + (1.5+0.5i)*X + (2-i)*Y + i*Z" ∧
    Lin.str [(⟨1, 0⟩, PS.ofLetters [.X]), (⟨-1, 0⟩, PS.ofLetters [.X])] = "0*I" := by
  decide +kernel

end C12
end PauLie
