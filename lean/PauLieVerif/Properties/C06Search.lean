/-
Property C06 on the MODEL OF THE SEARCH (`Model/CompilerSearch.lean`, tied to
`application/pauli_compiler.py` by exact correspondence on every target with `N ≤ 4/5` and on
the samples up to `N = 8`):

  "For every non-identity Pauli string of length N>=3 and every left-block size
   2<=k<N, compilation terminates and returns a sequence instead of raising."

* `C06_refuted` — FALSE: `compile_target("IXXX", k_left=3)` raises `RuntimeError` in
  `left_map_over_a` — a run of the model evaluated by the kernel (`decide +kernel`; the
  whole pipeline: guards, constructors, `subsystem_compiler`, the breadth-first search over
  the 64 left strings until the queue is empty);
* `C06_refuted_left_only`, `C06_refuted_even_k` — the two other kinds of raise
  (`"Left-only mapping failed."` at `(4,3,IXXI)`; `left_map_over_a` at even `k`, `(5,2,IIXXX)`);
* `compileTarget_guards` — outside `2 ≤ k < N` it is `ValueError`;
* `left_search_sound`, `left_search_complete` — `left_map_over_a` (breadth-first search) for ALL
  inputs: a returned sequence is a walk over the given generators from the start to the goal, and
  `RuntimeError("Left map BFS failed.")` is raised ONLY IF no such walk exists;
* `left_search_odd_obstruction`, `C06_fails_odd_wI` — why odd `k` fails, for EVERY `N` and every
  odd `k`: the form `Q` of C07 is constant along walks over `left_a_minimal(k)`, so strings of
  different `Q` are never joined, and `compile_target` returns NOTHING for a target `V ⊗ I…I` whose
  left block has an even number of non-identity letters.
That the fuel of the model's loops is never exhausted, and the exact exceptions for odd `k`, are in
`Properties/C06Total.lean`.  Not proved: that the raise at even `k` is unavoidable for those targets.
-/
import PauLieVerif.Proofs.CompilerSearchOdd
import PauLieVerif.Properties.C06

namespace PauLie
namespace C06

open Compiler CompilerSearch

/-- C06 for the model of `compile_target` -/
def C06_statement : Prop :=
  ∀ (N k : ℕ) (t : PS), 3 ≤ N → 2 ≤ k → k < N → t.WF → t.len = N → t.isIdentity = false →
    ∃ s, compileTarget t (k : Int) = .ok s

/-- the run of the model on `(N,k,target) = (4,3,IXXX)`: `RuntimeError` raised in `left_map_over_a` -/
theorem C06_refuted_run :
    compileTarget (PS.ofLetters [.I, .X, .X, .X]) 3 = .error ⟨.runtimeError, .leftMapOverA⟩ := by
  rw [show (3 : Int) = ((3 : Nat) : Int) from rfl, compileTarget_eq _ 3 4 (by decide) (by decide) (by decide)]
  decide +kernel

/-- **C06 refuted**: "compilation … returns a sequence instead of raising" fails for
`IXXX` with `k = 3` -/
theorem C06_refuted : ¬ C06_statement := by
  intro h
  obtain ⟨s, hs⟩ := h 4 3 (PS.ofLetters [.I, .X, .X, .X]) (by decide) (by decide) (by decide) (by decide)
    (by decide) (by decide)
  rw [show ((3 : ℕ) : Int) = 3 from rfl, C06_refuted_run] at hs
  cases hs

/-- the second kind of raise, `RuntimeError("Left-only mapping failed.")` from `compile` itself:
all `2k+1` searches of the `W = I` branch fail for `IXXI`, `k = 3` -/
theorem C06_refuted_left_only :
    compileTarget (PS.ofLetters [.I, .X, .X, .I]) 3 = .error ⟨.runtimeError, .compile⟩ := by
  rw [show (3 : Int) = ((3 : Nat) : Int) from rfl, compileTarget_eq _ 3 4 (by decide) (by decide) (by decide)]
  decide +kernel

/-- a raise at EVEN `k` (where the generating set is universal, so no obstruction of the kind of
`C06_obstruction_odd` exists): `IIXXX`, `k = 2`, in the `V = I` branch — the search starts from the
fallback left factor of a vanishing commutator -/
theorem C06_refuted_even_k :
    compileTarget (PS.ofLetters [.I, .I, .X, .X, .X]) 2 = .error ⟨.runtimeError, .leftMapOverA⟩ := by
  rw [show (2 : Int) = ((2 : Nat) : Int) from rfl, compileTarget_eq _ 2 5 (by decide) (by decide) (by decide)]
  decide +kernel

/-- the recorded observations of the first slice (`Compiler.observedRaises`, replayed on the
implementation on every run) are what the model computes: same exception type, same function -/
theorem observed_raises_are_model_runs :
    ∀ x ∈ observedRaises, ∃ e, compileTarget x.1.2.2 x.1.2.1 = .error e ∧ e.toString = x.2 := by
  intro x hx
  simp only [observedRaises, List.mem_cons, List.mem_nil_iff, or_false] at hx
  rcases hx with rfl | rfl | rfl
  · exact ⟨_, C06_refuted_run, by decide⟩
  · exact ⟨_, C06_refuted_left_only, by decide⟩
  · exact ⟨_, C06_refuted_even_k, by decide⟩

/-- non-vacuity: the model does return for other inputs — `YII`, `k = 2` gives `[ZII, XII]`
through the verified return of the `W = I` branch -/
example : compileTargetB (PS.ofLetters [.Y, .I, .I]) 2
    = .ok (.wI, [PS.ofLetters [.Z, .I, .I], PS.ofLetters [.X, .I, .I]]) := by
  rw [show (2 : Int) = ((2 : Nat) : Int) from rfl, compileTargetB_eq _ 2 3 (by decide) (by decide) (by decide)]
  decide +kernel

/-- **guards, end to end** (all targets, all `k`): outside `1 ≤ k < len` the model raises
`ValueError` in `compile_target`; for `k = 1` in the constructor -/
theorem compileTarget_guards (t : PS) :
    (∀ k : Int, ¬ (1 ≤ k ∧ k < (t.len : Int)) → compileTarget t k = .error ⟨.valueError, .compileTarget⟩) ∧
    (1 < t.len → compileTarget t 1 = .error ⟨.valueError, .init⟩) :=
  ⟨fun k h => compileTarget_guard t k h, compileTarget_guard_init t⟩

/-- **the left search is sound** (all inputs): whenever `left_map_over_a(V_from, V_to, A)` returns, the
sequence is a walk — each element is one of `A`, anticommutes with the string reached so far, the
product is the next string — from `V_from` to a string that reads as `V_to` -/
theorem left_search_sound (f t : PS) (A path : List PS) (h : leftMapOverA f t A = .ok path) :
    ∃ r, Walk A f path r ∧ r.letters = t.letters :=
  leftMapOverA_sound f t A path h

/-- **the left search is complete** (all inputs with a start string whose views are derived from its
bits — every string the compiler builds): it raises `RuntimeError("Left map BFS failed.")` only if NO
walk over `A` leads from `V_from` to a string that reads as `V_to` -/
theorem left_search_complete (f t : PS) (A : List PS) (hf : f = PS.ofBits f.bits)
    (h : leftMapOverA f t A = .error ⟨.runtimeError, .leftMapOverA⟩) :
    ∀ l r, Walk A f l r → r.letters ≠ t.letters :=
  leftMapOverA_complete f t A hf h

/-- non-vacuity of both: a search that succeeds and one that fails, by kernel evaluation -/
example : leftMapOverA (PS.ofLetters [.X, .I]) (PS.ofLetters [.Y, .Z]) (aset 2)
    = .ok [PS.ofLetters [.Z, .Z]] := by decide +kernel
example : leftMapOverA (PS.ofLetters [.X, .I, .I]) (PS.ofLetters [.I, .X, .X]) (aset 3)
    = .error ⟨.runtimeError, .leftMapOverA⟩ := by decide +kernel

/-- **obstruction of the left search for odd `k`** (every odd `k`): start and goal of different parity
of the number of non-identity letters are never joined — `left_map_over_a` cannot return -/
theorem left_search_odd_obstruction (k : ℕ) (hodd : k % 2 = 1) (f t : PS) (hf : f.WF) (hfk : f.len = k)
    (hq : C07.QL k f.letters ≠ C07.QL k t.letters) (path : List PS) :
    leftMapOverA f t (aset k) ≠ .ok path :=
  leftMapOverA_odd_obstruction k hodd f t hf hfk hq path

/-- **C06 fails for every `N` and every odd `k`** (clause "compilation terminates and returns a sequence
instead of raising"): for a target whose right block is the identity and whose left block has an even
number of non-identity letters, the model of `compile_target` never returns a sequence -/
theorem C06_fails_odd_wI (N k : ℕ) (t : PS) (hN : t.len = N) (hk : 2 ≤ k) (hkN : k < N) (hodd : k % 2 = 1)
    (hW : (t.getSubstring (k : Int) ((N : Int) - (k : Int))).isIdentity = true)
    (hQ : C07.QL k (t.letters.take k) = false) (s : List PS) :
    compileTarget t (k : Int) ≠ .ok s :=
  compileTarget_odd_wI_never_returns t k N hN hk hkN hodd hW hQ s

/-- non-vacuity: the hypotheses are met by the witness `IXXI`, `k = 3` of `C06_refuted_left_only` -/
example : ∀ s, compileTarget (PS.ofLetters [.I, .X, .X, .I]) 3 ≠ .ok s :=
  C06_fails_odd_wI 4 3 _ (by decide) (by decide) (by decide) (by decide) (by decide) (by decide)

end C06
end PauLie
