/-
Property C19 (two-local reference table), the families with table row `su(2^n)`:

    a18, a19, a21, a22 for ALL n ≥ 3;      a12, a17 for ALL n ≥ 4

(at n = 3 the rows a12, a17 are wrong: `C19_refuted`).  For each: the commutator closure of the
translated generators is the set of ALL non-identity Pauli strings on n qubits, and it has
`4^n − 1 = dim su(2^n)` members - the dimension clause of the row.

How: on a window of 3 (resp. 4) sites the verified enumerator, evaluated by the kernel, returns all 63
(resp. 255) non-identity strings (`Proofs/C19SuK3.lean`, `C19SuK4a/b.lean`); every pair of
neighbouring sites of a longer chain lies in such a window and the translates inside it are the
embedded translates of the short chain (`Proofs/C19Window.lean`); a commutator-closed set containing
all two-site strings contains every non-identity string (`full_of_windows`).

NOT proved for these six rows: the invariants beyond the dimension (one block, series label - the
checker's `labelOfName` for su(m) goes through an integer square root); they are decided per n by
the check.  With `Properties/C19Rows.lean`: 9 rows proved with all invariants, 6 more with the
dimension, for every n (≥ 3, resp. ≥ 4); the other 13 rows (a3, a5–a7, a9–a11, a13, a15, a16, a20,
b2, b4) per (family, n) only.
-/
import PauLieVerif.Properties.C19More
import PauLieVerif.Proofs.C19SuK4a
import PauLieVerif.Proofs.C19SuK4b

namespace PauLie
namespace C19
open TwoLocal Classify Closure C01Star

theorem dimOfName_su_pow (n : Nat) : dimOfName [su (2 ^ n)] = 4 ^ n - 1 := by
  have : (2 ^ n) ^ 2 = 4 ^ n := by
    rw [← Nat.pow_mul, Nat.mul_comm, Nat.pow_mul]
  simp [dimOfName, Summand.dim, su, dimSU, this]

/-- what is proved of a row `su(2^n)`: the closure is the set of all non-identity strings, and its size
is the dimension of the row -/
def FullRow (f : Fam) (n : Nat) : Prop :=
  (∀ x, Clo (klocalBits f n) x ↔ x.length = 2 * n ∧ x ≠ zeroV (2 * n)) ∧
  (closureList (klocalBits f n)).1.length = 4 ^ n - 1 ∧
  tlName f n = some [su (2 ^ n)] ∧ dimOfName [su (2 ^ n)] = 4 ^ n - 1

theorem fullRow_of {f : Fam} {gs : List V} (hf : f.gensPS = gs.map PS.ofBits) (hne : gs ≠ [])
    (hg : ∀ g ∈ gs, g.length = 4) (hg0 : ∀ g ∈ gs, g ≠ zeroV 4) {w : Nat} (hw : 2 ≤ w)
    (hwin : (nonzeroV (2 * w)).all (fun y => (closureList (klocalV w gs)).1.contains y) = true)
    (ht : ∀ n, tlName f n = some [su (2 ^ n)]) {n : Nat} (hn : w ≤ n) : FullRow f n := by
  have hb : klocalBits f n = klocalV n gs := klocalBits_eq hf (by omega) hne hg
  rw [FullRow, hb]
  exact ⟨clo_full_of_window hg hg0 hw (window_of_list hg hwin) hn,
    card_full_of_window hg hg0 hw (window_of_list hg hwin) hn, ht n, dimOfName_su_pow n⟩

/-- **a18** (`XX`, `XZ`, `YY`, `ZY`), all n ≥ 3 -/
theorem C19_a18 (n : Nat) (hn : 3 ≤ n) : FullRow .a18 n :=
  fullRow_of (gs := gensA18) rfl (by simp [gensA18]) (by simp [gensA18, vXX, vXZ, vYY, vZY]) (by decide)
    (w := 3) (by omega) window3_a18 (fun _ => rfl) hn

/-- **a19** (`XX`, `XY`, `ZX`, `YZ`), all n ≥ 3 -/
theorem C19_a19 (n : Nat) (hn : 3 ≤ n) : FullRow .a19 n :=
  fullRow_of (gs := gensA19) rfl (by simp [gensA19]) (by simp [gensA19, vXX, vXY, vZX, vYZ]) (by decide)
    (w := 3) (by omega) window3_a19 (fun _ => rfl) hn

/-- **a21** (`XX`, `YY`, `XY`, `ZX`), all n ≥ 3 -/
theorem C19_a21 (n : Nat) (hn : 3 ≤ n) : FullRow .a21 n :=
  fullRow_of (gs := gensA21) rfl (by simp [gensA21]) (by simp [gensA21, vXX, vYY, vXY, vZX]) (by decide)
    (w := 3) (by omega) window3_a21 (fun _ => rfl) hn

/-- **a22** (`XX`, `XY`, `XZ`, `YX`), all n ≥ 3 -/
theorem C19_a22 (n : Nat) (hn : 3 ≤ n) : FullRow .a22 n :=
  fullRow_of (gs := gensA22) rfl (by simp [gensA22]) (by simp [gensA22, vXX, vXY, vXZ, vYX]) (by decide)
    (w := 3) (by omega) window3_a22 (fun _ => rfl) hn

/-- **a12** (`XX`, `XY`, `YZ`), all n ≥ 4 (the row is wrong at n = 3) -/
theorem C19_a12 (n : Nat) (hn : 4 ≤ n) : FullRow .a12 n :=
  fullRow_of (gs := gensA12) rfl (by simp [gensA12]) (by simp [gensA12, vXX, vXY, vYZ]) (by decide)
    (w := 4) (by omega) window4_a12 (fun _ => rfl) hn

/-- **a17** (`XX`, `XY`, `ZX`), all n ≥ 4 (the row is wrong at n = 3) -/
theorem C19_a17 (n : Nat) (hn : 4 ≤ n) : FullRow .a17 n :=
  fullRow_of (gs := gensA17) rfl (by simp [gensA17]) (by simp [gensA17, vXX, vXY, vZX]) (by decide)
    (w := 4) (by omega) window4_a17 (fun _ => rfl) hn

/-- **C19, dimension clause, fifteen families for all n**: a0, a1, a2, a4, a8, a14, b0, b1, b3 (n ≥ 3,
`C19_dimension`; these nine also with all invariants, `C19_rows`), a18, a19, a21, a22 (n ≥ 3) and a12,
a17 (n ≥ 4) -/
theorem C19_dimension_su (n : Nat) (hn : 3 ≤ n) :
    DimRow .a18 n ∧ DimRow .a19 n ∧ DimRow .a21 n ∧ DimRow .a22 n ∧ (4 ≤ n → DimRow .a12 n ∧ DimRow .a17 n) := by
  have d : ∀ {f : Fam}, FullRow f n → DimRow f n := fun h => ⟨_, h.2.2.1, by rw [h.2.1, h.2.2.2]⟩
  exact ⟨d (C19_a18 n hn), d (C19_a19 n hn), d (C19_a21 n hn), d (C19_a22 n hn),
    fun h4 => ⟨d (C19_a12 n h4), d (C19_a17 n h4)⟩⟩

/-! non-vacuity -/
example : (nonzeroV 4).length = 15 ∧ emb 4 2 1 [true, false, false, true] = [false, false, true, false, false, true, false, false] := by
  decide
example : tlName .a12 5 = some [su 32] ∧ dimOfName [su 32] = 4 ^ 5 - 1 := by decide

end C19
end PauLie
